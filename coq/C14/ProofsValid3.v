(* C14 -- soundness (well-formedness), step lemmas part 2: primaries, suffixes,
   lists, comprehensions; and the induction over fuel. *)
From Coq Require Import ZArith List String Bool Arith Lia.
From SV Require Import C14.Tokens C14.Parse C14.Print C14.ProofsBase C14.ProofsExpr
  C14.ProofsLists C14.ProofsArgs C14.ProofsClauses C14.ProofsPrim C14.ProofsSuffix C14.ProofsMain
  C14.ProofsValid C14.ProofsValid2.
Import ListNotations.
Open Scope nat_scope.

Lemma good13 e : wp e = true -> isx e = true -> lvl e = L_PRIM -> good L_UNARY e /\ (lvl e = L_UNARY -> False).
Proof. intros Hw Hi Hl. unfold good, L_PRIM, L_UNARY in *. repeat split; auto; lia. Qed.

Lemma noparen_lvl x : L_TEST <= lvl x -> noparen_ok x = true.
Proof. destruct x; try reflexivity. cbn. unfold L_TEST, L_EXPR. lia. Qed.

Lemma loopvars_unary v : lvl v <> L_EXPR -> loopvars_ok v = unary_ok v.
Proof. destruct v; try reflexivity. cbn. unfold L_EXPR. congruence. Qed.

Definition close2 (t : tok) : bool := match t with RPAREN | EOF => true | _ => false end.
Definition arg_special (t : tok) : bool := match t with RPAREN | STAR | STARSTAR => true | _ => false end.
Definition colon_rbrack (t : tok) : bool := match t with COLON | RBRACK => true | _ => false end.

Section Step.
Variable self : P.
Hypothesis V : Valid self.

Lemma vs_primSuffix ts e r : primSuffix_body self ts = Ok (e, r) ->
  good L_UNARY e /\ is_suffix_start (peek r) = false.
Proof.
  unfold primSuffix_body. destruct (p_primary self ts) as [[x ts1]| |] eqn:E1; try discriminate.
  destruct (v_primary _ V _ _ _ E1) as [Gx Hx]. intros H. eapply (v_suffixLoop _ V); eauto.
Qed.

(* ---- slices ---- *)
Definition lo_ok (lo : option expr) : Prop :=
  match lo with Some y => good L_EXPR y /\ noparen_ok y = true | None => True end.

Lemma vs_sliceRest x lb lo ts e r :
  sliceRest self x lb lo ts = Ok (e, r) -> wp x = true -> at_level L_PRIM x = true -> lo_ok lo ->
  wp e = true /\ isx e = true /\ lvl e = L_PRIM.
Proof.
  unfold sliceRest. intros H Hwx Hax Hlo.
  match type of H with context [match ?X with Ok _ => _ | Err => Err | OutOfFuel => OutOfFuel end] =>
    destruct X as [[hi ts2]| |] eqn:EH; try discriminate end.
  assert (Hhi : opt_ok hi = true).
  { tok_case (peek ts) COLON.
    - rewrite E in EH. destruct (colon_rbrack (peek (tl ts))) eqn:EC.
      + destruct (peek (tl ts)); try discriminate EC; inv EH; reflexivity.
      + assert (Hm : forall (a b : PR (option expr)), match peek (tl ts) with COLON | RBRACK => a | _ => b end = b)
          by (intros a b; destruct (peek (tl ts)); try discriminate EC; reflexivity).
        rewrite Hm in EH. destruct (p_test self (tl ts)) as [[h t]| |] eqn:E1; try discriminate. inv EH.
        cbn [opt_ok]. apply good_test_ok. eapply (v_test _ V); eauto.
    - rewrite not_COLON_match in EH by assumption. inv EH. reflexivity. }
  match type of H with context [match ?X with Ok _ => _ | Err => Err | OutOfFuel => OutOfFuel end] =>
    destruct X as [[[step c2] ts3]| |] eqn:ES; try discriminate end.
  assert (Hst : opt_ok step = true /\ (match step with Some _ => c2 | None => true end) = true).
  { tok_case (peek ts2) COLON.
    - rewrite E in ES. tok_case (peek (tl ts2)) RBRACK.
      + rewrite E0 in ES. inv ES. split; reflexivity.
      + rewrite not_RBRACK_match in ES by assumption.
        destruct (p_test self (tl ts2)) as [[s t]| |] eqn:E1; try discriminate. inv ES.
        split; [|reflexivity]. cbn [opt_ok]. apply good_test_ok. eapply (v_test _ V); eauto.
    - rewrite not_COLON_match in ES by assumption. inv ES. split; reflexivity. }
  destruct Hst as [Hst Hc].
  tok_case (peek ts3) RBRACK; [rewrite E in H|rewrite not_RBRACK_match in H by assumption; discriminate].
  inv H. split; [|split; reflexivity].
  cbn [wp]. rewrite Hwx, Hax. cbn [andb].
  assert (L1 : (match lo with Some x0 => wp x0 && at_level L_EXPR x0 | None => true end) = true).
  { destruct lo as [y|]; [|reflexivity]. destruct Hlo as [G _]. apply (good_at _ _ G). }
  assert (L2 : (match lo with Some y => noparen_ok y | None => true end) = true).
  { destruct lo as [y|]; [|reflexivity]. apply Hlo. }
  assert (L3 : (match hi with Some x0 => wp x0 && at_level L_TEST x0 | None => true end) = true)
    by (destruct hi; exact Hhi).
  assert (L4 : (match step with Some x0 => wp x0 && at_level L_TEST x0 | None => true end) = true)
    by (destruct step; exact Hst).
  rewrite L1, L2, L3, L4. exact Hc.
Qed.

Lemma vs_sliceSuffix x lb ts e r :
  sliceSuffix self x lb ts = Ok (e, r) -> wp x = true -> at_level L_PRIM x = true ->
  wp e = true /\ isx e = true /\ lvl e = L_PRIM.
Proof.
  unfold sliceSuffix. intros H Hwx Hax.
  tok_case (peek ts) COLON.
  - rewrite E in H. eapply vs_sliceRest; eauto. exact I.
  - rewrite not_COLON_match in H by assumption.
    destruct (p_expr self false ts) as [[y ts1]| |] eqn:E1; try discriminate.
    destruct (v_expr _ V _ _ _ _ E1) as [Gy Hn]. specialize (Hn eq_refl).
    tok_case (peek ts1) RBRACK.
    + rewrite E in H. inv H. split; [|split; reflexivity].
      cbn [wp]. rewrite Hwx, Hax, Hn. rewrite (good_wp _ _ Gy), (good_al _ _ Gy). reflexivity.
    + rewrite not_RBRACK_match in H by assumption. eapply vs_sliceRest; eauto. split; assumption.
Qed.

Lemma vs_callSuffix fn lp ts e r :
  callSuffix self fn lp ts = Ok (e, r) -> wp fn = true -> at_level L_PRIM fn = true ->
  wp e = true /\ isx e = true /\ lvl e = L_PRIM.
Proof.
  unfold callSuffix. intros H Hw Ha.
  tok_case (peek ts) RPAREN.
  - rewrite E in H. inv H. split; [|split; reflexivity]. rewrite wp_Call. rewrite Hw, Ha. reflexivity.
  - rewrite not_RPAREN_match in H by assumption.
    destruct (p_args self true ts) as [[[args tc] ts1]| |] eqn:E1; try discriminate.
    destruct (v_args _ V _ _ _ _ _ E1) as [Hall Htc].
    tok_case (peek ts1) RPAREN; [rewrite E in H|rewrite not_RPAREN_match in H by assumption; discriminate].
    inv H. split; [|split; reflexivity]. rewrite wp_Call. rewrite Hw, Ha, Hall. cbn [andb].
    destruct tc; [|reflexivity]. destruct (Htc eq_refl) as [Hc|Hc]; [discriminate Hc|]. destruct args; [congruence|reflexivity].
Qed.

Lemma vs_suffixLoop x ts e r : suffixLoop_body self x ts = Ok (e, r) ->
  good L_UNARY x -> (lvl x = L_UNARY -> is_suffix_start (peek ts) = false) ->
  good L_UNARY e /\ is_suffix_start (peek r) = false.
Proof.
  unfold suffixLoop_body. cbv zeta. intros H Gx Hx.
  destruct (is_suffix_start (peek ts)) eqn:ES.
  2:{ rewrite (not_suffix_match _ _ _ _ _ ES) in H. inv H. auto. }
  assert (Hl : lvl x = L_PRIM).
  { pose proof (lvl_le13 x). destruct Gx as (_ & _ & Hl). unfold L_PRIM, L_UNARY in *.
    destruct (Nat.eq_dec (lvl x) 12) as [E12|]; [|lia]. discriminate (Hx E12). }
  destruct Gx as (Hwx & Hix & _).
  assert (Hax : at_level L_PRIM x = true) by (apply at_level_intro; [assumption|lia]).
  assert (next : forall x' ts', wp x' = true /\ isx x' = true /\ lvl x' = L_PRIM ->
                 p_suffixLoop self x' ts' = Ok (e, r) -> good L_UNARY e /\ is_suffix_start (peek r) = false).
  { intros x' ts' (Hw' & Hi' & Hl') H'. eapply (v_suffixLoop _ V); eauto.
    - repeat split; auto. unfold L_PRIM, L_UNARY in *. lia.
    - unfold L_PRIM, L_UNARY in *. intros; lia. }
  destruct (peek ts) eqn:Ep; try discriminate ES.
  - (* DOT *)
    destruct (peek (tl ts)) eqn:Ei; try discriminate.
    eapply next; [|exact H]. split; [|split; reflexivity]. cbn [wp]. rewrite Hwx, Hax. reflexivity.
  - (* LPAREN *)
    destruct (callSuffix self x (peekpos ts) (tl ts)) as [[x' ts1]| |] eqn:E1; try discriminate.
    eapply next; [|exact H]. eapply vs_callSuffix; eauto.
  - (* LBRACK *)
    destruct (sliceSuffix self x (peekpos ts) (tl ts)) as [[x' ts1]| |] eqn:E1; try discriminate.
    eapply next; [|exact H]. eapply vs_sliceSuffix; eauto.
Qed.

(* ---- displays ---- *)
Lemma vs_parseList lb ts e r : parseList self lb ts = Ok (e, r) ->
  wp e = true /\ isx e = true /\ lvl e = L_PRIM.
Proof.
  unfold parseList. intros H. tok_case (peek ts) RBRACK.
  - rewrite E in H. inv H. repeat split; reflexivity.
  - rewrite not_RBRACK_match in H by assumption. unfold list_dflt in H.
    destruct (p_test self ts) as [[x ts1]| |] eqn:E1; try discriminate.
    pose proof (good_test_ok _ (v_test _ V _ _ _ E1)) as Hx.
    tok_case (peek ts1) FOR.
    + rewrite E in H. destruct (p_clauses self false ts1) as [[[cl rb] ts2]| |] eqn:E2; try discriminate.
      destruct (v_clauses _ V _ _ _ _ _ E2) as [Hcl Hfor]. specialize (Hfor E). inv H.
      split; [|split; reflexivity]. rewrite wp_Comp. rewrite Hx, Hcl.
      destruct cl as [|c cl]; [contradiction|]. destruct c; try contradiction. reflexivity.
    + rewrite not_FOR_match in H by assumption.
      destruct (p_exprs self true ts1) as [[[l tc] ts2]| |] eqn:E2; try discriminate.
      destruct (v_exprs _ V _ _ _ _ _ E2) as (Hl & _ & _).
      tok_case (peek ts2) RBRACK; [rewrite E in H|rewrite not_RBRACK_match in H by assumption; discriminate].
      inv H. split; [|split; reflexivity]. rewrite wp_ListE. cbn [forallb nonempty]. rewrite Hx, Hl.
      destruct tc; reflexivity.
Qed.

Lemma vs_parseDict lb ts e r : parseDict self lb ts = Ok (e, r) ->
  wp e = true /\ isx e = true /\ lvl e = L_PRIM.
Proof.
  unfold parseDict. intros H. tok_case (peek ts) RBRACE.
  - rewrite E in H. inv H. repeat split; reflexivity.
  - rewrite not_RBRACE_match in H by assumption. unfold dict_dflt in H.
    destruct (p_dictEntry self ts) as [[x ts1]| |] eqn:E1; try discriminate.
    pose proof (v_dictEntry _ V _ _ _ E1) as Hx.
    tok_case (peek ts1) FOR.
    + rewrite E in H. destruct (p_clauses self true ts1) as [[[cl rb] ts2]| |] eqn:E2; try discriminate.
      destruct (v_clauses _ V _ _ _ _ _ E2) as [Hcl Hfor]. specialize (Hfor E). inv H.
      split; [|split; reflexivity]. rewrite wp_Comp. rewrite Hx, Hcl.
      destruct cl as [|c cl]; [contradiction|]. destruct c; try contradiction. reflexivity.
    + rewrite not_FOR_match in H by assumption.
      destruct (p_dictEntries self ts1) as [[[l tc] ts2]| |] eqn:E2; try discriminate.
      pose proof (v_dictEntries _ V _ _ _ _ E2) as Hl.
      tok_case (peek ts2) RBRACE; [rewrite E in H|rewrite not_RBRACE_match in H by assumption; discriminate].
      inv H. split; [|split; reflexivity]. rewrite wp_DictE. cbn [forallb nonempty]. rewrite Hx, Hl.
      destruct tc; reflexivity.
Qed.

Lemma vs_primary ts e r : primary_body self ts = Ok (e, r) ->
  good L_UNARY e /\ (lvl e = L_UNARY -> is_suffix_start (peek r) = false).
Proof.
  unfold primary_body. cbv zeta. intros H.
  assert (P13 : forall e', wp e' = true /\ isx e' = true /\ lvl e' = L_PRIM ->
                good L_UNARY e' /\ (lvl e' = L_UNARY -> is_suffix_start (peek r) = false)).
  { intros e' (Hw & Hi & Hl). destruct (good13 e' Hw Hi Hl) as [G Hn]. split; [exact G|]. intros Hc. destruct (Hn Hc). }
  assert (Pun : forall op x ts', (op = MINUS \/ op = PLUS \/ op = TILDE) ->
                p_primSuffix self ts' = Ok (x, r) ->
                good L_UNARY (Unary (peekpos ts) op (Some x)) /\
                (lvl (Unary (peekpos ts) op (Some x)) = L_UNARY -> is_suffix_start (peek r) = false)).
  { intros op x ts' Hop Hps. destruct (v_primSuffix _ V _ _ _ Hps) as [Gx Hs].
    split; [|intros _; exact Hs].
    split; [|split; [destruct Hop as [->|[->| ->]]; reflexivity|destruct Hop as [->|[->| ->]]; cbn; lia]].
    destruct Hop as [->|[->| ->]]; cbn [wp]; apply (good_at _ _ Gx). }
  destruct (peek ts) eqn:Ep; try discriminate.
  - inv H. apply P13. repeat split; reflexivity.
  - inv H. apply P13. repeat split; reflexivity.
  - inv H. apply P13. repeat split; reflexivity.
  - inv H. apply P13. repeat split; reflexivity.
  - inv H. apply P13. repeat split; reflexivity.
  - (* PLUS *)
    destruct (p_primSuffix self (tl ts)) as [[x ts1]| |] eqn:E1; try discriminate. inv H.
    eapply Pun; eauto.
  - (* MINUS *)
    destruct (p_primSuffix self (tl ts)) as [[x ts1]| |] eqn:E1; try discriminate. inv H.
    eapply Pun; eauto.
  - (* TILDE *)
    destruct (p_primSuffix self (tl ts)) as [[x ts1]| |] eqn:E1; try discriminate. inv H.
    eapply Pun; eauto.
  - (* LPAREN *)
    tok_case (peek (tl ts)) RPAREN.
    + rewrite E in H. inv H. apply P13. repeat split; reflexivity.
    + rewrite not_RPAREN_match in H by assumption.
      destruct (p_expr self true (tl ts)) as [[x ts1]| |] eqn:E1; try discriminate.
      destruct (v_expr _ V _ _ _ _ E1) as [Gx _].
      tok_case (peek ts1) RPAREN; [rewrite E in H|rewrite not_RPAREN_match in H by assumption; discriminate].
      inv H. apply P13. split; [|split; reflexivity]. cbn [wp]. apply (good_at _ _ Gx).
  - (* LBRACK *) apply P13. eapply vs_parseList; eauto.
  - (* LBRACE *) apply P13. eapply vs_parseDict; eauto.
Qed.

(* ---- expression lists ---- *)
Lemma vs_expr b ts e r : expr_body self b ts = Ok (e, r) ->
  good L_EXPR e /\ (b = false -> noparen_ok e = true).
Proof.
  unfold expr_body. intros H.
  destruct (p_test self ts) as [[x ts1]| |] eqn:E1; try discriminate.
  pose proof (v_test _ V _ _ _ E1) as Gx.
  tok_case (peek ts1) COMMA.
  - rewrite E in H. destruct (p_exprs self b ts1) as [[[l tc] ts2]| |] eqn:E2; try discriminate.
    destruct (v_exprs _ V _ _ _ _ _ E2) as (Hl & Htc & Hne). specialize (Hne E). inv H.
    split.
    + split; [|split; [reflexivity|cbn; unfold L_EXPR; lia]].
      rewrite wp_Tuple. cbn [forallb]. rewrite (good_test_ok _ Gx), Hl. cbn [andb].
      destruct Hne as [Hne| ->]; [destruct l; [congruence|reflexivity]|].
      cbn [List.length]. rewrite orb_true_iff. right. reflexivity.
    + intros ->. cbn [noparen_ok]. destruct tc; [specialize (Htc eq_refl); discriminate|].
      destruct Hne as [Hne|Hc]; [|discriminate]. destruct l; [congruence|reflexivity].
  - rewrite not_COMMA_match in H by assumption. inv H.
    split; [eapply good_mono; [|exact Gx]; unfold L_EXPR; lia|]. intros _. apply noparen_lvl. apply Gx.
Qed.

Lemma vs_exprs b ts l tc r : exprs_body self b ts = Ok (l, tc, r) ->
  forallb test_ok l = true /\ (tc = true -> b = true) /\ (peek ts = COMMA -> l <> [] \/ tc = true).
Proof.
  unfold exprs_body. intros H. tok_case (peek ts) COMMA.
  - rewrite E in H. cbv zeta in H. destruct (terminates_expr_list (peek (tl ts))).
    + destruct b; [|discriminate]. inv H. repeat split; auto.
    + destruct (p_test self (tl ts)) as [[x ts1]| |] eqn:E1; try discriminate.
      destruct (p_exprs self b ts1) as [[[l' tc'] ts2]| |] eqn:E2; try discriminate.
      destruct (v_exprs _ V _ _ _ _ _ E2) as (Hl & Htc & _). inv H.
      split; [cbn [forallb]; rewrite (good_test_ok _ (v_test _ V _ _ _ E1)); exact Hl|].
      split; [exact Htc|]. intros _. left. discriminate.
  - rewrite not_COMMA_match in H by assumption. inv H. repeat split; auto; try discriminate; try (intros Hc; congruence).
Qed.

Lemma vs_args first ts l tc r : args_body self first ts = Ok (l, tc, r) ->
  forallb arg_ok l = true /\ (tc = true -> first = false \/ l <> []).
Proof.
  unfold args_body. intros H. destruct (close2 (peek ts)) eqn:EC.
  { destruct (peek ts); try discriminate EC; inv H; (split; [reflexivity|discriminate]). }
  assert (Hm : forall (a b : PR (list expr * bool)), match peek ts with RPAREN | EOF => a | _ => b end = b)
    by (intros a b; destruct (peek ts); try discriminate EC; reflexivity).
  rewrite Hm in H. unfold args_dflt in H.
  destruct (comma_unless first ts) as [[u ts1]| |] eqn:EU; try discriminate.
  cbv zeta in H.
  assert (Hrec : forall ts' l' tc' r', p_args self false ts' = Ok (l', tc', r') -> forallb arg_ok l' = true)
    by (intros ts' l' tc' r' H'; apply (v_args _ V) in H'; tauto).
  destruct (arg_special (peek ts1)) eqn:EA.
  - destruct (peek ts1) eqn:Ep; try discriminate EA.
    + (* STAR *)
      destruct (p_test self (tl ts1)) as [[x ts2]| |] eqn:E1; try discriminate.
      destruct (p_args self false ts2) as [[[l' tc'] ts3]| |] eqn:E2; try discriminate. inv H.
      split; [|intros _; right; discriminate].
      cbn [forallb arg_ok]. rewrite (good_at _ _ (v_test _ V _ _ _ E1)). exact (Hrec _ _ _ _ E2).
    + (* RPAREN *)
      inv H. split; [reflexivity|]. intros Ht. left. destruct first; [discriminate|reflexivity].
    + (* STARSTAR *)
      destruct (p_test self (tl ts1)) as [[x ts2]| |] eqn:E1; try discriminate.
      destruct (p_args self false ts2) as [[[l' tc'] ts3]| |] eqn:E2; try discriminate. inv H.
      split; [|intros _; right; discriminate].
      cbn [forallb arg_ok]. rewrite (good_at _ _ (v_test _ V _ _ _ E1)). exact (Hrec _ _ _ _ E2).
  - assert (Hm2 : forall (a b c d : PR (list expr * bool)),
              match peek ts1 with RPAREN => a | STAR => b | STARSTAR => c | _ => d end = d)
      by (intros a b c d; destruct (peek ts1); try discriminate EA; reflexivity).
    rewrite Hm2 in H. unfold args_plain in H.
    destruct (p_test self ts1) as [[x ts2]| |] eqn:E1; try discriminate.
    pose proof (v_test _ V _ _ _ E1) as Gx.
    tok_case (peek ts2) EQ.
    + rewrite E in H. destruct (Parse.is_ident x) eqn:EI; [|discriminate H].
      destruct (p_test self (tl ts2)) as [[y ts3]| |] eqn:E2; try discriminate.
      destruct (p_args self false ts3) as [[[l' tc'] ts4]| |] eqn:E3; try discriminate. inv H.
      split; [|intros _; right; discriminate].
      destruct x; try discriminate EI. cbn [forallb arg_ok].
      rewrite (good_at _ _ (v_test _ V _ _ _ E2)). exact (Hrec _ _ _ _ E3).
    + rewrite not_EQ_match in H by assumption.
      destruct (p_args self false ts2) as [[[l' tc'] ts3]| |] eqn:E3; try discriminate. inv H.
      split; [|intros _; right; discriminate].
      cbn [forallb]. destruct Gx as (Hw & Hi & Hl). rewrite (isx_arg_ok _ Hi).
      unfold test_ok. rewrite Hw, (at_level_intro _ _ Hi Hl). exact (Hrec _ _ _ _ E3).
Qed.

Lemma vs_dictEntry ts e r : dictEntry_body self ts = Ok (e, r) -> entry_ok e = true.
Proof.
  unfold dictEntry_body. intros H.
  destruct (p_test self ts) as [[k ts1]| |] eqn:E1; try discriminate.
  tok_case (peek ts1) COLON; [rewrite E in H|rewrite not_COLON_match in H by assumption; discriminate].
  destruct (p_test self (tl ts1)) as [[v ts2]| |] eqn:E2; try discriminate. inv H.
  cbn [entry_ok]. pose proof (v_test _ V _ _ _ E1). pose proof (v_test _ V _ _ _ E2). andbs.
Qed.

Lemma vs_dictEntries ts l tc r : dictEntries_body self ts = Ok (l, tc, r) -> forallb entry_ok l = true.
Proof.
  unfold dictEntries_body. intros H. tok_case (peek ts) COMMA.
  - rewrite E in H. cbv zeta in H. tok_case (peek (tl ts)) RBRACE.
    + rewrite E0 in H. inv H. reflexivity.
    + rewrite not_RBRACE_match in H by assumption.
      destruct (p_dictEntry self (tl ts)) as [[x ts1]| |] eqn:E1; try discriminate.
      destruct (p_dictEntries self ts1) as [[[l' tc'] ts2]| |] eqn:E2; try discriminate. inv H.
      cbn [forallb]. rewrite (v_dictEntry _ V _ _ _ E1). exact (v_dictEntries _ V _ _ _ _ E2).
  - rewrite not_COMMA_match in H by assumption. inv H. reflexivity.
Qed.

Lemma lv_ok_IN e r : lv_ok e r -> peek r = IN -> loopvars_ok e = true.
Proof.
  intros [(x & l & tc & -> & Hall & Ht & Hf) | [Hu Hl]] Hin.
  - destruct tc; [specialize (Ht eq_refl); rewrite Hin in Ht; discriminate|].
    specialize (Hf eq_refl). cbn [loopvars_ok negb andb]. destruct l as [|y l]; [congruence|].
    cbn [List.length]. exact Hall.
  - rewrite (loopvars_unary _ Hl). exact Hu.
Qed.

Lemma vs_clauses curly ts cl rb r : clauses_body self curly ts = Ok (cl, rb, r) ->
  forallb clause_ok cl = true /\
  (peek ts = FOR -> match cl with ForClause _ _ _ _ :: _ => True | _ => False end).
Proof.
  unfold clauses_body. cbv zeta. intros H.
  destruct (peek ts) eqn:Ep; try discriminate.
  - destruct curly; [discriminate|]. inv H. split; [reflexivity|discriminate].
  - destruct curly; [|discriminate]. inv H. split; [reflexivity|discriminate].
  - (* FOR *)
    destruct (p_loopVars self (tl ts)) as [[vars ts1]| |] eqn:E1; try discriminate.
    pose proof (v_loopVars _ V _ _ _ E1) as Hv.
    tok_case (peek ts1) IN; [rewrite E in H|rewrite not_IN_match in H by assumption; discriminate].
    destruct (p_testPrec self 0 (tl ts1)) as [[x ts2]| |] eqn:E2; try discriminate.
    destruct (v_testPrec _ V _ _ _ _ E2 ltac:(lia)) as [Gx _].
    destruct (p_clauses self curly ts2) as [[[cl' rb'] ts3]| |] eqn:E3; try discriminate. inv H.
    destruct (v_clauses _ V _ _ _ _ _ E3) as [Hcl _].
    split; [|intros _; exact I].
    cbn [forallb clause_ok]. rewrite (lv_ok_IN _ _ Hv E), (good_wp _ _ Gx), (good_al _ _ Gx). exact Hcl.
  - (* IF *)
    destruct (p_testNoCond self (tl ts)) as [[c ts1]| |] eqn:E1; try discriminate.
    destruct (v_testNoCond _ V _ _ _ E1) as [Hw Hn].
    destruct (p_clauses self curly ts1) as [[[cl' rb'] ts3]| |] eqn:E3; try discriminate. inv H.
    destruct (v_clauses _ V _ _ _ _ _ E3) as [Hcl _].
    split; [|discriminate]. cbn [forallb clause_ok]. rewrite Hw, Hn. exact Hcl.
Qed.

Lemma vs_loopVarsTail ts l tc r : loopVarsTail_body self ts = Ok (l, tc, r) ->
  forallb unary_ok l = true /\ (tc = true -> terminates_expr_list (peek r) = true) /\
  (peek ts = COMMA -> tc = false -> l <> []).
Proof.
  unfold loopVarsTail_body. intros H. tok_case (peek ts) COMMA.
  - rewrite E in H. cbv zeta in H. destruct (terminates_expr_list (peek (tl ts))) eqn:ET.
    + inv H. repeat split; auto. intros _ Hc. discriminate.
    + destruct (p_primSuffix self (tl ts)) as [[x ts1]| |] eqn:E1; try discriminate.
      destruct (p_loopVarsTail self ts1) as [[[l' tc'] ts2]| |] eqn:E2; try discriminate. inv H.
      destruct (v_loopVarsTail _ V _ _ _ _ E2) as (Hl & Ht & _).
      destruct (v_primSuffix _ V _ _ _ E1) as [Gx _].
      split; [cbn [forallb]; rewrite (good_unary_ok _ Gx); exact Hl|]. split; [exact Ht|]. intros _ _. discriminate.
  - rewrite not_COMMA_match in H by assumption. inv H. repeat split; auto; try discriminate; try (intros Hc; congruence).
Qed.

Lemma vs_loopVars ts e r : loopVars_body self ts = Ok (e, r) -> lv_ok e r.
Proof.
  unfold loopVars_body. intros H.
  destruct (p_primSuffix self ts) as [[v ts1]| |] eqn:E1; try discriminate.
  destruct (v_primSuffix _ V _ _ _ E1) as [Gv _].
  tok_case (peek ts1) COMMA.
  - rewrite E in H. destruct (p_loopVarsTail self ts1) as [[[l tc] ts2]| |] eqn:E2; try discriminate. inv H.
    destruct (v_loopVarsTail _ V _ _ _ _ E2) as (Hl & Ht & Hne).
    left. exists v, l, tc. split; [reflexivity|]. split; [cbn [forallb]; rewrite (good_unary_ok _ Gv); exact Hl|].
    split; [exact Ht|]. intros Hf. apply Hne; assumption.
  - rewrite not_COMMA_match in H by assumption. inv H. right.
    split; [apply good_unary_ok; exact Gv|]. destruct Gv as (_ & _ & Hl). unfold L_UNARY, L_EXPR in *. lia.
Qed.

End Step.

Lemma valid_step self : Valid self -> Valid (step self).
Proof.
  intros V. constructor; cbn [step p_test p_testNoCond p_lambda p_params p_testPrec p_binopLoop p_primSuffix
    p_suffixLoop p_primary p_expr p_exprs p_args p_dictEntry p_dictEntries p_clauses p_loopVars p_loopVarsTail].
  - apply vs_test; assumption.
  - apply vs_testNoCond; assumption.
  - apply vs_lambda; assumption.
  - apply vs_params; assumption.
  - apply vs_testPrec; assumption.
  - apply vs_binopLoop; assumption.
  - apply vs_primSuffix; assumption.
  - apply vs_suffixLoop; assumption.
  - apply vs_primary; assumption.
  - apply vs_expr; assumption.
  - apply vs_exprs; assumption.
  - apply vs_args; assumption.
  - apply vs_dictEntry; assumption.
  - apply vs_dictEntries; assumption.
  - apply vs_clauses; assumption.
  - apply vs_loopVars; assumption.
  - apply vs_loopVarsTail; assumption.
Qed.

Theorem valid_all : forall n, Valid (parsers n).
Proof. induction n; [exact valid_bottom|]. cbn [parsers]. apply valid_step. assumption. Qed.

(* every tree the expression parser returns is well formed *)
Lemma parse_wellformed_lemma : forall n b ts e r,
  p_expr (parsers n) b ts = Ok (e, r) ->
  wp e = true /\ isx e = true /\ (b = false -> noparen_ok e = true).
Proof.
  intros n b ts e r H. destruct (v_expr _ (valid_all n) _ _ _ _ H) as [(Hw & Hi & _) Hn]. auto.
Qed.

Lemma parse_expr_wellformed_lemma : forall ts e, parse_expr ts = Ok e -> wf_expr e = true.
Proof.
  unfold parse_expr, parse_expr_n. intros ts e H.
  destruct (p_expr (parsers (fuel_of ts)) false ts) as [[x ts1]| |] eqn:E; try discriminate.
  destruct (parse_wellformed_lemma _ _ _ _ _ E) as (Hw & Hi & Hn).
  assert (x = e). { destruct (peek (match peek ts1 with NEWLINE => tl ts1 | _ => ts1 end)); try discriminate; congruence. }
  subst. unfold wf_expr. rewrite Hw, Hi, (Hn eq_refl). reflexivity.
Qed.
