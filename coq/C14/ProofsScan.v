(* C14 -- proofs about Scan.v: integer literal decoding. *)
From Coq Require Import ZArith List Bool Arith Lia.
From SV Require Import C14.Scan.
Import ListNotations.
Open Scope Z_scope.

Inductive radix := Dec | Hex | Oct | Bin.
Definition base (r : radix) : Z := match r with Dec => 10 | Hex => 16 | Oct => 8 | Bin => 2 end.
Definition valid_digit (r : radix) : Z -> bool :=
  match r with Dec => isdigit | Hex => isxdigit | Oct => isodigit | Bin => isbdigit end.
(* spellings of the radix prefix: none, 0x 0X, 0o 0O, 0b 0B *)
Definition prefixes (r : radix) : list (list Z) :=
  match r with
  | Dec => [[]]
  | Hex => [[48; 120]; [48; 88]]
  | Oct => [[48; 111]; [48; 79]]
  | Bin => [[48; 98]; [48; 66]]
  end.
(* digit strings of the lexical grammar: non-empty, digits of the radix; a
   decimal literal is "0" or starts with 1..9 *)
Definition wf_digits (r : radix) (ds : list Z) : Prop :=
  ds <> [] /\ forallb (valid_digit r) ds = true /\
  (r = Dec -> ds = [48] \/ hd 0 ds <> 48).
(* the text after the literal cannot extend it *)
Definition stops (r : radix) (rest : list Z) : Prop :=
  valid_digit r (peekc rest) = false /\
  (r = Dec -> peekc rest <> 46 /\ is_e (peekc rest) = false /\
              ~ In (peekc rest) [120; 88; 111; 79; 98; 66]).

Lemma span_app p ds rest :
  forallb p ds = true -> p (peekc rest) = false -> span p (ds ++ rest) = (ds, rest).
Proof.
  induction ds as [|d ds IH]; simpl; intros H1 H2.
  - destruct rest as [|c r]; simpl in *; [reflexivity| rewrite H2; reflexivity].
  - apply andb_true_iff in H1. destruct H1 as [Hd Hds]. rewrite Hd, IH; auto.
Qed.

Lemma fold_digits base ds acc :
  fold_left (fun a c => a * base + digitval c) ds acc
  = acc * base ^ Z.of_nat (length ds) + positional base (map digitval ds).
Proof.
  revert acc. induction ds as [|d ds IH]; intros acc.
  - simpl. lia.
  - cbn [fold_left length map positional]. rewrite IH. rewrite map_length.
    rewrite Nat2Z.inj_succ, Z.pow_succ_r by lia. ring.
Qed.

Lemma digits_value_positional base ds :
  digits_value base ds = positional base (map digitval ds).
Proof. unfold digits_value. rewrite fold_digits. lia. Qed.

Lemma frac_exp_none pre rest :
  frac_exp pre false false rest = Some (pre, false, false, rest).
Proof. reflexivity. Qed.

Lemma isxdigit_not_prefix c : isdigit c = true -> (c =? 120) || (c =? 88) = false /\
  (c =? 111) || (c =? 79) = false /\ (c =? 98) || (c =? 66) = false /\ (c =? 46) = false /\ is_e c = false.
Proof. unfold isdigit, is_e, c_e, c_E. intros. lia. Qed.

Lemma int_literal_prefixed (fx : bool) (x : Z) (r : radix) ds rest :
  (r = Hex /\ (x = 120 \/ x = 88)) \/ (r = Oct /\ (x = 111 \/ x = 79)) \/ (r = Bin /\ (x = 98 \/ x = 66)) ->
  wf_digits r ds -> stops r rest ->
  fx = true \/ r = Hex ->
  scan_number fx (48 :: x :: ds ++ rest) = (NInt (positional (base r) (map digitval ds)), rest).
Proof.
  intros Hr (Hne & Hall & _) (Hstop & _) Hfx.
  unfold scan_number.
  change (48 =? c_dot) with false. change (48 =? c_0) with true. cbv iota.
  cbn [peekc tl].
  assert (Hxd : (x =? c_dot) = false) by (unfold c_dot; destruct Hr as [[_ [->| ->]]|[[_ [->| ->]]|[_ [->| ->]]]]; reflexivity).
  rewrite Hxd.
  destruct Hr as [[-> Hx]|[[-> Hx]|[-> Hx]]].
  - assert (E : (x =? 120) || (x =? 88) = true) by (destruct Hx as [->| ->]; reflexivity).
    rewrite E. rewrite (span_app isxdigit ds rest Hall Hstop).
    destruct ds as [|d ds']; [congruence|].
    rewrite frac_exp_none. cbv iota beta. cbn [orb].
    unfold decode_int.
    change (48 =? c_0) with true. cbn [andb].
    assert (E1 : (x =? 111) || (x =? 79) = false) by (destruct Hx as [->| ->]; reflexivity).
    assert (E2 : (x =? 98) || (x =? 66) = false) by (destruct Hx as [->| ->]; reflexivity).
    rewrite E1, E2, E. rewrite digits_value_positional. reflexivity.
  - assert (E0 : (x =? 120) || (x =? 88) = false) by (destruct Hx as [->| ->]; reflexivity).
    assert (E : (x =? 111) || (x =? 79) = true) by (destruct Hx as [->| ->]; reflexivity).
    rewrite E0, E. rewrite (span_app isodigit ds rest Hall Hstop).
    destruct ds as [|d ds']; [congruence|].
    rewrite frac_exp_none. cbv iota beta. cbn [orb].
    unfold decode_int.
    change (48 =? c_0) with true. cbn [andb].
    rewrite E. destruct Hfx as [->|Hh]; [|discriminate].
    rewrite orb_true_r. rewrite digits_value_positional. reflexivity.
  - assert (E0 : (x =? 120) || (x =? 88) = false) by (destruct Hx as [->| ->]; reflexivity).
    assert (E1 : (x =? 111) || (x =? 79) = false) by (destruct Hx as [->| ->]; reflexivity).
    assert (E : (x =? 98) || (x =? 66) = true) by (destruct Hx as [->| ->]; reflexivity).
    rewrite E0, E1, E. rewrite (span_app isbdigit ds rest Hall Hstop).
    destruct ds as [|d ds']; [congruence|].
    rewrite frac_exp_none. cbv iota beta. cbn [orb].
    unfold decode_int.
    change (48 =? c_0) with true. cbn [andb].
    rewrite E1, E. destruct Hfx as [->|Hh]; [|discriminate].
    rewrite orb_true_r. rewrite digits_value_positional. reflexivity.
Qed.

Lemma int_literal_decimal (fx : bool) ds rest :
  wf_digits Dec ds -> stops Dec rest ->
  scan_number fx (ds ++ rest) = (NInt (positional 10 (map digitval ds)), rest).
Proof.
  intros (Hne & Hall & Hlead) (Hstop & Hdec).
  destruct (Hdec eq_refl) as (Hdot & He & Hpre). clear Hdec.
  specialize (Hlead eq_refl).
  cbn [valid_digit] in *.
  assert (Hx : (peekc rest =? 120) || (peekc rest =? 88) = false) by (cbn [In] in Hpre; lia).
  assert (Ho : (peekc rest =? 111) || (peekc rest =? 79) = false) by (cbn [In] in Hpre; lia).
  assert (Hb : (peekc rest =? 98) || (peekc rest =? 66) = false) by (cbn [In] in Hpre; lia).
  assert (Hd : (peekc rest =? c_dot) = false) by (unfold c_dot; lia).
  destruct Hlead as [-> | Hnz].
  - (* the literal "0" *)
    cbn [app]. unfold scan_number.
    change (48 =? c_dot) with false. change (48 =? c_0) with true. cbv iota.
    rewrite Hd, Hx, Ho, Hb.
    replace (span isdigit rest) with (@nil Z, rest).
    2:{ destruct rest as [|c r]; [reflexivity|]. cbn [span]. cbn [peekc] in Hstop. rewrite Hstop. reflexivity. }
    cbn [forallb andb negb]. rewrite Hd, He. cbv iota.
    rewrite frac_exp_none. reflexivity.
  - destruct ds as [|d ds']; [congruence|]. cbn [hd] in Hnz.
    cbn [forallb] in Hall. apply andb_true_iff in Hall. destruct Hall as [Hd1 Hds].
    destruct (isxdigit_not_prefix d Hd1) as (_ & _ & _ & Hdd & _).
    cbn [app]. unfold scan_number.
    change c_dot with 46. rewrite Hdd.
    assert (E0 : (d =? c_0) = false) by (unfold c_0; lia). rewrite E0.
    change (d :: ds' ++ rest) with ((d :: ds') ++ rest).
    rewrite (span_app isdigit (d :: ds') rest); [|cbn [forallb]; rewrite Hd1, Hds; reflexivity|exact Hstop].
    change 46 with c_dot. rewrite Hd, He.
    rewrite frac_exp_none. cbv iota beta. cbn [orb].
    unfold decode_int. rewrite E0.
    destruct ds' as [|d2 ds2].
    + rewrite digits_value_positional. reflexivity.
    + cbn [andb]. rewrite digits_value_positional. reflexivity.
Qed.

(* the full statement, for the repaired scanner (fix_all = true) *)
Lemma int_literal_exact_lemma (r : radix) pre ds rest :
  In pre (prefixes r) -> wf_digits r ds -> stops r rest ->
  scan_number true (pre ++ ds ++ rest) = (NInt (positional (base r) (map digitval ds)), rest).
Proof.
  intros Hin Hwf Hst. destruct r; cbn [prefixes In] in Hin.
  - destruct Hin as [<-|[]]. change ([] ++ ds ++ rest) with (ds ++ rest). apply int_literal_decimal; assumption.
  - destruct Hin as [<-|[<-|[]]]; cbn [app];
      apply (int_literal_prefixed true _ Hex); auto.
  - destruct Hin as [<-|[<-|[]]]; cbn [app];
      apply (int_literal_prefixed true _ Oct); auto 6.
  - destruct Hin as [<-|[<-|[]]]; cbn [app];
      apply (int_literal_prefixed true _ Bin); auto 6.
Qed.

(* the value is the same for both versions whenever the old one accepts *)
Lemma old_scanner_rejects_big_binary :
  fst (scan_number false (48 :: 98 :: repeat 49 70)) = NErr.
Proof. vm_compute. reflexivity. Qed.
