(* C14 -- the main induction, part 1: binary operators and precedence levels. *)
From Coq Require Import ZArith List String Bool Arith Lia.
From SV Require Import C14.Tokens C14.Parse C14.Print C14.ProofsBase C14.ProofsExpr.
Import ListNotations.
Open Scope nat_scope.

Lemma prec_of_le9 op q : prec_of op = Some q -> q <= 9 /\ q <> prec_not.
Proof. destruct op; cbn; intros H; try discriminate; injection H as <-; unfold prec_not; lia. Qed.

Lemma prec_of_props op q : prec_of op = Some q -> is_NOT op = false /\ is_suffix_start op = false.
Proof. destruct op; cbn; intros H; try discriminate; auto. Qed.

Lemma lvl_le13 e : lvl e <= L_PRIM.
Proof.
  unfold L_PRIM. destruct e; cbn [lvl]; unfold L_EXPR, L_TEST, L_BIN, L_UNARY, L_PRIM, prec_not; try lia.
  - destruct op; lia.
  - destruct (prec_of op) as [q|] eqn:E; [|lia]. destruct (prec_of_le9 _ _ E). lia.
Qed.

(* shape of an expression whose level is that of a binary operator *)
Lemma level_shape e q :
  isx e = true -> lvl e = L_BIN q -> q <= 9 ->
  (q = prec_not /\ exists p x, e = Unary p NOT (Some x)) \/
  (q <> prec_not /\ exists x p op y, e = Binary x p op y /\ prec_of op = Some q).
Proof.
  unfold L_BIN. intros Hx Hl Hq.
  destruct e; cbn [lvl isx] in *; unfold L_EXPR, L_TEST, L_BIN, L_UNARY, L_PRIM, prec_not in *; try lia; try discriminate.
  - destruct op; try lia; try discriminate. destruct x; [|discriminate].
    left. split; [lia|eauto].
  - destruct (prec_of op) as [k|] eqn:E; [|discriminate].
    right. destruct (prec_of_le9 _ _ E). assert (k = q) by lia. subst k. split; [assumption|eauto 6].
Qed.

Lemma fuse_optoks op p q ts : prec_of op = Some q -> fuse (op_tokens op p ++ ts) = (op, p) :: ts.
Proof. destruct op; cbn; intros H; try discriminate; reflexivity. Qed.

Lemma ok_at_optoks op p q ts : prec_of op = Some q -> ok_at (S q) (op_tokens op p ++ ts).
Proof.
  intros H. unfold ok_at. rewrite (fuse_optoks _ _ _ _ H). cbn [peek].
  destruct (prec_of_props _ _ H) as [H1 H2]. unfold ext_tok. rewrite H1, H2, H. cbn [orb].
  apply Nat.leb_gt. lia.
Qed.

Lemma match_NOT_same {A} t (b : A) : match t with NOT => b | _ => b end = b.
Proof. destruct t; reflexivity. Qed.

Lemma wp_Binary x p op y q :
  wp (Binary x p op y) = true -> prec_of op = Some q ->
  wp x = true /\ wp y = true /\ isx x = true /\ isx y = true /\
  L_BIN q <= lvl x /\ L_BIN (S q) <= lvl y /\ (q = prec_cmp -> L_BIN (S q) <= lvl x).
Proof.
  cbn [wp]. intros H E. rewrite E in H.
  apply andb_true_iff in H. destruct H as [H Hy]. apply andb_true_iff in H. destruct H as [H Hxl].
  apply andb_true_iff in H. destruct H as [Hwx Hwy].
  pose proof (at_level_isx _ _ Hxl). pose proof (at_level_isx _ _ Hy).
  pose proof (at_level_le _ _ Hxl) as L1. pose proof (at_level_le _ _ Hy) as L2.
  repeat split; auto.
  - destruct (q =? prec_cmp); unfold L_BIN in *; lia.
  - intros ->. cbn in L1. exact L1.
Qed.

(* ---- absorbing the left spine of a binary expression ---- *)
Lemma absorb_binary x p op y q :
  IHs (size (Binary x p op y)) ->
  wp (Binary x p op y) = true -> prec_of op = Some q ->
  forall rest (r : PR expr) N n,
    ok_at (S q) rest ->
    (forall m, N <= m -> p_binopLoop (parsers m) q false (Binary x p op y) (fz (S q) rest) = r) ->
    1 <= N -> N + need (Binary x p op y) + 21 - 2 * q <= n ->
    binopExpr (parsers n) q (tokens (Binary x p op y) ++ rest) = r.
Proof.
  intros IH Hwp Eq rest r N n Hok Hloop HN Hn.
  destruct (wp_Binary _ _ _ _ _ Hwp Eq) as (Hwx & Hwy & Hix & Hiy & Hlx & Hly & Hcmp).
  destruct (prec_of_le9 _ _ Eq) as [Hq9 Hq2].
  destruct (prec_of_props _ _ Eq) as [HnN Hns].
  destruct (IH x ltac:(cbn [size]; lia) Hwx Hix) as (_ & Mabs & _).
  destruct (IH y ltac:(cbn [size]; lia) Hwy Hiy) as (Mpy & _).
  unfold need in Hn. cbn [size] in Hn.
  cbn [tokens]. rewrite <- !app_assoc.
  apply (Mabs q (op_tokens op p ++ tokens y ++ rest) r (N + need y + 24) n Hq9 Hq2 Hlx (ok_at_optoks _ _ _ _ Eq)).
  2:{ lia. }
  2:{ unfold need. lia. }
  intros m Hm. destruct m as [|m]; [lia|].
  rewrite un_binopLoop. unfold binopLoop_body. cbv zeta.
  rewrite fuse_fz. rewrite (fuse_optoks _ _ _ _ Eq). cbn [peek peekpos tl].
  rewrite (not_NOT_match _ _ _ HnN). rewrite Eq.
  rewrite Nat.ltb_irrefl.
  assert (Hf : negb (first_of x q) && (q =? prec_cmp) = false).
  { destruct (q =? prec_cmp) eqn:Ec; [|apply andb_false_r].
    apply Nat.eqb_eq in Ec. specialize (Hcmp Ec). unfold first_of.
    replace (lvl x =? L_BIN q) with false; [reflexivity|].
    symmetry. apply Nat.eqb_neq. unfold L_BIN in *. lia. }
  rewrite Hf.
  rewrite (Mpy (S q) rest m); [|lia|exact Hly|exact Hok|unfold need in *; lia].
  apply Hloop. lia.
Qed.

Lemma first_of_self x p op y q : prec_of op = Some q -> first_of (Binary x p op y) q = false.
Proof. intros E. unfold first_of. cbn [lvl]. rewrite E. rewrite Nat.eqb_refl. reflexivity. Qed.

Lemma first_of_gt e q : L_BIN q < lvl e -> first_of e q = true.
Proof. intros H. unfold first_of. replace (lvl e =? L_BIN q) with false; [reflexivity|]. symmetry. apply Nat.eqb_neq. lia. Qed.

(* ---- descending the precedence levels ---- *)
Definition M_prec_at (e : expr) (prec : nat) : Prop :=
  forall rest n,
    L_BIN prec <= lvl e -> ok_at prec rest ->
    need e + 24 - 2 * prec <= n ->
    p_testPrec (parsers n) prec (tokens e ++ rest) = Ok (e, fz prec rest).

Definition M_absorb_at (e : expr) (q : nat) : Prop :=
  forall rest (r : PR expr) N n,
    q <> prec_not -> L_BIN q <= lvl e -> ok_at (S q) rest ->
    (forall m, N <= m -> p_binopLoop (parsers m) q (first_of e q) e (fz (S q) rest) = r) ->
    1 <= N -> N + need e + 21 - 2 * q <= n ->
    binopExpr (parsers n) q (tokens e ++ rest) = r.

Lemma prec_descent e :
  IHs (size e) -> wp e = true -> isx e = true -> M_primSuffix e ->
  forall d prec, prec + d = 10 -> M_prec_at e prec /\ (prec <= 9 -> M_absorb_at e prec).
Proof.
  intros IH Hwp Hisx Mps.
  pose proof (need_pos e) as Hnp.
  induction d as [|d IHd]; intros prec Hd.
  - assert (prec = 10) by lia. subst prec. split; [|lia].
    intros rest n Hl Hok Hn. destruct n as [|n]; [lia|].
    rewrite un_testPrec. unfold testPrec_body. cbn [nlevels Nat.leb].
    unfold fz. cbn [nlevels Nat.ltb Nat.leb].
    apply Mps; [exact Hl|eapply ok_at_not_suffix; eassumption|lia].
  - assert (Hp9 : prec <= 9) by lia.
    destruct (IHd (S prec) ltac:(lia)) as [Mnext _].
    assert (Habs : M_absorb_at e prec).
    { intros rest r N n Hq2 Hl Hok Hloop HN Hn.
      destruct (Nat.eq_dec (lvl e) (L_BIN prec)) as [Heq|Hneq].
      - destruct (level_shape e prec Hisx Heq Hp9) as [[Hc _] | [_ (x & p & op & y & -> & Eq)]]; [congruence|].
        rewrite (first_of_self _ _ _ _ _ Eq) in Hloop.
        eapply absorb_binary; eauto.
      - assert (Hgt : L_BIN prec < lvl e) by lia.
        rewrite (first_of_gt _ _ Hgt) in Hloop.
        unfold binopExpr.
        rewrite (Mnext rest n); [|unfold L_BIN in *; lia|exact Hok|lia].
        apply Hloop. lia. }
    split; [|intros _; exact Habs].
    intros rest n Hl Hok Hn. destruct n as [|n]; [lia|].
    rewrite un_testPrec. unfold testPrec_body.
    replace (nlevels <=? prec) with false by (symmetry; apply Nat.leb_gt; unfold nlevels; lia).
    assert (Hfz : fz prec rest = fuse rest).
    { unfold fz. replace (prec <? nlevels) with true; [reflexivity|]. symmetry. apply Nat.ltb_lt. unfold nlevels. lia. }
    rewrite Hfz.
    destruct (Nat.eq_dec prec prec_not) as [E2|N2].
    + subst prec. rewrite Nat.eqb_refl.
      destruct (Nat.eq_dec (lvl e) (L_BIN prec_not)) as [Heq|Hneq].
      * destruct (level_shape e prec_not Hisx Heq ltac:(unfold prec_not; lia)) as [[_ (p & x & ->)] | [Hc _]]; [|congruence].
        cbn [tokens app peek peekpos tl].
        cbn [wp] in Hwp. apply andb_true_iff in Hwp. destruct Hwp as [Hwx Hlx].
        destruct (IH x ltac:(cbn [size]; lia) Hwx (at_level_isx _ _ Hlx)) as (Mpx & _).
        rewrite (Mpx prec_not rest n); [|unfold prec_not; lia|eapply at_level_le; eassumption|exact Hok|unfold need in *; cbn [size] in *; unfold prec_not in *; lia].
        rewrite Hfz. reflexivity.
      * assert (Hgt : L_BIN 3 <= lvl e) by (unfold L_BIN, prec_not in *; lia).
        destruct (head_ok_all e Hwp Hisx) as (Hne & _ & _ & HnN).
        rewrite (peek_app _ _ Hne). rewrite (not_NOT_match _ _ _ (HnN Hgt)).
        unfold binopExpr.
        rewrite (Mnext rest n); [|unfold L_BIN, prec_not in *; lia|eapply ok_at_mono; [|exact Hok]; lia|unfold prec_not in *; lia].
        destruct n as [|n]; [unfold prec_not in *; lia|].
        rewrite binopLoop_stop; [|apply fz_ok_at; exact Hok].
        rewrite fuse_fz. reflexivity.
    + replace (prec =? prec_not) with false by (symmetry; apply Nat.eqb_neq; exact N2).
      rewrite match_NOT_same.
      apply (Habs rest (Ok (e, fuse rest)) 1 n N2 Hl (ok_at_mono prec (S prec) rest ltac:(lia) Hok)); [|lia|lia].
      intros m Hm. destruct m as [|m]; [lia|].
      rewrite binopLoop_stop; [|apply fz_ok_at; exact Hok].
      rewrite fuse_fz. reflexivity.
Qed.
