(* C14 -- SOUNDNESS of the statement / file parser, part 4: corollaries.
   (a) FileOptions.Parse as the model runs it: accepted => rendering (near-miss
       corollary), and the tree parses back from its rendering;
   (b) the premise `no_empty_block` cannot be dropped (witness);
   (c) when the token list has the shape the scanner produces (every NEWLINE
       directly follows a non-layout token: no blank-line NEWLINEs; nothing after
       EOF) the accepted list is EXACTLY the rendering of the file followed by
       EOF, up to the optional final NEWLINE;
   (d) the scanner's layout algorithm (Scan.v part (b)) indeed emits every
       INDENT directly before the line that caused it and every NEWLINE directly
       after a line: the two premises hold for every event stream it produces. *)
From Coq Require Import ZArith List String Bool Arith Lia.
From SV Require Import C14.Tokens C14.Parse C14.Print C14.PrintStmt C14.Scan C14.ProofsBase C14.ProofsExpr
  C14.ProofsStmt C14.ProofsStmt2 C14.ProofsSound C14.ProofsSoundStmt C14.ProofsSoundStmt2.
Import ListNotations.
Open Scope nat_scope.

(* ---- (a) ---- *)
Lemma file_near_miss_lemma : forall ts l,
  parse_file ts = Ok l -> no_empty_block (U ts) ->
  exists f, forallb cstmt_ok f = true /\ flat_map flatten f = l /\ file_text (U ts) f /\
            (forall p n, 40 * csizes f + 12 <= n ->
               p_file (parsers n) (flat_map tokens_c f ++ [(EOF, p)]) = Ok l).
Proof.
  unfold parse_file. intros ts l H Hn.
  destruct (parse_sound_file_lemma _ _ _ H Hn) as (f & Hok & Hf & Ht).
  exists f. split; [exact Hok|]. split; [exact Hf|]. split; [exact Ht|].
  intros p n Hfuel. rewrite <- Hf. apply file_ok; assumption.
Qed.

(* ---- (b) ---- *)
Module EmptyBlock.
  Open Scope Z_scope.
  (*  if x: NEWLINE INDENT OUTDENT  *)
  Definition toks : list ptok :=
    [(IF,(1,1)); (IDENT "x",(1,4)); (COLON,(1,5)); (NEWLINE,(1,6)); (INDENT,(2,1)); (OUTDENT,(2,1))].
  Definition tree : list stmt := [IfStmt (1,1) (Ident (1,4) "x") [] [] None].
End EmptyBlock.

Lemma no_wf_tree_with_empty_body p c :
  ~ exists cs, cstmt_ok cs = true /\ flatten cs = [IfStmt p c [] [] None].
Proof.
  intros (cs & Hok & Hf).
  destruct cs as [l sm|? ? ? ? ? ? ? ?|p' c' body elifs els|? ? ? ?|? ? ?]; cbn [flatten] in Hf; try discriminate Hf.
  - subst l. cbn in Hok. discriminate Hok.
  - injection Hf as _ _ Hb _ _. cbn [cstmt_ok] in Hok.
    apply andb_true_iff in Hok. destruct Hok as [Hok _]. apply andb_true_iff in Hok. destruct Hok as [Hok _].
    apply andb_true_iff in Hok. destruct Hok as [_ Hs].
    destruct body as [l sm|l]; cbn [flatten_s csuite_ok] in *.
    + subst l. discriminate Hs.
    + destruct l as [|c1 l]; [discriminate Hs|]. cbn [nonempty forallb andb flat_map] in *.
      apply andb_true_iff in Hs. destruct Hs as [Hc1 _].
      destruct c1 as [l1 sm1|? ? ? ? ? ? ? ?|? ? ? ? ?|? ? ? ?|? ? ?]; cbn [flatten app] in Hb; try discriminate Hb.
      destruct l1; [|discriminate Hb]. discriminate Hc1.
Qed.

Lemma parse_sound_stmt_unconditional_refuted_lemma :
  exists n ts l r, p_stmt (parsers n) ts = Ok (l, r) /\
                   ~ exists c, cstmt_ok c = true /\ flatten c = l.
Proof.
  exists 60, EmptyBlock.toks, EmptyBlock.tree, []. split; [vm_compute; reflexivity|].
  apply no_wf_tree_with_empty_body.
Qed.

(* ---- (c) ---- *)
Definition is_layout (t : tok) : bool := match t with NEWLINE | INDENT | OUTDENT => true | _ => false end.

(* every NEWLINE token directly follows a token that is not NEWLINE / INDENT /
   OUTDENT; prev: the previous token was one of those, or this is the start *)
Fixpoint no_blank_line (prev : bool) (u : list tok) : Prop :=
  match u with
  | [] => True
  | t :: r => (t = NEWLINE -> prev = false) /\ no_blank_line (is_layout t) r
  end.

Lemma nbl_app prev a t b : no_blank_line prev (a ++ t :: b) -> no_blank_line (is_layout t) b.
Proof.
  revert prev. induction a as [|x a IH]; intros prev; cbn [app no_blank_line]; intros [_ H]; [exact H|exact (IH _ H)].
Qed.

Definition ends_layout (l : list ptok) : Prop := exists Y t p, l = Y ++ [(t, p)] /\ is_layout t = true.

Lemma ends_layout_app a b : ends_layout b -> ends_layout (a ++ b).
Proof. intros (Y & t & p & -> & H). exists (a ++ Y), t, p. rewrite app_assoc. auto. Qed.
Lemma ends_layout_cons x b : ends_layout b -> ends_layout (x :: b).
Proof. apply (ends_layout_app [x]). Qed.
Lemma ends_layout_line l sm : ends_layout (line_tokens l sm).
Proof.
  unfold line_tokens. exists (smalls_tokens l ++ (if sm then [semi] else [])), NEWLINE, nopos.
  rewrite <- app_assoc. split; reflexivity.
Qed.
Lemma ends_layout_suite s : ends_layout (tokens_s s).
Proof.
  destruct s as [l sm|l]; cbn [tokens_s]; [apply ends_layout_line|].
  exists (newline :: (INDENT, nopos) :: flat_map tokens_c l), OUTDENT, nopos. split; reflexivity.
Qed.
Lemma ends_layout_elif e : ends_layout (elif_tokens e).
Proof.
  destruct e as [[q c] b]. cbn [elif_tokens].
  apply ends_layout_cons, ends_layout_app, ends_layout_cons, ends_layout_suite.
Qed.
Lemma ends_layout_elifs ce : ce <> [] -> ends_layout (flat_map elif_tokens ce).
Proof.
  induction ce as [|e ce IH]; [congruence|]. intros _. cbn [flat_map]. destruct ce as [|e2 ce].
  - cbn [flat_map]. rewrite app_nil_r. apply ends_layout_elif.
  - apply ends_layout_app. apply IH. discriminate.
Qed.
Lemma ends_layout_c c : ends_layout (tokens_c c).
Proof.
  destruct c as [l sm|p np name lp ps tc rp body|p c body elifs els|p vars x body|p c body]; cbn [tokens_c].
  - apply ends_layout_line.
  - do 3 apply ends_layout_cons. do 2 apply ends_layout_app. do 2 apply ends_layout_cons. apply ends_layout_suite.
  - change (flat_map (fun '(q, c0, b) => (ELIF, q) :: tokens c0 ++ colon :: tokens_s b) elifs) with (flat_map elif_tokens elifs).
    apply ends_layout_cons, ends_layout_app, ends_layout_cons.
    destruct els as [[q b]|].
    + do 2 apply ends_layout_app. do 2 apply ends_layout_cons. apply ends_layout_suite.
    + rewrite app_nil_r. destruct elifs as [|e elifs].
      * cbn [flat_map]. rewrite app_nil_r. apply ends_layout_suite.
      * apply ends_layout_app. apply ends_layout_elifs. discriminate.
  - apply ends_layout_cons, ends_layout_app, ends_layout_cons, ends_layout_app, ends_layout_cons, ends_layout_suite.
  - apply ends_layout_cons, ends_layout_app, ends_layout_cons, ends_layout_suite.
Qed.

Lemma ends_layout_U l : ends_layout l -> exists Y t, U l = Y ++ [t] /\ is_layout t = true.
Proof.
  intros (Y & t & p & -> & H). exists (U Y), t. rewrite U_app. split; [|exact H].
  f_equal. destruct t; try discriminate H; reflexivity.
Qed.

(* the accepted text ends: the rendering `toks`, possibly without its final
   NEWLINE, then the end of the list or EOF *)
Definition renders_end (u : list tok) (toks : list ptok) : Prop :=
  exists tail, at_eof tail /\
    (u = U toks ++ tail \/ exists X, U toks = X ++ [NEWLINE] /\ u = X ++ tail).

Lemma file_text_exact u f : file_text u f -> no_blank_line true u -> renders_end u (flat_map tokens_c f).
Proof.
  induction 1 as [u He|u f Ht IH|c u f Ht IH|c X u HX He]; intros Hn.
  - exists u. split; [exact He|]. left. reflexivity.
  - destruct Hn as [Hn _]. specialize (Hn eq_refl). discriminate Hn.
  - destruct (ends_layout_U _ (ends_layout_c c)) as (Y & t & HY & Hl).
    assert (Hn' : no_blank_line true u).
    { rewrite HY, <- app_assoc in Hn. cbn [app] in Hn. apply nbl_app in Hn. rewrite Hl in Hn. exact Hn. }
    destruct (IH Hn') as (tail & He & [Hu|(X & HX & Hu)]); exists tail; (split; [exact He|]).
    + left. cbn [flat_map]. rewrite U_app, Hu, <- app_assoc. reflexivity.
    + right. exists (U (tokens_c c) ++ X). cbn [flat_map]. rewrite U_app, HX, Hu, <- !app_assoc. split; reflexivity.
  - exists u. split; [exact He|]. right. exists X. cbn [flat_map]. rewrite app_nil_r. split; [exact HX|reflexivity].
Qed.

Lemma file_near_miss_scanner_lemma : forall ts l,
  parse_file ts = Ok l ->
  no_empty_block (U ts) -> no_blank_line true (U ts) -> (forall a b, U ts = a ++ EOF :: b -> b = []) ->
  exists f, forallb cstmt_ok f = true /\ flat_map flatten f = l /\
    exists tail, (tail = [] \/ tail = [EOF]) /\
      (U ts = U (flat_map tokens_c f) ++ tail \/
       exists X, U (flat_map tokens_c f) = X ++ [NEWLINE] /\ U ts = X ++ tail).
Proof.
  intros ts l H Hn Hb Hlast.
  destruct (file_near_miss_lemma ts l H Hn) as (f & Hok & Hf & Ht & _).
  exists f. split; [exact Hok|]. split; [exact Hf|].
  destruct (file_text_exact _ _ Ht Hb) as (tail & He & Hu). exists tail. split; [|exact Hu].
  destruct He as [->|[junk ->]]; [left; reflexivity|]. right.
  destruct Hu as [Hu|(X & _ & Hu)]; rewrite (Hlast _ _ Hu); reflexivity.
Qed.

(* ---- (d) the scanner's layout algorithm establishes the premises ---- *)
Fixpoint indent_then_line {A} (evs : list (ev A)) : Prop :=
  match evs with
  | [] => True
  | EvIndent :: r => match r with EvLine _ :: _ => True | _ => False end /\ indent_then_line r
  | _ :: r => indent_then_line r
  end.
Fixpoint newline_after_line {A} (prev_line : bool) (evs : list (ev A)) : Prop :=
  match evs with
  | [] => True
  | EvNewline :: r => prev_line = true /\ newline_after_line false r
  | EvLine _ :: r => newline_after_line true r
  | _ :: r => newline_after_line false r
  end.

Lemma itl_outdents {A} k (Y : list (ev A)) : indent_then_line Y -> indent_then_line (repeat EvOutdent k ++ Y).
Proof. intros H. induction k as [|k IH]; [exact H|exact IH]. Qed.
Lemma itl_outdents0 {A} k : @indent_then_line A (repeat EvOutdent k).
Proof. induction k as [|k IH]; [exact I|exact IH]. Qed.
Lemma nal_outdents_line {A} k p (a : A) Y :
  newline_after_line true Y -> newline_after_line p (repeat EvOutdent k ++ EvLine a :: Y).
Proof. intros H. revert p. induction k as [|k IH]; intros p; [exact H|exact (IH false)]. Qed.
Lemma nal_outdents {A} k p : @newline_after_line A p (repeat EvOutdent k).
Proof. revert p. induction k as [|k IH]; intros p; [exact I|exact (IH false)]. Qed.

Lemma line_start_dents {A} stk col (d : list (ev A)) s :
  line_start stk col = LOk (d, s) -> d = [EvIndent] \/ exists k, d = repeat EvOutdent k.
Proof.
  unfold line_start. destruct stk as [|cur stk]; [discriminate|].
  destruct (cur <? col).
  - intros H; inversion H. left. reflexivity.
  - destruct (col <? cur).
    + destruct (pop_while col (cur :: stk)) as [k s']. destruct s' as [|top s']; [discriminate|].
      destruct (col =? top); [|discriminate]. intros H; inversion H. right. exists k. reflexivity.
    + intros H; inversion H. right. exists 0. reflexivity.
Qed.

Lemma layout_lines_inv {A} (ls : list (pline A)) : forall stk pending fn evs,
  layout_lines stk pending ls fn = LOk evs -> indent_then_line evs /\ newline_after_line pending evs.
Proof.
  induction ls as [|l rest IH]; intros stk pending fn evs.
  - cbn [layout_lines]. destruct stk as [|x open]; [discriminate|]. destruct open as [|y open].
    + intros H; inversion H. split; exact I.
    + intros H; inversion H; subst; clear H.
      destruct (pending && negb fn) eqn:Ep; cbn [app].
      * apply andb_true_iff in Ep. destruct Ep as [-> _].
        split; [exact (itl_outdents0 _)|]. split; [reflexivity|exact (nal_outdents _ _)].
      * split; [exact (itl_outdents0 _)|exact (nal_outdents _ _)].
  - cbn [layout_lines]. cbv zeta beta.
    match goal with |- context [if ?b then [EvNewline] else []] => set (nl := b) end.
    assert (Hline : forall (a : A) e, layout_lines stk (negb nl) rest fn = LOk e ->
              indent_then_line (EvLine a :: (if nl then [EvNewline] else []) ++ e) /\
              newline_after_line true ((if nl then [EvNewline] else []) ++ e)).
    { intros a e He. destruct (IH _ _ _ _ He) as [I1 I2]. destruct nl; cbn [app negb] in *.
      - split; [exact I1|]. split; [reflexivity|exact I2].
      - split; [exact I1|exact I2]. }
    destruct (l_cont l).
    { destruct (layout_lines stk (negb nl) rest fn) as [e| |] eqn:E; try discriminate.
      intros H; inversion H; subst; clear H. destruct (Hline (l_payload l) e eq_refl) as [I1 I2].
      split; [exact I1|exact I2]. }
    destruct (l_blank l); [apply IH|].
    destruct (0 <? l_depth l).
    { destruct (layout_lines stk (negb nl) rest fn) as [e| |] eqn:E; try discriminate.
      intros H; inversion H; subst; clear H. destruct (Hline (l_payload l) e eq_refl) as [I1 I2].
      split; [exact I1|exact I2]. }
    destruct (line_start stk (indent_col (l_ws l))) as [[d stk']| |] eqn:EL; try discriminate.
    destruct (layout_lines stk' (negb nl) rest fn) as [e| |] eqn:E; try discriminate.
    intros H; inversion H; subst; clear H.
    assert (Hline' : indent_then_line (EvLine (l_payload l) :: (if nl then [EvNewline] else []) ++ e) /\
                     newline_after_line true ((if nl then [EvNewline] else []) ++ e)).
    { destruct (IH _ _ _ _ E) as [I1 I2]. destruct nl; cbn [app negb] in *.
      - split; [exact I1|]. split; [reflexivity|exact I2].
      - split; [exact I1|exact I2]. }
    destruct Hline' as [I1 I2].
    destruct (line_start_dents _ _ _ _ EL) as [->|[k ->]].
    + split; [split; [exact I|exact I1]|exact I2].
    + split; [apply itl_outdents; exact I1|apply nal_outdents_line; exact I2].
Qed.

Lemma layout_premises_lemma : forall (A : Type) (ls : list (pline A)) fn evs,
  layout ls fn = LOk evs ->
  indent_then_line evs /\ newline_after_line false evs /\
  (forall a b, evs <> a ++ EvIndent :: EvOutdent :: b) /\
  (forall a b, evs <> a ++ EvNewline :: EvNewline :: b) /\
  (forall a b, evs <> a ++ EvOutdent :: EvNewline :: b) /\
  (forall a b, evs <> a ++ EvIndent :: EvNewline :: b) /\
  (forall b, evs <> EvNewline :: b).
Proof.
  intros A ls fn evs H. destruct (layout_lines_inv ls _ _ _ _ H) as [I1 I2].
  split; [exact I1|]. split; [exact I2|].
  assert (G1 : forall (a : list (ev A)) b, indent_then_line (a ++ EvIndent :: EvOutdent :: b) -> False).
  { induction a as [|x a IHa]; intros b; cbn [app indent_then_line].
    - intros [F _]. exact F.
    - destruct x; try (intros [_ Hx]); try intros Hx; exact (IHa _ Hx). }
  assert (G2 : forall (a : list (ev A)) p x b, x <> None ->
            newline_after_line p (a ++ (match x with Some true => EvNewline | Some false => EvOutdent | None => EvIndent end)
                                        :: EvNewline :: b) -> False).
  { induction a as [|y a IHa]; intros p x b Hx; cbn [app newline_after_line].
    - destruct x as [[|]|]; [| |congruence]; cbn [newline_after_line]; intros Hn.
      + destruct Hn as [_ [F _]]. discriminate F.
      + destruct Hn as [F _]. discriminate F.
    - destruct y; try (intros [_ Hy]); try intros Hy; exact (IHa _ _ _ Hx Hy). }
  assert (G3 : forall (a : list (ev A)) p b, newline_after_line p (a ++ EvIndent :: EvNewline :: b) -> False).
  { induction a as [|y a IHa]; intros p b; cbn [app newline_after_line].
    - intros [F _]. discriminate F.
    - destruct y; try (intros [_ Hy]); try intros Hy; exact (IHa _ _ Hy). }
  split; [intros a b E; rewrite E in I1; exact (G1 _ _ I1)|].
  split; [intros a b E; rewrite E in I2; exact (G2 a false (Some true) b ltac:(discriminate) I2)|].
  split; [intros a b E; rewrite E in I2; exact (G2 a false (Some false) b ltac:(discriminate) I2)|].
  split; [intros a b E; rewrite E in I2; exact (G3 _ _ _ I2)|].
  intros b E. rewrite E in I2. destruct I2 as [F _]. discriminate F.
Qed.

(* ---- deciding the premises on a concrete token list (for examples / checks) ---- *)
Fixpoint has_empty_block (u : list tok) : bool :=
  match u with
  | [] => false
  | t :: r => (match t, r with INDENT, OUTDENT :: _ => true | _, _ => false end) || has_empty_block r
  end.
Lemma has_empty_block_false u : has_empty_block u = false -> no_empty_block u.
Proof.
  intros H a b E. subst u. induction a as [|x a IH]; cbn [app has_empty_block] in H.
  - discriminate H.
  - apply orb_false_iff in H. destruct H as [_ H]. exact (IH H).
Qed.

Fixpoint no_blank_lineb (prev : bool) (u : list tok) : bool :=
  match u with
  | [] => true
  | t :: r => (negb (tok_eqb t NEWLINE) || negb prev) && no_blank_lineb (is_layout t) r
  end.
Lemma no_blank_lineb_true prev u : no_blank_lineb prev u = true -> no_blank_line prev u.
Proof.
  revert prev. induction u as [|t u IH]; intros prev H; cbn [no_blank_lineb no_blank_line] in *; [exact I|].
  apply andb_true_iff in H. destruct H as [H1 H2]. split; [|exact (IH _ H2)].
  intros ->. rewrite tok_eqb_refl in H1. destruct prev; [discriminate H1|reflexivity].
Qed.

Lemma strict_wellformed_lemma :
  (forall c : cstmt, cstmt_okg true c = cstmt_ok c) /\ (forall s : csuite, csuite_okg true s = csuite_ok s).
Proof. exact (conj okg_true_c okg_true_s). Qed.
