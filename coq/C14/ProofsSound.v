(* C14 -- SOUNDNESS of the expression parser at token level: every accepted
   token list is the rendering of the tree returned for it (kinds and values;
   positions dropped; the parser-synthesised NOT_IN expanded back to NOT IN).
   For all fuel and all inputs, one statement per parser function. *)
From Coq Require Import ZArith List String Bool Arith Lia.
From SV Require Import C14.Tokens C14.Parse C14.Print C14.ProofsBase C14.ProofsExpr C14.ProofsLists.
Import ListNotations.
Open Scope nat_scope.

(* ---- the token-kind projection ---- *)
Definition ukind (t : tok) : list tok := match t with NOT_IN => [NOT; IN] | _ => [t] end.
Definition U (ts : list ptok) : list tok := flat_map (fun tp => ukind (fst tp)) ts.

Lemma U_nil : U [] = [].
Proof. reflexivity. Qed.
Lemma U_cons t p r : U ((t, p) :: r) = ukind t ++ U r.
Proof. reflexivity. Qed.
Lemma U_app a b : U (a ++ b) = U a ++ U b.
Proof. unfold U. apply flat_map_app. Qed.
Lemma U_comma r : U (comma :: r) = COMMA :: U r.
Proof. reflexivity. Qed.
Lemma U_colon r : U (colon :: r) = COLON :: U r.
Proof. reflexivity. Qed.
Lemma U_trail_true : U (trail true) = [COMMA].
Proof. reflexivity. Qed.
Lemma U_trail_false : U (trail false) = [].
Proof. reflexivity. Qed.

Lemma U_peek ts t : peek ts = t -> t <> EOF -> U ts = ukind t ++ U (tl ts).
Proof. destruct ts as [|[t' p] r]; cbn [peek tl]; intros <- H; [congruence|reflexivity]. Qed.

Lemma U_op_tokens op p : U (op_tokens op p) = ukind op.
Proof. destruct op; reflexivity. Qed.

(* ---- one-level matches on the lookahead as boolean tests ---- *)
Lemma match_IF {A} t (a b : A) : match t with IF => a | _ => b end = if tok_eqb t IF then a else b.
Proof. destruct t; reflexivity. Qed.
Lemma match_LAMBDA {A} t (a b : A) : match t with LAMBDA => a | _ => b end = if tok_eqb t LAMBDA then a else b.
Proof. destruct t; reflexivity. Qed.
Lemma match_NOT {A} t (a b : A) : match t with NOT => a | _ => b end = if tok_eqb t NOT then a else b.
Proof. destruct t; reflexivity. Qed.
Lemma match_COLON {A} t (a b : A) : match t with COLON => a | _ => b end = if tok_eqb t COLON then a else b.
Proof. destruct t; reflexivity. Qed.
Lemma match_RBRACK {A} t (a b : A) : match t with RBRACK => a | _ => b end = if tok_eqb t RBRACK then a else b.
Proof. destruct t; reflexivity. Qed.
Lemma match_RBRACE {A} t (a b : A) : match t with RBRACE => a | _ => b end = if tok_eqb t RBRACE then a else b.
Proof. destruct t; reflexivity. Qed.
Lemma match_RPAREN {A} t (a b : A) : match t with RPAREN => a | _ => b end = if tok_eqb t RPAREN then a else b.
Proof. destruct t; reflexivity. Qed.
Lemma match_COMMA {A} t (a b : A) : match t with COMMA => a | _ => b end = if tok_eqb t COMMA then a else b.
Proof. destruct t; reflexivity. Qed.
Lemma match_EQ {A} t (a b : A) : match t with EQ => a | _ => b end = if tok_eqb t EQ then a else b.
Proof. destruct t; reflexivity. Qed.
Lemma match_FOR {A} t (a b : A) : match t with FOR => a | _ => b end = if tok_eqb t FOR then a else b.
Proof. destruct t; reflexivity. Qed.

Lemma match_NEWLINE {A} t (a b : A) : match t with NEWLINE => a | _ => b end = if tok_eqb t NEWLINE then a else b.
Proof. destruct t; reflexivity. Qed.
Lemma match_IN {A} t (a b : A) : match t with IN => a | _ => b end = if tok_eqb t IN then a else b.
Proof. destruct t; reflexivity. Qed.

Lemma U_fuse ts : U (fuse ts) = U ts.
Proof.
  unfold fuse. rewrite match_NOT. destruct (tok_eqb (peek ts) NOT) eqn:H1; [|reflexivity].
  rewrite match_IN. destruct (tok_eqb (peek (tl ts)) IN) eqn:H2; [|reflexivity].
  apply tok_eqb_eq in H1. apply tok_eqb_eq in H2.
  rewrite (U_peek ts _ H1) by discriminate. rewrite (U_peek (tl ts) _ H2) by discriminate. reflexivity.
Qed.

Definition close2 (t : tok) : bool := match t with RPAREN | EOF => true | _ => false end.
Definition colon_rbrack (t : tok) : bool := match t with COLON | RBRACK => true | _ => false end.
Definition is_rss (t : tok) : bool := match t with RPAREN | STAR | STARSTAR => true | _ => false end.
Definition is_IDENT (t : tok) : bool := match t with IDENT _ => true | _ => false end.
Definition ident_name (t : tok) : string := match t with IDENT s => s | _ => EmptyString end.

Lemma match_close3 {A} t (a b : A) :
  match t with RPAREN | COLON | EOF => a | _ => b end = if not_close t then b else a.
Proof. destruct t; reflexivity. Qed.
Lemma match_close2 {A} t (a b : A) :
  match t with RPAREN | EOF => a | _ => b end = if close2 t then a else b.
Proof. destruct t; reflexivity. Qed.
Lemma match_colon_rbrack {A} t (a b : A) :
  match t with COLON | RBRACK => a | _ => b end = if colon_rbrack t then a else b.
Proof. destruct t; reflexivity. Qed.
Lemma match_suffix {A} t (a b c d : A) :
  match t with DOT => a | LBRACK => b | LPAREN => c | _ => d end =
  if is_suffix_start t then match t with DOT => a | LBRACK => b | LPAREN => c | _ => d end else d.
Proof. destruct t; reflexivity. Qed.
Lemma match_rss {A} t (a b c d : A) :
  match t with RPAREN => a | STAR => b | STARSTAR => c | _ => d end =
  if is_rss t then match t with RPAREN => a | STAR => b | STARSTAR => c | _ => d end else d.
Proof. destruct t; reflexivity. Qed.
Lemma match_IDENT {A} t (f : string -> A) (b : A) :
  match t with IDENT s => f s | _ => b end = if is_IDENT t then f (ident_name t) else b.
Proof. destruct t; reflexivity. Qed.
Lemma is_IDENT_true t : is_IDENT t = true -> t = IDENT (ident_name t).
Proof. destruct t; try discriminate; reflexivity. Qed.

(* ---- one level of `tokens` ---- *)
Definition otoks (o : option expr) : list ptok := match o with Some x => tokens x | None => [] end.

Lemma tk_Ident p s : tokens (Ident p s) = [(IDENT s, p)]. Proof. reflexivity. Qed.
Lemma tk_Literal p l : tokens (Literal p l) = [(lit_tok l, p)]. Proof. reflexivity. Qed.
Lemma tk_Paren lp x rp : tokens (Paren lp x rp) = (LPAREN, lp) :: tokens x ++ [(RPAREN, rp)]. Proof. reflexivity. Qed.
Lemma tk_Call fn lp args tc rp :
  tokens (Call fn lp args tc rp) = tokens fn ++ (LPAREN, lp) :: seplist args ++ trail tc ++ [(RPAREN, rp)].
Proof. reflexivity. Qed.
Lemma tk_Dot x dp np name : tokens (Dot x dp np name) = tokens x ++ [(DOT, dp); (IDENT name, np)]. Proof. reflexivity. Qed.
Lemma tk_Index x lb y rb : tokens (Index x lb y rb) = tokens x ++ (LBRACK, lb) :: tokens y ++ [(RBRACK, rb)]. Proof. reflexivity. Qed.
Lemma tk_Slice x lb lo hi step c2 rb :
  tokens (Slice x lb lo hi step c2 rb) =
  tokens x ++ (LBRACK, lb) :: otoks lo ++ colon :: otoks hi ++ (if c2 then colon :: otoks step else []) ++ [(RBRACK, rb)].
Proof. reflexivity. Qed.
Lemma tk_ListE lb l tc rb : tokens (ListE lb l tc rb) = (LBRACK, lb) :: seplist l ++ trail tc ++ [(RBRACK, rb)]. Proof. reflexivity. Qed.
Lemma tk_DictE lb l tc rb : tokens (DictE lb l tc rb) = (LBRACE, lb) :: seplist l ++ trail tc ++ [(RBRACE, rb)]. Proof. reflexivity. Qed.
Lemma tk_DictEntry k cp v : tokens (DictEntry k cp v) = tokens k ++ (COLON, cp) :: tokens v. Proof. reflexivity. Qed.
Lemma tk_Comp c lb body cl rb :
  tokens (Comp c lb body cl rb) =
  ((if c then LBRACE else LBRACK), lb) :: tokens body ++ flat_map tokens cl ++ [((if c then RBRACE else RBRACK), rb)].
Proof. reflexivity. Qed.
Lemma tk_ForClause p v ip x : tokens (ForClause p v ip x) = (FOR, p) :: tokens v ++ (IN, ip) :: tokens x. Proof. reflexivity. Qed.
Lemma tk_IfClause p c : tokens (IfClause p c) = (IF, p) :: tokens c. Proof. reflexivity. Qed.
Lemma tk_Lambda p ps b : tokens (Lambda p ps b) = (LAMBDA, p) :: seplist ps ++ colon :: tokens b. Proof. reflexivity. Qed.
Lemma tk_Cond t ifp c ep f : tokens (Cond t ifp c ep f) = tokens t ++ (IF, ifp) :: tokens c ++ (ELSE, ep) :: tokens f. Proof. reflexivity. Qed.
Lemma tk_EmptyTuple lp rp : tokens (EmptyTuple lp rp) = [(LPAREN, lp); (RPAREN, rp)]. Proof. reflexivity. Qed.
Lemma tk_Tuple l tc : tokens (Tuple l tc) = seplist l ++ trail tc. Proof. reflexivity. Qed.
Lemma tk_UnarySome p op x : tokens (Unary p op (Some x)) = (op, p) :: tokens x. Proof. reflexivity. Qed.
Lemma tk_UnaryNone p op : tokens (Unary p op None) = [(op, p)]. Proof. reflexivity. Qed.
Lemma tk_Binary x p op y : tokens (Binary x p op y) = tokens x ++ op_tokens op p ++ tokens y. Proof. reflexivity. Qed.

Global Hint Rewrite tk_Ident tk_Literal tk_Paren tk_Call tk_Dot tk_Index tk_Slice tk_ListE tk_DictE tk_DictEntry
  tk_Comp tk_ForClause tk_IfClause tk_Lambda tk_Cond tk_EmptyTuple tk_Tuple tk_UnarySome tk_UnaryNone tk_Binary
  seplist_cons ctoks_cons : tk.

Lemma ctoks_nil : ctoks [] = []. Proof. reflexivity. Qed.
Lemma seplist_nil : seplist [] = []. Proof. reflexivity. Qed.
Lemma flat_map_tokens_cons x l : flat_map tokens (x :: l) = tokens x ++ flat_map tokens l. Proof. reflexivity. Qed.
Global Hint Rewrite ctoks_nil seplist_nil flat_map_tokens_cons : tk.

Global Hint Rewrite U_app U_cons U_comma U_colon U_nil U_trail_true U_trail_false U_op_tokens : udb.

Lemma flat_map_tokens_nil : flat_map tokens [] = []. Proof. reflexivity. Qed.
Global Hint Rewrite flat_map_tokens_nil : tk.

(* normal form of a U-expression: right-nested, single kinds consed *)
Ltac un1 := autorewrite with tk; cbn [otoks stoks negb]; autorewrite with udb;
            cbn [ukind app otoks lit_tok negb]; rewrite <- ?app_assoc; cbn [app].
Ltac un := un1; un1.
Ltac useU := repeat match goal with H : U ?a = _ |- _ => rewrite H; clear H end.
Ltac pk E := let H := fresh "Up" in pose proof (U_peek _ _ E ltac:(discriminate)) as H; cbn [ukind app] in H.
Ltac fin := let H := fresh "H" in intros H; inversion H; subst; clear H; un; useU; un; try reflexivity.
Ltac finc T := let H := fresh "H" in intros H; inversion H; subst; clear H;
               split; [un; useU; un; try reflexivity | try exact T; try discriminate].

(* ---- the statement ---- *)
Record Sound (self : P) : Prop := mkSound {
  s_test : forall ts e r, p_test self ts = Ok (e, r) -> U ts = U (tokens e) ++ U r;
  s_testNoCond : forall ts e r, p_testNoCond self ts = Ok (e, r) -> U ts = U (tokens e) ++ U r;
  s_lambda : forall a lp ts e r, p_lambda self a lp ts = Ok (e, r) -> U ((LAMBDA, lp) :: ts) = U (tokens e) ++ U r;
  s_params : forall first ts l tc r, p_params self first ts = Ok (l, tc, r) ->
      U ts = U (stoks first l) ++ U (trail tc) ++ U r /\ (tc = true -> peek r = RPAREN);
  s_testPrec : forall prec ts e r, p_testPrec self prec ts = Ok (e, r) -> U ts = U (tokens e) ++ U r;
  s_binopLoop : forall prec first x ts e r, p_binopLoop self prec first x ts = Ok (e, r) ->
      U (tokens x) ++ U ts = U (tokens e) ++ U r;
  s_primSuffix : forall ts e r, p_primSuffix self ts = Ok (e, r) -> U ts = U (tokens e) ++ U r;
  s_suffixLoop : forall x ts e r, p_suffixLoop self x ts = Ok (e, r) -> U (tokens x) ++ U ts = U (tokens e) ++ U r;
  s_primary : forall ts e r, p_primary self ts = Ok (e, r) -> U ts = U (tokens e) ++ U r;
  s_expr : forall b ts e r, p_expr self b ts = Ok (e, r) -> U ts = U (tokens e) ++ U r;
  s_exprs : forall b ts l tc r, p_exprs self b ts = Ok (l, tc, r) -> U ts = U (ctoks l) ++ U (trail tc) ++ U r;
  s_args : forall first ts l tc r, p_args self first ts = Ok (l, tc, r) -> U ts = U (stoks first l) ++ U (trail tc) ++ U r;
  s_dictEntry : forall ts e r, p_dictEntry self ts = Ok (e, r) -> U ts = U (tokens e) ++ U r;
  s_dictEntries : forall ts l tc r, p_dictEntries self ts = Ok (l, tc, r) -> U ts = U (ctoks l) ++ U (trail tc) ++ U r;
  s_clauses : forall curly ts cl rb r, p_clauses self curly ts = Ok (cl, rb, r) ->
      U ts = U (flat_map tokens cl) ++ [if curly then RBRACE else RBRACK] ++ U r;
  s_loopVars : forall ts e r, p_loopVars self ts = Ok (e, r) -> U ts = U (tokens e) ++ U r;
  s_loopVarsTail : forall ts l tc r, p_loopVarsTail self ts = Ok (l, tc, r) -> U ts = U (ctoks l) ++ U (trail tc) ++ U r
}.

Section Step.
Variable self : P.
Hypothesis HS : Sound self.

Lemma test_sound ts e r : test_body self ts = Ok (e, r) -> U ts = U (tokens e) ++ U r.
Proof.
  unfold test_body. rewrite match_LAMBDA. destruct (tok_eqb (peek ts) LAMBDA) eqn:Hb.
  - apply tok_eqb_eq in Hb. pk Hb. intros H. pose proof (s_lambda _ HS _ _ _ _ _ H) as H1.
    rewrite U_cons in H1. cbn [ukind app] in H1. rewrite Up. exact H1.
  - unfold test_dflt.
    destruct (p_testPrec self 0 ts) as [[x ts1]| |] eqn:E1; try discriminate.
    pose proof (s_testPrec _ HS _ _ _ _ E1) as U1.
    rewrite match_IF. destruct (tok_eqb (peek ts1) IF) eqn:Hi.
    + apply tok_eqb_eq in Hi. pk Hi.
      destruct (p_testPrec self 0 (tl ts1)) as [[c ts2]| |] eqn:E2; try discriminate.
      pose proof (s_testPrec _ HS _ _ _ _ E2) as U2.
      destruct (peek ts2) eqn:E3; try discriminate. pk E3.
      destruct (p_test self (tl ts2)) as [[f ts3]| |] eqn:E4; try discriminate.
      pose proof (s_test _ HS _ _ _ E4) as U4.
      fin.
    + fin.
Qed.

Lemma testNoCond_sound ts e r : testNoCond_body self ts = Ok (e, r) -> U ts = U (tokens e) ++ U r.
Proof.
  unfold testNoCond_body. rewrite match_LAMBDA. destruct (tok_eqb (peek ts) LAMBDA) eqn:Hb.
  - apply tok_eqb_eq in Hb. pk Hb. intros H. pose proof (s_lambda _ HS _ _ _ _ _ H) as H1.
    rewrite U_cons in H1. cbn [ukind app] in H1. rewrite Up. exact H1.
  - intros H. exact (s_testPrec _ HS _ _ _ _ H).
Qed.

Lemma lambda_sound a lp ts e r :
  lambda_body self a lp ts = Ok (e, r) -> U ((LAMBDA, lp) :: ts) = U (tokens e) ++ U r.
Proof.
  unfold lambda_body.
  destruct (p_params self true ts) as [[[l tc] ts1]| |] eqn:E1; try discriminate.
  destruct (s_params _ HS _ _ _ _ _ E1) as [U1 Htc].
  destruct (peek ts1) eqn:E2; try discriminate. pk E2.
  assert (tc = false) by (destruct tc; [specialize (Htc eq_refl); congruence|reflexivity]). subst tc.
  rewrite stoks_true in U1.
  destruct a.
  - destruct (p_test self (tl ts1)) as [[b ts2]| |] eqn:E3; try discriminate.
    pose proof (s_test _ HS _ _ _ E3) as U3. fin.
  - destruct (p_testNoCond self (tl ts1)) as [[b ts2]| |] eqn:E3; try discriminate.
    pose proof (s_testNoCond _ HS _ _ _ E3) as U3. fin.
Qed.

Lemma comma_unless_sound first ts u ts1 :
  comma_unless first ts = Ok (u, ts1) -> U ts = U (if first then [] else [comma]) ++ U ts1.
Proof.
  unfold comma_unless. destruct first.
  - intros H; inversion H; subst. reflexivity.
  - destruct (peek ts) eqn:E; try discriminate. pk E. intros H; inversion H; subst. rewrite Up. reflexivity.
Qed.

Lemma params_sound first ts l tc r :
  params_body self first ts = Ok (l, tc, r) ->
  U ts = U (stoks first l) ++ U (trail tc) ++ U r /\ (tc = true -> peek r = RPAREN).
Proof.
  unfold params_body. rewrite match_close3. destruct (not_close (peek ts)) eqn:Hc; [|finc I].
  unfold params_dflt.
  destruct (comma_unless first ts) as [[u ts1]| |] eqn:E0; try discriminate.
  pose proof (comma_unless_sound _ _ _ _ E0) as U0. cbv zeta.
  destruct (peek ts1) eqn:E; try discriminate; cbv beta iota.
  - (* IDENT *) pk E. rewrite match_EQ. destruct (tok_eqb (peek (tl ts1)) EQ) eqn:He.
    + apply tok_eqb_eq in He. pk He.
      destruct (p_test self (tl (tl ts1))) as [[d ts2]| |] eqn:E1; try discriminate.
      pose proof (s_test _ HS _ _ _ E1) as U1.
      destruct (p_params self false ts2) as [[[l' tc'] ts3]| |] eqn:E2; try discriminate.
      destruct (s_params _ HS _ _ _ _ _ E2) as [U2 T2]. rewrite stoks_false in U2. finc T2.
    + destruct (p_params self false (tl ts1)) as [[[l' tc'] ts2]| |] eqn:E2; try discriminate.
      destruct (s_params _ HS _ _ _ _ _ E2) as [U2 T2]. rewrite stoks_false in U2. finc T2.
  - (* STAR *) pk E. rewrite match_IDENT. destruct (is_IDENT (peek (tl ts1))) eqn:Hi.
    + apply is_IDENT_true in Hi. pk Hi.
      destruct (p_params self false (tl (tl ts1))) as [[[l' tc'] ts2]| |] eqn:E2; try discriminate.
      destruct (s_params _ HS _ _ _ _ _ E2) as [U2 T2]. rewrite stoks_false in U2. finc T2.
    + destruct (p_params self false (tl ts1)) as [[[l' tc'] ts2]| |] eqn:E2; try discriminate.
      destruct (s_params _ HS _ _ _ _ _ E2) as [U2 T2]. rewrite stoks_false in U2. finc T2.
  - (* RPAREN *) intros H; inversion H; subst; clear H. split; [|intros _; exact E].
    destruct first; un; useU; un; reflexivity.
  - (* STARSTAR *) pk E. destruct (peek (tl ts1)) eqn:E1; try discriminate. pk E1.
    destruct (p_params self false (tl (tl ts1))) as [[[l' tc'] ts2]| |] eqn:E2; try discriminate.
    destruct (s_params _ HS _ _ _ _ _ E2) as [U2 T2]. rewrite stoks_false in U2. finc T2.
Qed.

Lemma binopExpr_sound prec ts e r : binopExpr self prec ts = Ok (e, r) -> U ts = U (tokens e) ++ U r.
Proof.
  unfold binopExpr. destruct (p_testPrec self (S prec) ts) as [[x ts1]| |] eqn:E1; try discriminate.
  intros H. pose proof (s_binopLoop _ HS _ _ _ _ _ _ H) as U2.
  rewrite (s_testPrec _ HS _ _ _ _ E1). exact U2.
Qed.

Lemma testPrec_sound prec ts e r : testPrec_body self prec ts = Ok (e, r) -> U ts = U (tokens e) ++ U r.
Proof.
  unfold testPrec_body. destruct (nlevels <=? prec).
  - intros H. exact (s_primSuffix _ HS _ _ _ H).
  - rewrite match_NOT. destruct (tok_eqb (peek ts) NOT) eqn:Hn; [|apply binopExpr_sound].
    apply tok_eqb_eq in Hn. destruct (prec =? prec_not); [|apply binopExpr_sound].
    pk Hn. destruct (p_testPrec self prec (tl ts)) as [[x ts1]| |] eqn:E1; try discriminate.
    pose proof (s_testPrec _ HS _ _ _ _ E1) as U1. fin.
Qed.

Lemma binopLoop_sound prec first x ts0 e r :
  binopLoop_body self prec first x ts0 = Ok (e, r) -> U (tokens x) ++ U ts0 = U (tokens e) ++ U r.
Proof.
  unfold binopLoop_body. cbv zeta. rewrite match_NOT.
  destruct (tok_eqb (peek (fuse ts0)) NOT); try discriminate.
  destruct (prec_of (peek (fuse ts0))) as [opprec|] eqn:Ep.
  2:{ intros H; inversion H; subst. rewrite U_fuse. reflexivity. }
  destruct (opprec <? prec).
  { intros H; inversion H; subst. rewrite U_fuse. reflexivity. }
  destruct (negb first && (opprec =? prec_cmp)); try discriminate.
  destruct (p_testPrec self (S opprec) (tl (fuse ts0))) as [[y ts1]| |] eqn:E1; try discriminate.
  intros H. pose proof (s_binopLoop _ HS _ _ _ _ _ _ H) as U2.
  pose proof (s_testPrec _ HS _ _ _ _ E1) as U1.
  rewrite <- U2. rewrite tk_Binary, !U_app, U_op_tokens. rewrite <- (U_fuse ts0).
  assert (Hne : peek (fuse ts0) <> EOF) by (intros Hc; rewrite Hc in Ep; discriminate).
  rewrite (U_peek (fuse ts0) _ eq_refl Hne). rewrite U1. rewrite <- !app_assoc. reflexivity.
Qed.

Lemma primSuffix_sound ts e r : primSuffix_body self ts = Ok (e, r) -> U ts = U (tokens e) ++ U r.
Proof.
  unfold primSuffix_body. destruct (p_primary self ts) as [[x ts1]| |] eqn:E1; try discriminate.
  intros H. rewrite (s_primary _ HS _ _ _ E1). exact (s_suffixLoop _ HS _ _ _ _ H).
Qed.

(* the step and the closing bracket of a slice, after the upper bound *)
Ltac slice_close :=
  cbv beta iota;
  lazymatch goal with
  | |- ?L = _ -> _ =>
    lazymatch L with
    | context [peek ?t] =>
      let E := fresh "E6" in
      destruct (peek t) eqn:E; try discriminate; pk E;
      let H := fresh "H" in
      intros H _; inversion H; subst; clear H; un; useU; un; try reflexivity
    end
  end.
Ltac slice_tail ts2 :=
  let Hc2 := fresh "Hc2" in let Hr := fresh "Hr" in
  rewrite (match_COLON (peek ts2));
  destruct (tok_eqb (peek ts2) COLON) eqn:Hc2;
  [ apply tok_eqb_eq in Hc2; pk Hc2; cbv zeta;
    rewrite (match_RBRACK (peek (tl ts2)));
    destruct (tok_eqb (peek (tl ts2)) RBRACK) eqn:Hr;
    [ slice_close
    | let E5 := fresh "E5" in let s := fresh "s" in let t' := fresh "t'" in
      destruct (p_test self (tl ts2)) as [[s t']| |] eqn:E5; try discriminate;
      let U5 := fresh "U5" in pose proof (s_test _ HS _ _ _ E5) as U5;
      slice_close ]
  | slice_close ].

Lemma sliceRest_sound x lb lo ts1 e r :
  sliceRest self x lb lo ts1 = Ok (e, r) -> peek ts1 <> RBRACK ->
  U (tokens x) ++ LBRACK :: U (otoks lo) ++ U ts1 = U (tokens e) ++ U r.
Proof.
  unfold sliceRest. rewrite (match_COLON (peek ts1)).
  destruct (tok_eqb (peek ts1) COLON) eqn:Hc1.
  2:{ cbv beta iota. rewrite match_COLON, Hc1. cbv beta iota.
      destruct (peek ts1) eqn:E; try discriminate. intros _ Hn. congruence. }
  apply tok_eqb_eq in Hc1. pk Hc1. cbv zeta. rewrite match_colon_rbrack.
  destruct (colon_rbrack (peek (tl ts1))) eqn:Hcr.
  - cbv beta iota. slice_tail (tl ts1).
  - destruct (p_test self (tl ts1)) as [[h t]| |] eqn:E3; try discriminate.
    pose proof (s_test _ HS _ _ _ E3) as U3. cbv beta iota. slice_tail t.
Qed.

Lemma sliceSuffix_sound x lb ts e r :
  sliceSuffix self x lb ts = Ok (e, r) -> U (tokens x) ++ LBRACK :: U ts = U (tokens e) ++ U r.
Proof.
  unfold sliceSuffix. rewrite match_COLON. destruct (tok_eqb (peek ts) COLON) eqn:Hc.
  - apply tok_eqb_eq in Hc. intros H.
    pose proof (sliceRest_sound _ _ None _ _ _ H) as S. cbn [otoks] in S. rewrite U_nil in S. cbn [app] in S.
    apply S. rewrite Hc. discriminate.
  - destruct (p_expr self false ts) as [[y ts1]| |] eqn:E1; try discriminate.
    pose proof (s_expr _ HS _ _ _ _ E1) as U1.
    rewrite match_RBRACK. destruct (tok_eqb (peek ts1) RBRACK) eqn:Hr.
    + apply tok_eqb_eq in Hr. pk Hr. fin.
    + intros H. pose proof (sliceRest_sound _ _ (Some y) _ _ _ H) as S. cbn [otoks] in S.
      rewrite U1. apply S.
      intros Hc'. rewrite Hc' in Hr. rewrite tok_eqb_refl in Hr. discriminate.
Qed.

Lemma callSuffix_sound fn lp ts e r :
  callSuffix self fn lp ts = Ok (e, r) -> U (tokens fn) ++ LPAREN :: U ts = U (tokens e) ++ U r.
Proof.
  unfold callSuffix. rewrite match_RPAREN. destruct (tok_eqb (peek ts) RPAREN) eqn:Hr.
  - apply tok_eqb_eq in Hr. pk Hr. fin.
  - destruct (p_args self true ts) as [[[args tc] ts1]| |] eqn:E1; try discriminate.
    pose proof (s_args _ HS _ _ _ _ _ E1) as U1. rewrite stoks_true in U1.
    destruct (peek ts1) eqn:E2; try discriminate. pk E2. fin.
Qed.

Lemma suffixLoop_sound x ts e r :
  suffixLoop_body self x ts = Ok (e, r) -> U (tokens x) ++ U ts = U (tokens e) ++ U r.
Proof.
  unfold suffixLoop_body. cbv zeta. rewrite match_suffix.
  destruct (is_suffix_start (peek ts)) eqn:Hs; [|fin].
  destruct (peek ts) eqn:E; try discriminate Hs; cbv beta iota; pk E.
  - (* DOT *) destruct (peek (tl ts)) eqn:E2; try discriminate. pk E2.
    intros H. pose proof (s_suffixLoop _ HS _ _ _ _ H) as U2.
    rewrite <- U2. un. useU. reflexivity.
  - (* LPAREN *)
    destruct (callSuffix self x (peekpos ts) (tl ts)) as [[x' ts1]| |] eqn:E1; try discriminate.
    pose proof (callSuffix_sound _ _ _ _ _ E1) as U1.
    intros H. pose proof (s_suffixLoop _ HS _ _ _ _ H) as U2.
    rewrite <- U2, <- U1, Up. reflexivity.
  - (* LBRACK *)
    destruct (sliceSuffix self x (peekpos ts) (tl ts)) as [[x' ts1]| |] eqn:E1; try discriminate.
    pose proof (sliceSuffix_sound _ _ _ _ _ E1) as U1.
    intros H. pose proof (s_suffixLoop _ HS _ _ _ _ H) as U2.
    rewrite <- U2, <- U1, Up. reflexivity.
Qed.

Lemma args_sound first ts l tc r :
  args_body self first ts = Ok (l, tc, r) -> U ts = U (stoks first l) ++ U (trail tc) ++ U r.
Proof.
  unfold args_body. rewrite match_close2. destruct (close2 (peek ts)); [fin|].
  unfold args_dflt.
  destruct (comma_unless first ts) as [[u ts1]| |] eqn:E0; try discriminate.
  pose proof (comma_unless_sound _ _ _ _ E0) as U0. cbv zeta.
  rewrite match_rss. destruct (is_rss (peek ts1)) eqn:Hr.
  - destruct (peek ts1) eqn:E; try discriminate Hr; cbv beta iota.
    + (* STAR *) pk E.
      destruct (p_test self (tl ts1)) as [[x ts2]| |] eqn:E1; try discriminate.
      pose proof (s_test _ HS _ _ _ E1) as U1.
      destruct (p_args self false ts2) as [[[l' tc'] ts3]| |] eqn:E2; try discriminate.
      pose proof (s_args _ HS _ _ _ _ _ E2) as U2. rewrite stoks_false in U2. fin.
    + (* RPAREN *) intros H; inversion H; subst; clear H. destruct first; un; useU; un; reflexivity.
    + (* STARSTAR *) pk E.
      destruct (p_test self (tl ts1)) as [[x ts2]| |] eqn:E1; try discriminate.
      pose proof (s_test _ HS _ _ _ E1) as U1.
      destruct (p_args self false ts2) as [[[l' tc'] ts3]| |] eqn:E2; try discriminate.
      pose proof (s_args _ HS _ _ _ _ _ E2) as U2. rewrite stoks_false in U2. fin.
  - unfold args_plain.
    destruct (p_test self ts1) as [[x ts2]| |] eqn:E1; try discriminate.
    pose proof (s_test _ HS _ _ _ E1) as U1.
    rewrite match_EQ. destruct (tok_eqb (peek ts2) EQ) eqn:He.
    + apply tok_eqb_eq in He. pk He. destruct (Parse.is_ident x); try discriminate.
      destruct (p_test self (tl ts2)) as [[y ts3]| |] eqn:E2; try discriminate.
      pose proof (s_test _ HS _ _ _ E2) as U2.
      destruct (p_args self false ts3) as [[[l' tc'] ts4]| |] eqn:E3; try discriminate.
      pose proof (s_args _ HS _ _ _ _ _ E3) as U3. rewrite stoks_false in U3. fin.
    + destruct (p_args self false ts2) as [[[l' tc'] ts3]| |] eqn:E2; try discriminate.
      pose proof (s_args _ HS _ _ _ _ _ E2) as U2. rewrite stoks_false in U2. fin.
Qed.

Lemma expr_sound b ts e r : expr_body self b ts = Ok (e, r) -> U ts = U (tokens e) ++ U r.
Proof.
  unfold expr_body. destruct (p_test self ts) as [[x ts1]| |] eqn:E1; try discriminate.
  pose proof (s_test _ HS _ _ _ E1) as U1.
  rewrite match_COMMA. destruct (tok_eqb (peek ts1) COMMA); [|fin].
  destruct (p_exprs self b ts1) as [[[l tc] ts2]| |] eqn:E2; try discriminate.
  pose proof (s_exprs _ HS _ _ _ _ _ E2) as U2. fin.
Qed.

Lemma exprs_sound b ts l tc r :
  exprs_body self b ts = Ok (l, tc, r) -> U ts = U (ctoks l) ++ U (trail tc) ++ U r.
Proof.
  unfold exprs_body. rewrite match_COMMA. destruct (tok_eqb (peek ts) COMMA) eqn:Hc; [|fin].
  apply tok_eqb_eq in Hc. pk Hc. cbv zeta.
  destruct (terminates_expr_list (peek (tl ts))).
  - destruct b; try discriminate. fin.
  - destruct (p_test self (tl ts)) as [[x ts1]| |] eqn:E1; try discriminate.
    pose proof (s_test _ HS _ _ _ E1) as U1.
    destruct (p_exprs self b ts1) as [[[l' tc'] ts2]| |] eqn:E2; try discriminate.
    pose proof (s_exprs _ HS _ _ _ _ _ E2) as U2. fin.
Qed.

Lemma loopVars_sound ts e r : loopVars_body self ts = Ok (e, r) -> U ts = U (tokens e) ++ U r.
Proof.
  unfold loopVars_body. destruct (p_primSuffix self ts) as [[x ts1]| |] eqn:E1; try discriminate.
  pose proof (s_primSuffix _ HS _ _ _ E1) as U1.
  rewrite match_COMMA. destruct (tok_eqb (peek ts1) COMMA); [|fin].
  destruct (p_loopVarsTail self ts1) as [[[l tc] ts2]| |] eqn:E2; try discriminate.
  pose proof (s_loopVarsTail _ HS _ _ _ _ E2) as U2. fin.
Qed.

Lemma loopVarsTail_sound ts l tc r :
  loopVarsTail_body self ts = Ok (l, tc, r) -> U ts = U (ctoks l) ++ U (trail tc) ++ U r.
Proof.
  unfold loopVarsTail_body. rewrite match_COMMA. destruct (tok_eqb (peek ts) COMMA) eqn:Hc; [|fin].
  apply tok_eqb_eq in Hc. pk Hc. cbv zeta.
  destruct (terminates_expr_list (peek (tl ts))); [fin|].
  destruct (p_primSuffix self (tl ts)) as [[x ts1]| |] eqn:E1; try discriminate.
  pose proof (s_primSuffix _ HS _ _ _ E1) as U1.
  destruct (p_loopVarsTail self ts1) as [[[l' tc'] ts2]| |] eqn:E2; try discriminate.
  pose proof (s_loopVarsTail _ HS _ _ _ _ E2) as U2. fin.
Qed.

Lemma dictEntry_sound ts e r : dictEntry_body self ts = Ok (e, r) -> U ts = U (tokens e) ++ U r.
Proof.
  unfold dictEntry_body. destruct (p_test self ts) as [[k ts1]| |] eqn:E1; try discriminate.
  pose proof (s_test _ HS _ _ _ E1) as U1.
  destruct (peek ts1) eqn:E2; try discriminate. pk E2.
  destruct (p_test self (tl ts1)) as [[v ts2]| |] eqn:E3; try discriminate.
  pose proof (s_test _ HS _ _ _ E3) as U3. fin.
Qed.

Lemma dictEntries_sound ts l tc r :
  dictEntries_body self ts = Ok (l, tc, r) -> U ts = U (ctoks l) ++ U (trail tc) ++ U r.
Proof.
  unfold dictEntries_body. rewrite match_COMMA. destruct (tok_eqb (peek ts) COMMA) eqn:Hc; [|fin].
  apply tok_eqb_eq in Hc. pk Hc. cbv zeta.
  rewrite match_RBRACE. destruct (tok_eqb (peek (tl ts)) RBRACE); [fin|].
  destruct (p_dictEntry self (tl ts)) as [[x ts1]| |] eqn:E1; try discriminate.
  pose proof (s_dictEntry _ HS _ _ _ E1) as U1.
  destruct (p_dictEntries self ts1) as [[[l' tc'] ts2]| |] eqn:E2; try discriminate.
  pose proof (s_dictEntries _ HS _ _ _ _ E2) as U2. fin.
Qed.

Lemma clauses_sound curly ts cl rb r :
  clauses_body self curly ts = Ok (cl, rb, r) ->
  U ts = U (flat_map tokens cl) ++ [if curly then RBRACE else RBRACK] ++ U r.
Proof.
  unfold clauses_body. cbv zeta.
  destruct (peek ts) eqn:E; try discriminate; pk E; cbv beta iota.
  - (* RBRACK *) destruct curly; try discriminate. fin.
  - (* RBRACE *) destruct curly; try discriminate. fin.
  - (* FOR *)
    destruct (p_loopVars self (tl ts)) as [[vars ts1]| |] eqn:E1; try discriminate.
    pose proof (s_loopVars _ HS _ _ _ E1) as U1.
    destruct (peek ts1) eqn:E2; try discriminate. pk E2.
    destruct (p_testPrec self 0 (tl ts1)) as [[x ts2]| |] eqn:E3; try discriminate.
    pose proof (s_testPrec _ HS _ _ _ _ E3) as U3.
    destruct (p_clauses self curly ts2) as [[[cl' rb'] ts3]| |] eqn:E4; try discriminate.
    pose proof (s_clauses _ HS _ _ _ _ _ E4) as U4. fin.
  - (* IF *)
    destruct (p_testNoCond self (tl ts)) as [[c ts1]| |] eqn:E1; try discriminate.
    pose proof (s_testNoCond _ HS _ _ _ E1) as U1.
    destruct (p_clauses self curly ts1) as [[[cl' rb'] ts2]| |] eqn:E4; try discriminate.
    pose proof (s_clauses _ HS _ _ _ _ _ E4) as U4. fin.
Qed.

Lemma parseList_sound lb ts e r :
  parseList self lb ts = Ok (e, r) -> LBRACK :: U ts = U (tokens e) ++ U r.
Proof.
  unfold parseList. rewrite match_RBRACK. destruct (tok_eqb (peek ts) RBRACK) eqn:Hr.
  - apply tok_eqb_eq in Hr. pk Hr. fin.
  - unfold list_dflt. destruct (p_test self ts) as [[x ts1]| |] eqn:E1; try discriminate.
    pose proof (s_test _ HS _ _ _ E1) as U1.
    rewrite match_FOR. destruct (tok_eqb (peek ts1) FOR).
    + destruct (p_clauses self false ts1) as [[[cl rb] ts2]| |] eqn:E2; try discriminate.
      pose proof (s_clauses _ HS _ _ _ _ _ E2) as U2. cbv beta iota in U2. fin.
    + destruct (p_exprs self true ts1) as [[[l tc] ts2]| |] eqn:E2; try discriminate.
      pose proof (s_exprs _ HS _ _ _ _ _ E2) as U2.
      destruct (peek ts2) eqn:E3; try discriminate. pk E3. fin.
Qed.

Lemma parseDict_sound lb ts e r :
  parseDict self lb ts = Ok (e, r) -> LBRACE :: U ts = U (tokens e) ++ U r.
Proof.
  unfold parseDict. rewrite match_RBRACE. destruct (tok_eqb (peek ts) RBRACE) eqn:Hr.
  - apply tok_eqb_eq in Hr. pk Hr. fin.
  - unfold dict_dflt. destruct (p_dictEntry self ts) as [[x ts1]| |] eqn:E1; try discriminate.
    pose proof (s_dictEntry _ HS _ _ _ E1) as U1.
    rewrite match_FOR. destruct (tok_eqb (peek ts1) FOR).
    + destruct (p_clauses self true ts1) as [[[cl rb] ts2]| |] eqn:E2; try discriminate.
      pose proof (s_clauses _ HS _ _ _ _ _ E2) as U2. cbv beta iota in U2. fin.
    + destruct (p_dictEntries self ts1) as [[[l tc] ts2]| |] eqn:E2; try discriminate.
      pose proof (s_dictEntries _ HS _ _ _ _ E2) as U2.
      destruct (peek ts2) eqn:E3; try discriminate. pk E3. fin.
Qed.

Lemma primary_sound ts e r : primary_body self ts = Ok (e, r) -> U ts = U (tokens e) ++ U r.
Proof.
  unfold primary_body. cbv zeta.
  destruct (peek ts) eqn:E; try discriminate; pk E; cbv beta iota; try solve [fin].
  - (* PLUS *) destruct (p_primSuffix self (tl ts)) as [[x ts1]| |] eqn:E1; try discriminate.
    pose proof (s_primSuffix _ HS _ _ _ E1) as U1. fin.
  - (* MINUS *) destruct (p_primSuffix self (tl ts)) as [[x ts1]| |] eqn:E1; try discriminate.
    pose proof (s_primSuffix _ HS _ _ _ E1) as U1. fin.
  - (* TILDE *) destruct (p_primSuffix self (tl ts)) as [[x ts1]| |] eqn:E1; try discriminate.
    pose proof (s_primSuffix _ HS _ _ _ E1) as U1. fin.
  - (* LPAREN *) rewrite match_RPAREN. destruct (tok_eqb (peek (tl ts)) RPAREN) eqn:Hr.
    + apply tok_eqb_eq in Hr. pk Hr. fin.
    + destruct (p_expr self true (tl ts)) as [[x ts1]| |] eqn:E1; try discriminate.
      pose proof (s_expr _ HS _ _ _ _ E1) as U1.
      destruct (peek ts1) eqn:E2; try discriminate. pk E2. fin.
  - (* LBRACK *) intros H. rewrite Up. exact (parseList_sound _ _ _ _ H).
  - (* LBRACE *) intros H. rewrite Up. exact (parseDict_sound _ _ _ _ H).
Qed.
End Step.

Lemma Sound_bottom : Sound bottom.
Proof. constructor; cbn [bottom p_test p_testNoCond p_lambda p_params p_testPrec p_binopLoop p_primSuffix
  p_suffixLoop p_primary p_expr p_exprs p_args p_dictEntry p_dictEntries p_clauses p_loopVars p_loopVarsTail];
  intros; discriminate. Qed.

Lemma Sound_step self : Sound self -> Sound (step self).
Proof.
  intros HS. constructor; cbn [step p_test p_testNoCond p_lambda p_params p_testPrec p_binopLoop p_primSuffix
    p_suffixLoop p_primary p_expr p_exprs p_args p_dictEntry p_dictEntries p_clauses p_loopVars p_loopVarsTail].
  - exact (test_sound self HS).
  - exact (testNoCond_sound self HS).
  - exact (lambda_sound self HS).
  - exact (params_sound self HS).
  - exact (testPrec_sound self HS).
  - exact (binopLoop_sound self HS).
  - exact (primSuffix_sound self HS).
  - exact (suffixLoop_sound self HS).
  - exact (primary_sound self HS).
  - exact (expr_sound self HS).
  - exact (exprs_sound self HS).
  - exact (args_sound self HS).
  - exact (dictEntry_sound self HS).
  - exact (dictEntries_sound self HS).
  - exact (clauses_sound self HS).
  - exact (loopVars_sound self HS).
  - exact (loopVarsTail_sound self HS).
Qed.

Theorem parsers_sound_lemma : forall n, Sound (parsers n).
Proof. induction n as [|n IH]; [exact Sound_bottom|exact (Sound_step _ IH)]. Qed.

(* ---- exported ---- *)
Lemma parse_sound_tokens_lemma : forall n b ts e r,
  p_expr (parsers n) b ts = Ok (e, r) -> U ts = U (tokens e) ++ U r.
Proof. intros n. exact (s_expr _ (parsers_sound_lemma n)). Qed.

(* ParseExpr: after the expression an optional NEWLINE, then the lookahead is
   EOF -- the end of the list (peek [] = EOF) or an EOF token; what follows an
   EOF token in the input list is never looked at (junk). *)
Lemma parse_expr_sound_tokens_lemma : forall ts e, parse_expr ts = Ok e ->
  exists tail junk, U ts = U (tokens e) ++ tail ++ junk /\
    (tail = [EOF] \/ tail = [NEWLINE; EOF] \/ (tail = [] /\ junk = []) \/ (tail = [NEWLINE] /\ junk = [])).
Proof.
  intros ts e. unfold parse_expr, parse_expr_n.
  destruct (p_expr (parsers (fuel_of ts)) false ts) as [[e' ts1]| |] eqn:E1; try discriminate.
  pose proof (parse_sound_tokens_lemma _ _ _ _ _ E1) as U1. cbv zeta.
  assert (Hend : forall t2, peek t2 = EOF -> U t2 = [] \/ exists j, U t2 = EOF :: j).
  { intros t2 Hp. destruct t2 as [|[t p] r2]; [left; reflexivity|]. cbn [peek] in Hp. subst t.
    right. exists (U r2). reflexivity. }
  rewrite (match_NEWLINE (peek ts1)). destruct (tok_eqb (peek ts1) NEWLINE) eqn:Hn.
  - apply tok_eqb_eq in Hn. pose proof (U_peek _ _ Hn ltac:(discriminate)) as Up. cbn [ukind app] in Up.
    destruct (peek (tl ts1)) eqn:E2; try discriminate. intros H; inversion H; subst e'; clear H.
    destruct (Hend _ E2) as [Hj|[j Hj]]; rewrite U1, Up, Hj.
    + exists [NEWLINE], []. split; [reflexivity|]. right; right; right. split; reflexivity.
    + exists [NEWLINE; EOF], j. split; [reflexivity|]. right; left. reflexivity.
  - destruct (peek ts1) eqn:E2; try discriminate. intros H; inversion H; subst e'; clear H.
    destruct (Hend _ E2) as [Hj|[j Hj]]; rewrite U1, Hj.
    + exists [], []. split; [reflexivity|]. right; right; left. split; reflexivity.
    + exists [EOF], j. split; [reflexivity|]. left. reflexivity.
Qed.

(* when the token list has nothing after its first EOF token (what the scanner
   produces), there is no junk *)
Corollary parse_expr_sound_tokens_eof_lemma : forall ts e,
  parse_expr ts = Ok e -> (forall a b, U ts = a ++ EOF :: b -> b = []) ->
  exists tail, U ts = U (tokens e) ++ tail /\
    (tail = [EOF] \/ tail = [NEWLINE; EOF] \/ tail = [] \/ tail = [NEWLINE]).
Proof.
  intros ts e H Hlast. destruct (parse_expr_sound_tokens_lemma ts e H) as (tail & junk & HU & Ht).
  destruct Ht as [->|[->|[[-> ->]|[-> ->]]]].
  - assert (junk = []) by (apply (Hlast (U (tokens e)) junk); rewrite HU; reflexivity). subst junk.
    exists [EOF]. rewrite HU. split; [reflexivity|]. left. reflexivity.
  - assert (junk = []).
    { apply (Hlast (U (tokens e) ++ [NEWLINE]) junk). rewrite HU, <- app_assoc. reflexivity. }
    subst junk. exists [NEWLINE; EOF]. rewrite HU. split; [reflexivity|]. right; left. reflexivity.
  - exists []. rewrite HU. split; [reflexivity|]. right; right; left. reflexivity.
  - exists [NEWLINE]. rewrite HU. split; [reflexivity|]. right; right; right. reflexivity.
Qed.

Lemma eof_last_intro : forall l0 l, ~ In EOF l0 -> l = l0 ++ [EOF] ->
  forall a b, l = a ++ EOF :: b -> b = [].
Proof.
  intros l0 l Hn -> . induction l0 as [|x l0 IH]; intros a b H.
  - destruct a as [|t a]; cbn [app] in H; [congruence|]. injection H as _ Ha. destruct a; discriminate.
  - destruct a as [|t a]; cbn [app] in H.
    + injection H as Hx _. exfalso. apply Hn. left. exact Hx.
    + injection H as _ Ha. apply (IH (fun Hi => Hn (or_intror Hi)) a b Ha).
Qed.

(* ---- example: the premises are satisfiable (a test, not part of the proof) ----
   a not in [x for x in f(y, *z)[1:]] if c else lambda k=2: {}  NEWLINE EOF *)
Module SoundEx.
  Open Scope Z_scope.
  Definition toks : list ptok :=
    [(IDENT "a",(1,1)); (NOT,(1,3)); (IN,(1,7)); (LBRACK,(1,10)); (IDENT "x",(1,11)); (FOR,(1,13));
     (IDENT "x",(1,17)); (IN,(1,19)); (IDENT "f",(1,22)); (LPAREN,(1,23)); (IDENT "y",(1,24)); (COMMA,(1,25));
     (STAR,(1,27)); (IDENT "z",(1,28)); (RPAREN,(1,29)); (LBRACK,(1,30)); (INT 1,(1,31)); (COLON,(1,32));
     (RBRACK,(1,33)); (RBRACK,(1,34)); (IF,(1,36)); (IDENT "c",(1,39)); (ELSE,(1,41)); (LAMBDA,(1,46));
     (IDENT "k",(1,53)); (EQ,(1,54)); (INT 2,(1,55)); (COLON,(1,56)); (LBRACE,(1,58)); (RBRACE,(1,59));
     (NEWLINE,(1,60)); (EOF,(2,1))].
  Definition tree : expr :=
    match parse_expr toks with Ok e => e | _ => EmptyTuple nopos nopos end.
  Example ex_accepts : parse_expr toks = Ok tree /\ tree <> EmptyTuple nopos nopos.
  Proof. vm_compute. split; [reflexivity|discriminate]. Qed.
  Example ex_sound : U toks = U (tokens tree) ++ [NEWLINE; EOF] /\
                     (forall a b, U toks = a ++ EOF :: b -> b = []) /\
                     In NOT_IN (map fst (fuse (skipn 1 toks))) /\ ~ In NOT_IN (U toks).
  Proof.
    split; [vm_compute; reflexivity|]. split.
    - apply (eof_last_intro (removelast (U toks))); [vm_compute; intuition discriminate|vm_compute; reflexivity].
    - split; [vm_compute; tauto|]. vm_compute. intuition discriminate.
  Qed.
End SoundEx.
