(* C14 -- parse . print for statements, part 1: small statements and
   simple-statement lines. *)
From Coq Require Import ZArith List String Bool Arith Lia.
From SV Require Import C14.Tokens C14.Parse C14.Print C14.PrintStmt C14.ProofsBase C14.ProofsExpr
  C14.ProofsTop.
Import ListNotations.
Open Scope nat_scope.

Lemma un_stmt n ts : p_stmt (parsers (S n)) ts = stmt_body (parsers n) ts. Proof. reflexivity. Qed.
Lemma un_simpleStmt n ts : p_simpleStmt (parsers (S n)) ts = simpleStmt_body (parsers n) ts. Proof. reflexivity. Qed.
Lemma un_suite n ts : p_suite (parsers (S n)) ts = suite_body (parsers n) ts. Proof. reflexivity. Qed.
Lemma un_suiteStmts n ts : p_suiteStmts (parsers (S n)) ts = suiteStmts_body (parsers n) ts. Proof. reflexivity. Qed.
Lemma un_elifs n ts : p_elifs (parsers (S n)) ts = elifs_body (parsers n) ts. Proof. reflexivity. Qed.
Lemma un_loadNames n ts : p_loadNames (parsers (S n)) ts = loadNames_body (parsers n) ts. Proof. reflexivity. Qed.
Lemma un_file n ts : p_file (parsers (S n)) ts = file_body (parsers n) ts. Proof. reflexivity. Qed.

(* what may follow a small statement *)
Definition stop_small (t : tok) : bool := match t with SEMI | NEWLINE | EOF => true | _ => false end.

Lemma stop_small_props t : stop_small t = true ->
  stop_test t = true /\ t <> COMMA /\ is_augassign t = false.
Proof. destruct t; try discriminate; repeat split; discriminate. Qed.

Lemma augassign_props t : is_augassign t = true -> stop_test t = true /\ t <> COMMA.
Proof. destruct t; try discriminate; split; try reflexivity; discriminate. Qed.

Lemma starts_not_smallkw {A} t (a b c d e f : A) :
  starts t = true ->
  match t with RETURN => a | BREAK => b | CONTINUE => c | PASS => d | LOAD => e | _ => f end = f.
Proof. destruct t; try reflexivity; discriminate. Qed.
Lemma starts_not_eol {A} t (a b : A) :
  starts t = true -> match t with EOF | NEWLINE | SEMI => a | _ => b end = b.
Proof. destruct t; try reflexivity; discriminate. Qed.

Lemma wf_parts e : wf_expr e = true -> wp e = true /\ isx e = true /\ noparen_ok e = true.
Proof. unfold wf_expr. intros H. split_andb. auto. Qed.

Lemma peek_wf_starts e rest : wf_expr e = true -> starts (peek (tokens e ++ rest)) = true.
Proof.
  intros H. destruct (wf_parts _ H) as (Hw & Hi & _).
  destruct (head_ok_all e Hw Hi) as (Hne & Hst & _). rewrite (peek_app _ _ Hne). assumption.
Qed.

Lemma p_expr_wf e rest n :
  wf_expr e = true -> stop_test (peek rest) = true -> peek rest <> COMMA ->
  40 * size e + 32 <= n ->
  p_expr (parsers n) false (tokens e ++ rest) = Ok (e, rest).
Proof.
  intros H Hs Hc Hn. destruct (wf_parts _ H) as (Hw & Hi & Hnp).
  apply parse_print_expr_lemma; auto. apply rest_ok_stop; auto.
Qed.

(* ---- load ---- *)
Lemma loadNames_ok names : forall tc rp rest n,
  List.length names + 2 <= n ->
  p_loadNames (parsers n) (flat_map name_tokens names ++ trail tc ++ (RPAREN, rp) :: rest)
  = Ok (names, tc, (RPAREN, rp) :: rest).
Proof.
  induction names as [|nm names IH]; intros tc rp rest n Hn.
  - destruct n as [|n]; [lia|]. rewrite un_loadNames. unfold loadNames_body.
    destruct tc; cbn [flat_map trail app peek comma]; [|reflexivity].
    unfold loadNames_dflt. cbn [peek tl comma]. reflexivity.
  - destruct n as [|n]; [cbn in Hn; lia|]. rewrite un_loadNames. unfold loadNames_body.
    cbn [List.length] in Hn.
    destruct nm as [[[[ip id]|] sp] s]; cbn [flat_map name_tokens app peek comma];
      unfold loadNames_dflt; cbn [peek peekpos tl comma];
      (rewrite IH; [reflexivity|lia]).
Qed.

(* ---- small statements ---- *)
Lemma small_stmt_ok s rest n :
  small_ok s = true -> stop_small (peek rest) = true ->
  40 * ssize s + 40 <= n ->
  parseSmallStmt (parsers n) (small_tokens s ++ rest) = Ok (s, rest).
Proof.
  intros Hok Hst Hn. destruct (stop_small_props _ Hst) as (Hs1 & Hs2 & Hs3).
  unfold parseSmallStmt. cbv zeta.
  destruct s; cbn [small_ok] in Hok; try discriminate; cbn [small_tokens ssize] in *.
  - (* Assign *)
    split_andb.
    match goal with H1 : wf_expr lhs = true, H2 : wf_expr rhs = true, H3 : is_augassign op = true |- _ =>
      rename H1 into Hl; rename H2 into Hr; rename H3 into Ha end.
    destruct (augassign_props _ Ha) as [Ha1 Ha2].
    rewrite <- app_assoc. cbn [app].
    rewrite (starts_not_smallkw _ _ _ _ _ _ _ (peek_wf_starts lhs _ Hl)).
    unfold assignOrExpr.
    rewrite (p_expr_wf lhs); [|assumption|exact Ha1|exact Ha2|lia].
    cbn [peek peekpos tl]. rewrite Ha.
    rewrite (p_expr_wf rhs); [reflexivity|assumption|assumption|assumption|lia].
  - (* Branch *)
    destruct t; try discriminate; reflexivity.
  - (* Expr *)
    rewrite (starts_not_smallkw _ _ _ _ _ _ _ (peek_wf_starts x _ Hok)).
    unfold assignOrExpr.
    rewrite (p_expr_wf x); [|assumption|assumption|assumption|lia].
    rewrite Hs3. reflexivity.
  - (* Load *)
    cbn [app peek peekpos tl]. unfold parseLoadStmt. cbn [peek peekpos tl].
    rewrite <- !app_assoc. cbn [app].
    rewrite loadNames_ok; [|lia].
    cbn [peek peekpos tl]. destruct names; [discriminate|reflexivity].
  - (* Return *)
    destruct result as [e|]; cbn [app peek peekpos tl].
    + rewrite (starts_not_eol _ _ _ (peek_wf_starts e _ Hok)).
      rewrite (p_expr_wf e); [reflexivity|assumption|assumption|assumption|lia].
    + destruct (peek rest); try discriminate Hst; reflexivity.
Qed.

Definition line_head (t : tok) : bool :=
  match t with NEWLINE | EOF | SEMI | DEF | IF | FOR | WHILE | OUTDENT | ELIF | ELSE => false | _ => true end.

Lemma starts_line_head t : starts t = true -> line_head t = true.
Proof. destruct t; try discriminate; reflexivity. Qed.

Lemma small_head s rest : small_ok s = true ->
  small_tokens s <> [] /\ line_head (peek (small_tokens s ++ rest)) = true.
Proof.
  intros Hok. destruct s; cbn [small_ok] in Hok; try discriminate; cbn [small_tokens].
  - split_andb.
    match goal with H1 : wf_expr lhs = true |- _ =>
      destruct (wf_parts _ H1) as (Hw & Hi & _); destruct (head_ok_all lhs Hw Hi) as (Hne & Hst & _) end.
    split; [destruct (tokens lhs); [congruence|discriminate]|].
    rewrite <- app_assoc. rewrite (peek_app _ _ Hne). apply starts_line_head. assumption.
  - split; [discriminate|]. destruct t; try discriminate; reflexivity.
  - destruct (wf_parts _ Hok) as (Hw & Hi & _). destruct (head_ok_all x Hw Hi) as (Hne & Hst & _).
    split; [assumption|]. rewrite (peek_app _ _ Hne). apply starts_line_head. assumption.
  - split; [discriminate|reflexivity].
  - destruct result; split; try discriminate; reflexivity.
Qed.

Lemma smalls_head l rest : line_ok l = true -> line_head (peek (smalls_tokens l ++ rest)) = true.
Proof.
  unfold line_ok. destruct l as [|s l]; [discriminate|]. cbn [nonempty andb forallb]. intros H.
  apply andb_true_iff in H. destruct H as [Hs _].
  destruct (small_head s rest Hs) as [Hne H].
  destruct l as [|s2 l].
  - exact H.
  - change (smalls_tokens (s :: s2 :: l)) with (small_tokens s ++ semi :: smalls_tokens (s2 :: l)).
    rewrite <- app_assoc. rewrite (peek_app _ _ Hne). rewrite (peek_app _ _ Hne) in H. exact H.
Qed.

(* ---- a line of small statements ---- *)
Lemma lsize_cons s l : lsize (s :: l) = ssize s + lsize l.
Proof. reflexivity. Qed.
Lemma ssize_pos s : 1 <= ssize s.
Proof. destruct s; cbn; try lia. destruct result; lia. Qed.

Lemma simple_line_ok l : forall sm rest n,
  line_ok l = true ->
  40 * lsize l + 41 <= n ->
  p_simpleStmt (parsers n) (line_tokens l sm ++ rest) = Ok (l, rest).
Proof.
  unfold line_ok, line_tokens.
  induction l as [|s l IH]; intros sm rest n Hok Hn; [discriminate|].
  cbn [nonempty andb forallb] in Hok. apply andb_true_iff in Hok. destruct Hok as [Hs Hall].
  rewrite lsize_cons in Hn. pose proof (ssize_pos s) as Hp.
  destruct n as [|n]; [lia|]. rewrite un_simpleStmt. unfold simpleStmt_body.
  destruct l as [|s2 l].
  - cbn [smalls_tokens]. rewrite <- app_assoc.
    rewrite (small_stmt_ok s); [|assumption|destruct sm; reflexivity|cbn [lsize fold_right] in Hn; lia].
    destruct sm; cbn [app peek peekpos tl semi newline]; unfold finishSimple; reflexivity.
  - change (smalls_tokens (s :: s2 :: l)) with (small_tokens s ++ semi :: smalls_tokens (s2 :: l)).
    rewrite <- !app_assoc. cbn [app].
    rewrite (small_stmt_ok s); [|assumption|reflexivity|lia].
    cbn [peek peekpos tl semi].
    assert (Hl : nonempty (s2 :: l) && forallb small_ok (s2 :: l) = true) by exact Hall.
    specialize (IH sm rest n Hl ltac:(lia)).
    cbn [forallb] in Hall. apply andb_true_iff in Hall. destruct Hall as [Hs2 _].
    pose proof (smalls_head (s2 :: l) ((if sm then [semi] else []) ++ [newline] ++ rest) Hl) as Hpk.
    rewrite <- !app_assoc in IH. cbn [app] in IH, Hpk.
    unfold line_head in Hpk.
    match type of Hpk with match ?t with _ => _ end = true => destruct t eqn:E; try discriminate Hpk end;
      rewrite IH; reflexivity.
Qed.

(* the last line of a file may lack its NEWLINE (grammar.txt: "'\n' optional at EOF");
   at top level the scanner then emits EOF directly *)
Lemma simple_line_eof_ok l : forall (sm : bool) (p : pos) (n : nat),
  line_ok l = true ->
  40 * lsize l + 41 <= n ->
  p_simpleStmt (parsers n) (smalls_tokens l ++ (if sm then [semi] else []) ++ [(EOF, p)]) = Ok (l, [(EOF, p)]).
Proof.
  unfold line_ok.
  induction l as [|s l IH]; intros sm p n Hok Hn; [discriminate|].
  cbn [nonempty andb forallb] in Hok. apply andb_true_iff in Hok. destruct Hok as [Hs Hall].
  rewrite lsize_cons in Hn. pose proof (ssize_pos s) as Hp.
  destruct n as [|n]; [lia|]. rewrite un_simpleStmt. unfold simpleStmt_body.
  destruct l as [|s2 l].
  - cbn [smalls_tokens].
    rewrite (small_stmt_ok s); [|assumption|destruct sm; reflexivity|cbn [lsize fold_right] in Hn; lia].
    destruct sm; cbn [app peek peekpos tl semi]; unfold finishSimple; reflexivity.
  - change (smalls_tokens (s :: s2 :: l)) with (small_tokens s ++ semi :: smalls_tokens (s2 :: l)).
    rewrite <- !app_assoc. cbn [app].
    rewrite (small_stmt_ok s); [|assumption|reflexivity|lia].
    cbn [peek peekpos tl semi].
    assert (Hl : nonempty (s2 :: l) && forallb small_ok (s2 :: l) = true) by exact Hall.
    specialize (IH sm p n Hl ltac:(lia)).
    pose proof (smalls_head (s2 :: l) ((if sm then [semi] else []) ++ [(EOF, p)]) Hl) as Hpk.
    unfold line_head in Hpk.
    match type of Hpk with match ?t with _ => _ end = true => destruct t eqn:E; try discriminate Hpk end;
      rewrite IH; reflexivity.
Qed.
