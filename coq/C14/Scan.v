(* C14 -- executable model of the parts of syntax/scan.go the property speaks
   about: (a) scanNumber: the state machine that delimits a numeric literal,
   classifies it (int / float / dot / error) and decodes integers of any size
   in the four radices; (b) the indentation algorithm of nextToken
   (indentstk, dents, depth, lineStart): NEWLINE / INDENT / OUTDENT synthesis.
   Characters are code points (Z).  No proofs here. *)
From Coq Require Import ZArith List Bool Arith Lia.
Import ListNotations.
Open Scope Z_scope.

(* ------------------------------------------------------------------ *)
(* (a) numbers                                                          *)

Definition isdigit (c : Z) : bool := (48 <=? c) && (c <=? 57).
Definition isodigit (c : Z) : bool := (48 <=? c) && (c <=? 55).
Definition isbdigit (c : Z) : bool := (c =? 48) || (c =? 49).
Definition isxdigit (c : Z) : bool :=
  isdigit c || ((65 <=? c) && (c <=? 70)) || ((97 <=? c) && (c <=? 102)).

(* value of a digit character (strconv.ParseInt / big.Int.SetString) *)
Definition digitval (c : Z) : Z :=
  if isdigit c then c - 48
  else if (97 <=? c) && (c <=? 102) then c - 97 + 10
  else c - 65 + 10.

(* span p s = (longest prefix of s whose characters satisfy p, the rest) *)
Fixpoint span (p : Z -> bool) (s : list Z) : list Z * list Z :=
  match s with
  | c :: r => if p c then let '(a, b) := span p r in (c :: a, b) else ([], s)
  | [] => ([], [])
  end.

(* the digit loop of strconv.ParseInt / big.Int.SetString: most significant first *)
Definition digits_value (base : Z) (ds : list Z) : Z :=
  fold_left (fun acc c => acc * base + digitval c) ds 0.

Inductive numtok :=
| NInt (z : Z)            (* INT with its exact value *)
| NFloat (raw : list Z)   (* FLOAT; value = strconv.ParseFloat raw (oracle) *)
| NDot                    (* the '.' token *)
| NErr.                   (* scanner error *)

Definition peekc (s : list Z) : Z := match s with c :: _ => c | [] => 0 end.

Definition c_dot := 46. Definition c_e := 101. Definition c_E := 69.
Definition c_plus := 43. Definition c_minus := 45. Definition c_0 := 48.
Definition is_e (c : Z) : bool := (c =? c_e) || (c =? c_E).

(* the common tail of scanNumber: optional fraction, optional exponent.
   `pre` = characters consumed so far (in order), s = rest of input. *)
Definition frac_exp (pre : list Z) (fraction exponent : bool) (s : list Z)
  : option (list Z * bool * bool * list Z) :=   (* None = "invalid float literal" *)
  let '(pre1, exponent1, s1) :=
    if fraction then
      match s with
      | dot :: r =>
        let '(ds, r') := span isdigit r in
        (pre ++ dot :: ds, exponent || is_e (peekc r'), r')
      | [] => (pre, exponent, s)
      end
    else (pre, exponent, s) in
  if exponent1 then
    match s1 with
    | e :: r =>
      let c := peekc r in
      if (c =? c_plus) || (c =? c_minus) then
        let r2 := tl r in
        if isdigit (peekc r2) then
          let '(ds, r') := span isdigit r2 in Some (pre1 ++ e :: c :: ds, fraction, true, r')
        else None
      else
        let '(ds, r') := span isdigit r in Some (pre1 ++ e :: ds, fraction, true, r')
    | [] => Some (pre1, fraction, true, s1)
    end
  else Some (pre1, fraction, false, s1).

(* decoding of a delimited integer literal.  `big_fallback_all`: the repaired
   code falls back to big.Int for every radix; the code before the repair did so
   only in the last branch (0o / 0b literals above 2^63-1 were rejected). *)
Definition max_int64 : Z := 9223372036854775807.

Definition decode_int (big_fallback_all : bool) (raw : list Z) : option Z :=
  match raw with
  | z :: x :: ds =>
    if (z =? c_0) && ((x =? 111) || (x =? 79)) then          (* 0o 0O *)
      match ds with
      | [] => None
      | _ => let v := digits_value 8 ds in
             if (v <=? max_int64) || big_fallback_all then Some v else None
      end
    else if (z =? c_0) && ((x =? 98) || (x =? 66)) then      (* 0b 0B *)
      match ds with
      | [] => None
      | _ => let v := digits_value 2 ds in
             if (v <=? max_int64) || big_fallback_all then Some v else None
      end
    else if (z =? c_0) && ((x =? 120) || (x =? 88)) then     (* 0x 0X: ParseInt base 0, then big *)
      match ds with [] => None | _ => Some (digits_value 16 ds) end
    else if z =? c_0 then                                    (* base 0, leading 0 = octal *)
      if forallb isodigit (x :: ds) then Some (digits_value 8 (x :: ds)) else None
    else Some (digits_value 10 raw)
  | [z] => Some (digits_value 10 raw)
  | [] => None
  end.

(* scanNumber: s starts with a digit or '.' *)
Definition scan_number (fix_all : bool) (s : list Z) : numtok * list Z :=
  let finish (pre : list Z) (fraction exponent : bool) (rest : list Z) : numtok * list Z :=
    match frac_exp pre fraction exponent rest with
    | None => (NErr, rest)
    | Some (raw, fr, ex, rest') =>
      if fr || ex then (NFloat raw, rest')
      else match decode_int fix_all raw with
           | Some v => (NInt v, rest')
           | None => (NErr, rest')
           end
    end in
  match s with
  | [] => (NErr, s)
  | c :: r =>
    if c =? c_dot then
      if isdigit (peekc r) then finish [] true false s else (NDot, r)
    else if c =? c_0 then
      let c1 := peekc r in
      if c1 =? c_dot then finish [c] true false r
      else if (c1 =? 120) || (c1 =? 88) then
        let '(ds, r') := span isxdigit (tl r) in
        match ds with [] => (NErr, r) | _ => finish (c :: c1 :: ds) false false r' end
      else if (c1 =? 111) || (c1 =? 79) then
        let '(ds, r') := span isodigit (tl r) in
        match ds with [] => (NErr, r) | _ => finish (c :: c1 :: ds) false false r' end
      else if (c1 =? 98) || (c1 =? 66) then
        let '(ds, r') := span isbdigit (tl r) in
        match ds with [] => (NErr, r) | _ => finish (c :: c1 :: ds) false false r' end
      else
        (* float, or obsolete octal "0755" *)
        let '(ds, r') := span isdigit r in
        let allzeros := forallb (fun d => d =? c_0) ds in
        let octal := forallb isodigit ds in
        let c2 := peekc r' in
        if c2 =? c_dot then finish (c :: ds) true false r'
        else if is_e c2 then finish (c :: ds) false true r'
        else if octal && negb allzeros then (NErr, r')       (* obsolete form of octal literal *)
        else finish (c :: ds) false false r'
    else
      let '(ds, r') := span isdigit s in
      let c2 := peekc r' in
      if c2 =? c_dot then finish ds true false r'
      else if is_e c2 then finish ds false true r'
      else finish ds false false r'
  end.

(* specification side: positional value, most significant digit first *)
Fixpoint positional (base : Z) (ds : list Z) : Z :=
  match ds with
  | [] => 0
  | d :: r => d * base ^ Z.of_nat (length r) + positional base r
  end.

(* ------------------------------------------------------------------ *)
(* (b) layout                                                           *)

Open Scope nat_scope.

(* leading white space of a line: false = ' ', true = TAB.
   col is the indentation width, rc the rune column - 1 (scan.go uses
   sc.pos.Col for the tab stop: `col += tab - (sc.pos.Col-1)%tab`). *)
Definition tabw := 8.
Fixpoint indent_col_from (col rc : nat) (ws : list bool) : nat :=
  match ws with
  | [] => col
  | false :: r => indent_col_from (S col) (S rc) r
  | true :: r => indent_col_from (col + (tabw - rc mod tabw)) (S rc) r
  end.
Definition indent_col (ws : list bool) : nat := indent_col_from 0 0 ws.

Inductive ev (A : Type) :=
| EvIndent | EvOutdent | EvNewline
| EvLine (a : A).        (* the tokens of (a physical line of) a logical line *)
Arguments EvIndent {A}. Arguments EvOutdent {A}. Arguments EvNewline {A}. Arguments EvLine {A} a.

Inductive lres (A : Type) := LOk (a : A) | LErr | LPanic.   (* LPanic: indentstk[-1] on an empty stack *)
Arguments LOk {A} a. Arguments LErr {A}. Arguments LPanic {A}.

(* "for len(stk) > 0 && col < stk[top] { dents--; pop }" -- returns the number of pops *)
Fixpoint pop_while (col : nat) (stk : list nat) : nat * list nat :=
  match stk with
  | top :: r => if col <? top then let '(k, s) := pop_while col r in (S k, s) else (0, stk)
  | [] => (0, [])
  end.

(* at the start of a non-blank line outside brackets; stk has its top first *)
Definition line_start {A} (stk : list nat) (col : nat) : lres (list (ev A) * list nat) :=
  match stk with
  | [] => LPanic
  | cur :: _ =>
    if cur <? col then LOk ([EvIndent], col :: stk)
    else if col <? cur then
      let '(k, s) := pop_while col stk in
      match s with
      | [] => LPanic
      | top :: _ => if col =? top then LOk (repeat EvOutdent k, s) else LErr   (* unindent does not match *)
      end
    else LOk ([], stk)
  end.

(* one physical line as the scanner meets it *)
Record pline (A : Type) := mkline {
  l_ws : list bool;     (* leading white space *)
  l_blank : bool;       (* empty / white space only / comment only *)
  l_depth : nat;        (* bracket depth at the start of the line *)
  l_cont : bool;        (* the previous line ended with a backslash continuation *)
  l_payload : A
}.
Arguments mkline {A}. Arguments l_ws {A}. Arguments l_blank {A}. Arguments l_depth {A}.
Arguments l_cont {A}. Arguments l_payload {A}.

(* does a NEWLINE token follow this line: the next physical line starts a new
   logical line (depth 0, no continuation) *)
Definition starts_logical {A} (l : pline A) : bool := (l_depth l =? 0) && negb (l_cont l).

(* the token-class stream for a file; pending = some content has been emitted
   since the last NEWLINE *)
Fixpoint layout_lines {A} (stk : list nat) (pending : bool) (ls : list (pline A)) (final_newline : bool)
  : lres (list (ev A)) :=
  match ls with
  | [] =>
    (* EOF: NEWLINE if content is pending and blocks are open; then the OUTDENTs *)
    match stk with
    | [] => LPanic
    | _ :: open =>
      match open with
      | [] => LOk []
      | _ => LOk ((if pending && negb final_newline then [EvNewline] else []) ++ repeat EvOutdent (length open))
      end
    end
  | l :: rest =>
    let nl_after (content : bool) : bool :=
      content && match rest with
                 | n :: _ => starts_logical n
                 | [] => final_newline
                 end in
    if l_cont l then
      (* not a line start: white space skipped, tokens follow *)
      match layout_lines stk (negb (nl_after true)) rest final_newline with
      | LOk evs => LOk (EvLine (l_payload l) :: (if nl_after true then [EvNewline] else []) ++ evs)
      | e => e
      end
    else if l_blank l then
      (* blank and comment lines produce nothing (not even inside brackets) *)
      layout_lines stk pending rest final_newline
    else if 0 <? l_depth l then
      match layout_lines stk (negb (nl_after true)) rest final_newline with
      | LOk evs => LOk (EvLine (l_payload l) :: (if nl_after true then [EvNewline] else []) ++ evs)
      | e => e
      end
    else
      match line_start stk (indent_col (l_ws l)) with
      | LOk (dents, stk') =>
        match layout_lines stk' (negb (nl_after true)) rest final_newline with
        | LOk evs => LOk (dents ++ EvLine (l_payload l) :: (if nl_after true then [EvNewline] else []) ++ evs)
        | e => e
        end
      | LErr => LErr
      | LPanic => LPanic
      end
  end.

Definition layout {A} (ls : list (pline A)) (final_newline : bool) : lres (list (ev A)) :=
  layout_lines [0] false ls final_newline.
