(* C14 -- property theorems only; each closed by `exact <lemma>`.
   Models: Parse.v (syntax/parse.go), Scan.v (scanNumber, indentation), the
   specification side is Print.v (rendering + "well parenthesised") and the
   positional value of digit strings. *)
From Coq Require Import ZArith List String Bool Arith Lia.
From SV Require Import C14.Tokens C14.Parse C14.Print C14.Scan C14.ProofsScan
  C14.ProofsBase C14.ProofsExpr C14.ProofsTop C14.ProofsLayout C14.PrintStmt C14.ProofsStmt C14.ProofsStmt2 C14.ProofsSound C14.ProofsValid C14.ProofsValid3
  C14.ProofsSoundStmt C14.ProofsSoundStmt2 C14.ProofsSoundStmt3 C14.ProofsSoundStmt4.
Import ListNotations.
Open Scope nat_scope.

(* ------------------------------------------------------------------------ *)
(* (1) parse . print = id for expressions.
   For ALL trees e that are well parenthesised (wp: every child binds at least
   as tightly as its position requires or is a Paren node; redundant Paren
   nodes anywhere) and all continuations `rest` that cannot extend e, parseExpr
   returns exactly e -- including every position field and trailing-comma bit --
   and leaves exactly `rest`.  Fuel: any n >= 40 * size e + 32. *)
Theorem parse_print_expr :
  forall (e : expr) (inParens : bool) (rest : list ptok) (n : nat),
    wp e = true -> isx e = true ->
    expr_rest_ok e inParens rest ->
    40 * size e + 32 <= n ->
    p_expr (parsers n) inParens (tokens e ++ rest) = Ok (e, rest).
Proof. exact parse_print_expr_lemma. Qed.

(* The same at every precedence level: parseTestPrec(prec) on the rendering of
   a tree whose level is at least prec, followed by any token that is not an
   operator of precedence >= prec, not a suffix, and not a stray `not`
   (`not in` is fused into NOT_IN as the Go parser does: fz/fuse).  This is
   "precedence and associativity for all operator pairs in all nestings". *)
Theorem parse_print_prec :
  forall (e : expr) (prec : nat) (rest : list ptok) (n : nat),
    wp e = true -> isx e = true ->
    prec <= 10 -> L_BIN prec <= lvl e -> ok_at prec rest ->
    40 * size e + 24 <= n ->
    p_testPrec (parsers n) prec (tokens e ++ rest) = Ok (e, fz prec rest).
Proof. exact parse_print_prec_lemma. Qed.

(* FileOptions.ParseExpr as the model runs it: the fuel 40 * #tokens + 40 always
   suffices (every node of a well-formed tree contributes a token). *)
Theorem parse_expr_print :
  forall (e : expr) (pnl peof : pos) (nl : bool),
    wf_expr e = true ->
    parse_expr (tokens e ++ (if nl then [(NEWLINE, pnl)] else []) ++ [(EOF, peof)]) = Ok e.
Proof. exact parse_expr_print_lemma. Qed.

(* Each node's reported position (Span start as syntax.go computes it) is the
   position of the first token of its text. *)
Theorem span_start_is_first_token :
  forall e : expr, wp e = true -> isx e = true -> peekpos (tokens e) = start e.
Proof. exact start_first_token_lemma. Qed.

(* ------------------------------------------------------------------------ *)
(* (5) parse_sound: the converse, for ALL token lists and ALL fuel.  Whatever
   the expression parser accepts, it returns a WELL-PARENTHESISED tree whose
   rendering is exactly the accepted tokens (U = token kinds and values,
   positions dropped, the parser-synthesised NOT_IN expanded back to `not`
   `in`).  So a text is accepted only if it is the rendering of a tree of the
   grammar, and it is given that tree: nothing outside the grammar is silently
   given another meaning. *)
Theorem parse_sound :
  forall (n : nat) (inParens : bool) (ts : list ptok) (e : expr) (r : list ptok),
    p_expr (parsers n) inParens ts = Ok (e, r) ->
    wp e = true /\ isx e = true /\ (inParens = false -> noparen_ok e = true) /\
    U ts = U (tokens e) ++ U r.
Proof.
  intros n b ts e r H. destruct (parse_wellformed_lemma n b ts e r H) as (Hw & Hi & Hn).
  repeat split; auto. exact (parse_sound_tokens_lemma n b ts e r H).
Qed.

(* near-miss corollary, for FileOptions.ParseExpr as the model runs it: ANY
   token list (in particular one obtained from a valid text by deleting,
   duplicating or swapping a token) that is accepted is the rendering of the
   well-formed tree returned for it, followed by NEWLINE? EOF (the list as the
   scanner produces it ends at its first EOF), and that tree parses back from
   its rendering (parse_expr_print): accepted near-misses are texts of the
   grammar with exactly that meaning; all others are rejected. *)
Theorem near_miss_rejected_or_rendering :
  forall (ts : list ptok) (e : expr),
    parse_expr ts = Ok e ->
    (forall a b, U ts = a ++ EOF :: b -> b = []) ->
    wf_expr e = true /\
    exists tail, U ts = U (tokens e) ++ tail /\
                 (tail = [EOF] \/ tail = [NEWLINE; EOF] \/ tail = [] \/ tail = [NEWLINE]).
Proof.
  intros ts e H Hl. split; [exact (parse_expr_wellformed_lemma ts e H)|].
  exact (parse_expr_sound_tokens_eof_lemma ts e H Hl).
Qed.

(* rendering is injective on well-formed trees: two trees never share a text *)
Theorem print_injective :
  forall e1 e2 : expr,
    wf_expr e1 = true -> wf_expr e2 = true -> tokens e1 = tokens e2 -> e1 = e2.
Proof. exact print_injective_lemma. Qed.

(* premises are satisfiable:  a + b * -c not in [x for x in y if lambda: 3]  *)
Definition ex_tokens : list ptok :=
  [(IDENT "a",(1,1)); (PLUS,(1,3)); (IDENT "b",(1,5)); (STAR,(1,7)); (MINUS,(1,8)); (IDENT "c",(1,9));
   (NOT,(1,11)); (IN,(1,15)); (LBRACK,(1,18)); (IDENT "x",(1,19)); (FOR,(1,21)); (IDENT "x",(1,25));
   (IN,(1,27)); (IDENT "y",(1,30)); (IF,(1,32)); (LAMBDA,(1,35)); (COLON,(1,41)); (INT 3,(1,43));
   (RBRACK,(1,44)); (NEWLINE,(1,45)); (EOF,(2,1))]%Z.
Definition ex_tree : expr :=
  Eval vm_compute in match parse_expr ex_tokens with Ok e => e | _ => EmptyTuple nopos nopos end.
Definition ex_rest : list ptok := [(NEWLINE,(1,45)); (EOF,(2,1))]%Z.
Example parse_print_expr_ex :
  (parse_expr ex_tokens = Ok ex_tree) /\ (wp ex_tree = true) /\ (isx ex_tree = true) /\
  (expr_rest_ok ex_tree false ex_rest) /\ (lvl ex_tree = L_BIN 3) /\ (ok_at 3 ex_rest) /\
  (wf_expr ex_tree = true) /\ (size ex_tree <= List.length (tokens ex_tree)) /\
  (map fst (tokens ex_tree ++ ex_rest) = map fst ex_tokens) /\
  (U ex_tokens = U (tokens ex_tree) ++ [NEWLINE; EOF]) /\
  (forall a b, U ex_tokens = a ++ EOF :: b -> b = []).
Proof.
  split; [vm_compute; reflexivity|]. split; [vm_compute; reflexivity|]. split; [vm_compute; reflexivity|].
  split; [split; [reflexivity|discriminate]|]. split; [reflexivity|]. split; [reflexivity|].
  split; [vm_compute; reflexivity|]. split; [vm_compute; repeat constructor|]. split; [vm_compute; reflexivity|].
  split; [vm_compute; reflexivity|].
  apply (eof_last_intro (removelast (U ex_tokens))); [vm_compute; intuition discriminate|vm_compute; reflexivity].
Qed.

(* ------------------------------------------------------------------------ *)
(* (2) integer literals of any size in every radix *)
Theorem int_literal_exact :
  forall (r : radix) (pre ds rest : list Z),
    In pre (prefixes r) -> wf_digits r ds -> stops r rest ->
    scan_number true (pre ++ ds ++ rest)
    = (NInt (positional (base r) (map digitval ds)), rest).
Proof. exact int_literal_exact_lemma. Qed.

Example int_literal_exact_hex :
  In [48; 88]%Z (prefixes Hex) /\ wf_digits Hex [102; 70]%Z /\ stops Hex [32; 43]%Z /\
  scan_number true ([48; 88] ++ [102; 70] ++ [32; 43])%Z = (NInt 255, [32; 43]%Z).
Proof.
  split; [right; left; reflexivity|]. split; [split; [discriminate|split; [reflexivity|discriminate]]|].
  split; [split; [reflexivity|discriminate]|]. vm_compute. reflexivity.
Qed.

(* ------------------------------------------------------------------------ *)
(* (3) layout: INDENT / OUTDENT / NEWLINE synthesis re-nests every block
   structure, for all consistent indentation strings (spaces and tabs), with
   blank / comment lines anywhere and continuation lines (inside brackets or
   after a backslash) attached to any logical line.  See ProofsLayout.v for
   blk, render_forest, noisy, events, squash, nest. *)
Theorem layout_roundtrip :
  forall (A : Type) (f : list (blk A)) (ls : list (pline A)),
    wf_forest f = true -> noisy (render_forest [] f) ls ->
    exists evs,
      layout ls true = LOk evs /\ squash evs = events f /\
      forall fuel, List.length (events f) < fuel -> nest fuel (squash evs) = Some (map erase f, []).
Proof. exact layout_roundtrip_lemma. Qed.

(* the same for a file without a final newline *)
Theorem layout_roundtrip_nofinal :
  forall (A : Type) (f : list (blk A)) (ls : list (pline A)),
    wf_forest f = true -> noisy (render_forest [] f) ls ->
    exists evs,
      layout ls true = LOk evs /\ squash evs = events f /\
      (forall ls0 l, ls = ls0 ++ [l] -> is_content l = true ->
         layout ls false = LOk (drop_last_nl evs)) /\
      (forall ls0 l b tb, ls = ls0 ++ l :: b :: tb -> is_content l = true -> noise_blank b ->
         Forall blank_line tb -> layout ls false = LOk evs).
Proof. exact layout_roundtrip_nofinal_lemma. Qed.

(* consistent extension of the white-space string (any mix of spaces and tabs)
   always gives a strictly larger column *)
Theorem indent_col_extend :
  forall ws ext, ext <> [] -> indent_col ws < indent_col (ws ++ ext).
Proof. exact indent_col_extend_lemma. Qed.

(* the indentation stack never underflows *)
Theorem stack_never_underflows :
  (forall (A : Type) stk col (d : list (ev A)) s,
     stk_ok stk -> line_start stk col = LOk (d, s) -> stk_ok s /\ hd 0 s = col) /\
  (forall (A : Type) stk col, stk_ok stk -> @line_start A stk col <> LPanic) /\
  (forall (A : Type) (ls : list (pline A)) fn, layout ls fn <> LPanic).
Proof. exact stack_never_underflows_lemma. Qed.

(* a dedent to a column that matches no enclosing block is an error; to one
   that does, exactly the blocks above it are closed *)
Theorem inconsistent_dedent_rejected :
  forall (A : Type) (pre post : list (pline A)) l stk fn,
    stack_after [0] pre = Some stk ->
    plain l ->
    indent_col (l_ws l) < hd 0 stk -> ~ In (indent_col (l_ws l)) stk ->
    layout (pre ++ l :: post) fn = LErr.
Proof. exact inconsistent_dedent_rejected_lemma. Qed.

Theorem dedent_line_start :
  (forall (A : Type) stk col,
     stk_ok stk -> col < hd 0 stk -> ~ In col stk -> @line_start A stk col = LErr) /\
  (forall (A : Type) stk col,
     stk_ok stk -> In col stk ->
     exists k s above,
       @line_start A stk col = LOk (repeat EvOutdent k, s) /\ hd 0 s = col /\ stk_ok s /\
       stk = above ++ s /\ List.length above = k /\ Forall (fun x => col < x) above).
Proof. exact dedent_line_start_lemma. Qed.

Example layout_ex :
  let f := [Compound 1 [false; false] [Simple 2; Compound 3 [true] [Simple 4]]; Simple 5] in
  wf_forest f = true /\ layout (render_forest [] f) true = LOk (events f) /\
  stk_ok [8; 2; 0] /\ @line_start nat [8; 2; 0] 4 = LErr.
Proof. cbn zeta. split; [reflexivity|]. split; [vm_compute; reflexivity|]. split; [cbn; lia|reflexivity]. Qed.

(* ------------------------------------------------------------------------ *)
(* (4) parse . print = id for statements.  Concrete statement trees (PrintStmt.v:
   which small statements share a line, optional trailing `;`, inline or
   indented suites, if/elif/else chains, for, while, def with all parameter
   forms and trailing comma, load with aliases, return/break/continue/pass,
   assignment with every augmented operator) render to NEWLINE / INDENT /
   OUTDENT-structured token lists; the statement parser returns exactly the
   Go-shaped tree `flatten c` and leaves what follows. *)
Theorem parse_print_stmt :
  forall (c : cstmt) (rest : list ptok) (n : nat),
    cstmt_ok c = true ->
    not_else (peek rest) = true ->           (* what follows is not `elif` / `else` *)
    40 * csize c + 10 <= n ->
    p_stmt (parsers n) (tokens_c c ++ rest) = Ok (flatten c, rest).
Proof.
  intros c rest n Hok Hne Hn. destruct (stmt_all (csize c)) as [P _].
  exact (P c (le_n _) Hok rest n Hne Hn).
Qed.

(* FileOptions.Parse on a whole file *)
Theorem parse_print_file :
  forall (f : list cstmt) (p : pos) (n : nat),
    forallb cstmt_ok f = true ->
    40 * csizes f + 12 <= n ->
    p_file (parsers n) (flat_map tokens_c f ++ [(EOF, p)]) = Ok (flat_map flatten f).
Proof. exact file_ok. Qed.

(* the same when the last line has no final newline (grammar.txt: "'\n' optional at EOF") *)
Theorem parse_print_file_no_final_newline :
  forall (f : list cstmt) (l : list stmt) (sm : bool) (p : pos) (n : nat),
    forallb cstmt_ok f = true -> line_ok l = true ->
    40 * (csizes f + lsize l) + 60 <= n ->
    p_file (parsers n) (flat_map tokens_c f ++ smalls_tokens l ++ (if sm then [semi] else []) ++ [(EOF, p)])
    = Ok (flat_map flatten f ++ l).
Proof. exact file_nonl_ok. Qed.

(*  def f(a, *b,):          if x: return a; pass;
        y += 1              elif z:
        return                  load("m", "s", t="u")                    *)
Definition ex_file : list cstmt :=
  [CDef (1,1) (1,5) "f" (1,6) [Ident (1,7) "a"; Unary (1,10) STAR (Some (Ident (1,11) "b"))] true (1,13)
     (SBlock [CSimple [AssignStmt (Ident (2,5) "y") (2,7) PLUS_EQ (Literal (2,10) (LInt 1))] false;
              CSimple [ReturnStmt (3,5) None] false]);
   CIf (4,1) (Ident (4,4) "x")
     (SInline [ReturnStmt (4,7) (Some (Ident (4,14) "a")); BranchStmt (4,17) PASS] true)
     [((5,1), Ident (5,6) "z",
       SBlock [CSimple [LoadStmt (6,5) (6,9) (6,10) [109] [(None, (6,15), [115]); (Some ((6,20), "t"%string), (6,22), [117])] false (6,25)] false])]
     None]%Z.
Example parse_print_file_ex :
  forallb cstmt_ok ex_file = true /\
  parse_file (flat_map tokens_c ex_file ++ [(EOF, (7,1)%Z)]) = Ok (flat_map flatten ex_file) /\
  40 * csizes ex_file + 12 <= fuel_of (flat_map tokens_c ex_file ++ [(EOF, (7,1)%Z)]) /\
  line_ok [ExprStmt (Ident (7,1)%Z "z")] = true /\
  parse_file (flat_map tokens_c ex_file ++ smalls_tokens [ExprStmt (Ident (7,1)%Z "z")] ++ [] ++ [(EOF, (7,2)%Z)])
  = Ok (flat_map flatten ex_file ++ [ExprStmt (Ident (7,1)%Z "z")]).
Proof.
  split; [vm_compute; reflexivity|]. split; [vm_compute; reflexivity|]. split; [vm_compute; repeat constructor|].
  split; vm_compute; reflexivity.
Qed.

(* ------------------------------------------------------------------------ *)
(* (6) parse_sound for STATEMENTS and FILES: the converse of (4), for ALL token
   lists and ALL fuel.  Whatever the statement / file parser accepts is the
   rendering (PrintStmt.v) of a WELL-FORMED concrete statement tree `c` whose
   Go-shaped projection `flatten c` is the tree returned.  All forms: lines of
   small statements with `;` (assignment with every augmented operator,
   expression statements, return / break / continue / pass, load with aliases
   and trailing comma), if / elif / else, for, while, def with every parameter
   form, inline and indented suites.

   Token lists are compared through U (kinds and values; positions dropped; the
   parser-synthesised NOT_IN expanded back to `not` `in`); NEWLINE / INDENT /
   OUTDENT are ordinary tokens there.  Definitions (ProofsSoundStmt.v):

     renders u toks r  :=  u = U toks ++ U r
                        \/ (peek r = EOF /\ exists X, U toks = X ++ [NEWLINE] /\ u = X ++ U r)
        -- the second alternative is grammar.txt's "'\n' optional at EOF": the
           NEWLINE ending the last line may be missing when the lookahead is EOF;

     no_empty_block u  :=  forall a b, u <> a ++ INDENT :: OUTDENT :: b
        -- parseSuite accepts NEWLINE INDENT OUTDENT as an EMPTY block, which is
           not a suite of the grammar (`stmt+`): see
           parse_sound_stmt_unconditional_refuted below.  The scanner emits an
           INDENT only directly before the first token of the line that caused
           it (layout_establishes_premises), so the premise holds for every
           token list the parser is ever given.

     file_text u f  -- u is the statements of f rendered one after the other,
           with any number of blank NEWLINE tokens before each (the parser skips
           NEWLINE at top level; the scanner emits none:
           file_near_miss_scanner_shaped removes them), the last statement
           possibly without its final NEWLINE, then the end of the list or an
           EOF token followed by anything (never looked at). *)
Theorem parse_sound_stmt :
  forall (n : nat) (ts : list ptok) (l : list stmt) (r : list ptok),
    p_stmt (parsers n) ts = Ok (l, r) -> no_empty_block (U ts) ->
    exists c : cstmt, cstmt_ok c = true /\ flatten c = l /\ renders (U ts) (tokens_c c) r.
Proof. exact parse_sound_stmt_lemma. Qed.

(* a line of small statements (parseSimpleStmt): no premise at all *)
Theorem parse_sound_simple_stmt :
  forall (n : nat) (ts : list ptok) (l : list stmt) (r : list ptok),
    p_simpleStmt (parsers n) ts = Ok (l, r) ->
    line_ok l = true /\ exists sm : bool, renders (U ts) (line_tokens l sm) r.
Proof. exact parse_sound_simple_stmt_lemma. Qed.

Theorem parse_sound_suite :
  forall (n : nat) (ts : list ptok) (l : list stmt) (r : list ptok),
    p_suite (parsers n) ts = Ok (l, r) -> no_empty_block (U ts) ->
    exists s : csuite, csuite_ok s = true /\ flatten_s s = l /\ renders (U ts) (tokens_s s) r.
Proof. exact parse_sound_suite_lemma. Qed.

Theorem parse_sound_file :
  forall (n : nat) (ts : list ptok) (l : list stmt),
    p_file (parsers n) ts = Ok l -> no_empty_block (U ts) ->
    exists f : list cstmt, forallb cstmt_ok f = true /\ flat_map flatten f = l /\ file_text (U ts) f.
Proof. exact parse_sound_file_lemma. Qed.

(* near-miss corollary for FileOptions.Parse as the model runs it: ANY token
   list (e.g. a valid file with a token deleted, duplicated or swapped) that is
   accepted is the text of the well-formed file f whose tree is returned, and f
   parses back to that tree from its rendering; all others are rejected. *)
Theorem file_near_miss_rejected_or_rendering :
  forall (ts : list ptok) (l : list stmt),
    parse_file ts = Ok l -> no_empty_block (U ts) ->
    exists f : list cstmt,
      forallb cstmt_ok f = true /\ flat_map flatten f = l /\ file_text (U ts) f /\
      (forall p n, 40 * csizes f + 12 <= n ->
         p_file (parsers n) (flat_map tokens_c f ++ [(EOF, p)]) = Ok l).
Proof. exact file_near_miss_lemma. Qed.

(* the same for a token list of the shape the scanner produces -- no
   blank-line NEWLINE (every NEWLINE directly follows a token that is not
   NEWLINE / INDENT / OUTDENT), nothing after the first EOF: the accepted list
   is EXACTLY the rendering of f, up to the optional final NEWLINE, then EOF. *)
Theorem file_near_miss_scanner_shaped :
  forall (ts : list ptok) (l : list stmt),
    parse_file ts = Ok l ->
    no_empty_block (U ts) -> no_blank_line true (U ts) -> (forall a b, U ts = a ++ EOF :: b -> b = []) ->
    exists f : list cstmt,
      forallb cstmt_ok f = true /\ flat_map flatten f = l /\
      exists tail, (tail = [] \/ tail = [EOF]) /\
        (U ts = U (flat_map tokens_c f) ++ tail \/
         exists X, U (flat_map tokens_c f) = X ++ [NEWLINE] /\ U ts = X ++ tail).
Proof. exact file_near_miss_scanner_lemma. Qed.

(* Without the premise no_empty_block the statement is false: the token list
   IF x COLON NEWLINE INDENT OUTDENT is accepted with an empty body, and no
   well-formed concrete tree has that projection.  (Not reachable through the
   scanner: layout_establishes_premises.) *)
Theorem parse_sound_stmt_unconditional_refuted :
  exists (n : nat) (ts : list ptok) (l : list stmt) (r : list ptok),
    p_stmt (parsers n) ts = Ok (l, r) /\ ~ exists c : cstmt, cstmt_ok c = true /\ flatten c = l.
Proof. exact parse_sound_stmt_unconditional_refuted_lemma. Qed.

(* With NO premise at all -- every fuel, every token list -- the accepted list
   is still the rendering of the concrete tree returned, well-formed in the
   reading `cstmt_okg false` (ProofsSoundStmt.v): exactly cstmt_ok except that an
   indented block may be empty (cstmt_okg true = cstmt_ok: okg_true_c).  So the
   empty block is the ONLY thing the statement parser accepts outside the
   grammar. *)
Theorem parse_sound_stmt_empty_blocks :
  forall (n : nat) (ts : list ptok) (l : list stmt) (r : list ptok),
    p_stmt (parsers n) ts = Ok (l, r) ->
    exists c : cstmt, cstmt_okg false c = true /\ flatten c = l /\ renders (U ts) (tokens_c c) r.
Proof. exact parse_sound_stmt_weak_lemma. Qed.

Theorem parse_sound_file_empty_blocks :
  forall (n : nat) (ts : list ptok) (l : list stmt),
    p_file (parsers n) ts = Ok l ->
    exists f : list cstmt, forallb (cstmt_okg false) f = true /\ flat_map flatten f = l /\ file_text (U ts) f.
Proof. exact parse_sound_file_weak_lemma. Qed.

Theorem strict_wellformed_is_cstmt_ok :
  (forall c : cstmt, cstmt_okg true c = cstmt_ok c) /\ (forall s : csuite, csuite_okg true s = csuite_ok s).
Proof. exact strict_wellformed_lemma. Qed.

(* The layout algorithm of the scanner (Scan.v (b)) establishes both premises
   for every event stream it produces: an INDENT is directly followed by the
   line that caused it, a NEWLINE directly follows a line. *)
Theorem layout_establishes_premises :
  forall (A : Type) (ls : list (pline A)) (final_newline : bool) (evs : list (ev A)),
    layout ls final_newline = LOk evs ->
    indent_then_line evs /\ newline_after_line false evs /\
    (forall a b, evs <> a ++ EvIndent :: EvOutdent :: b) /\
    (forall a b, evs <> a ++ EvNewline :: EvNewline :: b) /\
    (forall a b, evs <> a ++ EvOutdent :: EvNewline :: b) /\
    (forall a b, evs <> a ++ EvIndent :: EvNewline :: b) /\
    (forall b, evs <> EvNewline :: b).
Proof. exact layout_premises_lemma. Qed.

(* rendering is injective on well-formed concrete statement trees, suites and
   files: two of them never share a text (including the concrete-syntax bits:
   optional trailing `;`, inline or indented suite, trailing commas) *)
Theorem print_stmt_injective :
  forall c1 c2 : cstmt,
    cstmt_ok c1 = true -> cstmt_ok c2 = true -> tokens_c c1 = tokens_c c2 -> c1 = c2.
Proof. exact print_stmt_injective_lemma. Qed.

Theorem print_suite_injective :
  forall s1 s2 : csuite,
    csuite_ok s1 = true -> csuite_ok s2 = true -> tokens_s s1 = tokens_s s2 -> s1 = s2.
Proof. exact print_suite_injective_lemma. Qed.

Theorem print_file_injective :
  forall f1 f2 : list cstmt,
    forallb cstmt_ok f1 = true -> forallb cstmt_ok f2 = true ->
    flat_map tokens_c f1 = flat_map tokens_c f2 -> f1 = f2.
Proof. exact print_file_injective_lemma. Qed.

(* premises are satisfiable:
     def f(a, b=1):
         for x in a:
             if x: return x
         return b
     y = f([1], 2); pass                                                      *)
Definition ex2_tokens : list ptok :=
  [(DEF,(1,1)); (IDENT "f",(1,5)); (LPAREN,(1,6)); (IDENT "a",(1,7)); (COMMA,(1,8)); (IDENT "b",(1,10));
   (EQ,(1,11)); (INT 1,(1,12)); (RPAREN,(1,13)); (COLON,(1,14)); (NEWLINE,(1,15));
   (INDENT,(2,5)); (FOR,(2,5)); (IDENT "x",(2,9)); (IN,(2,11)); (IDENT "a",(2,14)); (COLON,(2,15)); (NEWLINE,(2,16));
   (INDENT,(3,9)); (IF,(3,9)); (IDENT "x",(3,12)); (COLON,(3,13)); (RETURN,(3,15)); (IDENT "x",(3,22)); (NEWLINE,(3,23));
   (OUTDENT,(4,5)); (RETURN,(4,5)); (IDENT "b",(4,12)); (NEWLINE,(4,13));
   (OUTDENT,(5,1)); (IDENT "y",(5,1)); (EQ,(5,3)); (IDENT "f",(5,5)); (LPAREN,(5,6)); (LBRACK,(5,7)); (INT 1,(5,8));
   (RBRACK,(5,9)); (COMMA,(5,10)); (INT 2,(5,12)); (RPAREN,(5,13)); (SEMI,(5,14)); (PASS,(5,16)); (NEWLINE,(5,20));
   (EOF,(6,1))]%Z.
Definition ex2_file : list cstmt :=
  [CDef (1,1) (1,5) "f" (1,6)
     [Ident (1,7) "a"; Binary (Ident (1,10) "b") (1,11) EQ (Literal (1,12) (LInt 1))] false (1,13)
     (SBlock [CFor (2,5) (Ident (2,9) "x") (Ident (2,14) "a")
                (SBlock [CIf (3,9) (Ident (3,12) "x")
                           (SInline [ReturnStmt (3,15) (Some (Ident (3,22) "x"))] false) [] None]);
              CSimple [ReturnStmt (4,5) (Some (Ident (4,12) "b"))] false]);
   CSimple [AssignStmt (Ident (5,1) "y") (5,3) EQ
              (Call (Ident (5,5) "f") (5,6)
                 [ListE (5,7) [Literal (5,8) (LInt 1)] false (5,9); Literal (5,12) (LInt 2)] false (5,13));
            BranchStmt (5,16) PASS] false]%Z.
(* the same file with the `:` after `for x in a` deleted, and with the last NEWLINE deleted *)
Definition ex2_no_colon : list ptok := firstn 16 ex2_tokens ++ skipn 17 ex2_tokens.
Definition ex2_no_final_nl : list ptok := firstn 42 ex2_tokens ++ skipn 43 ex2_tokens.
Example parse_sound_file_ex :
  parse_file ex2_tokens = Ok (flat_map flatten ex2_file) /\
  no_empty_block (U ex2_tokens) /\ no_blank_line true (U ex2_tokens) /\
  (forall a b, U ex2_tokens = a ++ EOF :: b -> b = []) /\
  forallb cstmt_ok ex2_file = true /\
  U ex2_tokens = U (flat_map tokens_c ex2_file) ++ [EOF] /\
  (exists r, p_stmt (parsers 200) ex2_tokens = Ok (flatten (hd (CSimple [] false) ex2_file), r) /\ peek r = IDENT "y") /\
  parse_file ex2_no_colon = Err /\
  parse_file ex2_no_final_nl = Ok (flat_map flatten ex2_file) /\
  U ex2_no_final_nl = removelast (U (flat_map tokens_c ex2_file)) ++ [EOF] /\
  (* the witness of parse_sound_stmt_unconditional_refuted violates the premise,
     and is the rendering of the tree with an empty block *)
  has_empty_block (U EmptyBlock.toks) = true /\
  (let c := CIf (1,1)%Z (Ident (1,4)%Z "x") (SBlock []) [] None in
   p_stmt (parsers 60) EmptyBlock.toks = Ok (flatten c, []) /\ cstmt_okg false c = true /\
   cstmt_ok c = false /\ U EmptyBlock.toks = U (tokens_c c)).
Proof.
  split; [vm_compute; reflexivity|].
  split; [apply has_empty_block_false; vm_compute; reflexivity|].
  split; [apply no_blank_lineb_true; vm_compute; reflexivity|].
  split; [apply (eof_last_intro (removelast (U ex2_tokens))); [vm_compute; intuition discriminate|vm_compute; reflexivity]|].
  split; [vm_compute; reflexivity|]. split; [vm_compute; reflexivity|].
  split; [eexists; split; vm_compute; reflexivity|].
  split; [vm_compute; reflexivity|]. split; [vm_compute; reflexivity|]. split; [vm_compute; reflexivity|].
  split; [vm_compute; reflexivity|]. cbv zeta. repeat split; vm_compute; reflexivity.
Qed.
