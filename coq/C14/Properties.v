(* C14 -- property theorems only; each closed by `exact <lemma>`. *)
From Coq Require Import ZArith List String Bool Arith.
From SV Require Import C14.Tokens C14.Scan C14.ProofsScan.
Import ListNotations.

(* Integer literals: for every radix (decimal, 0x, 0o, 0b with either letter
   case), every digit string of the lexical grammar -- of any length -- and every
   following text that cannot extend the literal, the scanner delimits exactly
   the literal, classifies it INT, and the decoded value is the positional value
   of the digits over Z. *)
Theorem int_literal_exact :
  forall (r : radix) (pre ds rest : list Z),
    In pre (prefixes r) -> wf_digits r ds -> stops r rest ->
    scan_number true (pre ++ ds ++ rest)
    = (NInt (positional (base r) (map digitval ds)), rest).
Proof. exact int_literal_exact_lemma. Qed.

(* premises are satisfiable: 0XfF followed by " +" *)
Example int_literal_exact_hex :
  In [48; 88]%Z (prefixes Hex) /\ wf_digits Hex [102; 70]%Z /\ stops Hex [32; 43]%Z /\
  scan_number true ([48; 88] ++ [102; 70] ++ [32; 43])%Z = (NInt 255, [32; 43]%Z).
Proof.
  split; [right; left; reflexivity|]. split; [split; [discriminate|split; [reflexivity|discriminate]]|].
  split; [split; [reflexivity|discriminate]|]. vm_compute. reflexivity.
Qed.
