(* C14 -- property theorems only; each closed by `exact <lemma>`.
   Models: Parse.v (syntax/parse.go), Scan.v (scanNumber, indentation), the
   specification side is Print.v (rendering + "well parenthesised") and the
   positional value of digit strings. *)
From Coq Require Import ZArith List String Bool Arith Lia.
From SV Require Import C14.Tokens C14.Parse C14.Print C14.Scan C14.ProofsScan
  C14.ProofsBase C14.ProofsExpr C14.ProofsTop C14.ProofsLayout C14.PrintStmt C14.ProofsStmt C14.ProofsStmt2 C14.ProofsSound C14.ProofsValid C14.ProofsValid3.
Import ListNotations.
Open Scope nat_scope.

(* ------------------------------------------------------------------------ *)
(* (1) parse . print = id for expressions.
   For ALL trees e that are well parenthesised (wp: every child binds at least
   as tightly as its position requires or is a Paren node; redundant Paren
   nodes anywhere) and all continuations `rest` that cannot extend e, parseExpr
   returns exactly e -- including every position field and trailing-comma bit --
   and leaves exactly `rest`.  Fuel: any n >= 40 * size e + 32. *)
Theorem parse_print_expr :
  forall (e : expr) (inParens : bool) (rest : list ptok) (n : nat),
    wp e = true -> isx e = true ->
    expr_rest_ok e inParens rest ->
    40 * size e + 32 <= n ->
    p_expr (parsers n) inParens (tokens e ++ rest) = Ok (e, rest).
Proof. exact parse_print_expr_lemma. Qed.

(* The same at every precedence level: parseTestPrec(prec) on the rendering of
   a tree whose level is at least prec, followed by any token that is not an
   operator of precedence >= prec, not a suffix, and not a stray `not`
   (`not in` is fused into NOT_IN as the Go parser does: fz/fuse).  This is
   "precedence and associativity for all operator pairs in all nestings". *)
Theorem parse_print_prec :
  forall (e : expr) (prec : nat) (rest : list ptok) (n : nat),
    wp e = true -> isx e = true ->
    prec <= 10 -> L_BIN prec <= lvl e -> ok_at prec rest ->
    40 * size e + 24 <= n ->
    p_testPrec (parsers n) prec (tokens e ++ rest) = Ok (e, fz prec rest).
Proof. exact parse_print_prec_lemma. Qed.

(* FileOptions.ParseExpr as the model runs it: the fuel 40 * #tokens + 40 always
   suffices (every node of a well-formed tree contributes a token). *)
Theorem parse_expr_print :
  forall (e : expr) (pnl peof : pos) (nl : bool),
    wf_expr e = true ->
    parse_expr (tokens e ++ (if nl then [(NEWLINE, pnl)] else []) ++ [(EOF, peof)]) = Ok e.
Proof. exact parse_expr_print_lemma. Qed.

(* Each node's reported position (Span start as syntax.go computes it) is the
   position of the first token of its text. *)
Theorem span_start_is_first_token :
  forall e : expr, wp e = true -> isx e = true -> peekpos (tokens e) = start e.
Proof. exact start_first_token_lemma. Qed.

(* ------------------------------------------------------------------------ *)
(* (5) parse_sound: the converse, for ALL token lists and ALL fuel.  Whatever
   the expression parser accepts, it returns a WELL-PARENTHESISED tree whose
   rendering is exactly the accepted tokens (U = token kinds and values,
   positions dropped, the parser-synthesised NOT_IN expanded back to `not`
   `in`).  So a text is accepted only if it is the rendering of a tree of the
   grammar, and it is given that tree: nothing outside the grammar is silently
   given another meaning. *)
Theorem parse_sound :
  forall (n : nat) (inParens : bool) (ts : list ptok) (e : expr) (r : list ptok),
    p_expr (parsers n) inParens ts = Ok (e, r) ->
    wp e = true /\ isx e = true /\ (inParens = false -> noparen_ok e = true) /\
    U ts = U (tokens e) ++ U r.
Proof.
  intros n b ts e r H. destruct (parse_wellformed_lemma n b ts e r H) as (Hw & Hi & Hn).
  repeat split; auto. exact (parse_sound_tokens_lemma n b ts e r H).
Qed.

(* near-miss corollary, for FileOptions.ParseExpr as the model runs it: ANY
   token list (in particular one obtained from a valid text by deleting,
   duplicating or swapping a token) that is accepted is the rendering of the
   well-formed tree returned for it, followed by NEWLINE? EOF (the list as the
   scanner produces it ends at its first EOF), and that tree parses back from
   its rendering (parse_expr_print): accepted near-misses are texts of the
   grammar with exactly that meaning; all others are rejected. *)
Theorem near_miss_rejected_or_rendering :
  forall (ts : list ptok) (e : expr),
    parse_expr ts = Ok e ->
    (forall a b, U ts = a ++ EOF :: b -> b = []) ->
    wf_expr e = true /\
    exists tail, U ts = U (tokens e) ++ tail /\
                 (tail = [EOF] \/ tail = [NEWLINE; EOF] \/ tail = [] \/ tail = [NEWLINE]).
Proof.
  intros ts e H Hl. split; [exact (parse_expr_wellformed_lemma ts e H)|].
  exact (parse_expr_sound_tokens_eof_lemma ts e H Hl).
Qed.

(* rendering is injective on well-formed trees: two trees never share a text *)
Theorem print_injective :
  forall e1 e2 : expr,
    wf_expr e1 = true -> wf_expr e2 = true -> tokens e1 = tokens e2 -> e1 = e2.
Proof. exact print_injective_lemma. Qed.

(* premises are satisfiable:  a + b * -c not in [x for x in y if lambda: 3]  *)
Definition ex_tokens : list ptok :=
  [(IDENT "a",(1,1)); (PLUS,(1,3)); (IDENT "b",(1,5)); (STAR,(1,7)); (MINUS,(1,8)); (IDENT "c",(1,9));
   (NOT,(1,11)); (IN,(1,15)); (LBRACK,(1,18)); (IDENT "x",(1,19)); (FOR,(1,21)); (IDENT "x",(1,25));
   (IN,(1,27)); (IDENT "y",(1,30)); (IF,(1,32)); (LAMBDA,(1,35)); (COLON,(1,41)); (INT 3,(1,43));
   (RBRACK,(1,44)); (NEWLINE,(1,45)); (EOF,(2,1))]%Z.
Definition ex_tree : expr :=
  Eval vm_compute in match parse_expr ex_tokens with Ok e => e | _ => EmptyTuple nopos nopos end.
Definition ex_rest : list ptok := [(NEWLINE,(1,45)); (EOF,(2,1))]%Z.
Example parse_print_expr_ex :
  (parse_expr ex_tokens = Ok ex_tree) /\ (wp ex_tree = true) /\ (isx ex_tree = true) /\
  (expr_rest_ok ex_tree false ex_rest) /\ (lvl ex_tree = L_BIN 3) /\ (ok_at 3 ex_rest) /\
  (wf_expr ex_tree = true) /\ (size ex_tree <= List.length (tokens ex_tree)) /\
  (map fst (tokens ex_tree ++ ex_rest) = map fst ex_tokens) /\
  (U ex_tokens = U (tokens ex_tree) ++ [NEWLINE; EOF]) /\
  (forall a b, U ex_tokens = a ++ EOF :: b -> b = []).
Proof.
  split; [vm_compute; reflexivity|]. split; [vm_compute; reflexivity|]. split; [vm_compute; reflexivity|].
  split; [split; [reflexivity|discriminate]|]. split; [reflexivity|]. split; [reflexivity|].
  split; [vm_compute; reflexivity|]. split; [vm_compute; repeat constructor|]. split; [vm_compute; reflexivity|].
  split; [vm_compute; reflexivity|].
  apply (eof_last_intro (removelast (U ex_tokens))); [vm_compute; intuition discriminate|vm_compute; reflexivity].
Qed.

(* ------------------------------------------------------------------------ *)
(* (2) integer literals of any size in every radix *)
Theorem int_literal_exact :
  forall (r : radix) (pre ds rest : list Z),
    In pre (prefixes r) -> wf_digits r ds -> stops r rest ->
    scan_number true (pre ++ ds ++ rest)
    = (NInt (positional (base r) (map digitval ds)), rest).
Proof. exact int_literal_exact_lemma. Qed.

Example int_literal_exact_hex :
  In [48; 88]%Z (prefixes Hex) /\ wf_digits Hex [102; 70]%Z /\ stops Hex [32; 43]%Z /\
  scan_number true ([48; 88] ++ [102; 70] ++ [32; 43])%Z = (NInt 255, [32; 43]%Z).
Proof.
  split; [right; left; reflexivity|]. split; [split; [discriminate|split; [reflexivity|discriminate]]|].
  split; [split; [reflexivity|discriminate]|]. vm_compute. reflexivity.
Qed.

(* ------------------------------------------------------------------------ *)
(* (3) layout: INDENT / OUTDENT / NEWLINE synthesis re-nests every block
   structure, for all consistent indentation strings (spaces and tabs), with
   blank / comment lines anywhere and continuation lines (inside brackets or
   after a backslash) attached to any logical line.  See ProofsLayout.v for
   blk, render_forest, noisy, events, squash, nest. *)
Theorem layout_roundtrip :
  forall (A : Type) (f : list (blk A)) (ls : list (pline A)),
    wf_forest f = true -> noisy (render_forest [] f) ls ->
    exists evs,
      layout ls true = LOk evs /\ squash evs = events f /\
      forall fuel, List.length (events f) < fuel -> nest fuel (squash evs) = Some (map erase f, []).
Proof. exact layout_roundtrip_lemma. Qed.

(* the same for a file without a final newline *)
Theorem layout_roundtrip_nofinal :
  forall (A : Type) (f : list (blk A)) (ls : list (pline A)),
    wf_forest f = true -> noisy (render_forest [] f) ls ->
    exists evs,
      layout ls true = LOk evs /\ squash evs = events f /\
      (forall ls0 l, ls = ls0 ++ [l] -> is_content l = true ->
         layout ls false = LOk (drop_last_nl evs)) /\
      (forall ls0 l b tb, ls = ls0 ++ l :: b :: tb -> is_content l = true -> noise_blank b ->
         Forall blank_line tb -> layout ls false = LOk evs).
Proof. exact layout_roundtrip_nofinal_lemma. Qed.

(* consistent extension of the white-space string (any mix of spaces and tabs)
   always gives a strictly larger column *)
Theorem indent_col_extend :
  forall ws ext, ext <> [] -> indent_col ws < indent_col (ws ++ ext).
Proof. exact indent_col_extend_lemma. Qed.

(* the indentation stack never underflows *)
Theorem stack_never_underflows :
  (forall (A : Type) stk col (d : list (ev A)) s,
     stk_ok stk -> line_start stk col = LOk (d, s) -> stk_ok s /\ hd 0 s = col) /\
  (forall (A : Type) stk col, stk_ok stk -> @line_start A stk col <> LPanic) /\
  (forall (A : Type) (ls : list (pline A)) fn, layout ls fn <> LPanic).
Proof. exact stack_never_underflows_lemma. Qed.

(* a dedent to a column that matches no enclosing block is an error; to one
   that does, exactly the blocks above it are closed *)
Theorem inconsistent_dedent_rejected :
  forall (A : Type) (pre post : list (pline A)) l stk fn,
    stack_after [0] pre = Some stk ->
    plain l ->
    indent_col (l_ws l) < hd 0 stk -> ~ In (indent_col (l_ws l)) stk ->
    layout (pre ++ l :: post) fn = LErr.
Proof. exact inconsistent_dedent_rejected_lemma. Qed.

Theorem dedent_line_start :
  (forall (A : Type) stk col,
     stk_ok stk -> col < hd 0 stk -> ~ In col stk -> @line_start A stk col = LErr) /\
  (forall (A : Type) stk col,
     stk_ok stk -> In col stk ->
     exists k s above,
       @line_start A stk col = LOk (repeat EvOutdent k, s) /\ hd 0 s = col /\ stk_ok s /\
       stk = above ++ s /\ List.length above = k /\ Forall (fun x => col < x) above).
Proof. exact dedent_line_start_lemma. Qed.

Example layout_ex :
  let f := [Compound 1 [false; false] [Simple 2; Compound 3 [true] [Simple 4]]; Simple 5] in
  wf_forest f = true /\ layout (render_forest [] f) true = LOk (events f) /\
  stk_ok [8; 2; 0] /\ @line_start nat [8; 2; 0] 4 = LErr.
Proof. cbn zeta. split; [reflexivity|]. split; [vm_compute; reflexivity|]. split; [cbn; lia|reflexivity]. Qed.

(* ------------------------------------------------------------------------ *)
(* (4) parse . print = id for statements.  Concrete statement trees (PrintStmt.v:
   which small statements share a line, optional trailing `;`, inline or
   indented suites, if/elif/else chains, for, while, def with all parameter
   forms and trailing comma, load with aliases, return/break/continue/pass,
   assignment with every augmented operator) render to NEWLINE / INDENT /
   OUTDENT-structured token lists; the statement parser returns exactly the
   Go-shaped tree `flatten c` and leaves what follows. *)
Theorem parse_print_stmt :
  forall (c : cstmt) (rest : list ptok) (n : nat),
    cstmt_ok c = true ->
    not_else (peek rest) = true ->           (* what follows is not `elif` / `else` *)
    40 * csize c + 10 <= n ->
    p_stmt (parsers n) (tokens_c c ++ rest) = Ok (flatten c, rest).
Proof.
  intros c rest n Hok Hne Hn. destruct (stmt_all (csize c)) as [P _].
  exact (P c (le_n _) Hok rest n Hne Hn).
Qed.

(* FileOptions.Parse on a whole file *)
Theorem parse_print_file :
  forall (f : list cstmt) (p : pos) (n : nat),
    forallb cstmt_ok f = true ->
    40 * csizes f + 12 <= n ->
    p_file (parsers n) (flat_map tokens_c f ++ [(EOF, p)]) = Ok (flat_map flatten f).
Proof. exact file_ok. Qed.

(* the same when the last line has no final newline (grammar.txt: "'\n' optional at EOF") *)
Theorem parse_print_file_no_final_newline :
  forall (f : list cstmt) (l : list stmt) (sm : bool) (p : pos) (n : nat),
    forallb cstmt_ok f = true -> line_ok l = true ->
    40 * (csizes f + lsize l) + 60 <= n ->
    p_file (parsers n) (flat_map tokens_c f ++ smalls_tokens l ++ (if sm then [semi] else []) ++ [(EOF, p)])
    = Ok (flat_map flatten f ++ l).
Proof. exact file_nonl_ok. Qed.

(*  def f(a, *b,):          if x: return a; pass;
        y += 1              elif z:
        return                  load("m", "s", t="u")                    *)
Definition ex_file : list cstmt :=
  [CDef (1,1) (1,5) "f" (1,6) [Ident (1,7) "a"; Unary (1,10) STAR (Some (Ident (1,11) "b"))] true (1,13)
     (SBlock [CSimple [AssignStmt (Ident (2,5) "y") (2,7) PLUS_EQ (Literal (2,10) (LInt 1))] false;
              CSimple [ReturnStmt (3,5) None] false]);
   CIf (4,1) (Ident (4,4) "x")
     (SInline [ReturnStmt (4,7) (Some (Ident (4,14) "a")); BranchStmt (4,17) PASS] true)
     [((5,1), Ident (5,6) "z",
       SBlock [CSimple [LoadStmt (6,5) (6,9) (6,10) [109] [(None, (6,15), [115]); (Some ((6,20), "t"%string), (6,22), [117])] false (6,25)] false])]
     None]%Z.
Example parse_print_file_ex :
  forallb cstmt_ok ex_file = true /\
  parse_file (flat_map tokens_c ex_file ++ [(EOF, (7,1)%Z)]) = Ok (flat_map flatten ex_file) /\
  40 * csizes ex_file + 12 <= fuel_of (flat_map tokens_c ex_file ++ [(EOF, (7,1)%Z)]) /\
  line_ok [ExprStmt (Ident (7,1)%Z "z")] = true /\
  parse_file (flat_map tokens_c ex_file ++ smalls_tokens [ExprStmt (Ident (7,1)%Z "z")] ++ [] ++ [(EOF, (7,2)%Z)])
  = Ok (flat_map flatten ex_file ++ [ExprStmt (Ident (7,1)%Z "z")]).
Proof.
  split; [vm_compute; reflexivity|]. split; [vm_compute; reflexivity|]. split; [vm_compute; repeat constructor|].
  split; vm_compute; reflexivity.
Qed.
