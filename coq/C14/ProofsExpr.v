(* C14 -- parse (tokens e ++ rest) = Ok (e, rest) for every well-parenthesised
   expression tree: statements of the invariants and the list-level lemmas. *)
From Coq Require Import ZArith List String Bool Arith Lia.
From SV Require Import C14.Tokens C14.Parse C14.Print C14.ProofsBase.
Import ListNotations.
Open Scope nat_scope.

(* ---- reducing one-level matches on a token about which a boolean fact is known ---- *)
Lemma not_LAMBDA_match {A} t (a b : A) :
  is_LAMBDA t = false -> match t with LAMBDA => a | _ => b end = b.
Proof. destruct t; try reflexivity; discriminate. Qed.
Lemma not_NOT_match {A} t (a b : A) :
  is_NOT t = false -> match t with NOT => a | _ => b end = b.
Proof. destruct t; try reflexivity; discriminate. Qed.
Lemma not_IF_match {A} t (a b : A) :
  t <> IF -> match t with IF => a | _ => b end = b.
Proof. destruct t; try reflexivity; congruence. Qed.
Lemma not_COMMA_match {A} t (a b : A) :
  t <> COMMA -> match t with COMMA => a | _ => b end = b.
Proof. destruct t; try reflexivity; congruence. Qed.
Lemma not_EQ_match {A} t (a b : A) :
  t <> EQ -> match t with EQ => a | _ => b end = b.
Proof. destruct t; try reflexivity; congruence. Qed.
Lemma not_FOR_match {A} t (a b : A) :
  t <> FOR -> match t with FOR => a | _ => b end = b.
Proof. destruct t; try reflexivity; congruence. Qed.
Lemma not_suffix_match {A} t (a b c d : A) :
  is_suffix_start t = false ->
  match t with DOT => a | LBRACK => b | LPAREN => c | _ => d end = d.
Proof. destruct t; try reflexivity; discriminate. Qed.

(* starts t: the lookahead begins an expression *)
Lemma starts_not_close3 {A} t (a b : A) :
  starts t = true -> match t with RPAREN | COLON | EOF => a | _ => b end = b.
Proof. destruct t; try reflexivity; discriminate. Qed.
Lemma starts_not_close2 {A} t (a b : A) :
  starts t = true -> match t with RPAREN | EOF => a | _ => b end = b.
Proof. destruct t; try reflexivity; discriminate. Qed.
Lemma starts_not_RPAREN {A} t (a b : A) :
  starts t = true -> match t with RPAREN => a | _ => b end = b.
Proof. destruct t; try reflexivity; discriminate. Qed.
Lemma starts_not_RBRACK {A} t (a b : A) :
  starts t = true -> match t with RBRACK => a | _ => b end = b.
Proof. destruct t; try reflexivity; discriminate. Qed.
Lemma starts_not_RBRACE {A} t (a b : A) :
  starts t = true -> match t with RBRACE => a | _ => b end = b.
Proof. destruct t; try reflexivity; discriminate. Qed.
Lemma starts_not_COLON {A} t (a b : A) :
  starts t = true -> match t with COLON => a | _ => b end = b.
Proof. destruct t; try reflexivity; discriminate. Qed.
Lemma starts_not_COLON_RBRACK {A} t (a b : A) :
  starts t = true -> match t with COLON | RBRACK => a | _ => b end = b.
Proof. destruct t; try reflexivity; discriminate. Qed.
Lemma starts_not_stars {A} t (a b c d : A) :
  starts t = true ->
  match t with RPAREN => a | STAR => b | STARSTAR => c | _ => d end = d.
Proof. destruct t; try reflexivity; discriminate. Qed.
Lemma starts_not_term t : starts t = true -> terminates_expr_list t = false.
Proof. destruct t; try reflexivity; discriminate. Qed.

(* ---- statements of the invariants ---- *)

Definition first_of (e : expr) (q : nat) : bool := negb (lvl e =? L_BIN q).

Definition M_prec (e : expr) : Prop :=
  forall prec rest n,
    prec <= 10 -> L_BIN prec <= lvl e -> ok_at prec rest ->
    need e + 24 - 2 * prec <= n ->
    p_testPrec (parsers n) prec (tokens e ++ rest) = Ok (e, fz prec rest).

Definition M_absorb (e : expr) : Prop :=
  forall q rest (r : PR expr) N n,
    q <= 9 -> q <> prec_not -> L_BIN q <= lvl e -> ok_at (S q) rest ->
    (forall m, N <= m -> p_binopLoop (parsers m) q (first_of e q) e (fz (S q) rest) = r) ->
    1 <= N -> N + need e + 21 - 2 * q <= n ->
    binopExpr (parsers n) q (tokens e ++ rest) = r.

Definition M_suffix (e : expr) : Prop :=
  lvl e = L_PRIM ->
  forall rest (r : PR expr) N n,
    (forall m, N <= m -> p_suffixLoop (parsers m) e rest = r) ->
    N + need e <= n ->
    p_primSuffix (parsers n) (tokens e ++ rest) = r.

Definition M_primSuffix (e : expr) : Prop :=
  L_UNARY <= lvl e ->
  forall rest n,
    is_suffix_start (peek rest) = false -> need e + 2 <= n ->
    p_primSuffix (parsers n) (tokens e ++ rest) = Ok (e, rest).

Definition M_test (e : expr) : Prop :=
  L_TEST <= lvl e ->
  forall rest n,
    stop_test (peek rest) = true -> need e + 30 <= n ->
    p_test (parsers n) (tokens e ++ rest) = Ok (e, rest).

Definition M_nocond (e : expr) : Prop :=
  nocond e = true ->
  forall rest n,
    stop_nocond (peek rest) = true -> need e + 30 <= n ->
    p_testNoCond (parsers n) (tokens e ++ rest) = Ok (e, rest).

(* what may follow an Expression parsed by parseExpr(inParens) *)
Definition expr_rest_ok (e : expr) (inParens : bool) (rest : list ptok) : Prop :=
  match e with
  | Tuple _ true => inParens = true /\ terminates_expr_list (peek rest) = true
  | _ => stop_test (peek rest) = true /\ peek rest <> COMMA
  end.

Definition M_expr (e : expr) : Prop :=
  forall b rest n,
    expr_rest_ok e b rest -> need e + 32 <= n ->
    p_expr (parsers n) b (tokens e ++ rest) = Ok (e, rest).

Definition Main (e : expr) : Prop :=
  wp e = true -> isx e = true ->
  M_prec e /\ M_absorb e /\ M_suffix e /\ M_primSuffix e /\ M_test e /\ M_nocond e /\ M_expr e.

Definition IHs (sz : nat) : Prop := forall e', size e' < sz -> Main e'.

(* ---- the binary-operator loop stops at a token that cannot extend ---- *)
Lemma ok_at_not_suffix p rest : ok_at p rest -> is_suffix_start (peek rest) = false.
Proof.
  unfold ok_at, ext_tok. intros H.
  destruct (is_NOT (peek rest)) eqn:En.
  - destruct (peek rest); try discriminate; reflexivity.
  - rewrite (fuse_not_NOT _ En) in H.
    apply orb_false_iff in H. destruct H as [H _]. apply orb_false_iff in H. tauto.
Qed.

Lemma binopLoop_stop n q first x ts :
  ok_at q ts -> p_binopLoop (parsers (S n)) q first x ts = Ok (x, fuse ts).
Proof.
  unfold ok_at, ext_tok. intros H.
  apply orb_false_iff in H. destruct H as [H H3].
  apply orb_false_iff in H. destruct H as [H1 H2].
  rewrite un_binopLoop. unfold binopLoop_body. cbv zeta.
  rewrite not_NOT_match by assumption.
  destruct (prec_of (peek (fuse ts))) as [p|]; [|reflexivity].
  apply Nat.leb_gt in H3. apply Nat.ltb_lt in H3. rewrite H3. reflexivity.
Qed.

Lemma fz_ok_at q p rest : ok_at q rest -> ok_at q (fz p rest).
Proof. unfold fz. destruct (p <? nlevels); [apply ok_at_fuse|auto]. Qed.

Lemma fuse_fz p rest : fuse (fz p rest) = fuse rest.
Proof. unfold fz. destruct (p <? nlevels); [apply fuse_idem|reflexivity]. Qed.

(* ---- separators ---- *)
Definition ctoks (l : list expr) : list ptok := flat_map (fun y => comma :: tokens y) l.

Lemma ctoks_cons x l : ctoks (x :: l) = comma :: tokens x ++ ctoks l.
Proof. reflexivity. Qed.

Lemma seplist_cons x l : seplist (x :: l) = tokens x ++ ctoks l.
Proof. reflexivity. Qed.

Definition stoks (first : bool) (l : list expr) : list ptok :=
  match l with
  | [] => []
  | x :: r => (if first then [] else [comma]) ++ tokens x ++ ctoks r
  end.

Lemma stoks_true l : stoks true l = seplist l.
Proof. destruct l; reflexivity. Qed.
Lemma stoks_false l : stoks false l = ctoks l.
Proof. destruct l; reflexivity. Qed.

Lemma needs_cons x l : needs (x :: l) = need x + needs l.
Proof. unfold needs, need. rewrite sizes_cons. lia. Qed.

Lemma need_pos e : 40 <= need e.
Proof. unfold need. pose proof (size_pos e). lia. Qed.

(* the head of what follows an element of a comma-separated list *)
Lemma peek_ctoks_trail l tc rest :
  (l <> [] \/ tc = true) -> peek (ctoks l ++ trail tc ++ rest) = COMMA.
Proof.
  destruct l as [|x l]; [|reflexivity]. intros [H|H]; [congruence|subst tc; reflexivity].
Qed.

Lemma stop_after_elem l tc rest :
  (l = [] -> tc = false -> stop_test (peek rest) = true) ->
  stop_test (peek (ctoks l ++ trail tc ++ rest)) = true.
Proof.
  destruct l as [|x l]; [|reflexivity]. destruct tc; [reflexivity|]. cbn [ctoks flat_map trail app]. auto.
Qed.

(* ---- parseExprs ---- *)
Definition test_ok (x : expr) : bool := wp x && at_level L_TEST x.

Lemma exprs_ok sz l : IHs sz -> sizes l < sz -> forall (allow tc : bool) (rest : list ptok) (n : nat),
  forallb test_ok l = true ->
  (if tc return Prop then allow = true /\ terminates_expr_list (peek rest) = true
   else peek rest <> COMMA /\ (l <> [] -> stop_test (peek rest) = true)) ->
  needs l + 31 <= n ->
  p_exprs (parsers n) allow (ctoks l ++ trail tc ++ rest) = Ok (l, tc, rest).
Proof.
  intros IH. induction l as [|x l IHl]; intros Hs allow tc rest n Hall Hrest Hn.
  - destruct n as [|n]; [lia|]. rewrite un_exprs. unfold exprs_body.
    destruct tc; cbn [ctoks flat_map trail app].
    + destruct Hrest as [-> Ht]. cbn [peek tl comma]. rewrite Ht. reflexivity.
    + destruct Hrest as [Hc _]. rewrite not_COMMA_match by assumption. reflexivity.
  - rewrite sizes_cons in Hs. rewrite needs_cons in Hn.
    cbn [forallb] in Hall. apply andb_true_iff in Hall. destruct Hall as [Hx Hall].
    unfold test_ok in Hx. apply andb_true_iff in Hx. destruct Hx as [Hwp Hlv].
    pose proof (at_level_isx _ _ Hlv) as Hisx. pose proof (at_level_le _ _ Hlv) as Hle.
    destruct (head_ok_all x Hwp Hisx) as (Hne & Hst & _ & _).
    destruct (IH x ltac:(lia) Hwp Hisx) as (_ & _ & _ & _ & Mt & _ & _).
    pose proof (need_pos x) as Hnp.
    destruct n as [|n]; [lia|]. rewrite un_exprs. unfold exprs_body.
    rewrite ctoks_cons. cbn [app peek tl comma]. rewrite <- app_assoc.
    rewrite (peek_app _ _ Hne). rewrite (starts_not_term _ Hst).
    rewrite (Mt Hle).
    + rewrite IHl; auto; try lia.
      destruct tc; [assumption|]. destruct Hrest as [Hc Hs']. split; [assumption|]. intros _. apply Hs'. discriminate.
    + apply stop_after_elem. intros -> ->. destruct Hrest as [_ Hs']. apply Hs'. discriminate.
    + lia.
Qed.

(* ---- top-level copies of the local predicates of wp ---- *)
Definition param_ok (a : expr) : bool :=
  match a with
  | Ident _ _ => true
  | Binary (Ident _ _) _ EQ d => wp d && at_level L_TEST d
  | Unary _ STAR None => true
  | Unary _ STAR (Some (Ident _ _)) => true
  | Unary _ STARSTAR (Some (Ident _ _)) => true
  | _ => false
  end.
Definition arg_ok (a : expr) : bool :=
  match a with
  | Unary _ STAR (Some x) => wp x && at_level L_TEST x
  | Unary _ STARSTAR (Some x) => wp x && at_level L_TEST x
  | Binary (Ident _ _) _ EQ y => wp y && at_level L_TEST y
  | _ => wp a && at_level L_TEST a
  end.
Definition entry_ok (a : expr) : bool :=
  match a with
  | DictEntry k _ v => wp k && at_level L_TEST k && wp v && at_level L_TEST v
  | _ => false
  end.
Definition loopvars_ok (v : expr) : bool :=
  match v with
  | Tuple l tc => negb tc && (2 <=? List.length l) && forallb (fun y => wp y && at_level L_UNARY y) l
  | _ => wp v && at_level L_UNARY v
  end.
Definition clause_ok (c : expr) : bool :=
  match c with
  | ForClause _ vars _ x => loopvars_ok vars && wp x && at_level (L_BIN 0) x
  | IfClause _ c => wp c && nocond c
  | _ => false
  end.

Lemma wp_Call fn lp args tc rp :
  wp (Call fn lp args tc rp) = wp fn && at_level L_PRIM fn && forallb arg_ok args && (negb tc || nonempty args).
Proof. reflexivity. Qed.
Lemma wp_ListE lb l tc rb : wp (ListE lb l tc rb) = forallb test_ok l && (negb tc || nonempty l).
Proof. reflexivity. Qed.
Lemma wp_DictE lb l tc rb : wp (DictE lb l tc rb) = forallb entry_ok l && (negb tc || nonempty l).
Proof. reflexivity. Qed.
Lemma wp_Comp c lb body cl rb :
  wp (Comp c lb body cl rb) =
  (if c then entry_ok body else test_ok body) &&
  match cl with ForClause _ _ _ _ :: _ => true | _ => false end && forallb clause_ok cl.
Proof. reflexivity. Qed.
Lemma wp_Lambda p ps b : wp (Lambda p ps b) = forallb param_ok ps && wp b && at_level L_TEST b.
Proof. reflexivity. Qed.
Lemma wp_Tuple l tc :
  wp (Tuple l tc) = forallb test_ok l && ((2 <=? List.length l) || (tc && (1 <=? List.length l))).
Proof. reflexivity. Qed.

Lemma arg_cases a : arg_ok a = true ->
  (exists p y, a = Unary p STAR (Some y) /\ test_ok y = true) \/
  (exists p y, a = Unary p STARSTAR (Some y) /\ test_ok y = true) \/
  (exists ip name ep y, a = Binary (Ident ip name) ep EQ y /\ test_ok y = true) \/
  test_ok a = true.
Proof.
  unfold test_ok. destruct a; cbn [arg_ok]; intros H; try (right; right; right; exact H).
  - destruct x as [x|]; [|right; right; right; destruct op; exact H].
    destruct op; try (right; right; right; exact H).
    + left. eauto.
    + right; left. eauto.
  - destruct a1; try (right; right; right; destruct op; exact H).
    destruct op; try (right; right; right; exact H).
    right; right; left. eauto 8.
Qed.

Lemma param_cases a : param_ok a = true ->
  (exists ip name, a = Ident ip name) \/
  (exists ip name ep d, a = Binary (Ident ip name) ep EQ d /\ test_ok d = true) \/
  (exists p, a = Unary p STAR None) \/
  (exists p ip name, a = Unary p STAR (Some (Ident ip name))) \/
  (exists p ip name, a = Unary p STARSTAR (Some (Ident ip name))).
Proof.
  unfold test_ok. destruct a; cbn [param_ok]; intros H; try discriminate.
  - left. eauto.
  - destruct op; try discriminate; destruct x as [x|]; try discriminate.
    + destruct x; try discriminate. right; right; right; left. eauto.
    + right; right; left. eauto.
    + destruct x; try discriminate. right; right; right; right. eauto.
  - destruct a1; try (destruct op; discriminate). destruct op; try discriminate.
    right; left. eauto 8.
Qed.

