(* C14 -- soundness (well-formedness), step lemmas part 1: tests, lambda,
   parameters, precedence levels. *)
From Coq Require Import ZArith List String Bool Arith Lia.
From SV Require Import C14.Tokens C14.Parse C14.Print C14.ProofsBase C14.ProofsExpr
  C14.ProofsLists C14.ProofsArgs C14.ProofsClauses C14.ProofsPrim C14.ProofsSuffix C14.ProofsMain
  C14.ProofsValid.
Import ListNotations.
Open Scope nat_scope.

Lemma not_ELSE_match {A} t (a b : A) : t <> ELSE -> match t with ELSE => a | _ => b end = b.
Proof. destruct t; try reflexivity; congruence. Qed.
Lemma not_COLON_match {A} t (a b : A) : t <> COLON -> match t with COLON => a | _ => b end = b.
Proof. destruct t; try reflexivity; congruence. Qed.
Lemma not_RPAREN_match {A} t (a b : A) : t <> RPAREN -> match t with RPAREN => a | _ => b end = b.
Proof. destruct t; try reflexivity; congruence. Qed.
Lemma not_RBRACK_match {A} t (a b : A) : t <> RBRACK -> match t with RBRACK => a | _ => b end = b.
Proof. destruct t; try reflexivity; congruence. Qed.
Lemma not_RBRACE_match {A} t (a b : A) : t <> RBRACE -> match t with RBRACE => a | _ => b end = b.
Proof. destruct t; try reflexivity; congruence. Qed.
Lemma not_IN_match {A} t (a b : A) : t <> IN -> match t with IN => a | _ => b end = b.
Proof. destruct t; try reflexivity; congruence. Qed.

Ltac tok_case t k :=
  let E := fresh "E" in
  destruct (tok_eqb t k) eqn:E;
  [apply tok_eqb_eq in E|
   assert (t <> k) by (intros ?Heq; rewrite Heq in E; rewrite tok_eqb_refl in E; discriminate E); clear E].

Ltac inv H := inversion H; subst; clear H.

Section Step.
Variable self : P.
Hypothesis V : Valid self.

Lemma vs_test ts e r : test_body self ts = Ok (e, r) -> good L_TEST e.
Proof.
  unfold test_body. destruct (is_LAMBDA (peek ts)) eqn:EL.
  - destruct (peek ts); try discriminate EL. intros H. apply (v_lambda _ V) in H. tauto.
  - rewrite (not_LAMBDA_match _ _ _ EL). unfold test_dflt.
    destruct (p_testPrec self 0 ts) as [[x ts1]| |] eqn:E1; try discriminate.
    destruct (v_testPrec _ V _ _ _ _ E1 ltac:(lia)) as [Gx _].
    tok_case (peek ts1) IF.
    + rewrite E.
      destruct (p_testPrec self 0 (tl ts1)) as [[c ts2]| |] eqn:E2; try discriminate.
      destruct (v_testPrec _ V _ _ _ _ E2 ltac:(lia)) as [Gc _].
      tok_case (peek ts2) ELSE.
      * rewrite E0. destruct (p_test self (tl ts2)) as [[f ts3]| |] eqn:E3; try discriminate.
        pose proof (v_test _ V _ _ _ E3) as Gf. intros H. inv H.
        split; [|split; [reflexivity|cbn; unfold L_TEST; lia]].
        cbn [wp]. andbs.
      * rewrite not_ELSE_match by assumption. discriminate.
    + rewrite not_IF_match by assumption. intros H0. inv H0. eapply good_mono; [|exact Gx]. unfold L_TEST, L_BIN. lia.
Qed.

Lemma vs_testNoCond ts e r : testNoCond_body self ts = Ok (e, r) -> wp e = true /\ nocond e = true.
Proof.
  unfold testNoCond_body. destruct (is_LAMBDA (peek ts)) eqn:EL.
  - destruct (peek ts); try discriminate EL. intros H. apply (v_lambda _ V) in H.
    destruct H as [(Hw & _) Hn]. auto.
  - rewrite (not_LAMBDA_match _ _ _ EL). intros H. destruct (v_testPrec _ V _ _ _ _ H ltac:(lia)) as [G _].
    split; [apply G|apply nocond_of_good; exact G].
Qed.

Lemma vs_lambda a lp ts e r : lambda_body self a lp ts = Ok (e, r) ->
  good L_TEST e /\ (a = false -> nocond e = true).
Proof.
  unfold lambda_body.
  destruct (p_params self true ts) as [[[ps tc] ts1]| |] eqn:E1; try discriminate.
  destruct (v_params _ V _ _ _ _ _ E1) as [Hps _].
  tok_case (peek ts1) COLON.
  2:{ rewrite not_COLON_match by assumption. discriminate. }
  rewrite E. destruct a.
  - destruct (p_test self (tl ts1)) as [[b ts2]| |] eqn:E2; try discriminate.
    pose proof (v_test _ V _ _ _ E2) as Gb. intros H. inv H.
    split; [|discriminate].
    split; [|split; [reflexivity|cbn; lia]]. rewrite wp_Lambda. rewrite Hps. apply (good_at _ _ Gb).
  - destruct (p_testNoCond self (tl ts1)) as [[b ts2]| |] eqn:E2; try discriminate.
    destruct (v_testNoCond _ V _ _ _ E2) as [Hw Hn]. intros H. inv H.
    pose proof (nocond_good _ Hw Hn) as Gb.
    split; [|intros _; exact Hn].
    split; [|split; [reflexivity|cbn; lia]]. rewrite wp_Lambda. rewrite Hps. apply (good_at _ _ Gb).
Qed.

Lemma comma_unless_inv first ts u ts1 : comma_unless first ts = Ok (u, ts1) ->
  (first = true /\ ts1 = ts) \/ (first = false /\ peek ts = COMMA /\ ts1 = tl ts).
Proof.
  unfold comma_unless. destruct first; [intros H; inv H; auto|].
  tok_case (peek ts) COMMA.
  - rewrite E. intros H0. inv H0. auto.
  - rewrite not_COMMA_match by assumption. discriminate.
Qed.

Lemma vs_params first ts l tc r : params_body self first ts = Ok (l, tc, r) ->
  forallb param_ok l = true /\ (tc = true -> first = false \/ l <> []).
Proof.
  unfold params_body. destruct (not_close (peek ts)) eqn:EC.
  2:{ destruct (peek ts); try discriminate EC; intros H; inv H; (split; [reflexivity|discriminate]). }
  assert (Hm : forall (a b : PR (list expr * bool)), match peek ts with RPAREN | COLON | EOF => a | _ => b end = b)
    by (intros a b; destruct (peek ts); try discriminate EC; reflexivity).
  rewrite Hm. unfold params_dflt.
  destruct (comma_unless first ts) as [[u ts1]| |] eqn:EU; try discriminate.
  cbv zeta.
  assert (Hrec : forall ts' l' tc' r', p_params self false ts' = Ok (l', tc', r') -> forallb param_ok l' = true)
    by (intros ts' l' tc' r' H; apply (v_params _ V) in H; tauto).
  destruct (peek ts1) eqn:Ep; try discriminate.
  - (* IDENT *)
    tok_case (peek (tl ts1)) EQ.
    + rewrite E.
      destruct (p_test self (tl (tl ts1))) as [[d ts2]| |] eqn:E2; try discriminate.
      destruct (p_params self false ts2) as [[[l' tc'] ts3]| |] eqn:E3; try discriminate.
      intros H. inv H. split; [|intros _; right; discriminate].
      cbn [forallb param_ok]. rewrite (good_at _ _ (v_test _ V _ _ _ E2)). exact (Hrec _ _ _ _ E3).
    + rewrite not_EQ_match by assumption.
      destruct (p_params self false (tl ts1)) as [[[l' tc'] ts3]| |] eqn:E3; try discriminate.
      intros H0. inv H0. split; [|intros _; right; discriminate].
      cbn [forallb param_ok]. exact (Hrec _ _ _ _ E3).
  - (* STAR *)
    destruct (peek (tl ts1)) eqn:Ei;
      try (destruct (p_params self false (tl ts1)) as [[[l' tc'] ts3]| |] eqn:E3; try discriminate;
           intros H; inv H; split; [cbn [forallb param_ok]; exact (Hrec _ _ _ _ E3)|intros _; right; discriminate]).
    destruct (p_params self false (tl (tl ts1))) as [[[l' tc'] ts3]| |] eqn:E3; try discriminate.
    intros H; inv H; split; [cbn [forallb param_ok]; exact (Hrec _ _ _ _ E3)|intros _; right; discriminate].
  - (* RPAREN *)
    intros H. inv H. split; [reflexivity|]. intros Ht. left. destruct first; [discriminate|reflexivity].
  - (* STARSTAR *)
    destruct (peek (tl ts1)) eqn:Ei; try discriminate.
    destruct (p_params self false (tl (tl ts1))) as [[[l' tc'] ts3]| |] eqn:E3; try discriminate.
    intros H; inv H; split; [cbn [forallb param_ok]; exact (Hrec _ _ _ _ E3)|intros _; right; discriminate].
Qed.

Lemma tight_of_ok prec ts : is_NOT (peek ts) = false ->
  (forall q, prec_of (peek ts) = Some q -> q < prec) -> tight prec ts.
Proof. split; assumption. Qed.

(* the bound on the next operator that after_prec gives *)
Lemma after_prec_bound k ts q' :
  after_prec (S k) ts -> k <= 9 -> prec_of (peek (fuse ts)) = Some q' -> q' <= k.
Proof.
  unfold after_prec. intros H Hk Hq. destruct (S k <? nlevels) eqn:El.
  - destruct H as [Hn Hb]. rewrite (fuse_not_NOT _ Hn) in Hq. specialize (Hb _ Hq). lia.
  - apply Nat.ltb_ge in El. unfold nlevels in El. destruct (prec_of_le9 _ _ Hq). lia.
Qed.

Lemma vs_binopLoop prec first x ts e r :
  binopLoop_body self prec first x ts = Ok (e, r) -> LP prec first x ts ->
  good (L_BIN prec) e /\ tight prec r.
Proof.
  unfold binopLoop_body. cbv zeta. intros H [Gx Hq].
  destruct (is_NOT (peek (fuse ts))) eqn:EN.
  { destruct (peek (fuse ts)); try discriminate EN. discriminate H. }
  rewrite (not_NOT_match _ _ _ EN) in H.
  destruct (prec_of (peek (fuse ts))) as [q|] eqn:Eq.
  2:{ inv H. split; [assumption|]. split; [assumption|]. intros q0 Hq0. congruence. }
  destruct (q <? prec) eqn:Elt.
  { inv H. split; [assumption|]. split; [assumption|]. intros q0 Hq0. apply Nat.ltb_lt in Elt. congruence. }
  apply Nat.ltb_ge in Elt.
  destruct (negb first && (q =? prec_cmp)) eqn:Ecmp; [discriminate|].
  destruct (p_testPrec self (S q) (tl (fuse ts))) as [[y ts1]| |] eqn:E1; try discriminate.
  destruct (prec_of_le9 _ _ Eq) as [Hq9 Hq2].
  destruct (v_testPrec _ V _ _ _ _ E1 ltac:(lia)) as [Gy Hafter].
  destruct (Hq q eq_refl Elt) as [Hlx Hcx].
  apply (v_binopLoop _ V) in H; [exact H|].
  split.
  - (* the new node is good *)
    split; [|split; [cbn [isx]; rewrite Eq; reflexivity|cbn [lvl]; rewrite Eq; unfold L_BIN in *; lia]].
    cbn [wp]. rewrite Eq. destruct Gx as (Hwx & Hix & _). destruct Gy as (Hwy & Hiy & Hly).
    rewrite Hwx, Hwy. cbn [andb].
    assert (Hxl : at_level (if q =? prec_cmp then L_BIN (S q) else L_BIN q) x = true).
    { apply at_level_intro; [assumption|]. destruct (q =? prec_cmp) eqn:Ec; [|assumption].
      apply Nat.eqb_eq in Ec. apply Hcx; [assumption|].
      rewrite andb_true_r in Ecmp. destruct first; [reflexivity|discriminate]. }
    rewrite Hxl. apply at_level_intro; assumption.
  - intros q' Hq' Hle. cbn [lvl]. rewrite Eq. split; [|intros _ Hf; discriminate Hf].
    pose proof (after_prec_bound q ts1 q' Hafter Hq9 Hq'). unfold L_BIN. lia.
Qed.

Lemma vs_testPrec prec ts e r : testPrec_body self prec ts = Ok (e, r) -> prec <= 10 ->
  good (L_BIN prec) e /\ after_prec prec r.
Proof.
  unfold testPrec_body. intros H Hp. destruct (nlevels <=? prec) eqn:El.
  - destruct (v_primSuffix _ V _ _ _ H) as [G Hs]. apply Nat.leb_le in El. unfold nlevels in El.
    assert (prec = 10) by lia. subst prec. split; [exact G|]. exact Hs.
  - apply Nat.leb_gt in El. unfold nlevels in El.
    assert (Hlt : prec <? nlevels = true) by (apply Nat.ltb_lt; unfold nlevels; lia).
    assert (Hbin : forall e r, binopExpr self prec ts = Ok (e, r) -> good (L_BIN prec) e /\ after_prec prec r).
    { unfold binopExpr. intros e0 r0 Hb.
      destruct (p_testPrec self (S prec) ts) as [[x ts1]| |] eqn:E1; try discriminate.
      destruct (v_testPrec _ V _ _ _ _ E1 ltac:(lia)) as [Gx Hafter].
      apply (v_binopLoop _ V) in Hb.
      - unfold after_prec. rewrite Hlt. exact Hb.
      - split; [eapply good_mono; [|exact Gx]; unfold L_BIN; lia|].
        intros q Hq Hle. pose proof (after_prec_bound prec ts1 q Hafter ltac:(lia) Hq).
        assert (q = prec) by lia. subst q. destruct Gx as (_ & _ & Hl). split; [unfold L_BIN in *; lia|intros _ _; exact Hl]. }
    destruct (is_NOT (peek ts)) eqn:EN.
    + destruct (peek ts); try discriminate EN.
      destruct (prec =? prec_not) eqn:E2; [|apply Hbin; exact H].
      apply Nat.eqb_eq in E2. subst prec.
      destruct (p_testPrec self prec_not (tl ts)) as [[x ts1]| |] eqn:E1; try discriminate.
      destruct (v_testPrec _ V _ _ _ _ E1 ltac:(unfold prec_not; lia)) as [Gx Hafter]. inv H.
      split; [|exact Hafter].
      split; [|split; [reflexivity|cbn; unfold L_BIN; lia]].
      cbn [wp]. apply (good_at _ _ Gx).
    + rewrite (not_NOT_match _ _ _ EN) in H. apply Hbin. exact H.
Qed.
End Step.
