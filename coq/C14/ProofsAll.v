(* C14 -- the main induction, part 4: unary, test, no-cond test, expression;
   assembling the invariants for all trees. *)
From Coq Require Import ZArith List String Bool Arith Lia.
From SV Require Import C14.Tokens C14.Parse C14.Print C14.ProofsBase C14.ProofsExpr
  C14.ProofsLists C14.ProofsArgs C14.ProofsClauses C14.ProofsPrim C14.ProofsSuffix C14.ProofsMain.
Import ListNotations.
Open Scope nat_scope.

Lemma suffixLoop_stop n e rest :
  is_suffix_start (peek rest) = false -> p_suffixLoop (parsers (S n)) e rest = Ok (e, rest).
Proof.
  intros H. rewrite un_suffixLoop. unfold suffixLoop_body. cbv zeta.
  rewrite (not_suffix_match _ _ _ _ _ H). reflexivity.
Qed.

Lemma unary_shape e :
  isx e = true -> lvl e = L_UNARY ->
  exists p op x, e = Unary p op (Some x) /\ (op = MINUS \/ op = PLUS \/ op = TILDE).
Proof.
  intros Hx Hl. destruct e; cbn [lvl isx] in *;
    unfold L_EXPR, L_TEST, L_BIN, L_UNARY, L_PRIM, prec_not in *; try discriminate.
  - destruct op; try discriminate; destruct x; try discriminate; eauto 8.
  - destruct op; cbn in Hl; discriminate.
Qed.

Lemma primSuffix_all e :
  IHs (size e) -> wp e = true -> isx e = true -> M_suffix e -> M_primSuffix e.
Proof.
  intros IH Hwp Hisx Msuf Hl rest n Hns Hn.
  pose proof (lvl_le13 e) as Hle. unfold L_PRIM, L_UNARY in *.
  destruct (Nat.eq_dec (lvl e) 13) as [E|E].
  - apply (Msuf E rest (Ok (e, rest)) 1 n); [|lia].
    intros m Hm. destruct m as [|m]; [lia|]. apply suffixLoop_stop. assumption.
  - destruct (unary_shape e Hisx ltac:(unfold L_UNARY; lia)) as (p & op & x & -> & Hop).
    assert (Hx : wp x = true /\ at_level L_UNARY x = true).
    { cbn [wp] in Hwp. destruct Hop as [->|[->| ->]]; apply andb_true_iff in Hwp; exact Hwp. }
    destruct Hx as [Hwx Hlx].
    destruct (IH x ltac:(cbn [size]; lia) Hwx (at_level_isx _ _ Hlx)) as (_ & _ & _ & Mpx & _).
    unfold need in Hn. cbn [size] in Hn.
    destruct n as [|n]; [lia|]. rewrite un_primSuffix. unfold primSuffix_body.
    destruct n as [|n]; [lia|]. rewrite un_primary. unfold primary_body.
    destruct Hop as [->|[->| ->]]; cbn [tokens app peek peekpos tl];
      (rewrite (Mpx (at_level_le _ _ Hlx)); [|assumption|unfold need; lia]);
      apply suffixLoop_stop; assumption.
Qed.

Lemma test_shape e :
  isx e = true -> lvl e = L_TEST ->
  (exists t ifp c ep f, e = Cond t ifp c ep f) \/ (exists p ps b, e = Lambda p ps b).
Proof.
  intros Hx Hl. destruct e; cbn [lvl isx] in *;
    unfold L_EXPR, L_TEST, L_BIN, L_UNARY, L_PRIM, prec_not in *; try discriminate; eauto 8.
  - destruct op; discriminate.
  - destruct op; cbn in Hl; discriminate.
Qed.

Lemma stop_test_ok0 rest : stop_test (peek rest) = true -> ok_at 0 rest /\ fuse rest = rest.
Proof. intros H. apply stop_nocond_ok. apply stop_test_nocond. assumption. Qed.

Lemma fz0 rest : fz 0 rest = fuse rest.
Proof. reflexivity. Qed.

Lemma lambda_ok (e : expr) (p : pos) (ps : list expr) (b : expr) (allow : bool) :
  e = Lambda p ps b -> IHs (size e) -> wp e = true ->
  forall rest n,
    (forall m, need b + 30 <= m ->
       (if allow then p_test (parsers m) (tokens b ++ rest) else p_testNoCond (parsers m) (tokens b ++ rest))
       = Ok (b, rest)) ->
    need e + 28 <= n ->
    p_lambda (parsers n) allow p (seplist ps ++ colon :: tokens b ++ rest) = Ok (e, rest).
Proof.
  intros -> IH Hwp rest n Hbody Hn.
  rewrite wp_Lambda in Hwp. split_andb.
  unfold need in Hn. cbn [size] in Hn. fold (sizes ps) in Hn.
  destruct n as [|n]; [lia|]. rewrite un_lambda. unfold lambda_body.
  change (seplist ps ++ colon :: tokens b ++ rest) with (seplist ps ++ trail false ++ colon :: tokens b ++ rest).
  rewrite (params_true_ok _ ps IH); [|cbn [size]; fold (sizes ps); lia|assumption|discriminate|intros _; right; reflexivity|unfold needs; lia].
  cbn [peek peekpos tl colon].
  rewrite Hbody; [reflexivity|unfold need; lia].
Qed.

Lemma test_all e :
  IHs (size e) -> wp e = true -> isx e = true -> M_prec e -> M_test e.
Proof.
  intros IH Hwp Hisx Mp Hl rest n Hst Hn. unfold L_TEST in Hl.
  pose proof (need_pos e) as Hnp.
  destruct (stop_test_ok0 rest Hst) as [Hok Hfu].
  destruct (Nat.eq_dec (lvl e) L_TEST) as [E|E].
  - destruct (test_shape e Hisx E) as [(t & ifp & c & ep & f & ->) | (p & ps & b & ->)].
    + cbn [wp] in Hwp. split_andb.
      repeat match goal with Ha : at_level _ ?x = true |- _ =>
        pose proof (at_level_isx _ _ Ha); pose proof (at_level_le _ _ Ha); clear Ha end.
      destruct (IH t ltac:(cbn [size]; lia)) as (Mpt & _); auto.
      destruct (IH c ltac:(cbn [size]; lia)) as (Mpc & _); auto.
      destruct (IH f ltac:(cbn [size]; lia)) as (_ & _ & _ & _ & Mtf & _); auto.
      destruct (head_ok_all t) as (Hne & _ & HnL & _); auto.
      unfold need in Hn. cbn [size] in Hn.
      destruct n as [|n]; [lia|]. rewrite un_test. unfold test_body.
      cbn [tokens]. cbn [app]. repeat (rewrite <- app_assoc; cbn [app]).
      rewrite (peek_app _ _ Hne). rewrite (not_LAMBDA_match _ _ _ (HnL ltac:(assumption))).
      unfold test_dflt.
      rewrite (Mpt 0); [|lia|assumption|reflexivity|unfold need; lia].
      rewrite fz0. cbn [fuse peek peekpos tl].
      rewrite (Mpc 0); [|lia|assumption|reflexivity|unfold need; lia].
      rewrite fz0. cbn [fuse peek peekpos tl].
      rewrite (Mtf ltac:(assumption)); [reflexivity|assumption|unfold need; lia].
    + destruct n as [|n]; [lia|]. rewrite un_test. unfold test_body.
      cbn [tokens]. fold (seplist ps). cbn [app peek peekpos tl]. repeat (rewrite <- app_assoc; cbn [app]).
      apply (lambda_ok _ p ps b true eq_refl IH Hwp); [|lia].
      intros m Hm. rewrite wp_Lambda in Hwp. split_andb.
      match goal with Ha : at_level L_TEST b = true |- _ =>
        destruct (IH b ltac:(cbn [size]; lia) ltac:(assumption) (at_level_isx _ _ Ha)) as (_ & _ & _ & _ & Mtb & _);
        apply (Mtb (at_level_le _ _ Ha)); assumption end.
  - assert (Hge : L_BIN 0 <= lvl e) by (unfold L_BIN, L_TEST in *; lia).
    destruct (head_ok_all e Hwp Hisx) as (Hne & _ & HnL & _).
    destruct n as [|n]; [lia|]. rewrite un_test. unfold test_body.
    rewrite (peek_app _ _ Hne). rewrite (not_LAMBDA_match _ _ _ (HnL Hge)).
    unfold test_dflt.
    rewrite (Mp 0); [|lia|assumption|assumption|lia].
    rewrite fz0, Hfu.
    rewrite (not_IF_match _ _ _ (stop_test_not_IF _ Hst)). reflexivity.
Qed.

Lemma nocond_all e :
  IHs (size e) -> wp e = true -> isx e = true -> M_prec e -> M_nocond e.
Proof.
  intros IH Hwp Hisx Mp Hnc rest n Hst Hn.
  pose proof (need_pos e) as Hnp.
  destruct (stop_nocond_ok rest 0 Hst) as [Hok Hfu].
  assert (Hcase : (exists p ps b, e = Lambda p ps b) \/ at_level (L_BIN 0) e = true).
  { destruct e; cbn [nocond] in Hnc; auto. left. eauto. }
  destruct Hcase as [(p & ps & b & ->) | Hl].
  - destruct n as [|n]; [lia|]. rewrite un_testNoCond. unfold testNoCond_body.
    cbn [tokens]. fold (seplist ps). cbn [app peek peekpos tl]. repeat (rewrite <- app_assoc; cbn [app]).
    apply (lambda_ok _ p ps b false eq_refl IH Hwp); [|lia].
    intros m Hm. cbn [nocond] in Hnc. rewrite wp_Lambda in Hwp. split_andb.
    match goal with Ha : at_level L_TEST b = true |- _ =>
      destruct (IH b ltac:(cbn [size]; lia) ltac:(assumption) (at_level_isx _ _ Ha)) as (_ & _ & _ & _ & _ & Mnb & _);
      apply (Mnb Hnc); assumption end.
  - pose proof (at_level_le _ _ Hl) as Hge.
    destruct (head_ok_all e Hwp Hisx) as (Hne & _ & HnL & _).
    destruct n as [|n]; [lia|]. rewrite un_testNoCond. unfold testNoCond_body.
    rewrite (peek_app _ _ Hne). rewrite (not_LAMBDA_match _ _ _ (HnL Hge)).
    rewrite (Mp 0); [|lia|assumption|assumption|lia].
    rewrite fz0, Hfu. reflexivity.
Qed.

Lemma expr_all e :
  IHs (size e) -> wp e = true -> isx e = true -> M_test e -> M_expr e.
Proof.
  intros IH Hwp Hisx Mt b rest n Hr Hn.
  pose proof (need_pos e) as Hnp.
  assert (Hcase : (exists l tc, e = Tuple l tc) \/ (L_TEST <= lvl e /\ stop_test (peek rest) = true /\ peek rest <> COMMA)).
  { destruct e; cbn [expr_rest_ok lvl] in *; unfold L_EXPR, L_TEST, L_BIN, L_UNARY, L_PRIM, prec_not in *;
      try (right; split; [lia|exact Hr]); try discriminate Hisx.
    - left. eauto.
    - right. split; [destruct op; lia|exact Hr].
    - right. split; [|exact Hr]. cbn [isx] in Hisx. destruct (prec_of op); [lia|discriminate]. }
  destruct Hcase as [(l & tc & ->) | (Hl & Hst & Hc)].
  - rewrite wp_Tuple in Hwp. apply andb_true_iff in Hwp. destruct Hwp as [Hall Hlen].
    destruct l as [|x l]; [cbn in Hlen; destruct tc; discriminate|].
    cbn [forallb] in Hall. apply andb_true_iff in Hall. destruct Hall as [Hx Hall].
    unfold need in Hn. cbn [size] in Hn. fold (sizes (x :: l)) in Hn. rewrite sizes_cons in Hn.
    assert (IH' : IHs (S (size x + sizes l))) by exact IH.
    assert (Hnext : l <> [] \/ tc = true).
    { destruct l; [right|left; discriminate]. cbn in Hlen. destruct tc; [reflexivity|discriminate]. }
    destruct n as [|n]; [lia|]. rewrite un_expr. unfold expr_body.
    cbn [tokens]. fold (seplist (x :: l)). rewrite seplist_cons. rewrite <- !app_assoc.
    rewrite (p_test_ok _ IH' x); [|lia|assumption| |unfold need; lia].
    2:{ rewrite (peek_ctoks_trail l tc rest Hnext). reflexivity. }
    rewrite (peek_ctoks_trail l tc rest Hnext).
    rewrite (exprs_ok _ l IH'); [reflexivity|lia|assumption| |unfold needs; lia].
    cbn [expr_rest_ok] in Hr. destruct tc; [exact Hr|]. destruct Hr as [Hs Hc]. split; [exact Hc|intros _; exact Hs].
  - destruct n as [|n]; [lia|]. rewrite un_expr. unfold expr_body.
    rewrite (Mt Hl); [|assumption|lia].
    rewrite (not_COMMA_match _ _ _ Hc). reflexivity.
Qed.

Theorem main_all : forall e, Main e.
Proof.
  induction e as [e IH] using size_ind. intros Hwp Hisx.
  assert (IH' : IHs (size e)) by exact IH.
  pose proof (suffix_all e IH' Hwp Hisx) as Msuf.
  pose proof (primSuffix_all e IH' Hwp Hisx Msuf) as Mps.
  pose proof (prec_descent e IH' Hwp Hisx Mps) as Hdesc.
  assert (Mp : M_prec e).
  { intros prec rest n Hp Hl Hok Hn. destruct (Hdesc (10 - prec) prec ltac:(lia)) as [H _]. apply H; assumption. }
  assert (Mabs : M_absorb e).
  { intros q rest r N n Hq Hq2 Hl Hok Hloop HN Hn. destruct (Hdesc (10 - q) q ltac:(lia)) as [_ H].
    apply (H Hq rest r N n); assumption. }
  pose proof (test_all e IH' Hwp Hisx Mp) as Mt.
  repeat split; auto.
  - apply nocond_all; assumption.
  - apply expr_all; assumption.
Qed.
