(* C14 -- rendering statements: concrete statement trees (which small
   statements share a line, whether a suite is written inline or as an indented
   block -- syntax the Go tree forgets), their token lists, and the projection
   `flatten` to the Go-shaped tree of Tokens.v.  Specification side; no proofs. *)
From Coq Require Import ZArith List String Bool Arith.
From SV Require Import C14.Tokens C14.Print.
Import ListNotations.
Open Scope nat_scope.

Definition semi : ptok := (SEMI, nopos).
Definition newline : ptok := (NEWLINE, nopos).

Definition name_tokens (nm : option (pos * string) * pos * list Z) : list ptok :=
  match nm with
  | (None, sp, s) => [comma; (STRING s, sp)]
  | (Some (ip, id), sp, s) => [comma; (IDENT id, ip); (EQ, nopos); (STRING s, sp)]
  end.

(* small statements: assignment, break/continue/pass, expression, load, return *)
Definition small_tokens (s : stmt) : list ptok :=
  match s with
  | AssignStmt lhs p op rhs => tokens lhs ++ (op, p) :: tokens rhs
  | BranchStmt p t => [(t, p)]
  | ExprStmt x => tokens x
  | LoadStmt p lp mp m names tc rp =>
    (LOAD, p) :: (LPAREN, lp) :: (STRING m, mp) :: flat_map name_tokens names ++ trail tc ++ [(RPAREN, rp)]
  | ReturnStmt p None => [(RETURN, p)]
  | ReturnStmt p (Some e) => (RETURN, p) :: tokens e
  | _ => []
  end.

Definition small_ok (s : stmt) : bool :=
  match s with
  | AssignStmt lhs _ op rhs => wf_expr lhs && wf_expr rhs && is_augassign op
  | BranchStmt _ t => match t with BREAK | CONTINUE | PASS => true | _ => false end
  | ExprStmt x => wf_expr x
  | LoadStmt _ _ _ _ names _ _ => nonempty names
  | ReturnStmt _ None => true
  | ReturnStmt _ (Some e) => wf_expr e
  | _ => false
  end.

(* small_stmt (';' small_stmt)* [';'] NEWLINE *)
Fixpoint smalls_tokens (l : list stmt) : list ptok :=
  match l with
  | [] => []
  | [s] => small_tokens s
  | s :: r => small_tokens s ++ semi :: smalls_tokens r
  end.
Definition line_tokens (l : list stmt) (sm : bool) : list ptok :=
  smalls_tokens l ++ (if sm then [semi] else []) ++ [newline].

Inductive cstmt :=
| CSimple (l : list stmt) (sm : bool)
| CDef (p np : pos) (name : string) (lp : pos) (params : list expr) (tc : bool) (rp : pos) (body : csuite)
| CIf (p : pos) (c : expr) (body : csuite) (elifs : list (pos * expr * csuite)) (els : option (pos * csuite))
| CFor (p : pos) (vars x : expr) (body : csuite)
| CWhile (p : pos) (c : expr) (body : csuite)
with csuite :=
| SInline (l : list stmt) (sm : bool)       (* `if x: a; b` *)
| SBlock (l : list cstmt).                   (* NEWLINE INDENT stmt+ OUTDENT *)

Fixpoint tokens_c (c : cstmt) : list ptok :=
  match c with
  | CSimple l sm => line_tokens l sm
  | CDef p np name lp params tc rp body =>
    (DEF, p) :: (IDENT name, np) :: (LPAREN, lp) :: seplist params ++ trail tc ++
      (RPAREN, rp) :: colon :: tokens_s body
  | CIf p c body elifs els =>
    (IF, p) :: tokens c ++ colon :: tokens_s body ++
      flat_map (fun '(q, c, b) => (ELIF, q) :: tokens c ++ colon :: tokens_s b) elifs ++
      match els with Some (q, b) => (ELSE, q) :: colon :: tokens_s b | None => [] end
  | CFor p vars x body =>
    (FOR, p) :: tokens vars ++ (IN, nopos) :: tokens x ++ colon :: tokens_s body
  | CWhile p c body => (WHILE, p) :: tokens c ++ colon :: tokens_s body
  end
with tokens_s (s : csuite) : list ptok :=
  match s with
  | SInline l sm => line_tokens l sm
  | SBlock l => newline :: (INDENT, nopos) :: flat_map tokens_c l ++ [(OUTDENT, nopos)]
  end.

Fixpoint flatten (c : cstmt) : list stmt :=
  match c with
  | CSimple l _ => l
  | CDef p np name lp params tc rp body => [DefStmt p np name lp params tc rp (flatten_s body)]
  | CIf p c body elifs els =>
    [IfStmt p c (flatten_s body) (map (fun '(q, c, b) => (q, c, flatten_s b)) elifs)
       (match els with Some (q, b) => Some (q, flatten_s b) | None => None end)]
  | CFor p vars x body => [ForStmt p vars x (flatten_s body)]
  | CWhile p c body => [WhileStmt p c (flatten_s body)]
  end
with flatten_s (s : csuite) : list stmt :=
  match s with
  | SInline l _ => l
  | SBlock l => flat_map flatten l
  end.

(* well-formed concrete statements *)
Definition param_ok' (a : expr) : bool :=
  match a with
  | Ident _ _ => true
  | Binary (Ident _ _) _ EQ d => wp d && at_level L_TEST d
  | Unary _ STAR None => true
  | Unary _ STAR (Some (Ident _ _)) => true
  | Unary _ STARSTAR (Some (Ident _ _)) => true
  | _ => false
  end.
Definition loopvars_ok' (v : expr) : bool :=
  match v with
  | Tuple l tc => negb tc && (2 <=? List.length l) && forallb (fun y => wp y && at_level L_UNARY y) l
  | _ => wp v && at_level L_UNARY v
  end.
Definition test_ok' (x : expr) : bool := wp x && at_level L_TEST x.
Definition line_ok (l : list stmt) : bool := nonempty l && forallb small_ok l.

Fixpoint cstmt_ok (c : cstmt) : bool :=
  match c with
  | CSimple l _ => line_ok l
  | CDef _ _ _ _ params tc _ body =>
    forallb param_ok' params && (negb tc || nonempty params) && csuite_ok body
  | CIf _ c body elifs els =>
    test_ok' c && csuite_ok body &&
    forallb (fun '(_, c, b) => test_ok' c && csuite_ok b) elifs &&
    match els with Some (_, b) => csuite_ok b | None => true end
  | CFor _ vars x body => loopvars_ok' vars && wf_expr x && csuite_ok body
  | CWhile _ c body => test_ok' c && csuite_ok body
  end
with csuite_ok (s : csuite) : bool :=
  match s with
  | SInline l _ => line_ok l
  | SBlock l => nonempty l && forallb cstmt_ok l
  end.

(* fuel measure *)
Definition ssize (s : stmt) : nat :=
  match s with
  | AssignStmt lhs _ _ rhs => 1 + size lhs + size rhs
  | ExprStmt x => 1 + size x
  | ReturnStmt _ (Some e) => 1 + size e
  | LoadStmt _ _ _ _ names _ _ => 1 + List.length names
  | _ => 1
  end.
Definition lsize (l : list stmt) : nat := fold_right (fun s a => ssize s + a) 0 l.

Fixpoint csize (c : cstmt) : nat :=
  match c with
  | CSimple l _ => 1 + lsize l
  | CDef _ _ _ _ params _ _ body => 1 + fold_right (fun x a => size x + a) 0 params + csize_s body
  | CIf _ c body elifs els =>
    1 + size c + csize_s body +
    fold_right (fun '(_, c, b) a => 1 + size c + csize_s b + a) 0 elifs +
    match els with Some (_, b) => 1 + csize_s b | None => 0 end
  | CFor _ vars x body => 1 + size vars + size x + csize_s body
  | CWhile _ c body => 1 + size c + csize_s body
  end
with csize_s (s : csuite) : nat :=
  match s with
  | SInline l _ => 1 + lsize l
  | SBlock l => 1 + fold_right (fun c a => csize c + a) 0 l
  end.
