(* C14 -- tokens and syntax trees of the Starlark parser model.

   Tokens mirror syntax/scan.go `Token`; a token in the parser's input carries
   the position the scanner gave it (`ptok`).  The tree mirrors syntax/syntax.go
   with exactly the position fields the Go nodes have, plus one bit of concrete
   syntax the Go tree forgets (`tc`: an optional trailing comma was present), so
   that rendering a tree back to tokens is a function and `parse_sound` can be
   stated as an equality.  The projection to the Go tree drops `tc`. *)
From Coq Require Import ZArith List String Bool.
Import ListNotations.
Open Scope Z_scope.

Definition pos := (Z * Z)%type.            (* line, column (runes), 1-based *)
Definition nopos : pos := (0, 0).

Inductive tok :=
| EOF | NEWLINE | INDENT | OUTDENT
| IDENT (name : string)
| INT (z : Z)                  (* exact value *)
| FLOAT (bits : Z)             (* IEEE-754 binary64 bit pattern *)
| STRING (b : list Z)          (* decoded bytes *)
| BYTES (b : list Z)
| PLUS | MINUS | STAR | SLASH | SLASHSLASH | PERCENT | AMP | PIPE | CIRCUMFLEX
| LTLT | GTGT | TILDE | DOT | COMMA | EQ | SEMI | COLON
| LPAREN | RPAREN | LBRACK | RBRACK | LBRACE | RBRACE
| LT | GT | GE | LE | EQL | NEQ
| PLUS_EQ | MINUS_EQ | STAR_EQ | SLASH_EQ | SLASHSLASH_EQ | PERCENT_EQ
| AMP_EQ | PIPE_EQ | CIRCUMFLEX_EQ | LTLT_EQ | GTGT_EQ | STARSTAR
| AND | BREAK | CONTINUE | DEF | ELIF | ELSE | FOR | IF | IN | LAMBDA | LOAD
| NOT | NOT_IN | OR | PASS | RETURN | WHILE
| RESERVED (name : string).    (* as async await class del except ... yield *)

Definition ptok := (tok * pos)%type.

Definition tok_eq_dec : forall a b : tok, {a = b} + {a <> b}.
Proof.
  decide equality; try apply string_dec; try apply Z.eq_dec;
    apply (list_eq_dec Z.eq_dec).
Defined.
Definition tok_eqb (a b : tok) : bool := if tok_eq_dec a b then true else false.

Lemma tok_eqb_eq a b : tok_eqb a b = true <-> a = b.
Proof. unfold tok_eqb. destruct (tok_eq_dec a b); split; congruence. Qed.
Lemma tok_eqb_refl a : tok_eqb a a = true.
Proof. apply tok_eqb_eq. reflexivity. Qed.

(* the lookahead token: the scanner returns EOF for ever at the end *)
Definition peek (ts : list ptok) : tok :=
  match ts with [] => EOF | (t, _) :: _ => t end.
Definition peekpos (ts : list ptok) : pos :=
  match ts with [] => nopos | (_, p) :: _ => p end.

(* syntax/parse.go preclevels: precedence 0..9 of a binary operator token.
   NOT (level 2) is unary and is not in this table. *)
Definition prec_of (t : tok) : option nat :=
  match t with
  | OR => Some 0%nat
  | AND => Some 1%nat
  | EQL | NEQ | LT | GT | LE | GE | IN | NOT_IN => Some 3%nat
  | PIPE => Some 4%nat
  | CIRCUMFLEX => Some 5%nat
  | AMP => Some 6%nat
  | LTLT | GTGT => Some 7%nat
  | MINUS | PLUS => Some 8%nat
  | STAR | PERCENT | SLASH | SLASHSLASH => Some 9%nat
  | _ => None
  end.
Definition prec_not : nat := 2.
Definition prec_cmp : nat := 3.
Definition nlevels : nat := 10.

Definition is_augassign (t : tok) : bool :=
  match t with
  | EQ | PLUS_EQ | MINUS_EQ | STAR_EQ | SLASH_EQ | SLASHSLASH_EQ | PERCENT_EQ
  | AMP_EQ | PIPE_EQ | CIRCUMFLEX_EQ | LTLT_EQ | GTGT_EQ => true
  | _ => false
  end.

(* parse.go terminatesExprList *)
Definition terminates_expr_list (t : tok) : bool :=
  match t with
  | EOF | NEWLINE | EQ | RBRACE | RBRACK | RPAREN | SEMI => true
  | _ => false
  end.

Inductive lit :=
| LInt (z : Z) | LFloat (bits : Z) | LString (b : list Z) | LBytes (b : list Z).

(* Expressions.  ForClause/IfClause (Go: Node, not Expr) and DictEntry are
   constructors of the same type; the parser produces them only as comprehension
   clauses / dict entries. *)
Inductive expr :=
| Ident (p : pos) (name : string)
| Literal (p : pos) (l : lit)
| Paren (lp : pos) (x : expr) (rp : pos)
| Call (fn : expr) (lp : pos) (args : list expr) (tc : bool) (rp : pos)
| Dot (x : expr) (dot : pos) (namepos : pos) (name : string)
| Index (x : expr) (lb : pos) (y : expr) (rb : pos)
| Slice (x : expr) (lb : pos) (lo hi step : option expr) (colon2 : bool) (rb : pos)
| ListE (lb : pos) (l : list expr) (tc : bool) (rb : pos)
| DictE (lb : pos) (l : list expr) (tc : bool) (rb : pos)
| DictEntry (k : expr) (colon : pos) (v : expr)
| Comp (curly : bool) (lb : pos) (body : expr) (clauses : list expr) (rb : pos)
| ForClause (p : pos) (vars : expr) (inpos : pos) (x : expr)
| IfClause (p : pos) (cond : expr)
| Lambda (p : pos) (params : list expr) (body : expr)
| Cond (t : expr) (ifp : pos) (c : expr) (elsep : pos) (f : expr)
| EmptyTuple (lp rp : pos)                       (* "()" : TupleExpr with Lparen *)
| Tuple (l : list expr) (tc : bool)              (* unparenthesised; (a, b) is Paren (Tuple ..) *)
| Unary (p : pos) (op : tok) (x : option expr)   (* None only for the bare `*` parameter *)
| Binary (x : expr) (oppos : pos) (op : tok) (y : expr).

(* `colon2` of Slice: the second ':' was written (x[a:b:] vs x[a:b]); like `tc`
   it is concrete syntax the Go tree forgets. *)

Inductive stmt :=
| AssignStmt (lhs : expr) (oppos : pos) (op : tok) (rhs : expr)
| BranchStmt (p : pos) (t : tok)                 (* break continue pass *)
| DefStmt (p : pos) (namepos : pos) (name : string) (lp : pos)
          (params : list expr) (tc : bool) (rp : pos) (body : list stmt)
| ExprStmt (x : expr)
| ForStmt (p : pos) (vars : expr) (x : expr) (body : list stmt)
| WhileStmt (p : pos) (cond : expr) (body : list stmt)
| IfStmt (p : pos) (cond : expr) (tbody : list stmt)
         (elifs : list (pos * expr * list stmt))   (* elif pos, cond, body *)
         (els : option (pos * list stmt))          (* else pos, body *)
         (* flattened: Go nests each elif as False = [IfStmt] with ElsePos = its If *)
| LoadStmt (p : pos) (lp : pos) (modpos : pos) (module : list Z)
           (names : list (option (pos * string) * pos * list Z))
           (* (alias ident if written `x="y"`, position of the string token, its value);
              Go: From = Ident{pos+1col, value}, To = alias or the same Ident *)
           (tc : bool) (rp : pos)
| ReturnStmt (p : pos) (result : option expr).

(* start of Span() for every node, as syntax.go computes it *)
Fixpoint start (e : expr) : pos :=
  match e with
  | Ident p _ | Literal p _ => p
  | Paren lp _ _ => lp
  | Call fn _ _ _ _ => start fn
  | Dot x _ _ _ => start x
  | Index x _ _ _ => start x
  | Slice x _ _ _ _ _ _ => start x
  | ListE lb _ _ _ | DictE lb _ _ _ => lb
  | DictEntry k _ _ => start k
  | Comp _ lb _ _ _ => lb
  | ForClause p _ _ _ | IfClause p _ => p
  | Lambda p _ _ => p
  | Cond t _ _ _ _ => start t
  | EmptyTuple lp _ => lp
  | Tuple l _ => match l with x :: _ => start x | [] => nopos end
  | Unary p _ _ => p
  | Binary x _ _ _ => start x
  end.

Definition stmt_start (s : stmt) : pos :=
  match s with
  | AssignStmt lhs _ _ _ => start lhs
  | BranchStmt p _ => p
  | DefStmt p _ _ _ _ _ _ _ => p
  | ExprStmt x => start x
  | ForStmt p _ _ _ | WhileStmt p _ _ => p
  | IfStmt p _ _ _ _ => p
  | LoadStmt p _ _ _ _ _ _ => p
  | ReturnStmt p _ => p
  end.

(* result of a parser function *)
Inductive res (A : Type) := Ok (a : A) | Err | OutOfFuel.
Arguments Ok {A} a. Arguments Err {A}. Arguments OutOfFuel {A}.
