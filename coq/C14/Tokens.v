(* C14 -- tokens and syntax trees of the Starlark parser model.

   Tokens mirror syntax/scan.go `Token`; a token in the parser's input carries
   the position the scanner gave it (`ptok`).  The tree mirrors syntax/syntax.go
   with exactly the position fields the Go nodes have, plus one bit of concrete
   syntax the Go tree forgets (`tc`: an optional trailing comma was present), so
   that rendering a tree back to tokens is a function and `parse_sound` can be
   stated as an equality.  The projection to the Go tree drops `tc`. *)
From Coq Require Import ZArith List String Bool.
Import ListNotations.
Open Scope Z_scope.

Definition pos := (Z * Z)%type.            (* line, column (runes), 1-based *)
Definition nopos : pos := (0, 0).

Inductive tok :=
| EOF | NEWLINE | INDENT | OUTDENT
| IDENT (name : string)
| INT (z : Z)                  (* exact value *)
| FLOAT (bits : Z)             (* IEEE-754 binary64 bit pattern *)
| STRING (b : list Z)          (* decoded bytes *)
| BYTES (b : list Z)
| PLUS | MINUS | STAR | SLASH | SLASHSLASH | PERCENT | AMP | PIPE | CIRCUMFLEX
| LTLT | GTGT | TILDE | DOT | COMMA | EQ | SEMI | COLON
| LPAREN | RPAREN | LBRACK | RBRACK | LBRACE | RBRACE
| LT | GT | GE | LE | EQL | NEQ
| PLUS_EQ | MINUS_EQ | STAR_EQ | SLASH_EQ | SLASHSLASH_EQ | PERCENT_EQ
| AMP_EQ | PIPE_EQ | CIRCUMFLEX_EQ | LTLT_EQ | GTGT_EQ | STARSTAR
| AND | BREAK | CONTINUE | DEF | ELIF | ELSE | FOR | IF | IN | LAMBDA | LOAD
| NOT | NOT_IN | OR | PASS | RETURN | WHILE
| RESERVED (name : string).    (* as async await class del except ... yield *)

Definition ptok := (tok * pos)%type.

Definition tok_tag (t : tok) : positive :=
  match t with
  | IDENT _ => 1 | INT _ => 2 | FLOAT _ => 3 | STRING _ => 4 | BYTES _ => 5 | RESERVED _ => 6
  | EOF => 7
  | NEWLINE => 8
  | INDENT => 9
  | OUTDENT => 10
  | PLUS => 11
  | MINUS => 12
  | STAR => 13
  | SLASH => 14
  | SLASHSLASH => 15
  | PERCENT => 16
  | AMP => 17
  | PIPE => 18
  | CIRCUMFLEX => 19
  | LTLT => 20
  | GTGT => 21
  | TILDE => 22
  | DOT => 23
  | COMMA => 24
  | EQ => 25
  | SEMI => 26
  | COLON => 27
  | LPAREN => 28
  | RPAREN => 29
  | LBRACK => 30
  | RBRACK => 31
  | LBRACE => 32
  | RBRACE => 33
  | LT => 34
  | GT => 35
  | GE => 36
  | LE => 37
  | EQL => 38
  | NEQ => 39
  | PLUS_EQ => 40
  | MINUS_EQ => 41
  | STAR_EQ => 42
  | SLASH_EQ => 43
  | SLASHSLASH_EQ => 44
  | PERCENT_EQ => 45
  | AMP_EQ => 46
  | PIPE_EQ => 47
  | CIRCUMFLEX_EQ => 48
  | LTLT_EQ => 49
  | GTGT_EQ => 50
  | STARSTAR => 51
  | AND => 52
  | BREAK => 53
  | CONTINUE => 54
  | DEF => 55
  | ELIF => 56
  | ELSE => 57
  | FOR => 58
  | IF => 59
  | IN => 60
  | LAMBDA => 61
  | LOAD => 62
  | NOT => 63
  | NOT_IN => 64
  | OR => 65
  | PASS => 66
  | RETURN => 67
  | WHILE => 68
  end%positive.

Definition bytes_eqb (x y : list Z) : bool := if list_eq_dec Z.eq_dec x y then true else false.

Definition payload_eqb (a b : tok) : bool :=
  match a with
  | IDENT x => match b with IDENT y => String.eqb x y | _ => false end
  | RESERVED x => match b with RESERVED y => String.eqb x y | _ => false end
  | INT x => match b with INT y => Z.eqb x y | _ => false end
  | FLOAT x => match b with FLOAT y => Z.eqb x y | _ => false end
  | STRING x => match b with STRING y => bytes_eqb x y | _ => false end
  | BYTES x => match b with BYTES y => bytes_eqb x y | _ => false end
  | _ => true
  end.

Definition tok_eqb (a b : tok) : bool := Pos.eqb (tok_tag a) (tok_tag b) && payload_eqb a b.

Lemma bytes_eqb_eq x y : bytes_eqb x y = true <-> x = y.
Proof. unfold bytes_eqb. destruct (list_eq_dec Z.eq_dec x y); split; congruence. Qed.

Lemma tok_eqb_refl a : tok_eqb a a = true.
Proof.
  unfold tok_eqb. rewrite Pos.eqb_refl.
  destruct a; cbn; try reflexivity; try apply String.eqb_refl; try apply Z.eqb_refl;
    apply bytes_eqb_eq; reflexivity.
Qed.

Lemma tok_eqb_eq a b : tok_eqb a b = true <-> a = b.
Proof.
  split; [|intros ->; apply tok_eqb_refl].
  unfold tok_eqb. intros H. apply andb_true_iff in H. destruct H as [Ht Hp].
  apply Pos.eqb_eq in Ht.
  destruct a; destruct b; cbn in Ht; try discriminate Ht; try reflexivity; cbn in Hp;
    try (apply String.eqb_eq in Hp; congruence);
    try (apply Z.eqb_eq in Hp; congruence);
    try (apply bytes_eqb_eq in Hp; congruence).
Qed.

(* the lookahead token: the scanner returns EOF for ever at the end *)
Definition peek (ts : list ptok) : tok :=
  match ts with [] => EOF | (t, _) :: _ => t end.
Definition peekpos (ts : list ptok) : pos :=
  match ts with [] => nopos | (_, p) :: _ => p end.

(* syntax/parse.go preclevels: precedence 0..9 of a binary operator token.
   NOT (level 2) is unary and is not in this table. *)
Definition prec_of (t : tok) : option nat :=
  match t with
  | OR => Some 0%nat
  | AND => Some 1%nat
  | EQL | NEQ | LT | GT | LE | GE | IN | NOT_IN => Some 3%nat
  | PIPE => Some 4%nat
  | CIRCUMFLEX => Some 5%nat
  | AMP => Some 6%nat
  | LTLT | GTGT => Some 7%nat
  | MINUS | PLUS => Some 8%nat
  | STAR | PERCENT | SLASH | SLASHSLASH => Some 9%nat
  | _ => None
  end.
Definition prec_not : nat := 2.
Definition prec_cmp : nat := 3.
Definition nlevels : nat := 10.

Definition is_augassign (t : tok) : bool :=
  match t with
  | EQ | PLUS_EQ | MINUS_EQ | STAR_EQ | SLASH_EQ | SLASHSLASH_EQ | PERCENT_EQ
  | AMP_EQ | PIPE_EQ | CIRCUMFLEX_EQ | LTLT_EQ | GTGT_EQ => true
  | _ => false
  end.

(* parse.go terminatesExprList *)
Definition terminates_expr_list (t : tok) : bool :=
  match t with
  | EOF | NEWLINE | EQ | RBRACE | RBRACK | RPAREN | SEMI => true
  | _ => false
  end.

Inductive lit :=
| LInt (z : Z) | LFloat (bits : Z) | LString (b : list Z) | LBytes (b : list Z).

(* Expressions.  ForClause/IfClause (Go: Node, not Expr) and DictEntry are
   constructors of the same type; the parser produces them only as comprehension
   clauses / dict entries. *)
Inductive expr :=
| Ident (p : pos) (name : string)
| Literal (p : pos) (l : lit)
| Paren (lp : pos) (x : expr) (rp : pos)
| Call (fn : expr) (lp : pos) (args : list expr) (tc : bool) (rp : pos)
| Dot (x : expr) (dot : pos) (namepos : pos) (name : string)
| Index (x : expr) (lb : pos) (y : expr) (rb : pos)
| Slice (x : expr) (lb : pos) (lo hi step : option expr) (colon2 : bool) (rb : pos)
| ListE (lb : pos) (l : list expr) (tc : bool) (rb : pos)
| DictE (lb : pos) (l : list expr) (tc : bool) (rb : pos)
| DictEntry (k : expr) (colon : pos) (v : expr)
| Comp (curly : bool) (lb : pos) (body : expr) (clauses : list expr) (rb : pos)
| ForClause (p : pos) (vars : expr) (inpos : pos) (x : expr)
| IfClause (p : pos) (cond : expr)
| Lambda (p : pos) (params : list expr) (body : expr)
| Cond (t : expr) (ifp : pos) (c : expr) (elsep : pos) (f : expr)
| EmptyTuple (lp rp : pos)                       (* "()" : TupleExpr with Lparen *)
| Tuple (l : list expr) (tc : bool)              (* unparenthesised; (a, b) is Paren (Tuple ..) *)
| Unary (p : pos) (op : tok) (x : option expr)   (* None only for the bare `*` parameter *)
| Binary (x : expr) (oppos : pos) (op : tok) (y : expr).

(* `colon2` of Slice: the second ':' was written (x[a:b:] vs x[a:b]); like `tc`
   it is concrete syntax the Go tree forgets. *)

Inductive stmt :=
| AssignStmt (lhs : expr) (oppos : pos) (op : tok) (rhs : expr)
| BranchStmt (p : pos) (t : tok)                 (* break continue pass *)
| DefStmt (p : pos) (namepos : pos) (name : string) (lp : pos)
          (params : list expr) (tc : bool) (rp : pos) (body : list stmt)
| ExprStmt (x : expr)
| ForStmt (p : pos) (vars : expr) (x : expr) (body : list stmt)
| WhileStmt (p : pos) (cond : expr) (body : list stmt)
| IfStmt (p : pos) (cond : expr) (tbody : list stmt)
         (elifs : list (pos * expr * list stmt))   (* elif pos, cond, body *)
         (els : option (pos * list stmt))          (* else pos, body *)
         (* flattened: Go nests each elif as False = [IfStmt] with ElsePos = its If *)
| LoadStmt (p : pos) (lp : pos) (modpos : pos) (module : list Z)
           (names : list (option (pos * string) * pos * list Z))
           (* (alias ident if written `x="y"`, position of the string token, its value);
              Go: From = Ident{pos+1col, value}, To = alias or the same Ident *)
           (tc : bool) (rp : pos)
| ReturnStmt (p : pos) (result : option expr).

(* start of Span() for every node, as syntax.go computes it *)
Fixpoint start (e : expr) : pos :=
  match e with
  | Ident p _ | Literal p _ => p
  | Paren lp _ _ => lp
  | Call fn _ _ _ _ => start fn
  | Dot x _ _ _ => start x
  | Index x _ _ _ => start x
  | Slice x _ _ _ _ _ _ => start x
  | ListE lb _ _ _ | DictE lb _ _ _ => lb
  | DictEntry k _ _ => start k
  | Comp _ lb _ _ _ => lb
  | ForClause p _ _ _ | IfClause p _ => p
  | Lambda p _ _ => p
  | Cond t _ _ _ _ => start t
  | EmptyTuple lp _ => lp
  | Tuple l _ => match l with x :: _ => start x | [] => nopos end
  | Unary p _ _ => p
  | Binary x _ _ _ => start x
  end.

Definition stmt_start (s : stmt) : pos :=
  match s with
  | AssignStmt lhs _ _ _ => start lhs
  | BranchStmt p _ => p
  | DefStmt p _ _ _ _ _ _ _ => p
  | ExprStmt x => start x
  | ForStmt p _ _ _ | WhileStmt p _ _ => p
  | IfStmt p _ _ _ _ => p
  | LoadStmt p _ _ _ _ _ _ => p
  | ReturnStmt p _ => p
  end.

(* result of a parser function *)
Inductive res (A : Type) := Ok (a : A) | Err | OutOfFuel.
Arguments Ok {A} a. Arguments Err {A}. Arguments OutOfFuel {A}.
