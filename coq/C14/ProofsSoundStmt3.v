(* C14 -- rendering of statements is injective on well-formed concrete
   statement trees (two trees never share a text), by determinism of the parser
   on renderings (parse_print_stmt) for the Go-visible part of the tree and by
   direct comparison of the token lists for the concrete-syntax bits (optional
   trailing `;`, inline or indented suite). *)
From Coq Require Import ZArith List String Bool Arith Lia.
From SV Require Import C14.Tokens C14.Parse C14.Print C14.PrintStmt C14.ProofsBase C14.ProofsExpr C14.ProofsLists
  C14.ProofsStmt C14.ProofsStmt2 C14.ProofsSoundStmt.
Import ListNotations.
Open Scope nat_scope.

Definition elifs_okc (l : list (pos * expr * csuite)) : bool :=
  forallb (fun '(_, c, b) => test_ok' c && csuite_ok b) l.
Definition else_okc (o : option (pos * csuite)) : bool :=
  match o with Some (_, b) => csuite_ok b | None => true end.

Definition InjC (K : nat) : Prop := forall c1 c2 r1 r2,
  csize c1 <= K -> cstmt_ok c1 = true -> cstmt_ok c2 = true ->
  not_else (peek r1) = true -> not_else (peek r2) = true ->
  tokens_c c1 ++ r1 = tokens_c c2 ++ r2 -> c1 = c2 /\ r1 = r2.
Definition InjS (K : nat) : Prop := forall s1 s2 r1 r2,
  csize_s s1 <= K -> csuite_ok s1 = true -> csuite_ok s2 = true ->
  tokens_s s1 ++ r1 = tokens_s s2 ++ r2 -> s1 = s2 /\ r1 = r2.

(* the parser is a function: equal texts give equal Go trees and equal remainders *)
Lemma parse_det_c c1 c2 r1 r2 :
  cstmt_ok c1 = true -> cstmt_ok c2 = true -> not_else (peek r1) = true -> not_else (peek r2) = true ->
  tokens_c c1 ++ r1 = tokens_c c2 ++ r2 ->
  flatten c1 = flatten c2 /\ r1 = r2 /\ tokens_c c1 = tokens_c c2.
Proof.
  intros H1 H2 N1 N2 Ht.
  destruct (stmt_all (csize c1)) as [P1 _]. destruct (stmt_all (csize c2)) as [P2 _].
  pose proof (P1 c1 (le_n _) H1 r1 (40 * csize c1 + 40 * csize c2 + 10) N1 ltac:(lia)) as Q1.
  pose proof (P2 c2 (le_n _) H2 r2 (40 * csize c1 + 40 * csize c2 + 10) N2 ltac:(lia)) as Q2.
  rewrite Ht, Q2 in Q1. injection Q1 as Hf Hr. subst r2.
  split; [symmetry; exact Hf|]. split; [reflexivity|]. exact (app_inv_tail _ _ _ Ht).
Qed.

Lemma parse_det_s s1 s2 r1 r2 :
  csuite_ok s1 = true -> csuite_ok s2 = true ->
  tokens_s s1 ++ r1 = tokens_s s2 ++ r2 ->
  flatten_s s1 = flatten_s s2 /\ r1 = r2 /\ tokens_s s1 = tokens_s s2.
Proof.
  intros H1 H2 Ht.
  destruct (stmt_all (csize_s s1)) as [_ P1]. destruct (stmt_all (csize_s s2)) as [_ P2].
  pose proof (P1 s1 (le_n _) H1 r1 (40 * csize_s s1 + 40 * csize_s s2 + 10) ltac:(lia)) as Q1.
  pose proof (P2 s2 (le_n _) H2 r2 (40 * csize_s s1 + 40 * csize_s s2 + 10) ltac:(lia)) as Q2.
  rewrite Ht, Q2 in Q1. injection Q1 as Hf Hr. subst r2.
  split; [symmetry; exact Hf|]. split; [reflexivity|]. exact (app_inv_tail _ _ _ Ht).
Qed.

Lemma line_inj l sm sm' : line_tokens l sm = line_tokens l sm' -> sm = sm'.
Proof.
  unfold line_tokens. intros H. apply app_inv_head in H.
  destruct sm, sm'; try reflexivity; discriminate H.
Qed.

(* lists of statements up to a terminator that starts no statement *)
Lemma not_else_flat l od :
  forallb cstmt_ok l = true -> not_else (peek od) = true ->
  not_else (peek (flat_map tokens_c l ++ od)) = true.
Proof.
  destruct l as [|c l]; [intros _ H; exact H|]. cbn [forallb flat_map]. intros H _.
  apply andb_true_iff in H. destruct H as [Hc _]. rewrite <- app_assoc.
  apply stmt_head_not_else. apply tokens_c_head. exact Hc.
Qed.

Lemma inj_list K od : InjC K -> stmt_head (peek od) = false -> not_else (peek od) = true ->
  forall l l', csizes l <= K -> forallb cstmt_ok l = true -> forallb cstmt_ok l' = true ->
  flat_map tokens_c l ++ od = flat_map tokens_c l' ++ od -> l = l'.
Proof.
  intros IC Hod Hne. induction l as [|c l IH]; intros l' Hsz H1 H2 Ht.
  - destruct l' as [|c' l']; [reflexivity|]. exfalso.
    cbn [forallb] in H2. apply andb_true_iff in H2. destruct H2 as [Hc' _].
    cbn [flat_map app] in Ht. rewrite <- app_assoc in Ht.
    pose proof (tokens_c_head c' (flat_map tokens_c l' ++ od) Hc') as Hh. rewrite <- Ht, Hod in Hh. discriminate Hh.
  - destruct l' as [|c' l'].
    + exfalso. cbn [forallb] in H1. apply andb_true_iff in H1. destruct H1 as [Hc _].
      cbn [flat_map app] in Ht. rewrite <- app_assoc in Ht.
      pose proof (tokens_c_head c (flat_map tokens_c l ++ od) Hc) as Hh. rewrite Ht, Hod in Hh. discriminate Hh.
    + cbn [forallb] in H1, H2. apply andb_true_iff in H1. apply andb_true_iff in H2.
      destruct H1 as [Hc Hl]. destruct H2 as [Hc' Hl'].
      rewrite csizes_cons in Hsz. cbn [flat_map] in Ht. rewrite <- !app_assoc in Ht.
      destruct (IC c c' _ _ ltac:(lia) Hc Hc' (not_else_flat l od Hl Hne) (not_else_flat l' od Hl' Hne) Ht) as [-> Hr].
      f_equal. apply IH; [lia|assumption|assumption|exact Hr].
Qed.

Lemma inj_core_s K : InjC K -> forall s1 s2,
  csize_s s1 <= S K -> csuite_ok s1 = true -> csuite_ok s2 = true ->
  flatten_s s1 = flatten_s s2 -> tokens_s s1 = tokens_s s2 -> s1 = s2.
Proof.
  intros IC s1 s2 Hsz H1 H2 Hf Ht.
  destruct s1 as [l sm|l]; destruct s2 as [l' sm'|l']; cbn [csuite_ok flatten_s tokens_s csize_s] in *.
  - subst l'. apply line_inj in Ht. subst. reflexivity.
  - exfalso. pose proof (line_tokens_head l sm [] H1) as Hh. rewrite app_nil_r, Ht in Hh. discriminate Hh.
  - exfalso. pose proof (line_tokens_head l' sm' [] H2) as Hh. rewrite app_nil_r, <- Ht in Hh. discriminate Hh.
  - apply andb_true_iff in H1. apply andb_true_iff in H2. destruct H1 as [_ H1]. destruct H2 as [_ H2].
    injection Ht as Ht. f_equal.
    apply (inj_list K [(OUTDENT, nopos)] IC eq_refl eq_refl l l'); [fold (csizes l) in Hsz; lia|assumption|assumption|exact Ht].
Qed.

Lemma inj_elifs K : InjS K -> forall ce ce' co co',
  elifs_size ce + else_size co <= K ->
  elifs_okc ce = true -> elifs_okc ce' = true -> else_okc co = true -> else_okc co' = true ->
  flat_elifs ce = flat_elifs ce' -> flat_else co = flat_else co' ->
  flat_map elif_tokens ce ++ else_tokens co = flat_map elif_tokens ce' ++ else_tokens co' ->
  ce = ce' /\ co = co'.
Proof.
  intros IS. induction ce as [|[[q c] b] ce IH]; intros ce' co co' Hsz H1 H2 O1 O2 Hfe Hfo Ht;
    destruct ce' as [|[[q' c'] b'] ce']; cbn [flat_elifs map] in Hfe; try discriminate Hfe.
  - split; [reflexivity|].
    destruct co as [[p b]|]; destruct co' as [[p' b']|]; cbn [flat_else] in Hfo; try discriminate Hfo; [|reflexivity].
    injection Hfo as -> _. cbn [flat_map else_tokens app else_okc else_size] in *. injection Ht as Ht.
    destruct (IS b b' [] [] ltac:(lia) O1 O2) as [-> _]; [rewrite !app_nil_r; exact Ht|reflexivity].
  - injection Hfe as -> -> _ Hfe.
    unfold elifs_okc in H1, H2. cbn [forallb] in H1, H2. apply andb_true_iff in H1. apply andb_true_iff in H2.
    destruct H1 as [Hb1 H1]. destruct H2 as [Hb2 H2].
    apply andb_true_iff in Hb1. apply andb_true_iff in Hb2. destruct Hb1 as [_ Hb1]. destruct Hb2 as [_ Hb2].
    change (elifs_size ((q', c', b) :: ce)) with (1 + size c' + csize_s b + elifs_size ce) in Hsz.
    cbn [flat_map elif_tokens] in Ht. repeat (rewrite <- app_assoc in Ht; cbn [app] in Ht).
    injection Ht as Ht. apply app_inv_head in Ht. injection Ht as Ht.
    destruct (IS b b' _ _ ltac:(lia) Hb1 Hb2 Ht) as [-> Hr].
    destruct (IH ce' co co' ltac:(lia) H1 H2 O1 O2 Hfe Hfo Hr) as [-> ->]. split; reflexivity.
Qed.

Lemma suite_same K : InjS K -> forall b b', csize_s b <= K -> csuite_ok b = true -> csuite_ok b' = true ->
  tokens_s b = tokens_s b' -> b = b'.
Proof.
  intros IS b b' Hsz H1 H2 Ht. destruct (IS b b' [] [] Hsz H1 H2) as [-> _]; [rewrite !app_nil_r; exact Ht|reflexivity].
Qed.

Lemma inj_core_c K : InjS K -> forall c1 c2,
  csize c1 <= S K -> cstmt_ok c1 = true -> cstmt_ok c2 = true ->
  flatten c1 = flatten c2 -> tokens_c c1 = tokens_c c2 -> c1 = c2.
Proof.
  intros IS c1 c2 Hsz H1 H2 Hf Ht.
  destruct c1 as [l sm|p np name lp ps tc rp body|p c body elifs els|p vars x body|p c body];
  destruct c2 as [l' sm'|p' np' name' lp' ps' tc' rp' body'|p' c' body' elifs' els'|p' vars' x' body'|p' c' body'];
  cbn [flatten] in Hf; try discriminate Hf;
  try (exfalso; subst; cbn in H1; discriminate H1); try (exfalso; subst; cbn in H2; discriminate H2).
  - (* simple *) subst l'. cbn [tokens_c] in Ht. apply line_inj in Ht. subst. reflexivity.
  - (* def *) injection Hf as -> -> -> -> -> -> -> _.
    cbn [cstmt_ok csize tokens_c] in *.
    apply andb_true_iff in H1. apply andb_true_iff in H2. destruct H1 as [_ H1]. destruct H2 as [_ H2].
    injection Ht as Ht. apply app_inv_head in Ht. apply app_inv_head in Ht. injection Ht as Ht.
    rewrite (suite_same K IS body body'); [reflexivity|lia|assumption|assumption|exact Ht].
  - (* if *) injection Hf as -> -> _ Hfe Hfo.
    cbn [cstmt_ok csize tokens_c] in *.
    apply andb_true_iff in H1. apply andb_true_iff in H2. destruct H1 as [H1 O1]. destruct H2 as [H2 O2].
    apply andb_true_iff in H1. apply andb_true_iff in H2. destruct H1 as [H1 E1]. destruct H2 as [H2 E2].
    apply andb_true_iff in H1. apply andb_true_iff in H2. destruct H1 as [_ B1]. destruct H2 as [_ B2].
    rewrite elifs_size_eq in Hsz. fold (else_size els) in Hsz.
    injection Ht as Ht. apply app_inv_head in Ht. injection Ht as Ht.
    destruct (IS body body' _ _ ltac:(lia) B1 B2 Ht) as [-> Hr].
    destruct (inj_elifs K IS elifs elifs' els els' ltac:(lia) E1 E2 O1 O2 Hfe Hfo Hr) as [-> ->]. reflexivity.
  - (* for *) injection Hf as -> -> -> _.
    cbn [cstmt_ok csize tokens_c] in *.
    apply andb_true_iff in H1. apply andb_true_iff in H2. destruct H1 as [_ H1]. destruct H2 as [_ H2].
    injection Ht as Ht. apply app_inv_head in Ht. injection Ht as Ht. apply app_inv_head in Ht. injection Ht as Ht.
    rewrite (suite_same K IS body body'); [reflexivity|lia|assumption|assumption|exact Ht].
  - (* while *) injection Hf as -> -> _.
    cbn [cstmt_ok csize tokens_c] in *.
    apply andb_true_iff in H1. apply andb_true_iff in H2. destruct H1 as [_ H1]. destruct H2 as [_ H2].
    injection Ht as Ht. apply app_inv_head in Ht. injection Ht as Ht.
    rewrite (suite_same K IS body body'); [reflexivity|lia|assumption|assumption|exact Ht].
Qed.

Lemma inj_all : forall K, InjC K /\ InjS K.
Proof.
  induction K as [|K [IC IS]].
  - split.
    + intros c1 c2 r1 r2 Hsz. pose proof (csize_pos c1). lia.
    + intros s1 s2 r1 r2 Hsz. destruct s1; cbn [csize_s] in Hsz; lia.
  - split.
    + intros c1 c2 r1 r2 Hsz H1 H2 N1 N2 Ht.
      destruct (parse_det_c c1 c2 r1 r2 H1 H2 N1 N2 Ht) as (Hf & Hr & Htt).
      split; [|exact Hr]. exact (inj_core_c K IS c1 c2 Hsz H1 H2 Hf Htt).
    + intros s1 s2 r1 r2 Hsz H1 H2 Ht.
      destruct (parse_det_s s1 s2 r1 r2 H1 H2 Ht) as (Hf & Hr & Htt).
      split; [|exact Hr]. exact (inj_core_s K IC s1 s2 Hsz H1 H2 Hf Htt).
Qed.

(* ---- exported ---- *)
Lemma print_stmt_injective_lemma : forall c1 c2 : cstmt,
  cstmt_ok c1 = true -> cstmt_ok c2 = true -> tokens_c c1 = tokens_c c2 -> c1 = c2.
Proof.
  intros c1 c2 H1 H2 Ht. destruct (inj_all (csize c1)) as [IC _].
  destruct (IC c1 c2 [] [] (le_n _) H1 H2 eq_refl eq_refl) as [-> _]; [rewrite !app_nil_r; exact Ht|reflexivity].
Qed.

Lemma print_suite_injective_lemma : forall s1 s2 : csuite,
  csuite_ok s1 = true -> csuite_ok s2 = true -> tokens_s s1 = tokens_s s2 -> s1 = s2.
Proof.
  intros s1 s2 H1 H2 Ht. destruct (inj_all (csize_s s1)) as [_ IS].
  exact (suite_same _ IS s1 s2 (le_n _) H1 H2 Ht).
Qed.

Lemma print_file_injective_lemma : forall f1 f2 : list cstmt,
  forallb cstmt_ok f1 = true -> forallb cstmt_ok f2 = true ->
  flat_map tokens_c f1 = flat_map tokens_c f2 -> f1 = f2.
Proof.
  intros f1 f2 H1 H2 Ht. destruct (inj_all (csizes f1)) as [IC _].
  apply (inj_list (csizes f1) [] IC eq_refl eq_refl f1 f2 (le_n _) H1 H2). rewrite !app_nil_r. exact Ht.
Qed.
