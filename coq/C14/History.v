(* C14 -- documentation of behaviour before the repair commit in /repo
   ("fix: syntax: accept octal and binary int literals above 2^63-1").
   `scan_number false` is the frozen model of the old scanNumber: 0o / 0b
   literals were decoded with strconv.ParseInt(.., 64) only and rejected with
   "invalid int literal" when the value did not fit int64, although the
   specification allows integers of any size (and 0x / decimal literals of the
   same value were accepted). *)
From Coq Require Import ZArith List Bool.
From SV Require Import C14.Scan C14.ProofsScan.
Import ListNotations.
Open Scope Z_scope.

(* 0b followed by 70 ones *)
Theorem int_literal_exact_refuted_before_fix :
  exists pre ds rest,
    In pre (prefixes Bin) /\ wf_digits Bin ds /\ stops Bin rest /\
    scan_number false (pre ++ ds ++ rest) <> (NInt (positional (base Bin) (map digitval ds)), rest).
Proof.
  exists [48; 98], (repeat 49 70), [].
  split; [left; reflexivity|]. split.
  - split; [discriminate|]. split; [vm_compute; reflexivity|discriminate].
  - split; [split; [reflexivity|discriminate]|]. vm_compute. discriminate.
Qed.

(* the same for octal: 0o followed by 22 sevens (66 bits) *)
Theorem int_literal_exact_refuted_before_fix_octal :
  fst (scan_number false ([48; 111] ++ repeat 55 22)) = NErr /\
  fst (scan_number true ([48; 111] ++ repeat 55 22)) = NInt (2 ^ 66 - 1).
Proof. vm_compute. split; reflexivity. Qed.
