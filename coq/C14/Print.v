(* C14 -- rendering trees back to token lists, and the predicate "well
   parenthesised".  This is the specification side: it is written from
   syntax/grammar.txt and the operator table of doc/spec.md, not from parse.go.
   No proofs here. *)
From Coq Require Import ZArith List String Bool Arith.
From SV Require Import C14.Tokens.
Import ListNotations.
Open Scope nat_scope.

Definition comma : ptok := (COMMA, nopos).
Definition colon : ptok := (COLON, nopos).
Definition trail (tc : bool) : list ptok := if tc then [comma] else [].

Definition lit_tok (l : lit) : tok :=
  match l with
  | LInt z => INT z | LFloat b => FLOAT b | LString b => STRING b | LBytes b => BYTES b
  end.

(* operator token(s): `not in` is two tokens; the tree's OpPos is that of `in` *)
Definition op_tokens (op : tok) (p : pos) : list ptok :=
  match op with
  | NOT_IN => [(NOT, nopos); (IN, p)]
  | _ => [(op, p)]
  end.

Fixpoint tokens (e : expr) : list ptok :=
  let seplist (l : list expr) : list ptok :=
    match l with
    | [] => []
    | x :: r => tokens x ++ flat_map (fun y => comma :: tokens y) r
    end in
  let opt (o : option expr) : list ptok :=
    match o with Some x => tokens x | None => [] end in
  match e with
  | Ident p s => [(IDENT s, p)]
  | Literal p l => [(lit_tok l, p)]
  | Paren lp x rp => (LPAREN, lp) :: tokens x ++ [(RPAREN, rp)]
  | Call fn lp args tc rp =>
    tokens fn ++ (LPAREN, lp) :: seplist args ++ trail tc ++ [(RPAREN, rp)]
  | Dot x dp np name => tokens x ++ [(DOT, dp); (IDENT name, np)]
  | Index x lb y rb => tokens x ++ (LBRACK, lb) :: tokens y ++ [(RBRACK, rb)]
  | Slice x lb lo hi step c2 rb =>
    tokens x ++ (LBRACK, lb) :: opt lo ++ colon :: opt hi ++
      (if c2 then colon :: opt step else []) ++ [(RBRACK, rb)]
  | ListE lb l tc rb => (LBRACK, lb) :: seplist l ++ trail tc ++ [(RBRACK, rb)]
  | DictE lb l tc rb => (LBRACE, lb) :: seplist l ++ trail tc ++ [(RBRACE, rb)]
  | DictEntry k cp v => tokens k ++ (COLON, cp) :: tokens v
  | Comp curly lb body cl rb =>
    ((if curly then LBRACE else LBRACK), lb) :: tokens body ++ flat_map tokens cl ++
      [((if curly then RBRACE else RBRACK), rb)]
  | ForClause p vars ip x => (FOR, p) :: tokens vars ++ (IN, ip) :: tokens x
  | IfClause p c => (IF, p) :: tokens c
  | Lambda p ps b => (LAMBDA, p) :: seplist ps ++ colon :: tokens b
  | Cond t ifp c ep f => tokens t ++ (IF, ifp) :: tokens c ++ (ELSE, ep) :: tokens f
  | EmptyTuple lp rp => [(LPAREN, lp); (RPAREN, rp)]
  | Tuple l tc => seplist l ++ trail tc
  | Unary p op (Some x) => (op, p) :: tokens x
  | Unary p op None => [(op, p)]
  | Binary x p op y => tokens x ++ op_tokens op p ++ tokens y
  end.

Definition seplist (l : list expr) : list ptok :=
  match l with
  | [] => []
  | x :: r => tokens x ++ flat_map (fun y => comma :: tokens y) r
  end.

(* ---- binding levels (doc/spec.md operator table; grammar.txt) ----
   0 = Expression (unparenthesised tuple), 1 = Test (conditional, lambda),
   2 + p = binary operators of precedence p (or=0 .. mul=9; `not` = 2),
   12 = unary - + ~, 13 = primary expressions (may take suffixes). *)
Definition L_EXPR := 0.
Definition L_TEST := 1.
Definition L_BIN (p : nat) := 2 + p.
Definition L_UNARY := 12.
Definition L_PRIM := 13.

Definition lvl (e : expr) : nat :=
  match e with
  | Tuple _ _ => L_EXPR
  | Cond _ _ _ _ _ | Lambda _ _ _ => L_TEST
  | Binary _ _ op _ => match prec_of op with Some p => L_BIN p | None => 0 end
  | Unary _ NOT _ => L_BIN prec_not
  | Unary _ _ _ => L_UNARY
  | _ => L_PRIM
  end.

(* is the node an expression at all (not a dict entry, clause, *x, k=v) *)
Definition isx (e : expr) : bool :=
  match e with
  | DictEntry _ _ _ | ForClause _ _ _ _ | IfClause _ _ => false
  | Unary _ op x =>
    match op, x with
    | NOT, Some _ | MINUS, Some _ | PLUS, Some _ | TILDE, Some _ => true
    | _, _ => false
    end
  | Binary _ _ op _ => match prec_of op with Some _ => true | None => false end
  | _ => true
  end.

Definition at_level (k : nat) (e : expr) : bool := isx e && (k <=? lvl e).

(* a tuple that may stand without parentheses: >= 2 elements, no trailing comma *)
Definition noparen_ok (e : expr) : bool :=
  match e with
  | Tuple l tc => negb tc && (2 <=? List.length l)
  | _ => true
  end.

(* operand of a comprehension `if` / body of a lambda inside one: no
   unparenthesised conditional at its right edge *)
Fixpoint nocond (e : expr) : bool :=
  match e with
  | Lambda _ _ b => nocond b
  | _ => at_level (L_BIN 0) e
  end.

Definition is_ident (e : expr) : bool :=
  match e with Ident _ _ => true | _ => false end.

Definition nonempty {A} (l : list A) : bool := match l with [] => false | _ => true end.

(* well-parenthesised: every child binds at least as tightly as its position
   requires, or is wrapped in Paren; redundant Paren nodes are allowed anywhere *)
Fixpoint wp (e : expr) : bool :=
  let test (x : expr) : bool := wp x && at_level L_TEST x in
  let param (a : expr) : bool :=
    match a with
    | Ident _ _ => true
    | Binary (Ident _ _) _ EQ d => wp d && at_level L_TEST d
    | Unary _ STAR None => true
    | Unary _ STAR (Some (Ident _ _)) => true
    | Unary _ STARSTAR (Some (Ident _ _)) => true
    | _ => false
    end in
  let arg (a : expr) : bool :=
    match a with
    | Unary _ STAR (Some x) => wp x && at_level L_TEST x
    | Unary _ STARSTAR (Some x) => wp x && at_level L_TEST x
    | Binary (Ident _ _) _ EQ y => wp y && at_level L_TEST y
    | _ => wp a && at_level L_TEST a
    end in
  let entry (a : expr) : bool :=
    match a with
    | DictEntry k _ v => wp k && at_level L_TEST k && wp v && at_level L_TEST v
    | _ => false
    end in
  let loopvars (v : expr) : bool :=
    match v with
    | Tuple l tc => negb tc && (2 <=? List.length l) && forallb (fun y => wp y && at_level L_UNARY y) l
    | _ => wp v && at_level L_UNARY v
    end in
  let clause (c : expr) : bool :=
    match c with
    | ForClause _ vars _ x => loopvars vars && wp x && at_level (L_BIN 0) x
    | IfClause _ c => wp c && nocond c
    | _ => false
    end in
  let optx (k : nat) (o : option expr) : bool :=
    match o with Some x => wp x && at_level k x | None => true end in
  match e with
  | Ident _ _ | Literal _ _ | EmptyTuple _ _ => true
  | Paren _ x _ => wp x && at_level L_EXPR x
  | Call fn _ args tc _ =>
    wp fn && at_level L_PRIM fn && forallb arg args && (negb tc || nonempty args)
  | Dot x _ _ _ => wp x && at_level L_PRIM x
  | Index x _ y _ => wp x && at_level L_PRIM x && wp y && at_level L_EXPR y && noparen_ok y
  | Slice x _ lo hi step c2 _ =>
    wp x && at_level L_PRIM x &&
    optx L_EXPR lo && match lo with Some y => noparen_ok y | None => true end &&
    optx L_TEST hi && optx L_TEST step &&
    match step with Some _ => c2 | None => true end
  | ListE _ l tc _ => forallb test l && (negb tc || nonempty l)
  | DictE _ l tc _ => forallb entry l && (negb tc || nonempty l)
  | DictEntry _ _ _ => false
  | Comp curly _ body cl _ =>
    (if curly then entry body else test body) &&
    match cl with ForClause _ _ _ _ :: _ => true | _ => false end &&
    forallb clause cl
  | ForClause _ _ _ _ | IfClause _ _ => false
  | Lambda _ ps b => forallb param ps && wp b && at_level L_TEST b
  | Cond t _ c _ f =>
    wp t && at_level (L_BIN 0) t && wp c && at_level (L_BIN 0) c && wp f && at_level L_TEST f
  | Tuple l tc => forallb test l && ((2 <=? List.length l) || (tc && (1 <=? List.length l)))
  | Unary _ op (Some x) =>
    match op with
    | NOT => wp x && at_level (L_BIN prec_not) x
    | MINUS | PLUS | TILDE => wp x && at_level L_UNARY x
    | _ => false
    end
  | Unary _ _ None => false
  | Binary x _ op y =>
    match prec_of op with
    | Some p =>
      wp x && wp y &&
      at_level (if p =? prec_cmp then L_BIN (S p) else L_BIN p) x &&   (* comparisons do not associate *)
      at_level (L_BIN (S p)) y                                          (* the others associate to the left *)
    | None => false
    end
  end.

(* a well-formed expression as ParseExpr / statements accept it *)
Definition wf_expr (e : expr) : bool := wp e && isx e && noparen_ok e.

(* number of nodes (fuel measure) *)
Fixpoint size (e : expr) : nat :=
  let sizes (l : list expr) : nat := fold_right (fun x a => size x + a) 0 l in
  let opt (o : option expr) : nat := match o with Some x => size x | None => 0 end in
  match e with
  | Ident _ _ | Literal _ _ | EmptyTuple _ _ => 1
  | Paren _ x _ => S (size x)
  | Call fn _ args _ _ => S (size fn + sizes args)
  | Dot x _ _ _ => S (size x)
  | Index x _ y _ => S (size x + size y)
  | Slice x _ lo hi step _ _ => S (size x + opt lo + opt hi + opt step)
  | ListE _ l _ _ | DictE _ l _ _ | Tuple l _ => S (sizes l)
  | DictEntry k _ v => S (size k + size v)
  | Comp _ _ body cl _ => S (size body + sizes cl)
  | ForClause _ vars _ x => S (size vars + size x)
  | IfClause _ c => S (size c)
  | Lambda _ ps b => S (sizes ps + size b)
  | Cond t _ c _ f => S (size t + size c + size f)
  | Unary _ _ (Some x) => S (size x)
  | Unary _ _ None => 1
  | Binary x _ _ y => S (size x + size y)
  end.

(* forget the concrete-syntax bits the Go tree does not have *)
Fixpoint erase (e : expr) : expr :=
  let opt (o : option expr) := match o with Some x => Some (erase x) | None => None end in
  match e with
  | Ident _ _ | Literal _ _ | EmptyTuple _ _ => e
  | Paren lp x rp => Paren lp (erase x) rp
  | Call fn lp args _ rp => Call (erase fn) lp (map erase args) false rp
  | Dot x dp np n => Dot (erase x) dp np n
  | Index x lb y rb => Index (erase x) lb (erase y) rb
  | Slice x lb lo hi step _ rb => Slice (erase x) lb (opt lo) (opt hi) (opt step) false rb
  | ListE lb l _ rb => ListE lb (map erase l) false rb
  | DictE lb l _ rb => DictE lb (map erase l) false rb
  | DictEntry k cp v => DictEntry (erase k) cp (erase v)
  | Comp c lb body cl rb => Comp c lb (erase body) (map erase cl) rb
  | ForClause p vars ip x => ForClause p (erase vars) ip (erase x)
  | IfClause p c => IfClause p (erase c)
  | Lambda p ps b => Lambda p (map erase ps) (erase b)
  | Cond t ifp c ep f => Cond (erase t) ifp (erase c) ep (erase f)
  | Tuple l _ => Tuple (map erase l) false
  | Unary p op o => Unary p op (opt o)
  | Binary x p op y => Binary (erase x) p op (erase y)
  end.

Fixpoint erase_stmt (s : stmt) : stmt :=
  let eo (o : option expr) := match o with Some x => Some (erase x) | None => None end in
  match s with
  | AssignStmt l p op r => AssignStmt (erase l) p op (erase r)
  | BranchStmt p t => s
  | DefStmt p np n lp ps _ rp body => DefStmt p np n lp (map erase ps) false rp (map erase_stmt body)
  | ExprStmt x => ExprStmt (erase x)
  | ForStmt p v x body => ForStmt p (erase v) (erase x) (map erase_stmt body)
  | WhileStmt p c body => WhileStmt p (erase c) (map erase_stmt body)
  | IfStmt p c t el els =>
    IfStmt p (erase c) (map erase_stmt t)
      (map (fun '(q, c, b) => (q, erase c, map erase_stmt b)) el)
      (match els with Some (q, b) => Some (q, map erase_stmt b) | None => None end)
  | LoadStmt p lp mp m names _ rp => LoadStmt p lp mp m names false rp
  | ReturnStmt p o => ReturnStmt p (eo o)
  end.

(* decidable equality of trees, for the correspondence check *)
Definition pos_eqb (a b : pos) : bool := (Z.eqb (fst a) (fst b) && Z.eqb (snd a) (snd b))%bool.
Definition lit_eqb (a b : lit) : bool :=
  match a, b with
  | LInt x, LInt y | LFloat x, LFloat y => Z.eqb x y
  | LString x, LString y | LBytes x, LBytes y => bytes_eqb x y
  | _, _ => false
  end.

Fixpoint expr_eqb (a b : expr) : bool :=
  let fix lst (l m : list expr) : bool :=
    match l, m with
    | [], [] => true
    | x :: l', y :: m' => expr_eqb x y && lst l' m'
    | _, _ => false
    end in
  let opt (o q : option expr) : bool :=
    match o, q with
    | None, None => true
    | Some x, Some y => expr_eqb x y
    | _, _ => false
    end in
  match a, b with
  | Ident p s, Ident p' s' => pos_eqb p p' && String.eqb s s'
  | Literal p l, Literal p' l' => pos_eqb p p' && lit_eqb l l'
  | Paren lp x rp, Paren lp' x' rp' => pos_eqb lp lp' && expr_eqb x x' && pos_eqb rp rp'
  | Call f lp l tc rp, Call f' lp' l' tc' rp' =>
    expr_eqb f f' && pos_eqb lp lp' && lst l l' && Bool.eqb tc tc' && pos_eqb rp rp'
  | Dot x dp np n, Dot x' dp' np' n' => expr_eqb x x' && pos_eqb dp dp' && pos_eqb np np' && String.eqb n n'
  | Index x lb y rb, Index x' lb' y' rb' => expr_eqb x x' && pos_eqb lb lb' && expr_eqb y y' && pos_eqb rb rb'
  | Slice x lb lo hi st c rb, Slice x' lb' lo' hi' st' c' rb' =>
    expr_eqb x x' && pos_eqb lb lb' && opt lo lo' && opt hi hi' && opt st st' && Bool.eqb c c' && pos_eqb rb rb'
  | ListE lb l tc rb, ListE lb' l' tc' rb' => pos_eqb lb lb' && lst l l' && Bool.eqb tc tc' && pos_eqb rb rb'
  | DictE lb l tc rb, DictE lb' l' tc' rb' => pos_eqb lb lb' && lst l l' && Bool.eqb tc tc' && pos_eqb rb rb'
  | DictEntry k cp v, DictEntry k' cp' v' => expr_eqb k k' && pos_eqb cp cp' && expr_eqb v v'
  | Comp c lb x l rb, Comp c' lb' x' l' rb' =>
    Bool.eqb c c' && pos_eqb lb lb' && expr_eqb x x' && lst l l' && pos_eqb rb rb'
  | ForClause p v ip x, ForClause p' v' ip' x' => pos_eqb p p' && expr_eqb v v' && pos_eqb ip ip' && expr_eqb x x'
  | IfClause p c, IfClause p' c' => pos_eqb p p' && expr_eqb c c'
  | Lambda p l x, Lambda p' l' x' => pos_eqb p p' && lst l l' && expr_eqb x x'
  | Cond t ip c ep f, Cond t' ip' c' ep' f' =>
    expr_eqb t t' && pos_eqb ip ip' && expr_eqb c c' && pos_eqb ep ep' && expr_eqb f f'
  | EmptyTuple lp rp, EmptyTuple lp' rp' => pos_eqb lp lp' && pos_eqb rp rp'
  | Tuple l tc, Tuple l' tc' => lst l l' && Bool.eqb tc tc'
  | Unary p op o, Unary p' op' o' => pos_eqb p p' && tok_eqb op op' && opt o o'
  | Binary x p op y, Binary x' p' op' y' => expr_eqb x x' && pos_eqb p p' && tok_eqb op op' && expr_eqb y y'
  | _, _ => false
  end.

Definition list_eqb {A} (f : A -> A -> bool) : list A -> list A -> bool :=
  fix go l m := match l, m with
                | [], [] => true
                | x :: l', y :: m' => f x y && go l' m'
                | _, _ => false
                end.

Definition opt_eqb {A} (f : A -> A -> bool) (o q : option A) : bool :=
  match o, q with None, None => true | Some x, Some y => f x y | _, _ => false end.


Fixpoint stmt_eqb (a b : stmt) : bool :=
  let fix lst (l m : list stmt) : bool :=
    match l, m with
    | [], [] => true
    | x :: l', y :: m' => stmt_eqb x y && lst l' m'
    | _, _ => false
    end in
  match a, b with
  | AssignStmt l p op r, AssignStmt l' p' op' r' => expr_eqb l l' && pos_eqb p p' && tok_eqb op op' && expr_eqb r r'
  | BranchStmt p t, BranchStmt p' t' => pos_eqb p p' && tok_eqb t t'
  | DefStmt p np n lp ps tc rp body, DefStmt p' np' n' lp' ps' tc' rp' body' =>
    pos_eqb p p' && pos_eqb np np' && String.eqb n n' && pos_eqb lp lp' &&
    list_eqb expr_eqb ps ps' && Bool.eqb tc tc' && pos_eqb rp rp' && lst body body'
  | ExprStmt x, ExprStmt x' => expr_eqb x x'
  | ForStmt p v x body, ForStmt p' v' x' body' => pos_eqb p p' && expr_eqb v v' && expr_eqb x x' && lst body body'
  | WhileStmt p c body, WhileStmt p' c' body' => pos_eqb p p' && expr_eqb c c' && lst body body'
  | IfStmt p c t el els, IfStmt p' c' t' el' els' =>
    pos_eqb p p' && expr_eqb c c' && lst t t' &&
    (fix go (l m : list (pos * expr * list stmt)) : bool :=
       match l, m with
       | [], [] => true
       | (q, c, b) :: l', (q', c', b') :: m' => pos_eqb q q' && expr_eqb c c' && lst b b' && go l' m'
       | _, _ => false
       end) el el' &&
    match els, els' with
    | None, None => true
    | Some (q, b), Some (q', b') => pos_eqb q q' && lst b b'
    | _, _ => false
    end
  | LoadStmt p lp mp m names tc rp, LoadStmt p' lp' mp' m' names' tc' rp' =>
    pos_eqb p p' && pos_eqb lp lp' && pos_eqb mp mp' && bytes_eqb m m' &&
    list_eqb (fun '(a, sp, s) '(a', sp', s') =>
                opt_eqb (fun '(q, n) '(q', n') => pos_eqb q q' && String.eqb n n') a a' &&
                pos_eqb sp sp' && bytes_eqb s s') names names' &&
    Bool.eqb tc tc' && pos_eqb rp rp'
  | ReturnStmt p o, ReturnStmt p' o' => pos_eqb p p' && opt_eqb expr_eqb o o'
  | _, _ => false
  end.
