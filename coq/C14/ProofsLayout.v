(* C14 -- the layout (indentation) algorithm of Scan.v part (b):
   block trees, their rendering to physical lines (with noise), the expected
   event stream, re-nesting; and the proofs: columns of extended white-space
   strings, the indentation stack never underflows, inconsistent dedents are
   rejected, and the round trip  forest -> lines -> events -> forest.

   The file has two parts: DEFINITIONS (no proofs) and PROOFS. *)
From Coq Require Import Lia Arith List Bool.
From SV Require Import C14.Scan.
Import ListNotations.
Local Open Scope nat_scope.

(* ================================================================== *)
(* DEFINITIONS                                                          *)
(* ================================================================== *)

(* ---- block trees --------------------------------------------------- *)

Inductive blk (A : Type) :=
| Simple (a : A)
| Compound (a : A) (ext : list bool) (body : list (blk A)).
Arguments Simple {A} a. Arguments Compound {A} a ext body.

(* the same without the layout choice: what re-nesting recovers *)
Inductive blk' (A : Type) :=
| Simple' (a : A)
| Compound' (a : A) (body : list (blk' A)).
Arguments Simple' {A} a. Arguments Compound' {A} a body.

Definition is_nil {X} (l : list X) : bool := match l with [] => true | _ => false end.

(* every ext is non-empty and every body is non-empty *)
Fixpoint wf_blk {A} (b : blk A) : bool :=
  match b with
  | Simple _ => true
  | Compound _ ext body => negb (is_nil ext) && negb (is_nil body) && forallb wf_blk body
  end.
Definition wf_forest {A} (f : list (blk A)) : bool := forallb wf_blk f.

Fixpoint erase {A} (b : blk A) : blk' A :=
  match b with
  | Simple a => Simple' a
  | Compound a _ body => Compound' a (map erase body)
  end.

(* ---- rendering ------------------------------------------------------ *)

(* a physical line that starts a logical line: not blank, outside brackets,
   not a backslash continuation *)
Definition plain {A} (l : pline A) : Prop :=
  l_blank l = false /\ l_depth l = 0 /\ l_cont l = false.

Fixpoint render {A} (ws : list bool) (b : blk A) : list (pline A) :=
  match b with
  | Simple a => [mkline ws false 0 false a]
  | Compound a ext body => mkline ws false 0 false a :: flat_map (render (ws ++ ext)) body
  end.
Definition render_forest {A} (ws : list bool) (f : list (blk A)) : list (pline A) :=
  flat_map (render ws) f.

(* ---- noise ---------------------------------------------------------- *)

(* The physical lines that may follow the first line of a logical line and
   still belong to it:
     - a line inside brackets (depth > 0), arbitrary white space;
     - a backslash continuation (l_cont = true), arbitrary white space, depth and
       blank flag (the scanner does not look at indentation there);
     - a blank/comment line inside brackets (depth > 0) -- it must be followed by
       a further line of the group, because a blank line does not change the
       bracket depth, so it cannot be the line before a depth-0 line. *)
Inductive cont_group {A} : list (pline A) -> Prop :=
| CG_nil : cont_group []
| CG_bracket ws d a g : cont_group g -> cont_group (mkline ws false (S d) false a :: g)
| CG_backslash ws b d a g : cont_group g -> cont_group (mkline ws b d true a :: g)
| CG_blank ws d a g : g <> [] -> cont_group g -> cont_group (mkline ws true (S d) false a :: g).

(* noisy clean ls: ls is clean with
   (i)  blank/comment lines with ARBITRARY white space inserted between logical
        lines, also before the first and after the last one (their depth is 0:
        l_depth is the bracket depth at the start of the line, which is 0
        between logical lines), and
   (ii) every logical line followed by an arbitrary continuation group. *)
Inductive noisy {A} : list (pline A) -> list (pline A) -> Prop :=
| N_nil : noisy [] []
| N_blank ws x c ls : noisy c ls -> noisy c (mkline ws true 0 false x :: ls)
| N_line l g c ls : cont_group g -> noisy c ls -> noisy (l :: c) (l :: g ++ ls).

(* ---- events --------------------------------------------------------- *)

Fixpoint events_blk {A} (b : blk A) : list (ev A) :=
  match b with
  | Simple a => [EvLine a; EvNewline]
  | Compound a _ body => EvLine a :: EvNewline :: EvIndent :: flat_map events_blk body ++ [EvOutdent]
  end.
Definition events {A} (f : list (blk A)) : list (ev A) := flat_map events_blk f.

(* With noise (ii) the payloads of the continuation lines of a logical line
   appear as extra EvLine events directly after the first one (before the
   NEWLINE).  squash merges every run of consecutive EvLine events into its
   first element; the noisy theorems say  squash (layout ls) = events f. *)
Fixpoint squash_from {A} (prev_line : bool) (evs : list (ev A)) : list (ev A) :=
  match evs with
  | [] => []
  | EvLine a :: r => if prev_line then squash_from true r else EvLine a :: squash_from true r
  | e :: r => e :: squash_from false r
  end.
Definition squash {A} (evs : list (ev A)) : list (ev A) := squash_from false evs.

(* the final NEWLINE, when it is the very last event, removed: what a file
   without a final newline character and without open blocks produces *)
Fixpoint drop_last_nl {A} (evs : list (ev A)) : list (ev A) :=
  match evs with
  | [] => []
  | e :: r => match e, r with
              | EvNewline, [] => []
              | _, _ => e :: drop_last_nl r
              end
  end.

(* ---- re-nesting ------------------------------------------------------ *)

(* parseSuite-like: statements until OUTDENT / end of input.
   LINE NEWLINE INDENT stmts OUTDENT is a compound statement, LINE NEWLINE a
   simple one.  Fuel exhaustion is None. *)
Fixpoint nest {A} (fuel : nat) (evs : list (ev A)) : option (list (blk' A) * list (ev A)) :=
  match fuel with
  | 0 => None
  | S n =>
    match evs with
    | EvLine a :: EvNewline :: r =>
      match r with
      | EvIndent :: r1 =>
        match nest n r1 with
        | Some (body, EvOutdent :: r2) =>
          match nest n r2 with
          | Some (sibs, r3) => Some (Compound' a body :: sibs, r3)
          | None => None
          end
        | _ => None
        end
      | _ =>
        match nest n r with
        | Some (sibs, r3) => Some (Simple' a :: sibs, r3)
        | None => None
        end
      end
    | _ => Some ([], evs)
    end
  end.

(* ---- the indentation stack ------------------------------------------ *)

(* strictly decreasing from top (head) to bottom, the bottom is 0 *)
Fixpoint stk_ok (stk : list nat) : Prop :=
  match stk with
  | [] => False
  | x :: r => match r with [] => x = 0 | y :: _ => y < x /\ stk_ok r end
  end.

(* the stack after a prefix of the file (None: the prefix is rejected) *)
Fixpoint stack_after {A} (stk : list nat) (pre : list (pline A)) : option (list nat) :=
  match pre with
  | [] => Some stk
  | l :: r =>
    if l_cont l || l_blank l || (0 <? l_depth l) then stack_after stk r
    else match line_start (A:=A) stk (indent_col (l_ws l)) with
         | LOk (_, s) => stack_after s r
         | _ => None
         end
  end.

Definition lres_map {X Y} (f : X -> Y) (r : lres X) : lres Y :=
  match r with LOk a => LOk (f a) | LErr => LErr | LPanic => LPanic end.

(* what may follow the rendering of a block at column c: the end of the file
   (with its final newline) or a logical line at a column <= c *)
Definition compat {A} (fn : bool) (c : nat) (rest : list (pline A)) : Prop :=
  match rest with
  | [] => fn = true
  | l :: _ => plain l /\ indent_col (l_ws l) <= c
  end.

Definition is_content {A} (l : pline A) : bool := l_cont l || negb (l_blank l).
Definition noise_blank {A} (l : pline A) : Prop :=
  l_blank l = true /\ l_depth l = 0 /\ l_cont l = false.

(* any blank/comment line that is not a backslash continuation *)
Definition blank_line {A} (l : pline A) : Prop := l_blank l = true /\ l_cont l = false.

(* the payloads of the EvLine events, in order *)
Fixpoint lines_of {A} (evs : list (ev A)) : list A :=
  match evs with
  | [] => []
  | EvLine a :: r => a :: lines_of r
  | _ :: r => lines_of r
  end.

(* ================================================================== *)
(* PROOFS                                                               *)
(* ================================================================== *)

(* ---- 1. columns ------------------------------------------------------ *)

Lemma indent_col_from_app ws ext : forall col rc,
  indent_col_from col rc (ws ++ ext)
  = indent_col_from (indent_col_from col rc ws) (rc + length ws) ext.
Proof.
  induction ws as [|b ws IH]; intros col rc; cbn [app indent_col_from length].
  - rewrite Nat.add_0_r. reflexivity.
  - destruct b; rewrite IH; f_equal; lia.
Qed.

Lemma indent_col_from_ge ws : forall col rc, col <= indent_col_from col rc ws.
Proof.
  induction ws as [|b ws IH]; intros col rc; cbn [indent_col_from].
  - lia.
  - destruct b.
    + specialize (IH (col + (tabw - rc mod tabw)) (S rc)). lia.
    + specialize (IH (S col) (S rc)). lia.
Qed.

Lemma indent_col_from_lt ext : ext <> [] ->
  forall col rc, col < indent_col_from col rc ext.
Proof.
  destruct ext as [|b ext]; [congruence|]. intros _ col rc. cbn [indent_col_from].
  destruct b.
  - pose proof (indent_col_from_ge ext (col + (tabw - rc mod tabw)) (S rc)) as H.
    assert (Hm : rc mod tabw < tabw) by (apply Nat.mod_upper_bound; unfold tabw; lia).
    unfold tabw in *. lia.
  - pose proof (indent_col_from_ge ext (S col) (S rc)) as H. lia.
Qed.

Lemma indent_col_from_extend_lemma ws ext : ext <> [] ->
  forall col rc, indent_col_from col rc ws < indent_col_from col rc (ws ++ ext).
Proof.
  intros Hne col rc. rewrite indent_col_from_app. apply indent_col_from_lt. exact Hne.
Qed.

Lemma indent_col_extend_lemma : forall ws ext,
  ext <> [] -> indent_col ws < indent_col (ws ++ ext).
Proof.
  intros ws ext Hne. unfold indent_col. apply indent_col_from_extend_lemma. exact Hne.
Qed.

Example indent_col_extend_ex :
  indent_col [false; false; false] = 3 /\ indent_col ([false; false; false] ++ [true]) = 8 /\
  indent_col ([false; false; false] ++ [true] ++ [false; true]) = 12.
Proof. vm_compute. repeat split. Qed.

(* ---- 2. the stack ----------------------------------------------------- *)

Lemma stk_ok_cons x y r : stk_ok (x :: y :: r) <-> y < x /\ stk_ok (y :: r).
Proof. split; intro H; exact H. Qed.

Lemma stk_ok_tail x r : stk_ok (x :: r) -> r <> [] -> stk_ok r.
Proof. destruct r as [|y r]; [congruence|]. intros H _. exact (proj2 (proj1 (stk_ok_cons _ _ _) H)). Qed.

Lemma stk_ok_below x r : stk_ok (x :: r) -> Forall (fun y => y < x) r.
Proof.
  revert x. induction r as [|y r IH]; intros x H; [constructor|].
  apply stk_ok_cons in H. destruct H as [Hlt Hok]. constructor; [exact Hlt|].
  specialize (IH y Hok). eapply Forall_impl; [|exact IH]. cbn. intros. lia.
Qed.

Lemma stk_ok_le_hd stk x : stk_ok stk -> In x stk -> x <= hd 0 stk.
Proof.
  destruct stk as [|t r]; [intros []|]. intros Hok [->|Hin]; cbn [hd]; [lia|].
  pose proof (stk_ok_below _ _ Hok) as Hb. rewrite Forall_forall in Hb.
  specialize (Hb x Hin). lia.
Qed.

Lemma stk_ok_app extra : forall stk, stk_ok (extra ++ stk) -> stk <> [] ->
  stk_ok stk /\ Forall (fun x => hd 0 stk < x) extra.
Proof.
  induction extra as [|e ex IH]; intros stk Hok Hne; cbn [app] in *.
  - split; [exact Hok|constructor].
  - assert (Hne' : ex ++ stk <> []) by (destruct ex; cbn; [exact Hne|congruence]).
    pose proof (stk_ok_tail _ _ Hok Hne') as Hok'.
    destruct (IH stk Hok' Hne) as [Hs Hf]. split; [exact Hs|].
    constructor; [|exact Hf].
    pose proof (stk_ok_below _ _ Hok) as Hb. rewrite Forall_forall in Hb.
    destruct stk as [|t r]; [congruence|]. cbn [hd]. apply Hb.
    apply in_or_app. right. left. reflexivity.
Qed.

(* pop_while under the invariant: what it pops and what it leaves *)
Lemma pop_while_spec col : forall stk k s,
  stk_ok stk -> pop_while col stk = (k, s) ->
  exists popped, stk = popped ++ s /\ length popped = k /\
                 Forall (fun x => col < x) popped /\ stk_ok s /\ hd 0 s <= col.
Proof.
  induction stk as [|t r IH]; intros k s Hok Hp; [destruct Hok|].
  cbn [pop_while] in Hp. destruct (col <? t) eqn:E.
  - apply Nat.ltb_lt in E.
    destruct r as [|y r].
    { cbn [stk_ok] in Hok. lia. }
    destruct (pop_while col (y :: r)) as [k' s'] eqn:Hp'. inversion Hp; subst k s; clear Hp.
    apply stk_ok_cons in Hok. destruct Hok as [_ Hok].
    destruct (IH k' s' Hok eq_refl) as (pp & Heq & Hlen & Hall & Hs & Hhd).
    exists (t :: pp). rewrite Heq. cbn [app length]. repeat split; auto.
  - apply Nat.ltb_ge in E. inversion Hp; subst k s; clear Hp.
    exists []. cbn [app length hd]. repeat split; auto.
Qed.

Lemma pop_while_app col extra : forall stk,
  Forall (fun x => col < x) extra ->
  pop_while col (extra ++ stk) = (length extra + fst (pop_while col stk), snd (pop_while col stk)).
Proof.
  induction extra as [|e ex IH]; intros stk Hall; cbn [app length].
  - destruct (pop_while col stk); reflexivity.
  - inversion Hall as [|? ? He Hex]; subst. cbn [pop_while].
    apply Nat.ltb_lt in He. rewrite He. rewrite (IH stk Hex). cbn [fst snd]. reflexivity.
Qed.

(* line_start preserves the invariant and leaves col on top *)
Lemma line_start_ok_lemma : forall (A : Type) stk col (d : list (ev A)) s,
  stk_ok stk -> line_start stk col = LOk (d, s) -> stk_ok s /\ hd 0 s = col.
Proof.
  intros A stk col d s Hok H. destruct stk as [|cur r]; [destruct Hok|].
  cbn [line_start] in H. destruct (cur <? col) eqn:E1.
  - apply Nat.ltb_lt in E1. inversion H; subst. split; [|reflexivity].
    apply stk_ok_cons. split; assumption.
  - apply Nat.ltb_ge in E1. destruct (col <? cur) eqn:E2.
    + destruct (pop_while col (cur :: r)) as [k s'] eqn:Hp.
      destruct (pop_while_spec _ _ _ _ Hok Hp) as (pp & _ & _ & _ & Hs & _).
      destruct s' as [|top s'']; [discriminate|].
      destruct (col =? top) eqn:E3; [|discriminate].
      apply Nat.eqb_eq in E3. inversion H; subst. split; [exact Hs|reflexivity].
    + apply Nat.ltb_ge in E2. inversion H; subst. split; [exact Hok|]. cbn [hd]. lia.
Qed.

Lemma line_start_no_panic_lemma : forall (A : Type) stk col,
  stk_ok stk -> @line_start A stk col <> LPanic.
Proof.
  intros A stk col Hok. destruct stk as [|cur r]; [destruct Hok|].
  cbn [line_start]. destruct (cur <? col); [discriminate|].
  destruct (col <? cur); [|discriminate].
  destruct (pop_while col (cur :: r)) as [k s'] eqn:Hp.
  destruct (pop_while_spec _ _ _ _ Hok Hp) as (pp & _ & _ & _ & Hs & _).
  destruct s' as [|top s'']; [destruct Hs|].
  destruct (col =? top); discriminate.
Qed.

Lemma layout_lines_no_panic_lemma : forall (A : Type) (ls : list (pline A)) stk p fn,
  stk_ok stk -> layout_lines stk p ls fn <> LPanic.
Proof.
  intros A ls. induction ls as [|l rest IH]; intros stk p fn Hok.
  - cbn [layout_lines]. destruct stk as [|t open]; [destruct Hok|].
    destruct open; discriminate.
  - cbn [layout_lines]. destruct (l_cont l).
    { specialize (IH stk (negb (true && match rest with [] => fn | n :: _ => starts_logical n end)) fn Hok).
      destruct (layout_lines stk _ rest fn); [discriminate|discriminate|congruence]. }
    destruct (l_blank l); [apply IH; exact Hok|].
    destruct (0 <? l_depth l).
    { specialize (IH stk (negb (true && match rest with [] => fn | n :: _ => starts_logical n end)) fn Hok).
      destruct (layout_lines stk _ rest fn); [discriminate|discriminate|congruence]. }
    destruct (line_start stk (indent_col (l_ws l))) as [[d s]| |] eqn:Hls.
    + destruct (line_start_ok_lemma _ _ _ _ _ Hok Hls) as [Hs _].
      specialize (IH s (negb (true && match rest with [] => fn | n :: _ => starts_logical n end)) fn Hs).
      destruct (layout_lines s _ rest fn); [discriminate|discriminate|congruence].
    + discriminate.
    + exfalso. exact (line_start_no_panic_lemma _ _ _ Hok Hls).
Qed.

Lemma stk_ok_init : stk_ok [0].
Proof. reflexivity. Qed.

(* the scanner never indexes an empty indentation stack *)
Theorem stack_never_underflows_lemma :
  (forall (A : Type) stk col (d : list (ev A)) s,
     stk_ok stk -> line_start stk col = LOk (d, s) -> stk_ok s /\ hd 0 s = col) /\
  (forall (A : Type) stk col, stk_ok stk -> @line_start A stk col <> LPanic) /\
  (forall (A : Type) (ls : list (pline A)) fn, layout ls fn <> LPanic).
Proof.
  split; [exact line_start_ok_lemma|]. split; [exact line_start_no_panic_lemma|].
  intros A ls fn. unfold layout. apply layout_lines_no_panic_lemma. exact stk_ok_init.
Qed.

Example stk_ok_ex : stk_ok [12; 8; 3; 0] /\ @line_start unit [12; 8; 3; 0] 3 = LOk ([EvOutdent; EvOutdent], [3; 0]).
Proof. split; [cbn; lia|reflexivity]. Qed.

(* ---- 3. dedents --------------------------------------------------------- *)

Lemma inconsistent_dedent_line_start_lemma : forall (A : Type) stk col,
  stk_ok stk -> col < hd 0 stk -> ~ In col stk -> @line_start A stk col = LErr.
Proof.
  intros A stk col Hok Hlt Hnin. destruct stk as [|cur r]; [destruct Hok|].
  cbn [hd] in Hlt. cbn [line_start].
  assert (E1 : cur <? col = false) by (apply Nat.ltb_ge; lia). rewrite E1.
  assert (E2 : col <? cur = true) by (apply Nat.ltb_lt; lia). rewrite E2.
  destruct (pop_while col (cur :: r)) as [k s] eqn:Hp.
  destruct (pop_while_spec _ _ _ _ Hok Hp) as (pp & Heq & _ & _ & Hs & _).
  destruct s as [|top s']; [destruct Hs|].
  destruct (col =? top) eqn:E3; [|reflexivity].
  apply Nat.eqb_eq in E3. exfalso. apply Hnin. rewrite Heq. apply in_or_app. right. left. congruence.
Qed.

(* the converse: a column on the stack is accepted; the OUTDENTs are the entries above it *)
Lemma consistent_dedent_line_start_lemma : forall (A : Type) stk col,
  stk_ok stk -> In col stk ->
  exists k s above,
    @line_start A stk col = LOk (repeat EvOutdent k, s) /\ hd 0 s = col /\ stk_ok s /\
    stk = above ++ s /\ length above = k /\ Forall (fun x => col < x) above.
Proof.
  intros A stk col Hok Hin. pose proof (stk_ok_le_hd _ _ Hok Hin) as Hle.
  destruct stk as [|cur r]; [destruct Hok|]. cbn [hd] in Hle. cbn [line_start].
  assert (E1 : cur <? col = false) by (apply Nat.ltb_ge; lia). rewrite E1.
  destruct (col <? cur) eqn:E2.
  - apply Nat.ltb_lt in E2.
    destruct (pop_while col (cur :: r)) as [k s] eqn:Hp.
    destruct (pop_while_spec _ _ _ _ Hok Hp) as (pp & Heq & Hlen & Hall & Hs & Hhd).
    assert (Hin' : In col s).
    { rewrite Heq in Hin. apply in_app_or in Hin. destruct Hin as [Hin|Hin]; [|exact Hin].
      rewrite Forall_forall in Hall. specialize (Hall _ Hin). lia. }
    pose proof (stk_ok_le_hd _ _ Hs Hin') as Hle'.
    destruct s as [|top s']; [destruct Hs|]. cbn [hd] in *.
    assert (E3 : col =? top = true) by (apply Nat.eqb_eq; lia). rewrite E3.
    exists k, (top :: s'), pp. cbn [hd]. repeat split; auto. lia.
  - apply Nat.ltb_ge in E2. exists 0, (cur :: r), []. cbn [repeat hd app length].
    repeat split; auto. lia.
Qed.

Theorem dedent_line_start_lemma :
  (forall (A : Type) stk col,
     stk_ok stk -> col < hd 0 stk -> ~ In col stk -> @line_start A stk col = LErr) /\
  (forall (A : Type) stk col,
     stk_ok stk -> In col stk ->
     exists k s above,
       @line_start A stk col = LOk (repeat EvOutdent k, s) /\ hd 0 s = col /\ stk_ok s /\
       stk = above ++ s /\ length above = k /\ Forall (fun x => col < x) above).
Proof. split; [exact inconsistent_dedent_line_start_lemma|exact consistent_dedent_line_start_lemma]. Qed.

(* a prefix that is accepted, then the rest: an error of the rest is an error of the file *)
Lemma stack_after_err : forall (A : Type) (pre rest : list (pline A)) stk stk' fn,
  stack_after stk pre = Some stk' ->
  (forall p, layout_lines stk' p rest fn = LErr) ->
  forall p, layout_lines stk p (pre ++ rest) fn = LErr.
Proof.
  intros A pre rest. induction pre as [|l pre IH]; intros stk stk' fn Hsa Herr p.
  - cbn in Hsa. inversion Hsa; subst. cbn [app]. apply Herr.
  - cbn [app layout_lines]. cbn [stack_after] in Hsa.
    destruct (l_cont l); cbn [orb] in Hsa.
    { rewrite (IH _ _ _ Hsa Herr). reflexivity. }
    destruct (l_blank l); cbn [orb] in Hsa.
    { apply (IH _ _ _ Hsa Herr). }
    destruct (0 <? l_depth l).
    { rewrite (IH _ _ _ Hsa Herr). reflexivity. }
    destruct (line_start stk (indent_col (l_ws l))) as [[d s]| |]; [|discriminate|discriminate].
    rewrite (IH _ _ _ Hsa Herr). reflexivity.
Qed.

Lemma stack_after_ok : forall (A : Type) (pre : list (pline A)) stk stk',
  stk_ok stk -> stack_after stk pre = Some stk' -> stk_ok stk'.
Proof.
  intros A pre. induction pre as [|l pre IH]; intros stk stk' Hok Hsa.
  - cbn in Hsa. inversion Hsa; subst. exact Hok.
  - cbn [stack_after] in Hsa.
    destruct (l_cont l || l_blank l || (0 <? l_depth l)); [eapply IH; eauto|].
    destruct (line_start stk (indent_col (l_ws l))) as [[d s]| |] eqn:Hls; [|discriminate|discriminate].
    destruct (line_start_ok_lemma _ _ _ _ _ Hok Hls) as [Hs _]. eapply IH; eauto.
Qed.

(* a file in which some logical line (not blank, depth 0, not a continuation)
   dedents to a column that is not on the indentation stack is rejected,
   whatever follows *)
Theorem inconsistent_dedent_rejected_lemma : forall (A : Type) (pre post : list (pline A)) l stk fn,
  stack_after [0] pre = Some stk ->
  plain l ->
  indent_col (l_ws l) < hd 0 stk -> ~ In (indent_col (l_ws l)) stk ->
  layout (pre ++ l :: post) fn = LErr.
Proof.
  intros A pre post l stk fn Hsa (Hb & Hd & Hc) Hlt Hnin. unfold layout.
  apply (stack_after_err _ pre (l :: post) [0] stk fn Hsa).
  intros p. cbn [layout_lines]. rewrite Hc, Hb, Hd. cbn [Nat.ltb Nat.leb].
  pose proof (stack_after_ok _ _ _ _ stk_ok_init Hsa) as Hok.
  rewrite (inconsistent_dedent_line_start_lemma A _ _ Hok Hlt Hnin). reflexivity.
Qed.

Example inconsistent_dedent_ex :
  let pre := [mkline [] false 0 false 1; mkline [false; false; false; false] false 0 false 2;
              mkline [true] false 0 false 3] in
  let l := mkline [false; false] false 0 false 4 in
  stack_after [0] pre = Some [8; 4; 0] /\ plain l /\ indent_col (l_ws l) = 2 /\
  layout (pre ++ [l]) true = LErr /\ layout (pre ++ [l]) false = LErr.
Proof. cbv zeta. repeat split. Qed.

(* ---- 4. the round trip without noise ------------------------------------ *)

Section BlkInd.
  Context {A : Type} (P : blk A -> Prop).
  Hypothesis HS : forall a, P (Simple a).
  Hypothesis HC : forall a ext body, Forall P body -> P (Compound a ext body).
  Fixpoint blk_ind2 (b : blk A) : P b :=
    match b with
    | Simple a => HS a
    | Compound a ext body =>
      HC a ext body
         ((fix go (l : list (blk A)) : Forall P l :=
             match l with
             | [] => Forall_nil P
             | x :: r => Forall_cons x (blk_ind2 x) (go r)
             end) body)
    end.
End BlkInd.

(* does a NEWLINE follow a content line: what the scanner sees next *)
Definition nl_next {A} (rest : list (pline A)) (fn : bool) : bool :=
  match rest with n :: _ => starts_logical n | [] => fn end.

Lemma step_plain : forall (A : Type) (l : pline A) rest stk p fn, plain l ->
  layout_lines stk p (l :: rest) fn =
  match line_start stk (indent_col (l_ws l)) with
  | LOk (dents, stk') =>
    match layout_lines stk' (negb (nl_next rest fn)) rest fn with
    | LOk evs => LOk (dents ++ EvLine (l_payload l) :: (if nl_next rest fn then [EvNewline] else []) ++ evs)
    | LErr => LErr
    | LPanic => LPanic
    end
  | LErr => LErr
  | LPanic => LPanic
  end.
Proof.
  intros A l rest stk p fn (Hb & Hd & Hc). cbn [layout_lines]. rewrite Hc, Hb, Hd.
  cbn [Nat.ltb Nat.leb andb]. unfold nl_next. reflexivity.
Qed.

Lemma plain_starts_logical : forall (A : Type) (l : pline A), plain l -> starts_logical l = true.
Proof. intros A l (Hb & Hd & Hc). unfold starts_logical. rewrite Hd, Hc. reflexivity. Qed.

Lemma compat_nl : forall (A : Type) fn c (rest : list (pline A)), compat fn c rest -> nl_next rest fn = true.
Proof.
  intros A fn c rest H. destruct rest as [|l r]; cbn in *; [exact H|].
  apply plain_starts_logical. tauto.
Qed.

Lemma compat_mono : forall (A : Type) fn c c' (rest : list (pline A)),
  c <= c' -> compat fn c rest -> compat fn c' rest.
Proof. intros A fn c c' rest Hle H. destruct rest as [|l r]; cbn in *; [exact H|]. split; [tauto|lia]. Qed.

Lemma pend_irrel : forall (A : Type) fn c (rest : list (pline A)) stk p p',
  compat fn c rest -> layout_lines stk p rest fn = layout_lines stk p' rest fn.
Proof.
  intros A fn c rest stk p p' H. destruct rest as [|l r].
  - cbn in H. subst fn. cbn [layout_lines negb]. rewrite !andb_false_r. reflexivity.
  - destruct H as [Hp _]. rewrite !step_plain by exact Hp. reflexivity.
Qed.

Lemma line_start_same : forall (A : Type) stk c, stk <> [] -> hd 0 stk = c ->
  @line_start A stk c = LOk ([], stk).
Proof.
  intros A stk c Hne Hhd. destruct stk as [|t r]; [congruence|]. cbn [hd] in Hhd. subst c.
  cbn [line_start]. rewrite Nat.ltb_irrefl. reflexivity.
Qed.

Lemma line_start_indent : forall (A : Type) stk c, stk <> [] -> hd 0 stk < c ->
  @line_start A stk c = LOk ([EvIndent], c :: stk).
Proof.
  intros A stk c Hne Hhd. destruct stk as [|t r]; [congruence|]. cbn [hd] in Hhd.
  cbn [line_start]. apply Nat.ltb_lt in Hhd. rewrite Hhd. reflexivity.
Qed.

Lemma stk_ok_ne stk : stk_ok stk -> stk <> [].
Proof. destruct stk; [intros []|congruence]. Qed.

(* lazily emitted OUTDENTs: entries above the level a line dedents to are popped first *)
Lemma line_start_absorb : forall (A : Type) extra stk c,
  stk_ok (extra ++ stk) -> stk <> [] -> c <= hd 0 stk ->
  @line_start A (extra ++ stk) c =
  match @line_start A stk c with
  | LOk (d, s) => LOk (repeat EvOutdent (length extra) ++ d, s)
  | LErr => LErr
  | LPanic => LPanic
  end.
Proof.
  intros A extra stk c Hok Hne Hle.
  destruct extra as [|e ex].
  { cbn [app length repeat]. destruct (line_start stk c) as [[d s]| |]; reflexivity. }
  destruct (stk_ok_app _ _ Hok Hne) as [Hs Hall].
  assert (Hall' : Forall (fun x => c < x) (e :: ex)).
  { eapply Forall_impl; [|exact Hall]. cbn. intros. lia. }
  pose proof (pop_while_app c (e :: ex) stk Hall') as Hpw.
  destruct stk as [|t r]; [congruence|]. cbn [hd] in *.
  inversion Hall' as [|? ? He _]; subst.
  change ((e :: ex) ++ t :: r) with (e :: ex ++ t :: r) in *.
  cbn [line_start].
  assert (E1 : e <? c = false) by (apply Nat.ltb_ge; lia). rewrite E1.
  assert (E2 : c <? e = true) by (apply Nat.ltb_lt; lia). rewrite E2.
  rewrite Hpw. clear Hpw.
  assert (E3 : t <? c = false) by (apply Nat.ltb_ge; lia). rewrite E3.
  destruct (c <? t) eqn:E4.
  - destruct (pop_while c (t :: r)) as [k s]. cbn [fst snd].
    destruct s as [|top s']; [reflexivity|].
    destruct (c =? top); [|reflexivity]. rewrite repeat_app. reflexivity.
  - apply Nat.ltb_ge in E4. assert (c = t) by lia. subst c.
    cbn [pop_while]. rewrite Nat.ltb_irrefl. cbn [fst snd]. rewrite Nat.eqb_refl.
    rewrite Nat.add_0_r, app_nil_r. reflexivity.
Qed.

Lemma absorb_extra : forall (A : Type) extra stk (rest : list (pline A)) p fn,
  stk_ok (extra ++ stk) -> stk <> [] -> compat fn (hd 0 stk) rest ->
  layout_lines (extra ++ stk) p rest fn
  = lres_map (app (repeat EvOutdent (length extra))) (layout_lines stk p rest fn).
Proof.
  intros A extra stk rest p fn Hok Hne Hc. destruct rest as [|l r].
  - cbn in Hc. subst fn. destruct stk as [|t open]; [congruence|].
    destruct extra as [|e ex].
    { cbn [app length repeat layout_lines]. destruct open; reflexivity. }
    cbn [app layout_lines negb]. rewrite !andb_false_r. cbn [app].
    destruct (ex ++ t :: open) as [|y o] eqn:E.
    { destruct ex; discriminate. }
    rewrite <- E. rewrite app_length. cbn [length].
    destruct open as [|o1 open]; cbn [lres_map length].
    + rewrite app_nil_r. f_equal. f_equal. lia.
    + rewrite <- repeat_app. f_equal. f_equal. cbn [length]. lia.
  - destruct Hc as [Hp Hle]. rewrite !step_plain by exact Hp.
    rewrite (line_start_absorb A extra stk _ Hok Hne Hle).
    destruct (line_start stk (indent_col (l_ws l))) as [[d s]| |]; [|reflexivity|reflexivity].
    destruct (layout_lines s (negb (nl_next r fn)) r fn); cbn [lres_map]; [|reflexivity|reflexivity].
    rewrite <- app_assoc. reflexivity.
Qed.

(* the first line of a block pushes its column *)
Lemma indent_intro : forall (A : Type) (l : pline A) r stk p p' fn,
  plain l -> stk <> [] -> hd 0 stk < indent_col (l_ws l) ->
  layout_lines stk p (l :: r) fn
  = lres_map (cons EvIndent) (layout_lines (indent_col (l_ws l) :: stk) p' (l :: r) fn).
Proof.
  intros A l r stk p p' fn Hp Hne Hlt. rewrite !step_plain by exact Hp.
  rewrite (line_start_indent A stk _ Hne Hlt).
  rewrite (line_start_same A (indent_col (l_ws l) :: stk) _) by (cbn; congruence).
  destruct (layout_lines _ (negb (nl_next r fn)) r fn); reflexivity.
Qed.

Lemma render_head : forall (A : Type) ws (b : blk A),
  exists a tl, render ws b = mkline ws false 0 false a :: tl.
Proof. intros A ws b. destruct b as [a|a ext body]; cbn [render]; eauto. Qed.

Lemma plain_mkline : forall (A : Type) ws (a : A), plain (mkline ws false 0 false a).
Proof. intros. repeat split. Qed.

Lemma compat_forest : forall (A : Type) fn ws (bs : list (blk A)) rest,
  compat fn (indent_col ws) rest -> compat fn (indent_col ws) (render_forest ws bs ++ rest).
Proof.
  intros A fn ws bs rest H. destruct bs as [|b bs]; [exact H|].
  unfold render_forest. cbn [flat_map]. destruct (render_head A ws b) as (a & tl & ->).
  cbn [app compat]. split; [apply plain_mkline|cbn [l_ws]; lia].
Qed.

Lemma lres_map_nil : forall (X : Type) (r : lres (list X)), lres_map (app []) r = r.
Proof. intros X r. destruct r; reflexivity. Qed.

Lemma lres_map_app : forall (X : Type) (e1 e2 : list X) r,
  lres_map (app e1) (lres_map (app e2) r) = lres_map (app (e1 ++ e2)) r.
Proof. intros X e1 e2 r. destruct r; cbn [lres_map]; [rewrite app_assoc|..]; reflexivity. Qed.

Lemma wf_compound : forall (A : Type) (a : A) ext body,
  wf_blk (Compound a ext body) = true -> ext <> [] /\ body <> [] /\ wf_forest body = true.
Proof.
  intros A a ext body H. cbn [wf_blk] in H. apply andb_true_iff in H. destruct H as [H H3].
  apply andb_true_iff in H. destruct H as [H1 H2].
  repeat split; [destruct ext; [discriminate|congruence]|destruct body; [discriminate|congruence]|exact H3].
Qed.

(* the compositional statement: rendering b at white space ws, on a stack whose
   top is the column of ws, followed by anything compatible, yields exactly the
   events of b (its closing OUTDENTs included) followed by the events of the rest *)
Definition blk_spec {A} (b : blk A) : Prop :=
  forall ws stk rest p p' fn,
    wf_blk b = true -> stk_ok stk -> hd 0 stk = indent_col ws ->
    compat fn (indent_col ws) rest ->
    layout_lines stk p (render ws b ++ rest) fn
    = lres_map (app (events_blk b)) (layout_lines stk p' rest fn).

Definition forest_spec {A} (f : list (blk A)) : Prop :=
  forall ws stk rest p p' fn,
    wf_forest f = true -> stk_ok stk -> hd 0 stk = indent_col ws ->
    compat fn (indent_col ws) rest ->
    layout_lines stk p (render_forest ws f ++ rest) fn
    = lres_map (app (events f)) (layout_lines stk p' rest fn).

Lemma forest_of_blocks : forall (A : Type) (f : list (blk A)), Forall blk_spec f -> forest_spec f.
Proof.
  intros A f HF. induction HF as [|b bs Hb _ IH]; intros ws stk rest p p' fn Hwf Hok Hhd Hc.
  - cbn [render_forest events flat_map app]. rewrite lres_map_nil. eapply pend_irrel; exact Hc.
  - cbn [wf_forest forallb] in Hwf. apply andb_true_iff in Hwf. destruct Hwf as [Hwb Hwbs].
    change (render_forest ws (b :: bs)) with (render ws b ++ render_forest ws bs).
    change (events (b :: bs)) with (events_blk b ++ events bs). rewrite <- app_assoc.
    rewrite (Hb ws stk _ p p' fn Hwb Hok Hhd (compat_forest A fn ws bs rest Hc)).
    rewrite (IH ws stk rest p' p' fn Hwbs Hok Hhd Hc).
    rewrite lres_map_app. reflexivity.
Qed.

(* header and body of a compound statement, its block still open *)
Lemma compound_open : forall (A : Type) (a : A) ext body,
  forest_spec body ->
  forall ws stk rest p p' fn,
    wf_blk (Compound a ext body) = true -> stk_ok stk -> hd 0 stk = indent_col ws ->
    compat fn (indent_col (ws ++ ext)) rest ->
    layout_lines stk p (render ws (Compound a ext body) ++ rest) fn
    = lres_map (app (EvLine a :: EvNewline :: EvIndent :: events body))
               (layout_lines (indent_col (ws ++ ext) :: stk) p' rest fn).
Proof.
  intros A a ext body HF ws stk rest p p' fn Hwf Hok Hhd Hc.
  destruct (wf_compound A a ext body Hwf) as (Hext & Hbody & Hwfb).
  pose proof (indent_col_extend_lemma ws ext Hext) as Hlt.
  pose proof (stk_ok_ne _ Hok) as Hne.
  cbn [render app]. fold (render_forest (ws ++ ext) body).
  rewrite step_plain by apply plain_mkline. cbn [l_ws l_payload].
  rewrite (line_start_same A stk _ Hne Hhd).
  assert (Hok' : stk_ok (indent_col (ws ++ ext) :: stk)).
  { destruct stk as [|t r]; [congruence|]. apply stk_ok_cons. cbn [hd] in Hhd. split; [lia|exact Hok]. }
  specialize (HF (ws ++ ext) (indent_col (ws ++ ext) :: stk) rest false p' fn Hwfb Hok' eq_refl Hc).
  destruct body as [|b1 bs]; [congruence|].
  unfold render_forest in *. cbn [flat_map] in *.
  destruct (render_head A (ws ++ ext) b1) as (a1 & tl & Hr). rewrite Hr in *.
  rewrite <- !app_assoc in *. cbn [app] in *.
  cbn [nl_next]. rewrite (plain_starts_logical A _ (plain_mkline A (ws ++ ext) a1)).
  cbn [negb].
  rewrite (indent_intro A _ _ stk false false fn (plain_mkline A _ a1) Hne) by (cbn [l_ws]; lia).
  cbn [l_ws]. rewrite HF.
  destruct (layout_lines (indent_col (ws ++ ext) :: stk) p' rest fn); reflexivity.
Qed.

Lemma blk_spec_all : forall (A : Type) (b : blk A), blk_spec b.
Proof.
  intros A. apply blk_ind2.
  - intros a ws stk rest p p' fn _ Hok Hhd Hc.
    cbn [render app events_blk]. rewrite step_plain by apply plain_mkline. cbn [l_ws l_payload].
    rewrite (line_start_same A stk _ (stk_ok_ne _ Hok) Hhd).
    rewrite (compat_nl A fn _ rest Hc). cbn [negb].
    rewrite (pend_irrel A fn _ rest stk false p' Hc).
    destruct (layout_lines stk p' rest fn); reflexivity.
  - intros a ext body HF ws stk rest p p' fn Hwf Hok Hhd Hc.
    destruct (wf_compound A a ext body Hwf) as (Hext & _ & _).
    pose proof (indent_col_extend_lemma ws ext Hext) as Hlt.
    pose proof (stk_ok_ne _ Hok) as Hne.
    rewrite (compound_open A a ext body (forest_of_blocks A body HF) ws stk rest p p' fn Hwf Hok Hhd)
      by (eapply compat_mono; [|exact Hc]; lia).
    assert (Hok' : stk_ok ([indent_col (ws ++ ext)] ++ stk)).
    { cbn [app]. destruct stk as [|t r]; [congruence|]. apply stk_ok_cons. cbn [hd] in Hhd. split; [lia|exact Hok]. }
    change (indent_col (ws ++ ext) :: stk) with ([indent_col (ws ++ ext)] ++ stk).
    rewrite (absorb_extra A _ stk rest p' fn Hok' Hne) by (rewrite Hhd; exact Hc).
    rewrite lres_map_app. cbn [length repeat events_blk]. unfold events.
    f_equal.
Qed.

Lemma forest_spec_all : forall (A : Type) (f : list (blk A)), forest_spec f.
Proof. intros A f. apply forest_of_blocks. apply Forall_forall. intros b _. apply blk_spec_all. Qed.

(* noise-free round trip, first half: the token classes *)
Lemma layout_render_lemma : forall (A : Type) (f : list (blk A)),
  wf_forest f = true -> layout (render_forest [] f) true = LOk (events f).
Proof.
  intros A f Hwf. unfold layout.
  pose proof (forest_spec_all A f [] [0] [] false false true Hwf stk_ok_init eq_refl eq_refl) as H.
  rewrite app_nil_r in H. rewrite H. cbn [layout_lines lres_map]. rewrite app_nil_r. reflexivity.
Qed.

(* ---- 5. re-nesting ------------------------------------------------------ *)

Definition nest_blk_spec {A} (b : blk A) : Prop :=
  forall tail sibs r N,
    hd_error tail <> Some EvIndent ->
    (forall n, N <= n -> nest n tail = Some (sibs, r)) ->
    forall n, N + length (events_blk b) <= n ->
      nest n (events_blk b ++ tail) = Some (erase b :: sibs, r).

Definition nest_forest_spec {A} (f : list (blk A)) : Prop :=
  forall tail sibs r N,
    hd_error tail <> Some EvIndent ->
    (forall n, N <= n -> nest n tail = Some (sibs, r)) ->
    forall n, N + length (events f) <= n ->
      nest n (events f ++ tail) = Some (map erase f ++ sibs, r).

Lemma events_blk_head : forall (A : Type) (b : blk A), exists a t, events_blk b = EvLine a :: t.
Proof. intros A b. destruct b; cbn [events_blk]; eauto. Qed.

Lemma nest_forest_of_blocks : forall (A : Type) (f : list (blk A)),
  Forall nest_blk_spec f -> nest_forest_spec f.
Proof.
  intros A f HF. induction HF as [|b bs Hb _ IH]; intros tail sibs r N Hhd Htail n Hn.
  - cbn [events flat_map app map] in *. apply Htail. lia.
  - change (events (b :: bs)) with (events_blk b ++ events bs) in *.
    rewrite app_length in Hn. rewrite <- app_assoc. cbn [map app].
    apply (Hb (events bs ++ tail) (map erase bs ++ sibs) r (N + length (events bs))).
    + destruct bs as [|b' bs']; [exact Hhd|].
      change (events (b' :: bs')) with (events_blk b' ++ events bs').
      destruct (events_blk_head A b') as (a' & t' & ->). cbn. discriminate.
    + intros m Hm. apply (IH tail sibs r N Hhd Htail). exact Hm.
    + lia.
Qed.

Lemma nest_blk_spec_all : forall (A : Type) (b : blk A), nest_blk_spec b.
Proof.
  intros A. apply blk_ind2.
  - intros a tail sibs r N Hhd Htail n Hn. cbn [events_blk length] in Hn.
    destruct n as [|m]; [lia|]. cbn [events_blk app nest].
    assert (Hm : nest m tail = Some (sibs, r)) by (apply Htail; lia).
    destruct tail as [|e t]; [rewrite Hm; reflexivity|].
    destruct e; try (rewrite Hm; reflexivity). cbn in Hhd. congruence.
  - intros a ext body HF tail sibs r N Hhd Htail n Hn.
    cbn [events_blk length] in Hn. rewrite app_length in Hn. cbn [length] in Hn.
    destruct n as [|m]; [lia|]. cbn [events_blk app nest erase].
    rewrite <- app_assoc. cbn [app].
    pose proof (nest_forest_of_blocks A body HF (EvOutdent :: tail) [] (EvOutdent :: tail) 1) as HB.
    fold (events body).
    rewrite HB; [| cbn; discriminate | intros k Hk; destruct k; [lia|reflexivity] | unfold events; lia ].
    rewrite app_nil_r. rewrite (Htail m) by lia. reflexivity.
Qed.

(* noise-free round trip, second half: the events give back the forest *)
Lemma nest_events_lemma : forall (A : Type) (f : list (blk A)) fuel,
  length (events f) < fuel -> nest fuel (events f) = Some (map erase f, []).
Proof.
  intros A f fuel Hf.
  assert (HF : Forall nest_blk_spec f) by (apply Forall_forall; intros b _; apply nest_blk_spec_all).
  pose proof (nest_forest_of_blocks A f HF [] [] [] 1) as H.
  rewrite !app_nil_r in H. apply H.
  - cbn. discriminate.
  - intros k Hk. destruct k; [lia|reflexivity].
  - lia.
Qed.

(* ---- 6. noise ------------------------------------------------------------ *)

Lemma lres_map_comp : forall (X Y Z : Type) (f : Y -> Z) (g : X -> Y) r,
  lres_map f (lres_map g r) = lres_map (fun x => f (g x)) r.
Proof. intros. destruct r; reflexivity. Qed.

Lemma step_plain_map : forall (A : Type) (l : pline A) rest stk p fn, plain l ->
  layout_lines stk p (l :: rest) fn =
  match line_start stk (indent_col (l_ws l)) with
  | LOk (d, s) =>
    lres_map (fun evs => d ++ EvLine (l_payload l) :: (if nl_next rest fn then [EvNewline] else []) ++ evs)
             (layout_lines s (negb (nl_next rest fn)) rest fn)
  | LErr => LErr
  | LPanic => LPanic
  end.
Proof.
  intros A l rest stk p fn Hp. rewrite step_plain by exact Hp.
  destruct (line_start stk (indent_col (l_ws l))) as [[d s]| |]; reflexivity.
Qed.

(* with a final newline the pending flag is never looked at *)
Lemma pending_irrelevant_true : forall (A : Type) (ls : list (pline A)) stk p p',
  layout_lines stk p ls true = layout_lines stk p' ls true.
Proof.
  intros A ls. induction ls as [|l rest IH]; intros stk p p'.
  - cbn [layout_lines negb]. rewrite !andb_false_r. reflexivity.
  - cbn [layout_lines]. destruct (l_cont l); [reflexivity|].
    destruct (l_blank l); [apply IH|]. reflexivity.
Qed.

Definition no_line {A} (d : list (ev A)) : Prop :=
  Forall (fun e => match e with EvLine _ => False | _ => True end) d.

Lemma no_line_outdents : forall (A : Type) k, @no_line A (repeat EvOutdent k).
Proof. intros A k. induction k; cbn [repeat]; constructor; auto. Qed.

Lemma line_start_dents : forall (A : Type) stk c (d : list (ev A)) s,
  line_start stk c = LOk (d, s) -> no_line d.
Proof.
  intros A stk c d s H. destruct stk as [|cur r]; [discriminate|]. cbn [line_start] in H.
  destruct (cur <? c).
  { inversion H; subst. repeat constructor. }
  destruct (c <? cur).
  - destruct (pop_while c (cur :: r)) as [k s']. destruct s' as [|top s'']; [discriminate|].
    destruct (c =? top); [|discriminate]. inversion H; subst. apply no_line_outdents.
  - inversion H; subst. constructor.
Qed.

Lemma squash_dents : forall (A : Type) (d r : list (ev A)) b,
  no_line d -> d <> [] \/ b = false ->
  squash_from b (d ++ r) = d ++ squash_from false r.
Proof.
  intros A d r b Hd. revert b. induction Hd as [|e d He _ IH]; intros b Hb.
  - destruct Hb as [Hb| ->]; [congruence|reflexivity].
  - cbn [app]. destruct e; try destruct He; cbn [squash_from]; f_equal; apply IH; right; reflexivity.
Qed.

Lemma squash_no_line : forall (A : Type) (d : list (ev A)) b, no_line d -> squash_from b d = d.
Proof.
  intros A d b Hd. revert b. induction Hd as [|e d He _ IH]; intros b; [reflexivity|].
  destruct e; try destruct He; cbn [squash_from]; f_equal; apply IH.
Qed.

Lemma cont_group_nl : forall (A : Type) (g ls : list (pline A)) fn,
  cont_group g -> g <> [] -> nl_next (g ++ ls) fn = false.
Proof. intros A g ls fn Hg Hne. destruct Hg; [congruence|reflexivity| |reflexivity]. cbn [app nl_next]. unfold starts_logical. cbn [l_cont negb]. apply andb_false_r. Qed.

(* the continuation lines of a logical line add EvLine events only, and the
   NEWLINE of the logical line follows the last of them *)
Lemma group_absorbed : forall (A : Type) (g : list (pline A)), cont_group g ->
  forall ls stk p p', nl_next ls true = true ->
  lres_map (fun e => squash_from true ((if nl_next (g ++ ls) true then [EvNewline] else []) ++ e))
           (layout_lines stk p (g ++ ls) true)
  = lres_map (fun e => EvNewline :: squash_from false e) (layout_lines stk p' ls true).
Proof.
  intros A g Hg. induction Hg as [|ws d a g Hg IH|ws b d a g Hg IH|ws d a g Hne Hg IH];
    intros ls stk p p' Hnl.
  - cbn [app]. rewrite Hnl. rewrite (pending_irrelevant_true A ls stk p p').
    destruct (layout_lines stk p' ls true); reflexivity.
  - cbn [app nl_next]. cbn [layout_lines l_cont l_blank l_depth l_payload Nat.ltb Nat.leb andb app].
    fold (nl_next (g ++ ls) true).
    rewrite <- (IH ls stk (negb (nl_next (g ++ ls) true)) p' Hnl).
    destruct (layout_lines stk _ (g ++ ls) true); reflexivity.
  - cbn [app nl_next]. unfold starts_logical at 1. cbn [l_cont l_depth negb].
    rewrite andb_false_r.
    cbn [layout_lines l_cont l_blank l_depth l_payload andb app].
    fold (nl_next (g ++ ls) true).
    rewrite <- (IH ls stk (negb (nl_next (g ++ ls) true)) p' Hnl).
    destruct (layout_lines stk _ (g ++ ls) true); reflexivity.
  - cbn [app nl_next]. cbn [layout_lines l_cont l_blank l_depth l_payload andb app].
    rewrite <- (IH ls stk p p' Hnl). rewrite (cont_group_nl A g ls true Hg Hne).
    destruct (layout_lines stk p (g ++ ls) true); reflexivity.
Qed.

Lemma noisy_head : forall (A : Type) (c ls : list (pline A)),
  noisy c ls -> Forall plain c -> nl_next ls true = true.
Proof.
  intros A c ls H Hc. destruct H as [|ws x c ls H|l g c ls Hg H]; [reflexivity|reflexivity|].
  inversion Hc; subst. cbn [nl_next]. apply plain_starts_logical. assumption.
Qed.

Lemma Forall_plain_nl : forall (A : Type) (c : list (pline A)), Forall plain c -> nl_next c true = true.
Proof. intros A c Hc. destruct Hc; [reflexivity|]. cbn [nl_next]. apply plain_starts_logical. assumption. Qed.

Lemma eof_true : forall (A : Type) stk p,
  @layout_lines A stk p [] true
  = match stk with [] => LPanic | _ :: open => LOk (repeat EvOutdent (length open)) end.
Proof.
  intros A stk p. cbn [layout_lines negb]. rewrite andb_false_r.
  destruct stk as [|t open]; [reflexivity|]. destruct open; reflexivity.
Qed.

(* noise is invisible up to merging the physical lines of a logical line:
   for EVERY file of logical lines (not only renderings of forests), every
   stack, accepted or rejected *)
Lemma noise_invariance_lemma : forall (A : Type) (clean ls : list (pline A)),
  noisy clean ls -> Forall plain clean ->
  forall stk p p',
    lres_map squash (layout_lines stk p ls true) = layout_lines stk p' clean true.
Proof.
  intros A clean ls H. induction H as [|ws x c ls H IH|l g c ls Hg H IH]; intros Hc stk p p'.
  - rewrite !eof_true. destruct stk as [|t open]; [reflexivity|]. cbn [lres_map]. f_equal.
    apply squash_no_line. apply no_line_outdents.
  - cbn [layout_lines l_cont l_blank]. apply IH. exact Hc.
  - inversion Hc as [|? ? Hl Hc']; subst.
    rewrite !step_plain_map by exact Hl.
    destruct (line_start stk (indent_col (l_ws l))) as [[d s]| |] eqn:Hls; [|reflexivity|reflexivity].
    rewrite (Forall_plain_nl A c Hc'). cbn [negb].
    rewrite <- (IH Hc' s false false).
    pose proof (group_absorbed A g Hg ls s (negb (nl_next (g ++ ls) true)) false (noisy_head A c ls H Hc')) as HG.
    pose proof (line_start_dents A _ _ _ _ Hls) as Hd.
    destruct (layout_lines s (negb (nl_next (g ++ ls) true)) (g ++ ls) true) as [e1| |];
      destruct (layout_lines s false ls true) as [e2| |]; cbn [lres_map] in *;
      try discriminate; try reflexivity.
    inversion HG as [HG']. f_equal. unfold squash.
    rewrite (squash_dents A d _ false Hd) by (right; reflexivity).
    cbn [squash_from]. rewrite HG'. reflexivity.
Qed.

(* ---- 7. no final newline character ------------------------------------------ *)

(* one step of layout_lines for an arbitrary line *)
Lemma step_general : forall (A : Type) (l : pline A) rest stk p fn,
  layout_lines stk p (l :: rest) fn =
  if negb (l_cont l) && l_blank l then layout_lines stk p rest fn
  else match (if l_cont l || (0 <? l_depth l) then LOk ([], stk)
              else line_start stk (indent_col (l_ws l))) with
       | LOk (d, s) =>
         lres_map (fun evs => d ++ EvLine (l_payload l) :: (if nl_next rest fn then [EvNewline] else []) ++ evs)
                  (layout_lines s (negb (nl_next rest fn)) rest fn)
       | LErr => LErr
       | LPanic => LPanic
       end.
Proof.
  intros A l rest stk p fn. cbn [layout_lines]. fold (nl_next rest fn).
  destruct (l_cont l); cbn [negb andb orb].
  { destruct (layout_lines stk (negb (nl_next rest fn)) rest fn); reflexivity. }
  destruct (l_blank l); [reflexivity|].
  destruct (0 <? l_depth l).
  { destruct (layout_lines stk (negb (nl_next rest fn)) rest fn); reflexivity. }
  destruct (line_start stk (indent_col (l_ws l))) as [[d s]| |]; [|reflexivity|reflexivity].
  destruct (layout_lines s (negb (nl_next rest fn)) rest fn); reflexivity.
Qed.

Lemma drop_last_nl_app : forall (A : Type) (pre e : list (ev A)),
  e <> [] -> drop_last_nl (pre ++ e) = pre ++ drop_last_nl e.
Proof.
  intros A pre e He. induction pre as [|x pre IH]; [reflexivity|].
  cbn [app drop_last_nl]. rewrite IH.
  destruct (pre ++ e) as [|y t] eqn:E.
  { destruct pre; cbn [app] in E; [congruence|discriminate]. }
  destruct x; reflexivity.
Qed.

Lemma drop_last_nl_outdents : forall (A : Type) k, @drop_last_nl A (repeat EvOutdent k) = repeat EvOutdent k.
Proof. intros A k. induction k as [|k IH]; [reflexivity|]. cbn [repeat drop_last_nl]. rewrite IH. reflexivity. Qed.

(* a file whose last physical line has content, read without a final newline
   character: same as with one, minus the NEWLINE when it is the very last token *)
Lemma no_final_newline_lemma : forall (A : Type) (ls0 : list (pline A)) l,
  is_content l = true ->
  forall stk p,
    match layout_lines stk p (ls0 ++ [l]) true with
    | LOk e => e <> [] /\ layout_lines stk p (ls0 ++ [l]) false = LOk (drop_last_nl e)
    | LErr => layout_lines stk p (ls0 ++ [l]) false = LErr
    | LPanic => layout_lines stk p (ls0 ++ [l]) false = LPanic
    end.
Proof.
  intros A ls0 l Hl. induction ls0 as [|l1 ls0 IH]; intros stk p.
  - cbn [app]. rewrite !step_general.
    unfold is_content in Hl.
    assert (E : negb (l_cont l) && l_blank l = false).
    { destruct (l_cont l), (l_blank l); cbn in *; congruence. }
    rewrite E.
    destruct (if l_cont l || (0 <? l_depth l) then LOk ([], stk) else line_start stk (indent_col (l_ws l)))
      as [[d s]| |]; [|reflexivity|reflexivity].
    cbn [nl_next negb layout_lines andb].
    destruct s as [|t open]; [reflexivity|].
    destruct open as [|o os]; cbn [lres_map app].
    + split; [destruct d; discriminate|]. f_equal.
      rewrite (drop_last_nl_app A d [EvLine (l_payload l); EvNewline]) by discriminate. reflexivity.
    + split; [destruct d; discriminate|]. f_equal.
      rewrite (drop_last_nl_app A d) by discriminate.
      cbn [drop_last_nl length repeat]. rewrite drop_last_nl_outdents. reflexivity.
  - cbn [app]. rewrite !step_general.
    destruct (negb (l_cont l1) && l_blank l1); [apply IH|].
    destruct (if l_cont l1 || (0 <? l_depth l1) then LOk ([], stk) else line_start stk (indent_col (l_ws l1)))
      as [[d s]| |]; [|reflexivity|reflexivity].
    assert (Hnl : nl_next (ls0 ++ [l]) false = nl_next (ls0 ++ [l]) true) by (destruct ls0; reflexivity).
    rewrite Hnl. specialize (IH s (negb (nl_next (ls0 ++ [l]) true))).
    destruct (layout_lines s (negb (nl_next (ls0 ++ [l]) true)) (ls0 ++ [l]) true) as [e| |];
      cbn [lres_map]; [|rewrite IH; reflexivity|rewrite IH; reflexivity].
    destruct IH as [He IH]. rewrite IH. cbn [lres_map].
    split; [destruct d; discriminate|]. f_equal.
    change (d ++ EvLine (l_payload l1) :: (if nl_next (ls0 ++ [l]) true then [EvNewline] else []) ++ e)
      with (d ++ (EvLine (l_payload l1) :: (if nl_next (ls0 ++ [l]) true then [EvNewline] else [])) ++ e).
    rewrite app_assoc. rewrite drop_last_nl_app by exact He. rewrite <- app_assoc. reflexivity.
Qed.

Lemma blanks_skip : forall (A : Type) (tb : list (pline A)) stk p fn,
  Forall blank_line tb -> layout_lines stk p tb fn = layout_lines stk p [] fn.
Proof.
  intros A tb stk p fn H. induction H as [|b tb [Hb Hc] _ IH]; [reflexivity|].
  rewrite step_general. rewrite Hb, Hc. cbn [negb andb]. exact IH.
Qed.

(* ... and when blank/comment lines follow the last line with content, the
   final newline character makes no difference at all *)
Lemma trailing_blank_lemma : forall (A : Type) (ls0 : list (pline A)) l b tb,
  is_content l = true -> noise_blank b -> Forall blank_line tb ->
  forall stk p,
    layout_lines stk p (ls0 ++ l :: b :: tb) false = layout_lines stk p (ls0 ++ l :: b :: tb) true.
Proof.
  intros A ls0 l b tb Hl (Hbb & Hbd & Hbc) Htb. induction ls0 as [|l1 ls0 IH]; intros stk p.
  - cbn [app]. rewrite !step_general.
    assert (E : negb (l_cont l) && l_blank l = false).
    { unfold is_content in Hl. destruct (l_cont l), (l_blank l); cbn in *; congruence. }
    rewrite E.
    destruct (if l_cont l || (0 <? l_depth l) then LOk ([], stk) else line_start stk (indent_col (l_ws l)))
      as [[d s]| |]; [|reflexivity|reflexivity].
    cbn [nl_next]. f_equal.
    rewrite !(step_general A b). rewrite Hbb, Hbc. cbn [negb andb].
    rewrite !(blanks_skip A tb) by exact Htb.
    unfold starts_logical. rewrite Hbd, Hbc. cbn [Nat.eqb negb andb layout_lines]. reflexivity.
  - cbn [app]. rewrite !step_general.
    destruct (negb (l_cont l1) && l_blank l1); [apply IH|].
    destruct (if l_cont l1 || (0 <? l_depth l1) then LOk ([], stk) else line_start stk (indent_col (l_ws l1)))
      as [[d s]| |]; [|reflexivity|reflexivity].
    assert (Hnl : nl_next (ls0 ++ l :: b :: tb) false = nl_next (ls0 ++ l :: b :: tb) true)
      by (destruct ls0; reflexivity).
    rewrite Hnl, IH. reflexivity.
Qed.

(* ---- 8. the theorems ----------------------------------------------------------- *)

Lemma render_plain : forall (A : Type) (b : blk A) ws, Forall plain (render ws b).
Proof.
  intros A. apply (blk_ind2 (fun b => forall ws, Forall plain (render ws b))).
  - intros a ws. cbn [render]. constructor; [apply plain_mkline|constructor].
  - intros a ext body HF ws. cbn [render]. constructor; [apply plain_mkline|].
    induction HF as [|b bs Hb _ IH]; [constructor|]. cbn [flat_map]. apply Forall_app. split; [apply Hb|exact IH].
Qed.

Lemma render_forest_plain : forall (A : Type) (f : list (blk A)) ws, Forall plain (render_forest ws f).
Proof.
  intros A f ws. induction f as [|b bs IH]; [constructor|].
  unfold render_forest. cbn [flat_map]. apply Forall_app. split; [apply render_plain|exact IH].
Qed.

(* THE ROUND TRIP (final newline present).
   For every well-formed forest f, every layout choice (the ext strings inside
   f), and every noisy version ls of its rendering at top level (white space []):
   the scanner accepts, the event stream -- with the physical lines of one
   logical line merged (squash) -- is exactly events f, in which every block is
   closed by its OUTDENT (the algorithm emits them lazily, at the next line
   start or at EOF), and re-nesting gives the forest back. *)
Theorem layout_roundtrip_lemma : forall (A : Type) (f : list (blk A)) (ls : list (pline A)),
  wf_forest f = true -> noisy (render_forest [] f) ls ->
  exists evs,
    layout ls true = LOk evs /\ squash evs = events f /\
    forall fuel, length (events f) < fuel -> nest fuel (squash evs) = Some (map erase f, []).
Proof.
  intros A f ls Hwf Hn.
  pose proof (noise_invariance_lemma A _ _ Hn (render_forest_plain A f []) [0] false false) as H.
  fold (layout ls true) in H. fold (layout (render_forest [] f) true) in H.
  rewrite (layout_render_lemma A f Hwf) in H.
  destruct (layout ls true) as [evs| |]; cbn [lres_map] in H; [|discriminate|discriminate].
  assert (H' : squash evs = events f) by congruence. clear H.
  exists evs. split; [reflexivity|]. split; [exact H'|].
  intros fuel Hf. rewrite H'. apply nest_events_lemma. exact Hf.
Qed.

(* without noise nothing is merged: the stream is events f on the nose *)
Theorem layout_roundtrip_clean_lemma : forall (A : Type) (f : list (blk A)),
  wf_forest f = true ->
  layout (render_forest [] f) true = LOk (events f) /\
  forall fuel, length (events f) < fuel -> nest fuel (events f) = Some (map erase f, []).
Proof.
  intros A f Hwf. split; [apply layout_render_lemma; exact Hwf|]. intros fuel Hf. apply nest_events_lemma. exact Hf.
Qed.

Lemma noisy_refl : forall (A : Type) (c : list (pline A)), noisy c c.
Proof. intros A c. induction c as [|l c IH]; [constructor|]. apply (N_line l [] c c); [constructor|exact IH]. Qed.

(* THE ROUND TRIP (no final newline character).
   (a) the last physical line has content: as with a final newline, except that
       the NEWLINE is missing when it would be the last token, i.e. when no
       block is open at EOF (with open blocks the scanner synthesises it before
       the OUTDENTs);
   (b) blank/comment lines follow the last line with content: no difference. *)
Theorem layout_roundtrip_nofinal_lemma : forall (A : Type) (f : list (blk A)) (ls : list (pline A)),
  wf_forest f = true -> noisy (render_forest [] f) ls ->
  exists evs,
    layout ls true = LOk evs /\ squash evs = events f /\
    (forall ls0 l, ls = ls0 ++ [l] -> is_content l = true ->
       layout ls false = LOk (drop_last_nl evs)) /\
    (forall ls0 l b tb, ls = ls0 ++ l :: b :: tb -> is_content l = true -> noise_blank b ->
       Forall blank_line tb -> layout ls false = LOk evs).
Proof.
  intros A f ls Hwf Hn. destruct (layout_roundtrip_lemma A f ls Hwf Hn) as (evs & Hl & Hs & _).
  exists evs. split; [exact Hl|]. split; [exact Hs|]. split.
  - intros ls0 l -> Hc. unfold layout in *.
    pose proof (no_final_newline_lemma A ls0 l Hc [0] false) as H. rewrite Hl in H. tauto.
  - intros ls0 l b tb -> Hc Hb Htb. unfold layout in *.
    rewrite (trailing_blank_lemma A ls0 l b tb Hc Hb Htb). exact Hl.
Qed.

Lemma drop_last_nl_newline : forall (A : Type) (e : list (ev A)), drop_last_nl (e ++ [EvNewline]) = e.
Proof. intros A e. rewrite drop_last_nl_app by discriminate. cbn. apply app_nil_r. Qed.

Lemma drop_last_nl_outdent : forall (A : Type) (e : list (ev A)), drop_last_nl (e ++ [EvOutdent]) = e ++ [EvOutdent].
Proof. intros A e. rewrite drop_last_nl_app by discriminate. reflexivity. Qed.

(* the same without noise, spelled out by the shape of the last statement *)
Theorem layout_roundtrip_nofinal_clean_lemma : forall (A : Type) (f : list (blk A)),
  wf_forest f = true ->
  layout (render_forest [] f) false = LOk (drop_last_nl (events f)) /\
  (forall f0 a, f = f0 ++ [Simple a] -> drop_last_nl (events f) = events f0 ++ [EvLine a]) /\
  (forall f0 a ext body, f = f0 ++ [Compound a ext body] -> drop_last_nl (events f) = events f).
Proof.
  intros A f Hwf. split; [|split].
  - destruct (layout_roundtrip_nofinal_lemma A f _ Hwf (noisy_refl A _)) as (evs & Hl & _ & Ha & _).
    rewrite (layout_render_lemma A f Hwf) in Hl. inversion Hl; subst evs.
    destruct (render_forest [] f) as [|l0 r0] eqn:E; [|].
    { destruct f as [|b bs]; [reflexivity|]. unfold render_forest in E. cbn [flat_map] in E.
      destruct (render_head A [] b) as (a & tl & Hr). rewrite Hr in E. discriminate. }
    assert (Hne : l0 :: r0 <> []) by discriminate.
    destruct (exists_last Hne) as (ls0 & l & Heq). rewrite Heq in *.
    apply (Ha ls0 l eq_refl).
    pose proof (render_forest_plain A f []) as Hp. rewrite E in Hp.
    apply Forall_app in Hp. destruct Hp as [_ Hp]. inversion Hp as [|? ? (Hb & _ & Hc) _]; subst.
    unfold is_content. rewrite Hb, Hc. reflexivity.
  - intros f0 a ->. unfold events. rewrite flat_map_app. cbn [flat_map events_blk app].
    change [EvLine a; EvNewline] with ([EvLine a] ++ [@EvNewline A]).
    rewrite app_assoc. apply drop_last_nl_newline.
  - intros f0 a ext body ->. unfold events. rewrite flat_map_app. cbn [flat_map events_blk].
    rewrite app_nil_r. rewrite app_comm_cons. rewrite app_comm_cons. rewrite app_comm_cons.
    rewrite app_assoc. apply drop_last_nl_outdent.
Qed.

(* inconsistent dedents in the family: after a compound statement (anywhere in a
   top-level forest), a logical line at a column strictly between the column of
   the header and the column of the body is rejected, whatever follows *)
Theorem forest_inconsistent_dedent_lemma : forall (A : Type) (a : A) ext body ws stk l post p fn,
  wf_blk (Compound a ext body) = true -> stk_ok stk -> hd 0 stk = indent_col ws ->
  plain l -> indent_col ws < indent_col (l_ws l) -> indent_col (l_ws l) < indent_col (ws ++ ext) ->
  layout_lines stk p (render ws (Compound a ext body) ++ l :: post) fn = LErr.
Proof.
  intros A a ext body ws stk l post p fn Hwf Hok Hhd Hp Hlo Hhi.
  rewrite (compound_open A a ext body (forest_spec_all A body) ws stk (l :: post) p false fn Hwf Hok Hhd)
    by (cbn [compat]; split; [exact Hp|lia]).
  rewrite step_plain by exact Hp.
  assert (Hok' : stk_ok (indent_col (ws ++ ext) :: stk)).
  { destruct stk as [|t r]; [destruct Hok|]. apply stk_ok_cons. cbn [hd] in Hhd. split; [lia|exact Hok]. }
  rewrite (inconsistent_dedent_line_start_lemma A _ _ Hok'); [reflexivity|cbn [hd]; lia|].
  intros [Heq|Hin]; [lia|]. pose proof (stk_ok_le_hd _ _ Hok Hin). lia.
Qed.

Theorem forest_inconsistent_dedent_top_lemma : forall (A : Type) (f : list (blk A)) (a : A) ext body l post fn,
  wf_forest f = true -> wf_blk (Compound a ext body) = true ->
  plain l -> 0 < indent_col (l_ws l) -> indent_col (l_ws l) < indent_col ext ->
  layout (render_forest [] f ++ render [] (Compound a ext body) ++ l :: post) fn = LErr.
Proof.
  intros A f a ext body l post fn Hwf Hwb Hp Hlo Hhi. unfold layout.
  rewrite (forest_spec_all A f [] [0] _ false false fn Hwf stk_ok_init eq_refl).
  - rewrite (forest_inconsistent_dedent_lemma A a ext body [] [0] l post false fn Hwb stk_ok_init eq_refl Hp Hlo Hhi).
    reflexivity.
  - cbn [render app compat]. split; [apply plain_mkline|cbn; lia].
Qed.

(* what squash forgets, recovered: for EVERY accepted file the payloads of the
   EvLine events are, in order, the payloads of the physical lines with content.
   Together with  squash evs = events f  this says that the extra EvLine events
   of a noisy rendering are the continuation lines, each directly after the
   first line of its logical line and before its NEWLINE. *)
Lemma lines_of_no_line : forall (A : Type) (d r : list (ev A)), no_line d -> lines_of (d ++ r) = lines_of r.
Proof.
  intros A d r Hd. induction Hd as [|e d He _ IH]; [reflexivity|].
  cbn [app]. destruct e; try destruct He; cbn [lines_of]; exact IH.
Qed.

Lemma layout_payloads_lemma : forall (A : Type) (ls : list (pline A)) stk p fn evs,
  layout_lines stk p ls fn = LOk evs -> lines_of evs = map l_payload (filter is_content ls).
Proof.
  intros A ls. induction ls as [|l rest IH]; intros stk p fn evs H.
  - cbn [layout_lines] in H. destruct stk as [|t open]; [discriminate|].
    destruct open; inversion H; subst; [reflexivity|].
    destruct (p && negb fn); cbn [app lines_of filter map];
      (rewrite <- (app_nil_r (repeat EvOutdent _)), lines_of_no_line by apply no_line_outdents; reflexivity).
  - rewrite step_general in H. cbn [filter]. unfold is_content at 1.
    destruct (l_cont l) eqn:Ec; cbn [negb andb orb] in *.
    + destruct (layout_lines stk (negb (nl_next rest fn)) rest fn) as [e| |] eqn:E; [|discriminate|discriminate].
      inversion H; subst. cbn [app lines_of map]. f_equal.
      rewrite (lines_of_no_line A (if nl_next rest fn then [EvNewline] else []))
        by (destruct (nl_next rest fn); repeat constructor).
      eapply IH; exact E.
    + destruct (l_blank l); cbn [negb]; [eapply IH; exact H|].
      destruct (if 0 <? l_depth l then LOk ([], stk) else line_start stk (indent_col (l_ws l)))
        as [[d s]| |] eqn:Hls; [|discriminate|discriminate].
      assert (Hd : no_line d).
      { destruct (0 <? l_depth l); [inversion Hls; constructor|eapply line_start_dents; exact Hls]. }
      destruct (layout_lines s (negb (nl_next rest fn)) rest fn) as [e| |] eqn:E; [|discriminate|discriminate].
      inversion H; subst. rewrite (lines_of_no_line A d) by exact Hd. cbn [lines_of map]. f_equal.
      rewrite (lines_of_no_line A (if nl_next rest fn then [EvNewline] else []))
        by (destruct (nl_next rest fn); repeat constructor).
      eapply IH; exact E.
Qed.

(* rejection is insensitive to noise as well *)
Corollary noisy_rejected_lemma : forall (A : Type) (clean ls : list (pline A)),
  noisy clean ls -> Forall plain clean -> layout clean true = LErr -> layout ls true = LErr.
Proof.
  intros A clean ls Hn Hp He. unfold layout in *.
  pose proof (noise_invariance_lemma A _ _ Hn Hp [0] false false) as H. rewrite He in H.
  destruct (layout_lines [0] false ls true); cbn [lres_map] in H; [discriminate|reflexivity|discriminate].
Qed.


(* ---- 9. examples (premises are satisfiable; not part of the proofs) ------------- *)

Module Ex.
  Definition T := true.  Definition S_ := false.   (* TAB, space *)
  (* three levels; the white-space strings mix spaces and tabs:
       1
       2 (            <- continues inside brackets on two lines, a blank one between
       ..3
       ..T4
       ..T.T.5 \      <- backslash continuation
       ..T6
       7                                                               *)
  Definition f : list (blk nat) :=
    [Simple 1;
     Compound 2 [S_; S_]
       [Compound 3 [T]
          [Compound 4 [S_; T; S_] [Simple 5];
           Simple 6]];
     Simple 7].
  Definition clean : list (pline nat) :=
    [mkline [] false 0 false 1;
     mkline [] false 0 false 2;
     mkline [S_; S_] false 0 false 3;
     mkline [S_; S_; T] false 0 false 4;
     mkline [S_; S_; T; S_; T; S_] false 0 false 5;
     mkline [S_; S_; T] false 0 false 6;
     mkline [] false 0 false 7].
  Definition ls : list (pline nat) :=
    [mkline [T; T] true 0 false 100;                      (* comment line, indented at will *)
     mkline [] false 0 false 1;
     mkline [] false 0 false 2;
     mkline [] false 1 false 20;                          (* inside brackets, column 0 *)
     mkline [S_] true 1 false 101;                        (* blank line inside brackets *)
     mkline [T; T; T] false 2 false 21;                   (* inside brackets, far right *)
     mkline [S_; S_] false 0 false 3;
     mkline [] true 0 false 102;                          (* blank line, no white space *)
     mkline [S_; S_; T] false 0 false 4;
     mkline [S_; S_; T; S_; T; S_] false 0 false 5;
     mkline [S_] false 0 true 50;                         (* after a backslash *)
     mkline [S_; S_; T] false 0 false 6;
     mkline [S_; S_; S_; S_; S_] true 0 false 103;        (* comment at an odd column *)
     mkline [] false 0 false 7;
     mkline [T] true 0 false 104].                        (* trailing blank line *)
  Definition out : list (ev nat) :=
    [EvLine 1; EvNewline;
     EvLine 2; EvLine 20; EvLine 21; EvNewline; EvIndent;
     EvLine 3; EvNewline; EvIndent;
     EvLine 4; EvNewline; EvIndent;
     EvLine 5; EvLine 50; EvNewline; EvOutdent;
     EvLine 6; EvNewline; EvOutdent; EvOutdent;
     EvLine 7; EvNewline].

  Example ex_wf : wf_forest f = true. Proof. reflexivity. Qed.
  Example ex_render : render_forest [] f = clean. Proof. reflexivity. Qed.
  Example ex_cols : map (fun l => indent_col (l_ws l)) clean = [0; 0; 2; 8; 14; 8; 0].
  Proof. vm_compute. reflexivity. Qed.
  Example ex_noisy : noisy (render_forest [] f) ls.
  Proof.
    rewrite ex_render. unfold clean, ls.
    apply N_blank.
    apply (N_line _ []); [constructor|].
    apply (N_line _ [mkline [] false 1 false 20; mkline [S_] true 1 false 101; mkline [T; T; T] false 2 false 21]).
    { apply CG_bracket. apply CG_blank; [discriminate|]. apply CG_bracket. apply CG_nil. }
    apply (N_line _ []); [constructor|]. apply N_blank.
    apply (N_line _ []); [constructor|].
    apply (N_line _ [mkline [S_] false 0 true 50]); [apply CG_backslash; apply CG_nil|].
    apply (N_line _ []); [constructor|]. apply N_blank.
    apply (N_line _ []); [constructor|]. apply N_blank. apply N_nil.
  Qed.
  Example ex_layout : layout ls true = LOk out /\ layout ls false = LOk out.
  Proof. split; vm_compute; reflexivity. Qed.
  Example ex_squash : squash out = events f. Proof. reflexivity. Qed.
  Example ex_nest : nest 30 (squash out) = Some (map erase f, []). Proof. reflexivity. Qed.
  Example ex_clean : layout clean true = LOk (events f) /\ length (events f) = 20.
  Proof. split; vm_compute; reflexivity. Qed.

  (* no final newline character: last statement simple / compound, trailing blank *)
  Example ex_nofinal_simple :
    layout clean false = LOk (removelast (events f)) /\ drop_last_nl (events f) = removelast (events f).
  Proof. split; vm_compute; reflexivity. Qed.
  Example ex_nofinal_compound :
    let g := [Compound 1 [T] [Simple 2]] in
    layout (render_forest [] g) false = LOk [EvLine 1; EvNewline; EvIndent; EvLine 2; EvNewline; EvOutdent] /\
    layout (render_forest [] g) false = LOk (events g) /\ drop_last_nl (events g) = events g.
  Proof. cbv zeta. repeat split; vm_compute; reflexivity. Qed.
  Example ex_nofinal_premises :
    (exists ls0 l, clean = ls0 ++ [l] /\ is_content l = true) /\
    (exists ls0 l b tb, ls = ls0 ++ l :: b :: tb /\ is_content l = true /\ noise_blank b /\ Forall blank_line tb).
  Proof.
    split.
    - exists (removelast clean), (mkline [] false 0 false 7). split; reflexivity.
    - exists (removelast (removelast ls)), (mkline [] false 0 false 7), (mkline [T] true 0 false 104), [].
      repeat split. constructor.
  Qed.

  (* inconsistent dedents *)
  Example ex_dedent_line_start :
    stk_ok [8; 4; 0] /\ 2 < hd 0 [8; 4; 0] /\ ~ In 2 [8; 4; 0] /\ @line_start nat [8; 4; 0] 2 = LErr /\
    In 4 [8; 4; 0] /\ @line_start nat [8; 4; 0] 4 = LOk (repeat EvOutdent 1, [4; 0]) /\
    In 0 [8; 4; 0] /\ @line_start nat [8; 4; 0] 0 = LOk (repeat EvOutdent 2, [0]).
  Proof. cbn. repeat split; try lia; try tauto. Qed.
  (* "if x:\n\ty\n  z": TAB is column 8, two spaces is column 2, not on the stack [8; 0] *)
  Example ex_forest_dedent :
    let l := mkline [S_; S_] false 0 false 9 in
    wf_blk (Compound 1 [T] [Simple 2]) = true /\ plain l /\
    0 < indent_col (l_ws l) /\ indent_col (l_ws l) < indent_col [T] /\
    layout (render_forest [] [Simple 0] ++ render [] (Compound 1 [T] [Simple 2]) ++ [l]) true = LErr.
  Proof. cbv zeta. repeat split; vm_compute; lia || reflexivity. Qed.
  (* the same line after the three-level forest's deepest block: column 2 is on
     the stack there, column 4 is not *)
  Example ex_forest_dedent2 :
    layout (firstn 5 clean ++ [mkline [S_; S_] false 0 false 9]) true
      = LOk [EvLine 1; EvNewline; EvLine 2; EvNewline; EvIndent; EvLine 3; EvNewline; EvIndent;
             EvLine 4; EvNewline; EvIndent; EvLine 5; EvNewline; EvOutdent; EvOutdent; EvLine 9; EvNewline; EvOutdent] /\
    layout (firstn 5 clean ++ [mkline [S_; S_; S_; S_] false 0 false 9]) true = LErr.
  Proof. split; vm_compute; reflexivity. Qed.
  (* the payload lemma on the noisy file; rejection under noise *)
  Example ex_payloads : lines_of out = map l_payload (filter is_content ls) /\ lines_of out = [1; 2; 20; 21; 3; 4; 5; 50; 6; 7].
  Proof. split; reflexivity. Qed.
  Example ex_noisy_rejected :
    let bad := firstn 5 clean ++ [mkline [S_; S_; S_; S_] false 0 false 9] in
    let bad' := firstn 10 ls ++ [mkline [T] true 0 false 105; mkline [S_; S_; S_; S_] false 0 false 9;
                                  mkline [] false 3 false 90] in
    Forall plain bad /\ layout bad true = LErr /\ layout bad' true = LErr.
  Proof. cbv zeta. split; [repeat constructor|split; vm_compute; reflexivity]. Qed.
  (* why a blank line BETWEEN logical lines must carry depth 0: l_depth is the
     bracket depth at the start of the line, and the model decides on the NEWLINE
     after a line by looking at the depth of the next physical line.  A pline list
     in which a blank line claims depth 1 right after a complete logical line is
     not the image of any file; the model then drops the NEWLINE. *)
  Example ex_blank_depth_inconsistent :
    layout [mkline [] false 0 false 1; mkline [] true 1 false 9] true = LOk [EvLine 1] /\
    layout [mkline [] false 0 false 1; mkline [] true 0 false 9] true = LOk [EvLine 1; EvNewline].
  Proof. split; reflexivity. Qed.
  (* a first line that is indented opens a block: not in the family *)
  Example ex_first_line_indented :
    layout [mkline [S_] false 0 false 1] true = LOk [EvIndent; EvLine 1; EvNewline; EvOutdent].
  Proof. reflexivity. Qed.
End Ex.
