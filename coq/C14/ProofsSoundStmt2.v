(* C14 -- SOUNDNESS of the statement / file parser, part 2: suites, if/elif/else,
   for, while, def, files; the induction on fuel; the exported lemmas. *)
From Coq Require Import ZArith List String Bool Arith Lia.
From SV Require Import C14.Tokens C14.Parse C14.Print C14.PrintStmt C14.ProofsBase C14.ProofsExpr C14.ProofsLists
  C14.ProofsStmt C14.ProofsStmt2 C14.ProofsSound C14.ProofsValid C14.ProofsValid2 C14.ProofsValid3
  C14.ProofsSoundStmt.
Import ListNotations.
Open Scope nat_scope.

Section Step.
Variable strict : bool.
Variable self : P.
Hypothesis HS : Sound self.
Hypothesis HV : Valid self.
Hypothesis HT : SoundS strict self.

Lemma colonSuite_sound ts l r :
  colonSuite self ts = Ok (l, r) -> nebS strict (U ts) ->
  exists s, csuite_okg strict s = true /\ flatten_s s = l /\ renders (U ts) (colon :: tokens_s s) r.
Proof.
  unfold colonSuite. destruct (peek ts) eqn:E; try discriminate. pk E. intros H Hn.
  destruct (ss_suite _ _ HT _ _ _ H) as (s & Hok & Hf & Hr); [neb|].
  exists s. split; [exact Hok|]. split; [exact Hf|].
  rewrite Up. exact (renders_pre [COLON] [colon] _ _ _ eq_refl Hr).
Qed.

Lemma suite_sound ts l r :
  suite_body self ts = Ok (l, r) -> nebS strict (U ts) ->
  exists s, csuite_okg strict s = true /\ flatten_s s = l /\ renders (U ts) (tokens_s s) r.
Proof.
  unfold suite_body. rewrite match_NEWLINE. destruct (tok_eqb (peek ts) NEWLINE) eqn:Hnl.
  - apply tok_eqb_eq in Hnl. pk Hnl. cbv zeta.
    destruct (peek (tl ts)) eqn:E1; try discriminate. pk E1.
    destruct (p_suiteStmts self (tl (tl ts))) as [[body ts1]| |] eqn:E2; try discriminate.
    destruct (peek ts1) eqn:E3; try discriminate. pk E3.
    intros H Hn; inversion H; subst; clear H.
    destruct (ss_suiteStmts _ _ HT _ _ _ E2) as (cs & Hok & Hf & Hr & _); [neb|].
    assert (Hx : U (tl (tl ts)) = U (flat_map tokens_c cs) ++ U ts1)
      by (apply (renders_not_eof _ _ _ Hr); rewrite E3; discriminate).
    exists (SBlock cs). split; [|split].
    + cbn [csuite_okg]. rewrite Hok. destruct strict; [|reflexivity].
      destruct cs as [|c cs]; [|reflexivity]. exfalso.
      apply (Hn eq_refl [NEWLINE] (U (tl ts1))). rewrite Up, Up0, Hx, Up1. reflexivity.
    + exact Hf.
    + left. cbn [tokens_s]. rewrite Up, Up0, Hx, Up1. un. reflexivity.
  - intros H _. destruct (ss_simpleStmt _ _ HT _ _ _ H) as (Hok & sm & Hr).
    exists (SInline l sm). split; [exact Hok|]. split; [reflexivity|exact Hr].
Qed.

Lemma suiteStmts_sound ts l r :
  suiteStmts_body self ts = Ok (l, r) -> nebS strict (U ts) ->
  exists cs, forallb (cstmt_okg strict) cs = true /\ flat_map flatten cs = l /\
             renders (U ts) (flat_map tokens_c cs) r /\ (peek ts = EOF -> cs = [] /\ r = ts).
Proof.
  unfold suiteStmts_body. rewrite match_outdent_eof. destruct (outdent_eof (peek ts)) eqn:Ho.
  - intros H Hn; inversion H; subst; clear H. exists []. split; [reflexivity|]. split; [reflexivity|].
    split; [left; reflexivity|]. intros _. split; reflexivity.
  - destruct (p_stmt self ts) as [[l1 ts1]| |] eqn:E1; try discriminate.
    destruct (p_suiteStmts self ts1) as [[l2 ts2]| |] eqn:E2; try discriminate.
    intros H Hn; inversion H; subst; clear H.
    destruct (ss_stmt _ _ HT _ _ _ E1 Hn) as (c & Hc & Hf & Hr).
    destruct (ss_suiteStmts _ _ HT _ _ _ E2 (renders_nebS _ _ _ _ Hr Hn)) as (cs & Hcs & Hfs & Hrs & Heof).
    exists (c :: cs). split; [cbn [forallb]; rewrite Hc, Hcs; reflexivity|].
    split; [cbn [flat_map]; rewrite Hf, Hfs; reflexivity|]. split.
    + cbn [flat_map]. apply (renders_seq _ _ ts1); [exact Hr|exact Hrs|].
      intros He. destruct (Heof He) as [-> ->]. split; reflexivity.
    + intros He. rewrite He in Ho. discriminate.
Qed.

Lemma elifs_sound ts l els r :
  elifs_body self ts = Ok (l, els, r) -> nebS strict (U ts) ->
  exists ce co, elifs_okb strict ce = true /\ else_okb strict co = true /\ flat_elifs ce = l /\ flat_else co = els /\
                renders (U ts) (flat_map elif_tokens ce ++ else_tokens co) r /\
                (peek ts = EOF -> (flat_map elif_tokens ce ++ else_tokens co = [] /\ r = ts)).
Proof.
  unfold elifs_body. cbv zeta. rewrite match_ee. destruct (is_ee (peek ts)) eqn:Hee.
  2:{ intros H Hn; inversion H; subst; clear H. exists [], None.
      repeat (split; [reflexivity|]). split; [left; reflexivity|]. intros _. split; reflexivity. }
  destruct (peek ts) eqn:E; try discriminate Hee; pk E; cbv beta iota.
  - (* ELIF *)
    destruct (p_test self (tl ts)) as [[c ts1]| |] eqn:E1; try discriminate.
    pose proof (s_test _ HS _ _ _ E1) as U1. pose proof (v_test _ HV _ _ _ E1) as G1.
    destruct (colonSuite self ts1) as [[body ts2]| |] eqn:E2; try discriminate.
    destruct (p_elifs self ts2) as [[[l' els'] ts3]| |] eqn:E3; try discriminate.
    intros H Hn; inversion H; subst; clear H.
    assert (Hn1 : nebS strict (U ts1)) by neb.
    destruct (colonSuite_sound _ _ _ E2 Hn1) as (s & Hs & Hfs & Hrs).
    destruct (ss_elifs _ _ HT _ _ _ _ E3 (renders_nebS _ _ _ _ Hrs Hn1))
      as (ce & co & Hce & Hco & Hfe & Hfo & Hre & Heof).
    exists ((peekpos ts, c, s) :: ce), co.
    split; [unfold elifs_okb; cbn [forallb]; rewrite test_ok'_eq, (good_test_ok _ G1), Hs; exact Hce|].
    split; [exact Hco|]. split; [rewrite <- Hfs, <- Hfe; reflexivity|]. split; [exact Hfo|].
    split; [|intros He; discriminate He].
    apply (renders_3 _ ((ELIF, peekpos ts) :: tokens c) (colon :: tokens_s s)
             (flat_map elif_tokens ce ++ else_tokens co) ts1 ts2 r).
    + rewrite Up, U1. un. reflexivity.
    + exact Hrs.
    + exact Hre.
    + exact Heof.
    + cbn [flat_map elif_tokens app]. rewrite <- !app_assoc. reflexivity.
  - (* ELSE *)
    destruct (colonSuite self (tl ts)) as [[body ts1]| |] eqn:E1; try discriminate.
    intros H Hn; inversion H; subst; clear H.
    assert (Hn1 : nebS strict (U (tl ts))) by neb.
    destruct (colonSuite_sound _ _ _ E1 Hn1) as (s & Hs & Hfs & Hrs).
    exists [], (Some (peekpos ts, s)).
    split; [reflexivity|]. split; [exact Hs|]. split; [reflexivity|]. split; [rewrite <- Hfs; reflexivity|].
    split; [|intros He; discriminate He].
    apply (renders_2 _ [(ELSE, peekpos ts)] (colon :: tokens_s s) (tl ts) r).
    + rewrite Up. reflexivity.
    + exact Hrs.
    + reflexivity.
Qed.

Lemma nil_renders r : renders (U r) [] r.
Proof. left. reflexivity. Qed.

Lemma stmt_sound ts l r :
  stmt_body self ts = Ok (l, r) -> nebS strict (U ts) ->
  exists c, cstmt_okg strict c = true /\ flatten c = l /\ renders (U ts) (tokens_c c) r.
Proof.
  unfold stmt_body. cbv zeta. rewrite match_compound. destruct (is_compound (peek ts)) eqn:Hc.
  2:{ intros H _. destruct (ss_simpleStmt _ _ HT _ _ _ H) as (Hok & sm & Hr).
      exists (CSimple l sm). split; [exact Hok|]. split; [reflexivity|exact Hr]. }
  destruct (peek ts) eqn:E; try discriminate Hc; pk E; cbv beta iota.
  - (* DEF *)
    destruct (peek (tl ts)) eqn:E1; try discriminate. pk E1. cbv zeta.
    destruct (peek (tl (tl ts))) eqn:E2; try discriminate. pk E2.
    destruct (p_params self true (tl (tl (tl ts)))) as [[[ps tc] ts1]| |] eqn:E3; try discriminate.
    destruct (s_params _ HS _ _ _ _ _ E3) as [U3 _]. rewrite stoks_true in U3.
    destruct (v_params _ HV _ _ _ _ _ E3) as [V3 T3].
    destruct (peek ts1) eqn:E4; try discriminate. pk E4.
    destruct (colonSuite self (tl ts1)) as [[body ts2]| |] eqn:E5; try discriminate.
    intros H Hn; inversion H; subst; clear H.
    assert (Hn1 : nebS strict (U (tl ts1))) by neb.
    destruct (colonSuite_sound _ _ _ E5 Hn1) as (s & Hs & Hfs & Hrs).
    exists (CDef (peekpos ts) (peekpos (tl ts)) name (peekpos (tl (tl ts))) ps tc (peekpos ts1) s).
    split; [|split; [rewrite <- Hfs; reflexivity|]].
    + cbn [cstmt_okg]. change (forallb param_ok' ps) with (forallb param_ok ps). rewrite V3, Hs.
      destruct tc; [|reflexivity]. destruct (T3 eq_refl) as [F|F]; [discriminate|].
      destruct ps; [congruence|reflexivity].
    + cbn [tokens_c].
      apply (renders_2 _ ((DEF, peekpos ts) :: (IDENT name, peekpos (tl ts)) :: (LPAREN, peekpos (tl (tl ts))) ::
                          seplist ps ++ trail tc ++ [(RPAREN, peekpos ts1)]) (colon :: tokens_s s) (tl ts1) r).
      * rewrite Up, Up0, Up1, U3, Up2. un. reflexivity.
      * exact Hrs.
      * cbn [app]. rewrite <- !app_assoc. reflexivity.
  - (* FOR *)
    destruct (p_loopVars self (tl ts)) as [[vars ts1]| |] eqn:E1; try discriminate.
    pose proof (s_loopVars _ HS _ _ _ E1) as U1. pose proof (v_loopVars _ HV _ _ _ E1) as V1.
    destruct (peek ts1) eqn:E2; try discriminate. pk E2.
    destruct (p_expr self false (tl ts1)) as [[x ts2]| |] eqn:E3; try discriminate.
    pose proof (s_expr _ HS _ _ _ _ E3) as U3. destruct (v_expr _ HV _ _ _ _ E3) as [G3 N3].
    destruct (colonSuite self ts2) as [[body ts3]| |] eqn:E4; try discriminate.
    intros H Hn; inversion H; subst; clear H.
    assert (Hn1 : nebS strict (U ts2)) by neb.
    destruct (colonSuite_sound _ _ _ E4 Hn1) as (s & Hs & Hfs & Hrs).
    exists (CFor (peekpos ts) vars x s).
    split; [|split; [rewrite <- Hfs; reflexivity|]].
    + cbn [cstmt_okg]. rewrite loopvars_ok'_eq, (lv_ok_IN _ _ V1 E2), (wf_of_good _ G3 (N3 eq_refl)), Hs. reflexivity.
    + cbn [tokens_c].
      apply (renders_2 _ ((FOR, peekpos ts) :: tokens vars ++ (IN, nopos) :: tokens x) (colon :: tokens_s s) ts2 r).
      * rewrite Up, U1, Up0, U3. un. reflexivity.
      * exact Hrs.
      * cbn [app]. rewrite <- !app_assoc. reflexivity.
  - (* IF *)
    destruct (p_test self (tl ts)) as [[c ts1]| |] eqn:E1; try discriminate.
    pose proof (s_test _ HS _ _ _ E1) as U1. pose proof (v_test _ HV _ _ _ E1) as G1.
    destruct (colonSuite self ts1) as [[body ts2]| |] eqn:E2; try discriminate.
    destruct (p_elifs self ts2) as [[[l' els'] ts3]| |] eqn:E3; try discriminate.
    intros H Hn; inversion H; subst; clear H.
    assert (Hn1 : nebS strict (U ts1)) by neb.
    destruct (colonSuite_sound _ _ _ E2 Hn1) as (s & Hs & Hfs & Hrs).
    destruct (ss_elifs _ _ HT _ _ _ _ E3 (renders_nebS _ _ _ _ Hrs Hn1))
      as (ce & co & Hce & Hco & Hfe & Hfo & Hre & Heof).
    exists (CIf (peekpos ts) c s ce co).
    split; [|split].
    + cbn [cstmt_okg]. rewrite test_ok'_eq, (good_test_ok _ G1), Hs. cbn [andb].
      unfold elifs_okb in Hce. unfold else_okb in Hco. rewrite Hce. exact Hco.
    + rewrite <- Hfs, <- Hfe, <- Hfo. reflexivity.
    + cbn [tokens_c].
      change (flat_map (fun '(q, c0, b) => (ELIF, q) :: tokens c0 ++ colon :: tokens_s b) ce) with (flat_map elif_tokens ce).
      change (match co with Some (q, b) => (ELSE, q) :: colon :: tokens_s b | None => [] end) with (else_tokens co).
      apply (renders_3 _ ((IF, peekpos ts) :: tokens c) (colon :: tokens_s s)
               (flat_map elif_tokens ce ++ else_tokens co) ts1 ts2 r).
      * rewrite Up, U1. un. reflexivity.
      * exact Hrs.
      * exact Hre.
      * exact Heof.
      * cbn [app]. reflexivity.
  - (* WHILE *)
    destruct (p_test self (tl ts)) as [[c ts1]| |] eqn:E1; try discriminate.
    pose proof (s_test _ HS _ _ _ E1) as U1. pose proof (v_test _ HV _ _ _ E1) as G1.
    destruct (colonSuite self ts1) as [[body ts2]| |] eqn:E2; try discriminate.
    intros H Hn; inversion H; subst; clear H.
    assert (Hn1 : nebS strict (U ts1)) by neb.
    destruct (colonSuite_sound _ _ _ E2 Hn1) as (s & Hs & Hfs & Hrs).
    exists (CWhile (peekpos ts) c s).
    split; [|split; [rewrite <- Hfs; reflexivity|]].
    + cbn [cstmt_okg]. rewrite test_ok'_eq, (good_test_ok _ G1), Hs. reflexivity.
    + cbn [tokens_c].
      apply (renders_2 _ ((WHILE, peekpos ts) :: tokens c) (colon :: tokens_s s) ts1 r).
      * rewrite Up, U1. un. reflexivity.
      * exact Hrs.
      * cbn [app]. reflexivity.
Qed.

Lemma file_sound ts l :
  file_body self ts = Ok l -> nebS strict (U ts) ->
  exists f, forallb (cstmt_okg strict) f = true /\ flat_map flatten f = l /\ file_text (U ts) f /\ (peek ts = EOF -> f = []).
Proof.
  unfold file_body. rewrite match_file. destruct (tok_eqb (peek ts) EOF) eqn:He.
  - apply tok_eqb_eq in He. intros H Hn; inversion H; subst; clear H. exists [].
    split; [reflexivity|]. split; [reflexivity|]. split; [|reflexivity].
    apply FT_end. apply peek_EOF_at_eof. exact He.
  - assert (Hne : peek ts <> EOF) by (intros Hc; rewrite Hc in He; discriminate He).
    destruct (tok_eqb (peek ts) NEWLINE) eqn:Hnl.
    + apply tok_eqb_eq in Hnl. pk Hnl. intros H Hn.
      destruct (ss_file _ _ HT _ _ H) as (f & Hok & Hf & Ht & _); [neb|].
      exists f. split; [exact Hok|]. split; [exact Hf|]. split; [|intros Hc; congruence].
      rewrite Up. apply FT_blank. exact Ht.
    + destruct (p_stmt self ts) as [[l1 ts1]| |] eqn:E1; try discriminate.
      destruct (p_file self ts1) as [l2| |] eqn:E2; try discriminate.
      intros H Hn; inversion H; subst; clear H.
      destruct (ss_stmt _ _ HT _ _ _ E1 Hn) as (c & Hc & Hf & Hr).
      destruct (ss_file _ _ HT _ _ E2 (renders_nebS _ _ _ _ Hr Hn)) as (f & Hok & Hff & Ht & Heof).
      destruct Hr as [Hr|(Hend & X & HX & Hr)].
      * exists (c :: f). split; [cbn [forallb]; rewrite Hc, Hok; reflexivity|].
        split; [cbn [flat_map]; rewrite Hf, Hff; reflexivity|]. split; [|intros Hc'; congruence].
        rewrite Hr. apply FT_stmt. exact Ht.
      * specialize (Heof Hend). subst f. exists [c]. split; [cbn [forallb]; rewrite Hc; reflexivity|].
        split; [cbn [flat_map]; rewrite Hf, <- Hff; reflexivity|]. split; [|intros Hc'; congruence].
        rewrite Hr. apply (FT_last c X (U ts1) HX). apply peek_EOF_at_eof. exact Hend.
Qed.

End Step.

Lemma SoundS_bottom strict : SoundS strict bottom.
Proof.
  constructor; cbn [bottom p_loadNames p_simpleStmt p_suite p_suiteStmts p_elifs p_stmt p_file];
    intros; discriminate.
Qed.

Lemma SoundS_step strict self : Sound self -> Valid self -> SoundS strict self -> SoundS strict (step self).
Proof.
  intros HS HV HT.
  constructor; cbn [step p_loadNames p_simpleStmt p_suite p_suiteStmts p_elifs p_stmt p_file].
  - exact (loadNames_sound strict self HT).
  - exact (simpleStmt_sound strict self HS HV HT).
  - exact (suite_sound strict self HT).
  - exact (suiteStmts_sound strict self HT).
  - exact (elifs_sound strict self HS HV HT).
  - exact (stmt_sound strict self HS HV HT).
  - exact (file_sound strict self HT).
Qed.

Theorem parsers_soundS_lemma : forall strict n, SoundS strict (parsers n).
Proof.
  intros strict. induction n as [|n IH]; [exact (SoundS_bottom strict)|].
  exact (SoundS_step _ _ (parsers_sound_lemma n) (valid_all n) IH).
Qed.

(* ---- strict = true is the well-formedness of PrintStmt.v ---- *)
Lemma okg_true : forall K,
  (forall c, csize c <= K -> cstmt_okg true c = cstmt_ok c) /\
  (forall s, csize_s s <= K -> csuite_okg true s = csuite_ok s).
Proof.
  induction K as [|K [IHc IHs]].
  - split; [intros c H; pose proof (csize_pos c); lia|intros s H; destruct s; cbn in H; lia].
  - assert (Hs : forall s, csize_s s <= S K -> csuite_okg true s = csuite_ok s).
    { intros s Hsz. destruct s as [l sm|l]; cbn [csuite_okg csuite_ok csize_s negb orb] in *; [reflexivity|].
      f_equal. fold (csizes l) in Hsz. assert (Hl : csizes l <= K) by lia. clear Hsz.
      induction l as [|c l IHl]; [reflexivity|]. rewrite csizes_cons in Hl. cbn [forallb].
      rewrite (IHc c ltac:(lia)), IHl by lia. reflexivity. }
    split; [|exact Hs].
    intros c Hsz. destruct c as [l sm|p np name lp ps tc rp body|p c body elifs els|p vars x body|p c body];
      cbn [cstmt_okg cstmt_ok csize] in *.
    + reflexivity.
    + rewrite (IHs body) by lia. reflexivity.
    + rewrite elifs_size_eq in Hsz. rewrite (IHs body) by lia.
      assert (He : forallb (fun '(_, c0, b) => test_ok' c0 && csuite_okg true b) elifs =
                   forallb (fun '(_, c0, b) => test_ok' c0 && csuite_ok b) elifs).
      { assert (Hl : elifs_size elifs <= K) by lia. clear Hsz.
        induction elifs as [|[[q c1] b] elifs IHl]; [reflexivity|].
        change (elifs_size ((q, c1, b) :: elifs)) with (1 + size c1 + csize_s b + elifs_size elifs) in Hl.
        cbn [forallb]. rewrite (IHs b), IHl by lia. reflexivity. }
      rewrite He. destruct els as [[q b]|]; [|reflexivity].
      cbn [else_size] in *. rewrite (IHs b) by lia. reflexivity.
    + rewrite (IHs body) by lia. reflexivity.
    + rewrite (IHs body) by lia. reflexivity.
Qed.

Lemma okg_true_c c : cstmt_okg true c = cstmt_ok c.
Proof. destruct (okg_true (csize c)) as [H _]. exact (H c (le_n _)). Qed.
Lemma okg_true_s s : csuite_okg true s = csuite_ok s.
Proof. destruct (okg_true (csize_s s)) as [_ H]. exact (H s (le_n _)). Qed.
Lemma okg_true_l l : forallb (cstmt_okg true) l = forallb cstmt_ok l.
Proof. induction l as [|c l IH]; [reflexivity|]. cbn [forallb]. rewrite okg_true_c, IH. reflexivity. Qed.

(* ---- exported: the strict reading, under the scanner invariant ---- *)
Lemma parse_sound_stmt_lemma : forall n ts l r,
  p_stmt (parsers n) ts = Ok (l, r) -> no_empty_block (U ts) ->
  exists c, cstmt_ok c = true /\ flatten c = l /\ renders (U ts) (tokens_c c) r.
Proof.
  intros n ts l r H Hn.
  destruct (ss_stmt _ _ (parsers_soundS_lemma true n) _ _ _ H (nebS_true _ Hn)) as (c & Hc & Hf & Hr).
  exists c. rewrite <- okg_true_c. auto.
Qed.

Lemma parse_sound_simple_stmt_lemma : forall n ts l r,
  p_simpleStmt (parsers n) ts = Ok (l, r) ->
  line_ok l = true /\ exists sm, renders (U ts) (line_tokens l sm) r.
Proof. intros n. exact (ss_simpleStmt _ _ (parsers_soundS_lemma true n)). Qed.

Lemma parse_sound_suite_lemma : forall n ts l r,
  p_suite (parsers n) ts = Ok (l, r) -> no_empty_block (U ts) ->
  exists s, csuite_ok s = true /\ flatten_s s = l /\ renders (U ts) (tokens_s s) r.
Proof.
  intros n ts l r H Hn.
  destruct (ss_suite _ _ (parsers_soundS_lemma true n) _ _ _ H (nebS_true _ Hn)) as (s & Hs & Hf & Hr).
  exists s. rewrite <- okg_true_s. auto.
Qed.

Lemma parse_sound_file_lemma : forall n ts l,
  p_file (parsers n) ts = Ok l -> no_empty_block (U ts) ->
  exists f, forallb cstmt_ok f = true /\ flat_map flatten f = l /\ file_text (U ts) f.
Proof.
  intros n ts l H Hn.
  destruct (ss_file _ _ (parsers_soundS_lemma true n) _ _ H (nebS_true _ Hn)) as (f & H1 & H2 & H3 & _).
  exists f. rewrite <- okg_true_l. auto.
Qed.

(* ---- exported: NO premise; blocks may be empty ---- *)
Lemma parse_sound_stmt_weak_lemma : forall n ts l r,
  p_stmt (parsers n) ts = Ok (l, r) ->
  exists c, cstmt_okg false c = true /\ flatten c = l /\ renders (U ts) (tokens_c c) r.
Proof. intros n ts l r H. exact (ss_stmt _ _ (parsers_soundS_lemma false n) _ _ _ H (nebS_false _)). Qed.

Lemma parse_sound_file_weak_lemma : forall n ts l,
  p_file (parsers n) ts = Ok l ->
  exists f, forallb (cstmt_okg false) f = true /\ flat_map flatten f = l /\ file_text (U ts) f.
Proof.
  intros n ts l H.
  destruct (ss_file _ _ (parsers_soundS_lemma false n) _ _ H (nebS_false _)) as (f & H1 & H2 & H3 & _).
  exists f. auto.
Qed.
