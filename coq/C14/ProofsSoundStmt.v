(* C14 -- SOUNDNESS of the statement / file parser, part 1: definitions, load,
   small statements, simple-statement lines.

   Statement (for all fuel, all token lists): whatever p_stmt / p_file accept is
   the rendering (PrintStmt.v) of a WELL-FORMED concrete statement tree whose
   Go-shaped projection `flatten` is the returned tree.  Token lists are
   compared through U (ProofsSound.v: kinds and values, positions dropped,
   NOT_IN expanded to NOT IN); the layout tokens NEWLINE / INDENT / OUTDENT are
   kept as they are.  Two facts of the concrete grammar show in the statement:
   - grammar.txt "'\n' optional at EOF": the NEWLINE that ends the last line may
     be missing when the lookahead is EOF (`renders`, second alternative);
   - parseSuite accepts NEWLINE INDENT OUTDENT as an empty block, which is not a
     suite of the grammar (`stmt+`); the scanner never emits INDENT directly
     followed by OUTDENT (an INDENT is always followed by the first token of the
     line that caused it), so that is the premise `no_empty_block`.
   The induction is done once for both readings (`strict`): strict = true is
   cstmt_ok under the premise; strict = false needs no premise and allows the
   empty block -- so the empty block is the only deviation from the grammar. *)
From Coq Require Import ZArith List String Bool Arith Lia.
From SV Require Import C14.Tokens C14.Parse C14.Print C14.PrintStmt C14.ProofsBase C14.ProofsExpr C14.ProofsLists
  C14.ProofsStmt C14.ProofsStmt2 C14.ProofsSound C14.ProofsValid C14.ProofsValid2 C14.ProofsValid3.
Import ListNotations.
Open Scope nat_scope.

(* ---- the premise and the shape of the conclusion ---- *)

(* no INDENT immediately followed by OUTDENT (scanner invariant) *)
Definition no_empty_block (u : list tok) : Prop := forall a b, u <> a ++ INDENT :: OUTDENT :: b.

Lemma neb_app_r a b : no_empty_block (a ++ b) -> no_empty_block b.
Proof. intros H x y E. apply (H (a ++ x) y). rewrite E, <- app_assoc. reflexivity. Qed.
Lemma neb_cons t b : no_empty_block (t :: b) -> no_empty_block b.
Proof. apply (neb_app_r [t]). Qed.

(* the lookahead is EOF: the list is over, or an EOF token (what follows an EOF
   token is never looked at) *)
Definition at_eof (u : list tok) : Prop := u = [] \/ exists junk, u = EOF :: junk.

Lemma peek_EOF_at_eof r : peek r = EOF -> at_eof (U r).
Proof.
  destruct r as [|[t p] r]; cbn [peek]; [left; reflexivity|].
  intros ->. right. exists (U r). reflexivity.
Qed.

(* `u` (the kinds of the tokens handed to a parser function) is the rendering
   `toks` followed by what the function left (`r`); or, when the lookahead left
   is EOF, the rendering without its final NEWLINE. *)
Definition renders (u : list tok) (toks r : list ptok) : Prop :=
  u = U toks ++ U r \/
  (peek r = EOF /\ exists X, U toks = X ++ [NEWLINE] /\ u = X ++ U r).

Lemma renders_pre a A u toks r : a = U A -> renders u toks r -> renders (a ++ u) (A ++ toks) r.
Proof.
  intros -> [->|(He & X & HX & ->)].
  - left. rewrite U_app, <- app_assoc. reflexivity.
  - right. split; [exact He|]. exists (U A ++ X). rewrite U_app, HX, <- !app_assoc. split; reflexivity.
Qed.

Lemma renders_seq u B r2 C r3 :
  renders u B r2 -> renders (U r2) C r3 -> (peek r2 = EOF -> C = [] /\ r3 = r2) -> renders u (B ++ C) r3.
Proof.
  intros [->|(He & X & HX & ->)] HC Hend.
  - apply renders_pre; [reflexivity|exact HC].
  - destruct (Hend He) as [-> ->]. rewrite app_nil_r. right. split; [exact He|]. exists X. split; [assumption|reflexivity].
Qed.

Lemma renders_2 u A B r1 r2 :
  u = U A ++ U r1 -> renders (U r1) B r2 -> forall T, T = A ++ B -> renders u T r2.
Proof. intros -> H T ->. apply renders_pre; [reflexivity|exact H]. Qed.

Lemma renders_3 u A B C r1 r2 r3 :
  u = U A ++ U r1 -> renders (U r1) B r2 -> renders (U r2) C r3 -> (peek r2 = EOF -> C = [] /\ r3 = r2) ->
  forall T, T = A ++ B ++ C -> renders u T r3.
Proof.
  intros -> HB HC Hend T ->. apply renders_pre; [reflexivity|]. exact (renders_seq _ _ _ _ _ HB HC Hend).
Qed.

Lemma renders_suffix u toks r : renders u toks r -> exists A, u = A ++ U r.
Proof. intros [->|(_ & X & _ & ->)]; eexists; reflexivity. Qed.

Lemma renders_neb u toks r : renders u toks r -> no_empty_block u -> no_empty_block (U r).
Proof. intros H Hn. destruct (renders_suffix _ _ _ H) as [A ->]. exact (neb_app_r _ _ Hn). Qed.

Lemma renders_not_eof u toks r : renders u toks r -> peek r <> EOF -> u = U toks ++ U r.
Proof. intros [->|(He & _)] Hne; [reflexivity|congruence]. Qed.

(* the text of a file: statements, blank NEWLINE tokens between them (the parser
   skips them at top level; the scanner emits none), then the end *)
Inductive file_text : list tok -> list cstmt -> Prop :=
| FT_end : forall u, at_eof u -> file_text u []
| FT_blank : forall u f, file_text u f -> file_text (NEWLINE :: u) f
| FT_stmt : forall c u f, file_text u f -> file_text (U (tokens_c c) ++ u) (c :: f)
| FT_last : forall c X u, U (tokens_c c) = X ++ [NEWLINE] -> at_eof u -> file_text (X ++ u) [c].

(* well-formedness with a switch: strict = true is cstmt_ok / csuite_ok of
   PrintStmt.v (okg_true below); strict = false additionally allows the EMPTY
   indented block NEWLINE INDENT OUTDENT, which parseSuite accepts *)
Fixpoint cstmt_okg (strict : bool) (c : cstmt) : bool :=
  match c with
  | CSimple l _ => line_ok l
  | CDef _ _ _ _ params tc _ body =>
    forallb param_ok' params && (negb tc || nonempty params) && csuite_okg strict body
  | CIf _ c body elifs els =>
    test_ok' c && csuite_okg strict body &&
    forallb (fun '(_, c, b) => test_ok' c && csuite_okg strict b) elifs &&
    match els with Some (_, b) => csuite_okg strict b | None => true end
  | CFor _ vars x body => loopvars_ok' vars && wf_expr x && csuite_okg strict body
  | CWhile _ c body => test_ok' c && csuite_okg strict body
  end
with csuite_okg (strict : bool) (s : csuite) : bool :=
  match s with
  | SInline l _ => line_ok l
  | SBlock l => (negb strict || nonempty l) && forallb (cstmt_okg strict) l
  end.

(* the premise is needed in the strict reading only *)
Definition nebS (strict : bool) (u : list tok) : Prop := strict = true -> no_empty_block u.
Lemma nebS_app_r strict a b : nebS strict (a ++ b) -> nebS strict b.
Proof. intros H Hs. exact (neb_app_r _ _ (H Hs)). Qed.
Lemma nebS_cons strict t b : nebS strict (t :: b) -> nebS strict b.
Proof. intros H Hs. exact (neb_cons _ _ (H Hs)). Qed.
Lemma renders_nebS strict u toks r : renders u toks r -> nebS strict u -> nebS strict (U r).
Proof. intros H Hn Hs. exact (renders_neb _ _ _ H (Hn Hs)). Qed.
Lemma nebS_false u : nebS false u.
Proof. intros H. discriminate H. Qed.
Lemma nebS_true u : no_empty_block u -> nebS true u.
Proof. intros H _. exact H. Qed.

(* from the equations U x = .. in the context, the premise for a later part of the input *)
Ltac neb :=
  match goal with
  | H : nebS _ _ |- nebS _ _ =>
    let H' := fresh "Hneb" in
    pose proof H as H';
    repeat first
      [ exact H'
      | match type of H' with
        | nebS _ (U ?a) => match goal with E : U a = _ |- _ => rewrite E in H' end
        end
      | apply nebS_cons in H'
      | apply nebS_app_r in H' ]
  end.

Definition elifs_okb (strict : bool) (l : list (pos * expr * csuite)) : bool :=
  forallb (fun '(_, c, b) => test_ok' c && csuite_okg strict b) l.
Definition else_okb (strict : bool) (o : option (pos * csuite)) : bool :=
  match o with Some (_, b) => csuite_okg strict b | None => true end.
Definition flat_elifs (l : list (pos * expr * csuite)) : list (pos * expr * list stmt) :=
  map (fun '(q, c, b) => (q, c, flatten_s b)) l.
Definition flat_else (o : option (pos * csuite)) : option (pos * list stmt) :=
  match o with Some (q, b) => Some (q, flatten_s b) | None => None end.

(* ---- the statement, one clause per parser function ---- *)
Record SoundS (strict : bool) (self : P) : Prop := mkSoundS {
  ss_loadNames : forall ts names tc r, p_loadNames self ts = Ok (names, tc, r) ->
      U ts = U (flat_map name_tokens names) ++ U (trail tc) ++ U r;
  ss_simpleStmt : forall ts l r, p_simpleStmt self ts = Ok (l, r) ->
      line_ok l = true /\ exists sm, renders (U ts) (line_tokens l sm) r;
  ss_suite : forall ts l r, p_suite self ts = Ok (l, r) -> nebS strict (U ts) ->
      exists s, csuite_okg strict s = true /\ flatten_s s = l /\ renders (U ts) (tokens_s s) r;
  ss_suiteStmts : forall ts l r, p_suiteStmts self ts = Ok (l, r) -> nebS strict (U ts) ->
      exists cs, forallb (cstmt_okg strict) cs = true /\ flat_map flatten cs = l /\
                 renders (U ts) (flat_map tokens_c cs) r /\
                 (peek ts = EOF -> cs = [] /\ r = ts);
  ss_elifs : forall ts l els r, p_elifs self ts = Ok (l, els, r) -> nebS strict (U ts) ->
      exists ce co, elifs_okb strict ce = true /\ else_okb strict co = true /\ flat_elifs ce = l /\ flat_else co = els /\
                    renders (U ts) (flat_map elif_tokens ce ++ else_tokens co) r /\
                    (peek ts = EOF -> (flat_map elif_tokens ce ++ else_tokens co = [] /\ r = ts));
  ss_stmt : forall ts l r, p_stmt self ts = Ok (l, r) -> nebS strict (U ts) ->
      exists c, cstmt_okg strict c = true /\ flatten c = l /\ renders (U ts) (tokens_c c) r;
  ss_file : forall ts l, p_file self ts = Ok l -> nebS strict (U ts) ->
      exists f, forallb (cstmt_okg strict) f = true /\ flat_map flatten f = l /\ file_text (U ts) f /\
                (peek ts = EOF -> f = [])
}.

(* ---- one-level matches as boolean tests ---- *)
Definition is_smallkw (t : tok) : bool :=
  match t with RETURN | BREAK | CONTINUE | PASS | LOAD => true | _ => false end.
Lemma match_smallkw {A} t (a b c d e f : A) :
  match t with RETURN => a | BREAK => b | CONTINUE => c | PASS => d | LOAD => e | _ => f end =
  if is_smallkw t then match t with RETURN => a | BREAK => b | CONTINUE => c | PASS => d | LOAD => e | _ => f end else f.
Proof. destruct t; reflexivity. Qed.
Lemma match_eol {A} t (a b : A) :
  match t with EOF | NEWLINE | SEMI => a | _ => b end = if stop_small t then a else b.
Proof. destruct t; reflexivity. Qed.
Definition nl_eof (t : tok) : bool := match t with NEWLINE | EOF => true | _ => false end.
Lemma match_nl_eof {A} t (a b : A) :
  match t with NEWLINE | EOF => a | _ => b end = if nl_eof t then a else b.
Proof. destruct t; reflexivity. Qed.
Lemma match_SEMI {A} t (a b : A) : match t with SEMI => a | _ => b end = if tok_eqb t SEMI then a else b.
Proof. destruct t; reflexivity. Qed.
Definition outdent_eof (t : tok) : bool := match t with OUTDENT | EOF => true | _ => false end.
Lemma match_outdent_eof {A} t (a b : A) :
  match t with OUTDENT | EOF => a | _ => b end = if outdent_eof t then a else b.
Proof. destruct t; reflexivity. Qed.
Definition is_ee (t : tok) : bool := match t with ELIF | ELSE => true | _ => false end.
Lemma match_ee {A} t (a b c : A) :
  match t with ELIF => a | ELSE => b | _ => c end =
  if is_ee t then match t with ELIF => a | ELSE => b | _ => c end else c.
Proof. destruct t; reflexivity. Qed.
Definition is_compound (t : tok) : bool := match t with DEF | IF | FOR | WHILE => true | _ => false end.
Lemma match_compound {A} t (a b c d e : A) :
  match t with DEF => a | IF => b | FOR => c | WHILE => d | _ => e end =
  if is_compound t then match t with DEF => a | IF => b | FOR => c | WHILE => d | _ => e end else e.
Proof. destruct t; reflexivity. Qed.
Lemma match_file {A} t (a b c : A) :
  match t with EOF => a | NEWLINE => b | _ => c end =
  if tok_eqb t EOF then a else if tok_eqb t NEWLINE then b else c.
Proof. destruct t; reflexivity. Qed.

(* ---- one level of the statement renderings ---- *)
Lemma ntk_nil : flat_map name_tokens [] = []. Proof. reflexivity. Qed.
Lemma ntk_cons nm l : flat_map name_tokens (nm :: l) = name_tokens nm ++ flat_map name_tokens l.
Proof. reflexivity. Qed.
Lemma U_semi r : U (semi :: r) = SEMI :: U r. Proof. reflexivity. Qed.
Lemma U_newline r : U (newline :: r) = NEWLINE :: U r. Proof. reflexivity. Qed.
Global Hint Rewrite ntk_nil ntk_cons : tk.
Global Hint Rewrite U_semi U_newline : udb.

Ltac uns := cbn [small_tokens name_tokens smalls_tokens]; un; cbn [name_tokens]; un.

Lemma wf_of_good x : good L_EXPR x -> noparen_ok x = true -> wf_expr x = true.
Proof. intros (Hw & Hi & _) Hn. unfold wf_expr. rewrite Hw, Hi, Hn. reflexivity. Qed.

Lemma line_tokens_cons s l sm :
  l <> [] -> line_tokens (s :: l) sm = (small_tokens s ++ [semi]) ++ line_tokens l sm.
Proof.
  intros Hl. unfold line_tokens. destruct l as [|s2 l]; [congruence|].
  change (smalls_tokens (s :: s2 :: l)) with (small_tokens s ++ semi :: smalls_tokens (s2 :: l)).
  rewrite <- !app_assoc. reflexivity.
Qed.

Section Step.
Variable strict : bool.
Variable self : P.
Hypothesis HS : Sound self.
Hypothesis HV : Valid self.
Hypothesis HT : SoundS strict self.

(* ---- load ---- *)
Lemma loadNames_sound ts names tc r :
  loadNames_body self ts = Ok (names, tc, r) ->
  U ts = U (flat_map name_tokens names) ++ U (trail tc) ++ U r.
Proof.
  unfold loadNames_body. rewrite match_close2. destruct (ProofsSound.close2 (peek ts)); [fin|].
  unfold loadNames_dflt.
  destruct (peek ts) eqn:E; try discriminate. pk E. cbv zeta.
  destruct (peek (tl ts)) eqn:E1; try discriminate.
  - (* IDENT = STRING *) pk E1. cbv zeta.
    destruct (peek (tl (tl ts))) eqn:E2; try discriminate. pk E2.
    destruct (peek (tl (tl (tl ts)))) eqn:E3; try discriminate. pk E3.
    destruct (p_loadNames self (tl (tl (tl (tl ts))))) as [[[l' tc'] ts1]| |] eqn:E4; try discriminate.
    pose proof (ss_loadNames _ _ HT _ _ _ _ E4) as U4.
    intros H; inversion H; subst; clear H. uns. useU. uns. reflexivity.
  - (* STRING *) pk E1.
    destruct (p_loadNames self (tl (tl ts))) as [[[l' tc'] ts1]| |] eqn:E4; try discriminate.
    pose proof (ss_loadNames _ _ HT _ _ _ _ E4) as U4.
    intros H; inversion H; subst; clear H. uns. useU. uns. reflexivity.
  - (* RPAREN *) intros H; inversion H; subst; clear H. uns. useU. uns. reflexivity.
Qed.

Lemma parseLoadStmt_sound p ts s r :
  parseLoadStmt self p ts = Ok (s, r) ->
  small_ok s = true /\ LOAD :: U ts = U (small_tokens s) ++ U r.
Proof.
  unfold parseLoadStmt. destruct (peek ts) eqn:E; try discriminate. pk E. cbv zeta.
  destruct (peek (tl ts)) eqn:E1; try discriminate. pk E1.
  destruct (p_loadNames self (tl (tl ts))) as [[[names tc] ts1]| |] eqn:E2; try discriminate.
  pose proof (ss_loadNames _ _ HT _ _ _ _ E2) as U2.
  destruct (peek ts1) eqn:E3; try discriminate. pk E3.
  destruct names as [|nm names]; try discriminate.
  intros H; inversion H; subst; clear H. split; [reflexivity|].
  uns. useU. uns. reflexivity.
Qed.

(* ---- small statements ---- *)
Lemma assignOrExpr_sound ts s r :
  assignOrExpr self ts = Ok (s, r) -> small_ok s = true /\ U ts = U (small_tokens s) ++ U r.
Proof.
  unfold assignOrExpr. destruct (p_expr self false ts) as [[x ts1]| |] eqn:E1; try discriminate.
  pose proof (s_expr _ HS _ _ _ _ E1) as U1. destruct (v_expr _ HV _ _ _ _ E1) as [G1 N1].
  pose proof (wf_of_good _ G1 (N1 eq_refl)) as W1.
  destruct (is_augassign (peek ts1)) eqn:Ea.
  - destruct (p_expr self false (tl ts1)) as [[y ts2]| |] eqn:E2; try discriminate.
    pose proof (s_expr _ HS _ _ _ _ E2) as U2. destruct (v_expr _ HV _ _ _ _ E2) as [G2 N2].
    pose proof (wf_of_good _ G2 (N2 eq_refl)) as W2.
    assert (Hne : peek ts1 <> EOF) by (intros Hc; rewrite Hc in Ea; discriminate).
    pose proof (U_peek _ _ eq_refl Hne) as Up.
    assert (Hk : ukind (peek ts1) = [peek ts1]) by (destruct (peek ts1); try discriminate Ea; reflexivity).
    intros H; inversion H; subst; clear H. split.
    + cbn [small_ok]. rewrite W1, W2, Ea. reflexivity.
    + cbn [small_tokens]. rewrite U1, Up, U2, U_app, U_cons, Hk, <- !app_assoc. reflexivity.
  - intros H; inversion H; subst; clear H. split; [exact W1|exact U1].
Qed.

Lemma smallStmt_sound ts s r :
  parseSmallStmt self ts = Ok (s, r) -> small_ok s = true /\ U ts = U (small_tokens s) ++ U r.
Proof.
  unfold parseSmallStmt. cbv zeta. rewrite match_smallkw.
  destruct (is_smallkw (peek ts)) eqn:Hk; [|apply assignOrExpr_sound].
  destruct (peek ts) eqn:E; try discriminate Hk; pk E; cbv beta iota.
  - (* BREAK *) intros H; inversion H; subst; clear H. split; [reflexivity|]. uns. useU. reflexivity.
  - (* CONTINUE *) intros H; inversion H; subst; clear H. split; [reflexivity|]. uns. useU. reflexivity.
  - (* LOAD *) intros H. destruct (parseLoadStmt_sound _ _ _ _ H) as [Hok Hu]. split; [exact Hok|].
    rewrite Up. exact Hu.
  - (* PASS *) intros H; inversion H; subst; clear H. split; [reflexivity|]. uns. useU. reflexivity.
  - (* RETURN *) rewrite match_eol. destruct (stop_small (peek (tl ts))).
    + intros H; inversion H; subst; clear H. split; [reflexivity|]. uns. useU. reflexivity.
    + destruct (p_expr self false (tl ts)) as [[e ts1]| |] eqn:E1; try discriminate.
      pose proof (s_expr _ HS _ _ _ _ E1) as U1. destruct (v_expr _ HV _ _ _ _ E1) as [G1 N1].
      intros H; inversion H; subst; clear H. split; [exact (wf_of_good _ G1 (N1 eq_refl))|].
      uns. useU. reflexivity.
Qed.

(* ---- a line of small statements ---- *)
Lemma finishSimple_sound l t l' r :
  finishSimple l t = Ok (l', r) ->
  l' = l /\ ((r = tl t /\ U t = NEWLINE :: U r) \/ (peek t = EOF /\ r = t)).
Proof.
  unfold finishSimple. destruct (peek t) eqn:E; try discriminate; intros H; inversion H; subst; clear H.
  - split; [reflexivity|]. right. split; reflexivity.
  - split; [reflexivity|]. left. split; [reflexivity|]. pk E. exact Up.
Qed.

Lemma simpleStmt_sound ts l r :
  simpleStmt_body self ts = Ok (l, r) ->
  line_ok l = true /\ exists sm, renders (U ts) (line_tokens l sm) r.
Proof.
  unfold simpleStmt_body.
  destruct (parseSmallStmt self ts) as [[s ts1]| |] eqn:E1; try discriminate.
  destruct (smallStmt_sound _ _ _ E1) as [Hs U1].
  assert (Hl1 : line_ok [s] = true) by (unfold line_ok; cbn [nonempty forallb]; rewrite Hs; reflexivity).
  rewrite match_SEMI. destruct (tok_eqb (peek ts1) SEMI) eqn:Hsemi.
  - apply tok_eqb_eq in Hsemi. pk Hsemi. cbv zeta. rewrite match_nl_eof.
    destruct (nl_eof (peek (tl ts1))) eqn:Hne.
    + intros H. destruct (finishSimple_sound _ _ _ _ H) as [-> [[-> Un]|[He ->]]]; (split; [exact Hl1|]); exists true.
      * left. unfold line_tokens. cbn [smalls_tokens]. rewrite U1, Up, Un. un. reflexivity.
      * right. split; [exact He|]. exists (U (small_tokens s) ++ [SEMI]). unfold line_tokens. cbn [smalls_tokens].
        rewrite U1, Up. un. split; reflexivity.
    + destruct (p_simpleStmt self (tl ts1)) as [[l2 ts2]| |] eqn:E2; try discriminate.
      destruct (ss_simpleStmt _ _ HT _ _ _ E2) as (Hl2 & sm & Hr).
      intros H; inversion H; subst; clear H. split.
      * unfold line_ok in *. cbn [nonempty forallb]. rewrite Hs. cbn [andb].
        apply andb_true_iff in Hl2. tauto.
      * exists sm. rewrite line_tokens_cons by (intros ->; discriminate Hl2).
        rewrite U1, Up. change (U (small_tokens s) ++ SEMI :: U (tl ts1)) with (U (small_tokens s) ++ [SEMI] ++ U (tl ts1)).
        rewrite app_assoc. apply renders_pre; [un; reflexivity|exact Hr].
  - intros H. destruct (finishSimple_sound _ _ _ _ H) as [-> [[-> Un]|[He ->]]]; (split; [exact Hl1|]); exists false.
    + left. unfold line_tokens. cbn [smalls_tokens]. rewrite U1, Un. un. reflexivity.
    + right. split; [exact He|]. exists (U (small_tokens s)). unfold line_tokens. cbn [smalls_tokens].
      rewrite U1. un. split; reflexivity.
Qed.

End Step.
