(* C14 -- top-level statements about the expression parser. *)
From Coq Require Import ZArith List String Bool Arith Lia.
From SV Require Import C14.Tokens C14.Parse C14.Print C14.ProofsBase C14.ProofsExpr C14.ProofsAll C14.ProofsSize.
Import ListNotations.
Open Scope nat_scope.

(* parseExpr(inParens) on a rendered tree followed by anything that cannot extend it *)
Lemma parse_print_expr_lemma :
  forall (e : expr) (inParens : bool) (rest : list ptok) (n : nat),
    wp e = true -> isx e = true ->
    expr_rest_ok e inParens rest ->
    40 * size e + 32 <= n ->
    p_expr (parsers n) inParens (tokens e ++ rest) = Ok (e, rest).
Proof.
  intros e b rest n Hwp Hisx Hr Hn.
  destruct (main_all e Hwp Hisx) as (_ & _ & _ & _ & _ & _ & Me). apply Me; assumption.
Qed.

(* parseTestPrec(prec): every operator pair in every nesting *)
Lemma parse_print_prec_lemma :
  forall (e : expr) (prec : nat) (rest : list ptok) (n : nat),
    wp e = true -> isx e = true ->
    prec <= 10 -> L_BIN prec <= lvl e -> ok_at prec rest ->
    40 * size e + 24 <= n ->
    p_testPrec (parsers n) prec (tokens e ++ rest) = Ok (e, fz prec rest).
Proof.
  intros e prec rest n Hwp Hisx Hp Hl Hok Hn.
  destruct (main_all e Hwp Hisx) as (Mp & _). apply Mp; auto. unfold need. lia.
Qed.

Lemma parse_print_test_lemma :
  forall (e : expr) (rest : list ptok) (n : nat),
    wp e = true -> isx e = true -> L_TEST <= lvl e ->
    stop_test (peek rest) = true ->
    40 * size e + 30 <= n ->
    p_test (parsers n) (tokens e ++ rest) = Ok (e, rest).
Proof.
  intros e rest n Hwp Hisx Hl Hst Hn.
  destruct (main_all e Hwp Hisx) as (_ & _ & _ & _ & Mt & _). apply Mt; auto.
Qed.

Lemma rest_ok_stop e b rest :
  noparen_ok e = true -> stop_test (peek rest) = true -> peek rest <> COMMA -> expr_rest_ok e b rest.
Proof.
  intros Hn Hs Hc. unfold expr_rest_ok. destruct e; auto.
  match goal with |- context [match ?t with true => _ | false => _ end] => destruct t end; [discriminate Hn|auto].
Qed.

(* FileOptions.ParseExpr with the fuel the model uses *)
Lemma parse_expr_print_lemma :
  forall (e : expr) (pnl peof : pos) (nl : bool),
    wf_expr e = true ->
    parse_expr (tokens e ++ (if nl then [(NEWLINE, pnl)] else []) ++ [(EOF, peof)]) = Ok e.
Proof.
  intros e pnl peof nl Hwf. unfold wf_expr in Hwf.
  apply andb_true_iff in Hwf. destruct Hwf as [Hwf Hnp]. apply andb_true_iff in Hwf. destruct Hwf as [Hwp Hisx].
  pose proof (size_le_tokens e Hwp) as Hsz.
  unfold parse_expr, parse_expr_n.
  rewrite (parse_print_expr_lemma e false); auto.
  - destruct nl; reflexivity.
  - apply rest_ok_stop; auto; destruct nl; try reflexivity; discriminate.
  - unfold fuel_of. rewrite app_length. lia.
Qed.

(* rendering is injective on well-parenthesised trees: no two trees share a text *)
Lemma print_injective_lemma :
  forall e1 e2 : expr,
    wf_expr e1 = true -> wf_expr e2 = true -> tokens e1 = tokens e2 -> e1 = e2.
Proof.
  intros e1 e2 H1 H2 E.
  unfold wf_expr in *.
  apply andb_true_iff in H1. destruct H1 as [H1 Hn1]. apply andb_true_iff in H1. destruct H1 as [Hw1 Hi1].
  apply andb_true_iff in H2. destruct H2 as [H2 Hn2]. apply andb_true_iff in H2. destruct H2 as [Hw2 Hi2].
  assert (R : forall e, noparen_ok e = true -> expr_rest_ok e false [(EOF, nopos)]).
  { intros e Hn. apply rest_ok_stop; auto. discriminate. }
  pose (n := 40 * size e1 + 40 * size e2 + 32).
  pose proof (parse_print_expr_lemma e1 false [(EOF, nopos)] n Hw1 Hi1 (R _ Hn1) ltac:(unfold n; lia)) as P1.
  pose proof (parse_print_expr_lemma e2 false [(EOF, nopos)] n Hw2 Hi2 (R _ Hn2) ltac:(unfold n; lia)) as P2.
  rewrite E in P1. rewrite P1 in P2. congruence.
Qed.

(* each node's reported position is where its text starts *)
Lemma start_first_token_lemma :
  forall e : expr, wp e = true -> isx e = true -> peekpos (tokens e) = start e.
Proof.
  induction e as [e IH] using size_ind. intros Hwp Hisx.
  assert (sub : forall x k, size x < size e -> wp x = true -> at_level k x = true ->
                forall r, peekpos (tokens x ++ r) = start x).
  { intros x k Hs Hw Ha r. pose proof (at_level_isx _ _ Ha) as Hi.
    destruct (head_ok_all x Hw Hi) as (Hne & _). rewrite <- (IH x Hs Hw Hi).
    destruct (tokens x); [congruence|reflexivity]. }
  destruct e; cbn [wp] in Hwp; cbn [isx] in Hisx; try discriminate; cbn [tokens start]; try reflexivity.
  - split_andb. eapply sub; eauto; cbn [size]; lia.
  - split_andb. eapply sub; eauto; cbn [size]; lia.
  - split_andb. eapply (sub e1); eauto; cbn [size]; lia.
  - split_andb. eapply sub; eauto; cbn [size]; lia.
  - split_andb. eapply (sub e1); eauto; cbn [size]; lia.
  - split_andb. destruct l as [|x l]; [cbn in *; destruct tc; discriminate|].
    match goal with H : forallb _ (_ :: _) = true |- _ => cbn [forallb] in H end. split_andb.
    rewrite <- app_assoc. eapply sub; eauto; cbn [size fold_right]; lia.
  - destruct x; [reflexivity|destruct op; discriminate].
  - destruct (prec_of op) eqn:E; [|discriminate]. split_andb.
    eapply (sub e1); eauto; cbn [size]; lia.
Qed.
