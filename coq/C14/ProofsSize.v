(* C14 -- every node of a well-formed tree contributes at least one token:
   size e <= length (tokens e); hence the model's fuel always suffices. *)
From Coq Require Import ZArith List String Bool Arith Lia.
From SV Require Import C14.Tokens C14.Parse C14.Print C14.ProofsBase C14.ProofsExpr
  C14.ProofsLists C14.ProofsArgs C14.ProofsClauses C14.ProofsPrim C14.ProofsSuffix.
Import ListNotations.
Open Scope nat_scope.

Definition G (e : expr) : Prop :=
  wp e = true \/ arg_ok e = true \/ param_ok e = true \/ entry_ok e = true \/
  clause_ok e = true \/ loopvars_ok e = true.

Definition SZ (e : expr) : Prop := size e <= List.length (tokens e).

Lemma sizes_flat (f : expr -> list ptok) l :
  (forall x, In x l -> size x <= List.length (f x)) -> sizes l <= List.length (flat_map f l).
Proof.
  induction l as [|x l IH]; intros H; [cbn; lia|].
  rewrite sizes_cons. cbn [flat_map]. rewrite app_length.
  pose proof (H x (or_introl eq_refl)). specialize (IH (fun y Hy => H y (or_intror Hy))). lia.
Qed.

Lemma sizes_seplist l : (forall x, In x l -> SZ x) -> sizes l <= List.length (seplist l).
Proof.
  intros H. destruct l as [|x l]; [cbn; lia|].
  rewrite seplist_cons, sizes_cons, app_length.
  pose proof (H x (or_introl eq_refl)) as Hx. unfold SZ in Hx.
  assert (sizes l <= List.length (ctoks l)).
  { apply sizes_flat. intros y Hy. cbn [List.length]. pose proof (H y (or_intror Hy)). unfold SZ in *. lia. }
  lia.
Qed.

Lemma forallb_G (p : expr -> bool) l (sz : nat) :
  (forall x, p x = true -> G x) -> forallb p l = true ->
  (forall e', size e' < sz -> G e' -> SZ e') -> sizes l < sz ->
  forall x, In x l -> SZ x.
Proof.
  intros Hp Hall IH Hs x Hin. apply IH.
  - pose proof (sizes_in x l Hin). lia.
  - apply Hp. rewrite forallb_forall in Hall. auto.
Qed.

Lemma test_ok_G x : test_ok x = true -> G x.
Proof. intros H. left. destruct (test_ok_parts _ H). assumption. Qed.
Lemma unary_ok_G x : unary_ok x = true -> G x.
Proof. intros H. left. destruct (unary_ok_parts _ H). assumption. Qed.

Lemma op_tokens_len op p : 1 <= List.length (op_tokens op p).
Proof. destruct op; cbn; lia. Qed.

Lemma sz_wp e :
  (forall e', size e' < size e -> G e' -> SZ e') -> wp e = true -> SZ e.
Proof.
  intros IH Hwp.
  assert (IH' : forall e', size e' < size e -> G e' -> SZ e') by exact IH.
  assert (W : forall x, size x < size e -> wp x = true -> SZ x) by (intros x Hs Hw; apply IH; [assumption|left; assumption]).
  unfold SZ.
    destruct e; cbn [wp] in Hwp; try discriminate; try (cbn; lia).
    + (* Paren *) cbn [tokens size]. split_andb. pose proof (W e ltac:(cbn [size]; lia) ltac:(assumption)) as Sz1. unfold SZ in Sz1.
      cbn [List.length]. rewrite app_length. cbn [List.length]. lia.
    + (* Call *) cbn [tokens size]. change (wp (Call e lp args tc rp) = true) in Hwp. rewrite wp_Call in Hwp. split_andb.
      pose proof (W e ltac:(cbn [size]; lia) ltac:(assumption)) as Sz1. unfold SZ in Sz1.
      assert (Sz2 : sizes args <= List.length (seplist args)).
      { apply sizes_seplist. apply (forallb_G arg_ok args (size (Call e lp args tc rp)) (fun x Hx => or_intror (or_introl Hx)) ltac:(assumption) IH' ltac:(rewrite size_Call; lia)). }
      fold (sizes args). fold (seplist args). rewrite !app_length. cbn [List.length]. rewrite !app_length. cbn [List.length]. lia.
    + (* Dot *) cbn [tokens size]. split_andb. pose proof (W e ltac:(cbn [size]; lia) ltac:(assumption)) as Sz1. unfold SZ in Sz1.
      rewrite app_length. cbn [List.length]. lia.
    + (* Index *) cbn [tokens size]. split_andb.
      pose proof (W e1 ltac:(cbn [size]; lia) ltac:(assumption)) as Sz1.
      pose proof (W e2 ltac:(cbn [size]; lia) ltac:(assumption)) as Sz2. unfold SZ in *.
      rewrite app_length. cbn [List.length]. rewrite app_length. cbn [List.length]. lia.
    + (* Slice *)
      change (wp (Slice e lb lo hi step colon2 rb) = true) in Hwp.
      destruct (wp_Slice _ _ _ _ _ _ _ Hwp) as (Hw & _ & Hlo & Hhi & Hst & Hc2).
      pose proof (W e ltac:(rewrite size_Slice; lia) Hw) as Sz1. unfold SZ in Sz1.
      assert (Olo : opt_size lo <= List.length (opt_toks lo)).
      { destruct lo as [y|]; [|cbn; lia]. destruct Hlo as (Hwy & _). apply (W y); [rewrite size_Slice; cbn; lia|assumption]. }
      assert (Ohi : opt_size hi <= List.length (opt_toks hi)).
      { destruct hi as [y|]; [|cbn; lia]. cbn in Hhi. destruct (test_ok_parts _ Hhi) as (Hwy & _). apply (W y); [rewrite size_Slice; cbn; lia|assumption]. }
      assert (Ost : opt_size step <= List.length (opt_toks step)).
      { destruct step as [y|]; [|cbn; lia]. cbn in Hst. destruct (test_ok_parts _ Hst) as (Hwy & _). apply (W y); [rewrite size_Slice; cbn; lia|assumption]. }
      rewrite <- (app_nil_r (tokens (Slice e lb lo hi step colon2 rb))). rewrite tokens_Slice. rewrite size_Slice.
      rewrite !app_length. cbn [List.length]. rewrite !app_length. cbn [List.length]. rewrite !app_length.
      destruct colon2; [|destruct step; [discriminate Hc2|]]; cbn [List.length opt_size opt_toks] in *; rewrite ?app_length; cbn [List.length]; lia.
    + (* ListE *) cbn [tokens size]. change (wp (ListE lb l tc rb) = true) in Hwp. rewrite wp_ListE in Hwp. split_andb.
      assert (Sz2 : sizes l <= List.length (seplist l)).
      { apply sizes_seplist. apply (forallb_G test_ok l (size (ListE lb l tc rb)) test_ok_G ltac:(assumption) IH' ltac:(rewrite size_ListE; lia)). }
      fold (sizes l). fold (seplist l). cbn [List.length]. rewrite !app_length. cbn [List.length]. lia.
    + (* DictE *) cbn [tokens size]. change (wp (DictE lb l tc rb) = true) in Hwp. rewrite wp_DictE in Hwp. split_andb.
      assert (Sz2 : sizes l <= List.length (seplist l)).
      { apply sizes_seplist. apply (forallb_G entry_ok l (size (DictE lb l tc rb)) (fun x Hx => or_intror (or_intror (or_intror (or_introl Hx)))) ltac:(assumption) IH' ltac:(rewrite size_DictE; lia)). }
      fold (sizes l). fold (seplist l). cbn [List.length]. rewrite !app_length. cbn [List.length]. lia.
    + (* Comp *) cbn [tokens size]. change (wp (Comp curly lb e clauses rb) = true) in Hwp. rewrite wp_Comp in Hwp. split_andb.
      assert (Sz1 : SZ e).
      { apply IH; [rewrite size_Comp; lia|]. destruct curly; [right; right; right; left; assumption|apply test_ok_G; assumption]. }
      assert (Sz2 : sizes clauses <= List.length (flat_map tokens clauses)).
      { apply sizes_flat. apply (forallb_G clause_ok clauses (size (Comp curly lb e clauses rb)) (fun x Hx => or_intror (or_intror (or_intror (or_intror (or_introl Hx))))) ltac:(assumption) IH' ltac:(rewrite size_Comp; lia)). }
      unfold SZ in Sz1. fold (sizes clauses). cbn [List.length]. rewrite !app_length. cbn [List.length]. lia.
    + (* Lambda *) cbn [tokens size]. change (wp (Lambda p params e) = true) in Hwp. rewrite wp_Lambda in Hwp. split_andb.
      pose proof (W e ltac:(cbn [size]; lia) ltac:(assumption)) as Sz1. unfold SZ in Sz1.
      assert (Sz2 : sizes params <= List.length (seplist params)).
      { apply sizes_seplist. apply (forallb_G param_ok params (size (Lambda p params e)) (fun x Hx => or_intror (or_intror (or_introl Hx))) ltac:(assumption) IH' ltac:(cbn [size]; fold (sizes params); lia)). }
      fold (sizes params). fold (seplist params). cbn [List.length]. rewrite !app_length. cbn [List.length]. lia.
    + (* Cond *) cbn [tokens size]. split_andb.
      pose proof (W e1 ltac:(cbn [size]; lia) ltac:(assumption)) as Sz1.
      pose proof (W e2 ltac:(cbn [size]; lia) ltac:(assumption)) as Sz2.
      pose proof (W e3 ltac:(cbn [size]; lia) ltac:(assumption)) as Sz3. unfold SZ in *.
      rewrite !app_length. cbn [List.length]. rewrite !app_length. cbn [List.length]. lia.
    + (* Tuple *) cbn [tokens size]. change (wp (Tuple l tc) = true) in Hwp. rewrite wp_Tuple in Hwp.
      apply andb_true_iff in Hwp. destruct Hwp as [Hall Hlen].
      assert (Sz2 : forall x, In x l -> SZ x).
      { apply (forallb_G test_ok l (size (Tuple l tc)) test_ok_G Hall IH' ltac:(cbn [size]; fold (sizes l); lia)). }
      fold (sizes l). fold (seplist l). rewrite app_length.
      destruct l as [|x [|y l]].
      * destruct tc; discriminate.
      * destruct tc; [|discriminate]. pose proof (Sz2 x (or_introl eq_refl)) as Hx. unfold SZ in Hx.
        cbn [seplist flat_map sizes fold_right trail List.length]. rewrite app_nil_r. cbn. lia.
      * rewrite seplist_cons, ctoks_cons, !sizes_cons, app_length. cbn [List.length]. rewrite app_length.
        pose proof (Sz2 x (or_introl eq_refl)) as Hx. pose proof (Sz2 y (or_intror (or_introl eq_refl))) as Hy.
        assert (sizes l <= List.length (ctoks l)).
        { apply sizes_flat. intros z Hz. cbn [List.length]. pose proof (Sz2 z (or_intror (or_intror Hz))). unfold SZ in *. lia. }
        unfold SZ in *. lia.
    + (* Unary *) cbn [tokens size]. destruct x as [x|]; [|cbn; lia].
      assert (Hx : wp x = true) by (destruct op; try discriminate; split_andb; assumption).
      pose proof (W x ltac:(cbn [size]; lia) Hx) as Sz1. unfold SZ in Sz1. cbn [List.length]. lia.
    + (* Binary *) cbn [tokens size]. destruct (prec_of op); [|discriminate]. split_andb.
      pose proof (W e1 ltac:(cbn [size]; lia) ltac:(assumption)) as Sz1.
      pose proof (W e2 ltac:(cbn [size]; lia) ltac:(assumption)) as Sz2. unfold SZ in *.
      pose proof (op_tokens_len op oppos). rewrite !app_length. lia.
Qed.

Lemma size_le_tokens_G : forall e, G e -> SZ e.
Proof.
  induction e as [e IH] using size_ind. intros HG.
  destruct HG as [Hwp | [Ha | [Hp | [He | [Hc | Hl]]]]].
  - apply sz_wp; assumption.
  - destruct (arg_cases e Ha) as [(p & y & -> & Hy) | [(p & y & -> & Hy) | [(ip & name & ep & y & -> & Hy) | Hy]]].
    + pose proof (IH y ltac:(cbn [size]; lia) (test_ok_G _ Hy)) as Sz1. unfold SZ in *. cbn [tokens size List.length]. lia.
    + pose proof (IH y ltac:(cbn [size]; lia) (test_ok_G _ Hy)) as Sz1. unfold SZ in *. cbn [tokens size List.length]. lia.
    + pose proof (IH y ltac:(cbn [size]; lia) (test_ok_G _ Hy)) as Sz1. unfold SZ in *. cbn [tokens size op_tokens app List.length]. lia.
    + destruct (test_ok_parts _ Hy) as (Hw & _). apply sz_wp; assumption.
  - destruct (param_cases e Hp) as [(ip & name & ->) | [(ip & name & ep & d & -> & Hd) | [(p & ->) | [(p & ip & name & ->) | (p & ip & name & ->)]]]];
      unfold SZ; try (cbn; lia).
    pose proof (IH d ltac:(cbn [size]; lia) (test_ok_G _ Hd)) as Sz1. unfold SZ in *. cbn [tokens size op_tokens app List.length]. lia.
  - destruct (entry_cases e He) as (k & cp & v & -> & Hk & Hv).
    pose proof (IH k ltac:(cbn [size]; lia) (test_ok_G _ Hk)) as Sz1.
    pose proof (IH v ltac:(cbn [size]; lia) (test_ok_G _ Hv)) as Sz2. unfold SZ in *.
    cbn [tokens size]. rewrite app_length. cbn [List.length]. lia.
  - destruct (clause_cases e Hc) as [(p & vars & ip & x & -> & Hv & Hw & _) | (p & x & -> & Hw & _)].
    + pose proof (IH vars ltac:(cbn [size]; lia) ltac:(right; right; right; right; right; exact Hv)) as Sz1.
      pose proof (IH x ltac:(cbn [size]; lia) (or_introl Hw)) as Sz2. unfold SZ in *.
      cbn [tokens size List.length]. rewrite app_length. cbn [List.length]. lia.
    + pose proof (IH x ltac:(cbn [size]; lia) (or_introl Hw)) as Sz2. unfold SZ in *.
      cbn [tokens size List.length]. lia.
  - destruct (loopvars_cases e Hl) as [(x & l & -> & Hne & Hx & Hall) | [Hu _]].
    + assert (Sz2 : forall z, In z (x :: l) -> SZ z).
      { intros z [<-|Hz].
        - apply IH; [cbn [size fold_right]; lia|apply unary_ok_G; assumption].
        - apply IH; [pose proof (sizes_in z l Hz); cbn [size fold_right]; fold (sizes l); lia|].
          apply unary_ok_G. rewrite forallb_forall in Hall. auto. }
      unfold SZ. rewrite tokens_Tuple_false. cbn [size]. fold (sizes (x :: l)). rewrite sizes_cons, app_length.
      pose proof (Sz2 x (or_introl eq_refl)) as Hx'. unfold SZ in Hx'.
      destruct l as [|y l]; [congruence|].
      pose proof (Sz2 y (or_intror (or_introl eq_refl))) as Hy'. unfold SZ in Hy'.
      assert (sizes l <= List.length (ctoks l)).
      { apply sizes_flat. intros z Hz. cbn [List.length]. pose proof (Sz2 z (or_intror (or_intror Hz))). unfold SZ in *. lia. }
      rewrite ctoks_cons, sizes_cons. cbn [List.length]. rewrite app_length. lia.
    + destruct (unary_ok_parts _ Hu) as (Hw & _). apply sz_wp; assumption.
Qed.

Lemma size_le_tokens : forall e, wp e = true -> size e <= List.length (tokens e).
Proof. intros e H. apply size_le_tokens_G. left. exact H. Qed.
