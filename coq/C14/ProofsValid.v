(* C14 -- soundness of the expression parser, part "well-formedness": every
   tree the parser returns is well parenthesised (wp), at the binding level the
   calling context requires.  For all fuel and all inputs. *)
From Coq Require Import ZArith List String Bool Arith Lia.
From SV Require Import C14.Tokens C14.Parse C14.Print C14.ProofsBase C14.ProofsExpr
  C14.ProofsLists C14.ProofsArgs C14.ProofsClauses C14.ProofsPrim C14.ProofsSuffix C14.ProofsMain.
Import ListNotations.
Open Scope nat_scope.

Definition good (k : nat) (e : expr) : Prop := wp e = true /\ isx e = true /\ k <= lvl e.

Definition tight (prec : nat) (r : list ptok) : Prop :=
  is_NOT (peek r) = false /\ forall q, prec_of (peek r) = Some q -> q < prec.

(* what is known about the remaining input after parseTestPrec(prec) *)
Definition after_prec (prec : nat) (r : list ptok) : Prop :=
  if prec <? nlevels then tight prec r else is_suffix_start (peek r) = false.

Definition LP (prec : nat) (first : bool) (x : expr) (ts : list ptok) : Prop :=
  good (L_BIN prec) x /\
  forall q, prec_of (peek (fuse ts)) = Some q -> prec <= q ->
            L_BIN q <= lvl x /\ (q = prec_cmp -> first = true -> L_BIN (S q) <= lvl x).

Definition lv_ok (e : expr) (r : list ptok) : Prop :=
  (exists x l tc, e = Tuple (x :: l) tc /\ forallb unary_ok (x :: l) = true /\
                  (tc = true -> terminates_expr_list (peek r) = true) /\ (tc = false -> l <> [])) \/
  (unary_ok e = true /\ lvl e <> L_EXPR).

Record Valid (self : P) : Prop := {
  v_test : forall ts e r, p_test self ts = Ok (e, r) -> good L_TEST e;
  v_testNoCond : forall ts e r, p_testNoCond self ts = Ok (e, r) -> wp e = true /\ nocond e = true;
  v_lambda : forall a lp ts e r, p_lambda self a lp ts = Ok (e, r) ->
             good L_TEST e /\ (a = false -> nocond e = true);
  v_params : forall first ts l tc r, p_params self first ts = Ok (l, tc, r) ->
             forallb param_ok l = true /\ (tc = true -> first = false \/ l <> []);
  v_testPrec : forall prec ts e r, p_testPrec self prec ts = Ok (e, r) -> prec <= 10 ->
               good (L_BIN prec) e /\ after_prec prec r;
  v_binopLoop : forall prec first x ts e r, p_binopLoop self prec first x ts = Ok (e, r) ->
                LP prec first x ts -> good (L_BIN prec) e /\ tight prec r;
  v_primSuffix : forall ts e r, p_primSuffix self ts = Ok (e, r) ->
                 good L_UNARY e /\ is_suffix_start (peek r) = false;
  v_suffixLoop : forall x ts e r, p_suffixLoop self x ts = Ok (e, r) ->
                 good L_UNARY x -> (lvl x = L_UNARY -> is_suffix_start (peek ts) = false) ->
                 good L_UNARY e /\ is_suffix_start (peek r) = false;
  v_primary : forall ts e r, p_primary self ts = Ok (e, r) ->
              good L_UNARY e /\ (lvl e = L_UNARY -> is_suffix_start (peek r) = false);
  v_expr : forall b ts e r, p_expr self b ts = Ok (e, r) ->
           good L_EXPR e /\ (b = false -> noparen_ok e = true);
  v_exprs : forall b ts l tc r, p_exprs self b ts = Ok (l, tc, r) ->
            forallb test_ok l = true /\ (tc = true -> b = true) /\
            (peek ts = COMMA -> l <> [] \/ tc = true);
  v_args : forall first ts l tc r, p_args self first ts = Ok (l, tc, r) ->
           forallb arg_ok l = true /\ (tc = true -> first = false \/ l <> []);
  v_dictEntry : forall ts e r, p_dictEntry self ts = Ok (e, r) -> entry_ok e = true;
  v_dictEntries : forall ts l tc r, p_dictEntries self ts = Ok (l, tc, r) -> forallb entry_ok l = true;
  v_clauses : forall curly ts cl rb r, p_clauses self curly ts = Ok (cl, rb, r) ->
              forallb clause_ok cl = true /\
              (peek ts = FOR -> match cl with ForClause _ _ _ _ :: _ => True | _ => False end);
  v_loopVars : forall ts e r, p_loopVars self ts = Ok (e, r) -> lv_ok e r;
  v_loopVarsTail : forall ts l tc r, p_loopVarsTail self ts = Ok (l, tc, r) ->
                   forallb unary_ok l = true /\
                   (tc = true -> terminates_expr_list (peek r) = true) /\
                   (peek ts = COMMA -> tc = false -> l <> [])
}.

Lemma valid_bottom : Valid bottom.
Proof. constructor; cbn; intros; discriminate. Qed.

(* ---- small facts ---- *)
Lemma good_at k e : good k e -> wp e && at_level k e = true.
Proof. intros (Hw & Hi & Hl). rewrite Hw. apply at_level_intro; assumption. Qed.
Lemma good_wp k e : good k e -> wp e = true.
Proof. intros (Hw & _). exact Hw. Qed.
Lemma good_al k e : good k e -> at_level k e = true.
Proof. intros (_ & Hi & Hl). apply at_level_intro; assumption. Qed.
Ltac andbs := repeat (match goal with |- _ && _ = true => apply andb_true_iff; split end); eauto using good_wp, good_al.

Lemma good_test_ok e : good L_TEST e -> test_ok e = true.
Proof. apply good_at. Qed.
Lemma good_mono k k' e : k' <= k -> good k e -> good k' e.
Proof. intros H (Hw & Hi & Hl). repeat split; auto. lia. Qed.
Lemma good_unary_ok e : good L_UNARY e -> unary_ok e = true.
Proof. apply good_at. Qed.

Lemma peek_cons_inv ts t : peek ts = t -> t <> EOF -> ts = (t, peekpos ts) :: tl ts.
Proof. destruct ts as [|[t' p] r]; cbn; intros <- H; [congruence|reflexivity]. Qed.

Lemma isx_arg_ok x : isx x = true -> arg_ok x = test_ok x.
Proof.
  unfold test_ok. destruct x; cbn [isx arg_ok]; intros H; try reflexivity; try discriminate.
  - destruct op; try reflexivity; destruct x; try reflexivity; discriminate.
  - destruct x1; try reflexivity. destruct op; try reflexivity. discriminate.
Qed.

Lemma nocond_of_good e : good (L_BIN 0) e -> nocond e = true.
Proof.
  intros (Hw & Hi & Hl). destruct e; cbn [nocond]; try (apply at_level_intro; assumption).
  cbn [lvl] in Hl. unfold L_BIN, L_TEST in Hl. lia.
Qed.

Lemma nocond_good e : wp e = true -> nocond e = true -> good L_TEST e.
Proof.
  intros Hw Hn. destruct e; cbn [nocond] in Hn;
    try (split; [assumption|split; [eapply at_level_isx; eassumption|pose proof (at_level_le _ _ Hn); unfold L_BIN, L_TEST in *; lia]]).
  repeat split; auto.
Qed.
