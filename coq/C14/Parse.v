(* C14 -- executable model of syntax/parse.go: recursive descent over the token
   list with explicit fuel.  No proofs here.

   Open recursion: every parser function is a plain definition `X_body self ..`
   taking the table `self` of all parser functions at the next lower fuel;
   `parsers n` ties the knot.  Fuel exhaustion is the distinguished result
   `OutOfFuel` (never a tree).  Errors of the Go parser (panics with
   syntax.Error) are `Err`. *)
From Coq Require Import ZArith List String Bool Arith.
From SV Require Import C14.Tokens.
Import ListNotations.
Open Scope nat_scope.

Notation "' p <- e ;; k" :=
  (match e with Ok p => k | Err => Err | OutOfFuel => OutOfFuel end)
  (at level 60, p pattern, e at next level, right associativity).

Definition PR (A : Type) := res (A * list ptok).

Record P := mkP {
  p_test : list ptok -> PR expr;
  p_testNoCond : list ptok -> PR expr;
  p_lambda : bool -> pos -> list ptok -> PR expr;
  p_params : bool -> list ptok -> PR (list expr * bool);
  p_testPrec : nat -> list ptok -> PR expr;
  p_binopLoop : nat -> bool -> expr -> list ptok -> PR expr;
  p_primSuffix : list ptok -> PR expr;
  p_suffixLoop : expr -> list ptok -> PR expr;
  p_primary : list ptok -> PR expr;
  p_expr : bool -> list ptok -> PR expr;
  p_exprs : bool -> list ptok -> PR (list expr * bool);
  p_args : bool -> list ptok -> PR (list expr * bool);
  p_dictEntry : list ptok -> PR expr;
  p_dictEntries : list ptok -> PR (list expr * bool);
  p_clauses : bool -> list ptok -> PR (list expr * pos);
  p_loopVars : list ptok -> PR expr;
  p_loopVarsTail : list ptok -> PR (list expr * bool);
  p_stmt : list ptok -> PR (list stmt);
  p_simpleStmt : list ptok -> PR (list stmt);
  p_suite : list ptok -> PR (list stmt);
  p_suiteStmts : list ptok -> PR (list stmt);
  p_elifs : list ptok -> PR (list (pos * expr * list stmt) * option (pos * list stmt));
  p_loadNames : list ptok -> PR (list (option (pos * string) * pos * list Z) * bool);
  p_file : list ptok -> res (list stmt)
}.

(* parseBinopExpr: "NOT must be followed by IN; replace NOT IN by a single NOT_IN token"
   (its position is that of IN, as p.tokval.pos is after the replacement) *)
Definition fuse (ts : list ptok) : list ptok :=
  match peek ts with
  | NOT =>
    match peek (tl ts) with
    | IN => (NOT_IN, peekpos (tl ts)) :: tl (tl ts)
    | _ => ts
    end
  | _ => ts
  end.

Section Bodies.
Variable self : P.

(* All matches below are one level deep on the lookahead token `peek ts`
   (p.tok), with `peekpos ts` = p.tokval.pos and `tl ts` = after nextToken. *)

(* parseTest *)
Definition test_dflt (ts : list ptok) : PR expr :=
    '(x, ts1) <- p_testPrec self 0 ts ;;
    match peek ts1 with
    | IF =>
      '(c, ts2) <- p_testPrec self 0 (tl ts1) ;;
      match peek ts2 with
      | ELSE => '(f, ts3) <- p_test self (tl ts2) ;; Ok (Cond x (peekpos ts1) c (peekpos ts2) f, ts3)
      | _ => Err       (* conditional expression without else clause *)
      end
    | _ => Ok (x, ts1)
    end.
Definition test_body (ts : list ptok) : PR expr :=
  match peek ts with
  | LAMBDA => p_lambda self true (peekpos ts) (tl ts)
  | _ => test_dflt ts
  end.

(* parseTestNoCond *)
Definition testNoCond_body (ts : list ptok) : PR expr :=
  match peek ts with
  | LAMBDA => p_lambda self false (peekpos ts) (tl ts)
  | _ => p_testPrec self 0 ts
  end.

(* parseLambda, LAMBDA already consumed at position lp *)
Definition lambda_body (allowCond : bool) (lp : pos) (ts : list ptok) : PR expr :=
  '(params, _, ts1) <- p_params self true ts ;;
  match peek ts1 with
  | COLON =>
    '(body, ts2) <- (if allowCond then p_test self (tl ts1) else p_testNoCond self (tl ts1)) ;;
    Ok (Lambda lp params body, ts2)
  | _ => Err
  end.

Definition comma_unless (first : bool) (ts : list ptok) : PR unit :=
  if first then Ok (tt, ts)
  else match peek ts with COMMA => Ok (tt, tl ts) | _ => Err end.

(* parseParams: the loop; `first` = no parameter parsed yet.  The bool of the
   result: the list ended with a comma (only possible before RPAREN). *)
Definition params_dflt (first : bool) (ts : list ptok) : PR (list expr * bool) :=
    '(_, ts1) <- comma_unless first ts ;;
    let p := peekpos ts1 in
    let r := tl ts1 in
    match peek ts1 with
    | RPAREN => Ok ([], negb first, ts1)
    | STAR =>
      match peek r with
      | IDENT name =>
        '(l, tc, ts2) <- p_params self false (tl r) ;;
        Ok (Unary p STAR (Some (Ident (peekpos r) name)) :: l, tc, ts2)
      | _ => '(l, tc, ts2) <- p_params self false r ;; Ok (Unary p STAR None :: l, tc, ts2)
      end
    | STARSTAR =>
      match peek r with
      | IDENT name =>
        '(l, tc, ts2) <- p_params self false (tl r) ;;
        Ok (Unary p STARSTAR (Some (Ident (peekpos r) name)) :: l, tc, ts2)
      | _ => Err
      end
    | IDENT name =>
      match peek r with
      | EQ =>
        '(d, ts2) <- p_test self (tl r) ;;
        '(l, tc, ts3) <- p_params self false ts2 ;;
        Ok (Binary (Ident p name) (peekpos r) EQ d :: l, tc, ts3)
      | _ => '(l, tc, ts2) <- p_params self false r ;; Ok (Ident p name :: l, tc, ts2)
      end
    | _ => Err
    end.
Definition params_body (first : bool) (ts : list ptok) : PR (list expr * bool) :=
  match peek ts with
  | RPAREN | COLON | EOF => Ok ([], false, ts)
  | _ => params_dflt first ts
  end.

(* parseTestPrec + the head of parseBinopExpr *)
Definition binopExpr (prec : nat) (ts : list ptok) : PR expr :=
  '(x, ts1) <- p_testPrec self (S prec) ts ;;
  p_binopLoop self prec true x ts1.
Definition testPrec_body (prec : nat) (ts : list ptok) : PR expr :=
  if nlevels <=? prec then p_primSuffix self ts
  else
    match peek ts with
    | NOT =>
      if prec =? prec_not then
        '(x, ts1) <- p_testPrec self prec (tl ts) ;; Ok (Unary (peekpos ts) NOT (Some x), ts1)
      else binopExpr prec ts
    | _ => binopExpr prec ts
    end.

(* the for-loop of parseBinopExpr *)
Definition binopLoop_body (prec : nat) (first : bool) (x : expr) (ts0 : list ptok) : PR expr :=
  let ts := fuse ts0 in
  let op := peek ts in
  match op with
  | NOT => Err                  (* NOT not followed by IN *)
  | _ =>
    match prec_of op with
    | Some opprec =>
      if opprec <? prec then Ok (x, ts)
      else if negb first && (opprec =? prec_cmp) then Err   (* comparisons do not associate *)
      else
        '(y, ts1) <- p_testPrec self (S opprec) (tl ts) ;;
        p_binopLoop self prec false (Binary x (peekpos ts) op y) ts1
    | None => Ok (x, ts)
    end
  end.

Definition primSuffix_body (ts : list ptok) : PR expr :=
  '(x, ts1) <- p_primary self ts ;; p_suffixLoop self x ts1.

(* parseSliceSuffix after '[' *)
Definition sliceRest (x : expr) (lb : pos) (lo : option expr) (ts1 : list ptok) : PR expr :=
  '(hi, ts2) <- (match peek ts1 with
                 | COLON =>
                   let r := tl ts1 in
                   match peek r with
                   | COLON | RBRACK => Ok (None, r)
                   | _ => '(h, t) <- p_test self r ;; Ok (Some h, t)
                   end
                 | _ => Ok (None, ts1)
                 end) ;;
  '(step, c2, ts3) <- (match peek ts2 with
                 | COLON =>
                   let r := tl ts2 in
                   match peek r with
                   | RBRACK => Ok (None, true, r)
                   | _ => '(s, t) <- p_test self r ;; Ok (Some s, true, t)
                   end
                 | _ => Ok (None, false, ts2)
                 end) ;;
  match peek ts3 with
  | RBRACK => Ok (Slice x lb lo hi step c2 (peekpos ts3), tl ts3)
  | _ => Err
  end.

Definition sliceSuffix (x : expr) (lb : pos) (ts : list ptok) : PR expr :=
  match peek ts with
  | COLON => sliceRest x lb None ts
  | _ =>
    '(y, ts1) <- p_expr self false ts ;;
    match peek ts1 with
    | RBRACK => Ok (Index x lb y (peekpos ts1), tl ts1)
    | _ => sliceRest x lb (Some y) ts1
    end
  end.

(* parseCallSuffix after '(' *)
Definition callSuffix (fn : expr) (lp : pos) (ts : list ptok) : PR expr :=
  match peek ts with
  | RPAREN => Ok (Call fn lp [] false (peekpos ts), tl ts)
  | _ =>
    '(args, tc, ts1) <- p_args self true ts ;;
    match peek ts1 with
    | RPAREN => Ok (Call fn lp args tc (peekpos ts1), tl ts1)
    | _ => Err
    end
  end.

Definition suffixLoop_body (x : expr) (ts : list ptok) : PR expr :=
  let p := peekpos ts in
  let r := tl ts in
  match peek ts with
  | DOT =>
    match peek r with
    | IDENT name => p_suffixLoop self (Dot x p (peekpos r) name) (tl r)
    | _ => Err
    end
  | LBRACK => '(x', ts1) <- sliceSuffix x p r ;; p_suffixLoop self x' ts1
  | LPAREN => '(x', ts1) <- callSuffix x p r ;; p_suffixLoop self x' ts1
  | _ => Ok (x, ts)
  end.

Definition is_ident (e : expr) : bool :=
  match e with Ident _ _ => true | _ => false end.

(* parseArgs loop *)
Definition args_plain (ts1 : list ptok) : PR (list expr * bool) :=
      '(x, ts2) <- p_test self ts1 ;;
      match peek ts2 with
      | EQ =>
        if is_ident x then
          '(y, ts3) <- p_test self (tl ts2) ;;
          '(l, tc, ts4) <- p_args self false ts3 ;; Ok (Binary x (peekpos ts2) EQ y :: l, tc, ts4)
        else Err            (* keyword argument must have form name=expr *)
      | _ => '(l, tc, ts3) <- p_args self false ts2 ;; Ok (x :: l, tc, ts3)
      end.
Definition args_dflt (first : bool) (ts : list ptok) : PR (list expr * bool) :=
    '(_, ts1) <- comma_unless first ts ;;
    let p := peekpos ts1 in
    let r := tl ts1 in
    match peek ts1 with
    | RPAREN => Ok ([], negb first, ts1)
    | STAR =>
      '(x, ts2) <- p_test self r ;;
      '(l, tc, ts3) <- p_args self false ts2 ;; Ok (Unary p STAR (Some x) :: l, tc, ts3)
    | STARSTAR =>
      '(x, ts2) <- p_test self r ;;
      '(l, tc, ts3) <- p_args self false ts2 ;; Ok (Unary p STARSTAR (Some x) :: l, tc, ts3)
    | _ => args_plain ts1
    end.
Definition args_body (first : bool) (ts : list ptok) : PR (list expr * bool) :=
  match peek ts with
  | RPAREN | EOF => Ok ([], false, ts)
  | _ => args_dflt first ts
  end.

(* parseList after '[' ; parseDict after '{' *)
Definition list_dflt (lb : pos) (ts : list ptok) : PR expr :=
    '(x, ts1) <- p_test self ts ;;
    match peek ts1 with
    | FOR =>
      '(cl, rb, ts2) <- p_clauses self false ts1 ;; Ok (Comp false lb x cl rb, ts2)
    | _ =>
      '(l, tc, ts2) <- p_exprs self true ts1 ;;
      match peek ts2 with
      | RBRACK => Ok (ListE lb (x :: l) tc (peekpos ts2), tl ts2)
      | _ => Err
      end
    end.
Definition parseList (lb : pos) (ts : list ptok) : PR expr :=
  match peek ts with
  | RBRACK => Ok (ListE lb [] false (peekpos ts), tl ts)
  | _ => list_dflt lb ts
  end.

Definition dictEntry_body (ts : list ptok) : PR expr :=
  '(k, ts1) <- p_test self ts ;;
  match peek ts1 with
  | COLON => '(v, ts2) <- p_test self (tl ts1) ;; Ok (DictEntry k (peekpos ts1) v, ts2)
  | _ => Err
  end.

Definition dictEntries_body (ts : list ptok) : PR (list expr * bool) :=
  match peek ts with
  | COMMA =>
    let r := tl ts in
    match peek r with
    | RBRACE => Ok ([], true, r)
    | _ =>
      '(e, ts1) <- p_dictEntry self r ;;
      '(l, tc, ts2) <- p_dictEntries self ts1 ;; Ok (e :: l, tc, ts2)
    end
  | _ => Ok ([], false, ts)
  end.

Definition dict_dflt (lb : pos) (ts : list ptok) : PR expr :=
    '(x, ts1) <- p_dictEntry self ts ;;
    match peek ts1 with
    | FOR =>
      '(cl, rb, ts2) <- p_clauses self true ts1 ;; Ok (Comp true lb x cl rb, ts2)
    | _ =>
      '(l, tc, ts2) <- p_dictEntries self ts1 ;;
      match peek ts2 with
      | RBRACE => Ok (DictE lb (x :: l) tc (peekpos ts2), tl ts2)
      | _ => Err
      end
    end.
Definition parseDict (lb : pos) (ts : list ptok) : PR expr :=
  match peek ts with
  | RBRACE => Ok (DictE lb [] false (peekpos ts), tl ts)
  | _ => dict_dflt lb ts
  end.

(* parseComprehensionSuffix loop; curly = the closing token is '}' *)
Definition clauses_body (curly : bool) (ts : list ptok) : PR (list expr * pos) :=
  let p := peekpos ts in
  let r := tl ts in
  match peek ts with
  | RBRACK => if curly then Err else Ok ([], p, r)
  | RBRACE => if curly then Ok ([], p, r) else Err
  | FOR =>
    '(vars, ts1) <- p_loopVars self r ;;
    match peek ts1 with
    | IN =>
      '(x, ts2) <- p_testPrec self 0 (tl ts1) ;;
      '(cl, rb, ts3) <- p_clauses self curly ts2 ;;
      Ok (ForClause p vars (peekpos ts1) x :: cl, rb, ts3)
    | _ => Err
    end
  | IF =>
    '(c, ts1) <- p_testNoCond self r ;;
    '(cl, rb, ts2) <- p_clauses self curly ts1 ;; Ok (IfClause p c :: cl, rb, ts2)
  | _ => Err
  end.

(* parsePrimary *)
Definition primary_body (ts : list ptok) : PR expr :=
  let p := peekpos ts in
  let r := tl ts in
  match peek ts with
  | IDENT s => Ok (Ident p s, r)
  | INT z => Ok (Literal p (LInt z), r)
  | FLOAT b => Ok (Literal p (LFloat b), r)
  | STRING b => Ok (Literal p (LString b), r)
  | BYTES b => Ok (Literal p (LBytes b), r)
  | LBRACK => parseList p r
  | LBRACE => parseDict p r
  | LPAREN =>
    match peek r with
    | RPAREN => Ok (EmptyTuple p (peekpos r), tl r)
    | _ =>
      '(e, ts1) <- p_expr self true r ;;
      match peek ts1 with
      | RPAREN => Ok (Paren p e (peekpos ts1), tl ts1)
      | _ => Err
      end
    end
  | MINUS => '(x, ts1) <- p_primSuffix self r ;; Ok (Unary p MINUS (Some x), ts1)
  | PLUS => '(x, ts1) <- p_primSuffix self r ;; Ok (Unary p PLUS (Some x), ts1)
  | TILDE => '(x, ts1) <- p_primSuffix self r ;; Ok (Unary p TILDE (Some x), ts1)
  | _ => Err
  end.

(* parseExpr / parseExprs *)
Definition expr_body (inParens : bool) (ts : list ptok) : PR expr :=
  '(x, ts1) <- p_test self ts ;;
  match peek ts1 with
  | COMMA =>
    '(l, tc, ts2) <- p_exprs self inParens ts1 ;; Ok (Tuple (x :: l) tc, ts2)
  | _ => Ok (x, ts1)
  end.

Definition exprs_body (allowTrailing : bool) (ts : list ptok) : PR (list expr * bool) :=
  match peek ts with
  | COMMA =>
    let r := tl ts in
    if terminates_expr_list (peek r) then
      (if allowTrailing then Ok ([], true, r) else Err)  (* unparenthesized tuple with trailing comma *)
    else
      '(x, ts1) <- p_test self r ;;
      '(l, tc, ts2) <- p_exprs self allowTrailing ts1 ;; Ok (x :: l, tc, ts2)
  | _ => Ok ([], false, ts)
  end.

(* parseForLoopVariables *)
Definition loopVars_body (ts : list ptok) : PR expr :=
  '(v, ts1) <- p_primSuffix self ts ;;
  match peek ts1 with
  | COMMA =>
    '(l, tc, ts2) <- p_loopVarsTail self ts1 ;; Ok (Tuple (v :: l) tc, ts2)
  | _ => Ok (v, ts1)
  end.

Definition loopVarsTail_body (ts : list ptok) : PR (list expr * bool) :=
  match peek ts with
  | COMMA =>
    let r := tl ts in
    if terminates_expr_list (peek r) then Ok ([], true, r)
    else
      '(x, ts1) <- p_primSuffix self r ;;
      '(l, tc, ts2) <- p_loopVarsTail self ts1 ;; Ok (x :: l, tc, ts2)
  | _ => Ok ([], false, ts)
  end.

(* ---- statements ---- *)

Definition parseLoadStmt (p : pos) (ts : list ptok) : PR stmt :=
  match peek ts with
  | LPAREN =>
    let r := tl ts in
    match peek r with
    | STRING m =>
      '(names, tc, ts1) <- p_loadNames self (tl r) ;;
      match peek ts1 with
      | RPAREN =>
        match names with
        | [] => Err      (* load statement must import at least 1 symbol *)
        | _ => Ok (LoadStmt p (peekpos ts) (peekpos r) m names tc (peekpos ts1), tl ts1)
        end
      | _ => Err
      end
    | _ => Err
    end
  | _ => Err
  end.

Definition loadNames_dflt (ts : list ptok)
  : PR (list (option (pos * string) * pos * list Z) * bool) :=
    match peek ts with
    | COMMA =>
      let r := tl ts in
      match peek r with
      | RPAREN => Ok ([], true, r)
      | STRING s =>
        '(l, tc, ts1) <- p_loadNames self (tl r) ;; Ok ((None, peekpos r, s) :: l, tc, ts1)
      | IDENT id =>
        let r1 := tl r in
        match peek r1 with
        | EQ =>
          let r2 := tl r1 in
          match peek r2 with
          | STRING s =>
            '(l, tc, ts1) <- p_loadNames self (tl r2) ;;
            Ok ((Some (peekpos r, id), peekpos r2, s) :: l, tc, ts1)
          | _ => Err
          end
        | _ => Err
        end
      | _ => Err
      end
    | _ => Err
    end.
Definition loadNames_body (ts : list ptok)
  : PR (list (option (pos * string) * pos * list Z) * bool) :=
  match peek ts with
  | RPAREN | EOF => Ok ([], false, ts)
  | _ => loadNames_dflt ts
  end.

Definition assignOrExpr (ts : list ptok) : PR stmt :=
    '(x, ts1) <- p_expr self false ts ;;
    if is_augassign (peek ts1) then
      '(rhs, ts2) <- p_expr self false (tl ts1) ;; Ok (AssignStmt x (peekpos ts1) (peek ts1) rhs, ts2)
    else Ok (ExprStmt x, ts1).
Definition parseSmallStmt (ts : list ptok) : PR stmt :=
  let p := peekpos ts in
  let r := tl ts in
  match peek ts with
  | RETURN =>
    match peek r with
    | EOF | NEWLINE | SEMI => Ok (ReturnStmt p None, r)
    | _ => '(e, ts1) <- p_expr self false r ;; Ok (ReturnStmt p (Some e), ts1)
    end
  | BREAK => Ok (BranchStmt p BREAK, r)
  | CONTINUE => Ok (BranchStmt p CONTINUE, r)
  | PASS => Ok (BranchStmt p PASS, r)
  | LOAD => parseLoadStmt p r
  | _ => assignOrExpr ts
  end.

(* parseSimpleStmt with consumeNL = true *)
Definition finishSimple (l : list stmt) (t : list ptok) : PR (list stmt) :=
  match peek t with
  | EOF => Ok (l, t)
  | NEWLINE => Ok (l, tl t)
  | _ => Err
  end.

Definition simpleStmt_body (ts : list ptok) : PR (list stmt) :=
  '(s, ts1) <- parseSmallStmt ts ;;
  match peek ts1 with
  | SEMI =>
    let r := tl ts1 in
    match peek r with
    | NEWLINE | EOF => finishSimple [s] r
    | _ => '(l, ts2) <- p_simpleStmt self r ;; Ok (s :: l, ts2)
    end
  | _ => finishSimple [s] ts1
  end.

Definition suite_body (ts : list ptok) : PR (list stmt) :=
  match peek ts with
  | NEWLINE =>
    let r := tl ts in
    match peek r with
    | INDENT =>
      '(body, ts1) <- p_suiteStmts self (tl r) ;;
      match peek ts1 with
      | OUTDENT => Ok (body, tl ts1)
      | _ => Err
      end
    | _ => Err
    end
  | _ => p_simpleStmt self ts
  end.

Definition suiteStmts_body (ts : list ptok) : PR (list stmt) :=
  match peek ts with
  | OUTDENT | EOF => Ok ([], ts)
  | _ =>
    '(l, ts1) <- p_stmt self ts ;;
    '(l2, ts2) <- p_suiteStmts self ts1 ;; Ok (l ++ l2, ts2)
  end.

Definition colonSuite (ts : list ptok) : PR (list stmt) :=
  match peek ts with
  | COLON => p_suite self (tl ts)
  | _ => Err
  end.

Definition elifs_body (ts : list ptok)
  : PR (list (pos * expr * list stmt) * option (pos * list stmt)) :=
  let p := peekpos ts in
  let r := tl ts in
  match peek ts with
  | ELIF =>
    '(c, ts1) <- p_test self r ;;
    '(body, ts2) <- colonSuite ts1 ;;
    '(l, els, ts3) <- p_elifs self ts2 ;; Ok ((p, c, body) :: l, els, ts3)
  | ELSE =>
    '(body, ts1) <- colonSuite r ;; Ok ([], Some (p, body), ts1)
  | _ => Ok ([], None, ts)
  end.

Definition stmt_body (ts : list ptok) : PR (list stmt) :=
  let p := peekpos ts in
  let r := tl ts in
  match peek ts with
  | DEF =>
    match peek r with
    | IDENT name =>
      let r1 := tl r in
      match peek r1 with
      | LPAREN =>
        '(params, tc, ts1) <- p_params self true (tl r1) ;;
        match peek ts1 with
        | RPAREN =>
          '(body, ts2) <- colonSuite (tl ts1) ;;
          Ok ([DefStmt p (peekpos r) name (peekpos r1) params tc (peekpos ts1) body], ts2)
        | _ => Err
        end
      | _ => Err
      end
    | _ => Err
    end
  | IF =>
    '(c, ts1) <- p_test self r ;;
    '(body, ts2) <- colonSuite ts1 ;;
    '(l, els, ts3) <- p_elifs self ts2 ;; Ok ([IfStmt p c body l els], ts3)
  | FOR =>
    '(vars, ts1) <- p_loopVars self r ;;
    match peek ts1 with
    | IN =>
      '(x, ts2) <- p_expr self false (tl ts1) ;;
      '(body, ts3) <- colonSuite ts2 ;; Ok ([ForStmt p vars x body], ts3)
    | _ => Err
    end
  | WHILE =>
    '(c, ts1) <- p_test self r ;;
    '(body, ts2) <- colonSuite ts1 ;; Ok ([WhileStmt p c body], ts2)
  | _ => p_simpleStmt self ts
  end.

Definition file_body (ts : list ptok) : res (list stmt) :=
  match peek ts with
  | EOF => Ok []
  | NEWLINE => p_file self (tl ts)
  | _ =>
    '(l, ts1) <- p_stmt self ts ;;
    match p_file self ts1 with
    | Ok l2 => Ok (l ++ l2)
    | Err => Err
    | OutOfFuel => OutOfFuel
    end
  end.

Definition step : P := {|
  p_test := test_body;
  p_testNoCond := testNoCond_body;
  p_lambda := lambda_body;
  p_params := params_body;
  p_testPrec := testPrec_body;
  p_binopLoop := binopLoop_body;
  p_primSuffix := primSuffix_body;
  p_suffixLoop := suffixLoop_body;
  p_primary := primary_body;
  p_expr := expr_body;
  p_exprs := exprs_body;
  p_args := args_body;
  p_dictEntry := dictEntry_body;
  p_dictEntries := dictEntries_body;
  p_clauses := clauses_body;
  p_loopVars := loopVars_body;
  p_loopVarsTail := loopVarsTail_body;
  p_stmt := stmt_body;
  p_simpleStmt := simpleStmt_body;
  p_suite := suite_body;
  p_suiteStmts := suiteStmts_body;
  p_elifs := elifs_body;
  p_loadNames := loadNames_body;
  p_file := file_body
|}.
End Bodies.

Definition bottom : P := {|
  p_test := fun _ => OutOfFuel;
  p_testNoCond := fun _ => OutOfFuel;
  p_lambda := fun _ _ _ => OutOfFuel;
  p_params := fun _ _ => OutOfFuel;
  p_testPrec := fun _ _ => OutOfFuel;
  p_binopLoop := fun _ _ _ _ => OutOfFuel;
  p_primSuffix := fun _ => OutOfFuel;
  p_suffixLoop := fun _ _ => OutOfFuel;
  p_primary := fun _ => OutOfFuel;
  p_expr := fun _ _ => OutOfFuel;
  p_exprs := fun _ _ => OutOfFuel;
  p_args := fun _ _ => OutOfFuel;
  p_dictEntry := fun _ => OutOfFuel;
  p_dictEntries := fun _ => OutOfFuel;
  p_clauses := fun _ _ => OutOfFuel;
  p_loopVars := fun _ => OutOfFuel;
  p_loopVarsTail := fun _ => OutOfFuel;
  p_stmt := fun _ => OutOfFuel;
  p_simpleStmt := fun _ => OutOfFuel;
  p_suite := fun _ => OutOfFuel;
  p_suiteStmts := fun _ => OutOfFuel;
  p_elifs := fun _ => OutOfFuel;
  p_loadNames := fun _ => OutOfFuel;
  p_file := fun _ => OutOfFuel
|}.

Fixpoint parsers (n : nat) : P :=
  match n with O => bottom | S n => step (parsers n) end.

(* fuel that always suffices for a token list (proved for rendered trees in Proofs) *)
Definition fuel_of (ts : list ptok) : nat := 40 * List.length ts + 40.

(* FileOptions.ParseExpr: an expression (tuple allowed), an optional NEWLINE, EOF *)
Definition parse_expr_n (n : nat) (ts : list ptok) : res expr :=
  '(e, ts1) <- p_expr (parsers n) false ts ;;
  let ts2 := match peek ts1 with NEWLINE => tl ts1 | _ => ts1 end in
  match peek ts2 with EOF => Ok e | _ => Err end.
Definition parse_expr (ts : list ptok) : res expr := parse_expr_n (fuel_of ts) ts.

(* FileOptions.Parse *)
Definition parse_file (ts : list ptok) : res (list stmt) := p_file (parsers (fuel_of ts)) ts.
