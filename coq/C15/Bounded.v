(* Bounded-exhaustive agreement of the scanner+unquote model with the
   specification's literal reader: every source text up to a given length over
   an alphabet of the characters that matter to literal syntax (both quotes,
   backslash, the r/b prefixes, x/u escapes, octal and hex digits, LF, CR, a
   two-byte UTF-8 character).  A finite domain enumerated completely. *)
From Coq Require Import NArith List Bool Lia.
From SV Require Import C15.Utf8 C15.Quote C15.Spec.
Import ListNotations.
Open Scope N_scope.

Inductive sobs := SErr | SOk (is_bytes : bool) (v : list N) (rest : list N).
Definition sobs_eqb (a b : sobs) : bool :=
  match a, b with
  | SErr, SErr => true
  | SOk b1 v1 r1, SOk b2 v2 r2 => Bool.eqb b1 b2 && bytes_eqb v1 v2 && bytes_eqb r1 r2
  | _, _ => false
  end.
Definition model_scan (src : list N) : sobs :=
  match scan_literal src with
  | Ok (TBytes, v, rest) => SOk true v rest
  | Ok (TString, v, rest) => SOk false v rest
  | Err => SErr
  end.
Definition spec_scan (src : list N) : sobs :=
  match spec_literal src with
  | Some (b, v, rest) => SOk b v rest
  | None => SErr
  end.

Definition agree (src : list N) : bool :=
  negb (valid_utf8 src) || sobs_eqb (model_scan src) (spec_scan src).

(* f holds on every string of length <= n over the alphabet *)
Fixpoint all_upto (n : nat) (alphabet : list N) (f : list N -> bool) : bool :=
  f [] &&
  match n with
  | O => true
  | S k => forallb (fun c => all_upto k alphabet (fun s => f (c :: s))) alphabet
  end.

Lemma all_upto_spec : forall n alphabet f,
  all_upto n alphabet f = true ->
  forall s, (length s <= n)%nat -> Forall (fun c => In c alphabet) s -> f s = true.
Proof.
  induction n as [|n IH]; intros alphabet f H s Hlen Hin.
  - destruct s; [|simpl in Hlen; lia]. cbn in H. now apply andb_true_iff in H.
  - cbn [all_upto] in H. apply andb_true_iff in H. destruct H as [H0 H1].
    destruct s as [|c t]; [exact H0|].
    inversion Hin as [|? ? Hc Ht]; subst.
    rewrite forallb_forall in H1. specialize (H1 c Hc).
    apply (IH alphabet (fun s => f (c :: s)) H1 t); [simpl in Hlen; lia|exact Ht].
Qed.

(* double quote, quote, backslash, r, b, x, 0, 4, 7, a, LF, CR, and the two bytes of e-acute *)
Definition alphabet : list N := [34; 39; 92; 114; 98; 120; 48; 52; 55; 97; 10; 13; 0xC3; 0xA9].
Definition bound : nat := 6.

Lemma bytes_eqb_eq a : forall b, bytes_eqb a b = true -> a = b.
Proof.
  induction a as [|x a IH]; intros [|y b] H; try discriminate; [reflexivity|].
  cbn in H. apply andb_true_iff in H. destruct H as [H1 H2].
  apply N.eqb_eq in H1. subst. f_equal. now apply IH.
Qed.

Lemma sobs_eqb_eq a b : sobs_eqb a b = true -> a = b.
Proof.
  destruct a as [|b1 v1 r1], b as [|b2 v2 r2]; cbn; intros H; try discriminate; [reflexivity|].
  apply andb_true_iff in H. destruct H as [H H3]. apply andb_true_iff in H. destruct H as [H1 H2].
  apply Bool.eqb_prop in H1. apply bytes_eqb_eq in H2. apply bytes_eqb_eq in H3. now subst.
Qed.

(* 14^0 + ... + 14^6 = 8,108,731 source texts, each scanned by both readers *)
Lemma agree_all : all_upto bound alphabet agree = true.
Proof. vm_compute. reflexivity. Qed.

Theorem scan_agrees_with_spec_bounded_lemma : forall src,
  (length src <= bound)%nat -> Forall (fun c => In c alphabet) src ->
  valid_utf8 src = true -> model_scan src = spec_scan src.
Proof.
  intros src Hl Ha Hv.
  pose proof (all_upto_spec bound alphabet agree agree_all src Hl Ha) as H.
  unfold agree in H. rewrite Hv in H. cbn in H. now apply sobs_eqb_eq.
Qed.

