(* Unbounded agreement of scanner+unquote with the specification reader, part 4:
   unquote on the token text the scanner hands over (prefix, delimiters, body),
   scanString against s_delimited, and the literal cases of nextToken against
   spec_literal: for EVERY well-formed UTF-8 source text. *)
From Coq Require Import NArith List Bool Lia ZifyBool ZifyNat ZifyN Arith.
From SV Require Import C15.Utf8 C15.Quote C15.Spec C15.ProofsQuote C15.ProofsScan
  C15.ProofsAgreeScan C15.ProofsAgreeUnq C15.ProofsAgreeItems C15.Bounded.
Import ListNotations.
Open Scope N_scope.

(* the r / b / rb prefixes and the flags they stand for *)
Inductive prefix_ok : list N -> bool -> bool -> Prop :=
| P_none : prefix_ok [] false false
| P_r : prefix_ok [114] true false
| P_b : prefix_ok [98] false true
| P_rb : prefix_ok [114; 98] true true.

Lemma unquote_prefix p raw ib q rest : prefix_ok p raw ib -> (q = 34 \/ q = 39) ->
  unquote (p ++ q :: rest) = unquote_core raw ib (q :: rest).
Proof. intros Hp Hq. destruct Hp; destruct Hq as [-> | ->]; reflexivity. Qed.

Lemma unq_no_special' (ib raw : bool) (l : list N) :
  contains_any l (if raw then [c_cr] else [c_bs; c_cr]) = false -> unq_loop ib raw l = Ok l.
Proof.
  induction l as [|c l IH]; intros H; [reflexivity|].
  unfold contains_any in H. cbn [existsb] in H. apply orb_false_iff in H. destruct H as [H1 H2].
  cbn [unq_loop].
  assert (A : (c =? c_cr) = false) by (destruct raw; cbn in H1; lia).
  assert (B : ((c =? c_bs) && negb raw) = false) by (destruct raw; cbn in H1; lia).
  rewrite A, B. rewrite IH by exact H2. reflexivity.
Qed.

(* single-quoted token text: q body q, where body does not start with q *)
Lemma core_single raw ib q b0 : (q = 34 \/ q = 39) ->
  (b0 = [] \/ exists x L, b0 = x :: L /\ x <> q) ->
  unquote_core raw ib (q :: b0 ++ [q]) =
  match unq_loop ib raw b0 with Ok s => Ok (s, false, ib) | Err => Err end.
Proof.
  intros Hq Hhd. unfold unquote_core. cbv zeta.
  assert (Hn : length (q :: b0 ++ [q]) = S (S (length b0))).
  { cbn [length]. rewrite app_length. cbn. lia. }
  rewrite Hn.
  assert (L2 : Nat.ltb (S (S (length b0))) 2 = false) by (apply Nat.ltb_ge; lia). rewrite L2.
  cbv beta iota.
  assert (LL : last (q :: b0 ++ [q]) 0 = q).
  { change (q :: b0 ++ [q]) with ((q :: b0) ++ [q]). apply last_snoc. }
  rewrite LL.
  assert (Q : ((negb (q =? c_dq) && negb (q =? c_sq)) || negb (q =? q)) = false)
    by (destruct Hq as [-> | ->]; reflexivity).
  rewrite Q.
  assert (T : (Nat.leb 6 (S (S (length b0))) && (nth 1 (q :: b0 ++ [q]) 0 =? q)) = false).
  { destruct Hhd as [-> | (x & L & -> & Hx)]; [reflexivity|].
    cbn [nth app]. assert (E : (x =? q) = false) by lia. rewrite E. apply andb_false_r. }
  rewrite T. cbn [andb].
  cbn [skipn]. replace (S (S (length b0)) - 2)%nat with (length b0) by lia.
  rewrite firstn_snoc_all.
  destruct (contains_any b0 (if raw then [c_cr] else [c_bs; c_cr])) eqn:C; cbn [negb].
  - reflexivity.
  - rewrite (unq_no_special' ib raw b0 C). reflexivity.
Qed.

(* triple-quoted token text: qqq body qqq *)
Lemma core_triple raw ib q b0 : (q = 34 \/ q = 39) ->
  unquote_core raw ib (q :: q :: q :: b0 ++ [q; q; q]) =
  match unq_loop ib raw b0 with Ok s => Ok (s, true, ib) | Err => Err end.
Proof.
  intros Hq. unfold unquote_core. cbv zeta.
  assert (Hn : length (q :: q :: q :: b0 ++ [q; q; q]) = (length b0 + 6)%nat).
  { cbn [length]. rewrite app_length. cbn. lia. }
  rewrite Hn.
  assert (L2 : Nat.ltb (length b0 + 6) 2 = false) by (apply Nat.ltb_ge; lia). rewrite L2.
  cbv beta iota.
  assert (LL : last (q :: q :: q :: b0 ++ [q; q; q]) 0 = q).
  { replace (q :: q :: q :: b0 ++ [q; q; q]) with ((q :: q :: q :: b0 ++ [q; q]) ++ [q])
      by (cbn [app]; rewrite <- app_assoc; reflexivity).
    apply last_snoc. }
  rewrite LL.
  assert (Q : ((negb (q =? c_dq) && negb (q =? c_sq)) || negb (q =? q)) = false)
    by (destruct Hq as [-> | ->]; reflexivity).
  rewrite Q.
  assert (A3 : Nat.leb 6 (length b0 + 6) = true) by (apply Nat.leb_le; lia). rewrite A3.
  cbn [nth]. rewrite N.eqb_refl. cbn [andb].
  assert (A5 : firstn 3 (q :: q :: q :: b0 ++ [q; q; q]) = [q; q; q]) by reflexivity. rewrite A5.
  assert (A6 : skipn (length b0 + 6 - 3) (q :: q :: q :: b0 ++ [q; q; q]) = [q; q; q]).
  { replace (length b0 + 6 - 3)%nat with (S (S (S (length b0)))) by lia. cbn [skipn].
    rewrite skipn_app, skipn_all, Nat.sub_diag. reflexivity. }
  rewrite A6.
  assert (A7 : bytes_eqb [q; q; q] [q; q; q] = true) by (cbn; rewrite N.eqb_refl; reflexivity).
  rewrite A7. cbn [skipn].
  replace (length b0 + 6 - 6)%nat with (length b0) by lia.
  assert (A8 : firstn (length b0) (b0 ++ [q; q; q]) = b0).
  { rewrite firstn_app, Nat.sub_diag, firstn_all. cbn. apply app_nil_r. }
  rewrite A8.
  destruct (contains_any b0 (if raw then [c_cr] else [c_bs; c_cr])) eqn:C; cbn [negb].
  - reflexivity.
  - rewrite (unq_no_special' ib raw b0 C). reflexivity.
Qed.

(* ---- observations ----------------------------------------------------------------- *)
Definition mobs (x : res (strtok * list N * list N)) : sobs :=
  match x with
  | Ok (TBytes, v, rest) => SOk true v rest
  | Ok (TString, v, rest) => SOk false v rest
  | Err => SErr
  end.
Definition sobs_of (x : option (bool * list N * list N)) : sobs :=
  match x with Some (b, v, rest) => SOk b v rest | None => SErr end.

Definition finishM (raw : list N) (rest' : list N) : res (strtok * list N * list N) :=
  match unquote raw with
  | Ok (s, _, is_byte) => Ok (if is_byte then TBytes else TString, s, rest')
  | Err => Err
  end.

(* what the implementation's two passes return, in terms of `fin` (any source) *)
Lemma single_model p raw ib q t : prefix_ok p raw ib -> (q = 34 \/ q = 39) ->
  mobs (match scan1 q 0 false t with
        | Ok (body, rest') => finishM (p ++ [q] ++ body) rest'
        | Err => Err
        end)
  = sobs_of (omap (fun p0 : list N * list N => (ib, fst p0, snd p0))
                  (fin false raw ib (scanG false q 0 false 0 t))).
Proof.
  intros Hp Hq. rewrite <- (scanG_scan1 q t 0 false 0).
  destruct (scanG false q 0 false 0 t) as [[b r]|] eqn:S; [|reflexivity].
  destruct (scanG_ends0 _ _ _ _ _ _ _ Hq S) as [b0 ->]. cbn [closer] in *.
  cbn [fin]. change (klen false) with (length [q]). rewrite chop_closer.
  unfold finishM. cbn [app]. rewrite (unquote_prefix p raw ib q (b0 ++ [q]) Hp Hq).
  rewrite (core_single raw ib q b0 Hq (body_head1 q t b0 r Hq S)).
  destruct (unq_loop ib raw b0); [|reflexivity]. destruct ib; reflexivity.
Qed.

Lemma triple_model p raw ib q t : prefix_ok p raw ib -> (q = 34 \/ q = 39) ->
  mobs (match scan3 q 0 false 0 t with
        | Ok (body, rest') => finishM (p ++ [q; q; q] ++ body) rest'
        | Err => Err
        end)
  = sobs_of (omap (fun p0 : list N * list N => (ib, fst p0, snd p0))
                  (fin true raw ib (scanG true q 0 false 0 t))).
Proof.
  intros Hp Hq. rewrite <- (scanG_scan3 q t 0 false 0).
  destruct (scanG true q 0 false 0 t) as [[b r]|] eqn:S; [|reflexivity].
  destruct (scanG_ends0 _ _ _ _ _ _ _ Hq S) as [b0 ->]. cbn [closer] in *.
  cbn [fin]. change (klen true) with (length [q; q; q]). rewrite chop_closer.
  unfold finishM. cbn [app]. rewrite (unquote_prefix p raw ib q (q :: q :: b0 ++ [q; q; q]) Hp Hq).
  rewrite (core_triple raw ib q b0 Hq).
  destruct (unq_loop ib raw b0); [|reflexivity]. destruct ib; reflexivity.
Qed.

(* the two modes of agreement on observations: ex = true: equal; ex = false: both
   reject, or both accept with the same kind and the same remaining input *)
Definition extent (o : sobs) : option (bool * list N) :=
  match o with SErr => None | SOk b _ rest => Some (b, rest) end.
Definition orel (ex : bool) (a b : sobs) : Prop := if ex then a = b else extent a = extent b.

Lemma orel_refl ex a : orel ex a a.
Proof. destruct ex; reflexivity. Qed.

Lemma orel_lift ex ib A B : rel ex A B ->
  orel ex (sobs_of (omap (fun p0 : list N * list N => (ib, fst p0, snd p0)) A))
          (sobs_of (omap (fun p0 : list N * list N => (ib, fst p0, snd p0)) B)).
Proof.
  destruct ex; cbn [rel orel]; intros H; [now rewrite H|].
  destruct A as [[a b]|], B as [[c d]|]; cbn in *; congruence.
Qed.

Lemma single_agree ex p raw ib q t : prefix_ok p raw ib -> (q = 34 \/ q = 39) -> okv ex t ->
  orel ex (mobs (match scan1 q 0 false t with
                 | Ok (body, rest') => finishM (p ++ [q] ++ body) rest'
                 | Err => Err
                 end))
          (sobs_of (omap (fun p0 : list N * list N => (ib, fst p0, snd p0)) (s_items raw ib false q t))).
Proof.
  intros Hp Hq Hv. rewrite (single_model p raw ib q t Hp Hq). apply orel_lift.
  exact (items_agree_rel ex false raw ib q Hq (length t) t (le_n _) Hv).
Qed.

Lemma triple_agree ex p raw ib q t : prefix_ok p raw ib -> (q = 34 \/ q = 39) -> okv ex t ->
  orel ex (mobs (match scan3 q 0 false 0 t with
                 | Ok (body, rest') => finishM (p ++ [q; q; q] ++ body) rest'
                 | Err => Err
                 end))
          (sobs_of (omap (fun p0 : list N * list N => (ib, fst p0, snd p0)) (s_items raw ib true q t))).
Proof.
  intros Hp Hq Hv. rewrite (triple_model p raw ib q t Hp Hq). apply orel_lift.
  exact (items_agree_rel ex true raw ib q Hq (length t) t (le_n _) Hv).
Qed.

Lemma is_quote_cases c : is_quote c = true -> c = 34 \/ c = 39.
Proof. unfold is_quote. cst. lia. Qed.

(* scanString at the opening quote against the specification's delimited reader *)
Lemma scan_string_agree ex p raw ib q t : prefix_ok p raw ib -> (q = 34 \/ q = 39) ->
  okv ex t ->
  orel ex (mobs (scan_string p q (q :: t))) (sobs_of (s_delimited raw ib (q :: t))).
Proof.
  intros Hp Hq Hv. unfold scan_string, s_delimited. cbv zeta.
  assert (SQ : s_is_quote q = true) by (destruct Hq as [-> | ->]; reflexivity). rewrite SQ.
  destruct t as [|a [|b r3]].
  - exact (single_agree ex p raw ib q [] Hp Hq Hv).
  - exact (single_agree ex p raw ib q [a] Hp Hq Hv).
  - rewrite N.eqb_refl. cbn [andb].
    destruct ((a =? q) && (b =? q)) eqn:E.
    + assert (a = q) by lia. assert (b = q) by lia. subst a b.
      assert (V3 : okv ex r3) by (apply (okv_app ex [q; q]); [repeat constructor; lia|exact Hv]).
      exact (triple_agree ex p raw ib q r3 Hp Hq V3).
    + exact (single_agree ex p raw ib q (a :: b :: r3) Hp Hq Hv).
Qed.

Lemma s_delimited_nonquote raw ib c t : is_quote c = false -> s_delimited raw ib (c :: t) = None.
Proof. intros H. unfold s_delimited. change (s_is_quote c) with (is_quote c). rewrite H. reflexivity. Qed.

(* both modes at once *)
Theorem scan_agrees_rel ex : forall src,
  okv ex src -> orel ex (model_scan src) (spec_scan src).
Proof.
  intros src Hv. change (orel ex (mobs (scan_literal src)) (sobs_of (spec_literal src))).
  unfold scan_literal, spec_literal.
  destruct src as [|c t]; [apply orel_refl|].
  destruct (is_quote c) eqn:QC.
  { pose proof (is_quote_cases c QC) as Hq.
    assert (A : (c =? 114) = false) by lia. assert (B : (c =? 98) = false) by lia. rewrite A, B.
    apply (scan_string_agree ex [] false false c t P_none Hq).
    apply (okv_app ex [c]); [repeat constructor; lia|exact Hv]. }
  destruct (c =? 114) eqn:C114.
  { assert (c = 114) by lia. subst c. change ((114 =? 114) || (114 =? 98)) with true.
    destruct t as [|c1 t1]; [apply orel_refl|].
    assert (V1 : okv ex (c1 :: t1)) by (apply (okv_app ex [114]); [repeat constructor; lia|exact Hv]).
    destruct (is_quote c1) eqn:Q1.
    - pose proof (is_quote_cases c1 Q1) as Hq. cbn [andb].
      assert (B : (c1 =? 98) = false) by lia. rewrite B.
      apply (scan_string_agree ex [114] true false c1 t1 P_r Hq).
      apply (okv_app ex [c1]); [repeat constructor; lia|exact V1].
    - cbn [andb]. destruct t1 as [|c2 t2].
      + destruct (c1 =? 98); [apply orel_refl|]. rewrite s_delimited_nonquote by exact Q1. apply orel_refl.
      + change (114 =? 114) with true. cbn [andb].
        destruct (c1 =? 98) eqn:C98.
        * assert (c1 = 98) by lia. subst c1. cbn [andb].
          destruct (is_quote c2) eqn:Q2.
          -- pose proof (is_quote_cases c2 Q2) as Hq.
             apply (scan_string_agree ex [114; 98] true true c2 t2 P_rb Hq).
             apply (okv_app ex [98; c2]); [repeat constructor; lia|exact V1].
          -- rewrite s_delimited_nonquote by exact Q2. apply orel_refl.
        * cbn [andb]. rewrite s_delimited_nonquote by exact Q1. apply orel_refl. }
  destruct (c =? 98) eqn:C98.
  { assert (c = 98) by lia. subst c. change ((98 =? 114) || (98 =? 98)) with true.
    destruct t as [|c1 t1]; [apply orel_refl|].
    assert (V1 : okv ex (c1 :: t1)) by (apply (okv_app ex [98]); [repeat constructor; lia|exact Hv]).
    destruct (is_quote c1) eqn:Q1.
    - pose proof (is_quote_cases c1 Q1) as Hq. cbn [andb].
      apply (scan_string_agree ex [98] false true c1 t1 P_b Hq).
      apply (okv_app ex [c1]); [repeat constructor; lia|exact V1].
    - cbn [andb]. rewrite s_delimited_nonquote by exact Q1.
      destruct t1 as [|c2 t2]; apply orel_refl. }
  cbn [orb]. rewrite s_delimited_nonquote by exact QC.
  destruct t as [|c1 t1]; [apply orel_refl|]. cbn [andb].
  destruct t1 as [|c2 t2]; apply orel_refl.
Qed.

(* THE THEOREM: on every well-formed source text the scanner + unquote and the
   specification's single-pass reader return the same observation. *)
Theorem scan_agrees_with_spec_lemma : forall src,
  valid_utf8 src = true -> model_scan src = spec_scan src.
Proof. intros src Hv. exact (scan_agrees_rel true src Hv). Qed.

(* ... and on EVERY byte string (ill-formed UTF-8 included) they accept or reject
   together, with the same string / bytes kind and the same remaining input. *)
Theorem scan_extent_agrees_lemma : forall src,
  extent (model_scan src) = extent (spec_scan src).
Proof. intros src. exact (scan_agrees_rel false src I). Qed.

(* the same, spelled out without auxiliary definitions *)
Theorem scan_accepts_same_extent_lemma : forall src,
  match model_scan src, spec_scan src with
  | SErr, SErr => True
  | SOk b1 _ rest1, SOk b2 _ rest2 => b1 = b2 /\ rest1 = rest2
  | _, _ => False
  end.
Proof.
  intros src. pose proof (scan_extent_agrees_lemma src) as H.
  destruct (model_scan src), (spec_scan src); cbn in H; try discriminate; [exact I|].
  inversion H. split; reflexivity.
Qed.
