(* Unbounded agreement of scanner+unquote with the specification reader, part 2:
   equations of unquote's loop (unq_loop) and of the specification's reader
   (s_items) at every escape form, stated for an ARBITRARY continuation, with the
   hexadecimal escapes expressed through one digit reader (take_hex). *)
From Coq Require Import NArith List Bool Lia ZifyBool ZifyNat ZifyN Arith.
From SV Require Import C15.Utf8 C15.Quote C15.Spec C15.ProofsQuote.
Import ListNotations.
Open Scope N_scope.

(* read exactly k hexadecimal digits *)
Fixpoint take_hex (k : nat) (acc : N) (l : list N) : option (N * list N) :=
  match k with
  | O => Some (acc, l)
  | S k' =>
    match l with
    | [] => None
    | h :: t => match hexval h with Some v => take_hex k' (acc * 16 + v) t | None => None end
    end
  end.

Lemma s_hex_hexval c : s_hex c = hexval c.
Proof.
  unfold s_hex, hexval.
  destruct ((48 <=? c) && (c <=? 57)) eqn:A; [reflexivity|].
  destruct ((65 <=? c) && (c <=? 70)) eqn:B; destruct ((97 <=? c) && (c <=? 102)) eqn:C; try reflexivity; lia.
Qed.

Lemma s_hexes_hexnum l : forall acc, s_hexes l acc = hexnum acc l.
Proof.
  induction l as [|c l IH]; intros acc; [reflexivity|].
  cbn [s_hexes hexnum]. rewrite s_hex_hexval. destruct (hexval c); [|reflexivity].
  rewrite IH. f_equal. lia.
Qed.

Lemma hexval_ascii h v : hexval h = Some v -> 48 <= h <= 102.
Proof.
  unfold hexval. intros H.
  destruct ((48 <=? h) && (h <=? 57)) eqn:A; [lia|].
  destruct ((97 <=? h) && (h <=? 102)) eqn:B; [lia|].
  destruct ((65 <=? h) && (h <=? 70)) eqn:C; [lia|discriminate].
Qed.

Lemma s_simple_unesc e : s_simple e = unesc e.
Proof. reflexivity. Qed.

Lemma s_octal_is_oct e : s_octal e = is_oct e.
Proof. reflexivity. Qed.

Ltac hexcases :=
  repeat (match goal with |- context [hexval ?h] => destruct (hexval h) end; cbv iota beta);
  reflexivity.

(* ---- unq_loop ---------------------------------------------------------------- *)
Definition nonoct (l : list N) : Prop := match l with [] => True | x :: _ => is_oct x = false end.

Section Unq.
Variable ib : bool.

Lemma U_copy raw c l : c <> 13 -> (c <> 92 \/ raw = true) ->
  unq_loop ib raw (c :: l) = rmap (cons c) (unq_loop ib raw l).
Proof.
  intros H1 H2. cbn [unq_loop]. cst.
  assert (A : (c =? 13) = false) by lia. rewrite A.
  assert (B : ((c =? 92) && negb raw) = false) by (destruct raw; cbn; lia). rewrite B. reflexivity.
Qed.

Lemma U_copy_app raw out l : Forall (fun c => c <> 13 /\ (c <> 92 \/ raw = true)) out ->
  unq_loop ib raw (out ++ l) = rmap (app out) (unq_loop ib raw l).
Proof.
  induction 1 as [|c o [H1 H2] Ho IH].
  - cbn. destruct (unq_loop ib raw l); reflexivity.
  - cbn [app]. rewrite U_copy by assumption. rewrite IH. destruct (unq_loop ib raw l); reflexivity.
Qed.

Lemma U_bs_nil : unq_loop ib false [92] = Err.
Proof. reflexivity. Qed.

Lemma U_bs_nl l : unq_loop ib false (92 :: 10 :: l) = unq_loop ib false l.
Proof. reflexivity. Qed.

Lemma U_simple e v l : unesc e = Some v -> e <> 10 ->
  unq_loop ib false (92 :: e :: l) = rmap (cons v) (unq_loop ib false l).
Proof.
  intros H Hne. cbn -[unesc]. assert (A : (e =? c_nl) = false) by (cst; lia). rewrite A, H. reflexivity.
Qed.

Lemma U_bad e l : e <> 10 -> unesc e = None -> is_oct e = false -> e <> 120 -> e <> 117 -> e <> 85 ->
  unq_loop ib false (92 :: e :: l) = Err.
Proof.
  intros H1 H2 H3 H4 H5 H6. cbn -[unesc is_oct]. cst.
  assert (A : (e =? 10) = false) by lia. rewrite A, H2, H3.
  assert (B : (e =? 120) = false) by lia. assert (C : (e =? 117) = false) by lia.
  assert (D : (e =? 85) = false) by lia. rewrite B, C, D. reflexivity.
Qed.

(* a backslash followed by a byte >= 0x80 (or by nothing) *)
Lemma U_bs_high l : match l with [] => True | x :: _ => 0x80 <= x end ->
  unq_loop ib false (92 :: l) = Err.
Proof.
  destruct l as [|x l]; intros H; [reflexivity|].
  apply U_bad; try lia.
  - unfold unesc.
    repeat match goal with |- context [if ?c then _ else _] => let E := fresh in destruct c eqn:E; [lia|] end.
    reflexivity.
  - unfold is_oct. lia.
Qed.

Lemma oct_facts e : is_oct e = true -> (e =? c_nl) = false /\ unesc e = None.
Proof.
  unfold is_oct. intros H. split; [cst; lia|]. unfold unesc.
  repeat match goal with |- context [if ?c then _ else _] => let E := fresh in destruct c eqn:E; [lia|] end.
  reflexivity.
Qed.

Lemma U_oct1 e l : is_oct e = true -> nonoct l ->
  unq_loop ib false (92 :: e :: l) = oct_finish ib (e - 48) (unq_loop ib false l).
Proof.
  intros He Hl. destruct (oct_facts e He) as [A B].
  cbn -[unesc is_oct oct_finish]. rewrite A, B, He.
  destruct l as [|d1 t2]; [reflexivity|]. cbn in Hl. rewrite Hl. reflexivity.
Qed.

Lemma U_oct2 e d1 l : is_oct e = true -> is_oct d1 = true -> nonoct l ->
  unq_loop ib false (92 :: e :: d1 :: l) = oct_finish ib ((e - 48) * 8 + (d1 - 48)) (unq_loop ib false l).
Proof.
  intros He Hd Hl. destruct (oct_facts e He) as [A B].
  cbn -[unesc is_oct oct_finish]. rewrite A, B, He, Hd.
  destruct l as [|d2 t3]; [reflexivity|]. cbn in Hl. rewrite Hl. reflexivity.
Qed.

Lemma U_oct3 e d1 d2 l : is_oct e = true -> is_oct d1 = true -> is_oct d2 = true ->
  unq_loop ib false (92 :: e :: d1 :: d2 :: l)
  = oct_finish ib (((e - 48) * 8 + (d1 - 48)) * 8 + (d2 - 48)) (unq_loop ib false l).
Proof.
  intros He Hd1 Hd2. destruct (oct_facts e He) as [A B].
  cbn -[unesc is_oct oct_finish]. rewrite A, B, He, Hd1, Hd2. reflexivity.
Qed.

Lemma U_x l :
  unq_loop ib false (92 :: 120 :: l) =
  match take_hex 2 0 l with
  | Some (n, l') => if negb ib && (127 <? n) then Err else rmap (cons n) (unq_loop ib false l')
  | None => Err
  end.
Proof.
  destruct l as [|h1 [|h2 l]]; cbn -[hexval]; hexcases.
Qed.

Lemma U_u l :
  unq_loop ib false (92 :: 117 :: l) =
  match take_hex 4 0 l with
  | Some (n, l') => code_point n (unq_loop ib false l')
  | None => Err
  end.
Proof.
  destruct l as [|h1 [|h2 [|h3 [|h4 l]]]]; cbn -[hexval code_point]; hexcases.
Qed.

Lemma U_U l :
  unq_loop ib false (92 :: 85 :: l) =
  match take_hex 8 0 l with
  | Some (n, l') => code_point n (unq_loop ib false l')
  | None => Err
  end.
Proof.
  destruct l as [|h1 [|h2 [|h3 [|h4 [|h5 [|h6 [|h7 [|h8 l]]]]]]]]; cbn -[hexval code_point]; hexcases.
Qed.
End Unq.

(* ---- s_items ------------------------------------------------------------------ *)
Lemma s_emit_nil k : s_emit [] k = k.
Proof. destruct k as [[v r]|]; reflexivity. Qed.

Lemma s_emit_emit a b k : s_emit a (s_emit b k) = s_emit (a ++ b) k.
Proof. destruct k as [[v r]|]; cbn; [now rewrite app_assoc|reflexivity]. Qed.

Section Items.
Variable raw ib tr : bool.
Variable q : N.
Hypothesis Hq : q = 34 \/ q = 39.
Notation items := (s_items raw ib tr q).

Lemma S_plain c t : c <> q -> c <> 10 -> c <> 13 -> c <> 92 ->
  items (c :: t) = s_emit [c] (items t).
Proof using Hq.
  intros H1 H2 H3 H4. cbn [s_items].
  assert (A : (c =? q) = false) by lia. assert (B : (c =? 10) = false) by lia.
  assert (C : (c =? 13) = false) by lia. assert (D : (c =? 92) = false) by lia.
  rewrite A, B, C, D. reflexivity.
Qed.

Lemma S_plain_app l t : Forall (fun c => c <> q /\ c <> 10 /\ c <> 13 /\ c <> 92) l ->
  items (l ++ t) = s_emit l (items t).
Proof using Hq.
  induction 1 as [|c l (H1 & H2 & H3 & H4) Hl IH].
  - cbn [app]. now rewrite s_emit_nil.
  - cbn [app]. rewrite S_plain by assumption. rewrite IH, s_emit_emit. reflexivity.
Qed.

Lemma S_nl t : items (10 :: t) = if tr then s_emit [10] (items t) else None.
Proof using Hq.
  cbn [s_items]. assert (A : (10 =? q) = false) by lia. rewrite A. reflexivity.
Qed.

Lemma S_bs_nil : items [92] = None.
Proof using Hq. cbn [s_items]. assert (A : (92 =? q) = false) by lia. rewrite A. reflexivity. Qed.

Lemma S_bs_nl t : items (92 :: 10 :: t) = if raw then s_emit [92; 10] (items t) else items t.
Proof using Hq. cbn [s_items]. assert (A : (92 =? q) = false) by lia. rewrite A. reflexivity. Qed.

Lemma S_bs_cr_lf t : items (92 :: 13 :: 10 :: t) = if raw then s_emit [92; 10] (items t) else items t.
Proof using Hq. cbn [s_items]. assert (A : (92 =? q) = false) by lia. rewrite A. reflexivity. Qed.

Lemma S_bs_cr_nil : items [92; 13] = None.
Proof using Hq. cbn [s_items]. assert (A : (92 =? q) = false) by lia. rewrite A. reflexivity. Qed.

Lemma S_bs_cr n t : n <> 10 ->
  items (92 :: 13 :: n :: t) = if raw then s_emit [92; 10] (items (n :: t)) else items (n :: t).
Proof using Hq.
  intros H. cbn [s_items]. assert (A : (92 =? q) = false) by lia. rewrite A.
  change (92 =? 10) with false. change (92 =? 13) with false. change (92 =? 92) with true.
  change (13 =? 10) with false. change (13 =? 13) with true. cbv iota.
  assert (B : (n =? 10) = false) by lia. rewrite B. reflexivity.
Qed.
End Items.

Section ItemsRaw.
Variable ib tr : bool.
Variable q : N.
Hypothesis Hq : q = 34 \/ q = 39.

Lemma S_bs_raw e t : e <> 10 -> e <> 13 ->
  s_items true ib tr q (92 :: e :: t) = s_emit [92; e] (s_items true ib tr q t).
Proof using Hq.
  intros H1 H2. cbn [s_items]. assert (A : (92 =? q) = false) by lia. rewrite A.
  assert (B : (e =? 10) = false) by lia. assert (C : (e =? 13) = false) by lia.
  rewrite B, C. reflexivity.
Qed.

Notation items := (s_items false ib tr q).

Lemma S_bs_simple e v t : e <> 10 -> e <> 13 -> s_simple e = Some v ->
  items (92 :: e :: t) = s_emit [v] (items t).
Proof using Hq.
  intros H1 H2 H3. cbn [s_items]. assert (A : (92 =? q) = false) by lia. rewrite A.
  assert (B : (e =? 10) = false) by lia. assert (C : (e =? 13) = false) by lia.
  rewrite B, C, H3. reflexivity.
Qed.

Lemma S_bs_bad e t : e <> 10 -> e <> 13 -> s_simple e = None -> s_octal e = false ->
  e <> 120 -> e <> 117 -> e <> 85 -> items (92 :: e :: t) = None.
Proof using Hq.
  intros H1 H2 H3 H4 H5 H6 H7. cbn [s_items]. assert (A : (92 =? q) = false) by lia. rewrite A.
  assert (B : (e =? 10) = false) by lia. assert (C : (e =? 13) = false) by lia.
  rewrite B, C, H3, H4.
  assert (D : (e =? 120) = false) by lia. assert (E : (e =? 117) = false) by lia.
  assert (F : (e =? 85) = false) by lia. rewrite D, E, F. reflexivity.
Qed.

Lemma S_oct e t : s_octal e = true ->
  items (92 :: e :: t) =
  match t with
  | d1 :: t2 =>
    if s_octal d1 then
      match t2 with
      | d2 :: t3 =>
        if s_octal d2
        then s_byte_escape ib (64 * (e - 48) + 8 * (d1 - 48) + (d2 - 48)) (items t3)
        else s_byte_escape ib (8 * (e - 48) + (d1 - 48)) (items t2)
      | [] => None
      end
    else s_byte_escape ib (e - 48) (items t)
  | [] => None
  end.
Proof using Hq.
  intros He. destruct (oct_facts e He) as [A0 B0]. unfold c_nl in A0.
  assert (A1 : (e =? 13) = false) by (unfold s_octal in He; lia).
  cbn [s_items]. assert (A : (92 =? q) = false) by lia. rewrite A.
  rewrite A0, A1, s_simple_unesc, B0, He. reflexivity.
Qed.

Lemma S_bs_num e t : e <> 10 -> e <> 13 -> s_simple e = None -> s_octal e = false ->
  items (92 :: e :: t) =
  if e =? 120 then
    match t with
    | h1 :: h2 :: t2 =>
      match s_hexes [h1; h2] 0 with
      | Some n => s_byte_escape ib n (items t2)
      | None => None
      end
    | _ => None
    end
  else if e =? 117 then
    match t with
    | h1 :: h2 :: h3 :: h4 :: t2 =>
      match s_hexes [h1; h2; h3; h4] 0 with
      | Some n => s_unicode_escape n (items t2)
      | None => None
      end
    | _ => None
    end
  else if e =? 85 then
    match t with
    | h1 :: h2 :: h3 :: h4 :: h5 :: h6 :: h7 :: h8 :: t2 =>
      match s_hexes [h1; h2; h3; h4; h5; h6; h7; h8] 0 with
      | Some n => s_unicode_escape n (items t2)
      | None => None
      end
    | _ => None
    end
  else None.
Proof using Hq.
  intros H1 H2 H3 H4. cbn [s_items]. assert (A : (92 =? q) = false) by lia. rewrite A.
  assert (B : (e =? 10) = false) by lia. assert (C : (e =? 13) = false) by lia.
  rewrite B, C, H3, H4. reflexivity.
Qed.

Lemma S_x t :
  items (92 :: 120 :: t) =
  match take_hex 2 0 t with
  | Some (n, t') => s_byte_escape ib n (items t')
  | None => None
  end.
Proof using Hq.
  rewrite S_bs_num by (try lia; reflexivity). change (120 =? 120) with true. cbv iota.
  destruct t as [|h1 [|h2 t]]; try rewrite s_hexes_hexnum; cbn [hexnum take_hex]; hexcases.
Qed.

Lemma S_u t :
  items (92 :: 117 :: t) =
  match take_hex 4 0 t with
  | Some (n, t') => s_unicode_escape n (items t')
  | None => None
  end.
Proof using Hq.
  rewrite S_bs_num by (try lia; reflexivity).
  change (117 =? 120) with false. change (117 =? 117) with true. cbv iota.
  destruct t as [|h1 [|h2 [|h3 [|h4 t]]]]; try rewrite s_hexes_hexnum; cbn [hexnum take_hex]; hexcases.
Qed.

Lemma S_U t :
  items (92 :: 85 :: t) =
  match take_hex 8 0 t with
  | Some (n, t') => s_unicode_escape n (items t')
  | None => None
  end.
Proof using Hq.
  rewrite S_bs_num by (try lia; reflexivity).
  change (85 =? 120) with false. change (85 =? 117) with false. change (85 =? 85) with true. cbv iota.
  destruct t as [|h1 [|h2 [|h3 [|h4 [|h5 [|h6 [|h7 [|h8 t]]]]]]]]; try rewrite s_hexes_hexnum;
    cbn [hexnum take_hex]; hexcases.
Qed.
End ItemsRaw.

(* delimiters and line endings *)
Section ItemsDelim.
Variable raw ib : bool.
Variable q : N.
Hypothesis Hq : q = 34 \/ q = 39.

Lemma S_close1 t : s_items raw ib false q (q :: t) = Some ([], t).
Proof using Hq. cbn [s_items]. rewrite N.eqb_refl. reflexivity. Qed.

Lemma S_close3 t : s_items raw ib true q (q :: q :: q :: t) = Some ([], t).
Proof using Hq. cbn [s_items]. rewrite N.eqb_refl. cbn [andb]. reflexivity. Qed.

Lemma S_open3 t : (forall t', t <> q :: q :: t') ->
  s_items raw ib true q (q :: t) = s_emit [q] (s_items raw ib true q t).
Proof using Hq.
  intros H. cbn [s_items]. rewrite N.eqb_refl.
  destruct t as [|c2 [|c3 t3]]; try reflexivity.
  destruct ((c2 =? q) && (c3 =? q)) eqn:E; [|reflexivity].
  exfalso. apply (H t3). assert (c2 = q) by lia. assert (c3 = q) by lia. now subst.
Qed.

Lemma S_cr1 t : s_items raw ib false q (13 :: t) = None.
Proof using Hq. cbn [s_items]. assert (A : (13 =? q) = false) by lia. rewrite A. reflexivity. Qed.

Lemma S_cr_nil3 : s_items raw ib true q [13] = None.
Proof using Hq. cbn [s_items]. assert (A : (13 =? q) = false) by lia. rewrite A. reflexivity. Qed.

Lemma S_cr_lf3 t : s_items raw ib true q (13 :: 10 :: t) = s_emit [10] (s_items raw ib true q t).
Proof using Hq. cbn [s_items]. assert (A : (13 =? q) = false) by lia. rewrite A. reflexivity. Qed.

Lemma S_cr3 n t : n <> 10 ->
  s_items raw ib true q (13 :: n :: t) = s_emit [10] (s_items raw ib true q (n :: t)).
Proof using Hq.
  intros H. cbn [s_items]. assert (A : (13 =? q) = false) by lia. rewrite A.
  change (13 =? 10) with false. change (13 =? 13) with true. cbv iota.
  assert (B : (n =? 10) = false) by lia. rewrite B. reflexivity.
Qed.
End ItemsDelim.
