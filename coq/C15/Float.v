(* binary64 text <-> bits, as far as the printing/reading code depends on it.

   * dec_to_b64 neg m e : the IEEE-754 binary64 bit pattern (an N < 2^64) of the
     correctly rounded (nearest, ties to even) value of (+/-) m * 10^e, None when
     the rounded value overflows the finite range.  This is the *definition* of
     what strconv.ParseFloat returns on a well-formed decimal (ParseFloat is
     documented to round correctly and to return ErrRange on overflow; underflow
     gives a zero of the right sign).  Exact integer arithmetic only.
   * fmt_g neg digits dp : the bytes of starlark's Float.String() for a finite
     float whose shortest decimal representation is 0.d1d2...dn * 10^dp
     (strconv.FormatFloat(f,'g',-1,64): %e form when the decimal exponent
     dp-1 is < -4 or >= 6 (strconv's threshold under the "shortest" flag), else
     %f form; then starlark appends ".0" when neither '.' nor 'e' occurs).
   The shortest-digit generation itself (Ryu/Grisu in strconv) is NOT defined
   here: it is a named oracle wherever a theorem needs it. *)
From Coq Require Import NArith ZArith List Bool Lia.
Import ListNotations.
Open Scope Z_scope.

Definition two52 : Z := 4503599627370496.
Definition two53 : Z := 9007199254740992.
Definition two63 : N := 9223372036854775808%N.

(* floor(num/den) rounded to nearest even, num >= 0, den > 0 *)
Definition div_rne (num den : Z) : Z :=
  let q := num / den in
  let r := num mod den in
  if (2 * r >? den) || ((2 * r =? den) && Z.odd q) then q + 1 else q.

(* mantissa of p/q at binary exponent k (truncated): floor(p / (q * 2^k)) *)
Definition scale_num (p : Z) (k : Z) : Z := if k <? 0 then p * 2 ^ (- k) else p.
Definition scale_den (q : Z) (k : Z) : Z := if k <? 0 then q else q * 2 ^ k.

Definition dec_to_b64 (neg : bool) (m : N) (e : Z) : option N :=
  let sign := if neg then two63 else 0%N in
  if (m =? 0)%N then Some sign
  else
    let mz := Z.of_N m in
    let lg := Z.log2 mz in
    if e >? 310 then None
    else if e + lg + 1 <? -330 then Some sign
    else
      let p := if e >=? 0 then mz * 10 ^ e else mz in
      let q := if e >=? 0 then 1 else 10 ^ (- e) in
      let est := Z.log2 p - Z.log2 q in
      let k1 := Z.max (est - 52) (-1074) in
      let m1 := scale_num p k1 / scale_den q k1 in
      let k := if m1 >=? two53 then k1 + 1
               else if (m1 <? two52) && (k1 >? -1074) then k1 - 1 else k1 in
      let mr := div_rne (scale_num p k) (scale_den q k) in
      let '(mf, kf) := if mr =? two53 then (two52, k + 1) else (mr, k) in
      if mf <? two52 then Some (sign + Z.to_N mf)%N
      else if kf + 1075 >=? 2047 then None
      else Some (sign + Z.to_N ((kf + 1075) * two52 + (mf - two52)))%N.

(* ---- formatting ---------------------------------------------------------- *)
Definition ch0 : N := 48%N.
Definition digit_at (digits : list N) (i : Z) : N :=
  if i <? 0 then ch0 else (ch0 + nth (Z.to_nat i) digits 0)%N.

(* decimal digits of a small non-negative exponent, at least two *)
Definition exp_digits (x : Z) : list N :=
  let n := Z.to_N x in
  if (n <? 10)%N then [ch0; (ch0 + n)%N]
  else if (n <? 100)%N then [(ch0 + n / 10)%N; (ch0 + n mod 10)%N]
  else [(ch0 + n / 100)%N; (ch0 + (n / 10) mod 10)%N; (ch0 + n mod 10)%N].

Fixpoint zrange (from : Z) (n : nat) : list Z :=
  match n with O => [] | S k => from :: zrange (from + 1) k end.

(* strconv %e with precision nd-1 *)
Definition fmt_e (digits : list N) (dp : Z) : list N :=
  let nd := Z.of_nat (length digits) in
  let first := match digits with [] => ch0 | d :: _ => (ch0 + d)%N end in
  let frac := match digits with [] => [] | _ :: [] => [] | _ :: t => 46%N :: map (fun d => (ch0 + d)%N) t end in
  let ex := if nd =? 0 then 0 else dp - 1 in
  first :: frac ++ [101%N] ++ (if ex <? 0 then [45%N] else [43%N]) ++ exp_digits (Z.abs ex).

(* strconv %f with precision max(nd-dp,0) *)
Definition digit_at_pad (digits : list N) (nd : Z) (i : Z) : N :=
  if (0 <=? i) && (i <? nd) then digit_at digits i else ch0.

Definition fmt_f (digits : list N) (dp : Z) : list N :=
  let nd := Z.of_nat (length digits) in
  let ip := if dp >? 0 then map (digit_at_pad digits nd) (zrange 0 (Z.to_nat dp)) else [ch0] in
  let prec := Z.max (nd - dp) 0 in
  let fp := if prec >? 0
            then 46%N :: map (fun i => digit_at_pad digits nd (dp + i)) (zrange 0 (Z.to_nat prec))
            else [] in
  ip ++ fp.

(* strconv.FormatFloat(f, 'g', -1, 64) given the shortest digits *)
Definition fmt_g_strconv (neg : bool) (digits : list N) (dp : Z) : list N :=
  let ex := dp - 1 in
  (if neg then [45%N] else []) ++
  (if (ex <? -4) || (ex >=? 6) then fmt_e digits dp else fmt_f digits dp).

Definition has_byte (b : N) (s : list N) : bool := existsb (N.eqb b) s.

(* Float.format(buf, 'g'): force ".0" when there is neither '.' nor 'e' *)
Definition fmt_g (neg : bool) (digits : list N) (dp : Z) : list N :=
  let s := fmt_g_strconv neg digits dp in
  if negb (has_byte 101%N s) && negb (has_byte 46%N s) then s ++ [46%N; 48%N] else s.

(* bit-level classification *)
Definition b64_is_finite (bits : N) : bool := negb (((bits / 4503599627370496) mod 2048 =? 2047)%N).
Definition b64_neg (bits : N) : bool := (two63 <=? bits)%N.
