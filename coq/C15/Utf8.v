(* UTF-8 as Go's unicode/utf8 implements it (DecodeRune / AppendRune / ValidString),
   defined over N (a byte is an N < 256; a rune is an N) and proved to round-trip.

   utf8_decode follows utf8.DecodeRune: (RuneError, 0) on empty input,
   (RuneError, 1) on any ill-formed prefix (stray continuation byte, 0xC0/0xC1,
   0xF5..0xFF, truncated sequence, overlong form, surrogate, > U+10FFFF),
   otherwise (code point, width).  utf8_encode follows utf8.AppendRune
   (surrogates and values above U+10FFFF are written as U+FFFD). *)
From Coq Require Import NArith List Bool Lia ZifyBool ZifyNat ZifyN.
Import ListNotations.
Open Scope N_scope.

Definition rune_error : N := 0xFFFD.
Definition max_rune : N := 0x10FFFF.

Definition is_surrogate (r : N) : bool := (0xD800 <=? r) && (r <? 0xE000).
Definition is_scalar (r : N) : bool := negb (is_surrogate r) && (r <=? max_rune).

Definition utf8_encode (r : N) : list N :=
  if r <? 0x80 then [r]
  else if r <? 0x800 then [0xC0 + r / 64; 0x80 + r mod 64]
  else if is_surrogate r || (max_rune <? r) then [0xEF; 0xBF; 0xBD]
  else if r <? 0x10000 then [0xE0 + r / 4096; 0x80 + (r / 64) mod 64; 0x80 + r mod 64]
  else [0xF0 + r / 262144; 0x80 + (r / 4096) mod 64; 0x80 + (r / 64) mod 64; 0x80 + r mod 64].

Definition is_cont (b : N) : bool := (0x80 <=? b) && (b <=? 0xBF).

Definition utf8_decode (s : list N) : N * nat :=
  match s with
  | [] => (rune_error, 0%nat)
  | p0 :: t =>
    if p0 <? 0x80 then (p0, 1%nat)
    else if p0 <? 0xC2 then (rune_error, 1%nat)
    else if p0 <? 0xE0 then
      match t with
      | b1 :: _ => if is_cont b1 then ((p0 - 0xC0) * 64 + (b1 - 0x80), 2%nat) else (rune_error, 1%nat)
      | _ => (rune_error, 1%nat)
      end
    else if p0 <? 0xF0 then
      let lo := if p0 =? 0xE0 then 0xA0 else 0x80 in
      let hi := if p0 =? 0xED then 0x9F else 0xBF in
      match t with
      | b1 :: b2 :: _ =>
        if (lo <=? b1) && (b1 <=? hi) && is_cont b2
        then ((p0 - 0xE0) * 4096 + (b1 - 0x80) * 64 + (b2 - 0x80), 3%nat)
        else (rune_error, 1%nat)
      | _ => (rune_error, 1%nat)
      end
    else if p0 <? 0xF5 then
      let lo := if p0 =? 0xF0 then 0x90 else 0x80 in
      let hi := if p0 =? 0xF4 then 0x8F else 0xBF in
      match t with
      | b1 :: b2 :: b3 :: _ =>
        if (lo <=? b1) && (b1 <=? hi) && is_cont b2 && is_cont b3
        then ((p0 - 0xF0) * 262144 + (b1 - 0x80) * 4096 + (b2 - 0x80) * 64 + (b3 - 0x80), 4%nat)
        else (rune_error, 1%nat)
      | _ => (rune_error, 1%nat)
      end
    else (rune_error, 1%nat)
  end.

(* the decoder reported an encoding error (as opposed to a well-formed U+FFFD) *)
Definition decode_invalid (rw : N * nat) : bool :=
  (fst rw =? rune_error) && (Nat.eqb (snd rw) 1).

(* utf8.ValidString: every decoding step is well-formed.  `skip` is the number
   of bytes still belonging to the rune decoded last (structural recursion). *)
Fixpoint valid_utf8_from (skip : nat) (s : list N) : bool :=
  match s with
  | [] => Nat.eqb skip 0
  | _ :: t =>
    match skip with
    | S k => valid_utf8_from k t
    | O => let rw := utf8_decode s in
           if decode_invalid rw then false else valid_utf8_from (snd rw - 1) t
    end
  end.
Definition valid_utf8 (s : list N) : bool := valid_utf8_from 0 s.

Definition bytes_ok (s : list N) : Prop := Forall (fun b => b < 256) s.

(* ------------------------------------------------------------------ proofs *)

Ltac nsolve := unfold is_scalar in *; unfold is_cont, is_surrogate, max_rune, rune_error in *; lia.

Lemma utf8_encode_length r :
  (1 <= length (utf8_encode r) <= 4)%nat.
Proof.
  unfold utf8_encode.
  destruct (r <? 0x80); [simpl; lia|].
  destruct (r <? 0x800); [simpl; lia|].
  destruct (is_surrogate r || (max_rune <? r)); [simpl; lia|].
  destruct (r <? 0x10000); simpl; lia.
Qed.

(* Round trip: for every Unicode scalar value r and every continuation s. *)
Theorem utf8_decode_encode : forall r s,
  is_scalar r = true ->
  utf8_decode (utf8_encode r ++ s) = (r, length (utf8_encode r)).
Proof.
  intros r s Hs. unfold utf8_encode.
  destruct (r <? 0x80) eqn:E1.
  { simpl. rewrite E1. reflexivity. }
  destruct (r <? 0x800) eqn:E2.
  { cbn [app utf8_decode length].
    assert (H0 : (0xC0 + r / 64 <? 0x80) = false) by nsolve. rewrite H0.
    assert (H1 : (0xC0 + r / 64 <? 0xC2) = false) by nsolve. rewrite H1.
    assert (H2 : (0xC0 + r / 64 <? 0xE0) = true) by nsolve. rewrite H2.
    assert (H3 : is_cont (0x80 + r mod 64) = true) by nsolve. rewrite H3.
    f_equal. nsolve. }
  assert (E3 : (is_surrogate r || (max_rune <? r)) = false) by nsolve. rewrite E3.
  destruct (r <? 0x10000) eqn:E4.
  { cbn [app utf8_decode length].
    assert (H0 : (0xE0 + r / 4096 <? 0x80) = false) by nsolve. rewrite H0.
    assert (H1 : (0xE0 + r / 4096 <? 0xC2) = false) by nsolve. rewrite H1.
    assert (H2 : (0xE0 + r / 4096 <? 0xE0) = false) by nsolve. rewrite H2.
    assert (H3 : (0xE0 + r / 4096 <? 0xF0) = true) by nsolve. rewrite H3.
    assert (H4 : is_cont (0x80 + r mod 64) = true) by nsolve. rewrite H4.
    destruct (0xE0 + r / 4096 =? 0xE0) eqn:A; destruct (0xE0 + r / 4096 =? 0xED) eqn:B.
    all: match goal with |- (if ?c then _ else _) = _ => assert (Hc : c = true) by nsolve; rewrite Hc end.
    all: f_equal; nsolve. }
  { cbn [app utf8_decode length].
    assert (H0 : (0xF0 + r / 262144 <? 0x80) = false) by nsolve. rewrite H0.
    assert (H1 : (0xF0 + r / 262144 <? 0xC2) = false) by nsolve. rewrite H1.
    assert (H2 : (0xF0 + r / 262144 <? 0xE0) = false) by nsolve. rewrite H2.
    assert (H3 : (0xF0 + r / 262144 <? 0xF0) = false) by nsolve. rewrite H3.
    assert (H5 : (0xF0 + r / 262144 <? 0xF5) = true) by nsolve. rewrite H5.
    assert (H4 : is_cont (0x80 + r mod 64) = true) by nsolve. rewrite H4.
    assert (H6 : is_cont (0x80 + (r / 64) mod 64) = true) by nsolve. rewrite H6.
    destruct (0xF0 + r / 262144 =? 0xF0) eqn:A; destruct (0xF0 + r / 262144 =? 0xF4) eqn:B.
    all: match goal with |- (if ?c then _ else _) = _ => assert (Hc : c = true) by nsolve; rewrite Hc end.
    all: f_equal; nsolve. }
Qed.

(* Converse: a well-formed decoding step consumed exactly the encoding of the
   scalar value it returned. *)
Theorem utf8_decode_inv : forall s r w,
  utf8_decode s = (r, w) -> decode_invalid (r, w) = false -> s <> [] ->
  is_scalar r = true /\ s = utf8_encode r ++ skipn w s /\ w = length (utf8_encode r).
Proof.
  intros s r w H Hv Hne. unfold decode_invalid in Hv. cbn [fst snd] in Hv.
  destruct s as [|p0 t]; [congruence|]. clear Hne.
  unfold utf8_decode in H.
  destruct (p0 <? 0x80) eqn:E1.
  { inversion H; subst. unfold utf8_encode. rewrite E1. cbn. split; [nsolve|auto]. }
  destruct (p0 <? 0xC2) eqn:E2.
  { inversion H; subst. exfalso. cbn in Hv. nsolve. }
  destruct (p0 <? 0xE0) eqn:E3.
  { destruct t as [|b1 t]; [inversion H; subst; exfalso; cbn in Hv; nsolve|].
    destruct (is_cont b1) eqn:C1; [|inversion H; subst; exfalso; cbn in Hv; nsolve].
    inversion H; subst. clear H Hv.
    set (r := (p0 - 192) * 64 + (b1 - 128)).
    assert (Hr1 : (r <? 0x80) = false) by (subst r; nsolve).
    assert (Hr2 : (r <? 0x800) = true) by (subst r; nsolve).
    unfold utf8_encode. rewrite Hr1, Hr2. cbn [length skipn app].
    split; [subst r; nsolve|]. split; [|reflexivity].
    f_equal; [subst r; nsolve|]. f_equal. subst r; nsolve. }
  destruct (p0 <? 0xF0) eqn:E4.
  { destruct t as [|b1 [|b2 t]]; try (inversion H; subst; exfalso; cbn in Hv; nsolve).
    match type of H with (if ?c then _ else _) = _ => destruct c eqn:C end;
      [|inversion H; subst; exfalso; cbn in Hv; nsolve].
    inversion H; subst. clear H Hv.
    set (r := (p0 - 224) * 4096 + (b1 - 128) * 64 + (b2 - 128)).
    assert (Hb : 0x800 <= r < 0x10000 /\ is_surrogate r = false).
    { subst r. destruct (p0 =? 0xE0) eqn:A; destruct (p0 =? 0xED) eqn:B; nsolve. }
    assert (Hr1 : (r <? 0x80) = false) by nsolve.
    assert (Hr2 : (r <? 0x800) = false) by nsolve.
    assert (Hr3 : (is_surrogate r || (max_rune <? r)) = false) by nsolve.
    assert (Hr4 : (r <? 0x10000) = true) by nsolve.
    unfold utf8_encode. rewrite Hr1, Hr2, Hr3, Hr4. cbn [length skipn app].
    split; [nsolve|]. split; [|reflexivity].
    assert (p0 = 0xE0 + r / 4096 /\ b1 = 0x80 + (r / 64) mod 64 /\ b2 = 0x80 + r mod 64) as (Q0 & Q1 & Q2).
    { subst r. destruct (p0 =? 0xE0) eqn:A; destruct (p0 =? 0xED) eqn:B; nsolve. }
    rewrite <- Q0, <- Q1, <- Q2. reflexivity. }
  destruct (p0 <? 0xF5) eqn:E5.
  { destruct t as [|b1 [|b2 [|b3 t]]]; try (inversion H; subst; exfalso; cbn in Hv; nsolve).
    match type of H with (if ?c then _ else _) = _ => destruct c eqn:C end;
      [|inversion H; subst; exfalso; cbn in Hv; nsolve].
    inversion H; subst. clear H Hv.
    set (r := (p0 - 240) * 262144 + (b1 - 128) * 4096 + (b2 - 128) * 64 + (b3 - 128)).
    assert (Hb : 0x10000 <= r <= max_rune).
    { subst r. destruct (p0 =? 0xF0) eqn:A; destruct (p0 =? 0xF4) eqn:B; nsolve. }
    assert (Hr1 : (r <? 0x80) = false) by nsolve.
    assert (Hr2 : (r <? 0x800) = false) by nsolve.
    assert (Hr3 : (is_surrogate r || (max_rune <? r)) = false) by nsolve.
    assert (Hr4 : (r <? 0x10000) = false) by nsolve.
    unfold utf8_encode. rewrite Hr1, Hr2, Hr3, Hr4. cbn [length skipn app].
    split; [nsolve|]. split; [|reflexivity].
    assert (p0 = 0xF0 + r / 262144 /\ b1 = 0x80 + (r / 4096) mod 64 /\
            b2 = 0x80 + (r / 64) mod 64 /\ b3 = 0x80 + r mod 64) as (Q0 & Q1 & Q2 & Q3).
    { subst r. destruct (p0 =? 0xF0) eqn:A; destruct (p0 =? 0xF4) eqn:B; nsolve. }
    rewrite <- Q0, <- Q1, <- Q2, <- Q3. reflexivity. }
  inversion H; subst. exfalso. cbn in Hv. nsolve.
Qed.

(* Facts about encoded bytes used by the quoting proofs. *)
Lemma utf8_encode_bytes_ok r : bytes_ok (utf8_encode r).
Proof.
  unfold bytes_ok, utf8_encode.
  destruct (r <? 0x80) eqn:E1; [repeat constructor; nsolve|].
  destruct (r <? 0x800) eqn:E2; [repeat constructor; nsolve|].
  destruct (is_surrogate r || (max_rune <? r)) eqn:E3; [repeat constructor; nsolve|].
  destruct (r <? 0x10000) eqn:E4; repeat constructor; nsolve.
Qed.

Lemma utf8_encode_high r :
  0x80 <= r -> Forall (fun b => 0x80 <= b) (utf8_encode r).
Proof.
  intros H. unfold utf8_encode.
  destruct (r <? 0x80) eqn:E1; [nsolve|].
  destruct (r <? 0x800) eqn:E2; [repeat constructor; nsolve|].
  destruct (is_surrogate r || (max_rune <? r)) eqn:E3; [repeat constructor; nsolve|].
  destruct (r <? 0x10000) eqn:E4; repeat constructor; nsolve.
Qed.

Lemma utf8_encode_ascii r : r < 0x80 -> utf8_encode r = [r].
Proof. intros H. unfold utf8_encode. assert (E : (r <? 0x80) = true) by lia. now rewrite E. Qed.

Lemma utf8_decode_ascii b t : b < 0x80 -> utf8_decode (b :: t) = (b, 1%nat).
Proof. intros H. unfold utf8_decode. assert (E : (b <? 0x80) = true) by lia. now rewrite E. Qed.

Lemma utf8_decode_width s : (snd (utf8_decode s) <= length s)%nat.
Proof.
  destruct s as [|p0 t]; [simpl; lia|]. unfold utf8_decode.
  repeat match goal with
         | |- context [if ?c then _ else _] => destruct c
         | |- context [match ?l with [] => _ | _ :: _ => _ end] => destruct l
         end; simpl; lia.
Qed.

Lemma utf8_decode_width_pos p0 t : (1 <= snd (utf8_decode (p0 :: t)))%nat.
Proof.
  unfold utf8_decode.
  repeat match goal with
         | |- context [if ?c then _ else _] => destruct c
         | |- context [match ?l with [] => _ | _ :: _ => _ end] => destruct l
         end; simpl; lia.
Qed.
