(* Model of /repo/syntax/quote.go (Quote, unquote) and of the string-literal
   part of /repo/syntax/scan.go (scanString with readRune, and the r/b/rb
   prefix test of nextToken), branch by branch.  No proofs here.

   Strings are Go strings: lists of bytes (N < 256).  strconv.IsPrint is the
   parameter `is_print` (an oracle: the theorems constrain it by one hypothesis,
   the correspondence check instantiates it with the real function's verdicts). *)
From Coq Require Import NArith List Bool.
From SV Require Import C15.Utf8.
Import ListNotations.
Open Scope N_scope.

Inductive res (A : Type) := Ok (a : A) | Err.
Arguments Ok {A} a.
Arguments Err {A}.

Definition rmap {A B} (f : A -> B) (r : res A) : res B :=
  match r with Ok a => Ok (f a) | Err => Err end.

(* byte values of the characters the code mentions *)
Definition c_dq : N := 34.   (* double quote *)
Definition c_sq : N := 39.   (* single quote *)
Definition c_bs : N := 92.   (* backslash *)
Definition c_cr : N := 13.
Definition c_nl : N := 10.

(* const hex = 0123456789abcdef *)
Definition hexdig (d : N) : N := if d <? 10 then 48 + d else 87 + d.

(* one hexadecimal digit as strconv.ParseUint(_, 16, 0) reads it *)
Definition hexval (c : N) : option N :=
  if (48 <=? c) && (c <=? 57) then Some (c - 48)
  else if (97 <=? c) && (c <=? 102) then Some (c - 87)
  else if (65 <=? c) && (c <=? 70) then Some (c - 55)
  else None.

Fixpoint hexnum (acc : N) (ds : list N) : option N :=
  match ds with
  | [] => Some acc
  | c :: t => match hexval c with Some v => hexnum (acc * 16 + v) t | None => None end
  end.

Section WithIsPrint.
Variable is_print : N -> bool.

(* ---------------------------------------------------------------- Quote -- *)

(* the part of the loop body after the `width == 1 && r == RuneError` test *)
Definition quote_rune (r : N) : list N :=
  if (r =? c_dq) || (r =? c_bs) then [c_bs; r]
  else if is_print r then utf8_encode r
  else if r =? 7 then [c_bs; 97]        (* \a *)
  else if r =? 8 then [c_bs; 98]        (* \b *)
  else if r =? 12 then [c_bs; 102]      (* \f *)
  else if r =? 10 then [c_bs; 110]      (* \n *)
  else if r =? 13 then [c_bs; 114]      (* \r *)
  else if r =? 9 then [c_bs; 116]       (* \t *)
  else if r =? 11 then [c_bs; 118]      (* \v *)
  else if (r <? 32) || (r =? 127) then [c_bs; 120; hexdig (r / 16); hexdig (r mod 16)]
  else if (max_rune <? r) || (r <? 0x10000) then
    let r' := if max_rune <? r then 0xFFFD else r in
    [c_bs; 117; hexdig ((r' / 4096) mod 16); hexdig ((r' / 256) mod 16);
     hexdig ((r' / 16) mod 16); hexdig (r' mod 16)]
  else
    [c_bs; 85; hexdig ((r / 268435456) mod 16); hexdig ((r / 16777216) mod 16);
     hexdig ((r / 1048576) mod 16); hexdig ((r / 65536) mod 16);
     hexdig ((r / 4096) mod 16); hexdig ((r / 256) mod 16);
     hexdig ((r / 16) mod 16); hexdig (r mod 16)].

(* one iteration of `for width := 0; len(s) > 0; s = s[width:]` at s = b :: t *)
Definition quote_step (b : N) (t : list N) : list N * nat :=
  let '(r, w) := utf8_decode (b :: t) in
  if Nat.eqb w 1 && (r =? rune_error)
  then ([c_bs; 120; hexdig (b / 16); hexdig (b mod 16)], w)
  else (quote_rune r, w).

(* the loop; `skip` = bytes of the current rune still to be stepped over *)
Fixpoint quote_body (skip : nat) (s : list N) : list N :=
  match s with
  | [] => []
  | b :: t =>
    match skip with
    | S k => quote_body k t
    | O => let '(out, w) := quote_step b t in out ++ quote_body (w - 1) t
    end
  end.

Definition quote (s : list N) (b : bool) : list N :=
  (if b then [98] else []) ++ [c_dq] ++ quote_body 0 s ++ [c_dq].

(* -------------------------------------------------------------- unquote -- *)

Definition is_oct (c : N) : bool := (48 <=? c) && (c <=? 55).

(* unesc table restricted to the case labels a b f n r t v backslash quote double-quote *)
Definition unesc (c : N) : option N :=
  if c =? 97 then Some 7 else if c =? 98 then Some 8 else if c =? 102 then Some 12
  else if c =? 110 then Some 10 else if c =? 114 then Some 13 else if c =? 116 then Some 9
  else if c =? 118 then Some 11 else if c =? 92 then Some 92 else if c =? 39 then Some 39
  else if c =? 34 then Some 34 else None.

Definition oct_finish (is_byte : bool) (n : N) (k : res (list N)) : res (list N) :=
  if negb is_byte && (127 <? n) then Err
  else if 256 <=? n then Err
  else rmap (cons n) k.

Definition code_point (n : N) (k : res (list N)) : res (list N) :=
  if max_rune <? n then Err
  else if is_surrogate n then Err
  else rmap (app (utf8_encode n)) k.

(* the `for { ... }` loop of unquote on the text between the quotes.
   Copying the plain prefix up to the next special character is done one byte
   at a time. *)
Fixpoint unq_loop (is_byte raw : bool) (q : list N) : res (list N) :=
  match q with
  | [] => Ok []
  | c :: t =>
    if c =? c_cr then
      match t with
      | n :: t' => if n =? c_nl then rmap (cons c_nl) (unq_loop is_byte raw t')
                   else rmap (cons c_nl) (unq_loop is_byte raw t)
      | [] => rmap (cons c_nl) (unq_loop is_byte raw t)
      end
    else if (c =? c_bs) && negb raw then
      match t with
      | [] => Err                                     (* truncated escape sequence \ *)
      | e :: t1 =>
        if e =? c_nl then unq_loop is_byte raw t1     (* escaped line break *)
        else match unesc e with
        | Some v => rmap (cons v) (unq_loop is_byte raw t1)
        | None =>
          if is_oct e then
            let n0 := e - 48 in
            match t1 with
            | d1 :: t2 =>
              if is_oct d1 then
                let n1 := n0 * 8 + (d1 - 48) in
                match t2 with
                | d2 :: t3 =>
                  if is_oct d2 then oct_finish is_byte (n1 * 8 + (d2 - 48)) (unq_loop is_byte raw t3)
                  else oct_finish is_byte n1 (unq_loop is_byte raw t2)
                | [] => oct_finish is_byte n1 (unq_loop is_byte raw t2)
                end
              else oct_finish is_byte n0 (unq_loop is_byte raw t1)
            | [] => oct_finish is_byte n0 (unq_loop is_byte raw t1)
            end
          else if e =? 120 then                       (* \xHH *)
            match t1 with
            | h1 :: h2 :: t2 =>
              match hexnum 0 [h1; h2] with
              | Some n => if negb is_byte && (127 <? n) then Err
                          else rmap (cons n) (unq_loop is_byte raw t2)
              | None => Err
              end
            | _ => Err
            end
          else if e =? 117 then                       (* \uXXXX *)
            match t1 with
            | h1 :: h2 :: h3 :: h4 :: t2 =>
              match hexnum 0 [h1; h2; h3; h4] with
              | Some n => code_point n (unq_loop is_byte raw t2)
              | None => Err
              end
            | _ => Err
            end
          else if e =? 85 then                        (* \UXXXXXXXX *)
            match t1 with
            | h1 :: h2 :: h3 :: h4 :: h5 :: h6 :: h7 :: h8 :: t2 =>
              match hexnum 0 [h1; h2; h3; h4; h5; h6; h7; h8] with
              | Some n => code_point n (unq_loop is_byte raw t2)
              | None => Err
              end
            | _ => Err
            end
          else Err                                    (* invalid escape sequence *)
        end
      end
    else rmap (cons c) (unq_loop is_byte raw t)
  end.

Definition contains_any (s : list N) (chars : list N) : bool :=
  existsb (fun c => existsb (N.eqb c) chars) s.

Fixpoint bytes_eqb (a b : list N) : bool :=
  match a, b with
  | [], [] => true
  | x :: a', y :: b' => (x =? y) && bytes_eqb a' b'
  | _, _ => false
  end.

(* the part of unquote after the r / b prefixes have been removed *)
Definition unquote_core (raw is_byte : bool) (q2 : list N) : res (list N * bool * bool) :=
  let n := length q2 in
  if Nat.ltb n 2 then Err                               (* string literal too short *)
  else
    match q2 with
    | [] => Err
    | first :: _ =>
      let lastc := last q2 0 in
      if (negb (first =? c_dq) && negb (first =? c_sq)) || negb (first =? lastc) then Err
      else
        let triple := Nat.leb 6 n && (nth 1 q2 0 =? first) && (nth 2 q2 0 =? first)
                      && bytes_eqb (firstn 3 q2) (skipn (n - 3) q2) in
        let body := if triple then firstn (n - 6) (skipn 3 q2) else firstn (n - 2) (skipn 1 q2) in
        let chars := if raw then [c_cr] else [c_bs; c_cr] in
        if negb (contains_any body chars) then Ok (body, triple, is_byte)
        else match unq_loop is_byte raw body with
             | Ok s => Ok (s, triple, is_byte)
             | Err => Err
             end
    end.

(* unquote: (value, triple, isByte) or an error *)
Definition unquote (quoted : list N) : res (list N * bool * bool) :=
  let '(raw, q1) := match quoted with c :: t => if c =? 114 then (true, t) else (false, quoted) | [] => (false, quoted) end in
  let '(is_byte, q2) := match q1 with c :: t => if c =? 98 then (true, t) else (false, q1) | [] => (false, q1) end in
  unquote_core raw is_byte q2.

(* ----------------------------------------------------- scanner (strings) -- *)

(* sc.readRune() at a non-empty input b :: t: the rune returned and how many
   bytes were consumed (CR LF and CR are read as LF). *)
Definition read_rune (b : N) (t : list N) : N * nat :=
  if b <? 0x80 then
    if b =? c_cr then
      match t with
      | n :: _ => if n =? c_nl then (c_nl, 2%nat) else (c_nl, 1%nat)
      | [] => (c_nl, 1%nat)
      end
    else (b, 1%nat)
  else utf8_decode (b :: t).

Definition prepend (out : list N) (p : list N * list N) : list N * list N := (out ++ fst p, snd p).

(* the loop of the single-quoted branch of scanString, after the opening quote.
   Result: the bytes appended to `raw` (ending with the closing quote) and the
   remaining input.  esc = the previous rune was a backslash; skip = bytes of
   the rune read last that are still to be stepped over. *)
Fixpoint scan1 (quote : N) (skip : nat) (esc : bool) (s : list N) : res (list N * list N) :=
  match s with
  | [] => Err                                        (* unexpected EOF in string *)
  | b :: t =>
    match skip with
    | S k => scan1 quote k esc t
    | O =>
      let '(c, w) := read_rune b t in
      let out := utf8_encode c in                    (* raw.WriteRune(c) *)
      let k := rmap (prepend out) in
      if esc then k (scan1 quote (w - 1) false t)
      else if c =? quote then Ok (out, t)
      else if c =? c_nl then Err                     (* unexpected newline in string *)
      else if c =? c_bs then k (scan1 quote (w - 1) true t)
      else k (scan1 quote (w - 1) false t)
    end
  end.

(* the loop of the triple-quoted branch; count = quoteCount *)
Fixpoint scan3 (quote : N) (skip : nat) (esc : bool) (count : N) (s : list N) : res (list N * list N) :=
  match s with
  | [] => Err
  | b :: t =>
    match skip with
    | S k => scan3 quote k esc count t
    | O =>
      let '(c, w) := read_rune b t in
      let out := utf8_encode c in
      let k := rmap (prepend out) in
      if esc then k (scan3 quote (w - 1) false count t)
      else if c =? quote then
        if count =? 2 then Ok (out, t) else k (scan3 quote (w - 1) false (count + 1) t)
      else if c =? c_bs then k (scan3 quote (w - 1) true 0 t)
      else k (scan3 quote (w - 1) false 0 t)
    end
  end.

Inductive strtok := TString | TBytes.

(* scanString(val, quote) with sc.rest = rest (which starts with the quote
   character) and `prefix` the already consumed r / b / rb.  Result: token
   kind, decoded value, remaining input. *)
Definition scan_string (prefix : list N) (quote : N) (rest : list N) : res (strtok * list N * list N) :=
  let finish (raw : list N) (rest' : list N) :=
    match unquote raw with
    | Ok (s, _, is_byte) => Ok (if is_byte then TBytes else TString, s, rest')
    | Err => Err
    end in
  match rest with
  | q1 :: q2 :: q3 :: r3 =>
    if (q1 =? quote) && (q2 =? quote) && (q3 =? quote) then
      match scan3 quote 0 false 0 r3 with
      | Ok (body, rest') => finish (prefix ++ [quote; quote; quote] ++ body) rest'
      | Err => Err
      end
    else
      match scan1 quote 0 false (q2 :: q3 :: r3) with
      | Ok (body, rest') => finish (prefix ++ [quote] ++ body) rest'
      | Err => Err
      end
  | _ :: r1 =>
    match scan1 quote 0 false r1 with
    | Ok (body, rest') => finish (prefix ++ [quote] ++ body) rest'
    | Err => Err
    end
  | [] => Err
  end.

Definition is_quote (c : N) : bool := (c =? c_dq) || (c =? c_sq).

(* the string-literal cases of nextToken: plain, r-, b- and rb-prefixed literals *)
Definition scan_literal (src : list N) : res (strtok * list N * list N) :=
  match src with
  | c :: t =>
    if is_quote c then scan_string [] c src
    else match t with
    | c1 :: t1 =>
      if ((c =? 114) || (c =? 98)) && is_quote c1 then scan_string [c] c1 t
      else match t1 with
      | c2 :: _ =>
        if (c =? 114) && (c1 =? 98) && is_quote c2 then scan_string [c; c1] c2 t1 else Err
      | [] => Err
      end
    | [] => Err
    end
  | [] => Err
  end.
End WithIsPrint.
