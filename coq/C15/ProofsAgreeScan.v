(* Unbounded agreement of scanner+unquote with the specification reader, part 1:
   the two scanner loops (scan1, scan3) as ONE loop `scanG`, its step equations
   at every kind of input character, the shape of the token text it returns
   (ends with the closing delimiter, which is the FIRST unescaped one) and how
   the first byte of that text relates to the first byte of the source. *)
From Coq Require Import NArith List Bool Lia ZifyBool ZifyNat ZifyN Arith.
From SV Require Import C15.Utf8 C15.Quote C15.ProofsQuote C15.ProofsScan.
Import ListNotations.
Open Scope N_scope.

(* scan1 (tr = false) and scan3 (tr = true) in one definition *)
Fixpoint scanG (tr : bool) (q : N) (skip : nat) (esc : bool) (count : N) (s : list N)
  : res (list N * list N) :=
  match s with
  | [] => Err
  | b :: t =>
    match skip with
    | S k => scanG tr q k esc count t
    | O =>
      let '(c, w) := read_rune b t in
      let out := utf8_encode c in
      let k := rmap (prepend out) in
      if esc then k (scanG tr q (w - 1) false count t)
      else if c =? q then
        if negb tr || (count =? 2) then Ok (out, t)
        else k (scanG tr q (w - 1) false (count + 1) t)
      else if negb tr && (c =? c_nl) then Err
      else if c =? c_bs then k (scanG tr q (w - 1) true 0 t)
      else k (scanG tr q (w - 1) false 0 t)
    end
  end.

Lemma scanG_scan1 q : forall s skip esc n, scanG false q skip esc n s = scan1 q skip esc s.
Proof.
  induction s as [|b t IH]; intros skip esc n; [reflexivity|].
  cbn [scanG scan1]. destruct skip as [|k]; [|apply IH].
  destruct (read_rune b t) as [c w]. cbn [negb orb andb].
  destruct esc; [now rewrite IH|].
  destruct (c =? q); [reflexivity|].
  destruct (c =? c_nl); [reflexivity|].
  destruct (c =? c_bs); now rewrite IH.
Qed.

Lemma scanG_scan3 q : forall s skip esc n, scanG true q skip esc n s = scan3 q skip esc n s.
Proof.
  induction s as [|b t IH]; intros skip esc n; [reflexivity|].
  cbn [scanG scan3]. destruct skip as [|k]; [|apply IH].
  destruct (read_rune b t) as [c w]. cbn [negb orb andb].
  destruct esc; [now rewrite IH|].
  destruct (c =? q); [destruct (n =? 2); [reflexivity|now rewrite IH]|].
  destruct (c =? c_bs); now rewrite IH.
Qed.

(* ---- readRune ------------------------------------------------------------ *)
Lemma decode_high b t c w : 0x80 <= b -> utf8_decode (b :: t) = (c, w) -> 0x80 <= c.
Proof.
  intros Hb H. unfold utf8_decode in H.
  repeat match type of H with
  | context [if ?c then _ else _] => destruct c eqn:?
  | context [match ?l with [] => _ | _ :: _ => _ end] => destruct l
  end; inversion H; subst; unfold rune_error, is_cont in *; lia.
Qed.

Lemma read_rune_cases b t c w : read_rune b t = (c, w) ->
  (b < 0x80 /\ b <> 13 /\ c = b /\ w = 1%nat) \/
  (b = 13 /\ c = 10 /\ (w = 1%nat \/ w = 2%nat)) \/
  (0x80 <= b /\ 0x80 <= c /\ utf8_decode (b :: t) = (c, w)).
Proof.
  unfold read_rune. intros H. cst.
  destruct (b <? 128) eqn:A.
  - destruct (b =? 13) eqn:B.
    + right; left. destruct t as [|n t']; [|destruct (n =? 10)]; inversion H; subst; lia.
    + left. inversion H; subst. lia.
  - right; right. split; [lia|]. split; [|exact H]. eapply decode_high; [|exact H]. lia.
Qed.

Lemma read_rune_cr_lf t : read_rune 13 (10 :: t) = (10, 2%nat).
Proof. reflexivity. Qed.

Lemma read_rune_cr t : (forall t', t <> 10 :: t') -> read_rune 13 t = (10, 1%nat).
Proof.
  intros H. unfold read_rune. cbn. destruct t as [|n t']; [reflexivity|].
  destruct (n =? c_nl) eqn:E; [|reflexivity]. cst. exfalso. apply (H t'). f_equal. lia.
Qed.

(* ---- one step of the loop at each kind of character ------------------------ *)
Section Steps.
Variable tr : bool.
Variable q : N.
Hypothesis Hq : q = 34 \/ q = 39.

Lemma enc_q : utf8_encode q = [q].
Proof using Hq. apply utf8_encode_ascii. lia. Qed.

Lemma G_plain c n t : splain q c ->
  scanG tr q 0 false n (c :: t) = rmap (prepend [c]) (scanG tr q 0 false 0 t).
Proof using Hq.
  intros (H1 & H2 & H3 & H4 & H5). cbn [scanG]. rewrite read_rune_ascii by lia.
  rewrite utf8_encode_ascii by lia. cst.
  assert (A : (c =? q) = false) by lia. assert (B : (c =? 10) = false) by lia.
  assert (C : (c =? 92) = false) by lia. rewrite A, B, C, andb_false_r. reflexivity.
Qed.

Lemma G_plain_app l n t : l <> [] -> Forall (splain q) l ->
  scanG tr q 0 false n (l ++ t) = rmap (prepend l) (scanG tr q 0 false 0 t).
Proof using Hq.
  intros Hne H. revert n Hne. induction H as [|c l Hc Hl IH]; intros n Hne; [congruence|].
  cbn [app]. rewrite G_plain by assumption. destruct l as [|c' l'].
  - reflexivity.
  - rewrite IH by discriminate. rewrite rmap_prepend2. reflexivity.
Qed.

Lemma G_quote n t :
  scanG tr q 0 false n (q :: t) =
  if negb tr || (n =? 2) then Ok ([q], t) else rmap (prepend [q]) (scanG tr q 0 false (n + 1) t).
Proof using Hq.
  cbn [scanG]. rewrite read_rune_ascii by lia. rewrite enc_q, N.eqb_refl. reflexivity.
Qed.

Lemma G_bs n t :
  scanG tr q 0 false n (92 :: t) = rmap (prepend [92]) (scanG tr q 0 true 0 t).
Proof using Hq.
  cbn [scanG]. rewrite read_rune_ascii by lia. rewrite utf8_encode_ascii by lia. cst.
  assert (A : (92 =? q) = false) by lia. rewrite A. change (92 =? 10) with false.
  rewrite andb_false_r. reflexivity.
Qed.

Lemma G_esc_ascii e t : e < 0x80 -> e <> 13 ->
  scanG tr q 0 true 0 (e :: t) = rmap (prepend [e]) (scanG tr q 0 false 0 t).
Proof using Hq.
  intros H1 H2. cbn [scanG]. rewrite read_rune_ascii by lia. rewrite utf8_encode_ascii by lia.
  reflexivity.
Qed.

Lemma G_esc_cr_lf t :
  scanG tr q 0 true 0 (13 :: 10 :: t) = rmap (prepend [10]) (scanG tr q 0 false 0 t).
Proof using Hq. cbn [scanG]. rewrite read_rune_cr_lf. reflexivity. Qed.

Lemma G_esc_cr t : (forall t', t <> 10 :: t') ->
  scanG tr q 0 true 0 (13 :: t) = rmap (prepend [10]) (scanG tr q 0 false 0 t).
Proof using Hq. intros H. cbn [scanG]. rewrite read_rune_cr by exact H. reflexivity. Qed.

(* an escaped non-ASCII rune is scanned like an unescaped one *)
Lemma G_esc_high e t : 0x80 <= e ->
  scanG tr q 0 true 0 (e :: t) = scanG tr q 0 false 0 (e :: t).
Proof using Hq.
  intros H. cbn [scanG]. destruct (read_rune e t) as [c w] eqn:R.
  destruct (read_rune_cases _ _ _ _ R) as [(A & _)|[(A & _)|(_ & A & _)]]; try lia.
  cst. assert (A1 : (c =? q) = false) by lia. assert (A2 : (c =? 10) = false) by lia.
  assert (A3 : (c =? 92) = false) by lia. rewrite A1, A2, A3, andb_false_r. reflexivity.
Qed.

(* the quote counter only matters when a quote is read *)
Lemma G_count n t : (forall t', t <> q :: t') ->
  scanG tr q 0 false n t = scanG tr q 0 false 0 t.
Proof using Hq.
  intros H. destruct t as [|c t']; [reflexivity|].
  cbn [scanG]. destruct (read_rune c t') as [c' w] eqn:R.
  assert (Hc : c <> q) by (intros ->; now apply (H t')).
  assert (A : (c' =? q) = false).
  { destruct (read_rune_cases _ _ _ _ R) as [(A & _ & B & _)|[(A & B & _)|(_ & A & _)]]; lia. }
  rewrite A. reflexivity.
Qed.
End Steps.

(* line endings: triple-quoted literals continue, single-quoted ones end in an error *)
Section Lines.
Variable q : N.
Hypothesis Hq : q = 34 \/ q = 39.

Lemma G_nl3 n t : scanG true q 0 false n (10 :: t) = rmap (prepend [10]) (scanG true q 0 false 0 t).
Proof using Hq.
  cbn [scanG]. rewrite read_rune_ascii by lia. rewrite utf8_encode_ascii by lia. cst.
  assert (A : (10 =? q) = false) by lia. rewrite A. reflexivity.
Qed.

Lemma G_nl1 n t : scanG false q 0 false n (10 :: t) = Err.
Proof using Hq.
  cbn [scanG]. rewrite read_rune_ascii by lia. cst.
  assert (A : (10 =? q) = false) by lia. rewrite A. reflexivity.
Qed.

Lemma G_cr1 n t : scanG false q 0 false n (13 :: t) = Err.
Proof using Hq.
  cbn [scanG]. destruct (read_rune 13 t) as [c w] eqn:R.
  destruct (read_rune_cases _ _ _ _ R) as [(_ & A & _)|[(_ & A & _)|(A & _)]]; try lia.
  subst c. cst. assert (B : (10 =? q) = false) by lia. rewrite B. reflexivity.
Qed.

Lemma G_cr_lf3 n t :
  scanG true q 0 false n (13 :: 10 :: t) = rmap (prepend [10]) (scanG true q 0 false 0 t).
Proof using Hq.
  cbn [scanG]. rewrite read_rune_cr_lf. rewrite utf8_encode_ascii by lia. cst.
  assert (A : (10 =? q) = false) by lia. rewrite A. reflexivity.
Qed.

Lemma G_cr3 n t : (forall t', t <> 10 :: t') ->
  scanG true q 0 false n (13 :: t) = rmap (prepend [10]) (scanG true q 0 false 0 t).
Proof using Hq.
  intros H. cbn [scanG]. rewrite read_rune_cr by exact H. rewrite utf8_encode_ascii by lia. cst.
  assert (A : (10 =? q) = false) by lia. rewrite A. reflexivity.
Qed.
End Lines.

(* ---- a non-ASCII rune of well-formed source -------------------------------- *)
Lemma scanG_skip tr q esc n : forall k l X, length l = k -> scanG tr q k esc n (l ++ X) = scanG tr q 0 esc n X.
Proof.
  induction k as [|k IH]; intros l X H.
  - destruct l; [reflexivity|discriminate].
  - destruct l as [|a l]; [discriminate|]. cbn [app scanG]. apply IH. simpl in H. lia.
Qed.

Lemma valid_ascii_tail c t : c < 0x80 -> valid_utf8 (c :: t) = true -> valid_utf8 t = true.
Proof.
  intros Hc H. unfold valid_utf8 in *. cbn [valid_utf8_from] in H.
  rewrite utf8_decode_ascii in H by exact Hc. unfold decode_invalid in H. cbn [fst snd] in H.
  change (Nat.eqb 1 1) with true in H. rewrite andb_true_r in H.
  destruct (c =? rune_error) eqn:E; [unfold rune_error in E; lia|]. exact H.
Qed.

(* a well-formed source that starts with a byte >= 0x80 starts with the encoding
   of a scalar value >= 0x80, and the rest is well-formed *)
Lemma valid_high_split c t : 0x80 <= c -> valid_utf8 (c :: t) = true ->
  exists r rest, c :: t = utf8_encode r ++ rest /\ 0x80 <= r /\ is_scalar r = true /\
                 valid_utf8 rest = true /\ (length rest < length (c :: t))%nat.
Proof.
  intros Hc Hv. unfold valid_utf8 in Hv. cbn [valid_utf8_from] in Hv.
  destruct (utf8_decode (c :: t)) as [r w] eqn:D.
  destruct (decode_invalid (r, w)) eqn:Hi; [discriminate|]. cbn [snd] in Hv.
  pose proof (utf8_decode_width (c :: t)) as Hw. rewrite D in Hw. cbn [snd] in Hw.
  pose proof (utf8_decode_width_pos c t) as Hw1. rewrite D in Hw1. cbn [snd] in Hw1.
  assert (Hlen : (w - 1 <= length t)%nat) by (simpl in Hw; lia).
  rewrite valid_from_skip in Hv by exact Hlen.
  destruct (utf8_decode_inv (c :: t) r w D Hi ltac:(discriminate)) as (Hsc & Heq & Hwl).
  assert (S1 : skipn w (c :: t) = skipn (w - 1) t).
  { destruct w; [lia|]. cbn [skipn]. f_equal. lia. }
  rewrite S1 in Heq. exists r, (skipn (w - 1) t). split; [exact Heq|]. split.
  - eapply decode_high; [|exact D]. lia.
  - split; [exact Hsc|]. split; [exact Hv|]. rewrite skipn_length. simpl. lia.
Qed.

Lemma G_rune tr q r n X : (q = 34 \/ q = 39) -> is_scalar r = true -> 0x80 <= r ->
  scanG tr q 0 false n (utf8_encode r ++ X) = rmap (prepend (utf8_encode r)) (scanG tr q 0 false 0 X).
Proof.
  intros Hq Hs Hr.
  pose proof (utf8_decode_encode r X Hs) as D.
  pose proof (utf8_encode_high r Hr) as Hh.
  destruct (utf8_encode r) as [|b0 tl] eqn:E.
  { pose proof (utf8_encode_length r). rewrite E in *. simpl in *. lia. }
  cbn [app scanG]. unfold read_rune.
  assert (B0 : 0x80 <= b0) by (inversion Hh; assumption).
  assert (A : (b0 <? 128) = false) by lia. rewrite A.
  cbn [app] in D. rewrite D. cbn [length Nat.sub]. rewrite Nat.sub_0_r.
  rewrite E. cst.
  assert (C1 : (r =? q) = false) by lia. assert (C2 : (r =? 10) = false) by lia.
  assert (C3 : (r =? 92) = false) by lia. rewrite C1, C2, C3, andb_false_r.
  rewrite scanG_skip by reflexivity. reflexivity.
Qed.

(* ---- shape of the token text ----------------------------------------------- *)
Definition closer (tr : bool) (q : N) : list N := if tr then [q; q; q] else [q].
Definition klen (tr : bool) : nat := if tr then 3%nat else 1%nat.

Lemma closer_length tr q : length (closer tr q) = klen tr.
Proof. destruct tr; reflexivity. Qed.

(* the text returned ends with the closing delimiter (count = quotes already seen) *)
Lemma scanG_ends tr q : (q = 34 \/ q = 39) -> forall s skip esc n b r,
  scanG tr q skip esc n s = Ok (b, r) -> n <= 2 -> (esc = true -> n = 0) ->
  exists b0, (if tr then repeat q (N.to_nat n) else []) ++ b = b0 ++ closer tr q.
Proof.
  intros Hq. induction s as [|c t IH]; intros skip esc n b r H Hn He; [discriminate|].
  cbn [scanG] in H. destruct skip as [|k]; [|eapply IH; eassumption].
  destruct (read_rune c t) as [c' w] eqn:R.
  assert (STEP : forall esc' X, X = scanG tr q (w - 1) esc' 0 t ->
            rmap (prepend (utf8_encode c')) X = Ok (b, r) ->
            exists b0, (if tr then repeat q (N.to_nat n) else []) ++ b = b0 ++ closer tr q).
  { intros esc' X -> HX. destruct (scanG tr q (w - 1) esc' 0 t) as [[b' r']|] eqn:S; [|discriminate].
    cbn in HX. inversion HX; subst. clear HX.
    destruct (IH _ _ _ _ _ S ltac:(lia) ltac:(reflexivity)) as [b0 Hb0].
    assert (Hb' : b' = b0 ++ closer tr q) by (destruct tr; exact Hb0).
    rewrite Hb'. exists ((if tr then repeat q (N.to_nat n) else []) ++ utf8_encode c' ++ b0).
    now rewrite <- !app_assoc. }
  destruct esc.
  { rewrite (He eq_refl) in *. eapply STEP; [reflexivity|exact H]. }
  destruct (c' =? q) eqn:Q.
  { assert (c' = q) by lia. subst c'. rewrite (enc_q q Hq) in *.
    destruct tr; cbn [negb orb] in H.
    - destruct (n =? 2) eqn:N2.
      + inversion H; subst. assert (n = 2) by lia. subst n. exists []. reflexivity.
      + destruct (scanG true q (w - 1) false (n + 1) t) as [[b' r']|] eqn:S; [|discriminate].
        cbn in H. inversion H; subst. clear H.
        destruct (IH _ _ _ _ _ S ltac:(lia) ltac:(discriminate)) as [b0 Hb0].
        exists b0. rewrite <- Hb0.
        assert (Hn' : n = 0 \/ n = 1) by lia. destruct Hn' as [-> | ->]; reflexivity.
    - inversion H; subst. exists []. reflexivity. }
  destruct (negb tr && (c' =? c_nl)); [discriminate|].
  destruct (c' =? c_bs); eapply STEP; try reflexivity; exact H.
Qed.

Lemma scanG_ends0 tr q s skip esc b r : (q = 34 \/ q = 39) ->
  scanG tr q skip esc 0 s = Ok (b, r) -> exists b0, b = b0 ++ closer tr q.
Proof.
  intros Hq H. destruct (scanG_ends tr q Hq _ _ _ _ _ _ H ltac:(lia) ltac:(reflexivity)) as [b0 Hb].
  exists b0. destruct tr; exact Hb.
Qed.

(* chop k l = l without its last k elements *)
Definition chop (k : nat) (l : list N) : list N := firstn (length l - k) l.

Lemma chop_closer (b0 cl : list N) : chop (length cl) (b0 ++ cl) = b0.
Proof.
  unfold chop. rewrite app_length, Nat.add_sub, firstn_app, Nat.sub_diag, firstn_all.
  cbn. apply app_nil_r.
Qed.

Lemma chop_prepend k (out b : list N) : (k <= length b)%nat -> chop k (out ++ b) = out ++ chop k b.
Proof.
  intros H. unfold chop. rewrite app_length, firstn_app.
  rewrite firstn_all2 by lia. f_equal. f_equal. lia.
Qed.

Definition long (tr : bool) (X : res (list N * list N)) : Prop :=
  forall b r, X = Ok (b, r) -> (klen tr <= length b)%nat.

Lemma scanG_long tr q s skip esc : (q = 34 \/ q = 39) -> long tr (scanG tr q skip esc 0 s).
Proof.
  intros Hq b r H. destruct (scanG_ends0 _ _ _ _ _ _ _ Hq H) as [b0 ->].
  rewrite app_length, closer_length. lia.
Qed.

(* the first byte of the token body: the first source byte, LF for CR, or a byte >= 0x80 *)
Lemma body_head tr q s b r x L : (q = 34 \/ q = 39) ->
  scanG tr q 0 false 0 s = Ok (b, r) -> chop (klen tr) b = x :: L ->
  exists c t, s = c :: t /\ (x = c \/ (c = 13 /\ x = 10) \/ 0x80 <= x).
Proof.
  intros Hq H Hc. destruct s as [|c t]; [discriminate|]. exists c, t. split; [reflexivity|].
  cbn [scanG] in H. destruct (read_rune c t) as [c' w] eqn:R.
  pose proof (read_rune_cases _ _ _ _ R) as RC.
  assert (STEP : forall esc' X, X = scanG tr q (w - 1) esc' 0 t ->
            rmap (prepend (utf8_encode c')) X = Ok (b, r) -> c' <> q ->
            x = c \/ (c = 13 /\ x = 10) \/ 0x80 <= x).
  { intros esc' X -> HX Hne. destruct (scanG tr q (w - 1) esc' 0 t) as [[b' r']|] eqn:S; [|discriminate].
    cbn in HX. inversion HX; subst. clear HX.
    destruct (scanG_ends0 _ _ _ _ _ _ _ Hq S) as [b0 ->].
    rewrite app_assoc, <- (closer_length tr q), chop_closer in Hc.
    destruct RC as [(A1 & A2 & A3 & _)|[(A1 & A2 & _)|(A1 & A2 & _)]].
    - subst c'. rewrite utf8_encode_ascii in Hc by lia. inversion Hc. now left.
    - subst c'. rewrite utf8_encode_ascii in Hc by lia. inversion Hc. right; left. split; [exact A1|reflexivity].
    - pose proof (utf8_encode_high c' A2) as Hh.
      pose proof (utf8_encode_length c') as HL.
      destruct (utf8_encode c') as [|y ys]; [simpl in HL; lia|].
      inversion Hh; subst; inversion Hc; subst; right; right; assumption. }
  destruct (c' =? q) eqn:Q.
  { assert (c' = q) by lia. subst c'.
    assert (c = q) by (destruct RC as [(A1 & A2 & A3 & _)|[(A1 & A2 & _)|(A1 & A2 & _)]]; lia).
    subst c. rewrite (enc_q q Hq) in H.
    destruct tr; cbn [negb orb] in H.
    - change (0 =? 2) with false in H.
      destruct (scanG true q (w - 1) false (0 + 1) t) as [[b' r']|] eqn:S; [|discriminate].
      cbn in H. inversion H; subst. clear H.
      destruct (scanG_ends true q Hq _ _ _ _ _ _ S ltac:(lia) ltac:(discriminate)) as [b0 Hb0].
      change (N.to_nat (0 + 1)) with 1%nat in Hb0. cbn [repeat app] in Hb0.
      cbn [app] in Hc. rewrite Hb0 in Hc. change (klen true) with (length (closer true q)) in Hc.
      rewrite chop_closer in Hc. subst b0. cbn [app] in Hb0. inversion Hb0. now left.
    - inversion H; subst. cbn in Hc. discriminate. }
  destruct (negb tr && (c' =? c_nl)); [discriminate|].
  assert (Hne : c' <> q) by lia.
  destruct (c' =? c_bs); eapply STEP; try reflexivity; try exact H; exact Hne.
Qed.

(* of a single-quoted literal: the body is empty or does not start with the quote *)
Lemma body_head1 q t b0 r : (q = 34 \/ q = 39) ->
  scanG false q 0 false 0 t = Ok (b0 ++ [q], r) ->
  b0 = [] \/ exists x L, b0 = x :: L /\ x <> q.
Proof.
  intros Hq H. destruct b0 as [|x L]; [now left|]. right. exists x, L. split; [reflexivity|].
  assert (Hc : chop (klen false) ((x :: L) ++ [q]) = x :: L) by (apply (chop_closer (x :: L) [q])).
  destruct (body_head _ _ _ _ _ _ _ Hq H Hc) as (c & t' & -> & Hx).
  intros ->. destruct Hx as [Hx|[(_ & Hx)|Hx]]; try lia.
  subst c. rewrite (G_quote false q Hq) in H. cbn in H. injection H as H1 H2.
  destruct L; discriminate H1.
Qed.

(* ---- a non-ASCII byte of ARBITRARY source (well-formed or not) ------------------ *)
(* whatever DecodeRune consumes after the first byte is >= 0x80 *)
Lemma decode_tail_high c t r w : utf8_decode (c :: t) = (r, w) ->
  Forall (fun b => 0x80 <= b) (firstn (w - 1) t) /\ (w - 1 <= length t)%nat.
Proof.
  intros H. unfold utf8_decode in H.
  repeat match type of H with
  | context [if ?c then _ else _] => destruct c eqn:?
  | context [match ?l with [] => _ | _ :: _ => _ end] => destruct l
  end; inversion H; subst; cbn [Nat.sub firstn length]; unfold is_cont in *;
  (split; [repeat constructor; lia|lia]).
Qed.

Lemma G_high_any tr q n c t : (q = 34 \/ q = 39) -> 0x80 <= c ->
  exists r w, 0x80 <= r /\ Forall (fun b => 0x80 <= b) (firstn (w - 1) t) /\ (w - 1 <= length t)%nat /\
    scanG tr q 0 false n (c :: t) =
    rmap (prepend (utf8_encode r)) (scanG tr q 0 false 0 (skipn (w - 1) t)).
Proof.
  intros Hq Hc. cbn [scanG]. destruct (read_rune c t) as [r w] eqn:R. exists r, w.
  destruct (read_rune_cases _ _ _ _ R) as [(A & _)|[(A & _)|(_ & A & D)]]; try lia.
  destruct (decode_tail_high _ _ _ _ D) as [F L].
  split; [exact A|]. split; [exact F|]. split; [exact L|].
  cst. assert (A1 : (r =? q) = false) by lia. assert (A2 : (r =? 10) = false) by lia.
  assert (A3 : (r =? 92) = false) by lia. rewrite A1, A2, A3, andb_false_r.
  rewrite <- (firstn_skipn (w - 1) t) at 1.
  rewrite scanG_skip by (apply firstn_length_le; exact L). reflexivity.
Qed.
