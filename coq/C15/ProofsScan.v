(* The scanner reads Quote(s, b) as exactly one token whose value is s. *)
From Coq Require Import NArith List Bool Lia ZifyBool ZifyNat ZifyN Arith.
From SV Require Import C15.Utf8 C15.Quote C15.ProofsQuote.
Import ListNotations.
Open Scope N_scope.

Lemma hexdig_cases d : d < 16 -> (48 <= hexdig d <= 57) \/ (97 <= hexdig d <= 102).
Proof. intros H. unfold hexdig. destruct (d <? 10) eqn:E; lia. Qed.

Lemma prepend_app a b p : prepend a (prepend b p) = prepend (a ++ b) p.
Proof. unfold prepend. cbn [fst snd]. now rewrite app_assoc. Qed.

Lemma rmap_rmap {A B C} (f : B -> C) (g : A -> B) r : rmap f (rmap g r) = rmap (fun x => f (g x)) r.
Proof. destruct r; reflexivity. Qed.

Lemma rmap_prepend2 a b r : rmap (prepend a) (rmap (prepend b) r) = rmap (prepend (a ++ b)) r.
Proof. destruct r; cbn; [now rewrite prepend_app|reflexivity]. Qed.

(* an ASCII character that is neither the quote, a line ending nor a backslash *)
Definition splain (q c : N) : Prop := c < 0x80 /\ c <> q /\ c <> 10 /\ c <> 13 /\ c <> 92.

Lemma read_rune_ascii b t : b < 0x80 -> b <> 13 -> read_rune b t = (b, 1%nat).
Proof.
  intros H1 H2. unfold read_rune. cst.
  assert (A : (b <? 128) = true) by lia. assert (B : (b =? 13) = false) by lia. now rewrite A, B.
Qed.

Lemma scan1_plain q c X : splain q c ->
  scan1 q 0 false (c :: X) = rmap (prepend [c]) (scan1 q 0 false X).
Proof.
  intros (H1 & H2 & H3 & H4 & H5). cbn [scan1]. rewrite read_rune_ascii by lia.
  rewrite utf8_encode_ascii by lia. cst.
  assert (A : (c =? q) = false) by lia. assert (B : (c =? 10) = false) by lia.
  assert (C : (c =? 92) = false) by lia. rewrite A, B, C. reflexivity.
Qed.

Lemma scan1_plain_app q l X : Forall (splain q) l ->
  scan1 q 0 false (l ++ X) = rmap (prepend l) (scan1 q 0 false X).
Proof.
  induction 1 as [|c l Hc Hl IH].
  - cbn. destruct (scan1 q 0 false X) as [[a b]|]; reflexivity.
  - cbn [app]. rewrite scan1_plain by assumption. rewrite IH, rmap_prepend2. reflexivity.
Qed.

(* backslash followed by an ASCII character other than CR *)
Lemma scan1_escape q e X : q <> 92 -> e < 0x80 -> e <> 13 ->
  scan1 q 0 false (92 :: e :: X) = rmap (prepend [92; e]) (scan1 q 0 false X).
Proof.
  intros Hq H1 H2. cbn [scan1]. rewrite read_rune_ascii by lia.
  rewrite utf8_encode_ascii by lia. cst.
  assert (A : (92 =? q) = false) by lia. rewrite A.
  change (92 =? 10) with false. change (92 =? 92) with true. cbv iota. cbn [Nat.sub].
  cbn [scan1]. rewrite read_rune_ascii by lia. rewrite utf8_encode_ascii by lia. cbn [Nat.sub].
  rewrite rmap_prepend2. reflexivity.
Qed.

Lemma scan1_skip q esc : forall k l X, length l = k -> scan1 q k esc (l ++ X) = scan1 q 0 esc X.
Proof.
  induction k as [|k IH]; intros l X H.
  - destruct l; [reflexivity|discriminate].
  - destruct l as [|a l]; [discriminate|]. cbn [app scan1]. apply IH. simpl in H. lia.
Qed.

(* a raw multi-byte rune *)
Lemma scan1_rune q r X : is_scalar r = true -> 0x80 <= r -> q < 0x80 ->
  scan1 q 0 false (utf8_encode r ++ X) = rmap (prepend (utf8_encode r)) (scan1 q 0 false X).
Proof.
  intros Hs Hr Hq.
  pose proof (utf8_decode_encode r X Hs) as D.
  pose proof (utf8_encode_high r Hr) as Hh.
  destruct (utf8_encode r) as [|b0 tl] eqn:E.
  { pose proof (utf8_encode_length r). rewrite E in *. simpl in *. lia. }
  cbn [app scan1]. unfold read_rune.
  assert (B0 : 0x80 <= b0) by (inversion Hh; assumption).
  assert (A : (b0 <? 128) = false) by lia. rewrite A.
  cbn [app] in D. rewrite D. cbn [length Nat.sub]. rewrite Nat.sub_0_r.
  rewrite E. cst.
  assert (C1 : (r =? q) = false) by lia. assert (C2 : (r =? 10) = false) by lia.
  assert (C3 : (r =? 92) = false) by lia. rewrite C1, C2, C3.
  rewrite scan1_skip by reflexivity. reflexivity.
Qed.

Lemma valid_utf8_bytes_ok_len : forall (n : nat) (s : list N),
  (length s <= n)%nat -> valid_utf8 s = true -> bytes_ok s.
Proof.
  induction n as [|n IH]; intros s Hn Hv.
  { destruct s; [constructor|simpl in Hn; lia]. }
  destruct s as [|b t]; [constructor|].
  unfold valid_utf8 in Hv. cbn [valid_utf8_from] in Hv.
  destruct (utf8_decode (b :: t)) as [r w] eqn:D.
  destruct (decode_invalid (r, w)) eqn:Hi; [discriminate|]. cbn [snd] in Hv.
  pose proof (utf8_decode_width (b :: t)) as Hw. rewrite D in Hw. cbn [snd] in Hw.
  pose proof (utf8_decode_width_pos b t) as Hw1. rewrite D in Hw1. cbn [snd] in Hw1.
  assert (Hlen : (w - 1 <= length t)%nat) by (simpl in Hw; lia).
  rewrite valid_from_skip in Hv by exact Hlen.
  destruct (utf8_decode_inv (b :: t) r w D Hi ltac:(discriminate)) as (Hsc & Heq & Hwl).
  assert (S1 : skipn w (b :: t) = skipn (w - 1) t).
  { destruct w; [lia|]. cbn [skipn]. f_equal. lia. }
  rewrite S1 in Heq. rewrite Heq. apply Forall_app. split.
  - apply utf8_encode_bytes_ok.
  - apply IH; [|exact Hv]. rewrite skipn_length. simpl in Hn. lia.
Qed.

Lemma valid_utf8_bytes_ok s : valid_utf8 s = true -> bytes_ok s.
Proof. apply (valid_utf8_bytes_ok_len (length s)). lia. Qed.

Section WithIsPrint.
Variable is_print : N -> bool.
Hypothesis is_print_not_newline : forall r, is_print r = true -> r <> 13 /\ r <> 10.

Notation quote_rune := (quote_rune is_print).
Notation quote_body := (quote_body is_print).
Notation quote := (quote is_print).

Lemma hex_splain d : d < 16 -> splain 34 (hexdig d).
Proof. intros H. destruct (hexdig_cases d H); unfold splain; lia. Qed.

Lemma scan1_quote_rune r X :
  is_scalar r = true ->
  scan1 34 0 false (quote_rune r ++ X) = rmap (prepend (quote_rune r)) (scan1 34 0 false X).
Proof.
  intros Hs. unfold Quote.quote_rune.
  destruct ((r =? c_dq) || (r =? c_bs)) eqn:E1.
  { assert (Hr : r = 34 \/ r = 92) by (cst; lia). cbn [app]. change c_bs with 92.
    destruct Hr as [-> | ->]; apply scan1_escape; lia. }
  destruct (is_print r) eqn:E2.
  { destruct (is_print_not_newline r E2) as [P1 P2].
    destruct (r <? 0x80) eqn:E3.
    - rewrite utf8_encode_ascii by lia. cbn [app]. apply scan1_plain. unfold splain. cst. lia.
    - apply scan1_rune; [assumption|lia|lia]. }
  assert (ESC : forall e Y, e < 0x80 -> e <> 13 ->
          scan1 34 0 false ([c_bs; e] ++ Y) = rmap (prepend [c_bs; e]) (scan1 34 0 false Y)).
  { intros e Y H1 H2. cbn [app]. change c_bs with 92. apply scan1_escape; lia. }
  destruct (r =? 7); [apply ESC; lia|].
  destruct (r =? 8); [apply ESC; lia|].
  destruct (r =? 12); [apply ESC; lia|].
  destruct (r =? 10); [apply ESC; lia|].
  destruct (r =? 13); [apply ESC; lia|].
  destruct (r =? 9); [apply ESC; lia|].
  destruct (r =? 11); [apply ESC; lia|].
  assert (M16 : forall x, x mod 16 < 16) by (intros; apply N.mod_lt; lia).
  destruct ((r <? 32) || (r =? 127)) eqn:E3.
  { change [c_bs; 120; hexdig (r / 16); hexdig (r mod 16)] with ([c_bs; 120] ++ [hexdig (r / 16); hexdig (r mod 16)]).
    rewrite <- app_assoc. rewrite ESC by lia.
    rewrite scan1_plain_app by (repeat constructor; apply hex_splain; lia).
    rewrite rmap_prepend2. reflexivity. }
  destruct ((max_rune <? r) || (r <? 65536)) eqn:E4.
  { match goal with |- scan1 _ _ _ ([c_bs; 117; ?a; ?b; ?c; ?d] ++ X) = _ =>
      change [c_bs; 117; a; b; c; d] with ([c_bs; 117] ++ [a; b; c; d]) end.
    rewrite <- app_assoc. rewrite ESC by lia.
    rewrite scan1_plain_app by (repeat constructor; apply hex_splain; apply M16).
    rewrite rmap_prepend2. reflexivity. }
  { match goal with |- scan1 _ _ _ ([c_bs; 85; ?a; ?b; ?c; ?d; ?e; ?f; ?g; ?h] ++ X) = _ =>
      change [c_bs; 85; a; b; c; d; e; f; g; h] with ([c_bs; 85] ++ [a; b; c; d; e; f; g; h]) end.
    rewrite <- app_assoc. rewrite ESC by lia.
    rewrite scan1_plain_app by (repeat constructor; apply hex_splain; apply M16).
    rewrite rmap_prepend2. reflexivity. }
Qed.

Lemma scan1_quote_body_len : forall (n : nat) (s X : list N),
  (length s <= n)%nat -> bytes_ok s ->
  scan1 34 0 false (quote_body 0 s ++ X) = rmap (prepend (quote_body 0 s)) (scan1 34 0 false X).
Proof.
  induction n as [|n IH]; intros s X Hn Hok.
  { destruct s; [|simpl in Hn; lia]. cbn. destruct (scan1 34 0 false X) as [[a b]|]; reflexivity. }
  destruct s as [|b t].
  { cbn. destruct (scan1 34 0 false X) as [[a c]|]; reflexivity. }
  cbn [Quote.quote_body]. unfold quote_step.
  destruct (utf8_decode (b :: t)) as [r w] eqn:D.
  pose proof (utf8_decode_width (b :: t)) as Hw. rewrite D in Hw. cbn [snd] in Hw.
  pose proof (utf8_decode_width_pos b t) as Hw1. rewrite D in Hw1. cbn [snd] in Hw1.
  assert (Hlen : (w - 1 <= length t)%nat) by (simpl in Hw; lia).
  assert (Hb : b < 256) by (inversion Hok; assumption).
  assert (IHr : scan1 34 0 false (quote_body 0 (skipn (w - 1) t) ++ X)
                = rmap (prepend (quote_body 0 (skipn (w - 1) t))) (scan1 34 0 false X)).
  { apply IH.
    - rewrite skipn_length. simpl in Hn. lia.
    - apply bytes_ok_skipn. now inversion Hok. }
  destruct (Nat.eqb w 1 && (r =? rune_error)) eqn:Bad; rewrite (quote_body_skip is_print is_print_not_newline) by exact Hlen.
  { rewrite <- app_assoc.
    change [c_bs; 120; hexdig (b / 16); hexdig (b mod 16)] with ([92; 120] ++ [hexdig (b / 16); hexdig (b mod 16)]).
    rewrite <- app_assoc. cbn [app]. rewrite scan1_escape by lia.
    change (hexdig (b / 16) :: hexdig (b mod 16) :: quote_body 0 (skipn (w - 1) t) ++ X)
      with ([hexdig (b / 16); hexdig (b mod 16)] ++ quote_body 0 (skipn (w - 1) t) ++ X).
    rewrite scan1_plain_app by (repeat constructor; apply hex_splain; lia).
    rewrite IHr, !rmap_prepend2. reflexivity. }
  { assert (Hv : decode_invalid (r, w) = false).
    { unfold decode_invalid. cbn [fst snd]. rewrite andb_comm. exact Bad. }
    destruct (utf8_decode_inv (b :: t) r w D Hv ltac:(discriminate)) as (Hsc & _ & _).
    rewrite <- app_assoc. rewrite scan1_quote_rune by exact Hsc.
    rewrite IHr, rmap_prepend2. reflexivity. }
Qed.

Lemma scan1_quote_body s rest : bytes_ok s ->
  scan1 34 0 false (quote_body 0 s ++ 34 :: rest) = Ok (quote_body 0 s ++ [34], rest).
Proof.
  intros H. rewrite (scan1_quote_body_len (length s)) by (auto; lia).
  cbn [scan1]. rewrite read_rune_ascii by lia. rewrite utf8_encode_ascii by lia.
  change (34 =? 34) with true. cbv iota. cbn. unfold prepend. reflexivity.
Qed.

Definition no_quote_next (rest : list N) : Prop := forall c l, rest = c :: l -> c <> 34.

(* scanString started at the opening quote of Quote(s, b) *)
Lemma scan_string_quote prefix s rest :
  bytes_ok s -> no_quote_next rest ->
  scan_string prefix 34 (34 :: quote_body 0 s ++ 34 :: rest) =
  match unquote (prefix ++ [34] ++ quote_body 0 s ++ [34]) with
  | Ok (v, _, is_byte) => Ok (if is_byte then TBytes else TString, v, rest)
  | Err => Err
  end.
Proof.
  intros Hok Hrest. unfold scan_string.
  pose proof (scan1_quote_body s rest Hok) as S1.
  destruct (quote_body 0 s) as [|c l] eqn:B.
  - (* empty body: the two quotes must not be followed by a third *)
    cbn [app] in *. destruct rest as [|c' r'].
    + rewrite S1. reflexivity.
    + assert (c' <> 34) by (eapply Hrest; reflexivity).
      assert (E : (c' =? 34) = false) by lia.
      change (34 =? 34) with true. rewrite E. cbn [andb]. rewrite S1. reflexivity.
  - assert (Hc : c <> 34).
    { destruct (quote_body_hd is_print is_print_not_newline s) as (c0 & l0 & E0 & H0).
      - intros ->. cbn in B. discriminate.
      - rewrite B in E0. inversion E0. subst. exact H0. }
    assert (E : (c =? 34) = false) by lia.
    cbn [app] in *.
    destruct (l ++ 34 :: rest) as [|x r3] eqn:L.
    { destruct l; discriminate. }
    change (34 =? 34) with true. rewrite E. cbn [andb]. rewrite S1. reflexivity.
Qed.

Theorem scan_quote_string_lemma : forall s rest,
  valid_utf8 s = true -> no_quote_next rest ->
  scan_literal (quote s false ++ rest) = Ok (TString, s, rest).
Proof.
  intros s rest Hv Hrest. pose proof (valid_utf8_bytes_ok s Hv) as Hok. unfold Quote.quote. cbn [app]. rewrite <- !app_assoc. cbn [app].
  unfold scan_literal. change (is_quote c_dq) with true. cbv iota.
  change c_dq with 34.
  rewrite scan_string_quote by assumption.
  pose proof (unquote_quote_string_lemma is_print is_print_not_newline s Hv) as U.
  unfold Quote.quote in U. cbn [app] in U. change c_dq with 34 in U. cbn [app]. rewrite U. reflexivity.
Qed.

Theorem scan_quote_bytes_lemma : forall s rest,
  bytes_ok s -> no_quote_next rest ->
  scan_literal (quote s true ++ rest) = Ok (TBytes, s, rest).
Proof.
  intros s rest Hok Hrest. unfold Quote.quote. cbn [app]. rewrite <- !app_assoc. cbn [app].
  unfold scan_literal. change (is_quote 98) with false. cbv iota.
  change c_dq with 34. change ((98 =? 114) || (98 =? 98)) with true. change (is_quote 34) with true. cbn [andb].
  rewrite scan_string_quote by assumption.
  pose proof (unquote_quote_bytes_lemma is_print is_print_not_newline s Hok) as U.
  unfold Quote.quote in U. cbn [app] in U. change c_dq with 34 in U. cbn [app]. rewrite U. reflexivity.
Qed.
End WithIsPrint.
