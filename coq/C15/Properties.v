(* C15 -- property theorems only.  Each is closed by `exact <lemma>`; axioms are
   printed by the audit step of bin/check (Print Assumptions per theorem). *)
From Coq Require Import NArith List Bool.
From SV Require Import C15.Utf8 C15.Quote C15.ProofsQuote C15.ProofsScan.
Import ListNotations.
Open Scope N_scope.

(* Go's utf8.DecodeRune inverts utf8.AppendRune on every Unicode scalar value,
   whatever follows in the string. *)
Theorem utf8_roundtrip : forall r s,
  is_scalar r = true ->
  utf8_decode (utf8_encode r ++ s) = (r, length (utf8_encode r)).
Proof. exact utf8_decode_encode. Qed.

Section Quoting.
(* strconv.IsPrint is an oracle.  The only fact used: it never declares a line
   feed or a carriage return printable (checked against the real function over
   all 1,114,112 code points by the harness). *)
Variable is_print : N -> bool.
Hypothesis is_print_not_newline : forall r, is_print r = true -> r <> 13 /\ r <> 10.

(* For ALL well-formed UTF-8 strings s (of any length, over any code points):
   unquoting the string literal Quote(s, false) gives back s, as a string
   (not bytes), not triple-quoted. *)
Theorem unquote_quote_string : forall s,
  valid_utf8 s = true -> unquote (quote is_print s false) = Ok (s, false, false).
Proof. exact (unquote_quote_string_lemma is_print is_print_not_newline). Qed.

(* For ALL byte strings b (ill-formed UTF-8 included): unquoting the bytes
   literal Quote(b, true) gives back b, as bytes. *)
Theorem unquote_quote_bytes : forall s,
  bytes_ok s -> unquote (quote is_print s true) = Ok (s, false, true).
Proof. exact (unquote_quote_bytes_lemma is_print is_print_not_newline). Qed.

(* The scanner (nextToken / scanString with its own quote tracking, then
   unquote) reads the text Quote(s, b), followed by ANY continuation that does
   not start with a double quote, as exactly one STRING (resp. BYTES) token with
   value s and leaves the continuation untouched. *)
Theorem scan_quote_string : forall s rest,
  valid_utf8 s = true -> no_quote_next rest ->
  scan_literal (quote is_print s false ++ rest) = Ok (TString, s, rest).
Proof. exact (scan_quote_string_lemma is_print is_print_not_newline). Qed.

Theorem scan_quote_bytes : forall s rest,
  bytes_ok s -> no_quote_next rest ->
  scan_literal (quote is_print s true ++ rest) = Ok (TBytes, s, rest).
Proof. exact (scan_quote_bytes_lemma is_print is_print_not_newline). Qed.
End Quoting.

(* Non-vacuity: the hypotheses hold on concrete non-trivial inputs. *)
Definition ascii_print (r : N) : bool := (32 <=? r) && (r <? 127).
Example ascii_print_ok : forall r, ascii_print r = true -> r <> 13 /\ r <> 10.
Proof. intros r H. unfold ascii_print in H. split; intros ->; discriminate. Qed.
(* a, double quote, backslash, LF, e-acute, U+2028, U+1F600 *)
Definition sample : list N := [97; 34; 92; 10; 0xC3; 0xA9; 0xE2; 0x80; 0xA8; 0xF0; 0x9F; 0x98; 0x80].
Example sample_valid : valid_utf8 sample = true.
Proof. reflexivity. Qed.
Example sample_roundtrip : unquote (quote ascii_print sample false) = Ok (sample, false, false).
Proof. vm_compute. reflexivity. Qed.
Example sample_bytes_ok : bytes_ok [0; 255; 0x80; 34; 0xC3].
Proof. repeat constructor. Qed.
Example sample_scalar : is_scalar 0x1F600 = true.
Proof. reflexivity. Qed.
Example no_quote_next_ok : no_quote_next [44; 32; 49].
Proof. intros c l H. inversion H. discriminate. Qed.
