(* C15 -- property theorems only.  Each is closed by `exact <lemma>`; axioms are
   printed by the audit step of bin/check (Print Assumptions per theorem). *)
From Coq Require Import NArith ZArith List Bool.
From SV Require Import C15.Utf8 C15.Float C15.Quote C15.Value C15.ProofsQuote C15.ProofsScan C15.ProofsHeap C15.ProofsValue C15.Spec C15.ProofsSpec C15.Bounded C15.ProofsAgree.
Import ListNotations.
Open Scope N_scope.

(* Go's utf8.DecodeRune inverts utf8.AppendRune on every Unicode scalar value,
   whatever follows in the string. *)
Theorem utf8_roundtrip : forall r s,
  is_scalar r = true ->
  utf8_decode (utf8_encode r ++ s) = (r, length (utf8_encode r)).
Proof. exact utf8_decode_encode. Qed.

(* ... and accepts nothing else: whenever DecodeRune does not report an error,
   the rune is a Unicode scalar value (no surrogate, at most U+10FFFF) and the
   bytes consumed are exactly its shortest-form encoding (no overlong form). *)
Theorem utf8_decode_canonical : forall s r w,
  utf8_decode s = (r, w) -> decode_invalid (r, w) = false -> s <> [] ->
  is_scalar r = true /\ s = utf8_encode r ++ skipn w s /\ w = length (utf8_encode r).
Proof. exact utf8_decode_inv. Qed.

Section Quoting.
(* strconv.IsPrint is an oracle.  The only fact used: it never declares a line
   feed or a carriage return printable (checked against the real function over
   all 1,114,112 code points by the harness). *)
Variable is_print : N -> bool.
Hypothesis is_print_not_newline : forall r, is_print r = true -> r <> 13 /\ r <> 10.

(* For ALL well-formed UTF-8 strings s (of any length, over any code points):
   unquoting the string literal Quote(s, false) gives back s, as a string
   (not bytes), not triple-quoted. *)
Theorem unquote_quote_string : forall s,
  valid_utf8 s = true -> unquote (quote is_print s false) = Ok (s, false, false).
Proof. exact (unquote_quote_string_lemma is_print is_print_not_newline). Qed.

(* For ALL byte strings b (ill-formed UTF-8 included): unquoting the bytes
   literal Quote(b, true) gives back b, as bytes. *)
Theorem unquote_quote_bytes : forall s,
  bytes_ok s -> unquote (quote is_print s true) = Ok (s, false, true).
Proof. exact (unquote_quote_bytes_lemma is_print is_print_not_newline). Qed.

(* The scanner (nextToken / scanString with its own quote tracking, then
   unquote) reads the text Quote(s, b), followed by ANY continuation that does
   not start with a double quote, as exactly one STRING (resp. BYTES) token with
   value s and leaves the continuation untouched. *)
Theorem scan_quote_string : forall s rest,
  valid_utf8 s = true -> no_quote_next rest ->
  scan_literal (quote is_print s false ++ rest) = Ok (TString, s, rest).
Proof. exact (scan_quote_string_lemma is_print is_print_not_newline). Qed.

Theorem scan_quote_bytes : forall s rest,
  bytes_ok s -> no_quote_next rest ->
  scan_literal (quote is_print s true ++ rest) = Ok (TBytes, s, rest).
Proof. exact (scan_quote_bytes_lemma is_print is_print_not_newline). Qed.

(* Model meets the independent specification: the text Quote(s, b) DENOTES s
   (as a string resp. bytes) according to the single-pass literal reader written
   from the language specification (Spec.v), for all well-formed UTF-8 strings /
   all byte strings, whatever non-quote continuation follows. *)
Theorem quote_denotes : forall (s : list N) (b : bool) rest,
  (if b then bytes_ok s else valid_utf8 s = true) -> no_quote_next rest ->
  spec_literal (quote is_print s b ++ rest) = Some (b, s, rest).
Proof. exact (quote_denotes_lemma is_print is_print_not_newline). Qed.
End Quoting.

(* THE MODEL AGREES WITH THE SPECIFICATION ON EVERY SOURCE TEXT (unbounded).
   For EVERY well-formed UTF-8 source text src - of any length, over any
   characters - the implementation model (nextToken's r / b / rb prefix dispatch,
   scanString's single- and triple-quoted loops with readRune's CR / CR LF
   handling and generic backslash skipping, then unquote re-reading the token:
   one-character escapes, octal escapes with both limits, \xHH, \uXXXX,
   \UXXXXXXXX with the surrogate and range checks, raw literals, escaped line
   breaks, every error exit) returns the SAME observation as the specification's
   independent single-pass reader (Spec.v): the same token extent (remaining
   input), the same decoded value, the same string / bytes kind, and an error on
   exactly the same texts (both sides have one error class).
   Proof (ProofsAgree*.v): induction over the source with the specification's
   single pass as the reference; scanG (scan1 and scan3 as one loop) stops at the
   first unescaped closing delimiter, the token text is the source with CR / CR LF
   normalised, and unq_loop on the delimited body processes each escape exactly
   as s_items does (hexadecimal and octal look-ahead across the closing quote
   included); unquote's prefix / delimiter analysis recovers exactly that body.
   The hypothesis is the specification's domain (Spec.v): on ill-formed UTF-8 the
   scanner substitutes U+FFFD for the offending byte, so the VALUE differs and the
   equation is false (scan_agreement_needs_wellformed_source below); everything
   else still agrees: scan_accepts_same_extent, next. *)
Theorem scan_agrees_with_spec : forall src,
  valid_utf8 src = true -> model_scan src = spec_scan src.
Proof. exact scan_agrees_with_spec_lemma. Qed.

(* For EVERY byte string src whatsoever (any length, any bytes, ill-formed UTF-8
   included): the model and the specification's reader reject src together, or
   both accept it as a literal of the same kind (string / bytes) with the same
   extent (the same remaining input).  Same induction, run in the mode that
   forgets the value (ProofsAgreeItems.rel false). *)
Theorem scan_accepts_same_extent : forall src,
  match model_scan src, spec_scan src with
  | SErr, SErr => True
  | SOk b1 _ rest1, SOk b2 _ rest2 => b1 = b2 /\ rest1 = rest2
  | _, _ => False
  end.
Proof. exact scan_accepts_same_extent_lemma. Qed.

(* The same statement established independently of the induction, by complete
   enumeration inside Coq: EVERY source text of length <= 6 over the 14
   characters that matter to literal syntax (both quotes, backslash, r, b, x,
   the digits 0 4 7, a, LF, CR and the two bytes of a non-ASCII character):
   8,108,731 texts (all_upto is proved sound).  Kept as a cross-check of the
   unbounded theorem above (it is an instance of it). *)
Theorem scan_agrees_with_spec_bounded : forall src,
  (length src <= bound)%nat -> Forall (fun c => In c alphabet) src ->
  valid_utf8 src = true -> model_scan src = spec_scan src.
Proof. exact scan_agrees_with_spec_bounded_lemma. Qed.

(* FULL STATEMENT (property text): for every value v built from None, booleans,
   ints, finite floats, strings, bytes, lists, tuples and dicts, nested
   arbitrarily, repr(v) is valid source text whose evaluation yields a value
   equal to v and of the same type.

   PROVED (`_partial`): for every such v (no bound on size, nesting or integer
   magnitude; strings well-formed UTF-8; floats finite) the reader of the
   literal / display / unary-minus fragment (read_expr: the scanner model for
   strings, decimal int and float tokens, [..], (..) with the one-element comma
   rule, {k: v}) applied to write_value v followed by any continuation that
   starts with a delimiter returns exactly v (structurally: same type at every
   level, dict order, ints exact) and the continuation, given enough fuel
   (need v, a function of the nesting only).
   MISSING for the full statement: (1) the float leaf is an ORACLE: hypotheses
   float_text_reads_back / float_text_head say that the text printed for a
   finite float (strconv shortest digits laid out by fmt_g, with the forced
   `.0`) is read back by read_expr as the same bit pattern and starts with a
   sign or digit - this is strconv's shortest-round-trip guarantee, evaluated
   in Coq (dec_to_b64) on every float of the correspondence sample; (2)
   read_expr is a model of scanner+parser+evaluator for this fragment only,
   tied to the real Eval by the correspondence check and by the direct check
   Eval(repr(v)) == v on the implementation, not by a theorem about the whole
   parser (C14). *)
Section ReprRoundTrip.
Variable is_print : N -> bool.
Hypothesis is_print_not_newline : forall r, is_print r = true -> r <> 13 /\ r <> 10.
Variable shortest : N -> bool * list N * Z.
Hypothesis float_text_reads_back : forall bits rest,
  b64_is_finite bits = true -> delim rest ->
  read_expr 1 (write_float shortest bits ++ rest) = ROk (VFloat bits) rest.
Hypothesis float_text_head : forall bits,
  b64_is_finite bits = true ->
  exists c t, write_float shortest bits = c :: t /\ (c = 45 \/ is_digit c = true).

Theorem repr_roundtrip_partial : forall v,
  wf v -> forall fuel rest, (need v <= fuel)%nat -> delim rest ->
  read_expr fuel (write_value is_print shortest v ++ rest) = ROk v rest.
Proof.
  exact (repr_reads_back is_print is_print_not_newline shortest float_text_reads_back float_text_head).
Qed.
End ReprRoundTrip.

(* str of a string is the string itself (library.go str: `case String: return x`),
   whatever the string contains; str of any other value is its repr text. *)
Theorem str_string_identity : forall is_print shortest s,
  str_value is_print shortest (VStr s) = s.
Proof. reflexivity. Qed.

(* str / repr of values with reference cycles terminate: on EVERY heap of
   lists and dicts (any shape: self-loops, longer cycles, sharing) whose dict
   keys are hashable (contain no list or dict), printing any value with as much
   fuel as the heap has objects never runs out of fuel: the cycle path stops
   every cycle.  (Struct cycles are outside this model: known finding.) *)
Theorem write_heap_terminates : forall is_print shortest h x,
  heap_keys_hashable h = true ->
  write_heap is_print shortest (length h) h [] x <> WFuel.
Proof. exact write_heap_terminates_lemma. Qed.

(* Sharing is not a cycle: whenever a heap value unfolds to a tree (no reference
   is met again while it is being unfolded - shared sub-objects are fine), the
   heap printer prints exactly the text of that tree, with no cycle marker; so
   repr_roundtrip_partial applies to it and reading the text back gives the
   unfolded tree. *)
Theorem write_heap_shared_is_tree : forall is_print shortest fuel h path x v,
  unfold fuel h path x = Some v ->
  write_heap is_print shortest fuel h path x = WOk (write_value is_print shortest v).
Proof. exact write_heap_tree_lemma. Qed.

(* Non-vacuity: the hypotheses hold on concrete non-trivial inputs. *)
Definition ascii_print (r : N) : bool := (32 <=? r) && (r <? 127).
Example ascii_print_ok : forall r, ascii_print r = true -> r <> 13 /\ r <> 10.
Proof. intros r H. unfold ascii_print in H. split; intros ->; discriminate. Qed.
(* a, double quote, backslash, LF, e-acute, U+2028, U+1F600 *)
Definition sample : list N := [97; 34; 92; 10; 0xC3; 0xA9; 0xE2; 0x80; 0xA8; 0xF0; 0x9F; 0x98; 0x80].
Example sample_valid : valid_utf8 sample = true.
Proof. reflexivity. Qed.
Example sample_roundtrip : unquote (quote ascii_print sample false) = Ok (sample, false, false).
Proof. vm_compute. reflexivity. Qed.
Example sample_bytes_ok : bytes_ok [0; 255; 0x80; 34; 0xC3].
Proof. repeat constructor. Qed.
Example sample_scalar : is_scalar 0x1F600 = true.
Proof. reflexivity. Qed.
Example no_quote_next_ok : no_quote_next [44; 32; 49].
Proof. intros c l H. inversion H. discriminate. Qed.

(* shared substructure: one list referenced twice by another, no cycle *)
Definition shared_heap : heap := [OList [HLeaf (VInt 1)]; OList [HRef 0; HTuple [HRef 0]]].
Example shared_heap_unfolds :
  unfold 2 shared_heap [] (HRef 1) = Some (VList [VList [VInt 1]; VTuple [VList [VInt 1]]]).
Proof. reflexivity. Qed.

(* a list that contains itself and a dict that contains the list *)
Definition cyc_heap : heap := [OList [HLeaf (VInt 1); HRef 0; HRef 1]; ODict [(HLeaf (VStr [107]), HRef 0)]].
Example cyc_heap_ok : heap_keys_hashable cyc_heap = true.
Proof. reflexivity. Qed.
(* [1, [...], {"k": [...]}] *)
Example cyc_heap_prints :
  write_heap ascii_print (fun _ => (false, [], 0%Z)) (length cyc_heap) cyc_heap [] (HRef 0)
  = WOk [91; 49; 44; 32; 91; 46; 46; 46; 93; 44; 32; 123; 34; 107; 34; 58; 32; 91; 46; 46; 46; 93; 125; 93].
Proof. vm_compute. reflexivity. Qed.

(* the float oracle hypotheses are satisfiable: an oracle that knows 1.5, -0.0 and 1e+21
   (digits as strconv produces them) reads back on those *)
Definition toy_shortest (bits : N) : bool * list N * Z :=
  if bits =? 4609434218613702656 then (false, [1; 5], 1%Z)          (* 1.5 *)
  else if bits =? 9223372036854775808 then (true, [], 0%Z)           (* -0.0 *)
  else (false, [1], 22%Z).                                          (* 1e+21 *)
Example toy_float_reads_back :
  read_expr 1 (write_float toy_shortest 4609434218613702656 ++ [93]) = ROk (VFloat 4609434218613702656) [93]
  /\ read_expr 1 (write_float toy_shortest 9223372036854775808 ++ [44]) = ROk (VFloat 9223372036854775808) [44]
  /\ read_expr 1 (write_float toy_shortest 4921056587992461136 ++ []) = ROk (VFloat 4921056587992461136) [].
Proof. vm_compute. repeat split. Qed.
(* (1, "a\n", [b"\xff", {2: (None,)}], -0.0-free) : a nested value of the universe and its round trip *)
Definition sample_value : value :=
  VTuple [VInt (-12345678901234567890123)%Z; VStr [97; 10]; VList [VBytes [255]; VDict [(VInt 2, VTuple [VNone])]]; VBool true].
Example sample_value_wf : wf sample_value.
Proof. cbn. repeat split; try reflexivity. repeat constructor. Qed.
Example sample_value_roundtrip :
  read_expr (need sample_value) (write_value ascii_print toy_shortest sample_value ++ []) = ROk sample_value [].
Proof. vm_compute. reflexivity. Qed.
Example delim_ok : delim [44; 32].
Proof. cbn. auto. Qed.
Example decode_canonical_premises : utf8_decode [0xE2; 0x82; 0xAC; 65] = (0x20AC, 3%nat) /\ decode_invalid (0x20AC, 3%nat) = false.
Proof. split; reflexivity. Qed.
(* overlong and surrogate forms are reported as errors of width 1 *)
Example decode_rejects : utf8_decode [0xC0; 0x80] = (0xFFFD, 1%nat) /\ utf8_decode [0xED; 0xA0; 0x80] = (0xFFFD, 1%nat)
  /\ utf8_decode [0xF4; 0x90; 0x80; 0x80] = (0xFFFD, 1%nat) /\ utf8_decode [0xE0; 0x9F; 0xBF] = (0xFFFD, 1%nat).
Proof. repeat split. Qed.
(* premises of the bounded theorem: a raw bytes literal with an escaped quote, followed by a quote *)
Example bounded_premises :
  (length [114; 98; 39; 92; 39; 39] <= bound)%nat /\ Forall (fun c => In c alphabet) [114; 98; 39; 92; 39; 39]
  /\ valid_utf8 [114; 98; 39; 92; 39; 39] = true /\ model_scan [114; 98; 39; 92; 39; 39] = SOk true [92; 39] [].
Proof. split; [cbn; auto|]. split; [repeat (constructor; [cbn; tauto|])|]; [constructor|]. split; reflexivity. Qed.
(* premises and conclusion of the unbounded agreement theorem on concrete texts.
   DQ a \n \x41 \101 \0 \u00e9 \U0001F600 \Q \LF e-acute DQ + x   (DQ = double quote):
   simple, hex, octal (3 and 1 digits), 4- and 8-digit Unicode escapes, escaped
   quote, escaped line break, a raw non-ASCII character *)
Definition escapes_text : list N :=
  [34; 97; 92; 110; 92; 120; 52; 49; 92; 49; 48; 49; 92; 48; 92; 117; 48; 48; 101; 57;
   92; 85; 48; 48; 48; 49; 70; 54; 48; 48; 92; 39; 92; 10; 195; 169; 34; 32; 43; 32; 120].
Example agreement_escapes :
  valid_utf8 escapes_text = true
  /\ model_scan escapes_text = SOk false [97; 10; 65; 65; 0; 195; 169; 240; 159; 152; 128; 39; 195; 169] [32; 43; 32; 120]
  /\ spec_scan escapes_text = model_scan escapes_text.
Proof. repeat split; vm_compute; reflexivity. Qed.
(* r b Q Q Q a \ Q b Q Q c CR LF \ x 4 1 Q Q Q [0]   (Q = single quote): a triple-quoted raw
   bytes literal (backslashes kept, CR LF read as LF, two quotes inside the body) *)
Definition raw_bytes_text : list N :=
  [114; 98; 39; 39; 39; 97; 92; 39; 98; 39; 39; 99; 13; 10; 92; 120; 52; 49; 39; 39; 39; 91; 48; 93].
Example agreement_triple_raw_bytes :
  valid_utf8 raw_bytes_text = true
  /\ model_scan raw_bytes_text = SOk true [97; 92; 39; 98; 39; 39; 99; 10; 92; 120; 52; 49] [91; 48; 93]
  /\ spec_scan raw_bytes_text = model_scan raw_bytes_text.
Proof. repeat split; vm_compute; reflexivity. Qed.
(* DQ \ud800 DQ (a surrogate), DQ \400 DQ (octal above 255), Q a LF (line break in a
   single-quoted literal), DQ \x4 DQ (truncated), DQ abc (no closing quote): rejected by both *)
Example agreement_errors :
  Forall (fun src => valid_utf8 src = true /\ model_scan src = SErr /\ spec_scan src = SErr)
    [[34; 92; 117; 100; 56; 48; 48; 34]; [34; 92; 52; 48; 48; 34]; [39; 97; 10]; [34; 92; 120; 52; 34]; [34; 97; 98; 99]].
Proof. repeat constructor. Qed.
(* the hypothesis cannot be dropped: on the ill-formed text DQ 0xFF DQ the scanner writes
   U+FFFD into the token, the specification (whose domain is well-formed UTF-8) keeps the byte *)
Example scan_agreement_needs_wellformed_source :
  valid_utf8 [34; 255; 34] = false
  /\ model_scan [34; 255; 34] = SOk false [0xEF; 0xBF; 0xBD] []
  /\ spec_scan [34; 255; 34] = SOk false [255] [].
Proof. repeat split. Qed.
