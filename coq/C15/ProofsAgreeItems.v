(* Unbounded agreement of scanner+unquote with the specification reader, part 3:
   the two passes of the implementation (scanG finds the closing delimiter,
   unq_loop decodes the text in front of it) composed into `fin`, and the
   induction over the source text showing that the composition equals the
   specification's single pass `s_items` for EVERY well-formed source text
   (mode ex = true: same value and same remaining input), and for EVERY byte
   string whatsoever as far as acceptance and the remaining input go (mode
   ex = false: on ill-formed UTF-8 the scanner writes U+FFFD into the value). *)
From Coq Require Import NArith List Bool Lia ZifyBool ZifyNat ZifyN Arith.
From SV Require Import C15.Utf8 C15.Quote C15.Spec C15.ProofsQuote C15.ProofsScan
  C15.ProofsAgreeScan C15.ProofsAgreeUnq.
Import ListNotations.
Open Scope N_scope.

(* second pass applied to the result of the first *)
Definition fin (tr raw ib : bool) (X : res (list N * list N)) : option (list N * list N) :=
  match X with
  | Err => None
  | Ok (b, r) =>
    match unq_loop ib raw (chop (klen tr) b) with
    | Ok v => Some (v, r)
    | Err => None
    end
  end.

Lemma fin_prepend tr raw ib out v X (P : list N -> Prop) :
  long tr X ->
  (forall b r, X = Ok (b, r) -> P (chop (klen tr) b)) ->
  (forall l, P l -> unq_loop ib raw (out ++ l) = rmap (app v) (unq_loop ib raw l)) ->
  fin tr raw ib (rmap (prepend out) X) = s_emit v (fin tr raw ib X).
Proof.
  intros HL HP HU. destruct X as [[b r]|]; [|reflexivity].
  cbn [rmap fin]. unfold prepend. cbn [fst snd].
  rewrite chop_prepend by (eapply HL; reflexivity).
  rewrite HU by (eapply HP; reflexivity).
  destruct (unq_loop ib raw (chop (klen tr) b)); reflexivity.
Qed.

Lemma fin_err tr raw ib out X (P : list N -> Prop) :
  long tr X ->
  (forall b r, X = Ok (b, r) -> P (chop (klen tr) b)) ->
  (forall l, P l -> unq_loop ib raw (out ++ l) = Err) ->
  fin tr raw ib (rmap (prepend out) X) = None.
Proof.
  intros HL HP HU. destruct X as [[b r]|]; [|reflexivity].
  cbn [rmap fin]. unfold prepend. cbn [fst snd].
  rewrite chop_prepend by (eapply HL; reflexivity).
  rewrite HU by (eapply HP; reflexivity). reflexivity.
Qed.

Lemma fin_prepend0 tr raw ib out v X :
  long tr X ->
  (forall l, unq_loop ib raw (out ++ l) = rmap (app v) (unq_loop ib raw l)) ->
  fin tr raw ib (rmap (prepend out) X) = s_emit v (fin tr raw ib X).
Proof. intros HL HU. apply (fin_prepend tr raw ib out v X (fun _ => True)); auto. Qed.

Lemma fin_err0 tr raw ib out X :
  long tr X -> (forall l, unq_loop ib raw (out ++ l) = Err) ->
  fin tr raw ib (rmap (prepend out) X) = None.
Proof. intros HL HU. apply (fin_err tr raw ib out X (fun _ => True)); auto. Qed.

(* an escape that denotes one byte n (octal, \x) *)
Lemma fin_byte tr ib out n X (P : list N -> Prop) :
  long tr X ->
  (forall b r, X = Ok (b, r) -> P (chop (klen tr) b)) ->
  (forall l, P l -> unq_loop ib false (out ++ l) = oct_finish ib n (unq_loop ib false l)) ->
  fin tr false ib (rmap (prepend out) X) = s_byte_escape ib n (fin tr false ib X).
Proof.
  intros HL HP HU. unfold s_byte_escape.
  destruct ((255 <? n) || (negb ib && (127 <? n))) eqn:C.
  - apply (fin_err tr false ib out X P HL HP). intros l Hl. rewrite HU by exact Hl.
    unfold oct_finish. destruct (negb ib && (127 <? n)) eqn:C1; [reflexivity|].
    assert (C2 : (256 <=? n) = true) by lia. rewrite C2. reflexivity.
  - change (omap (fun p : list N * list N => (n :: fst p, snd p)) (fin tr false ib X))
      with (s_emit [n] (fin tr false ib X)).
    apply (fin_prepend tr false ib out [n] X P HL HP). intros l Hl. rewrite HU by exact Hl.
    unfold oct_finish. assert (C1 : (negb ib && (127 <? n)) = false) by lia.
    assert (C2 : (256 <=? n) = false) by lia. rewrite C1, C2.
    destruct (unq_loop ib false l); reflexivity.
Qed.

(* an escape that denotes a code point n (\u, \U) *)
Lemma fin_cp tr ib out n X (P : list N -> Prop) :
  long tr X ->
  (forall b r, X = Ok (b, r) -> P (chop (klen tr) b)) ->
  (forall l, P l -> unq_loop ib false (out ++ l) = code_point n (unq_loop ib false l)) ->
  fin tr false ib (rmap (prepend out) X) = s_unicode_escape n (fin tr false ib X).
Proof.
  intros HL HP HU. unfold s_unicode_escape.
  destruct (is_scalar n) eqn:C.
  - change (omap (fun p : list N * list N => (utf8_encode n ++ fst p, snd p)) (fin tr false ib X))
      with (s_emit (utf8_encode n) (fin tr false ib X)).
    apply (fin_prepend tr false ib out (utf8_encode n) X P HL HP). intros l Hl. rewrite HU by exact Hl.
    unfold code_point. unfold is_scalar in C.
    assert (C1 : (max_rune <? n) = false) by lia. assert (C2 : is_surrogate n = false) by lia.
    rewrite C1, C2. reflexivity.
  - apply (fin_err tr false ib out X P HL HP). intros l Hl. rewrite HU by exact Hl.
    unfold code_point. unfold is_scalar in C.
    destruct (max_rune <? n) eqn:C1; [reflexivity|].
    assert (C2 : is_surrogate n = true) by lia. rewrite C2. reflexivity.
Qed.

(* ---- the two modes of agreement ------------------------------------------------ *)
Definition rel (ex : bool) (a b : option (list N * list N)) : Prop :=
  if ex then a = b
  else omap (fun p : list N * list N => snd p) a = omap (fun p : list N * list N => snd p) b.
Definition okv (ex : bool) (s : list N) : Prop := if ex then valid_utf8 s = true else True.

Lemma rel_refl ex a : rel ex a a.
Proof. destruct ex; reflexivity. Qed.

Lemma rel_eq ex a b : a = b -> rel ex a b.
Proof. intros ->. apply rel_refl. Qed.

Lemma rel_prepend ex tr raw ib out v v' X K (P : list N -> Prop) :
  long tr X ->
  (forall b r, X = Ok (b, r) -> P (chop (klen tr) b)) ->
  (forall l, P l -> unq_loop ib raw (out ++ l) = rmap (app v') (unq_loop ib raw l)) ->
  (ex = true -> v' = v) ->
  rel ex (fin tr raw ib X) K ->
  rel ex (fin tr raw ib (rmap (prepend out) X)) (s_emit v K).
Proof.
  intros HL HP HU Hv HR. rewrite (fin_prepend tr raw ib out v' X P HL HP HU).
  destruct ex; cbn [rel] in *.
  - rewrite (Hv eq_refl), HR. reflexivity.
  - destruct (fin tr raw ib X) as [[a b]|], K as [[c d]|]; cbn in *; congruence.
Qed.

Lemma rel_prepend0 ex tr raw ib out v X K :
  long tr X ->
  (forall l, unq_loop ib raw (out ++ l) = rmap (app v) (unq_loop ib raw l)) ->
  rel ex (fin tr raw ib X) K ->
  rel ex (fin tr raw ib (rmap (prepend out) X)) (s_emit v K).
Proof. intros HL HU HR. apply (rel_prepend ex tr raw ib out v v X K (fun _ => True)); auto. Qed.

Lemma rel_byte ex tr ib out n X K (P : list N -> Prop) :
  long tr X ->
  (forall b r, X = Ok (b, r) -> P (chop (klen tr) b)) ->
  (forall l, P l -> unq_loop ib false (out ++ l) = oct_finish ib n (unq_loop ib false l)) ->
  rel ex (fin tr false ib X) K ->
  rel ex (fin tr false ib (rmap (prepend out) X)) (s_byte_escape ib n K).
Proof.
  intros HL HP HU HR.
  pose proof (fin_byte tr ib out n X P HL HP HU) as E. rewrite E. clear E.
  unfold s_byte_escape. destruct ((255 <? n) || (negb ib && (127 <? n))); [apply rel_refl|].
  destruct ex; cbn [rel] in *.
  - rewrite HR. reflexivity.
  - destruct (fin tr false ib X) as [[a b]|], K as [[c d]|]; cbn in *; congruence.
Qed.

Lemma rel_cp ex tr ib out n X K (P : list N -> Prop) :
  long tr X ->
  (forall b r, X = Ok (b, r) -> P (chop (klen tr) b)) ->
  (forall l, P l -> unq_loop ib false (out ++ l) = code_point n (unq_loop ib false l)) ->
  rel ex (fin tr false ib X) K ->
  rel ex (fin tr false ib (rmap (prepend out) X)) (s_unicode_escape n K).
Proof.
  intros HL HP HU HR.
  pose proof (fin_cp tr ib out n X P HL HP HU) as E. rewrite E. clear E.
  unfold s_unicode_escape. destruct (is_scalar n); [|apply rel_refl].
  destruct ex; cbn [rel] in *.
  - rewrite HR. reflexivity.
  - destruct (fin tr false ib X) as [[a b]|], K as [[c d]|]; cbn in *; congruence.
Qed.

(* ---- well-formed source ------------------------------------------------------ *)
Lemma valid_ascii_app l t : Forall (fun c => c < 0x80) l -> valid_utf8 (l ++ t) = true -> valid_utf8 t = true.
Proof.
  induction 1 as [|c l Hc Hl IH]; intros H; [exact H|].
  apply IH. eapply valid_ascii_tail; [exact Hc|exact H].
Qed.

Lemma okv_app ex l t : Forall (fun c => c < 0x80) l -> okv ex (l ++ t) -> okv ex t.
Proof. destruct ex; [apply valid_ascii_app|trivial]. Qed.

(* ---- hexadecimal digits in the source and in the token text --------------------- *)
Definition hexchar (h : N) : Prop := (48 <= h <= 57) \/ (65 <= h <= 70) \/ (97 <= h <= 102).

Lemma hexval_class h v : hexval h = Some v -> hexchar h /\ v < 16.
Proof.
  unfold hexval, hexchar. intros H.
  destruct ((48 <=? h) && (h <=? 57)) eqn:A; [inversion H; lia|].
  destruct ((97 <=? h) && (h <=? 102)) eqn:B; [inversion H; lia|].
  destruct ((65 <=? h) && (h <=? 70)) eqn:C; [inversion H; lia|discriminate].
Qed.

Lemma hexval_none x : x = 10 \/ 0x80 <= x -> hexval x = None.
Proof.
  intros H. destruct (hexval x) as [v|] eqn:E; [|reflexivity].
  destruct (hexval_class _ _ E) as [Hc _]. unfold hexchar in Hc. lia.
Qed.

Lemma hexchar_splain q h : (q = 34 \/ q = 39) -> hexchar h -> splain q h.
Proof. unfold hexchar, splain. lia. Qed.

Lemma take_hex_some : forall k acc t1 n t2, take_hex k acc t1 = Some (n, t2) ->
  exists hs, t1 = hs ++ t2 /\ length hs = k /\ Forall hexchar hs /\
             (forall l, take_hex k acc (hs ++ l) = Some (n, l)).
Proof.
  induction k as [|k IH]; intros acc t1 n t2 H.
  - cbn in H. inversion H; subst. exists []. repeat split; auto.
  - cbn [take_hex] in H. destruct t1 as [|h t]; [discriminate|].
    destruct (hexval h) as [v|] eqn:E; [|discriminate].
    destruct (IH _ _ _ _ H) as (hs & E1 & E2 & E3 & E4).
    exists (h :: hs). split; [cbn [app]; now rewrite E1|]. split; [cbn; now rewrite E2|].
    split; [constructor; [apply (hexval_class _ _ E)|exact E3]|].
    intros l. cbn [app take_hex]. rewrite E. apply E4.
Qed.

Lemma take_hex_bound : forall k acc l n l', take_hex k acc l = Some (n, l') -> n < (acc + 1) * 16 ^ N.of_nat k.
Proof.
  induction k as [|k IH]; intros acc l n l' H.
  - cbn in H. inversion H; subst. cbn. lia.
  - cbn [take_hex] in H. destruct l as [|h t]; [discriminate|].
    destruct (hexval h) as [v|] eqn:E; [|discriminate].
    destruct (hexval_class _ _ E) as [_ Hv].
    apply IH in H. rewrite Nat2N.inj_succ, N.pow_succ_r'. nia.
Qed.

Lemma take_hex2_bound l n l' : take_hex 2 0 l = Some (n, l') -> n < 256.
Proof. intros H. apply take_hex_bound in H. exact H. Qed.

Section Body.
Variable tr : bool.
Variable q : N.
Hypothesis Hq : q = 34 \/ q = 39.
Notation G := (scanG tr q 0 false 0).

Lemma take_hex_none_scan : forall k acc t1 b r,
  take_hex k acc t1 = None -> G t1 = Ok (b, r) -> take_hex k acc (chop (klen tr) b) = None.
Proof.
  induction k as [|k IH]; intros acc t1 b r H HG; [discriminate|].
  destruct t1 as [|h t]; [discriminate|].
  cbn [take_hex] in H. destruct (hexval h) as [v|] eqn:E.
  - destruct (hexval_class _ _ E) as [Hc _].
    rewrite (G_plain tr q Hq) in HG by (apply hexchar_splain; assumption).
    destruct (G t) as [[b' r']|] eqn:S; [|discriminate].
    cbn in HG. inversion HG; subst. clear HG. change (h :: b') with ([h] ++ b').
    rewrite chop_prepend by (eapply (scanG_long tr q t 0 false Hq); exact S).
    cbn [app take_hex]. rewrite E. eapply IH; [exact H|exact S].
  - destruct (chop (klen tr) b) as [|x L] eqn:C; [reflexivity|].
    cbn [take_hex].
    destruct (body_head _ _ _ _ _ _ _ Hq HG C) as (c & t0 & Ec & Hx).
    inversion Ec; subst c t0.
    assert (Hn : hexval x = None).
    { destruct Hx as [->|[(_ & ->)|Hx]]; [exact E|reflexivity|apply hexval_none; now right]. }
    rewrite Hn. reflexivity.
Qed.

Lemma nonoct_body d t b r : is_oct d = false -> G (d :: t) = Ok (b, r) -> nonoct (chop (klen tr) b).
Proof.
  intros Hd HG. destruct (chop (klen tr) b) as [|x L] eqn:C; [exact I|]. cbn.
  destruct (body_head _ _ _ _ _ _ _ Hq HG C) as (c & t0 & Ec & Hx).
  inversion Ec; subst c t0.
  destruct Hx as [->|[(_ & ->)|Hx]]; [exact Hd|reflexivity|unfold is_oct; lia].
Qed.

Lemma high_body e t b r : 0x80 <= e -> G (e :: t) = Ok (b, r) ->
  match chop (klen tr) b with [] => True | x :: _ => 0x80 <= x end.
Proof.
  intros He HG. destruct (chop (klen tr) b) as [|x L] eqn:C; [exact I|].
  destruct (body_head _ _ _ _ _ _ _ Hq HG C) as (c & t0 & Ec & Hx).
  inversion Ec; subst c t0. lia.
Qed.
End Body.

(* ---- the induction ---------------------------------------------------------------- *)
Definition IHn (ex tr raw ib : bool) (q : N) (n : nat) : Prop :=
  forall s, (length s <= n)%nat -> okv ex s ->
  rel ex (fin tr raw ib (scanG tr q 0 false 0 s)) (s_items raw ib tr q s).

Ltac vapp Hv l := apply (okv_app _ l); [repeat constructor; lia|exact Hv].

(* numeric escapes of a non-raw literal: the backslash and the escape letter e
   have been scanned *)
Lemma step_hex ex tr ib q n k e t1
  (F : N -> option (list N * list N) -> option (list N * list N))
  (M : N -> res (list N) -> res (list N)) :
  (q = 34 \/ q = 39) -> IHn ex tr false ib q n ->
  e < 0x80 -> (length t1 <= n)%nat -> okv ex t1 -> (0 < k)%nat ->
  (forall l, unq_loop ib false (92 :: e :: l) =
             match take_hex k 0 l with Some (m, l') => M m (unq_loop ib false l') | None => Err end) ->
  (forall m out X K (P : list N -> Prop), (m < 256 \/ k <> 2%nat) ->
     long tr X -> (forall b r, X = Ok (b, r) -> P (chop (klen tr) b)) ->
     (forall l, P l -> unq_loop ib false (out ++ l) = M m (unq_loop ib false l)) ->
     rel ex (fin tr false ib X) K ->
     rel ex (fin tr false ib (rmap (prepend out) X)) (F m K)) ->
  rel ex (fin tr false ib (rmap (prepend [92; e]) (scanG tr q 0 false 0 t1)))
  (match take_hex k 0 t1 with
   | Some (m, t2) => F m (s_items false ib tr q t2)
   | None => None
   end).
Proof.
  intros Hq IH He Hn Hv Hk HU HF.
  destruct (take_hex k 0 t1) as [[m t2]|] eqn:TH.
  - destruct (take_hex_some _ _ _ _ _ TH) as (hs & E1 & E2 & E3 & E4). subst t1.
    assert (Hne : hs <> []) by (intros ->; simpl in E2; lia).
    assert (Hsp : Forall (splain q) hs).
    { eapply Forall_impl; [|exact E3]. intros a Ha. now apply hexchar_splain. }
    rewrite (G_plain_app tr q Hq hs 0 t2 Hne Hsp), rmap_prepend2.
    apply (HF m ([92; e] ++ hs) _ _ (fun _ => True)).
    + destruct (Nat.eq_dec k 2) as [->|Hk2]; [left; eapply take_hex2_bound; exact TH|now right].
    + apply scanG_long; exact Hq.
    + auto.
    + intros l _. rewrite <- app_assoc. cbn [app]. rewrite HU, E4. reflexivity.
    + apply IH.
      * rewrite app_length in Hn. lia.
      * apply (okv_app ex hs); [|exact Hv].
        eapply Forall_impl; [|exact E3]. intros a Ha. unfold hexchar in Ha. lia.
  - apply rel_eq. apply (fin_err tr false ib [92; e] _ (fun l => take_hex k 0 l = None)).
    + apply scanG_long; exact Hq.
    + intros b r HG. eapply take_hex_none_scan; [exact Hq|exact TH|exact HG].
    + intros l Hl. cbn [app]. rewrite HU, Hl. reflexivity.
Qed.

Lemma step_escape ex tr ib q n e t1 :
  (q = 34 \/ q = 39) -> IHn ex tr false ib q n ->
  e < 0x80 -> e <> 10 -> e <> 13 -> (length t1 <= n)%nat -> okv ex t1 ->
  rel ex (fin tr false ib (rmap (prepend [92; e]) (scanG tr q 0 false 0 t1)))
         (s_items false ib tr q (92 :: e :: t1)).
Proof.
  intros Hq IH He H10 H13 Hn Hv.
  pose proof (fun s sk es => scanG_long tr q s sk es Hq) as LONG.
  destruct (s_simple e) as [v|] eqn:SS.
  { rewrite (S_bs_simple ib tr q Hq e v t1 H10 H13 SS).
    apply rel_prepend0; [apply LONG| |apply (IH t1 Hn Hv)]. intros l. cbn [app].
    rewrite (U_simple ib e v l SS H10). destruct (unq_loop ib false l); reflexivity. }
  destruct (s_octal e) eqn:SO.
  { rewrite (S_oct ib tr q Hq e t1 SO).
    assert (He' : is_oct e = true) by exact SO.
    destruct t1 as [|d1 t2]; [apply rel_refl|].
    destruct (s_octal d1) eqn:SO1.
    - assert (Hd1 : is_oct d1 = true) by exact SO1.
      assert (P1 : splain q d1) by (unfold is_oct, splain in *; lia).
      rewrite (G_plain tr q Hq d1 0 t2 P1), rmap_prepend2. cbn [app].
      destruct t2 as [|d2 t3]; [apply rel_refl|].
      assert (V2 : okv ex (d2 :: t3)) by (unfold is_oct in Hd1; vapp Hv [d1]).
      destruct (s_octal d2) eqn:SO2.
      + assert (Hd2 : is_oct d2 = true) by exact SO2.
        assert (P2 : splain q d2) by (unfold is_oct, splain in *; lia).
        rewrite (G_plain tr q Hq d2 0 t3 P2), rmap_prepend2. cbn [app].
        replace (64 * (e - 48) + 8 * (d1 - 48) + (d2 - 48)) with (((e - 48) * 8 + (d1 - 48)) * 8 + (d2 - 48)) by lia.
        apply (rel_byte ex tr ib _ _ _ _ (fun _ => True)); [apply LONG|auto| |].
        * intros l _. cbn [app]. apply U_oct3; assumption.
        * apply IH; [simpl in Hn; lia|unfold is_oct in Hd2; vapp V2 [d2]].
      + replace (8 * (e - 48) + (d1 - 48)) with ((e - 48) * 8 + (d1 - 48)) by lia.
        apply (rel_byte ex tr ib _ _ _ _ nonoct); [apply LONG| | |].
        * intros b r HG. eapply nonoct_body; [exact Hq| |exact HG]. exact SO2.
        * intros l Hl. cbn [app]. apply U_oct2; assumption.
        * apply IH; [simpl in Hn |- *; lia|exact V2].
    - apply (rel_byte ex tr ib _ _ _ _ nonoct); [apply LONG| | |].
      + intros b r HG. eapply nonoct_body; [exact Hq| |exact HG]. exact SO1.
      + intros l Hl. cbn [app]. apply U_oct1; assumption.
      + apply (IH (d1 :: t2) Hn Hv). }
  destruct (e =? 120) eqn:E120.
  { assert (e = 120) by lia. subst e. rewrite (S_x ib tr q Hq t1).
    apply (step_hex ex tr ib q n 2 120 t1 (s_byte_escape ib)
             (fun m k => if negb ib && (127 <? m) then Err else rmap (cons m) k)); auto; try lia.
    - intros l. rewrite U_x. reflexivity.
    - intros m out X K P Hm HL HP HU HR. apply (rel_byte ex tr ib out m X K P HL HP); [|exact HR].
      intros l Hl. rewrite HU by exact Hl. unfold oct_finish.
      destruct (negb ib && (127 <? m)); [reflexivity|].
      assert (C : (256 <=? m) = false) by lia. rewrite C. reflexivity. }
  destruct (e =? 117) eqn:E117.
  { assert (e = 117) by lia. subst e. rewrite (S_u ib tr q Hq t1).
    apply (step_hex ex tr ib q n 4 117 t1 s_unicode_escape code_point); auto; try lia.
    - intros l. rewrite U_u. reflexivity.
    - intros m out X K P _ HL HP HU HR. apply (rel_cp ex tr ib out m X K P HL HP HU HR). }
  destruct (e =? 85) eqn:E85.
  { assert (e = 85) by lia. subst e. rewrite (S_U ib tr q Hq t1).
    apply (step_hex ex tr ib q n 8 85 t1 s_unicode_escape code_point); auto; try lia.
    - intros l. rewrite U_U. reflexivity.
    - intros m out X K P _ HL HP HU HR. apply (rel_cp ex tr ib out m X K P HL HP HU HR). }
  rewrite (S_bs_bad ib tr q Hq e t1) by (auto; lia).
  apply rel_eq. apply fin_err0; [apply LONG|]. intros l. cbn [app]. apply U_bad; auto; lia.
Qed.

(* a backslash (any mode) *)
Lemma step_bs ex tr raw ib q n t :
  (q = 34 \/ q = 39) -> IHn ex tr raw ib q n ->
  (length t <= n)%nat -> okv ex t ->
  rel ex (fin tr raw ib (scanG tr q 0 false 0 (92 :: t))) (s_items raw ib tr q (92 :: t)).
Proof.
  intros Hq IH Hn Hv.
  pose proof (fun s sk es => scanG_long tr q s sk es Hq) as LONG.
  rewrite (G_bs tr q Hq).
  destruct t as [|e t1]; [rewrite (S_bs_nil raw ib tr q Hq); apply rel_refl|].
  (* the two-byte text "\ LF" : kept by raw literals, dropped by the others *)
  assert (NL : forall t', (length t' <= n)%nat -> okv ex t' ->
            rel ex (fin tr raw ib (rmap (prepend [92; 10]) (scanG tr q 0 false 0 t')))
            (if raw then s_emit [92; 10] (s_items raw ib tr q t') else s_items raw ib tr q t')).
  { intros t' Hn' Hv'. pose proof (IH t' Hn' Hv') as IHt. destruct raw.
    - apply rel_prepend0; [apply LONG| |exact IHt]. intros l.
      apply (U_copy_app ib true [92; 10] l). repeat constructor; try lia; now right.
    - rewrite <- (s_emit_nil (s_items false ib tr q t')).
      apply rel_prepend0; [apply LONG| |exact IHt]. intros l. cbn [app]. rewrite U_bs_nl.
      destruct (unq_loop ib false l); reflexivity. }
  destruct (e =? 10) eqn:E10.
  { assert (e = 10) by lia. subst e.
    rewrite (G_esc_ascii tr q Hq 10 t1) by lia. rewrite rmap_prepend2. cbn [app].
    rewrite (S_bs_nl raw ib tr q Hq). apply NL; [simpl in Hn; lia|vapp Hv [10]]. }
  destruct (e =? 13) eqn:E13.
  { assert (e = 13) by lia. subst e.
    destruct t1 as [|n' t2].
    - rewrite (G_esc_cr tr q Hq []) by (intros t'; discriminate).
      rewrite (S_bs_cr_nil raw ib tr q Hq). apply rel_refl.
    - destruct (n' =? 10) eqn:N10.
      + assert (n' = 10) by lia. subst n'. rewrite (G_esc_cr_lf tr q Hq), rmap_prepend2. cbn [app].
        rewrite (S_bs_cr_lf raw ib tr q Hq). apply NL; [simpl in Hn; lia|vapp Hv [13; 10]].
      + rewrite (G_esc_cr tr q Hq (n' :: t2)) by (intros t' Ht'; inversion Ht'; lia).
        rewrite rmap_prepend2. cbn [app].
        rewrite (S_bs_cr raw ib tr q Hq n' t2) by lia. apply NL; [simpl in Hn |- *; lia|vapp Hv [13]]. }
  destruct (e <? 0x80) eqn:EA.
  - assert (V1 : okv ex t1) by (vapp Hv [e]).
    rewrite (G_esc_ascii tr q Hq e t1) by lia. rewrite rmap_prepend2. cbn [app].
    destruct raw.
    + rewrite (S_bs_raw ib tr q Hq e t1) by lia.
      apply rel_prepend0; [apply LONG| |apply IH; [simpl in Hn; lia|exact V1]]. intros l.
      apply (U_copy_app ib true [92; e] l). repeat constructor; try lia; now right.
    + apply (step_escape ex tr ib q n e t1); auto; try lia. simpl in Hn; lia.
  - rewrite (G_esc_high tr q Hq e t1) by lia.
    destruct raw.
    + rewrite (S_bs_raw ib tr q Hq e t1) by lia.
      change [92; e] with ([92] ++ [e]). rewrite <- s_emit_emit.
      rewrite <- (S_plain true ib tr q Hq e t1) by lia.
      apply rel_prepend0; [apply LONG| |apply (IH (e :: t1) Hn Hv)]. intros l.
      apply (U_copy_app ib true [92] l). repeat constructor; try lia; now right.
    + rewrite (S_bs_bad ib tr q Hq e t1); try lia.
      * apply rel_eq.
        apply (fin_err tr false ib [92] _ (fun l => match l with [] => True | x :: _ => 0x80 <= x end)).
        -- apply LONG.
        -- intros b r HG. eapply high_body; [exact Hq| |exact HG]. lia.
        -- intros l Hl. cbn [app]. apply U_bs_high. exact Hl.
      * unfold s_simple.
        repeat match goal with |- context [if ?c then _ else _] => let E := fresh in destruct c eqn:E; [lia|] end.
        reflexivity.
      * unfold s_octal. lia.
Qed.

(* the closing delimiter, or a quote inside a triple-quoted literal *)
Lemma step_quote ex tr raw ib q n t :
  (q = 34 \/ q = 39) -> IHn ex tr raw ib q n ->
  (length t <= n)%nat -> okv ex t ->
  rel ex (fin tr raw ib (scanG tr q 0 false 0 (q :: t))) (s_items raw ib tr q (q :: t)).
Proof.
  intros Hq IH Hn Hv.
  pose proof (fun s sk es => scanG_long tr q s sk es Hq) as LONG.
  assert (UQ : forall out l, Forall (fun c => c = q) out -> unq_loop ib raw (out ++ l) = rmap (app out) (unq_loop ib raw l)).
  { intros out l Ho. apply U_copy_app. eapply Forall_impl; [|exact Ho]. intros a ->. split; [lia|left; lia]. }
  rewrite (G_quote tr q Hq). destruct tr; cbn [negb orb].
  2:{ rewrite (S_close1 raw ib q Hq). apply rel_refl. }
  change (0 =? 2) with false. cbv iota.
  destruct t as [|c2 t2].
  { rewrite (S_open3 raw ib q Hq) by (intros t'; discriminate). apply rel_refl. }
  destruct (c2 =? q) eqn:C2.
  2:{ rewrite (G_count true q Hq) by (intros t' Ht'; inversion Ht'; lia).
      rewrite (S_open3 raw ib q Hq) by (intros t' Ht'; inversion Ht'; lia).
      apply rel_prepend0; [apply LONG| |apply (IH (c2 :: t2) Hn Hv)].
      intros l. apply UQ. repeat constructor. }
  assert (c2 = q) by lia. subst c2.
  assert (V2 : okv ex t2) by (vapp Hv [q]).
  rewrite (G_quote true q Hq). cbn [negb orb]. change (0 + 1 =? 2) with false. cbv iota.
  rewrite rmap_prepend2. cbn [app].
  destruct t2 as [|c3 t3].
  { rewrite (S_open3 raw ib q Hq) by (intros t'; discriminate).
    rewrite (S_open3 raw ib q Hq) by (intros t'; discriminate). apply rel_refl. }
  destruct (c3 =? q) eqn:C3.
  { assert (c3 = q) by lia. subst c3. rewrite (G_quote true q Hq). cbn [negb orb].
    change (0 + 1 + 1 =? 2) with true. cbv iota. rewrite (S_close3 raw ib q Hq). apply rel_refl. }
  rewrite (G_count true q Hq) by (intros t' Ht'; inversion Ht'; lia).
  rewrite (S_open3 raw ib q Hq) by (intros t' Ht'; inversion Ht'; lia).
  rewrite (S_open3 raw ib q Hq) by (intros t' Ht'; inversion Ht'; lia).
  rewrite s_emit_emit. cbn [app].
  apply rel_prepend0; [apply LONG| |apply IH; [simpl in Hn |- *; lia|exact V2]].
  intros l. apply UQ. repeat constructor.
Qed.

Theorem items_agree_rel ex tr raw ib q : (q = 34 \/ q = 39) -> forall n, IHn ex tr raw ib q n.
Proof.
  intros Hq. induction n as [|n IH]; intros s Hn Hv.
  { destruct s; [apply rel_refl|simpl in Hn; lia]. }
  destruct s as [|c t]; [apply rel_refl|].
  pose proof (fun s sk es => scanG_long tr q s sk es Hq) as LONG.
  assert (Hn' : (length t <= n)%nat) by (simpl in Hn; lia).
  destruct (c <? 0x80) eqn:CA.
  2:{ (* a non-ASCII byte *)
    assert (UH : forall hs l, Forall (fun b => 0x80 <= b) hs ->
                 unq_loop ib raw (hs ++ l) = rmap (app hs) (unq_loop ib raw l)).
    { intros hs l Hh. apply U_copy_app. eapply Forall_impl; [|exact Hh].
      intros a Ha. cbv beta in Ha. split; [lia|left; lia]. }
    destruct ex.
    - (* well-formed source: the encoding of one scalar value *)
      destruct (valid_high_split c t ltac:(lia) Hv) as (r & rest & E & Hr & Hs & Vr & Lr).
      rewrite E. rewrite (G_rune tr q r 0 rest Hq Hs Hr).
      pose proof (utf8_encode_high r Hr) as Hh.
      rewrite (S_plain_app raw ib tr q Hq) by (eapply Forall_impl; [|exact Hh]; intros a Ha; cbv beta in Ha; lia).
      apply rel_prepend0; [apply LONG| |apply IH; [simpl in Lr; lia|exact Vr]].
      intros l. apply UH. exact Hh.
    - (* any source: the scanner consumes w bytes, all >= 0x80, and writes a rune >= 0x80 *)
      destruct (G_high_any tr q 0 c t Hq ltac:(lia)) as (r & w & Hr & Fh & Lw & EG).
      rewrite EG.
      rewrite <- (firstn_skipn (w - 1) t) at 2.
      change (c :: firstn (w - 1) t ++ skipn (w - 1) t) with ((c :: firstn (w - 1) t) ++ skipn (w - 1) t).
      rewrite (S_plain_app raw ib tr q Hq).
      2:{ constructor; [lia|]. eapply Forall_impl; [|exact Fh]. intros a Ha. cbv beta in Ha. lia. }
      apply (rel_prepend false tr raw ib _ _ (utf8_encode r) _ _ (fun _ => True)); [apply LONG|auto| |discriminate|].
      + intros l _. apply UH. apply utf8_encode_high. exact Hr.
      + apply IH; [rewrite skipn_length; lia|exact I]. }
  assert (Vt : okv ex t) by (vapp Hv [c]).
  destruct (c =? q) eqn:CQ.
  { assert (c = q) by lia. subst c. apply (step_quote ex tr raw ib q n t Hq IH Hn' Vt). }
  destruct (c =? 92) eqn:CB.
  { assert (c = 92) by lia. subst c. apply (step_bs ex tr raw ib q n t Hq IH Hn' Vt). }
  destruct (c =? 10) eqn:CN.
  { assert (c = 10) by lia. subst c. rewrite (S_nl raw ib tr q Hq). destruct tr.
    - rewrite (G_nl3 q Hq). apply rel_prepend0; [apply LONG| |apply (IH t Hn' Vt)].
      intros l. apply (U_copy_app ib raw [10] l). repeat constructor; lia.
    - rewrite (G_nl1 q Hq). apply rel_refl. }
  destruct (c =? 13) eqn:CC.
  { assert (c = 13) by lia. subst c. destruct tr.
    2:{ rewrite (G_cr1 q Hq), (S_cr1 raw ib q Hq). apply rel_refl. }
    assert (U10 : forall l, unq_loop ib raw ([10] ++ l) = rmap (app [10]) (unq_loop ib raw l)).
    { intros l. apply (U_copy_app ib raw [10] l). repeat constructor; lia. }
    destruct t as [|n' t'].
    - rewrite (G_cr3 q Hq) by (intros t'; discriminate). rewrite (S_cr_nil3 raw ib q Hq). apply rel_refl.
    - destruct (n' =? 10) eqn:N10.
      + assert (n' = 10) by lia. subst n'. rewrite (G_cr_lf3 q Hq), (S_cr_lf3 raw ib q Hq).
        apply rel_prepend0; [apply LONG|exact U10|apply IH; [simpl in Hn'; lia|vapp Vt [10]]].
      + rewrite (G_cr3 q Hq) by (intros t0 Ht0; inversion Ht0; lia).
        rewrite (S_cr3 raw ib q Hq) by lia.
        apply rel_prepend0; [apply LONG|exact U10|apply (IH (n' :: t') Hn' Vt)]. }
  (* an ordinary ASCII character *)
  rewrite (G_plain tr q Hq c 0 t) by (unfold splain; lia).
  rewrite (S_plain raw ib tr q Hq c t) by lia.
  apply rel_prepend0; [apply LONG| |apply (IH t Hn' Vt)].
  intros l. apply (U_copy_app ib raw [c] l). repeat constructor; lia.
Qed.

(* well-formed source: same value, same remaining input *)
Theorem items_agree tr raw ib q s : (q = 34 \/ q = 39) -> valid_utf8 s = true ->
  fin tr raw ib (scanG tr q 0 false 0 s) = s_items raw ib tr q s.
Proof. intros Hq Hv. exact (items_agree_rel true tr raw ib q Hq (length s) s (le_n _) Hv). Qed.

(* any source: accepted by both or by neither, same remaining input *)
Theorem items_agree_extent tr raw ib q s : (q = 34 \/ q = 39) ->
  omap (fun p : list N * list N => snd p) (fin tr raw ib (scanG tr q 0 false 0 s))
  = omap (fun p : list N * list N => snd p) (s_items raw ib tr q s).
Proof. intros Hq. exact (items_agree_rel false tr raw ib q Hq (length s) s (le_n _) I). Qed.
