(* Model of the value printer (starlark/value.go writeValue, Int.String,
   Float.format, String/Bytes.String = syntax.Quote) on tree-shaped values and
   on heaps with cycles, and of reading a printed value back (scanner + parser +
   evaluator restricted to the literal / display / unary-minus fragment that
   the printer produces).  No proofs here. *)
From Coq Require Import NArith ZArith List Bool.
From SV Require Import C15.Utf8 C15.Float C15.Quote.
Import ListNotations.
Open Scope N_scope.

Inductive value :=
| VNone
| VBool (b : bool)
| VInt (z : Z)
| VFloat (bits : N)               (* IEEE-754 binary64 bit pattern *)
| VStr (s : list N)
| VBytes (s : list N)
| VList (l : list value)
| VTuple (l : list value)
| VDict (l : list (value * value)).

(* ---- integers: strconv.FormatInt / big.Int.Text(10) ------------------------ *)
Fixpoint dec_digits (fuel : nat) (n : N) : list N :=
  match fuel with
  | O => []
  | S f => if n <? 10 then [48 + n] else dec_digits f (n / 10) ++ [48 + n mod 10]
  end.
(* a number has at most as many decimal digits as binary digits *)
Definition dec_of_N (n : N) : list N := dec_digits (S (N.to_nat (N.log2 n))) n.
Definition dec_of_Z (z : Z) : list N :=
  if (z <? 0)%Z then 45 :: dec_of_N (Z.to_N (- z)) else dec_of_N (Z.to_N z).

Section Printer.
Variable is_print : N -> bool.
(* strconv's shortest round-trip digits of a finite float: (negative, digit
   values, decimal point position).  Named oracle. *)
Variable shortest : N -> bool * list N * Z.

Definition write_float (bits : N) : list N :=
  if b64_is_finite bits then
    let '(neg, ds, dp) := shortest bits in fmt_g neg ds dp
  else if (bits mod 4503599627370496 =? 0) then
    (if b64_neg bits then [45; 105; 110; 102] else [43; 105; 110; 102])   (* -inf +inf *)
  else [110; 97; 110].                                                  (* nan *)

Definition sep : list N := [44; 32].          (* comma space *)

Fixpoint write_value (v : value) : list N :=
  match v with
  | VNone => [78; 111; 110; 101]
  | VBool true => [84; 114; 117; 101]
  | VBool false => [70; 97; 108; 115; 101]
  | VInt z => dec_of_Z z
  | VFloat b => write_float b
  | VStr s => quote is_print s false
  | VBytes s => quote is_print s true
  | VList l =>
    [91] ++ (fix go (l : list value) : list N :=
               match l with
               | [] => []
               | x :: t => write_value x ++ match t with [] => [] | _ => sep ++ go t end
               end) l ++ [93]
  | VTuple l =>
    [40] ++ (fix go (l : list value) : list N :=
               match l with
               | [] => []
               | x :: t => write_value x ++ match t with [] => [] | _ => sep ++ go t end
               end) l
         ++ (match l with [_] => [44] | _ => [] end) ++ [41]
  | VDict l =>
    [123] ++ (fix go (l : list (value * value)) : list N :=
                match l with
                | [] => []
                | (k, x) :: t => write_value k ++ [58; 32] ++ write_value x
                                 ++ match t with [] => [] | _ => sep ++ go t end
                end) l ++ [125]
  end.

(* library.go str(x): a string is returned as is; bytes are transcoded UTF-8 to
   UTF-8 (each ill-formed byte becomes U+FFFD); anything else is printed *)
Fixpoint transcode (skip : nat) (s : list N) : list N :=
  match s with
  | [] => []
  | _ :: t =>
    match skip with
    | S k => transcode k t
    | O => let '(r, w) := utf8_decode s in utf8_encode r ++ transcode (w - 1) t
    end
  end.
Definition str_value (v : value) : list N :=
  match v with
  | VStr s => s
  | VBytes s => if valid_utf8 s then s else transcode 0 s
  | _ => write_value v
  end.

(* ---- heaps: lists and dicts are references, so values can be cyclic --------- *)
Inductive hval :=
| HLeaf (v : value)                        (* None, bool, int, float, string, bytes *)
| HTuple (l : list hval)
| HRef (loc : nat).                        (* a *List or *Dict *)
Inductive hobj :=
| OList (l : list hval)
| ODict (l : list (hval * hval)).
Definition heap := list hobj.              (* location = index *)

Inductive wres := WOk (out : list N) | WFuel | WDangling.

Definition wbind (a : wres) (f : list N -> wres) : wres :=
  match a with WOk x => f x | WFuel => WFuel | WDangling => WDangling end.

(* writeValue with its path argument.  Fuel is consumed only when a reference
   is followed.  The path holds the lists and dicts being printed. *)
Fixpoint write_heap (fuel : nat) (h : heap) {struct fuel} : list nat -> hval -> wres :=
  fix wv (path : list nat) (x : hval) {struct x} : wres :=
  match x with
  | HLeaf v => WOk (write_value v)
  | HTuple l =>
    wbind ((fix go (l : list hval) : wres :=
              match l with
              | [] => WOk []
              | y :: t => wbind (wv path y) (fun a =>
                          match t with
                          | [] => WOk a
                          | _ => wbind (go t) (fun b => WOk (a ++ sep ++ b))
                          end)
              end) l)
          (fun body => WOk ([40] ++ body ++ (match l with [_] => [44] | _ => [] end) ++ [41]))
  | HRef loc =>
    match nth_error h loc with
    | None => WDangling
    | Some (OList l) =>
      if existsb (Nat.eqb loc) path then WOk [91; 46; 46; 46; 93]            (* [...] *)
      else match fuel with
      | O => WFuel
      | S f =>
        wbind ((fix go (l : list hval) : wres :=
                  match l with
                  | [] => WOk []
                  | y :: t => wbind (write_heap f h (path ++ [loc]) y) (fun a =>
                              match t with
                              | [] => WOk a
                              | _ => wbind (go t) (fun b => WOk (a ++ sep ++ b))
                              end)
                  end) l)
              (fun body => WOk ([91] ++ body ++ [93]))
      end
    | Some (ODict l) =>
      if existsb (Nat.eqb loc) path then WOk [123; 46; 46; 46; 125]          (* {...} *)
      else match fuel with
      | O => WFuel
      | S f =>
        wbind ((fix go (l : list (hval * hval)) : wres :=
                  match l with
                  | [] => WOk []
                  | (k, y) :: t =>
                    wbind (write_heap f h path k) (fun a =>              (* keys: path without d *)
                    wbind (write_heap f h (path ++ [loc]) y) (fun b =>
                    match t with
                    | [] => WOk (a ++ [58; 32] ++ b)
                    | _ => wbind (go t) (fun c => WOk (a ++ [58; 32] ++ b ++ sep ++ c))
                    end))
                  end) l)
              (fun body => WOk ([123] ++ body ++ [125]))
      end
    end
  end.
End Printer.

(* The tree a heap value unfolds to when no reference is reached again while it
   is being unfolded (sharing is fine, a cycle gives None).  Mirrors write_heap. *)
Fixpoint unfold (fuel : nat) (h : heap) {struct fuel} : list nat -> hval -> option value :=
  fix uv (path : list nat) (x : hval) {struct x} : option value :=
  match x with
  | HLeaf v => Some v
  | HTuple l =>
    option_map VTuple
      ((fix go (l : list hval) : option (list value) :=
          match l with
          | [] => Some []
          | y :: t => match uv path y, go t with Some a, Some b => Some (a :: b) | _, _ => None end
          end) l)
  | HRef loc =>
    match nth_error h loc with
    | None => None
    | Some (OList l) =>
      if existsb (Nat.eqb loc) path then None
      else match fuel with
      | O => None
      | S f =>
        option_map VList
          ((fix go (l : list hval) : option (list value) :=
              match l with
              | [] => Some []
              | y :: t => match unfold f h (path ++ [loc]) y, go t with Some a, Some b => Some (a :: b) | _, _ => None end
              end) l)
      end
    | Some (ODict l) =>
      if existsb (Nat.eqb loc) path then None
      else match fuel with
      | O => None
      | S f =>
        option_map VDict
          ((fix go (l : list (hval * hval)) : option (list (value * value)) :=
              match l with
              | [] => Some []
              | (k, y) :: t =>
                match unfold f h path k, unfold f h (path ++ [loc]) y, go t with
                | Some a, Some b, Some c => Some ((a, b) :: c)
                | _, _, _ => None
                end
              end) l)
      end
    end
  end.

(* ---- reading a printed value back ------------------------------------------- *)
Inductive rres := ROk (v : value) (rest : list N) | RErr | RFuel.
Inductive ires := IOk (l : list value) (comma : bool) (rest : list N) | IErr | IFuel.
Inductive eres := EOk (l : list (value * value)) (rest : list N) | EErr | EFuel.

Fixpoint skip_ws (s : list N) : list N :=
  match s with c :: t => if c =? 32 then skip_ws t else s | [] => [] end.

Definition is_digit (c : N) : bool := (48 <=? c) && (c <=? 57).

Fixpoint span_digits (s : list N) : list N * list N :=
  match s with
  | c :: t => if is_digit c then let '(d, r) := span_digits t in (c :: d, r) else ([], s)
  | [] => ([], [])
  end.

Fixpoint digits_val (acc : N) (ds : list N) : N :=
  match ds with [] => acc | c :: t => digits_val (10 * acc + (c - 48)) t end.

Definition starts_with (p s : list N) : option (list N) :=
  if bytes_eqb p (firstn (length p) s) then Some (skipn (length p) s) else None.

(* int and float tokens (decimal forms only: the printer emits no other) after
   an optional unary minus; evaluates the token *)
Definition read_number (neg : bool) (s : list N) : rres :=
  let '(ip, r1) := span_digits s in
  let exponent (r : list N) : option (Z * list N) :=      (* [eE][+-]?digits *)
    match r with
    | c :: t =>
      if (c =? 101) || (c =? 69) then
        let '(sg, t') := match t with
                         | c2 :: t2 => if c2 =? 45 then (true, t2) else if c2 =? 43 then (false, t2) else (false, t)
                         | [] => (false, t)
                         end in
        let '(ed, r') := span_digits t' in
        match ed with
        | [] => None
        | _ => Some (if sg then (- Z.of_N (digits_val 0 ed))%Z else Z.of_N (digits_val 0 ed), r')
        end
      else Some (0%Z, r)
    | [] => Some (0%Z, r)
    end in
  let is_exp (r : list N) := match r with c :: _ => (c =? 101) || (c =? 69) | [] => false end in
  let mk_float (mant : list N) (fraclen : nat) (r : list N) : rres :=
    match exponent r with
    | None => RErr
    | Some (e, r') =>
      match dec_to_b64 neg (digits_val 0 mant) (e - Z.of_nat fraclen)%Z with
      | Some bits => ROk (VFloat bits) r'
      | None => RErr                                       (* literal too large *)
      end
    end in
  let no_fraction : rres :=
    match ip with
    | [] => RErr
    | d0 :: more =>
      if is_exp r1 then mk_float ip 0%nat r1
      else if (d0 =? 48) && negb (match more with [] => true | _ => false end) then RErr
      else ROk (VInt (if neg then (- Z.of_N (digits_val 0 ip))%Z else Z.of_N (digits_val 0 ip))) r1
    end in
  match r1 with
  | c :: t =>
    if c =? 46 then                                          (* '.' *)
      let '(fp, r2) := span_digits t in
      match ip, fp with
      | [], [] => RErr
      | _, _ => mk_float (ip ++ fp) (length fp) r2
      end
    else no_fraction
  | [] => no_fraction
  end.

Definition is_key_ok (v : value) : bool :=
  match v with VList _ | VDict _ => false | _ => true end.

Fixpoint assoc_has (eqb : value -> value -> bool) (k : value) (l : list (value * value)) : bool :=
  match l with [] => false | (k', _) :: t => eqb k k' || assoc_has eqb k t end.

Fixpoint read_expr (fuel : nat) (s : list N) : rres :=
  match fuel with
  | O => RFuel
  | S f =>
    match skip_ws s with
    | [] => RErr
    | c :: t =>
      if c =? 78 then match starts_with [78; 111; 110; 101] (c :: t) with Some r => ROk VNone r | None => RErr end
      else if c =? 84 then match starts_with [84; 114; 117; 101] (c :: t) with Some r => ROk (VBool true) r | None => RErr end
      else if c =? 70 then match starts_with [70; 97; 108; 115; 101] (c :: t) with Some r => ROk (VBool false) r | None => RErr end
      else if c =? 45 then read_number true t
      else if is_digit c || (c =? 46) then read_number false (c :: t)
      else if c =? 91 then
        match read_items f 93 (skip_ws t) with
        | IOk l _ r => ROk (VList l) r | IErr => RErr | IFuel => RFuel
        end
      else if c =? 40 then
        match read_items f 41 (skip_ws t) with
        | IOk [x] false r => ROk x r                      (* parenthesised expression *)
        | IOk l _ r => ROk (VTuple l) r
        | IErr => RErr | IFuel => RFuel
        end
      else if c =? 123 then
        match read_entries f (skip_ws t) with
        | EOk l r => ROk (VDict l) r | EErr => RErr | EFuel => RFuel
        end
      else
        match scan_literal (c :: t) with
        | Ok (TString, v, r) => ROk (VStr v) r
        | Ok (TBytes, v, r) => ROk (VBytes v) r
        | Err => RErr
        end
    end
  end
with read_items (fuel : nat) (close : N) (s : list N) : ires :=
  match fuel with
  | O => IFuel
  | S f =>
    match s with
    | [] => IErr
    | c :: t =>
      if c =? close then IOk [] false t
      else match read_expr f s with
      | ROk v r1 =>
        match skip_ws r1 with
        | c1 :: t1 =>
          if c1 =? 44 then
            match read_items f close (skip_ws t1) with
            | IOk l _ r2 => IOk (v :: l) true r2
            | IErr => IErr | IFuel => IFuel
            end
          else if c1 =? close then IOk [v] false t1
          else IErr
        | [] => IErr
        end
      | RErr => IErr | RFuel => IFuel
      end
    end
  end
with read_entries (fuel : nat) (s : list N) : eres :=
  match fuel with
  | O => EFuel
  | S f =>
    match s with
    | [] => EErr
    | c :: t =>
      if c =? 125 then EOk [] t
      else match read_expr f s with
      | ROk k r1 =>
        match skip_ws r1 with
        | c1 :: t1 =>
          if c1 =? 58 then
            match read_expr f t1 with
            | ROk v r2 =>
              match skip_ws r2 with
              | c2 :: t2 =>
                if c2 =? 44 then
                  match read_entries f (skip_ws t2) with
                  | EOk l r3 => EOk ((k, v) :: l) r3
                  | EErr => EErr | EFuel => EFuel
                  end
                else if c2 =? 125 then EOk [(k, v)] t2
                else EErr
              | [] => EErr
              end
            | RErr => EErr | RFuel => EFuel
            end
          else EErr
        | [] => EErr
        end
      | RErr => EErr | RFuel => EFuel
      end
    end
  end.

(* structural equality of values *)
Fixpoint value_eqb (a b : value) : bool :=
  match a, b with
  | VNone, VNone => true
  | VBool x, VBool y => Bool.eqb x y
  | VInt x, VInt y => (x =? y)%Z
  | VFloat x, VFloat y => x =? y
  | VStr x, VStr y => bytes_eqb x y
  | VBytes x, VBytes y => bytes_eqb x y
  | VList x, VList y =>
    (fix go (x y : list value) : bool :=
       match x, y with [], [] => true | p :: x', q :: y' => value_eqb p q && go x' y' | _, _ => false end) x y
  | VTuple x, VTuple y =>
    (fix go (x y : list value) : bool :=
       match x, y with [], [] => true | p :: x', q :: y' => value_eqb p q && go x' y' | _, _ => false end) x y
  | VDict x, VDict y =>
    (fix go (x y : list (value * value)) : bool :=
       match x, y with
       | [], [] => true
       | (k, p) :: x', (k', q) :: y' => value_eqb k k' && value_eqb p q && go x' y'
       | _, _ => false
       end) x y
  | _, _ => false
  end.
