(* str/repr of cyclic values terminates: write_heap never runs out of fuel when
   given as much fuel as the heap has objects. *)
From Coq Require Import NArith ZArith List Bool Lia Arith Permutation.
From SV Require Import C15.Utf8 C15.Float C15.Quote C15.Value.
Import ListNotations.
Open Scope nat_scope.

(* induction principle for the nested type hval *)
Section HvalInd.
Variable P : hval -> Prop.
Hypothesis Hleaf : forall v, P (HLeaf v).
Hypothesis Href : forall loc, P (HRef loc).
Hypothesis Htuple : forall l, Forall P l -> P (HTuple l).
Fixpoint hval_ind2 (x : hval) : P x :=
  match x with
  | HLeaf v => Hleaf v
  | HRef loc => Href loc
  | HTuple l =>
    Htuple l ((fix go (l : list hval) : Forall P l :=
                 match l with
                 | [] => Forall_nil P
                 | y :: t => Forall_cons y (hval_ind2 y) (go t)
                 end) l)
  end.
End HvalInd.

(* dict keys are hashable: they contain no reference to a list or dict *)
Fixpoint no_ref (x : hval) : bool :=
  match x with
  | HLeaf _ => true
  | HRef _ => false
  | HTuple l => forallb no_ref l
  end.
Definition obj_keys_ok (o : hobj) : bool :=
  match o with
  | OList _ => true
  | ODict l => forallb (fun kv => no_ref (fst kv)) l
  end.
Definition heap_keys_hashable (h : heap) : bool := forallb obj_keys_ok h.

Definition not_fuel (r : wres) : Prop := r <> WFuel.

Lemma wbind_not_fuel a f : not_fuel a -> (forall x, not_fuel (f x)) -> not_fuel (wbind a f).
Proof. intros Ha Hf. destruct a; cbn; auto. Qed.

Section WithOracles.
Variable is_print : N -> bool.
Variable shortest : N -> bool * list N * Z.
Notation write_heap := (write_heap is_print shortest).

(* the element loop of a list / tuple *)
Lemma go_list_not_fuel (w : hval -> wres) (l : list hval) :
  Forall (fun y => not_fuel (w y)) l ->
  not_fuel ((fix go (l : list hval) : wres :=
               match l with
               | [] => WOk []
               | y :: t => wbind (w y) (fun a =>
                           match t with
                           | [] => WOk a
                           | _ => wbind (go t) (fun b => WOk (a ++ sep ++ b))
                           end)
               end) l).
Proof.
  induction 1 as [|y t Hy Ht IH]; [discriminate|].
  apply wbind_not_fuel; [exact Hy|]. intros a.
  destruct t; [discriminate|]. apply wbind_not_fuel; [exact IH|]. intros; discriminate.
Qed.

Lemma go_dict_not_fuel (wk wv : hval -> wres) (l : list (hval * hval)) :
  Forall (fun kv => not_fuel (wk (fst kv)) /\ not_fuel (wv (snd kv))) l ->
  not_fuel ((fix go (l : list (hval * hval)) : wres :=
               match l with
               | [] => WOk []
               | (k, y) :: t =>
                 wbind (wk k) (fun a =>
                 wbind (wv y) (fun b =>
                 match t with
                 | [] => WOk (a ++ [58; 32] ++ b)%N
                 | _ => wbind (go t) (fun c => WOk (a ++ [58; 32] ++ b ++ sep ++ c)%N)
                 end))
               end) l).
Proof.
  induction 1 as [|[k y] t [Hk Hy] Ht IH]; [discriminate|].
  cbn [fst snd] in *.
  apply wbind_not_fuel; [exact Hk|]. intros a.
  apply wbind_not_fuel; [exact Hy|]. intros b.
  destruct t; [discriminate|]. apply wbind_not_fuel; [exact IH|]. intros; discriminate.
Qed.

(* unfolding of write_heap at each constructor *)
Lemma write_heap_tuple fuel h path l :
  write_heap fuel h path (HTuple l) =
  wbind ((fix go (l : list hval) : wres :=
            match l with
            | [] => WOk []
            | y :: t => wbind (write_heap fuel h path y) (fun a =>
                        match t with
                        | [] => WOk a
                        | _ => wbind (go t) (fun b => WOk (a ++ sep ++ b))
                        end)
            end) l)
        (fun body => WOk ([40] ++ body ++ (match l with [_] => [44] | _ => [] end) ++ [41])%N).
Proof. destruct fuel; reflexivity. Qed.

(* a value without references never needs fuel *)
Lemma no_ref_not_fuel fuel h path x : no_ref x = true -> not_fuel (write_heap fuel h path x).
Proof.
  induction x as [v|loc|l IH] using hval_ind2; intros H.
  - destruct fuel; discriminate.
  - discriminate.
  - rewrite write_heap_tuple. apply wbind_not_fuel; [|intros; discriminate].
    apply go_list_not_fuel. cbn [no_ref] in H. rewrite forallb_forall in H.
    rewrite Forall_forall in *. intros y Hy. apply IH; auto.
Qed.

Lemma nodup_bound (path : list nat) (n : nat) loc :
  NoDup path -> (forall l, In l path -> l < n) -> loc < n -> ~ In loc path -> length path < n.
Proof.
  intros Hnd Hin Hloc Hnot.
  assert (Hincl : incl (loc :: path) (seq 0 n)).
  { intros a [<-|Ha]; apply in_seq; [lia|]. specialize (Hin a Ha). lia. }
  assert (Hnd' : NoDup (loc :: path)) by (constructor; assumption).
  pose proof (NoDup_incl_length Hnd' Hincl) as L. rewrite seq_length in L. simpl in L. lia.
Qed.

Lemma nodup_snoc (path : list nat) loc : NoDup path -> ~ In loc path -> NoDup (path ++ [loc]).
Proof.
  intros H1 H2. apply Permutation_NoDup with (l := loc :: path).
  - apply Permutation_cons_append.
  - constructor; assumption.
Qed.

Lemma existsb_eqb_false loc path : existsb (Nat.eqb loc) path = false -> ~ In loc path.
Proof.
  intros H Hin. assert (existsb (Nat.eqb loc) path = true).
  { apply existsb_exists. exists loc. split; [exact Hin|apply Nat.eqb_refl]. }
  congruence.
Qed.

(* Main invariant: the path is duplicate-free and inside the heap, and the
   fuel covers the objects not yet on the path. *)
Lemma write_heap_not_fuel : forall fuel h path x,
  heap_keys_hashable h = true ->
  NoDup path -> (forall l, In l path -> l < length h) ->
  length h <= fuel + length path ->
  not_fuel (write_heap fuel h path x).
Proof.
  induction fuel as [|f IHf]; intros h path x Hk Hnd Hin Hfuel.
  - (* no fuel left: every object is on the path, so every reference is a cycle marker *)
    induction x as [v|loc|l IH] using hval_ind2.
    + discriminate.
    + cbn. destruct (nth_error h loc) as [[l|l]|] eqn:E; try discriminate.
      * destruct (existsb (Nat.eqb loc) path) eqn:P; [discriminate|].
        exfalso. apply existsb_eqb_false in P.
        assert (loc < length h) by (apply nth_error_Some; congruence).
        pose proof (nodup_bound path (length h) loc Hnd Hin H P). lia.
      * destruct (existsb (Nat.eqb loc) path) eqn:P; [discriminate|].
        exfalso. apply existsb_eqb_false in P.
        assert (loc < length h) by (apply nth_error_Some; congruence).
        pose proof (nodup_bound path (length h) loc Hnd Hin H P). lia.
    + rewrite write_heap_tuple. apply wbind_not_fuel; [|intros; discriminate].
      apply go_list_not_fuel. exact IH.
  - induction x as [v|loc|l IH] using hval_ind2.
    + discriminate.
    + cbn. destruct (nth_error h loc) as [[l|l]|] eqn:E; try discriminate.
      * destruct (existsb (Nat.eqb loc) path) eqn:P; [discriminate|].
        apply existsb_eqb_false in P.
        assert (Hloc : loc < length h) by (apply nth_error_Some; congruence).
        pose proof (nodup_bound path (length h) loc Hnd Hin Hloc P) as Hlt.
        assert (Hnd' : NoDup (path ++ [loc])).
        { apply nodup_snoc; assumption. }
        assert (Hin' : forall l0, In l0 (path ++ [loc]) -> l0 < length h).
        { intros l0 H0. apply in_app_or in H0. destruct H0 as [H0|[<-|[]]]; auto. }
        apply wbind_not_fuel; [|intros; discriminate].
        apply go_list_not_fuel. rewrite Forall_forall. intros y _.
        apply IHf; auto. rewrite app_length. simpl. lia.
      * destruct (existsb (Nat.eqb loc) path) eqn:P; [discriminate|].
        apply existsb_eqb_false in P.
        assert (Hloc : loc < length h) by (apply nth_error_Some; congruence).
        pose proof (nodup_bound path (length h) loc Hnd Hin Hloc P) as Hlt.
        assert (Hnd' : NoDup (path ++ [loc])).
        { apply nodup_snoc; assumption. }
        assert (Hin' : forall l0, In l0 (path ++ [loc]) -> l0 < length h).
        { intros l0 H0. apply in_app_or in H0. destruct H0 as [H0|[<-|[]]]; auto. }
        assert (Hkeys : forallb (fun kv : hval * hval => no_ref (fst kv)) l = true).
        { unfold heap_keys_hashable in Hk. rewrite forallb_forall in Hk.
          apply nth_error_In in E. apply (Hk _ E). }
        apply wbind_not_fuel; [|intros; discriminate].
        apply go_dict_not_fuel. rewrite Forall_forall. intros [k y] Hky. cbn [fst snd]. split.
        -- apply no_ref_not_fuel. rewrite forallb_forall in Hkeys. apply (Hkeys _ Hky).
        -- apply IHf; auto. rewrite app_length. simpl. lia.
    + rewrite write_heap_tuple. apply wbind_not_fuel; [|intros; discriminate].
      apply go_list_not_fuel. exact IH.
Qed.

Theorem write_heap_terminates_lemma : forall h x,
  heap_keys_hashable h = true ->
  write_heap (length h) h [] x <> WFuel.
Proof.
  intros h x Hk. apply write_heap_not_fuel; auto.
  - constructor.
  - intros l [].
  - simpl. lia.
Qed.
(* ---- sharing is printed in full: on a value that unfolds to a tree, the heap
   printer prints exactly that tree ------------------------------------------- *)
Notation write_value := (write_value is_print shortest).

Definition wlist (l : list value) : list N :=
  (fix go (l : list value) : list N :=
     match l with
     | [] => []
     | x :: t => write_value x ++ match t with [] => [] | _ => sep ++ go t end
     end) l.
Definition wentries (l : list (value * value)) : list N :=
  (fix go (l : list (value * value)) : list N :=
     match l with
     | [] => []
     | (k, x) :: t => write_value k ++ [58; 32]%N ++ write_value x
                      ++ match t with [] => [] | _ => sep ++ go t end
     end) l.

Definition ulist (u : hval -> option value) (l : list hval) : option (list value) :=
  (fix go (l : list hval) : option (list value) :=
     match l with
     | [] => Some []
     | y :: t => match u y, go t with Some a, Some b => Some (a :: b) | _, _ => None end
     end) l.

Lemma ulist_cons u y t : ulist u (y :: t) =
  match u y, ulist u t with Some a, Some b => Some (a :: b) | _, _ => None end.
Proof. reflexivity. Qed.

Lemma ulist_cons_nonempty u y t b : ulist u (y :: t) = Some b -> exists b0 b', b = b0 :: b'.
Proof.
  rewrite ulist_cons. destruct (u y); [|discriminate]. destruct (ulist u t); [|discriminate].
  intros H. inversion H. eauto.
Qed.

Lemma go_list_tree (u : hval -> option value) (w : hval -> wres) (l : list hval) vs :
  Forall (fun y => forall v, u y = Some v -> w y = WOk (write_value v)) l ->
  ulist u l = Some vs ->
  (fix go (l : list hval) : wres :=
     match l with
     | [] => WOk []
     | y :: t => wbind (w y) (fun a =>
                 match t with
                 | [] => WOk a
                 | _ => wbind (go t) (fun b => WOk (a ++ sep ++ b))
                 end)
     end) l = WOk (wlist vs).
Proof.
  intros H. revert vs. induction H as [|y t Hy Ht IH]; intros vs U.
  - cbn in U. inversion U. reflexivity.
  - rewrite ulist_cons in U.
    destruct (u y) as [a|] eqn:Ua; [|discriminate].
    destruct (ulist u t) as [b|] eqn:Ub; [|discriminate].
    inversion U; subst. rewrite (Hy a eq_refl). cbn [wbind].
    destruct t as [|y2 t2].
    + cbn in Ub. inversion Ub. subst. cbn. now rewrite app_nil_r.
    + rewrite (IH b eq_refl). cbn [wbind].
      destruct (ulist_cons_nonempty _ _ _ _ Ub) as (b0 & b' & ->).
      reflexivity.
Qed.

Lemma tuple_comma (l : list hval) u vs : ulist u l = Some vs ->
  match l with [_] => [44%N] | _ => [] end = match vs with [_] => [44%N] | _ => [] end.
Proof.
  intros U. destruct l as [|y [|y2 t]]; cbn in U.
  - inversion U. reflexivity.
  - destruct (u y); inversion U. reflexivity.
  - destruct (u y); [|discriminate]. destruct (u y2); [|discriminate].
    destruct ((fix go (l : list hval) : option (list value) :=
                 match l with
                 | [] => Some []
                 | y :: t => match u y, go t with Some a, Some b => Some (a :: b) | _, _ => None end
                 end) t); inversion U. reflexivity.
Qed.

Lemma unfold_tuple fuel h path l :
  unfold fuel h path (HTuple l) = option_map VTuple (ulist (unfold fuel h path) l).
Proof. destruct fuel; reflexivity. Qed.

Definition wgo_list (w : hval -> wres) (l : list hval) : wres :=
  (fix go (l : list hval) : wres :=
     match l with
     | [] => WOk []
     | y :: t => wbind (w y) (fun a =>
                 match t with
                 | [] => WOk a
                 | _ => wbind (go t) (fun b => WOk (a ++ sep ++ b))
                 end)
     end) l.
Definition wgo_dict (wk wv : hval -> wres) (l : list (hval * hval)) : wres :=
  (fix go (l : list (hval * hval)) : wres :=
     match l with
     | [] => WOk []
     | (k, y) :: t =>
       wbind (wk k) (fun a =>
       wbind (wv y) (fun b =>
       match t with
       | [] => WOk (a ++ [58; 32] ++ b)%N
       | _ => wbind (go t) (fun c => WOk (a ++ [58; 32] ++ b ++ sep ++ c)%N)
       end))
     end) l.
Definition udict (uk uv : hval -> option value) (l : list (hval * hval)) : option (list (value * value)) :=
  (fix go (l : list (hval * hval)) : option (list (value * value)) :=
     match l with
     | [] => Some []
     | (k, y) :: t =>
       match uk k, uv y, go t with
       | Some a, Some b, Some c => Some ((a, b) :: c)
       | _, _, _ => None
       end
     end) l.

Lemma write_heap_ref_S f h path loc :
  write_heap (S f) h path (HRef loc) =
  match nth_error h loc with
  | None => WDangling
  | Some (OList l) =>
    if existsb (Nat.eqb loc) path then WOk [91; 46; 46; 46; 93]%N
    else wbind (wgo_list (write_heap f h (path ++ [loc])) l) (fun body => WOk ([91] ++ body ++ [93])%N)
  | Some (ODict l) =>
    if existsb (Nat.eqb loc) path then WOk [123; 46; 46; 46; 125]%N
    else wbind (wgo_dict (write_heap f h path) (write_heap f h (path ++ [loc])) l)
               (fun body => WOk ([123] ++ body ++ [125])%N)
  end.
Proof. reflexivity. Qed.

Lemma unfold_ref_S f h path loc :
  unfold (S f) h path (HRef loc) =
  match nth_error h loc with
  | None => None
  | Some (OList l) =>
    if existsb (Nat.eqb loc) path then None
    else option_map VList (ulist (unfold f h (path ++ [loc])) l)
  | Some (ODict l) =>
    if existsb (Nat.eqb loc) path then None
    else option_map VDict (udict (unfold f h path) (unfold f h (path ++ [loc])) l)
  end.
Proof. reflexivity. Qed.

Lemma udict_cons uk uv k y t : udict uk uv ((k, y) :: t) =
  match uk k, uv y, udict uk uv t with Some a, Some b, Some c => Some ((a, b) :: c) | _, _, _ => None end.
Proof. reflexivity. Qed.

Lemma go_dict_tree (uk uv : hval -> option value) (wk wv : hval -> wres) :
  (forall k v, uk k = Some v -> wk k = WOk (write_value v)) ->
  (forall y v, uv y = Some v -> wv y = WOk (write_value v)) ->
  forall l vs, udict uk uv l = Some vs -> wgo_dict wk wv l = WOk (wentries vs).
Proof.
  intros Hk Hv. induction l as [|[k y] t IHl]; intros vs U.
  - inversion U. reflexivity.
  - rewrite udict_cons in U.
    destruct (uk k) as [a|] eqn:Uk; [|discriminate].
    destruct (uv y) as [b|] eqn:Uy; [|discriminate].
    destruct (udict uk uv t) as [c|] eqn:Ut; [|discriminate].
    inversion U; subst.
    change (wgo_dict wk wv ((k, y) :: t)) with
      (wbind (wk k) (fun a =>
       wbind (wv y) (fun b =>
       match t with
       | [] => WOk (a ++ [58; 32] ++ b)%N
       | _ => wbind (wgo_dict wk wv t) (fun c => WOk (a ++ [58; 32] ++ b ++ sep ++ c)%N)
       end))).
    rewrite (Hk k a Uk). cbn [wbind]. rewrite (Hv y b Uy). cbn [wbind].
    destruct t as [|[k2 y2] t2].
    + inversion Ut. subst. cbn [wentries]. now rewrite app_nil_r.
    + rewrite (IHl c eq_refl). cbn [wbind].
      rewrite udict_cons in Ut.
      destruct (uk k2); [|discriminate]. destruct (uv y2); [|discriminate].
      destruct (udict uk uv t2); [|discriminate]. inversion Ut; subst.
      cbn [wentries]. reflexivity.
Qed.

Theorem write_heap_tree_lemma : forall fuel h path x v,
  unfold fuel h path x = Some v -> write_heap fuel h path x = WOk (write_value v).
Proof.
  induction fuel as [|f IHf]; intros h path x.
  - induction x as [v0|loc|l IH] using hval_ind2; intros v U.
    + cbn in U. inversion U. reflexivity.
    + cbn in U. destruct (nth_error h loc) as [[l|l]|]; try discriminate;
        destruct (existsb (Nat.eqb loc) path); discriminate.
    + rewrite unfold_tuple in U. rewrite write_heap_tuple.
      destruct (ulist (unfold 0 h path) l) as [vs|] eqn:Ul; [|discriminate]. inversion U; subst.
      rewrite (go_list_tree (unfold 0 h path) (write_heap 0 h path) l vs IH Ul). cbn [wbind].
      rewrite (tuple_comma l _ vs Ul). reflexivity.
  - induction x as [v0|loc|l IH] using hval_ind2; intros v U.
    + cbn in U. inversion U. reflexivity.
    + rewrite unfold_ref_S in U. rewrite write_heap_ref_S.
      destruct (nth_error h loc) as [[l|l]|]; try discriminate.
      * destruct (existsb (Nat.eqb loc) path); [discriminate|].
        destruct (ulist (unfold f h (path ++ [loc])) l) as [vs|] eqn:Ul; [|discriminate]. inversion U; subst.
        unfold wgo_list.
        rewrite (go_list_tree (unfold f h (path ++ [loc])) (write_heap f h (path ++ [loc])) l vs); [reflexivity| |exact Ul].
        rewrite Forall_forall. intros y _ v0. apply IHf.
      * destruct (existsb (Nat.eqb loc) path); [discriminate|].
        destruct (udict (unfold f h path) (unfold f h (path ++ [loc])) l) as [vs|] eqn:Ul; [|discriminate].
        inversion U; subst.
        rewrite (go_dict_tree _ _ _ _ (IHf h path) (IHf h (path ++ [loc])) l vs Ul). reflexivity.
    + rewrite unfold_tuple in U. rewrite write_heap_tuple.
      destruct (ulist (unfold (S f) h path) l) as [vs|] eqn:Ul; [|discriminate]. inversion U; subst.
      rewrite (go_list_tree (unfold (S f) h path) (write_heap (S f) h path) l vs IH Ul). cbn [wbind].
      rewrite (tuple_comma l _ vs Ul). reflexivity.
Qed.

End WithOracles.
