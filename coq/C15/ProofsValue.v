(* Reading back what the printer wrote: read_expr (write_value v ++ rest) = v. *)
From Coq Require Import NArith ZArith List Bool Lia ZifyBool ZifyNat ZifyN Arith.
From SV Require Import C15.Utf8 C15.Float C15.Quote C15.Value C15.ProofsQuote C15.ProofsScan.
Import ListNotations.
Open Scope N_scope.

(* ---- induction principle for the nested type value --------------------------- *)
Section ValueInd.
Variable P : value -> Prop.
Hypothesis Hnone : P VNone.
Hypothesis Hbool : forall b, P (VBool b).
Hypothesis Hint : forall z, P (VInt z).
Hypothesis Hfloat : forall b, P (VFloat b).
Hypothesis Hstr : forall s, P (VStr s).
Hypothesis Hbytes : forall s, P (VBytes s).
Hypothesis Hlist : forall l, Forall P l -> P (VList l).
Hypothesis Htuple : forall l, Forall P l -> P (VTuple l).
Hypothesis Hdict : forall l, Forall (fun kv => P (fst kv) /\ P (snd kv)) l -> P (VDict l).
Fixpoint value_ind2 (v : value) : P v :=
  match v with
  | VNone => Hnone | VBool b => Hbool b | VInt z => Hint z | VFloat b => Hfloat b
  | VStr s => Hstr s | VBytes s => Hbytes s
  | VList l => Hlist l ((fix go (l : list value) : Forall P l :=
                           match l with [] => Forall_nil P | y :: t => Forall_cons y (value_ind2 y) (go t) end) l)
  | VTuple l => Htuple l ((fix go (l : list value) : Forall P l :=
                             match l with [] => Forall_nil P | y :: t => Forall_cons y (value_ind2 y) (go t) end) l)
  | VDict l => Hdict l ((fix go (l : list (value * value)) : Forall (fun kv => P (fst kv) /\ P (snd kv)) l :=
                           match l with
                           | [] => Forall_nil _
                           | (k, x) :: t => Forall_cons (k, x) (conj (value_ind2 k) (value_ind2 x)) (go t)
                           end) l)
  end.
End ValueInd.

(* ---- the universe of the property: finite floats, UTF-8 strings, bytes -------- *)
Fixpoint wf (v : value) : Prop :=
  match v with
  | VFloat b => b64_is_finite b = true
  | VStr s => valid_utf8 s = true
  | VBytes s => bytes_ok s
  | VList l => (fix go (l : list value) : Prop := match l with [] => True | x :: t => wf x /\ go t end) l
  | VTuple l => (fix go (l : list value) : Prop := match l with [] => True | x :: t => wf x /\ go t end) l
  | VDict l => (fix go (l : list (value * value)) : Prop :=
                  match l with [] => True | (k, x) :: t => wf k /\ wf x /\ go t end) l
  | _ => True
  end.
Definition wf_list (l : list value) : Prop :=
  (fix go (l : list value) : Prop := match l with [] => True | x :: t => wf x /\ go t end) l.
Definition wf_entries (l : list (value * value)) : Prop :=
  (fix go (l : list (value * value)) : Prop :=
     match l with [] => True | (k, x) :: t => wf k /\ wf x /\ go t end) l.

(* ---- fuel the reader needs ------------------------------------------------------ *)
Fixpoint need (v : value) : nat :=
  match v with
  | VList l => S ((fix go (l : list value) : nat := match l with [] => 1 | x :: t => S (Nat.max (need x) (go t)) end) l)
  | VTuple l => S ((fix go (l : list value) : nat := match l with [] => 1 | x :: t => S (Nat.max (need x) (go t)) end) l)
  | VDict l => S ((fix go (l : list (value * value)) : nat :=
                     match l with [] => 1 | (k, x) :: t => S (Nat.max (need k) (Nat.max (need x) (go t))) end) l)
  | _ => 1
  end%nat.
Definition need_list (l : list value) : nat :=
  (fix go (l : list value) : nat := match l with [] => 1 | x :: t => S (Nat.max (need x) (go t)) end)%nat l.
Definition need_entries (l : list (value * value)) : nat :=
  (fix go (l : list (value * value)) : nat :=
     match l with [] => 1 | (k, x) :: t => S (Nat.max (need k) (Nat.max (need x) (go t))) end)%nat l.

(* what may follow a printed value inside a printed value *)
Definition delim (rest : list N) : Prop :=
  match rest with
  | [] => True
  | c :: _ => c = 44 \/ c = 93 \/ c = 41 \/ c = 125 \/ c = 58
  end.

(* ---- decimal integers ------------------------------------------------------------ *)
Lemma digits_val_app acc a b : digits_val acc (a ++ b) = digits_val (digits_val acc a) b.
Proof. revert acc. induction a; intros; cbn; auto. Qed.

Lemma dec_digits_spec : forall fuel n, n < 2 ^ N.of_nat fuel -> (1 <= fuel)%nat ->
  digits_val 0 (dec_digits fuel n) = n /\
  Forall (fun c => is_digit c = true) (dec_digits fuel n) /\
  (exists c t, dec_digits fuel n = c :: t /\ (c = 48 -> t = [])).
Proof.
  induction fuel as [|f IH]; intros n Hn Hf; [lia|].
  cbn [dec_digits]. destruct (n <? 10) eqn:E.
  - split; [cbn [digits_val]; lia|]. split.
    + constructor; [unfold is_digit; lia|constructor].
    + exists (48 + n), []. auto.
  - assert (Hpow : 2 ^ N.of_nat (S f) = 2 * 2 ^ N.of_nat f).
    { rewrite Nat2N.inj_succ, N.pow_succ_r'. reflexivity. }
    assert (Hf1 : (1 <= f)%nat).
    { destruct f; [|lia]. cbn in Hn. lia. }
    assert (Hdiv : n / 10 < 2 ^ N.of_nat f) by lia.
    destruct (IH (n / 10) Hdiv Hf1) as (V & D & c & t & Eq & Z0).
    split; [|split].
    + rewrite digits_val_app, V. cbn [digits_val]. lia.
    + apply Forall_app. split; [exact D|]. constructor; [unfold is_digit; lia|constructor].
    + rewrite Eq. exists c, (t ++ [48 + n mod 10]). split; [reflexivity|].
      intros ->. exfalso. specialize (Z0 eq_refl). subst t. rewrite Eq in V. cbn [digits_val] in V. lia.
Qed.

Lemma dec_of_N_spec n :
  digits_val 0 (dec_of_N n) = n /\
  Forall (fun c => is_digit c = true) (dec_of_N n) /\
  (exists c t, dec_of_N n = c :: t /\ (c = 48 -> t = [])).
Proof.
  unfold dec_of_N. apply dec_digits_spec; [|lia].
  rewrite Nat2N.inj_succ, N2Nat.id. destruct n as [|p]; [reflexivity|].
  apply N.log2_lt_pow2; lia.
Qed.

Lemma span_digits_app ds rest :
  Forall (fun c => is_digit c = true) ds ->
  (forall c t, rest = c :: t -> is_digit c = false) ->
  span_digits (ds ++ rest) = (ds, rest).
Proof.
  intros H Hr. induction H as [|c ds Hc Hds IH].
  - cbn. destruct rest as [|c t]; [reflexivity|]. cbn. now rewrite (Hr c t eq_refl).
  - cbn [app span_digits]. rewrite Hc, IH. reflexivity.
Qed.

Lemma delim_not_digit rest : delim rest -> forall c t, rest = c :: t -> is_digit c = false.
Proof. intros H c t ->. cbn in H. unfold is_digit. lia. Qed.

Lemma read_number_int neg n rest : delim rest ->
  read_number neg (dec_of_N n ++ rest) =
  ROk (VInt (if neg then (- Z.of_N n)%Z else Z.of_N n)) rest.
Proof.
  intros Hd. destruct (dec_of_N_spec n) as (V & D & c & t & Eq & Z0).
  unfold read_number. rewrite (span_digits_app _ _ D (delim_not_digit rest Hd)).
  assert (LZ : ((c =? 48) && negb match t with [] => true | _ :: _ => false end) = false).
  { destruct (c =? 48) eqn:E; [|reflexivity]. rewrite (Z0 ltac:(lia)). reflexivity. }
  destruct rest as [|a r].
  - rewrite Eq at 1. cbn [orb]. rewrite LZ, V. reflexivity.
  - assert (A46 : (a =? 46) = false) by (cbn in Hd; lia).
    assert (NE : ((a =? 101) || (a =? 69)) = false) by (cbn in Hd; lia).
    rewrite A46. rewrite Eq at 1. rewrite NE, LZ, V. reflexivity.
Qed.

Lemma dec_of_Z_hd z : exists c t, dec_of_Z z = c :: t /\ (c = 45 \/ is_digit c = true).
Proof.
  unfold dec_of_Z. destruct (z <? 0)%Z.
  - eexists; eexists; split; [reflexivity|left; reflexivity].
  - destruct (dec_of_N_spec (Z.to_N z)) as (_ & D & c & t & Eq & _).
    exists c, t. split; [exact Eq|]. right. rewrite Eq in D. now inversion D.
Qed.

Section WithOracles.
Variable is_print : N -> bool.
Hypothesis is_print_not_newline : forall r, is_print r = true -> r <> 13 /\ r <> 10.
Variable shortest : N -> bool * list N * Z.
Notation write_value := (write_value is_print shortest).
Notation write_float := (write_float shortest).

(* The float leaf is an ORACLE (strconv's shortest formatting followed by
   correctly rounded parsing gives the same float back; the text starts with a
   sign or a digit): *)
Hypothesis float_text_reads_back : forall bits rest,
  b64_is_finite bits = true -> delim rest ->
  read_expr 1 (write_float bits ++ rest) = ROk (VFloat bits) rest.
Hypothesis float_text_head : forall bits,
  b64_is_finite bits = true ->
  exists c t, write_float bits = c :: t /\ (c = 45 \/ is_digit c = true).

(* first character of a printed value: never a space or a closing bracket *)
Definition good_head (c : N) : Prop := c <> 32 /\ c <> 93 /\ c <> 41 /\ c <> 125.

Lemma write_value_hd v : wf v -> exists c t, write_value v = c :: t /\ good_head c.
Proof.
  unfold good_head. destruct v as [| [|] | z | b | s | s | l | l | l]; intros Hwf;
    try (eexists; eexists; split; [reflexivity|lia]).
  - destruct (dec_of_Z_hd z) as (c & t & E & [Hc|D]); exists c, t; (split; [exact E|]); [lia|unfold is_digit in D; lia].
  - destruct (float_text_head b Hwf) as (c & t & E & [Hc|D]); exists c, t; (split; [exact E|]); [lia|unfold is_digit in D; lia].
  - cbn. unfold Quote.quote. cbn. eexists; eexists; split; [reflexivity|cst; lia].
Qed.

Lemma skip_ws_hd c t : c <> 32 -> skip_ws (c :: t) = c :: t.
Proof. intros H. cbn. assert (E : (c =? 32) = false) by lia. now rewrite E. Qed.

Lemma delim_no_quote rest : delim rest -> no_quote_next rest.
Proof. intros H c l ->. cbn in H. lia. Qed.

(* the statement proved for each value *)
Definition reads_back (v : value) : Prop :=
  wf v -> forall fuel rest, (need v <= fuel)%nat -> delim rest ->
  read_expr fuel (write_value v ++ rest) = ROk v rest.

Definition write_list (l : list value) : list N :=
  (fix go (l : list value) : list N :=
     match l with
     | [] => []
     | x :: t => write_value x ++ match t with [] => [] | _ => sep ++ go t end
     end) l.
Definition write_entries (l : list (value * value)) : list N :=
  (fix go (l : list (value * value)) : list N :=
     match l with
     | [] => []
     | (k, x) :: t => write_value k ++ [58; 32] ++ write_value x
                      ++ match t with [] => [] | _ => sep ++ go t end
     end) l.

Lemma read_items_close f close rest : read_items (S f) close (close :: rest) = IOk [] false rest.
Proof. cbn. now rewrite N.eqb_refl. Qed.

Lemma read_items_step f close s c tl : s = c :: tl -> c <> close ->
  read_items (S f) close s =
  match read_expr f s with
  | ROk v r1 =>
    match skip_ws r1 with
    | c1 :: t1 =>
      if c1 =? 44 then
        match read_items f close (skip_ws t1) with
        | IOk l _ r2 => IOk (v :: l) true r2
        | IErr => IErr | IFuel => IFuel
        end
      else if c1 =? close then IOk [v] false t1
      else IErr
    | [] => IErr
    end
  | RErr => IErr | RFuel => IFuel
  end.
Proof.
  intros -> H. cbn [read_items]. assert (E : (c =? close) = false) by lia. rewrite E. reflexivity.
Qed.

Lemma read_entries_step f s c tl : s = c :: tl -> c <> 125 ->
  read_entries (S f) s =
  match read_expr f s with
  | ROk k r1 =>
    match skip_ws r1 with
    | c1 :: t1 =>
      if c1 =? 58 then
        match read_expr f t1 with
        | ROk v r2 =>
          match skip_ws r2 with
          | c2 :: t2 =>
            if c2 =? 44 then
              match read_entries f (skip_ws t2) with
              | EOk l r3 => EOk ((k, v) :: l) r3
              | EErr => EErr | EFuel => EFuel
              end
            else if c2 =? 125 then EOk [(k, v)] t2
            else EErr
          | [] => EErr
          end
        | RErr => EErr | RFuel => EFuel
        end
      else EErr
    | [] => EErr
    end
  | RErr => EErr | RFuel => EFuel
  end.
Proof.
  intros -> H. cbn [read_entries]. assert (E : (c =? 125) = false) by lia. rewrite E. reflexivity.
Qed.

Lemma skip_space_value x R : wf x -> skip_ws (32 :: write_value x ++ R) = write_value x ++ R.
Proof.
  intros W. destruct (write_value_hd x W) as (c & tl & E & (H1 & _)).
  cbn [skip_ws]. change (32 =? 32) with true. cbv iota. rewrite E. cbn [app]. apply skip_ws_hd. exact H1.
Qed.

Lemma read_expr_space fuel s : read_expr fuel (32 :: s) = read_expr fuel s.
Proof.
  destruct fuel; [reflexivity|]. cbn [read_expr]. cbn [skip_ws]. change (32 =? 32) with true. reflexivity.
Qed.

(* elements of a list or tuple, followed by the closing bracket *)
Lemma read_items_list close : (close = 93 \/ close = 41) ->
  forall l, Forall reads_back l -> wf_list l -> l <> [] ->
  forall fuel rest, (need_list l <= fuel)%nat ->
  read_items fuel close (write_list l ++ close :: rest) =
  IOk l (match l with [_] => false | _ => true end) rest.
Proof.
  intros Hclose. induction l as [|x t IH]; intros Hall Hwf Hne fuel rest Hfuel; [congruence|].
  inversion Hall as [|? ? Hx Ht]; subst.
  destruct Hwf as [Wx Wt].
  cbn [need_list] in Hfuel. fold (need_list t) in Hfuel.
  destruct fuel as [|f]; [lia|].
  destruct (write_value_hd x Wx) as (c & tl & Ehd & (G1 & G2 & G3 & G4)).
  cbn [write_list]. fold (write_list t).
  destruct t as [|y t'].
  - (* last element *)
    rewrite app_nil_r.
    assert (R : read_expr f (write_value x ++ close :: rest) = ROk x (close :: rest)).
    { apply Hx; [exact Wx|lia|]. cbn. lia. }
    rewrite (read_items_step f close _ c (tl ++ close :: rest)); [|rewrite Ehd; reflexivity|lia].
    rewrite R. rewrite skip_ws_hd by lia.
    assert (E44 : (close =? 44) = false) by lia. rewrite E44, N.eqb_refl. reflexivity.
  - assert (R : read_expr f (write_value x ++ sep ++ write_list (y :: t') ++ close :: rest)
                = ROk x (sep ++ write_list (y :: t') ++ close :: rest)).
    { apply Hx; [exact Wx|lia|]. cbn. lia. }
    rewrite <- !app_assoc.
    rewrite (read_items_step f close _ c (tl ++ sep ++ write_list (y :: t') ++ close :: rest)); [|rewrite Ehd; reflexivity|lia].
    rewrite R.
    unfold sep at 1. cbn [app]. rewrite skip_ws_hd by lia.
    change (44 =? 44) with true. cbv iota.
    assert (SK : skip_ws (32 :: write_list (y :: t') ++ close :: rest) = write_list (y :: t') ++ close :: rest).
    { cbn [write_list]. rewrite <- app_assoc. apply skip_space_value. exact (proj1 Wt). }
    rewrite SK.
    rewrite (IH Ht Wt ltac:(discriminate) f rest ltac:(cbn [need_list] in *; lia)).
    reflexivity.
Qed.

Lemma read_entries_dict :
  forall l, Forall (fun kv => reads_back (fst kv) /\ reads_back (snd kv)) l -> wf_entries l -> l <> [] ->
  forall fuel rest, (need_entries l <= fuel)%nat ->
  read_entries fuel (write_entries l ++ 125 :: rest) = EOk l rest.
Proof.
  induction l as [|[k x] t IH]; intros Hall Hwf Hne fuel rest Hfuel; [congruence|].
  inversion Hall as [|? ? [Hk Hx] Ht]; subst. cbn [fst snd] in *.
  destruct Hwf as (Wk & Wx & Wt).
  cbn [need_entries] in Hfuel. fold (need_entries t) in Hfuel.
  destruct fuel as [|f]; [lia|].
  destruct (write_value_hd k Wk) as (c & tl & Ehd & (G1 & G2 & G3 & G4)).
  cbn [write_entries]. fold (write_entries t).
  set (tail := match t with [] => [] | _ :: _ => sep ++ write_entries t end).
  rewrite <- !app_assoc.
  assert (Rk : read_expr f (write_value k ++ [58; 32] ++ write_value x ++ tail ++ 125 :: rest)
               = ROk k ([58; 32] ++ write_value x ++ tail ++ 125 :: rest)).
  { apply Hk; [exact Wk|lia|]. cbn. lia. }
  rewrite (read_entries_step f _ c (tl ++ [58; 32] ++ write_value x ++ tail ++ 125 :: rest)); [|rewrite Ehd; reflexivity|lia].
  rewrite Rk. cbn [app]. rewrite skip_ws_hd by lia.
  change (58 =? 58) with true. cbv iota.
  assert (Dt : delim (tail ++ 125 :: rest)).
  { subst tail. destruct t; cbn; lia. }
  assert (Rx : read_expr f (32 :: write_value x ++ tail ++ 125 :: rest) = ROk x (tail ++ 125 :: rest)).
  { rewrite read_expr_space. apply Hx; [exact Wx|lia|exact Dt]. }
  rewrite Rx.
  subst tail. destruct t as [|kv t'].
  - cbn [app]. rewrite skip_ws_hd by lia.
    change (125 =? 44) with false. change (125 =? 125) with true. reflexivity.
  - unfold sep at 1. rewrite <- app_assoc. cbn [app]. rewrite skip_ws_hd by lia.
    change (44 =? 44) with true. cbv iota.
    destruct kv as [k2 x2]. destruct Wt as (Wk2 & Wt').
    assert (SK : skip_ws (32 :: write_entries ((k2, x2) :: t') ++ 125 :: rest)
                 = write_entries ((k2, x2) :: t') ++ 125 :: rest).
    { cbn [write_entries]. rewrite <- !app_assoc. apply skip_space_value. exact Wk2. }
    rewrite SK.
    rewrite (IH Ht (conj Wk2 Wt') ltac:(discriminate) f rest ltac:(cbn [need_entries] in *; lia)).
    reflexivity.
Qed.

Lemma read_expr_number_fuel f c t : (c = 45 \/ is_digit c = true) ->
  read_expr (S f) (c :: t) = read_expr 1 (c :: t).
Proof.
  intros H. cbn [read_expr].
  assert (S32 : skip_ws (c :: t) = c :: t) by (apply skip_ws_hd; unfold is_digit in H; lia).
  rewrite S32.
  assert (E1 : (c =? 78) = false) by (unfold is_digit in H; lia).
  assert (E2 : (c =? 84) = false) by (unfold is_digit in H; lia).
  assert (E3 : (c =? 70) = false) by (unfold is_digit in H; lia).
  rewrite E1, E2, E3.
  destruct (c =? 45) eqn:E4; [reflexivity|].
  assert (E5 : (is_digit c || (c =? 46)) = true) by (unfold is_digit in *; lia).
  rewrite E5. reflexivity.
Qed.

Lemma read_single_tuple x f rest : reads_back x -> wf x -> (need x <= S f)%nat ->
  read_items (S (S f)) 41 (write_value x ++ 44 :: 41 :: rest) = IOk [x] true rest.
Proof.
  intros Hx Wx Hf.
  destruct (write_value_hd x Wx) as (c & tl & Ehd & (G1 & G2 & G3 & G4)).
  rewrite (read_items_step (S f) 41 _ c (tl ++ 44 :: 41 :: rest)); [|rewrite Ehd; reflexivity|lia].
  rewrite Hx; [|exact Wx|lia|cbn; lia].
  rewrite skip_ws_hd by lia. change (44 =? 44) with true. cbv iota.
  rewrite skip_ws_hd by lia. rewrite read_items_close. reflexivity.
Qed.

Theorem repr_reads_back : forall v, reads_back v.
Proof.
  induction v as [| b | z | b | s | s | l IH | l IH | l IH] using value_ind2;
    intros Hwf fuel rest Hfuel Hd.
  - destruct fuel; [cbn in Hfuel; lia|]. reflexivity.
  - destruct fuel; [cbn in Hfuel; lia|]. destruct b; reflexivity.
  - (* int *)
    destruct fuel as [|f]; [cbn in Hfuel; lia|].
    cbn [Value.write_value]. unfold dec_of_Z. destruct (z <? 0)%Z eqn:Ez.
    + cbn [app read_expr]. rewrite skip_ws_hd by lia.
      change (45 =? 78) with false. change (45 =? 84) with false. change (45 =? 70) with false.
      change (45 =? 45) with true. cbv iota.
      rewrite read_number_int by exact Hd. do 2 f_equal. lia.
    + destruct (dec_of_N_spec (Z.to_N z)) as (_ & D & c & t & Eq & _).
      assert (Dc : is_digit c = true) by (rewrite Eq in D; now inversion D).
      cbn [read_expr]. rewrite Eq. cbn [app]. rewrite skip_ws_hd by (unfold is_digit in Dc; lia).
      assert (E1 : (c =? 78) = false) by (unfold is_digit in Dc; lia).
      assert (E2 : (c =? 84) = false) by (unfold is_digit in Dc; lia).
      assert (E3 : (c =? 70) = false) by (unfold is_digit in Dc; lia).
      assert (E4 : (c =? 45) = false) by (unfold is_digit in Dc; lia).
      rewrite E1, E2, E3, E4, Dc. cbn [orb].
      change (c :: t ++ rest) with ((c :: t) ++ rest). rewrite <- Eq.
      rewrite read_number_int by exact Hd. do 2 f_equal. lia.
  - (* float: oracle *)
    destruct fuel as [|f]; [cbn in Hfuel; lia|].
    cbn [Value.write_value]. cbn [wf] in Hwf.
    destruct (float_text_head b Hwf) as (c & t & E & Hc).
    pose proof (float_text_reads_back b rest Hwf Hd) as R.
    rewrite E in *. cbn [app] in *. rewrite read_expr_number_fuel by exact Hc. exact R.
  - (* string *)
    destruct fuel as [|f]; [cbn in Hfuel; lia|]. cbn [wf] in Hwf.
    cbn [Value.write_value]. pose proof (scan_quote_string_lemma is_print is_print_not_newline s rest Hwf (delim_no_quote rest Hd)) as T.
    unfold Quote.quote in *. cbn [app] in *. change c_dq with 34 in *.
    cbn [read_expr]. rewrite skip_ws_hd by lia.
    change (34 =? 78) with false. change (34 =? 84) with false. change (34 =? 70) with false.
    change (34 =? 45) with false. change (is_digit 34 || (34 =? 46)) with false.
    change (34 =? 91) with false. change (34 =? 40) with false. change (34 =? 123) with false.
    cbv iota. rewrite T. reflexivity.
  - (* bytes *)
    destruct fuel as [|f]; [cbn in Hfuel; lia|]. cbn [wf] in Hwf.
    cbn [Value.write_value]. pose proof (scan_quote_bytes_lemma is_print is_print_not_newline s rest Hwf (delim_no_quote rest Hd)) as T.
    unfold Quote.quote in *. cbn [app] in *. change c_dq with 34 in *.
    cbn [read_expr]. rewrite skip_ws_hd by lia.
    change (98 =? 78) with false. change (98 =? 84) with false. change (98 =? 70) with false.
    change (98 =? 45) with false. change (is_digit 98 || (98 =? 46)) with false.
    change (98 =? 91) with false. change (98 =? 40) with false. change (98 =? 123) with false.
    cbv iota. rewrite T. reflexivity.
  - (* list *)
    change (write_value (VList l)) with ([91] ++ write_list l ++ [93]).
    change (need (VList l)) with (S (need_list l)) in Hfuel.
    change (wf (VList l)) with (wf_list l) in Hwf.
    destruct fuel as [|f]; [lia|].
    rewrite <- !app_assoc. cbn [app read_expr]. rewrite skip_ws_hd by lia.
    change (91 =? 78) with false. change (91 =? 84) with false. change (91 =? 70) with false.
    change (91 =? 45) with false. change (is_digit 91 || (91 =? 46)) with false.
    change (91 =? 91) with true. cbv iota.
    destruct l as [|x t].
    + cbn [write_list app]. rewrite skip_ws_hd by lia.
      destruct f; [cbn in Hfuel; lia|]. rewrite read_items_close. reflexivity.
    + assert (SK : skip_ws (write_list (x :: t) ++ 93 :: rest) = write_list (x :: t) ++ 93 :: rest).
      { destruct (write_value_hd x (proj1 Hwf)) as (c & tl & E & (H1 & _)).
        cbn [write_list]. rewrite E. rewrite <- app_assoc. cbn [app]. apply skip_ws_hd. exact H1. }
      rewrite SK.
      rewrite (read_items_list 93 (or_introl eq_refl) (x :: t) IH Hwf ltac:(discriminate) f rest ltac:(lia)).
      reflexivity.
  - (* tuple *)
    change (write_value (VTuple l)) with ([40] ++ write_list l ++ (match l with [_] => [44] | _ => [] end) ++ [41]).
    change (need (VTuple l)) with (S (need_list l)) in Hfuel.
    change (wf (VTuple l)) with (wf_list l) in Hwf.
    destruct fuel as [|f]; [lia|].
    rewrite <- !app_assoc. cbn [app read_expr]. rewrite skip_ws_hd by lia.
    change (40 =? 78) with false. change (40 =? 84) with false. change (40 =? 70) with false.
    change (40 =? 45) with false. change (is_digit 40 || (40 =? 46)) with false.
    change (40 =? 91) with false. change (40 =? 40) with true. cbv iota.
    destruct l as [|x t].
    + cbn [write_list app]. rewrite skip_ws_hd by lia.
      destruct f; [cbn in Hfuel; lia|]. rewrite read_items_close. reflexivity.
    + assert (SK : forall R, skip_ws (write_list (x :: t) ++ R) = write_list (x :: t) ++ R).
      { intros R. destruct (write_value_hd x (proj1 Hwf)) as (c & tl & E & (H1 & _)).
        cbn [write_list]. rewrite E. rewrite <- app_assoc. cbn [app]. apply skip_ws_hd. exact H1. }
      rewrite SK.
      destruct t as [|y t'].
      * (* one element: the comma makes it a tuple *)
        cbn [write_list app]. rewrite app_nil_r.
        inversion IH as [|? ? Hx _]; subst.
        cbn [need_list] in Hfuel.
        destruct f as [|[|f']]; try lia.
        rewrite (read_single_tuple x f' rest Hx (proj1 Hwf) ltac:(lia)). reflexivity.
      * cbn [app].
        rewrite (read_items_list 41 (or_intror eq_refl) (x :: y :: t') IH Hwf ltac:(discriminate) f rest ltac:(lia)).
        reflexivity.
  - (* dict *)
    change (write_value (VDict l)) with ([123] ++ write_entries l ++ [125]).
    change (need (VDict l)) with (S (need_entries l)) in Hfuel.
    change (wf (VDict l)) with (wf_entries l) in Hwf.
    destruct fuel as [|f]; [lia|].
    rewrite <- !app_assoc. cbn [app read_expr]. rewrite skip_ws_hd by lia.
    change (123 =? 78) with false. change (123 =? 84) with false. change (123 =? 70) with false.
    change (123 =? 45) with false. change (is_digit 123 || (123 =? 46)) with false.
    change (123 =? 91) with false. change (123 =? 40) with false. change (123 =? 123) with true. cbv iota.
    destruct l as [|[k x] t].
    + cbn [write_entries app]. rewrite skip_ws_hd by lia.
      destruct f; [cbn in Hfuel; lia|]. cbn. reflexivity.
    + assert (SK : skip_ws (write_entries ((k, x) :: t) ++ 125 :: rest) = write_entries ((k, x) :: t) ++ 125 :: rest).
      { destruct (write_value_hd k (proj1 Hwf)) as (c & tl & E & (H1 & _)).
        cbn [write_entries]. rewrite E. rewrite <- !app_assoc. cbn [app]. apply skip_ws_hd. exact H1. }
      rewrite SK.
      rewrite (read_entries_dict ((k, x) :: t) IH Hwf ltac:(discriminate) f rest ltac:(lia)).
      reflexivity.
Qed.

End WithOracles.
