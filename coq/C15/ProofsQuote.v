(* unquote (Quote s b) = s : proofs. *)
From Coq Require Import NArith List Bool Lia ZifyBool ZifyNat ZifyN Arith.
From SV Require Import C15.Utf8 C15.Quote.
Import ListNotations.
Open Scope N_scope.

Ltac cst := unfold c_dq, c_sq, c_bs, c_cr, c_nl, rune_error, max_rune in *.

(* ---- hex digits ---------------------------------------------------------- *)
Lemma hexval_hexdig d : d < 16 -> hexval (hexdig d) = Some d.
Proof.
  intros H. unfold hexdig, hexval.
  destruct (d <? 10) eqn:E.
  - assert (A : ((48 <=? 48 + d) && (48 + d <=? 57)) = true) by lia. rewrite A. f_equal. lia.
  - assert (A : ((48 <=? 87 + d) && (87 + d <=? 57)) = false) by lia. rewrite A.
    assert (B : ((97 <=? 87 + d) && (87 + d <=? 102)) = true) by lia. rewrite B. f_equal. lia.
Qed.

Lemma hexdig_range d : d < 16 -> 48 <= hexdig d <= 102.
Proof. intros H. unfold hexdig. destruct (d <? 10) eqn:E; lia. Qed.

Lemma hexnum2 a b : a < 16 -> b < 16 -> hexnum 0 [hexdig a; hexdig b] = Some (a * 16 + b).
Proof. intros. cbn [hexnum]. rewrite !hexval_hexdig by lia. reflexivity. Qed.

Lemma dd r a b : a <> 0 -> b <> 0 -> r / (a * b) = r / a / b.
Proof. intros. now rewrite N.div_div. Qed.
Lemma digit_split q : q = 16 * (q / 16) + q mod 16 /\ q mod 16 < 16.
Proof. split. apply N.div_mod'. apply N.mod_lt. lia. Qed.
Ltac split16 q q' d :=
  let E := fresh "E" in let L := fresh "L" in
  destruct (digit_split q) as [E L];
  let H1 := fresh in let H2 := fresh in
  remember (q / 16) as q' eqn:H1; remember (q mod 16) as d eqn:H2; clear H1 H2.

Lemma hex4_sum r : r < 65536 ->
  (((0 * 16 + (r / 4096) mod 16) * 16 + (r / 256) mod 16) * 16 + (r / 16) mod 16) * 16 + r mod 16 = r.
Proof.
  intros H.
  change 4096 with (16*16*16). change 256 with (16*16).
  rewrite !dd by lia.
  split16 r q1 d0. split16 q1 q2 d1. split16 q2 q3 d2. split16 q3 q4 d3. lia.
Qed.

Lemma hex8_sum r : r < 4294967296 ->
 (((((((0 * 16 + (r / 268435456) mod 16) * 16 + (r / 16777216) mod 16) * 16 + (r / 1048576) mod 16) * 16
   + (r / 65536) mod 16) * 16 + (r / 4096) mod 16) * 16 + (r / 256) mod 16) * 16 + (r / 16) mod 16) * 16 + r mod 16 = r.
Proof.
  intros H.
  change 268435456 with (16*16*16*16*16*16*16).
  change 16777216 with (16*16*16*16*16*16).
  change 1048576 with (16*16*16*16*16).
  change 65536 with (16*16*16*16).
  change 4096 with (16*16*16).
  change 256 with (16*16).
  rewrite !dd by lia.
  split16 r q1 d0. split16 q1 q2 d1. split16 q2 q3 d2. split16 q3 q4 d3.
  split16 q4 q5 d4. split16 q5 q6 d5. split16 q6 q7 d6. split16 q7 q8 d7.
  lia.
Qed.

Lemma mod16_lt q : q mod 16 < 16.
Proof. apply N.mod_lt. lia. Qed.

Lemma hexnum4 r : r < 65536 ->
  hexnum 0 [hexdig ((r / 4096) mod 16); hexdig ((r / 256) mod 16); hexdig ((r / 16) mod 16); hexdig (r mod 16)] = Some r.
Proof.
  intros. cbn [hexnum]. rewrite !hexval_hexdig by apply mod16_lt. f_equal. now apply hex4_sum.
Qed.

Lemma hexnum8 r : r < 4294967296 ->
  hexnum 0 [hexdig ((r / 268435456) mod 16); hexdig ((r / 16777216) mod 16);
            hexdig ((r / 1048576) mod 16); hexdig ((r / 65536) mod 16);
            hexdig ((r / 4096) mod 16); hexdig ((r / 256) mod 16);
            hexdig ((r / 16) mod 16); hexdig (r mod 16)] = Some r.
Proof.
  intros. cbn [hexnum]. rewrite !hexval_hexdig by apply mod16_lt. f_equal. now apply hex8_sum.
Qed.

(* ---- res ------------------------------------------------------------------ *)
Lemma rmap_ok {A B} (f : A -> B) r a : r = Ok a -> rmap f r = Ok (f a).
Proof. intros ->. reflexivity. Qed.

(* ---- list helpers --------------------------------------------------------- *)
Lemma last_snoc (l : list N) x d : last (l ++ [x]) d = x.
Proof. apply last_last. Qed.

Lemma firstn_snoc_all (l : list N) x : firstn (length l) (l ++ [x]) = l.
Proof. rewrite firstn_app, Nat.sub_diag, firstn_all. cbn. now rewrite app_nil_r. Qed.

Lemma valid_from_skip k s : (k <= length s)%nat -> valid_utf8_from k s = valid_utf8_from 0 (skipn k s).
Proof.
  revert s. induction k as [|k IH]; intros s H; [reflexivity|].
  destruct s as [|b t]; [simpl in H; lia|]. cbn [valid_utf8_from skipn]. apply IH. simpl in H. lia.
Qed.

Lemma bytes_ok_skipn k s : bytes_ok s -> bytes_ok (skipn k s).
Proof.
  revert s. induction k; intros s H; [exact H|]. destruct s; [exact H|].
  cbn [skipn]. apply IHk. now inversion H.
Qed.

Section WithIsPrint.
Variable is_print : N -> bool.
(* The one fact about strconv.IsPrint the round trip needs: a carriage return
   or a line feed is never printed raw.  (Checked against the real function
   over all code points by the correspondence harness.) *)
Hypothesis is_print_not_newline : forall r, is_print r = true -> r <> 13 /\ r <> 10.

Notation quote_rune := (quote_rune is_print).
Notation quote_body := (quote_body is_print).
Notation quote := (quote is_print).

(* ---- unq_loop on plain bytes ----------------------------------------------- *)
Definition plain (c : N) : Prop := c <> 13 /\ c <> 92.

Lemma unq_plain ib c t : plain c ->
  unq_loop ib false (c :: t) = rmap (cons c) (unq_loop ib false t).
Proof.
  intros [H1 H2]. cbn [unq_loop]. cst.
  assert (A : (c =? 13) = false) by lia. assert (B : (c =? 92) = false) by lia.
  rewrite A, B. reflexivity.
Qed.

Lemma unq_plain_app ib l t x : Forall plain l ->
  unq_loop ib false t = Ok x -> unq_loop ib false (l ++ t) = Ok (l ++ x).
Proof.
  induction 1 as [|c l Hc Hl IH]; intros Ht; [exact Ht|].
  cbn [app]. rewrite unq_plain by assumption. apply rmap_ok. now apply IH.
Qed.

Lemma unq_no_special (ib raw : bool) (l : list N) :
  contains_any l (if raw then [c_cr] else [c_bs; c_cr]) = false -> unq_loop ib raw l = Ok l.
Proof.
  induction l as [|c l IH]; intros H; [reflexivity|].
  unfold contains_any in H. cbn [existsb] in H. apply orb_false_iff in H. destruct H as [H1 H2].
  cbn [unq_loop].
  assert (A : (c =? c_cr) = false) by (destruct raw; cbn in H1; lia).
  assert (B : ((c =? c_bs) && negb raw) = false) by (destruct raw; cbn in H1; lia).
  rewrite A, B. apply rmap_ok. apply IH. exact H2.
Qed.

(* ---- the numeric escapes, for arbitrary digit bytes -------------------------- *)
Lemma unq_x ib h1 h2 t n :
  hexnum 0 [h1; h2] = Some n -> (negb ib && (127 <? n)) = false ->
  unq_loop ib false (92 :: 120 :: h1 :: h2 :: t) = rmap (cons n) (unq_loop ib false t).
Proof. intros H G. cbn -[hexnum]. rewrite H, G. reflexivity. Qed.

Lemma unq_u ib h1 h2 h3 h4 t n :
  hexnum 0 [h1; h2; h3; h4] = Some n ->
  unq_loop ib false (92 :: 117 :: h1 :: h2 :: h3 :: h4 :: t) = code_point n (unq_loop ib false t).
Proof. intros H. cbn -[hexnum code_point]. rewrite H. reflexivity. Qed.

Lemma unq_U ib h1 h2 h3 h4 h5 h6 h7 h8 t n :
  hexnum 0 [h1; h2; h3; h4; h5; h6; h7; h8] = Some n ->
  unq_loop ib false (92 :: 85 :: h1 :: h2 :: h3 :: h4 :: h5 :: h6 :: h7 :: h8 :: t) = code_point n (unq_loop ib false t).
Proof. intros H. cbn -[hexnum code_point]. rewrite H. reflexivity. Qed.

Lemma unq_esc ib e v t :
  unesc e = Some v -> e <> 10 ->
  unq_loop ib false (92 :: e :: t) = rmap (cons v) (unq_loop ib false t).
Proof.
  intros H Hne. cbn -[unesc]. assert (A : (e =? c_nl) = false) by (cst; lia). rewrite A, H. reflexivity.
Qed.

(* ---- one quoted rune reads back as its encoding ---------------------------- *)
Lemma unq_quote_rune ib r t x :
  is_scalar r = true ->
  unq_loop ib false t = Ok x ->
  unq_loop ib false (quote_rune r ++ t) = Ok (utf8_encode r ++ x).
Proof.
  intros Hs Ht. unfold Quote.quote_rune.
  destruct ((r =? c_dq) || (r =? c_bs)) eqn:E1.
  { (* backslashed quote / backslash *)
    assert (Hr : r = 34 \/ r = 92) by (cst; lia).
    rewrite utf8_encode_ascii by lia.
    destruct Hr as [-> | ->]; cbn; rewrite Ht; reflexivity. }
  destruct (is_print r) eqn:E2.
  { (* printed raw *)
    apply unq_plain_app; [|exact Ht].
    destruct (is_print_not_newline r E2) as [P1 P2].
    destruct (r <? 0x80) eqn:E3.
    - rewrite utf8_encode_ascii by lia. constructor; [|constructor]. unfold plain. cst. lia.
    - eapply Forall_impl; [|apply utf8_encode_high; lia]. intros a Ha. cbv beta in Ha. unfold plain. lia. }
  assert (ESC : forall v e, r = v -> unesc e = Some v -> e <> 10 -> v < 0x80 ->
                unq_loop ib false ([c_bs; e] ++ t) = Ok (utf8_encode r ++ x)).
  { intros v e -> Hu Hne Hv. rewrite utf8_encode_ascii by lia. cbn [app].
    change c_bs with 92. rewrite (unq_esc ib e v t Hu Hne), Ht. reflexivity. }
  destruct (r =? 7) eqn:C1; [apply (ESC 7 97); try reflexivity; lia|].
  destruct (r =? 8) eqn:C2; [apply (ESC 8 98); try reflexivity; lia|].
  destruct (r =? 12) eqn:C3; [apply (ESC 12 102); try reflexivity; lia|].
  destruct (r =? 10) eqn:C4; [apply (ESC 10 110); try reflexivity; lia|].
  destruct (r =? 13) eqn:C5; [apply (ESC 13 114); try reflexivity; lia|].
  destruct (r =? 9) eqn:C6; [apply (ESC 9 116); try reflexivity; lia|].
  destruct (r =? 11) eqn:C7; [apply (ESC 11 118); try reflexivity; lia|].
  clear ESC.
  destruct ((r <? 32) || (r =? 127)) eqn:E3.
  { (* \xHH, at most 0x7f *)
    rewrite utf8_encode_ascii by lia. cbn [app]. change c_bs with 92.
    rewrite (unq_x ib _ _ t r).
    - rewrite Ht. reflexivity.
    - rewrite hexnum2 by lia. f_equal. lia.
    - lia. }
  assert (Hsc : is_surrogate r = false /\ r <= 0x10FFFF) by (unfold is_scalar, max_rune in Hs; lia).
  destruct Hsc as [Hsur Hmax].
  assert (M : (max_rune <? r) = false) by (cst; lia).
  destruct ((max_rune <? r) || (r <? 65536)) eqn:E4.
  { rewrite M.
    assert (L : r < 65536) by (cst; lia).
    cbn [app]. change c_bs with 92.
    rewrite (unq_u ib _ _ _ _ t r (hexnum4 r L)).
    unfold code_point. rewrite M, Hsur, Ht. reflexivity. }
  { assert (L : r < 4294967296) by lia.
    cbn [app]. change c_bs with 92.
    rewrite (unq_U ib _ _ _ _ _ _ _ _ t r (hexnum8 r L)).
    unfold code_point. rewrite M, Hsur, Ht. reflexivity. }
Qed.

(* an ill-formed byte, written \xHH, reads back in a bytes literal *)
Lemma unq_quote_badbyte b t x :
  b < 256 -> unq_loop true false t = Ok x ->
  unq_loop true false ([c_bs; 120; hexdig (b / 16); hexdig (b mod 16)] ++ t) = Ok (b :: x).
Proof.
  intros Hb Ht. cbn [app]. change c_bs with 92.
  rewrite (unq_x true _ _ t b).
  - rewrite Ht. reflexivity.
  - rewrite hexnum2 by lia. f_equal. lia.
  - reflexivity.
Qed.

(* ---- stepping through the string -------------------------------------------- *)
Lemma quote_body_skip k s : (k <= length s)%nat -> quote_body k s = quote_body 0 (skipn k s).
Proof.
  revert s. induction k as [|k IH]; intros s H; [reflexivity|].
  destruct s as [|b t]; [simpl in H; lia|]. cbn [Quote.quote_body skipn]. apply IH. simpl in H. lia.
Qed.

(* The loop of Quote followed by the loop of unquote is the identity:
   in a bytes literal for every byte string, in a string literal for every
   well-formed UTF-8 string. *)
Lemma unq_quote_body_len : forall (n : nat) (s : list N) (ib : bool),
  (length s <= n)%nat ->
  (if ib then bytes_ok s else valid_utf8 s = true) ->
  unq_loop ib false (quote_body 0 s) = Ok s.
Proof.
  induction n as [|n IH]; intros s ib Hn Hok.
  { destruct s; [reflexivity|simpl in Hn; lia]. }
  destruct s as [|b t]; [reflexivity|].
  cbn [Quote.quote_body]. unfold quote_step.
  destruct (utf8_decode (b :: t)) as [r w] eqn:D.
  pose proof (utf8_decode_width (b :: t)) as Hw. rewrite D in Hw. cbn [snd] in Hw.
  pose proof (utf8_decode_width_pos b t) as Hw1. rewrite D in Hw1. cbn [snd] in Hw1.
  assert (Hlen : (w - 1 <= length t)%nat) by (simpl in Hw; lia).
  assert (Hrest : if ib then bytes_ok (skipn (w - 1) t) else valid_utf8 (skipn (w - 1) t) = true).
  { destruct ib.
    - apply bytes_ok_skipn. now inversion Hok.
    - unfold valid_utf8 in *. cbn [valid_utf8_from] in Hok. rewrite D in Hok.
      destruct (decode_invalid (r, w)); [discriminate|]. cbn [snd] in Hok.
      rewrite valid_from_skip in Hok by exact Hlen. exact Hok. }
  assert (IHr : unq_loop ib false (quote_body 0 (skipn (w - 1) t)) = Ok (skipn (w - 1) t)).
  { apply IH; [|exact Hrest]. rewrite skipn_length. simpl in Hn. lia. }
  destruct (Nat.eqb w 1 && (r =? rune_error)) eqn:Bad; rewrite quote_body_skip by exact Hlen.
  { (* ill-formed byte *)
    assert (W : w = 1%nat) by (apply andb_true_iff in Bad; destruct Bad as [B1 _]; now apply Nat.eqb_eq in B1).
    subst w. cbn [Nat.sub skipn] in *.
    destruct ib.
    - apply unq_quote_badbyte; [|exact IHr]. inversion Hok; assumption.
    - exfalso. unfold valid_utf8 in Hok. cbn [valid_utf8_from] in Hok. rewrite D in Hok.
      unfold decode_invalid in Hok. cbn [fst snd] in Hok.
      assert (R : (r =? rune_error) = true) by (apply andb_true_iff in Bad; tauto).
      rewrite R in Hok. cbn in Hok. discriminate. }
  { (* well-formed rune *)
    assert (Hv : decode_invalid (r, w) = false).
    { unfold decode_invalid. cbn [fst snd]. rewrite andb_comm. exact Bad. }
    destruct (utf8_decode_inv (b :: t) r w D Hv ltac:(discriminate)) as (Hsc & Heq & Hwl).
    assert (S1 : skipn w (b :: t) = skipn (w - 1) t).
    { destruct w; [lia|]. cbn [skipn]. f_equal. lia. }
    rewrite S1 in Heq. rewrite Heq.
    apply unq_quote_rune; assumption. }
Qed.

Lemma unq_quote_body (s : list N) (ib : bool) :
  (if ib then bytes_ok s else valid_utf8 s = true) ->
  unq_loop ib false (quote_body 0 s) = Ok s.
Proof. apply (unq_quote_body_len (length s)). lia. Qed.

(* the quoted text never starts with a double quote (so it is never taken for
   a triple-quoted literal) *)
Lemma quote_rune_hd r : exists c l, quote_rune r = c :: l /\ c <> 34.
Proof.
  unfold Quote.quote_rune.
  repeat match goal with
  | |- context [if ?c then _ else _] => destruct c eqn:?
  end; try (eexists; eexists; split; [reflexivity|cst; lia]).
  (* raw *)
  unfold utf8_encode.
  repeat match goal with
  | |- context [if ?c then _ else _] => destruct c eqn:?
  end; eexists; eexists; (split; [reflexivity|cst; lia]).
Qed.

Lemma quote_body_hd s : s <> [] -> exists c l, quote_body 0 s = c :: l /\ c <> 34.
Proof.
  destruct s as [|b t]; [congruence|]. intros _.
  cbn [Quote.quote_body]. unfold quote_step.
  destruct (utf8_decode (b :: t)) as [r w].
  destruct (Nat.eqb w 1 && (r =? rune_error)).
  - eexists; eexists; split; [reflexivity|cst; lia].
  - destruct (quote_rune_hd r) as (c & l & E & Hc). rewrite E. eexists; eexists; split; [reflexivity|exact Hc].
Qed.

Lemma quote_body_nil s : quote_body 0 s = [] -> s = [].
Proof.
  destruct s as [|b t]; [reflexivity|]. intros H.
  destruct (quote_body_hd (b :: t) ltac:(discriminate)) as (c & l & E & _). congruence.
Qed.

(* unquote on the text  [b] dq body dq  *)
Lemma unquote_core_wrapped (ib : bool) (body s : list N) :
  (forall c l, body = c :: l -> c <> 34) ->
  unq_loop ib false body = Ok s ->
  unquote_core false ib (c_dq :: body ++ [c_dq]) = Ok (s, false, ib).
Proof.
  intros Hhd Hloop. unfold unquote_core. cbv zeta.
  assert (Hn : length (c_dq :: body ++ [c_dq]) = S (S (length body))).
  { cbn [length]. rewrite app_length. cbn. lia. }
  rewrite Hn.
  assert (L2 : Nat.ltb (S (S (length body))) 2 = false) by (apply Nat.ltb_ge; lia). rewrite L2.
  cbv beta iota.
  assert (LL : last (c_dq :: body ++ [c_dq]) 0 = c_dq).
  { change (c_dq :: body ++ [c_dq]) with ((c_dq :: body) ++ [c_dq]). apply last_snoc. }
  rewrite LL.
  assert (Q : ((negb (c_dq =? c_dq) && negb (c_dq =? c_sq)) || negb (c_dq =? c_dq)) = false) by reflexivity.
  rewrite Q.
  assert (T : (Nat.leb 6 (S (S (length body))) && (nth 1 (c_dq :: body ++ [c_dq]) 0 =? c_dq)) = false).
  { destruct body as [|c l]; [reflexivity|].
    cbn [nth app]. assert (c <> 34) by (eapply Hhd; reflexivity).
    assert (E : (c =? c_dq) = false) by (cst; lia). rewrite E. apply andb_false_r. }
  rewrite T. cbn [andb].
  cbn [skipn]. replace (S (S (length body)) - 2)%nat with (length body) by lia.
  rewrite firstn_snoc_all.
  destruct (contains_any body [c_bs; c_cr]) eqn:C; cbn [negb].
  - rewrite Hloop. reflexivity.
  - pose proof (unq_no_special ib false body C) as E. rewrite E in Hloop. inversion Hloop. reflexivity.
Qed.

Theorem unquote_quote_string_lemma : forall s,
  valid_utf8 s = true -> unquote (quote s false) = Ok (s, false, false).
Proof.
  intros s Hv. unfold Quote.quote. cbn [app]. unfold unquote.
  cbn [c_dq N.eqb Pos.eqb].
  apply unquote_core_wrapped.
  - intros c l E. destruct (quote_body_hd s) as (c' & l' & E' & Hc).
    { intros ->. discriminate. }
    rewrite E in E'. inversion E'. subst. exact Hc.
  - apply (unq_quote_body s false Hv).
Qed.

Theorem unquote_quote_bytes_lemma : forall s,
  bytes_ok s -> unquote (quote s true) = Ok (s, false, true).
Proof.
  intros s Hv. unfold Quote.quote. cbn [app]. unfold unquote.
  cbn [c_dq N.eqb Pos.eqb].
  apply unquote_core_wrapped.
  - intros c l E. destruct (quote_body_hd s) as (c' & l' & E' & Hc).
    { intros ->. discriminate. }
    rewrite E in E'. inversion E'. subst. exact Hc.
  - apply (unq_quote_body s true Hv).
Qed.
End WithIsPrint.
