(* unquote (Quote s b) = s : proofs. *)
From Coq Require Import NArith List Bool Lia ZifyBool ZifyNat ZifyN Arith.
From SV Require Import C15.Utf8 C15.Quote.
Import ListNotations.
Open Scope N_scope.

Ltac cst := unfold c_dq, c_sq, c_bs, c_cr, c_nl, rune_error, max_rune in *.

(* ---- hex digits ---------------------------------------------------------- *)
Lemma hexval_hexdig d : d < 16 -> hexval (hexdig d) = Some d.
Proof.
  intros H. unfold hexdig, hexval.
  destruct (d <? 10) eqn:E.
  - assert (A : ((48 <=? 48 + d) && (48 + d <=? 57)) = true) by lia. rewrite A. f_equal. lia.
  - assert (A : ((48 <=? 87 + d) && (87 + d <=? 57)) = false) by lia. rewrite A.
    assert (B : ((97 <=? 87 + d) && (87 + d <=? 102)) = true) by lia. rewrite B. f_equal. lia.
Qed.

Lemma hexdig_range d : d < 16 -> 48 <= hexdig d <= 102.
Proof. intros H. unfold hexdig. destruct (d <? 10) eqn:E; lia. Qed.

Lemma hexnum2 a b : a < 16 -> b < 16 -> hexnum 0 [hexdig a; hexdig b] = Some (a * 16 + b).
Proof. intros. cbn [hexnum]. rewrite !hexval_hexdig by lia. reflexivity. Qed.

Lemma hexnum4 r : r < 65536 ->
  hexnum 0 [hexdig ((r / 4096) mod 16); hexdig ((r / 256) mod 16); hexdig ((r / 16) mod 16); hexdig (r mod 16)] = Some r.
Proof.
  intros. cbn [hexnum]. rewrite !hexval_hexdig by lia. f_equal. lia.
Qed.

Lemma hexnum8 r : r < 4294967296 ->
  hexnum 0 [hexdig ((r / 268435456) mod 16); hexdig ((r / 16777216) mod 16);
            hexdig ((r / 1048576) mod 16); hexdig ((r / 65536) mod 16);
            hexdig ((r / 4096) mod 16); hexdig ((r / 256) mod 16);
            hexdig ((r / 16) mod 16); hexdig (r mod 16)] = Some r.
Proof.
  intros. cbn [hexnum]. rewrite !hexval_hexdig by lia. f_equal. lia.
Qed.

(* ---- res ------------------------------------------------------------------ *)
Lemma rmap_ok {A B} (f : A -> B) r a : r = Ok a -> rmap f r = Ok (f a).
Proof. intros ->. reflexivity. Qed.

(* ---- list helpers --------------------------------------------------------- *)
Lemma last_snoc (l : list N) x d : last (l ++ [x]) d = x.
Proof. induction l as [|a l IH]; [reflexivity|]. cbn [app]. destruct (l ++ [x]) eqn:E.
  - destruct l; discriminate.
  - cbn [last]. rewrite <- E. exact IH. Qed.

Lemma firstn_snoc_all (l : list N) x : firstn (length l) (l ++ [x]) = l.
Proof. rewrite firstn_app, Nat.sub_diag, firstn_all. cbn. now rewrite app_nil_r. Qed.

Section WithIsPrint.
Variable is_print : N -> bool.
(* The one fact about strconv.IsPrint the round trip needs: a carriage return
   or a line feed is never printed raw.  (Checked against the real function
   over all code points by the correspondence harness.) *)
Hypothesis is_print_not_newline : forall r, is_print r = true -> r <> 13 /\ r <> 10.

Notation quote_rune := (quote_rune is_print).
Notation quote_body := (quote_body is_print).
Notation quote := (quote is_print).

(* ---- unq_loop on plain bytes ----------------------------------------------- *)
Definition plain (c : N) : Prop := c <> 13 /\ c <> 92.

Lemma unq_plain ib c t : plain c ->
  unq_loop ib false (c :: t) = rmap (cons c) (unq_loop ib false t).
Proof.
  intros [H1 H2]. cbn [unq_loop]. cst.
  assert (A : (c =? 13) = false) by lia. assert (B : (c =? 92) = false) by lia.
  rewrite A, B. reflexivity.
Qed.

Lemma unq_plain_app ib l t x : Forall plain l ->
  unq_loop ib false t = Ok x -> unq_loop ib false (l ++ t) = Ok (l ++ x).
Proof.
  induction 1 as [|c l Hc Hl IH]; intros Ht; [exact Ht|].
  cbn [app]. rewrite unq_plain by assumption. apply rmap_ok. now apply IH.
Qed.

Lemma unq_no_special ib raw l :
  contains_any l (if raw then [c_cr] else [c_bs; c_cr]) = false -> unq_loop ib raw l = Ok l.
Proof.
  induction l as [|c l IH]; intros H; [reflexivity|].
  unfold contains_any in H. cbn [existsb] in H. apply orb_false_iff in H. destruct H as [H1 H2].
  cbn [unq_loop].
  assert (A : (c =? c_cr) = false) by (destruct raw; cbn in H1; lia).
  assert (B : ((c =? c_bs) && negb raw) = false) by (destruct raw; cbn in H1; lia).
  rewrite A, B. apply rmap_ok. apply IH. exact H2.
Qed.

(* ---- one quoted rune reads back as its encoding ---------------------------- *)
Lemma unq_quote_rune ib r t x :
  is_scalar r = true ->
  unq_loop ib false t = Ok x ->
  unq_loop ib false (quote_rune r ++ t) = Ok (utf8_encode r ++ x).
Proof.
  intros Hs Ht. unfold Quote.quote_rune.
  destruct ((r =? c_dq) || (r =? c_bs)) eqn:E1.
  { (* backslashed quote / backslash *)
    assert (Hr : r = 34 \/ r = 92) by (cst; lia).
    rewrite utf8_encode_ascii by lia.
    destruct Hr as [-> | ->]; cbn; rewrite Ht; reflexivity. }
  destruct (is_print r) eqn:E2.
  { (* printed raw *)
    apply unq_plain_app; [|exact Ht].
    destruct (is_print_not_newline r E2) as [P1 P2].
    destruct (r <? 0x80) eqn:E3.
    - rewrite utf8_encode_ascii by lia. constructor; [|constructor]. unfold plain. cst. lia.
    - eapply Forall_impl; [|apply utf8_encode_high; lia]. intros a Ha. unfold plain. lia. }
  assert (ESC : forall v e, r = v -> unesc e = Some v -> e <> 10 -> v < 0x80 ->
                unq_loop ib false ([c_bs; e] ++ t) = Ok (utf8_encode r ++ x)).
  { intros v e -> Hu Hne Hv. rewrite utf8_encode_ascii by lia. cbn [app unq_loop]. cst.
    assert (A : (e =? 10) = false) by lia. cbn. rewrite A, Hu, Ht. reflexivity. }
  destruct (r =? 7) eqn:C1; [apply (ESC 7 97); try reflexivity; lia|].
  destruct (r =? 8) eqn:C2; [apply (ESC 8 98); try reflexivity; lia|].
  destruct (r =? 12) eqn:C3; [apply (ESC 12 102); try reflexivity; lia|].
  destruct (r =? 10) eqn:C4; [apply (ESC 10 110); try reflexivity; lia|].
  destruct (r =? 13) eqn:C5; [apply (ESC 13 114); try reflexivity; lia|].
  destruct (r =? 9) eqn:C6; [apply (ESC 9 116); try reflexivity; lia|].
  destruct (r =? 11) eqn:C7; [apply (ESC 11 118); try reflexivity; lia|].
  clear ESC.
  destruct ((r <? 32) || (r =? 127)) eqn:E3.
  { (* \xHH, at most 0x7f *)
    rewrite utf8_encode_ascii by lia.
    cbn [app unq_loop]. cbn [c_bs c_cr c_nl N.eqb Pos.eqb andb negb unesc is_oct].
    change (unq_loop ib false (92 :: 120 :: hexdig (r / 16) :: hexdig (r mod 16) :: t) = Ok (r :: x)).
    cbn [unq_loop]. cbn.
    assert (Q : hexnum 0 [hexdig (r / 16); hexdig (r mod 16)] = Some r).
    { rewrite hexnum2 by lia. f_equal. lia. }
    cbn [hexnum] in Q. rewrite Q.
    assert (G : (negb ib && (127 <? r)) = false) by lia. rewrite G, Ht. reflexivity. }
  assert (Hsc : is_surrogate r = false /\ r <= 0x10FFFF) by (unfold is_scalar, max_rune in Hs; lia).
  destruct Hsc as [Hsur Hmax].
  destruct ((max_rune <? r) || (r <? 65536)) eqn:E4.
  { assert (M : (max_rune <? r) = false) by (cst; lia). rewrite M.
    assert (L : r < 65536) by (cst; lia).
    cbn [app unq_loop]. cbn.
    pose proof (hexnum4 r L) as Q. cbn [hexnum] in Q. rewrite Q.
    unfold code_point. rewrite M, Hsur, Ht. reflexivity. }
  { assert (M : (max_rune <? r) = false) by (cst; lia).
    cbn [app unq_loop]. cbn.
    assert (L : r < 4294967296) by lia.
    pose proof (hexnum8 r L) as Q. cbn [hexnum] in Q. rewrite Q.
    unfold code_point. rewrite M, Hsur, Ht. reflexivity. }
Qed.

(* an ill-formed byte, written \xHH, reads back in a bytes literal *)
Lemma unq_quote_badbyte b t x :
  b < 256 -> unq_loop true false t = Ok x ->
  unq_loop true false ([c_bs; 120; hexdig (b / 16); hexdig (b mod 16)] ++ t) = Ok (b :: x).
Proof.
  intros Hb Ht. cbn [app unq_loop]. cbn.
  assert (Q : hexnum 0 [hexdig (b / 16); hexdig (b mod 16)] = Some b).
  { rewrite hexnum2 by lia. f_equal. lia. }
  cbn [hexnum] in Q. rewrite Q, Ht. reflexivity.
Qed.

(* ---- stepping through the string -------------------------------------------- *)
Lemma quote_body_skip k s : (k <= length s)%nat -> quote_body k s = quote_body 0 (skipn k s).
Proof.
  revert s. induction k as [|k IH]; intros s H; [reflexivity|].
  destruct s as [|b t]; [simpl in H; lia|]. cbn [Quote.quote_body skipn]. apply IH. simpl in H. lia.
Qed.

Lemma valid_from_skip k s : (k <= length s)%nat -> valid_utf8_from k s = valid_utf8_from 0 (skipn k s).
Proof.
  revert s. induction k as [|k IH]; intros s H; [reflexivity|].
  destruct s as [|b t]; [simpl in H; lia|]. cbn [valid_utf8_from skipn]. apply IH. simpl in H. lia.
Qed.

Lemma bytes_ok_skipn k s : bytes_ok s -> bytes_ok (skipn k s).
Proof.
  revert s. induction k; intros s H; [exact H|]. destruct s; [exact H|].
  cbn [skipn]. apply IHk. now inversion H.
Qed.

(* The loop of Quote followed by the loop of unquote is the identity:
   in a bytes literal for every byte string, in a string literal for every
   well-formed UTF-8 string. *)
Lemma unq_quote_body_len : forall n s ib,
  (length s <= n)%nat ->
  (if ib then bytes_ok s else valid_utf8 s = true) ->
  unq_loop ib false (quote_body 0 s) = Ok s.
Proof.
  induction n as [|n IH]; intros s ib Hn Hok.
  { destruct s; [reflexivity|simpl in Hn; lia]. }
  destruct s as [|b t]; [reflexivity|].
  cbn [Quote.quote_body]. unfold quote_step.
  destruct (utf8_decode (b :: t)) as [r w] eqn:D.
  pose proof (utf8_decode_width (b :: t)) as Hw. rewrite D in Hw. cbn [snd] in Hw.
  pose proof (utf8_decode_width_pos b t) as Hw1. rewrite D in Hw1. cbn [snd] in Hw1.
  assert (Hlen : (w - 1 <= length t)%nat) by (simpl in Hw; lia).
  rewrite quote_body_skip by exact Hlen.
  assert (Hrest : if ib then bytes_ok (skipn (w - 1) t) else valid_utf8 (skipn (w - 1) t) = true).
  { destruct ib.
    - apply bytes_ok_skipn. now inversion Hok.
    - unfold valid_utf8 in *. cbn [valid_utf8_from] in Hok. rewrite D in Hok.
      destruct (decode_invalid (r, w)); [discriminate|]. cbn [snd] in Hok.
      rewrite valid_from_skip in Hok by exact Hlen. exact Hok. }
  assert (IHr : unq_loop ib false (quote_body 0 (skipn (w - 1) t)) = Ok (skipn (w - 1) t)).
  { apply IH; [|exact Hrest]. rewrite skipn_length. simpl in Hn. lia. }
  destruct (Nat.eqb w 1 && (r =? rune_error)) eqn:Bad.
  { (* ill-formed byte *)
    assert (W : w = 1%nat) by (apply andb_true_iff in Bad; destruct Bad as [B1 _]; now apply Nat.eqb_eq in B1).
    subst w. cbn [Nat.sub skipn] in *.
    destruct ib.
    - apply unq_quote_badbyte; [|exact IHr]. inversion Hok; assumption.
    - exfalso. unfold valid_utf8 in Hok. cbn [valid_utf8_from] in Hok. rewrite D in Hok.
      unfold decode_invalid in Hok. cbn [fst snd] in Hok.
      assert (R : (r =? rune_error) = true) by (apply andb_true_iff in Bad; tauto).
      rewrite R in Hok. cbn in Hok. discriminate. }
  { (* well-formed rune *)
    assert (Hv : decode_invalid (r, w) = false).
    { unfold decode_invalid. cbn [fst snd]. rewrite andb_comm. exact Bad. }
    destruct (utf8_decode_inv (b :: t) r w D Hv ltac:(discriminate)) as (Hsc & Heq & Hwl).
    assert (S1 : skipn w (b :: t) = skipn (w - 1) t).
    { destruct w; [lia|]. cbn [skipn]. now rewrite Nat.sub_0_r. }
    rewrite S1 in Heq. rewrite Heq at 2.
    apply unq_quote_rune; assumption. }
Qed.

Lemma unq_quote_body s ib :
  (if ib then bytes_ok s else valid_utf8 s = true) ->
  unq_loop ib false (quote_body 0 s) = Ok s.
Proof. apply (unq_quote_body_len (length s)). lia. Qed.

(* the quoted text never starts with a double quote (so it is never taken for
   a triple-quoted literal) *)
Lemma quote_rune_hd r : exists c l, quote_rune r = c :: l /\ c <> 34.
Proof.
  unfold Quote.quote_rune.
  repeat match goal with
  | |- context [if ?c then _ else _] => destruct c eqn:?
  end; try (eexists; eexists; split; [reflexivity|cst; lia]).
  (* raw *)
  unfold utf8_encode.
  repeat match goal with
  | |- context [if ?c then _ else _] => destruct c eqn:?
  end; eexists; eexists; (split; [reflexivity|cst; lia]).
Qed.

Lemma quote_body_hd s : s <> [] -> exists c l, quote_body 0 s = c :: l /\ c <> 34.
Proof.
  destruct s as [|b t]; [congruence|]. intros _.
  cbn [Quote.quote_body]. unfold quote_step.
  destruct (utf8_decode (b :: t)) as [r w].
  destruct (Nat.eqb w 1 && (r =? rune_error)).
  - eexists; eexists; split; [reflexivity|cst; lia].
  - destruct (quote_rune_hd r) as (c & l & E & Hc). rewrite E. eexists; eexists; split; [reflexivity|exact Hc].
Qed.

Lemma quote_body_nil s : quote_body 0 s = [] -> s = [].
Proof.
  destruct s as [|b t]; [reflexivity|]. intros H.
  destruct (quote_body_hd (b :: t) ltac:(discriminate)) as (c & l & E & _). congruence.
Qed.

(* unquote on the text  [b] dq body dq  *)
Lemma unquote_core_wrapped ib body s :
  (forall c l, body = c :: l -> c <> 34) ->
  unq_loop ib false body = Ok s ->
  unquote_core false ib (c_dq :: body ++ [c_dq]) = Ok (s, false, ib).
Proof.
  intros Hhd Hloop. unfold unquote_core.
  set (q2 := c_dq :: body ++ [c_dq]).
  assert (Hn : length q2 = S (S (length body))).
  { subst q2. cbn [length]. rewrite app_length. cbn. lia. }
  rewrite Hn.
  assert (L2 : Nat.ltb (S (S (length body))) 2 = false) by (apply Nat.ltb_ge; lia). rewrite L2.
  subst q2.
  change (c_dq :: body ++ [c_dq]) with ((c_dq :: body) ++ [c_dq]) at 2.
  rewrite last_snoc.
  assert (Q : ((negb (c_dq =? c_dq) && negb (c_dq =? c_sq)) || negb (c_dq =? c_dq)) = false) by reflexivity.
  rewrite Q.
  assert (T : (Nat.leb 6 (S (S (length body))) && (nth 1 (c_dq :: body ++ [c_dq]) 0 =? c_dq)) = false).
  { destruct body as [|c l]; [reflexivity|].
    cbn [nth app]. assert (c <> 34) by (eapply Hhd; reflexivity).
    assert (E : (c =? c_dq) = false) by (cst; lia). rewrite E. apply andb_false_r. }
  rewrite T. cbn [andb].
  cbn [skipn]. replace (S (S (length body)) - 2)%nat with (length body) by lia.
  rewrite firstn_snoc_all.
  destruct (contains_any body [c_bs; c_cr]) eqn:C; cbn [negb].
  - rewrite Hloop. reflexivity.
  - pose proof (unq_no_special ib false body C) as E. rewrite E in Hloop. inversion Hloop. reflexivity.
Qed.

Theorem unquote_quote_string_lemma : forall s,
  valid_utf8 s = true -> unquote (quote s false) = Ok (s, false, false).
Proof.
  intros s Hv. unfold Quote.quote. cbn [app]. unfold unquote.
  cbn [c_dq N.eqb Pos.eqb].
  apply unquote_core_wrapped.
  - intros c l E. destruct (quote_body_hd s) as (c' & l' & E' & Hc).
    { intros ->. discriminate. }
    rewrite E in E'. inversion E'. subst. exact Hc.
  - apply (unq_quote_body s false Hv).
Qed.

Theorem unquote_quote_bytes_lemma : forall s,
  bytes_ok s -> unquote (quote s true) = Ok (s, false, true).
Proof.
  intros s Hv. unfold Quote.quote. cbn [app]. unfold unquote.
  cbn [c_dq N.eqb Pos.eqb].
  apply unquote_core_wrapped.
  - intros c l E. destruct (quote_body_hd s) as (c' & l' & E' & Hc).
    { intros ->. discriminate. }
    rewrite E in E'. inversion E'. subst. exact Hc.
  - apply (unq_quote_body s true Hv).
Qed.
End WithIsPrint.
