(* C15 specification (oracle), independent of the model of quote.go / scan.go.

   spec_literal reads ONE string or bytes literal from the front of a source
   text in a single left-to-right pass directed by the lexical grammar of the
   Starlark specification (doc/spec.md "String literals"/"String escapes", plus
   the bytes / Unicode-escape rules of the language spec: \uXXXX and \UXXXXXXXX
   denote the UTF-8 encoding of a Unicode scalar value; in a string literal an
   octal or \x escape may only denote an ASCII byte; in a bytes literal any
   byte).  The implementation does this in two phases (scanner finds the end of
   the token with generic backslash skipping, unquote re-reads the token); the
   spec does not.

   Domain: the source is well-formed UTF-8 (the scanner's treatment of
   ill-formed source bytes is not specified; the check skips such sources). *)
From Coq Require Import NArith List Bool.
From SV Require Import C15.Utf8.
Import ListNotations.
Open Scope N_scope.

Definition omap {A B} (f : A -> B) (o : option A) : option B :=
  match o with Some a => Some (f a) | None => None end.

Definition s_hex (c : N) : option N :=
  if (48 <=? c) && (c <=? 57) then Some (c - 48)
  else if (65 <=? c) && (c <=? 70) then Some (c - 55)
  else if (97 <=? c) && (c <=? 102) then Some (c - 87)
  else None.

Fixpoint s_hexes (ds : list N) (acc : N) : option N :=
  match ds with
  | [] => Some acc
  | d :: r => match s_hex d with Some v => s_hexes r (16 * acc + v) | None => None end
  end.

Definition s_octal (c : N) : bool := (48 <=? c) && (c <=? 55).

(* traditional escapes: letter after the backslash -> byte *)
Definition s_simple (c : N) : option N :=
  if c =? 97 then Some 7 else if c =? 98 then Some 8 else if c =? 102 then Some 12
  else if c =? 110 then Some 10 else if c =? 114 then Some 13 else if c =? 116 then Some 9
  else if c =? 118 then Some 11 else if c =? 92 then Some 92 else if c =? 39 then Some 39
  else if c =? 34 then Some 34 else None.

Definition s_byte_escape (is_bytes : bool) (n : N) (k : option (list N * list N)) :=
  if (255 <? n) || (negb is_bytes && (127 <? n)) then None
  else omap (fun p : list N * list N => (n :: fst p, snd p)) k.

Definition s_unicode_escape (n : N) (k : option (list N * list N)) :=
  if is_scalar n then omap (fun p : list N * list N => (utf8_encode n ++ fst p, snd p)) k else None.

Definition s_emit (bs : list N) (k : option (list N * list N)) : option (list N * list N) :=
  omap (fun p : list N * list N => (bs ++ fst p, snd p)) k.

(* the characters of the literal after the opening delimiter: (denoted bytes, rest of source) *)
Fixpoint s_items (raw is_bytes triple : bool) (q : N) (s : list N) : option (list N * list N) :=
  let emit := s_emit in
  match s with
  | [] => None
  | c :: t =>
    if c =? q then
      if triple then
        match t with
        | c2 :: c3 :: t3 => if (c2 =? q) && (c3 =? q) then Some ([], t3)
                            else emit [c] (s_items raw is_bytes triple q t)
        | _ => emit [c] (s_items raw is_bytes triple q t)
        end
      else Some ([], t)
    else if c =? 10 then
      if triple then emit [10] (s_items raw is_bytes triple q t) else None
    else if c =? 13 then
      if triple then
        match t with
        | n :: t' => if n =? 10 then emit [10] (s_items raw is_bytes triple q t')
                     else emit [10] (s_items raw is_bytes triple q t)
        | [] => None
        end
      else None
    else if c =? 92 then
      match t with
      | [] => None
      | e :: t1 =>
        (* a line ending after the backslash: LF, CR LF or CR *)
        if e =? 10 then
          if raw then emit [92; 10] (s_items raw is_bytes triple q t1)
          else s_items raw is_bytes triple q t1
        else if e =? 13 then
          match t1 with
          | n :: t2 =>
            if n =? 10 then
              if raw then emit [92; 10] (s_items raw is_bytes triple q t2) else s_items raw is_bytes triple q t2
            else
              if raw then emit [92; 10] (s_items raw is_bytes triple q t1) else s_items raw is_bytes triple q t1
          | [] => None
          end
        else if raw then emit [92; e] (s_items raw is_bytes triple q t1)
        else match s_simple e with
        | Some v => emit [v] (s_items raw is_bytes triple q t1)
        | None =>
          if s_octal e then
            match t1 with
            | d1 :: t2 =>
              if s_octal d1 then
                match t2 with
                | d2 :: t3 =>
                  if s_octal d2
                  then s_byte_escape is_bytes (64 * (e - 48) + 8 * (d1 - 48) + (d2 - 48)) (s_items raw is_bytes triple q t3)
                  else s_byte_escape is_bytes (8 * (e - 48) + (d1 - 48)) (s_items raw is_bytes triple q t2)
                | [] => None
                end
              else s_byte_escape is_bytes (e - 48) (s_items raw is_bytes triple q t1)
            | [] => None
            end
          else if e =? 120 then
            match t1 with
            | h1 :: h2 :: t2 =>
              match s_hexes [h1; h2] 0 with
              | Some n => s_byte_escape is_bytes n (s_items raw is_bytes triple q t2)
              | None => None
              end
            | _ => None
            end
          else if e =? 117 then
            match t1 with
            | h1 :: h2 :: h3 :: h4 :: t2 =>
              match s_hexes [h1; h2; h3; h4] 0 with
              | Some n => s_unicode_escape n (s_items raw is_bytes triple q t2)
              | None => None
              end
            | _ => None
            end
          else if e =? 85 then
            match t1 with
            | h1 :: h2 :: h3 :: h4 :: h5 :: h6 :: h7 :: h8 :: t2 =>
              match s_hexes [h1; h2; h3; h4; h5; h6; h7; h8] 0 with
              | Some n => s_unicode_escape n (s_items raw is_bytes triple q t2)
              | None => None
              end
            | _ => None
            end
          else None
        end
      end
    else emit [c] (s_items raw is_bytes triple q t)
  end.

Definition s_is_quote (c : N) : bool := (c =? 34) || (c =? 39).

(* after the prefix: the opening delimiter decides single vs triple *)
Definition s_delimited (raw is_bytes : bool) (s : list N) : option (bool * list N * list N) :=
  match s with
  | q :: t =>
    if s_is_quote q then
      match t with
      | q2 :: q3 :: t3 =>
        if (q2 =? q) && (q3 =? q)
        then omap (fun p : list N * list N => (is_bytes, fst p, snd p)) (s_items raw is_bytes true q t3)
        else omap (fun p : list N * list N => (is_bytes, fst p, snd p)) (s_items raw is_bytes false q t)
      | _ => omap (fun p : list N * list N => (is_bytes, fst p, snd p)) (s_items raw is_bytes false q t)
      end
    else None
  | [] => None
  end.

(* prefixes: none, r, b, rb.  Result: (is_bytes, value, rest). *)
Definition spec_literal (src : list N) : option (bool * list N * list N) :=
  match src with
  | c :: t =>
    if c =? 114 then
      match t with
      | c1 :: t1 => if c1 =? 98 then s_delimited true true t1 else s_delimited true false t
      | [] => None
      end
    else if c =? 98 then s_delimited false true t
    else s_delimited false false src
  | [] => None
  end.
