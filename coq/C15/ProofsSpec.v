(* The text printed by Quote denotes the input according to the specification's
   single-pass literal reader (Spec.v): model meets the independent spec. *)
From Coq Require Import NArith List Bool Lia ZifyBool ZifyNat ZifyN Arith.
From SV Require Import C15.Utf8 C15.Quote C15.Spec C15.ProofsQuote C15.ProofsScan.
Import ListNotations.
Open Scope N_scope.

Notation items := (s_items false).

Lemma s_emit_some bs v r : s_emit bs (Some (v, r)) = Some (bs ++ v, r).
Proof. reflexivity. Qed.

Lemma s_hex_hexdig d : d < 16 -> s_hex (hexdig d) = Some d.
Proof.
  intros H. unfold hexdig, s_hex.
  destruct (d <? 10) eqn:E.
  - assert (A : ((48 <=? 48 + d) && (48 + d <=? 57)) = true) by lia. rewrite A. f_equal. lia.
  - assert (A : ((48 <=? 87 + d) && (87 + d <=? 57)) = false) by lia. rewrite A.
    assert (B : ((65 <=? 87 + d) && (87 + d <=? 70)) = false) by lia. rewrite B.
    assert (C : ((97 <=? 87 + d) && (87 + d <=? 102)) = true) by lia. rewrite C. f_equal. lia.
Qed.

Lemma s_hexes2 a b : a < 16 -> b < 16 -> s_hexes [hexdig a; hexdig b] 0 = Some (16 * a + b).
Proof. intros. cbn [s_hexes]. rewrite !s_hex_hexdig by lia. f_equal; lia. Qed.

Lemma s_hexes4 r : r < 65536 ->
  s_hexes [hexdig ((r / 4096) mod 16); hexdig ((r / 256) mod 16); hexdig ((r / 16) mod 16); hexdig (r mod 16)] 0 = Some r.
Proof.
  intros H. cbn [s_hexes]. rewrite !s_hex_hexdig by apply mod16_lt. f_equal.
  rewrite <- (hex4_sum r H) at 5. lia.
Qed.

Lemma s_hexes8 r : r < 4294967296 ->
  s_hexes [hexdig ((r / 268435456) mod 16); hexdig ((r / 16777216) mod 16);
           hexdig ((r / 1048576) mod 16); hexdig ((r / 65536) mod 16);
           hexdig ((r / 4096) mod 16); hexdig ((r / 256) mod 16);
           hexdig ((r / 16) mod 16); hexdig (r mod 16)] 0 = Some r.
Proof.
  intros H. cbn [s_hexes]. rewrite !s_hex_hexdig by apply mod16_lt. f_equal.
  rewrite <- (hex8_sum r H) at 9. lia.
Qed.

(* a character that stands for itself inside a double-quoted, non-raw literal *)
Definition self (c : N) : Prop := c <> 34 /\ c <> 10 /\ c <> 13 /\ c <> 92.

Lemma items_self ib c X : self c ->
  items ib false 34 (c :: X) = s_emit [c] (items ib false 34 X).
Proof.
  intros (H1 & H2 & H3 & H4). cbn [s_items].
  assert (A : (c =? 34) = false) by lia. assert (B : (c =? 10) = false) by lia.
  assert (C : (c =? 13) = false) by lia. assert (D : (c =? 92) = false) by lia.
  rewrite A, B, C, D. reflexivity.
Qed.

Lemma s_emit_app a b k : s_emit a (s_emit b k) = s_emit (a ++ b) k.
Proof. destruct k as [[v r]|]; cbn; [now rewrite app_assoc|reflexivity]. Qed.

Lemma items_self_app ib l X : Forall self l ->
  items ib false 34 (l ++ X) = s_emit l (items ib false 34 X).
Proof.
  induction 1 as [|c l Hc Hl IH].
  - cbn. destruct (items ib false 34 X) as [[v r]|]; reflexivity.
  - cbn [app]. rewrite items_self by assumption. rewrite IH, s_emit_app. reflexivity.
Qed.

Lemma items_simple ib e v X : s_simple e = Some v -> e <> 10 -> e <> 13 ->
  items ib false 34 (92 :: e :: X) = s_emit [v] (items ib false 34 X).
Proof.
  intros H H1 H2. cbn -[s_simple].
  assert (A : (e =? 10) = false) by lia. assert (B : (e =? 13) = false) by lia.
  rewrite A, B, H. reflexivity.
Qed.

Lemma items_x ib h1 h2 n X : s_hexes [h1; h2] 0 = Some n ->
  items ib false 34 (92 :: 120 :: h1 :: h2 :: X) = s_byte_escape ib n (items ib false 34 X).
Proof. intros H. cbn -[s_hexes s_byte_escape]. rewrite H. reflexivity. Qed.

Lemma items_u ib h1 h2 h3 h4 n X : s_hexes [h1; h2; h3; h4] 0 = Some n ->
  items ib false 34 (92 :: 117 :: h1 :: h2 :: h3 :: h4 :: X) = s_unicode_escape n (items ib false 34 X).
Proof. intros H. cbn -[s_hexes s_unicode_escape]. rewrite H. reflexivity. Qed.

Lemma items_U ib h1 h2 h3 h4 h5 h6 h7 h8 n X : s_hexes [h1; h2; h3; h4; h5; h6; h7; h8] 0 = Some n ->
  items ib false 34 (92 :: 85 :: h1 :: h2 :: h3 :: h4 :: h5 :: h6 :: h7 :: h8 :: X) = s_unicode_escape n (items ib false 34 X).
Proof. intros H. cbn -[s_hexes s_unicode_escape]. rewrite H. reflexivity. Qed.

Section WithIsPrint.
Variable is_print : N -> bool.
Hypothesis is_print_not_newline : forall r, is_print r = true -> r <> 13 /\ r <> 10.

Notation quote_rune := (quote_rune is_print).
Notation quote_body := (quote_body is_print).
Notation quote := (quote is_print).

Lemma items_quote_rune ib r X v rest :
  is_scalar r = true ->
  items ib false 34 X = Some (v, rest) ->
  items ib false 34 (quote_rune r ++ X) = Some (utf8_encode r ++ v, rest).
Proof.
  intros Hs HX. unfold Quote.quote_rune.
  destruct ((r =? c_dq) || (r =? c_bs)) eqn:E1.
  { assert (Hr : r = 34 \/ r = 92) by (cst; lia).
    rewrite utf8_encode_ascii by lia. cbn [app]. change c_bs with 92.
    destruct Hr as [-> | ->].
    - rewrite (items_simple ib 34 34 X eq_refl); [|lia|lia]. rewrite HX. reflexivity.
    - rewrite (items_simple ib 92 92 X eq_refl); [|lia|lia]. rewrite HX. reflexivity. }
  destruct (is_print r) eqn:E2.
  { destruct (is_print_not_newline r E2) as [P1 P2].
    rewrite items_self_app; [rewrite HX; reflexivity|].
    destruct (r <? 0x80) eqn:E3.
    - rewrite utf8_encode_ascii by lia. constructor; [|constructor]. unfold self. cst. lia.
    - eapply Forall_impl; [|apply utf8_encode_high; lia]. intros a Ha. cbv beta in Ha. unfold self. lia. }
  assert (ESC : forall v0 e, r = v0 -> s_simple e = Some v0 -> e <> 10 -> e <> 13 -> v0 < 0x80 ->
                items ib false 34 ([c_bs; e] ++ X) = Some (utf8_encode r ++ v, rest)).
  { intros v0 e -> Hu H1 H2 Hv. rewrite utf8_encode_ascii by lia. cbn [app]. change c_bs with 92.
    rewrite (items_simple ib e v0 X Hu H1 H2), HX. reflexivity. }
  destruct (r =? 7) eqn:C1; [apply (ESC 7 97); try reflexivity; lia|].
  destruct (r =? 8) eqn:C2; [apply (ESC 8 98); try reflexivity; lia|].
  destruct (r =? 12) eqn:C3; [apply (ESC 12 102); try reflexivity; lia|].
  destruct (r =? 10) eqn:C4; [apply (ESC 10 110); try reflexivity; lia|].
  destruct (r =? 13) eqn:C5; [apply (ESC 13 114); try reflexivity; lia|].
  destruct (r =? 9) eqn:C6; [apply (ESC 9 116); try reflexivity; lia|].
  destruct (r =? 11) eqn:C7; [apply (ESC 11 118); try reflexivity; lia|].
  clear ESC.
  destruct ((r <? 32) || (r =? 127)) eqn:E3.
  { rewrite utf8_encode_ascii by lia. cbn [app]. change c_bs with 92.
    rewrite (items_x ib _ _ r X).
    - unfold s_byte_escape.
      assert (G : ((255 <? r) || (negb ib && (127 <? r))) = false) by lia. rewrite G, HX. reflexivity.
    - rewrite s_hexes2 by lia. f_equal. lia. }
  assert (Hmax : r <= 0x10FFFF) by (unfold is_scalar, max_rune in Hs; lia).
  assert (M : (max_rune <? r) = false) by (cst; lia).
  destruct ((max_rune <? r) || (r <? 65536)) eqn:E4.
  { rewrite M. assert (L : r < 65536) by (cst; lia).
    cbn [app]. change c_bs with 92.
    rewrite (items_u ib _ _ _ _ r X (s_hexes4 r L)).
    unfold s_unicode_escape. rewrite Hs, HX. reflexivity. }
  { assert (L : r < 4294967296) by lia.
    cbn [app]. change c_bs with 92.
    rewrite (items_U ib _ _ _ _ _ _ _ _ r X (s_hexes8 r L)).
    unfold s_unicode_escape. rewrite Hs, HX. reflexivity. }
Qed.

Lemma items_quote_body_len : forall (n : nat) (s : list N) (ib : bool) rest,
  (length s <= n)%nat ->
  (if ib then bytes_ok s else valid_utf8 s = true) ->
  items ib false 34 (quote_body 0 s ++ 34 :: rest) = Some (s, rest).
Proof.
  induction n as [|n IH]; intros s ib rest Hn Hok.
  { destruct s; [|simpl in Hn; lia]. cbn. reflexivity. }
  destruct s as [|b t]; [cbn; reflexivity|].
  cbn [Quote.quote_body]. unfold quote_step.
  destruct (utf8_decode (b :: t)) as [r w] eqn:D.
  pose proof (utf8_decode_width (b :: t)) as Hw. rewrite D in Hw. cbn [snd] in Hw.
  pose proof (utf8_decode_width_pos b t) as Hw1. rewrite D in Hw1. cbn [snd] in Hw1.
  assert (Hlen : (w - 1 <= length t)%nat) by (simpl in Hw; lia).
  assert (Hrest : if ib then bytes_ok (skipn (w - 1) t) else valid_utf8 (skipn (w - 1) t) = true).
  { destruct ib.
    - apply bytes_ok_skipn. now inversion Hok.
    - unfold valid_utf8 in *. cbn [valid_utf8_from] in Hok. rewrite D in Hok.
      destruct (decode_invalid (r, w)); [discriminate|]. cbn [snd] in Hok.
      rewrite valid_from_skip in Hok by exact Hlen. exact Hok. }
  assert (IHr : items ib false 34 (quote_body 0 (skipn (w - 1) t) ++ 34 :: rest) = Some (skipn (w - 1) t, rest)).
  { apply IH; [|exact Hrest]. rewrite skipn_length. simpl in Hn. lia. }
  destruct (Nat.eqb w 1 && (r =? rune_error)) eqn:Bad;
    rewrite (quote_body_skip is_print is_print_not_newline) by exact Hlen; rewrite <- app_assoc.
  { assert (W : w = 1%nat) by (apply andb_true_iff in Bad; destruct Bad as [B1 _]; now apply Nat.eqb_eq in B1).
    subst w. cbn [Nat.sub skipn] in *.
    destruct ib.
    - assert (Hb : b < 256) by (inversion Hok; assumption).
      cbn [app]. change c_bs with 92.
      rewrite (items_x true _ _ b _).
      + unfold s_byte_escape. assert (G : ((255 <? b) || (negb true && (127 <? b))) = false) by lia.
        rewrite G, IHr. reflexivity.
      + rewrite s_hexes2 by lia. f_equal. lia.
    - exfalso. unfold valid_utf8 in Hok. cbn [valid_utf8_from] in Hok. rewrite D in Hok.
      unfold decode_invalid in Hok. cbn [fst snd] in Hok.
      assert (R : (r =? rune_error) = true) by (apply andb_true_iff in Bad; tauto).
      rewrite R in Hok. cbn in Hok. discriminate. }
  { assert (Hv : decode_invalid (r, w) = false).
    { unfold decode_invalid. cbn [fst snd]. rewrite andb_comm. exact Bad. }
    destruct (utf8_decode_inv (b :: t) r w D Hv ltac:(discriminate)) as (Hsc & Heq & Hwl).
    assert (S1 : skipn w (b :: t) = skipn (w - 1) t).
    { destruct w; [lia|]. cbn [skipn]. f_equal. lia. }
    rewrite S1 in Heq. rewrite Heq.
    apply items_quote_rune; assumption. }
Qed.

Theorem quote_denotes_lemma : forall (s : list N) (b : bool) rest,
  (if b then bytes_ok s else valid_utf8 s = true) -> no_quote_next rest ->
  spec_literal (quote s b ++ rest) = Some (b, s, rest).
Proof.
  intros s b rest Hok Hrest.
  pose proof (items_quote_body_len (length s) s b rest (le_n _) Hok) as I.
  assert (Hd : s_delimited false b (34 :: quote_body 0 s ++ 34 :: rest) = Some (b, s, rest)).
  { unfold s_delimited. change (s_is_quote 34) with true. cbv iota.
    destruct (quote_body 0 s) as [|c l] eqn:B.
    - cbn [app] in *. destruct rest as [|c' r'].
      + rewrite I. reflexivity.
      + assert (c' <> 34) by (eapply Hrest; reflexivity).
        assert (E : (c' =? 34) = false) by lia.
        change (34 =? 34) with true. rewrite E. cbn [andb]. rewrite I. reflexivity.
    - assert (Hc : c <> 34).
      { destruct (quote_body_hd is_print is_print_not_newline s) as (c0 & l0 & E0 & H0).
        - intros ->. cbn in B. discriminate.
        - rewrite B in E0. inversion E0. subst. exact H0. }
      assert (E : (c =? 34) = false) by lia.
      cbn [app] in *.
      destruct (l ++ 34 :: rest) as [|x r3] eqn:L.
      { destruct l; discriminate. }
      rewrite E. cbn [andb]. rewrite I. reflexivity. }
  unfold Quote.quote. destruct b; cbn [app]; rewrite <- !app_assoc; cbn [app]; change c_dq with 34.
  - unfold spec_literal. change (98 =? 114) with false. change (98 =? 98) with true. cbv iota. exact Hd.
  - unfold spec_literal. change (34 =? 114) with false. change (34 =? 98) with false. cbv iota. exact Hd.
Qed.
End WithIsPrint.
