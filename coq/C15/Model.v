(* C15 executable model (no proofs): Go's UTF-8 codec (Utf8.v), binary64 text
   (Float.v), syntax.Quote / unquote / the scanner's string-literal loop
   (Quote.v), the value printer on trees and on cyclic heaps and the reader of
   printed values (Value.v). *)
From SV Require Export C15.Utf8 C15.Float C15.Quote C15.Value.
