(* C15 executable model (no proofs): UTF-8 codec, Quote / unquote / string
   scanning (Quote.v), float text (Float.v).  The value printer and the
   reader of printed values are in Value.v. *)
From SV Require Export C15.Utf8 C15.Float C15.Quote.
