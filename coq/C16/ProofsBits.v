(* C16 -- the bit-level bridge: for every combination of the four fields of a
   table entry (16 * 32 * 64 * 2 = 65536 combinations, enumerated completely)
   the decoder's shifts and sign extensions recover exactly the fields the
   encoder's shifts and masks packed, and the packed value is a uint16. *)
From Coq Require Import ZArith Bool List Lia.
From SV Require Import Common.GoInt C16.Model.
Import ListNotations.
Open Scope Z_scope.

Definition zrange (lo : Z) (n : nat) : list Z := map (fun i => lo + Z.of_nat i) (seq 0 n).

Lemma in_zrange lo n x : lo <= x < lo + Z.of_nat n -> In x (zrange lo n).
Proof.
  intros H. unfold zrange. apply in_map_iff.
  exists (Z.to_nat (x - lo)). split; [lia|]. apply in_seq. lia.
Qed.

Definition field_ok (q : Z * Z * Z * Z) : bool :=
  let '(dpc, dl, dc, inc) := q in
  let x := pack dpc dl dc inc in
  in_uint16 x && (unpack_pc x =? dpc) && (unpack_line x =? dl) && (unpack_col x =? dc)
  && (unpack_inc x =? inc).

Definition all_fields : list (Z * Z * Z * Z) :=
  list_prod (list_prod (list_prod (zrange 0 16) (zrange (-16) 32)) (zrange (-32) 64)) (zrange 0 2).

Lemma all_fields_ok : forallb field_ok all_fields = true.
Proof. vm_compute. reflexivity. Qed.

Lemma unpack_pack dpc dl dc inc :
  0 <= dpc <= 15 -> -16 <= dl <= 15 -> -32 <= dc <= 31 -> 0 <= inc <= 1 ->
  let x := pack dpc dl dc inc in
  in_uint16 x = true /\ unpack_pc x = dpc /\ unpack_line x = dl /\ unpack_col x = dc /\
  unpack_inc x = inc.
Proof.
  intros H1 H2 H3 H4.
  pose proof (proj1 (forallb_forall field_ok all_fields) all_fields_ok (dpc, dl, dc, inc)) as H.
  assert (Hin : In (dpc, dl, dc, inc) all_fields).
  { unfold all_fields. repeat apply in_prod; apply in_zrange; simpl; lia. }
  specialize (H Hin). cbv beta iota zeta delta [field_ok] in H. cbv zeta.
  repeat (apply andb_true_iff in H; destruct H as [H ?]).
  repeat split; try (apply Z.eqb_eq; assumption). unfold in_uint16. rewrite H, H8. reflexivity.
Qed.
