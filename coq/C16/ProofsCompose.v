(* C16 -- Position on the decoded table of the encoded instructions. *)
From Coq Require Import ZArith Bool List Lia.
From Coq Require Import ZifyBool.
From SV Require Import Common.GoInt C16.Model C16.Spec C16.Proofs C16.ProofsRoundtrip C16.ProofsSearch.
Import ListNotations.
Open Scope Z_scope.

Lemma sorted_filter f l : pcs_sorted l -> pcs_sorted (filter f l).
Proof.
  induction l as [|a l IH]; intros Hs; [exact I|].
  cbn [filter]. pose proof (sorted_head_le _ _ Hs) as Hh.
  specialize (IH (sorted_tail _ _ Hs)).
  destruct (f a); [|exact IH].
  cbn [pcs_sorted]. split; [|exact IH].
  destruct (filter f l) as [|b r] eqn:E; [exact I|].
  apply Hh. assert (In b (filter f l)) by (rewrite E; left; reflexivity).
  apply filter_In in H. tauto.
Qed.

Lemma filter_length_le {A} (f : A -> bool) l : (length (filter f l) <= length l)%nat.
Proof. induction l as [|a l IH]; cbn; [lia|]. destruct (f a); cbn; lia. Qed.

Lemma position_of_code_lemma line col insns pc :
  in_int32 line = true -> in_int32 col = true ->
  Forall (fun t => row_ok t = true) insns ->
  pcs_sorted insns ->
  Z.of_nat (length insns) <= max_int64 ->
  position_of_code line col insns pc = Ok (lookup_spec (rows_of insns) pc).
Proof.
  intros Hl Hc Hall Hs Hlen. unfold position_of_code.
  destruct (lnt_roundtrip_lemma line col insns Hl Hc Hall) as (tab & -> & _ & ->).
  apply position_lookup_lemma.
  - pose proof (filter_length_le (fun t => negb (r_line t =? 0)) insns). unfold rows_of. lia.
  - apply sorted_filter. exact Hs.
Qed.

Lemma encoder_inner_loop_terminates_lemma :
  forall fuel prev t,
    row_ok prev = true -> row_ok t = true ->
    (rounds prev t <= fuel)%nat ->
    exists es, enc_row fuel prev t = Ok (t, es) /\ es <> [] /\
               Z.of_nat (rounds prev t) <= 286331154.
Proof.
  intros fuel prev t Hp Ht Hf.
  destruct (enc_row_terminates fuel prev t Hp Ht Hf) as [[p es] E].
  destruct (enc_row_sound fuel prev t p es Hp Ht E) as (-> & _ & Hne & _).
  exists es. split; [exact E|]. split; [exact Hne|apply rounds_bounded].
Qed.

Lemma encoder_never_panics_lemma :
  forall fuel prev insns, encode fuel prev insns <> Panic.
Proof. intros fuel prev insns. apply encode_never_panics. Qed.

Lemma position_lookup_index_lemma :
  forall lnt pc,
    Z.of_nat (length lnt) <= max_int64 -> pcs_sorted lnt -> lnt <> [] ->
    exists i r, is_lookup lnt pc i /\ nth_error lnt i = Some r /\
                position lnt pc = Ok (r_line r, r_col r).
Proof.
  intros lnt pc Hn Hs Hne.
  destruct (lookup_spec_is_lookup lnt pc Hn Hs Hne) as (i & r & Hl & Hr & E).
  exists i, r. split; [exact Hl|]. split; [exact Hr|].
  rewrite <- E. apply position_lookup_lemma; assumption.
Qed.
