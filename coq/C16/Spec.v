(* C16 -- specification of the position table, independent of the encoding:
   what the table must answer, written as plain list functions. *)
From Coq Require Import ZArith Bool List.
From SV Require Import Common.GoInt C16.Model.
Import ListNotations.
Open Scope Z_scope.

(* The rows of the table: the positions of the instructions that carry one
   (generate skips instructions with line = 0).  No other de-duplication:
   two consecutive instructions at the same source position give two rows. *)
Definition rows_of (insns : list row) : list row :=
  filter (fun t => negb (r_line t =? 0)) insns.

(* non-decreasing pc *)
Fixpoint pcs_sorted (l : list row) : Prop :=
  match l with
  | [] => True
  | a :: r => match r with [] => True | b :: _ => r_pc a <= r_pc b end /\ pcs_sorted r
  end.

Fixpoint pcs_sortedb (l : list row) : bool :=
  match l with
  | [] => true
  | a :: r => match r with [] => true | b :: _ => r_pc a <=? r_pc b end && pcs_sortedb r
  end.

(* The row that describes pc: the last row whose pc is <= pc; when pc lies
   before the first row, the first row; (0, 0) when there is no row at all.
   Linear scan, no arithmetic on indices. *)
Fixpoint last_le (cur : row) (l : list row) (pc : Z) : row :=
  match l with
  | [] => cur
  | r :: rest => if r_pc r <=? pc then last_le r rest pc else last_le cur rest pc
  end.

Definition lookup_spec (rows : list row) (pc : Z) : Z * Z :=
  match rows with
  | [] => (0, 0)
  | r0 :: rest => let r := last_le r0 rest pc in (r_line r, r_col r)
  end.

(* the same as a relation, for the theorem statement: i is the index chosen *)
Definition is_lookup (rows : list row) (pc : Z) (i : nat) : Prop :=
  (i < length rows)%nat /\
  (forall k r, (k <= i)%nat -> (0 < k)%nat -> nth_error rows k = Some r -> r_pc r <= pc) /\
  (forall r, nth_error rows (S i) = Some r -> pc < r_pc r).

Definition list_eqb {A} (eqb : A -> A -> bool) :=
  fix go (a b : list A) : bool :=
    match a, b with
    | [], [] => true
    | x :: a', y :: b' => eqb x y && go a' b'
    | _, _ => false
    end.
