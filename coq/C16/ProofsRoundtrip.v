(* C16 -- decode (encode rows) = rows, and the encoder never runs out of the
   stated fuel and never panics. *)
From Coq Require Import ZArith Bool List Lia.
From Coq Require Import ZifyBool.
From SV Require Import Common.GoInt C16.Model C16.Spec C16.ProofsBits C16.ProofsArith C16.Proofs.
Import ListNotations.
Open Scope Z_scope.

(* Partial correctness for ANY fuel: whenever the inner loop returns, it has
   reached the target row exactly, all entries are uint16, and the decoder,
   started from the same running row, emits exactly one row -- the target --
   while consuming these entries. *)
Lemma enc_row_sound fuel : forall prev t p' es,
  row_ok prev = true -> row_ok t = true ->
  enc_row fuel prev t = Ok (p', es) ->
  p' = t /\ Forall (fun e => in_uint16 e = true) es /\ es <> [] /\
  forall rest, decode prev (es ++ rest) = t :: decode t rest.
Proof.
  induction fuel as [|f IH]; intros prev t p' es Hprev Ht E; [discriminate|].
  cbn [enc_row] in E.
  destruct (enc_step prev t) as [[p1 e] inc] eqn:Es.
  destruct (enc_step_spec _ _ _ _ _ Hprev Ht Es) as (Hp1 & He & Hdec & Hinc & Hdone & _).
  destruct inc.
  - destruct (enc_row f p1 t) as [[p2 es2]| |] eqn:Er; try discriminate.
    injection E as <- <-.
    destruct (IH _ _ _ _ Hp1 Ht Er) as (-> & Hall & _ & Hd).
    split; [reflexivity|]. split; [constructor; assumption|]. split; [discriminate|].
    intros rest. cbn [app decode]. rewrite Hdec, Hinc. cbn. apply Hd.
  - injection E as <- <-.
    split; [apply Hdone; reflexivity|]. split; [constructor; [assumption|constructor]|].
    split; [discriminate|].
    intros rest. cbn [app decode]. rewrite Hdec, Hinc. cbn. rewrite (Hdone eq_refl). reflexivity.
Qed.

Lemma enc_row_never_panics fuel : forall prev t, enc_row fuel prev t <> Panic.
Proof.
  induction fuel as [|f IH]; intros prev t; [discriminate|].
  cbn [enc_row]. destruct (enc_step prev t) as [[p1 e] inc].
  destruct inc; [|discriminate].
  specialize (IH p1 t). destruct (enc_row f p1 t) as [[? ?]| |]; congruence.
Qed.

(* Termination: `rounds prev t` rounds always suffice. *)
Lemma enc_row_terminates fuel : forall prev t,
  row_ok prev = true -> row_ok t = true ->
  (rounds prev t <= fuel)%nat ->
  exists r, enc_row fuel prev t = Ok r.
Proof.
  induction fuel as [|f IH]; intros prev t Hprev Ht Hf.
  - rewrite rounds_need in Hf. lia.
  - cbn [enc_row].
    destruct (enc_step prev t) as [[p1 e] inc] eqn:Es.
    destruct (enc_step_spec _ _ _ _ _ Hprev Ht Es) as (Hp1 & _ & _ & _ & _ & Hless).
    destruct inc; [|eexists; reflexivity].
    specialize (Hless eq_refl).
    assert (Hf' : (rounds p1 t <= f)%nat).
    { rewrite rounds_need in *. pose proof (need_nonneg p1 t). pose proof (need_nonneg prev t). lia. }
    destruct (IH _ _ Hp1 Ht Hf') as [[p2 es2] ->]. eexists; reflexivity.
Qed.

(* the number of rounds never exceeds 2^32/15 + 1 for Go-typed rows *)
Lemma rounds_bounded prev t : Z.of_nat (rounds prev t) <= 286331154.
Proof.
  rewrite rounds_need. unfold need, dpc_of, dl_of, dc_of.
  pose proof (wrapu32_bounds (r_pc t - r_pc prev)).
  pose proof (wrap32_bounds (r_line t - r_line prev)).
  pose proof (wrap32_bounds (r_col t - r_col prev)).
  assert (wrapu32 (r_pc t - r_pc prev) / 15 <= 4294967295 / 15) by (apply Z.div_le_mono; lia).
  assert (Z.abs (wrap32 (r_line t - r_line prev)) / 15 <= 2147483648 / 15) by (apply Z.div_le_mono; lia).
  assert (Z.abs (wrap32 (r_col t - r_col prev)) / 31 <= 2147483648 / 31) by (apply Z.div_le_mono; lia).
  change (4294967295 / 15) with 286331153 in *.
  change (2147483648 / 15) with 143165576 in *.
  change (2147483648 / 31) with 69273666 in *.
  lia.
Qed.

Definition fuel_enough (fuel : row -> row -> nat) : Prop :=
  forall prev t, (rounds prev t <= fuel prev t)%nat.

Lemma rows_of_cons t rest :
  rows_of (t :: rest) = if r_line t =? 0 then rows_of rest else t :: rows_of rest.
Proof. unfold rows_of. cbn [filter]. destruct (r_line t =? 0); reflexivity. Qed.

(* Partial correctness of the whole table for ANY fuel function. *)
Lemma encode_sound fuel : forall insns prev tab,
  row_ok prev = true -> Forall (fun t => row_ok t = true) insns ->
  encode fuel prev insns = Ok tab ->
  Forall (fun e => in_uint16 e = true) tab /\ decode prev tab = rows_of insns.
Proof.
  induction insns as [|t rest IH]; intros prev tab Hprev Hall E.
  - injection E as <-. split; [constructor|reflexivity].
  - inversion Hall as [|? ? Ht Hrest]; subst.
    cbn [encode] in E. rewrite rows_of_cons.
    destruct (r_line t =? 0) eqn:E0; [apply IH; assumption|].
    destruct (enc_row (fuel prev t) prev t) as [[p1 es]| |] eqn:Er; try discriminate.
    destruct (encode fuel p1 rest) as [tab'| |] eqn:Ee; try discriminate.
    injection E as <-.
    destruct (enc_row_sound _ _ _ _ _ Hprev Ht Er) as (-> & Hes & _ & Hd).
    destruct (IH _ _ Ht Hrest Ee) as (Htab & Hdec).
    split; [apply Forall_app; split; assumption|].
    rewrite Hd, Hdec. reflexivity.
Qed.

Lemma encode_total fuel : fuel_enough fuel -> forall insns prev,
  row_ok prev = true -> Forall (fun t => row_ok t = true) insns ->
  exists tab, encode fuel prev insns = Ok tab.
Proof.
  intros Hf. induction insns as [|t rest IH]; intros prev Hprev Hall.
  - eexists; reflexivity.
  - inversion Hall as [|? ? Ht Hrest]; subst.
    cbn [encode]. destruct (r_line t =? 0); [apply IH; assumption|].
    destruct (enc_row_terminates _ _ _ Hprev Ht (Hf prev t)) as [[p1 es] Er].
    rewrite Er.
    destruct (enc_row_sound _ _ _ _ _ Hprev Ht Er) as (-> & _).
    destruct (IH _ Ht Hrest) as [tab' ->]. eexists; reflexivity.
Qed.

Lemma encode_never_panics fuel : forall insns prev, encode fuel prev insns <> Panic.
Proof.
  induction insns as [|t rest IH]; intros prev; [discriminate|].
  cbn [encode]. destruct (r_line t =? 0); [apply IH|].
  pose proof (enc_row_never_panics (fuel prev t) prev t).
  destruct (enc_row (fuel prev t) prev t) as [[p1 es]| |]; try congruence.
  specialize (IH p1). destruct (encode fuel p1 rest); congruence.
Qed.

Lemma rounds_enough : fuel_enough rounds.
Proof. intros prev t. apply le_n. Qed.

Lemma start_ok line col : in_int32 line = true -> in_int32 col = true -> row_ok (start line col) = true.
Proof. intros Hl Hc. unfold row_ok, start. cbn. rewrite Hl, Hc. reflexivity. Qed.

Lemma lnt_roundtrip_lemma line col insns :
  in_int32 line = true -> in_int32 col = true ->
  Forall (fun t => row_ok t = true) insns ->
  exists tab,
    encode_fn line col insns = Ok tab /\
    Forall (fun e => in_uint16 e = true) tab /\
    decode_fn line col tab = rows_of insns.
Proof.
  intros Hl Hc Hall. unfold encode_fn, decode_fn.
  destruct (encode_total rounds rounds_enough insns _ (start_ok _ _ Hl Hc) Hall) as [tab E].
  exists tab. split; [exact E|]. eapply encode_sound; eauto using start_ok.
Qed.

Lemma lnt_roundtrip_any_fuel_lemma fuel line col insns tab :
  in_int32 line = true -> in_int32 col = true ->
  Forall (fun t => row_ok t = true) insns ->
  encode fuel (start line col) insns = Ok tab ->
  decode_fn line col tab = rows_of insns.
Proof.
  intros Hl Hc Hall E. eapply encode_sound; eauto using start_ok.
Qed.
