(* C16 -- model of the pc -> (line, col) table of internal/compile/compile.go:

     clip                    (func clip)
     enc_step / enc_row      the inner `for { ... }` of fcomp.generate that
                             delta-encodes ONE instruction position into one or
                             more uint16 entries (4-bit pc delta, 5-bit signed
                             line delta, 6-bit signed column delta, 1
                             continuation bit)
     encode                  the instruction loop of generate restricted to its
                             effect on pclinetab (instructions with line = 0
                             carry no position and are skipped)
     dec_step / decode       Funcode.decodeLNT
     bsearch / position      the binary search of Funcode.Position

   Go integer widths are explicit: pc is uint32, line/col are int32, table
   entries are uint16, slice indices are int (= int64).  Every arithmetic
   operation of the Go code is followed by the wrap of its Go type, every
   shift/mask is the Z bit operation on the two's-complement reading.

   The Go loop has no fuel; the model takes explicit fuel and returns the
   distinguished result OutOfFuel on exhaustion (Proofs.v: never happens with
   the stated bound).  A slice index out of range is the distinguished result
   Panic (Proofs.v: never happens). *)
From Coq Require Import ZArith Bool List.
From SV Require Import Common.GoInt.
Import ListNotations.
Open Scope Z_scope.

Inductive res (A : Type) :=
| Ok (a : A)
| OutOfFuel
| Panic.
Arguments Ok {A} a.
Arguments OutOfFuel {A}.
Arguments Panic {A}.

(* pclinecol / the position part of insn *)
Record row := mkrow { r_pc : Z; r_line : Z; r_col : Z }.

Definition row_eqb (a b : row) : bool :=
  (r_pc a =? r_pc b) && (r_line a =? r_line b) && (r_col a =? r_col b).

Definition in_uint16 (z : Z) : bool := (0 <=? z) && (z <=? 65535).

(* a row whose fields have their Go types *)
Definition row_ok (r : row) : bool :=
  in_uint32 (r_pc r) && in_int32 (r_line r) && in_int32 (r_col r).

(* func clip(x, min, max int32) (int32, bool) *)
Definition clip (x mn mx : Z) : Z * bool :=
  if x >? mx then (mx, false)
  else if x <? mn then (mn, false)
  else (x, true).

(* entry := uint16(deltapc<<12) | uint16(deltaline&0x1f)<<7 | uint16(deltacol&0x3f)<<1 | incomplete
   deltapc : uint32, deltaline deltacol : int32, incomplete : uint16 *)
Definition pack (dpc dline dcol inc : Z) : Z :=
  Z.lor (Z.lor (Z.lor (wrapu16 (wrapu32 (Z.shiftl dpc 12)))
                      (wrapu16 (Z.shiftl (wrapu16 (Z.land dline 31)) 7)))
               (wrapu16 (Z.shiftl (wrapu16 (Z.land dcol 63)) 1)))
        inc.

(* uint32(x) >> 12 *)
Definition unpack_pc (x : Z) : Z := Z.shiftr x 12.
(* int32((int16(x) << 4) >> (16 - 5)) *)
Definition unpack_line (x : Z) : Z := Z.shiftr (wrap16 (Z.shiftl (wrap16 x) 4)) 11.
(* int32((int16(x) << 9) >> (16 - 6)) *)
Definition unpack_col (x : Z) : Z := Z.shiftr (wrap16 (Z.shiftl (wrap16 x) 9)) 10.
(* x & 1 *)
Definition unpack_inc (x : Z) : Z := Z.land x 1.

(* One round of the inner loop of generate for the instruction position t,
   with `prev` the running pclinecol.  Returns the new prev, the entry and
   whether the entry is incomplete. *)
Definition enc_step (prev t : row) : row * Z * bool :=
  let dpc0 := wrapu32 (r_pc t - r_pc prev) in
  let '(dpc, inc1) := if dpc0 >? 15 then (15, true) else (dpc0, false) in
  let ppc := wrapu32 (r_pc prev + dpc) in
  let '(dl, okl) := clip (wrap32 (r_line t - r_line prev)) (-16) 15 in
  let pl := wrap32 (r_line prev + dl) in
  let '(dc, okc) := clip (wrap32 (r_col t - r_col prev)) (-32) 31 in
  let pcl := wrap32 (r_col prev + dc) in
  let inc := inc1 || negb okl || negb okc in
  (mkrow ppc pl pcl, pack dpc dl dc (if inc then 1 else 0), inc).

(* the inner `for { ...; if incomplete == 0 { break } }` *)
Fixpoint enc_row (fuel : nat) (prev t : row) : res (row * list Z) :=
  match fuel with
  | O => OutOfFuel
  | S f =>
      let '(p', e, inc) := enc_step prev t in
      if inc then
        match enc_row f p' t with
        | Ok (p'', es) => Ok (p'', e :: es)
        | OutOfFuel => OutOfFuel
        | Panic => Panic
        end
      else Ok (p', [e])
  end.

(* the instruction loop of generate, as far as pclinetab is concerned:
   `if insn.line != 0 { ...delta-encode... }`.  `fuel` gives the number of
   rounds allowed to each instruction. *)
Fixpoint encode (fuel : row -> row -> nat) (prev : row) (insns : list row) : res (list Z) :=
  match insns with
  | [] => Ok []
  | t :: rest =>
      if r_line t =? 0 then encode fuel prev rest
      else
        match enc_row (fuel prev t) prev t with
        | Ok (p', es) =>
            match encode fuel p' rest with
            | Ok tab => Ok (es ++ tab)
            | OutOfFuel => OutOfFuel
            | Panic => Panic
            end
        | OutOfFuel => OutOfFuel
        | Panic => Panic
        end
  end.

(* number of rounds the inner loop needs at most (Proofs.v: enc_row_terminates) *)
Definition rounds (prev t : row) : nat :=
  S (Z.to_nat (Z.max (wrapu32 (r_pc t - r_pc prev) / 15)
              (Z.max (Z.abs (wrap32 (r_line t - r_line prev)) / 15)
                     (Z.abs (wrap32 (r_col t - r_col prev)) / 31)))).

(* the starting pclinecol of both encoder and decoder: {0, fn.Pos.Line, fn.Pos.Col} *)
Definition start (line col : Z) : row := mkrow 0 line col.

Definition encode_fn (line col : Z) (insns : list row) : res (list Z) :=
  encode rounds (start line col) insns.

(* decodeLNT: body of `for _, x := range fn.pclinetab` *)
Definition dec_step (entry : row) (x : Z) : row :=
  mkrow (wrapu32 (r_pc entry + unpack_pc x))
        (wrap32 (r_line entry + unpack_line x))
        (wrap32 (r_col entry + unpack_col x)).

Fixpoint decode (entry : row) (tab : list Z) : list row :=
  match tab with
  | [] => []
  | x :: rest =>
      let e := dec_step entry x in
      if unpack_inc x =? 0 then e :: decode e rest else decode e rest
  end.

Definition decode_fn (line col : Z) (tab : list Z) : list row := decode (start line col) tab.

(* fn.lnt[i] with Go's bounds check *)
Definition lnt_at (lnt : list row) (i : Z) : res row :=
  if (i <? 0) then Panic
  else match nth_error lnt (Z.to_nat i) with Some r => Ok r | None => Panic end.

(* for i < j { h := int(uint(i+j) >> 1)
               if !(h >= n-1 || fn.lnt[h+1].pc > pc) { i = h + 1 } else { j = h } } *)
Fixpoint bsearch (fuel : nat) (lnt : list row) (n pc i j : Z) : res Z :=
  match fuel with
  | O => OutOfFuel
  | S f =>
      if i <? j then
        let h := wrap64 (Z.shiftr (wrapu64 (wrap64 (i + j))) 1) in
        if h >=? wrap64 (n - 1) then bsearch f lnt n pc i h
        else match lnt_at lnt (wrap64 (h + 1)) with
             | Ok r => if r_pc r >? pc then bsearch f lnt n pc i h
                       else bsearch f lnt n pc (wrap64 (h + 1)) j
             | OutOfFuel => OutOfFuel
             | Panic => Panic
             end
      else Ok i
  end.

(* Funcode.Position: the (line, col) reported for pc; (0, 0) for an empty table *)
Definition position (lnt : list row) (pc : Z) : res (Z * Z) :=
  let n := Z.of_nat (length lnt) in
  match bsearch (S (length lnt)) lnt n pc 0 n with
  | Ok i =>
      if i <? n then
        match lnt_at lnt i with
        | Ok r => Ok (r_line r, r_col r)
        | OutOfFuel => OutOfFuel
        | Panic => Panic
        end
      else Ok (0, 0)
  | OutOfFuel => OutOfFuel
  | Panic => Panic
  end.

(* what a frame reports: Position on the decoded table of the encoded instructions *)
Definition position_of_code (line col : Z) (insns : list row) (pc : Z) : res (Z * Z) :=
  match encode_fn line col insns with
  | Ok tab => position (decode_fn line col tab) pc
  | OutOfFuel => OutOfFuel
  | Panic => Panic
  end.
