(* C16 -- the classification `fallible` against C01's VM (VM.exec_insn / VM.step):
   an instruction with an infallible opcode never ends a step with an error;
   an error always reports the position carried by the instruction that failed;
   every fallible opcode has an instruction and a machine state that fail. *)
From Coq Require Import ZArith String List Bool.
From SV Require Import C01.Syntax C01.Values C01.Ref C01.VM C16.FallibleSpec.
Import ListNotations.
Open Scope list_scope.
Open Scope nat_scope.

Ltac break_match :=
  match goal with
  | |- context [match ?x with _ => _ end] => destruct x
  | |- context [if ?x then _ else _] => destruct x
  end.

Lemma of_pres_fail {A} (r : pres A) q w k p ic w' :
  of_pres r q w k = Stop (VFail p ic w') ->
  (q = p) \/ (exists a, r = POk a /\ k a = Stop (VFail p ic w')).
Proof.
  unfold of_pres, fail. destruct r; intros H.
  - right. eexists. split; [reflexivity|exact H].
  - left. congruence.
  - discriminate.
Qed.

Lemma call_value_fail cp fname f rest g w pc st q fn args kwargs p ic w' :
  call_value cp fname f rest g w pc st q fn args kwargs = Stop (VFail p ic w') -> q = p.
Proof.
  unfold call_value, fail. intros H.
  destruct fn;
    try (apply of_pres_fail in H; destruct H as [H|(a & _ & H)]; [exact H|discriminate]);
    try congruence.
  destruct (find_code (cp_funs cp) fid); [|discriminate].
  destruct (negb (cp_recursion cp) && _); [congruence|].
  destruct (bind_args _ _ _ _ _) as [[params w1]| |]; [|congruence|discriminate].
  destruct (spill _ _ _). discriminate.
Qed.

(* an error reports the position the failing instruction carries *)
Lemma exec_fail_pos cp fname i f rest g w p ic w' :
  exec_insn cp fname i f rest g w = Stop (VFail p ic w') -> insn_pos i = Some p.
Proof.
  intros H. unfold exec_insn in H.
  destruct i; cbn [insn_pos];
    try (exfalso; revert H; unfold fail; repeat break_match; discriminate).
  - (* BINARY *) destruct (fr_stack f) as [|y [|x st]]; try discriminate.
    apply of_pres_fail in H. destruct H as [->|(a & _ & H)]; [reflexivity|discriminate].
  - (* UNARY *) destruct (fr_stack f) as [|x st]; try discriminate.
    apply of_pres_fail in H. destruct H as [->|(a & _ & H)]; [reflexivity|discriminate].
  - destruct (fr_stack f) as [|y [|x st]]; try discriminate.
    apply of_pres_fail in H. destruct H as [->|(a & _ & H)]; [reflexivity|discriminate].
  - destruct (fr_stack f) as [|y [|x st]]; try discriminate.
    apply of_pres_fail in H. destruct H as [->|(a & _ & H)]; [reflexivity|discriminate].
  - (* ITERPUSH *) destruct (fr_stack f) as [|x st]; try discriminate.
    apply of_pres_fail in H. destruct H as [->|([[vs lock] w1] & _ & H)]; [reflexivity|discriminate].
  - (* SETINDEX *) destruct (fr_stack f) as [|z [|y [|x st]]]; try discriminate.
    apply of_pres_fail in H. destruct H as [->|(a & _ & H)]; [reflexivity|discriminate].
  - (* INDEX *) destruct (fr_stack f) as [|y [|x st]]; try discriminate.
    apply of_pres_fail in H. destruct H as [->|(a & _ & H)]; [reflexivity|discriminate].
  - (* SETDICT *) destruct (fr_stack f) as [|z [|y [|x st]]]; try discriminate.
    apply of_pres_fail in H. destruct H as [->|(a & _ & H)]; [reflexivity|discriminate].
  - (* SETDICTUNIQ *) destruct (fr_stack f) as [|z [|y [|x st]]]; try discriminate.
    apply of_pres_fail in H. destruct H as [->|(a & _ & H)]; [reflexivity|].
    destruct a; [unfold fail in H; congruence|].
    apply of_pres_fail in H. destruct H as [->|(a & _ & H)]; [reflexivity|discriminate].
  - (* SLICE *) destruct (fr_stack f) as [|s [|hi [|lo [|x st]]]]; try discriminate.
    apply of_pres_fail in H. destruct H as [->|(a & _ & H)]; [reflexivity|discriminate].
  - (* LOAD *) revert H. unfold fail. repeat break_match; intros H; try discriminate; congruence.
  - (* LOCAL *) revert H. unfold fail. repeat break_match; intros H; try discriminate; congruence.
  - (* GLOBAL *) revert H. unfold fail. repeat break_match; intros H; try discriminate; congruence.
  - (* FREECELL *) revert H. unfold fail. repeat break_match; intros H; try discriminate; congruence.
  - (* LOCALCELL *) revert H. unfold fail. repeat break_match; intros H; try discriminate; congruence.
  - (* ATTR *) destruct (fr_stack f) as [|sv st]; try discriminate.
    apply of_pres_fail in H. destruct H as [->|(a & _ & H)]; [reflexivity|discriminate].
  - (* SETFIELD *) revert H. unfold fail. repeat break_match; intros H; try discriminate; congruence.
  - (* UNPACK *) destruct (fr_stack f) as [|x st]; try discriminate.
    apply of_pres_fail in H. destruct H as [->|(a & _ & H)]; [reflexivity|discriminate].
  - (* CALL *)
    destruct (match Nat.leb 2 mode, fr_stack f with
              | true, v :: r => (Some (Some v), r) | true, [] => (None, fr_stack f) | false, _ => (Some None, fr_stack f) end)
      as [ss st1].
    destruct ss as [ss|]; [|discriminate].
    destruct (match Nat.odd mode, st1 with
              | true, v :: r => (Some (Some v), r) | true, [] => (None, st1) | false, _ => (Some None, st1) end)
      as [sa st2].
    destruct sa as [sa|]; [|discriminate].
    destruct (popn (2 * nnamed) st2 []) as [[kvs st3]|]; [|discriminate].
    destruct (pairs_of kvs) as [named|]; [|discriminate].
    destruct (popn npos st3 []) as [[args st4]|]; [|discriminate].
    destruct st4 as [|fn st5]; [discriminate|].
    apply of_pres_fail in H. destruct H as [->|(kw2 & _ & H)]; [reflexivity|].
    apply of_pres_fail in H. destruct H as [->|(pos2 & _ & H)]; [reflexivity|].
    apply call_value_fail in H. subst. reflexivity.
Qed.

Lemma insn_pos_fallible i : fallible (op i) = is_some (insn_pos i).
Proof. destruct i; reflexivity. Qed.

Lemma site_of_pos i : map snd (site_of i) = match insn_pos i with Some p => [p] | None => [] end.
Proof. destruct i; reflexivity. Qed.

Lemma infallible_never_fails_lemma :
  forall cp fname i f rest g w p ic w',
    fallible (op i) = false -> exec_insn cp fname i f rest g w <> Stop (VFail p ic w').
Proof.
  intros cp fname i f rest g w p ic w' Hf H. apply exec_fail_pos in H.
  rewrite insn_pos_fallible, H in Hf. discriminate.
Qed.

(* the same through VM.step: the failing instruction is the one at the pc of the innermost frame *)
Lemma step_fail_insn cp fname s p ic w' :
  step cp fname s = Stop (VFail p ic w') ->
  exists f rest i, vs_frames s = f :: rest /\ nth_error (fr_code f) (fr_pc f) = Some i /\
                   fallible (op i) = true /\ insn_pos i = Some p.
Proof.
  unfold step. destruct (vs_frames s) as [|f rest]; [discriminate|].
  destruct (nth_error (fr_code f) (fr_pc f)) as [i|] eqn:E; [|discriminate].
  intros H. apply exec_fail_pos in H. exists f, rest, i.
  rewrite insn_pos_fallible, H. auto.
Qed.

(* ---- every fallible opcode does fail on some state: witnesses *)
Definition fr0 (st : list value) (locals : list (option value)) (free : list (string * nat)) : frame :=
  {| fr_fid := None; fr_code := []; fr_pc := 0; fr_stack := st; fr_locals := locals; fr_iters := []; fr_free := free |}.

Definition cp0 : cprog :=
  {| cp_top := {| fc_name := ""; fc_code := []; fc_nlocals := 0; fc_params := []; fc_cells := []; fc_free := [] |};
     cp_funs := []; cp_recursion := false |}.

Definition fails (i : insn) (f : frame) (g : genv) (w : world) : bool :=
  match exec_insn cp0 (fun _ => ""%string) i f [] g w with Stop (VFail _ _ _) => true | _ => false end.

Definition w_cell : world := snd (alloc_cell None empty_world).

(* one failing instruction and state per fallible opcode *)
Definition witness (o : opcode) : option (insn * frame * genv * world) :=
  let q : pos := (1, 1) in
  let e := empty_world in
  match o with
  | OpBINARY => Some (BINARY Sub q, fr0 [VStr "a"; VInt 1] [] [], [], e)
  | OpUNARY => Some (UNARY UNeg q, fr0 [VStr "a"] [] [], [], e)
  | OpINPLACE_ADD => Some (INPLACE_ADD q, fr0 [VStr "a"; VInt 1] [] [], [], e)
  | OpINPLACE_PIPE => Some (INPLACE_PIPE q, fr0 [VStr "a"; VInt 1] [] [], [], e)
  | OpITERPUSH => Some (ITERPUSH q, fr0 [VInt 1] [] [], [], e)
  | OpSETINDEX => Some (SETINDEX q, fr0 [VInt 1; VInt 1; VInt 1] [] [], [], e)
  | OpINDEX => Some (INDEX q, fr0 [VInt 1; VInt 1] [] [], [], e)
  | OpSETDICT => Some (SETDICT q, fr0 [VInt 1; VInt 1; VInt 1] [] [], [], e)
  | OpSETDICTUNIQ => Some (SETDICTUNIQ q, fr0 [VInt 1; VInt 1; VInt 1] [] [], [], e)
  | OpSLICE => Some (SLICE q, fr0 [VNone; VNone; VNone; VInt 1] [] [], [], e)
  | OpLOAD => Some (LOAD 0 q, fr0 [VStr "no such module"] [] [], [], e)
  | OpLOCAL => Some (LOCAL 0 q, fr0 [] [None] [], [], e)
  | OpGLOBAL => Some (GLOBAL 0 q, fr0 [] [] [], [None], e)
  | OpFREECELL => Some (FREECELL 0 q, fr0 [] [] [(""%string, 0)], [], w_cell)
  | OpLOCALCELL => Some (LOCALCELL 0 q, fr0 [] [Some (VCell 0)] [], [], w_cell)
  | OpATTR => Some (ATTR "nope" q, fr0 [VInt 1] [] [], [], e)
  | OpSETFIELD => Some (SETFIELD "f" q, fr0 [VInt 1; VInt 1] [] [], [], e)
  | OpUNPACK => Some (UNPACK 2 q, fr0 [VInt 1] [] [], [], e)
  | OpCALL => Some (CALL 0 0 0 q, fr0 [VInt 1] [] [], [], e)
  | _ => None
  end.

Definition all_opcodes : list opcode :=
  [ OpNOP; OpDUP; OpDUP2; OpPOP; OpEXCH; OpBINARY; OpUNARY; OpNOT; OpINPLACE_ADD; OpINPLACE_PIPE;
    OpNONE; OpTRUE; OpFALSE; OpMANDATORY; OpITERPUSH; OpITERPOP; OpITERJMP; OpRETURN;
    OpSETINDEX; OpINDEX; OpSETDICT; OpSETDICTUNIQ; OpAPPEND; OpMAKEDICT; OpSLICE; OpJMP; OpCJMP;
    OpCONSTANT; OpMAKETUPLE; OpMAKELIST; OpMAKEFUNC; OpLOAD; OpSETLOCAL; OpSETGLOBAL; OpLOCAL; OpGLOBAL;
    OpFREE; OpFREECELL; OpLOCALCELL; OpSETLOCALCELL; OpPREDECLARED; OpUNIVERSAL; OpATTR; OpSETFIELD;
    OpUNPACK; OpCALL; OpPSEUDO; OpUNSUPPORTED ].

Definition opcode_tag (o : opcode) : nat :=
  match o with
  | OpNOP => 0 | OpDUP => 1 | OpDUP2 => 2 | OpPOP => 3 | OpEXCH => 4 | OpBINARY => 5 | OpUNARY => 6 | OpNOT => 7
  | OpINPLACE_ADD => 8 | OpINPLACE_PIPE => 9 | OpNONE => 10 | OpTRUE => 11 | OpFALSE => 12 | OpMANDATORY => 13
  | OpITERPUSH => 14 | OpITERPOP => 15 | OpITERJMP => 16 | OpRETURN => 17 | OpSETINDEX => 18 | OpINDEX => 19
  | OpSETDICT => 20 | OpSETDICTUNIQ => 21 | OpAPPEND => 22 | OpMAKEDICT => 23 | OpSLICE => 24 | OpJMP => 25
  | OpCJMP => 26 | OpCONSTANT => 27 | OpMAKETUPLE => 28 | OpMAKELIST => 29 | OpMAKEFUNC => 30 | OpLOAD => 31
  | OpSETLOCAL => 32 | OpSETGLOBAL => 33 | OpLOCAL => 34 | OpGLOBAL => 35 | OpFREE => 36 | OpFREECELL => 37
  | OpLOCALCELL => 38 | OpSETLOCALCELL => 39 | OpPREDECLARED => 40 | OpUNIVERSAL => 41 | OpATTR => 42
  | OpSETFIELD => 43 | OpUNPACK => 44 | OpCALL => 45 | OpPSEUDO => 46 | OpUNSUPPORTED => 47
  end.

Definition witness_ok (o : opcode) : bool :=
  match witness o with
  | Some (i, f, g, w) => Nat.eqb (opcode_tag (op i)) (opcode_tag o) && fails i f g w
  | None => negb (fallible o)
  end.

Lemma witnesses_ok : forallb witness_ok all_opcodes = true.
Proof. vm_compute. reflexivity. Qed.

Lemma opcode_tag_inj a b : Nat.eqb (opcode_tag a) (opcode_tag b) = true -> a = b.
Proof. destruct a, b; cbn; intros H; try reflexivity; discriminate. Qed.

Lemma all_opcodes_complete o : List.In o all_opcodes.
Proof. destruct o; cbn; tauto. Qed.

Lemma fallible_can_fail_lemma :
  forall o, fallible o = true ->
    exists cp fname i f rest g w p ic w',
      op i = o /\ exec_insn cp fname i f rest g w = Stop (VFail p ic w').
Proof.
  intros o Hf.
  pose proof (proj1 (forallb_forall _ _) witnesses_ok o (all_opcodes_complete o)) as Hw.
  unfold witness_ok in Hw. destruct (witness o) as [[[[i f] g] w]|].
  - apply andb_true_iff in Hw. destruct Hw as [Ht Hx]. apply opcode_tag_inj in Ht.
    unfold fails in Hx.
    destruct (exec_insn cp0 (fun _ => ""%string) i f [] g w) as [|[| p ic w' | |]] eqn:E; try discriminate.
    exists cp0, (fun _ => ""%string), i, f, [], g, w, p, ic, w'. split; [exact Ht|exact E].
  - rewrite Hf in Hw. discriminate.
Qed.

(* the classification, both directions, as one statement *)
Lemma fallible_iff_can_fail_lemma :
  forall o, fallible o = true <->
    exists cp fname i f rest g w p ic w',
      op i = o /\ exec_insn cp fname i f rest g w = Stop (VFail p ic w').
Proof.
  intros o. split; [apply fallible_can_fail_lemma|].
  intros (cp & fname & i & f & rest & g & w & p & ic & w' & <- & H).
  destruct (fallible (op i)) eqn:E; [reflexivity|].
  exfalso. exact (infallible_never_fails_lemma _ _ _ _ _ _ _ _ _ _ E H).
Qed.
