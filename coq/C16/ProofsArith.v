(* C16 -- modular arithmetic facts about Go's int32 / uint32 wrap used by the
   delta encoder: moving `prev` by a clipped part of the wrapped difference
   leaves exactly the rest of the difference, whatever wrapped. *)
From Coq Require Import ZArith Bool List Lia.
From Coq Require Import ZifyBool.
From SV Require Import Common.GoInt C16.Model.
Open Scope Z_scope.

Lemma in_int32_iff z : in_int32 z = true <-> -2147483648 <= z <= 2147483647.
Proof. unfold in_int32, min_int32, max_int32. lia. Qed.

Lemma in_uint32_iff z : in_uint32 z = true <-> 0 <= z <= 4294967295.
Proof. unfold in_uint32, max_uint32. lia. Qed.

Lemma wrap32_decomp x : exists k, wrap32 x = x + k * 4294967296.
Proof.
  unfold wrap32. exists (- ((x + 2147483648) / 4294967296)).
  pose proof (Z.div_mod (x + 2147483648) 4294967296 ltac:(lia)). lia.
Qed.

Lemma wrap32_bounds x : -2147483648 <= wrap32 x <= 2147483647.
Proof.
  unfold wrap32.
  pose proof (Z.mod_pos_bound (x + 2147483648) 4294967296 ltac:(lia)). lia.
Qed.

Lemma wrap32_unique x y k :
  -2147483648 <= y <= 2147483647 -> y = x + k * 4294967296 -> wrap32 x = y.
Proof.
  intros Hy E. unfold wrap32.
  replace (x + 2147483648) with ((y + 2147483648) + (- k) * 4294967296) by lia.
  rewrite Z_mod_plus_full. rewrite Z.mod_small; lia.
Qed.

Lemma wrapu32_decomp x : exists k, wrapu32 x = x + k * 4294967296.
Proof.
  unfold wrapu32. exists (- (x / 4294967296)).
  pose proof (Z.div_mod x 4294967296 ltac:(lia)). lia.
Qed.

Lemma wrapu32_bounds x : 0 <= wrapu32 x <= 4294967295.
Proof.
  unfold wrapu32. pose proof (Z.mod_pos_bound x 4294967296 ltac:(lia)). lia.
Qed.

Lemma wrapu32_unique x y k :
  0 <= y <= 4294967295 -> y = x + k * 4294967296 -> wrapu32 x = y.
Proof.
  intros Hy E. unfold wrapu32.
  replace x with (y + (- k) * 4294967296) by lia.
  rewrite Z_mod_plus_full. rewrite Z.mod_small; lia.
Qed.

(* signed: a target, p previous value, c the part of the difference applied *)
Lemma sdelta_rest a p c :
  (0 <= c <= wrap32 (a - p) \/ wrap32 (a - p) <= c <= 0) ->
  wrap32 (a - wrap32 (p + c)) = wrap32 (a - p) - c.
Proof.
  intros Hc.
  destruct (wrap32_decomp (a - p)) as [k1 E1].
  destruct (wrap32_decomp (p + c)) as [k2 E2].
  pose proof (wrap32_bounds (a - p)).
  apply wrap32_unique with (k := k1 + k2); lia.
Qed.

Lemma sdelta_done a p :
  -2147483648 <= a <= 2147483647 ->
  wrap32 (p + wrap32 (a - p)) = a.
Proof.
  intros Ha.
  destruct (wrap32_decomp (a - p)) as [k1 E1].
  apply wrap32_unique with (k := - k1); lia.
Qed.

Lemma udelta_rest a p c :
  0 <= c <= wrapu32 (a - p) ->
  wrapu32 (a - wrapu32 (p + c)) = wrapu32 (a - p) - c.
Proof.
  intros Hc.
  destruct (wrapu32_decomp (a - p)) as [k1 E1].
  destruct (wrapu32_decomp (p + c)) as [k2 E2].
  pose proof (wrapu32_bounds (a - p)).
  apply wrapu32_unique with (k := k1 + k2); lia.
Qed.

Lemma udelta_done a p :
  0 <= a <= 4294967295 ->
  wrapu32 (p + wrapu32 (a - p)) = a.
Proof.
  intros Ha.
  destruct (wrapu32_decomp (a - p)) as [k1 E1].
  apply wrapu32_unique with (k := - k1); lia.
Qed.

(* non-decreasing pc, both uint32: the difference does not wrap *)
Lemma udelta_sorted a p :
  0 <= p <= a -> a <= 4294967295 -> wrapu32 (a - p) = a - p.
Proof. intros. apply wrapu32_unique with (k := 0); lia. Qed.
