(* C16 -- fallible_has_pos by induction over C01's code generator (Compile.v):
   the fallible instructions of the code generated for any expression, target,
   statement, block and function body are, in order, exactly the operations the
   specification FallibleSpec.op_pos_* lists for the syntax, each carrying the
   position of its token. *)
From Coq Require Import ZArith String List Bool Lia.
From SV Require Import C01.Syntax C01.Values C01.Ref C01.VM C01.Compile C16.FallibleSpec.
Import ListNotations.
Open Scope list_scope.
Open Scope nat_scope.

(* ---------------------------------------------------------------- sites of lists *)
Lemma sites_app a b : sites (a ++ b) = sites a ++ sites b.
Proof. apply flat_map_app. Qed.

Lemma sites_cons i c : sites (i :: c) = site_of i ++ sites c.
Proof. reflexivity. Qed.

Lemma sites_nil : sites [] = [].
Proof. reflexivity. Qed.

Lemma sites_flat_map {A} (f : A -> list insn) l :
  sites (flat_map f l) = flat_map (fun a => sites (f a)) l.
Proof.
  induction l as [|a l IH]; [reflexivity|]. cbn [flat_map]. rewrite sites_app, IH. reflexivity.
Qed.

Lemma sites_map_nil {A} (f : A -> insn) l : (forall a, site_of (f a) = []) -> sites (map f l) = [].
Proof.
  intros H. induction l as [|a l IH]; [reflexivity|]. cbn [map]. rewrite sites_cons, H, IH. reflexivity.
Qed.

(* patching break / continue and resolving jumps change no operation *)
Lemma sites_patch_from i n a b c : sites (patch_from i n a b c) = sites c.
Proof.
  revert i. induction c as [|x c IH]; intros i; [reflexivity|].
  destruct x; cbn [patch_from]; rewrite !sites_cons, IH; reflexivity.
Qed.

Lemma sites_patch_loop a b c : sites (patch_loop a b c) = sites c.
Proof. apply sites_patch_from. Qed.

Lemma site_of_final i x : site_of (final_insn i x) = site_of x.
Proof. destruct x; reflexivity. Qed.

Lemma sites_finalize_from i c : sites (finalize_from i c) = sites c.
Proof.
  revert i. induction c as [|x c IH]; intros i; [reflexivity|].
  cbn [finalize_from]. rewrite !sites_cons, IH, site_of_final. reflexivity.
Qed.

Lemma sites_finalize c : sites (finalize c) = sites c.
Proof. apply sites_finalize_from. Qed.

(* positions and opcodes survive too (used for the per-instruction statement) *)
Lemma in_sites i c : List.In i c -> forall s, List.In s (site_of i) -> List.In s (sites c).
Proof. intros Hi s Hs. unfold sites. apply in_flat_map. exists i. auto. Qed.

Lemma fallible_site i :
  fallible (op i) = true -> exists k ps, insn_pos i = Some ps /\ site_of i = [(k, ps)].
Proof. destruct i; cbn; intros H; try discriminate; eauto. Qed.

(* ---------------------------------------------------------------- the generator and the specification, by parts *)
Section Parts.
  Variable p : program.
  Variable ls : list string.

  Definition gen_e (cs : list (string * nat)) (e : expr) : list insn := fst (gen p ls cs e).
  Definition gen_c (cs : list (string * nat)) (e : expr) (t f : nat) : list insn := snd (gen p ls cs e) t f.

  Definition loop_code (ce ca inner : list insn) (ps : pos) : list insn :=
    ce ++ [ITERPUSH ps; RITERJMP (length ca + length inner + 1)] ++ ca ++ inner
    ++ [RJMPB (length ca + length inner + 2); ITERPOP].

  Section InComp.
    Variable cs : list (string * nat).

    Fixpoint gen_ct (t : target) (ps : pos) {struct t} : list insn :=
      match t with
      | TName x _ => [gen_set p ls cs x]
      | TIndex x y pi => fst (gen p ls cs x) ++ [EXCH] ++ fst (gen p ls cs y) ++ [EXCH; SETINDEX pi]
      | TDot x name pd => fst (gen p ls cs x) ++ [EXCH; SETFIELD name pd]
      | TSeq ts => UNPACK (length ts) ps :: flat_map (fun t => gen_ct t ps) ts
      end.

    Fixpoint tg_ops (t : target) (ps : pos) {struct t} : list site :=
      match t with
      | TName _ _ => []
      | TIndex x y pi => op_pos_expr p ls cs x ++ op_pos_expr p ls cs y ++ [(KSetIndex, pi)]
      | TDot x name pd => op_pos_expr p ls cs x ++ [(KSetField name, pd)]
      | TSeq ts => (KUnpack (length ts), ps) :: flat_map (fun t => tg_ops t ps) ts
      end.

    Section Clauses.
      Variable curly : bool.
      Variables body bodyv : expr.
      Variable cp : pos.

      Fixpoint gen_cls (l : list clause) {struct l} : list insn :=
        match l with
        | [] => if curly then DUP :: fst (gen p ls cs body) ++ fst (gen p ls cs bodyv) ++ [SETDICT cp]
                else DUP :: fst (gen p ls cs body) ++ [APPEND]
        | CIf c :: r => let inner := gen_cls r in snd (gen p ls cs c) 0 (length inner) ++ inner
        | CFor t e ps :: r => loop_code (fst (gen p ls cs e)) (gen_ct t ps) (gen_cls r) ps
        end.

      Fixpoint cls_ops (l : list clause) {struct l} : list site :=
        match l with
        | [] => if curly then op_pos_expr p ls cs body ++ op_pos_expr p ls cs bodyv ++ [(KDictSet, cp)]
                else op_pos_expr p ls cs body
        | CIf c :: r => op_pos_expr p ls cs c ++ cls_ops r
        | CFor t e ps :: r => op_pos_expr p ls cs e ++ [(KIter, ps)] ++ tg_ops t ps ++ cls_ops r
        end.
    End Clauses.
  End InComp.

  Definition comp_scope (cs : list (string * nat)) (cls : list clause) (slots : list nat) :=
    combine (comp_vars cls) slots ++ cs.

  Lemma gen_comp_unfold cs curly body bodyv cp t e0 ps r slots :
    gen p ls cs (EComp curly body bodyv cp (CFor t e0 ps :: r) slots)
    = dflt ((if curly then [MAKEDICT] else [MAKELIST 0])
            ++ loop_code (fst (gen p ls cs e0))
                 (gen_ct (comp_scope cs (CFor t e0 ps :: r) slots) t ps)
                 (gen_cls (comp_scope cs (CFor t e0 ps :: r) slots) curly body bodyv cp r) ps).
  Proof. reflexivity. Qed.

  Lemma spec_comp_unfold cs curly body bodyv cp t e0 ps r slots :
    op_pos_expr p ls cs (EComp curly body bodyv cp (CFor t e0 ps :: r) slots)
    = op_pos_expr p ls cs e0 ++ [(KIter, ps)]
      ++ tg_ops (comp_scope cs (CFor t e0 ps :: r) slots) t ps
      ++ cls_ops (comp_scope cs (CFor t e0 ps :: r) slots) curly body bodyv cp r.
  Proof. reflexivity. Qed.

  Lemma gen_assign_ct t ps : gen_assign p ls t ps = gen_ct [] t ps.
  Proof. reflexivity. Qed.

  Lemma op_pos_target_tg t ps : op_pos_target p ls t ps = tg_ops [] t ps.
  Proof. reflexivity. Qed.

  (* ---- leaves *)
  Lemma sites_gen_name cs x ps : site_of (gen_name p ls cs x ps) = op_pos_name p ls cs x ps.
  Proof.
    unfold gen_name, op_pos_name, is_variable.
    destruct (assoc x cs); [reflexivity|].
    destruct (index_of x ls); [reflexivity|].
    destruct (gidx p x); [reflexivity|]. cbn [is_some orb].
    destruct (str_in x predeclared_names); [reflexivity|].
    destruct (universal x); reflexivity.
  Qed.

  Lemma sites_gen_set cs x : site_of (gen_set p ls cs x) = [].
  Proof.
    unfold gen_set. destruct (assoc x cs); [reflexivity|].
    destruct (index_of x ls); [reflexivity|]. destruct (gidx p x); reflexivity.
  Qed.

  Lemma sites_aug o ps : sites (aug_insn o ps) = op_pos_aug o ps.
  Proof. destruct o; reflexivity. Qed.

  Lemma sites_dflt c s :
    sites c = s ->
    sites (fst (dflt c)) = s /\ (forall t f, sites (snd (dflt c) t f) = s).
  Proof.
    intros H. split; [exact H|]. intros t f. cbn [dflt snd].
    rewrite sites_app, H. cbn. apply app_nil_r.
  Qed.

  Lemma sites_loop ce ca inner ps :
    sites (loop_code ce ca inner ps) = sites ce ++ [(KIter, ps)] ++ sites ca ++ sites inner.
  Proof.
    unfold loop_code. rewrite !sites_app, !sites_cons, !sites_nil. cbn [site_of app].
    rewrite app_nil_r. reflexivity.
  Qed.

  (* ---- expressions and targets *)
  Definition expr_ok (e : expr) : Prop :=
    forall cs, sites (fst (gen p ls cs e)) = op_pos_expr p ls cs e /\
               (forall t f, sites (snd (gen p ls cs e) t f) = op_pos_expr p ls cs e).

  Ltac norm := repeat (rewrite sites_app || rewrite sites_cons || rewrite sites_nil);
               cbn [site_of app]; rewrite ?app_nil_r, <- ?app_assoc.

  Fixpoint gen_sites (e : expr) {struct e} : expr_ok e
  with ct_sites (t : target) {struct t} : forall cs ps, sites (gen_ct cs t ps) = tg_ops cs t ps.
  Proof.
    - unfold expr_ok. intros cs. destruct e.
      + (* EName *) cbn [gen op_pos_expr]. apply sites_dflt. rewrite sites_cons, sites_gen_name. apply app_nil_r.
      + (* EInt *) cbn [gen op_pos_expr]. apply sites_dflt. reflexivity.
      + (* EStr *) cbn [gen op_pos_expr]. apply sites_dflt. reflexivity.
      + (* EUnsup *) cbn [gen op_pos_expr]. apply sites_dflt. reflexivity.
      + (* EParen *) cbn [gen op_pos_expr]. apply sites_dflt. apply (gen_sites e cs).
      + (* EUnary *)
        destruct (gen_sites e cs) as [Hf Hs].
        destruct o; cbn [gen op_pos_expr]; try (apply sites_dflt; norm; rewrite Hf; reflexivity).
        cbn [fst snd]. split; [norm; rewrite Hf; reflexivity|]. intros t f. apply Hs.
      + (* EBinary *)
        destruct (gen_sites e1 cs) as [Hx _]. destruct (gen_sites e2 cs) as [Hy _].
        destruct o; cbn [gen op_pos_expr]; try (apply sites_dflt; norm; rewrite Hx, Hy; reflexivity).
        cbn [fst snd]. split; [|intros t f]; norm; rewrite Hx, Hy; reflexivity.
      + (* EAnd *)
        destruct (gen_sites e1 cs) as [Hx _]. destruct (gen_sites e2 cs) as [Hy Hyc].
        cbn [gen op_pos_expr fst snd dflt]. split; [|intros t f]; norm; rewrite Hx, ?Hy, ?Hyc; reflexivity.
      + (* EOr *)
        destruct (gen_sites e1 cs) as [Hx _]. destruct (gen_sites e2 cs) as [Hy Hyc].
        cbn [gen op_pos_expr fst snd dflt]. split; [|intros t f]; norm; rewrite Hx, ?Hy, ?Hyc; reflexivity.
      + (* ECond *)
        destruct (gen_sites e1 cs) as [_ Hc]. destruct (gen_sites e2 cs) as [Ht _]. destruct (gen_sites e3 cs) as [Hf _].
        cbn [gen op_pos_expr]. apply sites_dflt. norm. rewrite Hc, Ht, Hf. reflexivity.
      + (* ETuple *)
        cbn [gen op_pos_expr]. apply sites_dflt. norm. rewrite sites_flat_map.
        induction es as [|a es IH]; [reflexivity|]. cbn [flat_map]. rewrite IH.
        rewrite (proj1 (gen_sites a cs)). reflexivity.
      + (* EList *)
        cbn [gen op_pos_expr]. apply sites_dflt. norm. rewrite sites_flat_map.
        induction es as [|a es IH]; [reflexivity|]. cbn [flat_map]. rewrite IH.
        rewrite (proj1 (gen_sites a cs)). reflexivity.
      + (* EDict *)
        cbn [gen op_pos_expr]. apply sites_dflt. norm. rewrite sites_flat_map.
        induction kvs as [|[[k v] cp] kvs IH]; [reflexivity|]. cbn [flat_map fst snd]. rewrite IH.
        norm. rewrite (proj1 (gen_sites k cs)), (proj1 (gen_sites v cs)). reflexivity.
      + (* EIndex *)
        cbn [gen op_pos_expr]. apply sites_dflt. norm.
        rewrite (proj1 (gen_sites e1 cs)), (proj1 (gen_sites e2 cs)). reflexivity.
      + (* EDot *)
        cbn [gen op_pos_expr]. apply sites_dflt. norm. rewrite (proj1 (gen_sites e cs)). reflexivity.
      + (* ECall *)
        cbn [gen op_pos_expr]. apply sites_dflt. norm. rewrite !sites_flat_map.
        rewrite (proj1 (gen_sites e cs)).
        f_equal. f_equal; [|f_equal; [|f_equal]].
        * induction args as [|a args IH]; [reflexivity|]. cbn [flat_map]. rewrite IH.
          destruct a as [x|k x|x|x]; cbn [orb]; norm; rewrite ?(proj1 (gen_sites x cs)); reflexivity.
        * induction args as [|a args IH]; [reflexivity|]. cbn [flat_map]. rewrite IH.
          destruct a as [x|k x|x|x]; norm; rewrite ?(proj1 (gen_sites x cs)); reflexivity.
        * induction args as [|a args IH]; [reflexivity|]. cbn [flat_map]. rewrite IH.
          destruct a as [x|k x|x|x]; norm; rewrite ?(proj1 (gen_sites x cs)); reflexivity.
        * change (fun a : arg => match a with AStar _ => true | _ => false end) with arg_is_star.
          change (fun a : arg => match a with AStarStar _ => true | _ => false end) with arg_is_starstar.
          change (fun a : arg => match a with APos _ => true | _ => false end) with arg_is_pos.
          change (fun a : arg => match a with ANamed _ _ => true | _ => false end) with arg_is_named.
          destruct (existsb arg_is_star args), (existsb arg_is_starstar args); reflexivity.
      + (* ELambda *) cbn [gen op_pos_expr]. apply sites_dflt. reflexivity.
      + (* EComp *)
        destruct cls as [|[t e0 ps|c0] r];
          [cbn [gen op_pos_expr]; apply sites_dflt; reflexivity| |cbn [gen op_pos_expr]; apply sites_dflt; reflexivity].
        rewrite gen_comp_unfold, spec_comp_unfold. apply sites_dflt.
        rewrite sites_app, sites_loop. rewrite (proj1 (gen_sites e0 cs)), ct_sites.
        set (cs' := comp_scope cs (CFor t e0 ps :: r) slots).
        assert (Hr : sites (gen_cls cs' curly e1 e2 cp r) = cls_ops cs' curly e1 e2 cp r).
        { clearbody cs'. induction r as [|[t1 x1 p1|c1] r IH].
          - cbn [gen_cls cls_ops]. destruct curly; norm;
              rewrite (proj1 (gen_sites e1 cs')), ?(proj1 (gen_sites e2 cs')); reflexivity.
          - cbn [gen_cls cls_ops]. rewrite sites_loop, IH, ct_sites, (proj1 (gen_sites x1 cs')). reflexivity.
          - cbn [gen_cls cls_ops]. rewrite sites_app, IH, (proj2 (gen_sites c1 cs')). reflexivity. }
        rewrite Hr. destruct curly; reflexivity.
      + (* ESlice *)
        cbn [gen op_pos_expr]. apply sites_dflt. norm. rewrite (proj1 (gen_sites e cs)).
        destruct lo as [a|], hi as [b|], step as [c|]; norm;
          rewrite ?(proj1 (gen_sites a cs)), ?(proj1 (gen_sites b cs)), ?(proj1 (gen_sites c cs)); reflexivity.
    - intros cs ps. destruct t.
      + cbn [gen_ct tg_ops]. rewrite sites_cons, sites_gen_set. reflexivity.
      + cbn [gen_ct tg_ops]. norm. rewrite (proj1 (gen_sites x cs)), (proj1 (gen_sites y cs)). reflexivity.
      + cbn [gen_ct tg_ops]. norm. rewrite (proj1 (gen_sites x cs)). reflexivity.
      + cbn [gen_ct tg_ops]. norm. rewrite sites_flat_map. f_equal.
        induction ts as [|a ts IH]; [reflexivity|]. cbn [flat_map length]. rewrite ct_sites.
        f_equal. exact IH.
  Qed.

  Lemma sites_gen_expr e : sites (gen_expr p ls e) = op_pos_expr p ls [] e.
  Proof. exact (proj1 (gen_sites e [])). Qed.

  Lemma sites_gen_cond e t f : sites (gen_cond p ls e t f) = op_pos_expr p ls [] e.
  Proof. exact (proj2 (gen_sites e []) t f). Qed.

  Lemma sites_gen_assign t ps : sites (gen_assign p ls t ps) = op_pos_target p ls t ps.
  Proof. rewrite gen_assign_ct, op_pos_target_tg. apply ct_sites. Qed.

  Lemma sites_gen_defaults ps b :
    sites (fst (gen_defaults p ls ps b))
    = flat_map (fun q => match q with PDefault _ e => op_pos_expr p ls [] e | _ => [] end) ps.
  Proof.
    revert b. induction ps as [|q ps IH]; intros b; [reflexivity|].
    destruct q as [x|x e|x|x]; cbn [gen_defaults flat_map].
    - specialize (IH b). destruct (gen_defaults p ls ps b) as [c n]. destruct b; cbn [fst] in *; exact IH.
    - specialize (IH b). destruct (gen_defaults p ls ps b) as [c n]. cbn [fst] in *.
      rewrite sites_app, sites_gen_expr, IH. reflexivity.
    - apply IH.
    - apply IH.
  Qed.

  (* ---- statements *)
  Ltac norms := repeat (rewrite sites_app || rewrite sites_cons || rewrite sites_nil || rewrite sites_patch_loop
                        || rewrite sites_gen_expr || rewrite sites_gen_cond || rewrite sites_gen_assign
                        || rewrite sites_aug || rewrite sites_gen_name || rewrite sites_gen_set);
                cbn [site_of app]; rewrite ?app_nil_r, <- ?app_assoc.

  Fixpoint stmt_sites (s : stmt) {struct s} : sites (gen_stmt p ls s) = op_pos_stmt p ls s.
  Proof.
    assert (Hb : forall ss, (forall s0, List.In s0 ss -> sites (gen_stmt p ls s0) = op_pos_stmt p ls s0) ->
                            sites (flat_map (gen_stmt p ls) ss) = flat_map (op_pos_stmt p ls) ss).
    { intros ss H. rewrite sites_flat_map. induction ss as [|a ss IH]; [reflexivity|].
      cbn [flat_map]. rewrite (H a (or_introl eq_refl)), IH; [reflexivity|]. intros s0 Hs0. apply H. right. exact Hs0. }
    destruct s.
    - (* SExpr *)
      destruct e; cbn [gen_stmt op_pos_stmt]; try reflexivity; norms; try reflexivity.
    - (* SAssign *) cbn [gen_stmt op_pos_stmt]. norms. reflexivity.
    - (* SAug *)
      destruct t; cbn [gen_stmt op_pos_stmt]; norms; reflexivity.
    - (* SIf *)
      cbn [gen_stmt op_pos_stmt]. norms.
      rewrite (Hb tb), (Hb fb); [reflexivity| |].
      + clear Hb. induction fb as [|a fb IH]; intros s0 H; [destruct H|destruct H as [<-|H]; [apply stmt_sites|apply IH; exact H]].
      + clear Hb. induction tb as [|a tb IH]; intros s0 H; [destruct H|destruct H as [<-|H]; [apply stmt_sites|apply IH; exact H]].
    - (* SWhile *)
      cbn [gen_stmt op_pos_stmt]. norms. rewrite (Hb body); [reflexivity|].
      clear Hb. induction body as [|a body IH]; intros s0 H; [destruct H|destruct H as [<-|H]; [apply stmt_sites|apply IH; exact H]].
    - (* SFor *)
      cbn [gen_stmt op_pos_stmt]. norms. rewrite (Hb body); [reflexivity|].
      clear Hb. induction body as [|a body IH]; intros s0 H; [destruct H|destruct H as [<-|H]; [apply stmt_sites|apply IH; exact H]].
    - reflexivity.
    - reflexivity.
    - reflexivity.
    - (* SReturn *) destruct e; cbn [gen_stmt op_pos_stmt]; norms; reflexivity.
    - (* SDef *)
      cbn [gen_stmt op_pos_stmt]. pose proof (sites_gen_defaults params false) as Hd.
      destruct (gen_defaults p ls params false) as [c n]. cbn [fst] in Hd. norms. exact Hd.
    - (* SLoad *)
      cbn [gen_stmt op_pos_stmt]. norms.
      rewrite !sites_map_nil; [reflexivity| |]; intros a; [apply sites_gen_set|reflexivity].
    - reflexivity.
  Qed.

  Lemma block_sites ss : sites (gen_block p ls ss) = op_pos_block p ls ss.
  Proof.
    unfold gen_block, op_pos_block. rewrite sites_flat_map.
    induction ss as [|a ss IH]; [reflexivity|]. cbn [flat_map]. rewrite stmt_sites, IH. reflexivity.
  Qed.

  (* fcomp.function: the body, the implicit `return None`, jumps resolved *)
  Lemma body_sites ss : sites (gen_body p ls ss) = op_pos_block p ls ss.
  Proof.
    unfold gen_body. rewrite sites_finalize, sites_app, block_sites. cbn. apply app_nil_r.
  Qed.
End Parts.

(* ---------------------------------------------------------------- programs *)
(* the functions compile_prog produces, with the syntax they were compiled from *)
Inductive compiled_from (p : program) : funcode -> list string -> list stmt -> Prop :=
| cf_top : compiled_from p (cp_top (compile_prog p)) (layout_top p) (p_body p)
| cf_def fid fd : List.In (fid, fd) (all_defs p) ->
                  compiled_from p (compile_fun p fd) (layout fd) (fd_body fd).

Lemma compiled_from_complete p fc :
  fc = cp_top (compile_prog p) \/ List.In fc (map snd (cp_funs (compile_prog p))) ->
  exists ls body, compiled_from p fc ls body.
Proof.
  intros [->|H].
  - eexists _, _. apply cf_top.
  - cbn [compile_prog cp_funs] in H. rewrite map_map in H. cbn [snd] in H.
    apply in_map_iff in H. destruct H as ([fid fd] & <- & Hin).
    eexists _, _. apply (cf_def p fid fd Hin).
Qed.

Lemma fallible_sites_exact_lemma :
  forall p fc ls body, compiled_from p fc ls body -> sites (fc_code fc) = op_pos_block p ls body.
Proof. intros p fc ls body H. destruct H; apply body_sites. Qed.

Lemma fallible_has_pos_lemma :
  forall p fc ls body, compiled_from p fc ls body ->
  forall i, List.In i (fc_code fc) -> fallible (op i) = true ->
    exists k ps, insn_pos i = Some ps /\ site_of i = [(k, ps)] /\ List.In (k, ps) (op_pos_block p ls body).
Proof.
  intros p fc ls body H i Hi Hf.
  destruct (fallible_site i Hf) as (k & ps & Hp & Hs).
  exists k, ps. split; [exact Hp|]. split; [exact Hs|].
  rewrite <- (fallible_sites_exact_lemma p fc ls body H).
  apply (in_sites i _ Hi). rewrite Hs. left. reflexivity.
Qed.
