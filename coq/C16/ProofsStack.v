(* C16 -- the CallStack attached to an error lists exactly the active calls. *)
From Coq Require Import ZArith Bool List Lia.
From SV Require Import Common.GoInt C16.Model C16.Spec C16.Stack C16.ProofsCompose.
Import ListNotations.
Open Scope Z_scope.

Lemma run_app s a b :
  run s (a ++ b) = match run s a with Some s' => run s' b | None => None end.
Proof.
  revert s. induction a as [|ev a IH]; intros s; [reflexivity|].
  cbn [app run]. destruct (step s ev); [apply IH|reflexivity].
Qed.

Lemma set_top_pc_snoc s f pc :
  set_top_pc (s ++ [f]) pc = Some (s ++ [mkframe (f_callable f) pc]).
Proof. unfold set_top_pc. rewrite rev_unit. rewrite rev_involutive. reflexivity. Qed.

Lemma pop_snoc s f : pop (s ++ [f]) = Some s.
Proof. unfold pop. rewrite rev_unit. rewrite rev_involutive. reflexivity. Qed.

Lemma body_run pc evs pc' :
  body pc evs pc' ->
  forall s c, run (mkstate (s ++ [mkframe c pc]) Running) evs =
              Some (mkstate (s ++ [mkframe c pc']) Running).
Proof.
  induction 1 as [pc|pc pc1 evs pc' _ IH|pc c0 inner pci evs pc' _ IHi _ IHe]; intros s c.
  - reflexivity.
  - cbn [run step st stack]. rewrite set_top_pc_snoc. cbn [f_callable]. apply IH.
  - cbn [run step st stack].
    rewrite run_app. rewrite (IHi (s ++ [mkframe c pc]) c0).
    cbn [run step st stack]. rewrite pop_snoc. apply IHe.
Qed.

Definition frames_of (cs : list cframe) : list frame := map (fun f => mkframe (fst f) (snd f)) cs.

Lemma copy_frames cs : copy_stack (frames_of cs) = cs.
Proof.
  unfold copy_stack, frames_of. rewrite map_map. cbn.
  induction cs as [|[c pc] cs IH]; [reflexivity|]. cbn. rewrite IH. reflexivity.
Qed.

Lemma copy_stack_app a b : copy_stack (a ++ b) = copy_stack a ++ copy_stack b.
Proof. apply map_app. Qed.

Lemma chain_run tr cs :
  chain tr cs ->
  forall s, run (mkstate s Running) tr = Some (mkstate (s ++ frames_of cs) (Failing EPlain)).
Proof.
  induction 1 as [c evs pc Hb|c evs pc rest cs Hb _ IH]; intros s.
  - cbn [run step st stack]. rewrite run_app. rewrite (body_run _ _ _ Hb s c).
    cbn [run step st stack frames_of map fst snd].
    destruct (s ++ [mkframe c pc]) eqn:E; [destruct s; discriminate|]. reflexivity.
  - cbn [run step st stack]. rewrite run_app. rewrite (body_run _ _ _ Hb s c).
    rewrite IH. cbn [frames_of map fst snd]. rewrite <- app_assoc. reflexivity.
Qed.

Lemma completed_run pre :
  completed pre -> run init pre = Some init.
Proof.
  induction 1 as [|c inner pci rest Hb _ IH]; [reflexivity|].
  unfold init. cbn [run step st stack]. rewrite run_app.
  rewrite (body_run _ _ _ Hb [] c). cbn [run step st stack].
  rewrite (pop_snoc [] (mkframe c pci)). exact IH.
Qed.

Lemma wrap_once_idem s s' e : wrap_once s' (wrap_once s e) = wrap_once s e.
Proof. destruct e; reflexivity. Qed.

Lemma unwind_all fs : forall e, fs <> [] ->
  run (mkstate fs (Failing e)) (repeat EvUnwind (length fs)) =
  Some (mkstate [] (Finished (wrap_once fs e))).
Proof.
  induction fs as [|f fs IH] using rev_ind; intros e Hne; [congruence|].
  rewrite app_length. cbn [length]. rewrite Nat.add_1_r. cbn [repeat run step st stack].
  rewrite pop_snoc.
  destruct fs as [|g fs'] eqn:E.
  - reflexivity.
  - rewrite <- E in *. 
    assert (Hne' : fs <> []) by (rewrite E; discriminate).
    replace (match fs with [] => Some (mkstate [] (Finished (wrap_once (fs ++ [f]) e)))
                      | _ :: _ => Some (mkstate fs (Failing (wrap_once (fs ++ [f]) e))) end)
      with (Some (mkstate fs (Failing (wrap_once (fs ++ [f]) e)))) by (rewrite E; reflexivity).
    rewrite (IH _ Hne'). rewrite wrap_once_idem. reflexivity.
Qed.

Lemma chain_nonempty tr cs : chain tr cs -> cs <> [].
Proof. destruct 1; discriminate. Qed.

Lemma callstack_shape_lemma pre tr cs :
  completed pre -> chain tr cs ->
  run init (pre ++ tr ++ repeat EvUnwind (length cs)) =
  Some (mkstate [] (Finished (EEval cs))).
Proof.
  intros Hp Hc. rewrite run_app, (completed_run _ Hp).
  rewrite run_app. unfold init. rewrite (chain_run _ _ Hc []). cbn [app].
  assert (Hl : length cs = length (frames_of cs)) by (unfold frames_of; rewrite map_length; reflexivity).
  rewrite Hl. rewrite unwind_all.
  - cbn [wrap_once]. rewrite copy_frames. reflexivity.
  - pose proof (chain_nonempty _ _ Hc). destruct cs; [congruence|discriminate].
Qed.

(* the error is the same at every level of the unwinding: wrapped exactly once *)
Lemma wrapped_once_lemma pre tr cs k :
  completed pre -> chain tr cs -> (0 < k < length cs)%nat ->
  exists s, run init (pre ++ tr ++ repeat EvUnwind k) = Some (mkstate s (Failing (EEval cs))) /\
            length s = (length cs - k)%nat.
Proof.
  intros Hp Hc Hk. rewrite run_app, (completed_run _ Hp).
  rewrite run_app. unfold init. rewrite (chain_run _ _ Hc []). cbn [app].
  assert (Hgen : forall k fs e, (0 < k < length fs)%nat ->
            exists s, run (mkstate fs (Failing e)) (repeat EvUnwind k) = Some (mkstate s (Failing (wrap_once fs e))) /\
                      length s = (length fs - k)%nat).
  { clear. induction k as [|k IH]; intros fs e Hk; [lia|].
    destruct fs as [|f fs] using rev_ind; [cbn in Hk; lia|]. clear IHfs.
    rewrite app_length in Hk. cbn [length] in Hk.
    cbn [repeat run step st stack]. rewrite pop_snoc.
    destruct fs as [|g fs'] eqn:E; [cbn in Hk; lia|]. rewrite <- E in *.
    replace (match fs with [] => Some (mkstate [] (Finished (wrap_once (fs ++ [f]) e)))
                      | _ :: _ => Some (mkstate fs (Failing (wrap_once (fs ++ [f]) e))) end)
      with (Some (mkstate fs (Failing (wrap_once (fs ++ [f]) e)))) by (rewrite E; reflexivity).
    destruct k as [|k'].
    - exists fs. split; [reflexivity|]. rewrite app_length. cbn. lia.
    - destruct (IH fs (wrap_once (fs ++ [f]) e) ltac:(lia)) as (s & Hr & Hlen).
      exists s. rewrite Hr, wrap_once_idem. split; [reflexivity|]. rewrite app_length. cbn. lia. }
  assert (Hl : length cs = length (frames_of cs)) by (unfold frames_of; rewrite map_length; reflexivity).
  destruct (Hgen k (frames_of cs) EPlain ltac:(lia)) as (s & Hr & Hlen).
  exists s. rewrite Hr. cbn [wrap_once]. rewrite copy_frames. split; [reflexivity|lia].
Qed.

(* what each reported frame says: Position over the function's own table *)
Lemma report_spec_lemma code cs :
  (forall c fc, code c = Some fc -> fcode_ok fc) ->
  map (report code) cs = map (report_spec code) cs.
Proof.
  intros Hok. apply map_ext_in. intros [c pc] _. unfold report, report_spec. cbn [fst snd].
  destruct (code c) as [fc|] eqn:E; [|reflexivity].
  destruct (Hok _ _ E) as (H1 & H2 & H3 & H4 & H5).
  rewrite position_of_code_lemma; auto.
Qed.
