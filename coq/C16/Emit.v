(* C16 -- which instruction carries a position: fcomp.setPos / emit and the
   compilation of a slice expression x[lo:hi:step] (compile.go, expr, case
   *syntax.SliceExpr).  setPos stores the position in fcomp.pos; the next
   emitted instruction takes it and resets it (emit / emit1). *)
From Coq Require Import ZArith Bool List.
Import ListNotations.
Open Scope Z_scope.

Definition srcpos := (Z * Z)%type.

Inductive opc := OOperand (tag : nat) | ONone | OSlice.

Record einsn := mkeinsn { e_op : opc; e_pos : option srcpos }.

Record fcomp := mkfcomp { fpos : option srcpos; emitted : list einsn }.

Definition set_pos (p : srcpos) (f : fcomp) : fcomp := mkfcomp (Some p) (emitted f).

Definition emit (o : opc) (f : fcomp) : fcomp :=
  mkfcomp None (emitted f ++ [mkeinsn o (fpos f)]).

(* an operand expression: compiles to at least one instruction; each may be
   preceded by its own setPos (lookup of a variable, a call, an operator ...) *)
Definition operand := (option srcpos * list (option srcpos))%type.

Definition emit_micro (tag : nat) (p : option srcpos) (f : fcomp) : fcomp :=
  emit (OOperand tag) (match p with Some q => set_pos q f | None => f end).

Definition compile_operand (tag : nat) (o : operand) (f : fcomp) : fcomp :=
  fold_left (fun f p => emit_micro tag p f) (snd o) (emit_micro tag (fst o) f).

(* lo, hi, step: `if e.Lo != nil { fcomp.expr(e.Lo) } else { fcomp.emit(NONE) }` *)
Definition compile_opt (tag : nat) (o : option operand) (f : fcomp) : fcomp :=
  match o with Some x => compile_operand tag x f | None => emit ONone f end.

(* the code after the fix: setPos(e.Lbrack) immediately before emit(SLICE) *)
Definition compile_slice (lbrack : srcpos) (x : operand) (lo hi st : option operand) (f : fcomp) : fcomp :=
  emit OSlice (set_pos lbrack (compile_opt 3 st (compile_opt 2 hi (compile_opt 1 lo (compile_operand 0 x f))))).

Definition last_insn (f : fcomp) : option einsn := last (map Some (emitted f)) None.
