(* C16 -- the binary search of Funcode.Position returns, for every table
   length and every pc, the row the specification's linear scan selects. *)
From Coq Require Import ZArith Bool List Lia.
From Coq Require Import ZifyBool.
From SV Require Import Common.GoInt C16.Model C16.Spec.
Import ListNotations.
Open Scope Z_scope.

Lemma wrap64_small x : -9223372036854775808 <= x <= 9223372036854775807 -> wrap64 x = x.
Proof. intros H. apply wrap64_id. unfold in_int64, min_int64, max_int64. lia. Qed.

Lemma wrapu64_wrap64 x : 0 <= x < 18446744073709551616 -> wrapu64 (wrap64 x) = x.
Proof.
  intros H. unfold wrapu64, wrap64.
  destruct (Z_lt_le_dec x 9223372036854775808) as [L|G].
  - rewrite (Z.mod_small (x + 9223372036854775808)) by lia.
    rewrite Z.mod_small; lia.
  - symmetry.
    assert (E : (x + 9223372036854775808) mod 18446744073709551616 = x - 9223372036854775808).
    { symmetry. apply Z.mod_unique with (q := 1); lia. }
    rewrite E. apply Z.mod_unique with (q := -1); lia.
Qed.

Lemma shiftr1 x : Z.shiftr x 1 = x / 2.
Proof. rewrite Z.shiftr_div_pow2 by lia. reflexivity. Qed.

Lemma lnt_at_ok lnt i r :
  lnt_at lnt i = Ok r <-> 0 <= i /\ nth_error lnt (Z.to_nat i) = Some r.
Proof.
  unfold lnt_at. destruct (i <? 0) eqn:E.
  - split; [discriminate|]. lia.
  - destruct (nth_error lnt (Z.to_nat i)) eqn:En; split.
    + intros H; injection H as ->. split; [lia|reflexivity].
    + intros [_ H]; injection H as ->. reflexivity.
    + discriminate.
    + intros [_ H]; discriminate.
Qed.

Lemma lnt_at_in_range lnt i :
  0 <= i < Z.of_nat (length lnt) -> exists r, lnt_at lnt i = Ok r.
Proof.
  intros H. unfold lnt_at. destruct (i <? 0) eqn:E; [lia|].
  destruct (nth_error lnt (Z.to_nat i)) eqn:En; [eexists; reflexivity|].
  apply nth_error_None in En. lia.
Qed.

(* sortedness: earlier rows have smaller or equal pc *)
Lemma sorted_head_le a l : pcs_sorted (a :: l) -> forall r, In r l -> r_pc a <= r_pc r.
Proof.
  revert a. induction l as [|b l IH]; intros a Hs r Hin; [destruct Hin|].
  cbn in Hs. destruct Hs as [Hab Hs].
  destruct Hin as [->|Hin]; [exact Hab|].
  specialize (IH b Hs r Hin). lia.
Qed.

Lemma sorted_tail a l : pcs_sorted (a :: l) -> pcs_sorted l.
Proof. cbn. tauto. Qed.

Lemma sorted_nth l : pcs_sorted l -> forall k m a b, (k <= m)%nat ->
  nth_error l k = Some a -> nth_error l m = Some b -> r_pc a <= r_pc b.
Proof.
  induction l as [|x l IH]; intros Hs k m a b Hkm Ha Hb.
  - destruct k; discriminate.
  - destruct k, m; cbn [nth_error] in *; try lia.
    + injection Ha as ->. injection Hb as ->. lia.
    + injection Ha as ->. apply (sorted_head_le _ _ Hs). eapply nth_error_In; eauto.
    + apply (IH (sorted_tail _ _ Hs) k m a b); [lia|assumption|assumption].
Qed.

Lemma last_le_all_greater l : forall cur pc,
  (forall r, In r l -> pc < r_pc r) -> last_le cur l pc = cur.
Proof.
  induction l as [|x l IH]; intros cur pc H; [reflexivity|].
  cbn [last_le]. pose proof (H x (or_introl eq_refl)).
  destruct (r_pc x <=? pc) eqn:E; [lia|]. apply IH. intros r Hr. apply H. right; exact Hr.
Qed.

(* the index characterisation determines the linear scan's answer *)
Lemma is_lookup_last_le rest : forall r0 pc i,
  pcs_sorted (r0 :: rest) -> is_lookup (r0 :: rest) pc i ->
  nth_error (r0 :: rest) i = Some (last_le r0 rest pc).
Proof.
  induction rest as [|r1 rest IH]; intros r0 pc i Hs (Hlen & Hle & Hgt).
  - cbn in Hlen. assert (i = 0%nat) by lia. subst. reflexivity.
  - cbn [last_le]. destruct (r_pc r1 <=? pc) eqn:E.
    + destruct i as [|i'].
      { specialize (Hgt r1 eq_refl). lia. }
      cbn [nth_error]. apply IH; [eapply sorted_tail; eauto|].
      split; [cbn in *; lia|]. split.
      * intros k r Hk Hk0 Hn. apply (Hle (S k) r); [lia|lia|exact Hn].
      * intros r Hn. apply Hgt. exact Hn.
    + assert (i = 0%nat).
      { destruct i as [|i']; [reflexivity|].
        specialize (Hle 1%nat r1 ltac:(lia) ltac:(lia) eq_refl). lia. }
      subst i. cbn [nth_error]. f_equal. symmetry. apply last_le_all_greater.
      intros r Hr. pose proof (sorted_head_le _ _ (sorted_tail _ _ Hs) r Hr). lia.
Qed.

Lemma lookup_of_is_lookup lnt pc i :
  pcs_sorted lnt -> is_lookup lnt pc i ->
  exists r, nth_error lnt i = Some r /\ lookup_spec lnt pc = (r_line r, r_col r).
Proof.
  intros Hs Hl. destruct lnt as [|r0 rest].
  - destruct Hl as [Hlen _]. cbn in Hlen. lia.
  - exists (last_le r0 rest pc). split; [apply is_lookup_last_le; assumption|reflexivity].
Qed.

Lemma lookup_spec_empty lnt pc : length lnt = 0%nat -> lookup_spec lnt pc = (0, 0).
Proof. destruct lnt; [reflexivity|discriminate]. Qed.

Section Search.
  Variable lnt : list row.
  Variable pc : Z.
  Let n := Z.of_nat (length lnt).
  Hypothesis Hn : n <= max_int64.
  Hypothesis Hsorted : pcs_sorted lnt.

  Definition inv (i j : Z) : Prop :=
    0 <= i <= j /\ j <= n /\ (0 < n -> i <= n - 1) /\
    (forall k r, 1 <= k <= i -> nth_error lnt (Z.to_nat k) = Some r -> r_pc r <= pc) /\
    (j < n - 1 -> forall r, nth_error lnt (Z.to_nat (j + 1)) = Some r -> pc < r_pc r).

  Lemma bsearch_inv fuel : forall i j,
    inv i j -> (Z.to_nat (j - i) < fuel)%nat ->
    exists i', bsearch fuel lnt n pc i j = Ok i' /\ inv i' i'.
  Proof.
    unfold max_int64 in Hn.
    induction fuel as [|f IH]; intros i j Hinv Hf; [lia|].
    cbn [bsearch]. destruct (i <? j) eqn:Eij.
    2:{ exists i. split; [reflexivity|]. assert (i = j) by (unfold inv in Hinv; lia). subst j. exact Hinv. }
    destruct Hinv as (H0 & Hjn & Hi & Hle & Hgt).
    assert (Eh : wrap64 (Z.shiftr (wrapu64 (wrap64 (i + j))) 1) = (i + j) / 2).
    { rewrite wrapu64_wrap64 by lia. rewrite shiftr1. apply wrap64_small.
      assert (0 <= (i + j) / 2) by (apply Z.div_pos; lia).
      assert ((i + j) / 2 <= j) by (apply Z.div_le_upper_bound; lia). lia. }
    rewrite Eh. set (h := (i + j) / 2).
    assert (Hh : i <= h < j).
    { subst h. split; [apply Z.div_le_lower_bound; lia|apply Z.div_lt_upper_bound; lia]. }
    rewrite (wrap64_small (n - 1)) by lia.
    destruct (h >=? n - 1) eqn:Ehn.
    - (* j = h *)
      apply IH; [|lia].
      unfold inv. repeat split; try lia.
      + intros k r Hk. apply Hle. lia.
    - rewrite (wrap64_small (h + 1)) by lia.
      destruct (lnt_at_in_range lnt (h + 1) ltac:(fold n; lia)) as [r Hr].
      rewrite Hr. apply lnt_at_ok in Hr. destruct Hr as [_ Hr].
      destruct (r_pc r >? pc) eqn:Epc.
      + (* j = h *)
        apply IH; [|lia].
        unfold inv. repeat split; try lia.
        * intros k r' Hk. apply Hle. lia.
        * intros _ r' Hr'. rewrite Hr in Hr'. injection Hr' as <-. lia.
      + (* i = h + 1 *)
        apply IH; [|lia].
        unfold inv. repeat split; try lia.
        * intros k r' Hk Hr'.
          assert (r_pc r' <= r_pc r).
          { eapply (sorted_nth lnt Hsorted (Z.to_nat k) (Z.to_nat (h + 1))); eauto. lia. }
          lia.
        * exact Hgt.
  Qed.

  Lemma final_is_lookup i : 0 < n -> inv i i -> is_lookup lnt pc (Z.to_nat i).
  Proof.
    intros Hpos (H0 & Hin & Hi & Hle & Hgt). specialize (Hi Hpos).
    split; [subst n; lia|]. split.
    - intros k r Hk Hk0 Hr. apply (Hle (Z.of_nat k) r); [lia|]. rewrite Nat2Z.id. exact Hr.
    - intros r Hr. destruct (Z_lt_le_dec i (n - 1)) as [L|G].
      + apply (Hgt L r). replace (Z.to_nat (i + 1)) with (S (Z.to_nat i)) by lia. exact Hr.
      + assert (nth_error lnt (S (Z.to_nat i)) = None) by (apply nth_error_None; subst n; lia).
        congruence.
  Qed.

  Lemma inv0 : inv 0 n.
  Proof. unfold inv. repeat split; try lia; intros; lia. Qed.

  Lemma position_lookup_lemma : position lnt pc = Ok (lookup_spec lnt pc).
  Proof.
    unfold position. fold n.
    destruct (bsearch_inv (S (length lnt)) 0 n inv0 ltac:(lia)) as (i & Eb & Hinv).
    rewrite Eb.
    destruct (Z_lt_le_dec 0 n) as [Hpos|Hz].
    - pose proof (final_is_lookup i Hpos Hinv) as Hl.
      destruct Hinv as (H0 & Hin & Hi & _). specialize (Hi Hpos).
      destruct (i <? n) eqn:Ein; [|lia].
      destruct (lookup_of_is_lookup lnt pc _ Hsorted Hl) as (r & Hr & Hspec).
      assert (Hat : lnt_at lnt i = Ok r) by (apply lnt_at_ok; split; [lia|exact Hr]).
      rewrite Hat, Hspec. reflexivity.
    - destruct Hinv as (H0 & Hin & _).
      destruct (i <? n) eqn:Ein; [lia|].
      rewrite lookup_spec_empty by (subst n; lia). reflexivity.
  Qed.

  (* the specification's scan and the index characterisation agree, so the
     answer is "the last row with pc' <= pc, else the first row" *)
  Lemma lookup_spec_is_lookup : lnt <> [] ->
    exists i r, is_lookup lnt pc i /\ nth_error lnt i = Some r /\ lookup_spec lnt pc = (r_line r, r_col r).
  Proof.
    intros Hne.
    assert (Hpos : 0 < n).
    { subst n. destruct lnt; [congruence|cbn [length]; lia]. }
    destruct (bsearch_inv (S (length lnt)) 0 n inv0 ltac:(lia)) as (i & Eb & Hinv).
    pose proof (final_is_lookup i Hpos Hinv) as Hl.
    destruct (lookup_of_is_lookup lnt pc _ Hsorted Hl) as (r & Hr & Hspec).
    exists (Z.to_nat i), r. auto.
  Qed.
End Search.
