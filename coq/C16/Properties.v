(* C16 -- property theorems only.  Each is closed by `exact <lemma>`; axioms are
   printed by the audit step of bin/check (Print Assumptions per theorem). *)
From Coq Require Import ZArith Bool List.
From SV Require Import Common.GoInt C16.Model C16.Spec C16.ProofsBits C16.Proofs
  C16.ProofsRoundtrip C16.ProofsSearch C16.ProofsCompose C16.Stack C16.ProofsStack C16.Emit C16.ProofsEmit.
Import ListNotations.
Open Scope Z_scope.

(* ---- the position table (compile.go: generate / clip / decodeLNT / Position) *)

(* Bit-level bridge.  For every combination of a 4-bit unsigned pc delta, a
   5-bit signed line delta, a 6-bit signed column delta and the continuation
   bit (65536 combinations, enumerated completely inside Coq), the value packed
   by generate's shifts and masks is a uint16 and decodeLNT's shifts and sign
   extensions recover the four fields. *)
Theorem entry_fields_roundtrip :
  forall dpc dl dc inc,
    0 <= dpc <= 15 -> -16 <= dl <= 15 -> -32 <= dc <= 31 -> 0 <= inc <= 1 ->
    let x := pack dpc dl dc inc in
    in_uint16 x = true /\ unpack_pc x = dpc /\ unpack_line x = dl /\ unpack_col x = dc /\
    unpack_inc x = inc.
Proof. exact unpack_pack. Qed.

(* lnt_roundtrip.  For ALL instruction lists (any length) whose positions are
   Go-typed (pc uint32, line and col int32) and any function position: the
   encoder, given `rounds` rounds per instruction, produces a table of uint16
   entries (it neither runs out of fuel nor panics) and decodeLNT of that table
   is exactly the list of positions of the instructions that carry one
   (line <> 0), in order, with no other de-duplication.
   Stronger than asked: pc need not even be non-decreasing and the int32 /
   uint32 differences may wrap -- saturated and continuation entries, negative
   deltas, jumps of any size are all covered. *)
Theorem lnt_roundtrip :
  forall line col insns,
    in_int32 line = true -> in_int32 col = true ->
    Forall (fun t => row_ok t = true) insns ->
    exists tab,
      encode_fn line col insns = Ok tab /\
      Forall (fun e => in_uint16 e = true) tab /\
      decode_fn line col tab = rows_of insns.
Proof. exact lnt_roundtrip_lemma. Qed.

(* The same for ANY fuel whatsoever: whenever the encoder returns a table, the
   table decodes to the rows (the Go loop has no fuel; this says the round trip
   does not depend on how the model bounds the loop). *)
Theorem lnt_roundtrip_any_fuel :
  forall fuel line col insns tab,
    in_int32 line = true -> in_int32 col = true ->
    Forall (fun t => row_ok t = true) insns ->
    encode fuel (start line col) insns = Ok tab ->
    decode_fn line col tab = rows_of insns.
Proof. exact lnt_roundtrip_any_fuel_lemma. Qed.

(* Termination of the encoder's inner loop: `rounds prev t` rounds suffice for
   every running row and every target (each round reduces every remaining
   difference by a full field or finishes it), and that number is at most
   2^32/15 + 1. *)
Theorem encoder_inner_loop_terminates :
  forall fuel prev t,
    row_ok prev = true -> row_ok t = true ->
    (rounds prev t <= fuel)%nat ->
    exists es, enc_row fuel prev t = Ok (t, es) /\ es <> [] /\
               Z.of_nat (rounds prev t) <= 286331154.
Proof. exact encoder_inner_loop_terminates_lemma. Qed.

Theorem encoder_never_panics :
  forall fuel prev insns, encode fuel prev insns <> Panic.
Proof. exact encoder_never_panics_lemma. Qed.

(* position_lookup.  For every table (every length a Go slice can have) with
   non-decreasing pc and every pc, the binary search of Funcode.Position
   neither panics nor runs out of fuel and returns the (line, col) of the row
   the specification's linear scan selects: the last row with pc' <= pc; the
   first row when pc precedes all rows; (0, 0) for the empty table. *)
Theorem position_lookup :
  forall lnt pc,
    Z.of_nat (length lnt) <= max_int64 -> pcs_sorted lnt ->
    position lnt pc = Ok (lookup_spec lnt pc).
Proof. exact position_lookup_lemma. Qed.

(* what the scan selects, as an index: every row from 1 up to i has pc' <= pc
   and row i+1, if any, has pc' > pc *)
Theorem position_lookup_index :
  forall lnt pc,
    Z.of_nat (length lnt) <= max_int64 -> pcs_sorted lnt -> lnt <> [] ->
    exists i r, is_lookup lnt pc i /\ nth_error lnt i = Some r /\
                position lnt pc = Ok (r_line r, r_col r).
Proof. exact position_lookup_index_lemma. Qed.

(* End to end: the position a frame reports for pc (Position over decodeLNT of
   the table generate built) is the position of the last positioned
   instruction at or before pc. *)
Theorem position_of_encoded :
  forall line col insns pc,
    in_int32 line = true -> in_int32 col = true ->
    Forall (fun t => row_ok t = true) insns ->
    pcs_sorted insns ->
    Z.of_nat (length insns) <= max_int64 ->
    position_of_code line col insns pc = Ok (lookup_spec (rows_of insns) pc).
Proof. exact position_of_code_lemma. Qed.

(* ---- the hypotheses are satisfiable, on inputs that saturate every field *)
Definition ex_insns : list row :=
  [ mkrow 0 3 5; mkrow 2 0 0; mkrow 40 100003 10001; mkrow 41 7 2; mkrow 41 7 2;
    mkrow 1000 2147483647 (-2147483648); mkrow 4294967295 (-2147483648) 2147483647 ].

Example ex_rows_ok : Forall (fun t => row_ok t = true) ex_insns.
Proof. repeat constructor. Qed.

Example ex_sorted : pcs_sorted ex_insns.
Proof. cbn. repeat split; discriminate. Qed.

Example ex_roundtrip :
  match encode_fn 1 1 (firstn 5 ex_insns) with
  | Ok tab => (Z.of_nat (length tab) >? 6000) && list_eqb row_eqb (decode_fn 1 1 tab) (rows_of (firstn 5 ex_insns))
  | _ => false
  end = true.
Proof. vm_compute. reflexivity. Qed.

Example ex_lookup :
  map (fun pc => position_of_code 1 1 [mkrow 0 3 5; mkrow 2 0 0; mkrow 40 1003 10001; mkrow 41 7 2; mkrow 41 7 2] pc)
      [39; 40; 5000] = [Ok (3, 5); Ok (1003, 10001); Ok (7, 2)].
Proof. vm_compute. reflexivity. Qed.

Example ex_rounds : Z.of_nat (rounds (start 1 1) (mkrow 40 100003 10001)) = 6667.
Proof. vm_compute. reflexivity. Qed.

(* ---- the call stack attached to an error (eval.go Call / evalError, interp.go fr.pc) *)

(* callstack_shape.  For every history of the event machine of Stack.v that
   consists of any number of calls that ran to completion, then a chain of
   nested calls (each frame executing any instructions and any complete nested
   calls -- Starlark or built-in -- before its pending call) ending in a failing
   operation, and then the unwinding of all frames: the host receives an
   EvalError whose CallStack is exactly the list of the active calls, outermost
   first, each with the pc of its pending call, the innermost with the pc of the
   failing operation.  Any depth, any history. *)
Theorem callstack_shape :
  forall pre tr cs,
    completed pre -> chain tr cs ->
    run init (pre ++ tr ++ repeat EvUnwind (length cs)) =
    Some (mkstate [] (Finished (EEval cs))).
Proof. exact callstack_shape_lemma. Qed.

(* The error is wrapped once: at every intermediate level of the unwinding the
   propagating error already carries the full stack and is never re-wrapped
   with a shorter one. *)
Theorem error_wrapped_once :
  forall pre tr cs k,
    completed pre -> chain tr cs -> (0 < k < length cs)%nat ->
    exists s, run init (pre ++ tr ++ repeat EvUnwind k) = Some (mkstate s (Failing (EEval cs))) /\
              length s = (length cs - k)%nat.
Proof. exact wrapped_once_lemma. Qed.

(* What the frames report: for every assignment of compiled code to callables
   (None = built-in), each frame (c, pc) of the CallStack reports the position
   of the last positioned instruction of c's code at or before pc. *)
Theorem reported_positions :
  forall code cs,
    (forall c fc, code c = Some fc -> fcode_ok fc) ->
    map (report code) cs = map (report_spec code) cs.
Proof. exact report_spec_lemma. Qed.

(* a concrete history: one completed call, then toplevel(0) -> f(1) -> builtin(2) -> g(3) fails at pc 9 *)
Definition ex_pre : list event := [EvCall 7%nat; EvStep 0; EvStep 3; EvReturn].
Definition ex_chain : list event :=
  [EvCall 0%nat; EvStep 0; EvStep 4; EvCall 5%nat; EvStep 0; EvReturn; EvStep 8;
   EvCall 1%nat; EvStep 0; EvStep 2;
   EvCall 2%nat;
   EvCall 3%nat; EvStep 0; EvStep 9; EvFail].
Definition ex_cs : list cframe := [(0%nat, 8); (1%nat, 2); (2%nat, 0); (3%nat, 9)].

Example ex_completed : completed ex_pre.
Proof.
  apply (completed_call 7%nat [EvStep 0; EvStep 3] 3 []); [repeat constructor|constructor].
Qed.

Example ex_chain_ok : chain ex_chain ex_cs.
Proof.
  unfold ex_chain, ex_cs.
  apply (chain_call 0%nat [EvStep 0; EvStep 4; EvCall 5%nat; EvStep 0; EvReturn; EvStep 8] 8).
  { apply body_step, body_step. apply (body_call 4 5%nat [EvStep 0] 0 [EvStep 8] 8); repeat constructor. }
  apply (chain_call 1%nat [EvStep 0; EvStep 2] 2); [repeat constructor|].
  apply (chain_call 2%nat [] 0); [constructor|].
  apply (chain_fail 3%nat [EvStep 0; EvStep 9] 9). repeat constructor.
Qed.

Example ex_run :
  run init (ex_pre ++ ex_chain ++ repeat EvUnwind 4) = Some (mkstate [] (Finished (EEval ex_cs))).
Proof. vm_compute. reflexivity. Qed.

(* ---- which instruction carries the position (setPos / emit), slice expressions *)

(* For every slice expression x[lo:hi:step] (any operands, each compiling to any
   non-empty instruction sequence with its own positions, any of lo/hi/step
   absent) the SLICE instruction emitted by the repaired compiler carries the
   position of the '[' token.  (History.v: before /repo commit 103924d it carried
   none, for every slice expression.) *)
Theorem slice_carries_position :
  forall lbrack x lo hi st f,
    last_insn (compile_slice lbrack x lo hi st f) = Some (mkeinsn OSlice (Some lbrack)).
Proof. exact slice_carries_position_lemma. Qed.
