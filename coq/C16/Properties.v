(* C16 -- property theorems only.  Each is closed by `exact <lemma>`; axioms are
   printed by the audit step of bin/check (Print Assumptions per theorem). *)
From Coq Require Import ZArith Bool List.
From SV Require Import Common.GoInt C16.Model C16.Spec C16.ProofsBits C16.Proofs
  C16.ProofsRoundtrip C16.ProofsSearch C16.ProofsCompose C16.Stack C16.ProofsStack C16.Emit C16.ProofsEmit.
Import ListNotations.
Open Scope Z_scope.

(* ---- the position table (compile.go: generate / clip / decodeLNT / Position) *)

(* Bit-level bridge.  For every combination of a 4-bit unsigned pc delta, a
   5-bit signed line delta, a 6-bit signed column delta and the continuation
   bit (65536 combinations, enumerated completely inside Coq), the value packed
   by generate's shifts and masks is a uint16 and decodeLNT's shifts and sign
   extensions recover the four fields. *)
Theorem entry_fields_roundtrip :
  forall dpc dl dc inc,
    0 <= dpc <= 15 -> -16 <= dl <= 15 -> -32 <= dc <= 31 -> 0 <= inc <= 1 ->
    let x := pack dpc dl dc inc in
    in_uint16 x = true /\ unpack_pc x = dpc /\ unpack_line x = dl /\ unpack_col x = dc /\
    unpack_inc x = inc.
Proof. exact unpack_pack. Qed.

(* lnt_roundtrip.  For ALL instruction lists (any length) whose positions are
   Go-typed (pc uint32, line and col int32) and any function position: the
   encoder, given `rounds` rounds per instruction, produces a table of uint16
   entries (it neither runs out of fuel nor panics) and decodeLNT of that table
   is exactly the list of positions of the instructions that carry one
   (line <> 0), in order, with no other de-duplication.
   Stronger than asked: pc need not even be non-decreasing and the int32 /
   uint32 differences may wrap -- saturated and continuation entries, negative
   deltas, jumps of any size are all covered. *)
Theorem lnt_roundtrip :
  forall line col insns,
    in_int32 line = true -> in_int32 col = true ->
    Forall (fun t => row_ok t = true) insns ->
    exists tab,
      encode_fn line col insns = Ok tab /\
      Forall (fun e => in_uint16 e = true) tab /\
      decode_fn line col tab = rows_of insns.
Proof. exact lnt_roundtrip_lemma. Qed.

(* The same for ANY fuel whatsoever: whenever the encoder returns a table, the
   table decodes to the rows (the Go loop has no fuel; this says the round trip
   does not depend on how the model bounds the loop). *)
Theorem lnt_roundtrip_any_fuel :
  forall fuel line col insns tab,
    in_int32 line = true -> in_int32 col = true ->
    Forall (fun t => row_ok t = true) insns ->
    encode fuel (start line col) insns = Ok tab ->
    decode_fn line col tab = rows_of insns.
Proof. exact lnt_roundtrip_any_fuel_lemma. Qed.

(* Termination of the encoder's inner loop: `rounds prev t` rounds suffice for
   every running row and every target (each round reduces every remaining
   difference by a full field or finishes it), and that number is at most
   2^32/15 + 1. *)
Theorem encoder_inner_loop_terminates :
  forall fuel prev t,
    row_ok prev = true -> row_ok t = true ->
    (rounds prev t <= fuel)%nat ->
    exists es, enc_row fuel prev t = Ok (t, es) /\ es <> [] /\
               Z.of_nat (rounds prev t) <= 286331154.
Proof. exact encoder_inner_loop_terminates_lemma. Qed.

Theorem encoder_never_panics :
  forall fuel prev insns, encode fuel prev insns <> Panic.
Proof. exact encoder_never_panics_lemma. Qed.

(* position_lookup.  For every table (every length a Go slice can have) with
   non-decreasing pc and every pc, the binary search of Funcode.Position
   neither panics nor runs out of fuel and returns the (line, col) of the row
   the specification's linear scan selects: the last row with pc' <= pc; the
   first row when pc precedes all rows; (0, 0) for the empty table. *)
Theorem position_lookup :
  forall lnt pc,
    Z.of_nat (length lnt) <= max_int64 -> pcs_sorted lnt ->
    position lnt pc = Ok (lookup_spec lnt pc).
Proof. exact position_lookup_lemma. Qed.

(* what the scan selects, as an index: every row from 1 up to i has pc' <= pc
   and row i+1, if any, has pc' > pc *)
Theorem position_lookup_index :
  forall lnt pc,
    Z.of_nat (length lnt) <= max_int64 -> pcs_sorted lnt -> lnt <> [] ->
    exists i r, is_lookup lnt pc i /\ nth_error lnt i = Some r /\
                position lnt pc = Ok (r_line r, r_col r).
Proof. exact position_lookup_index_lemma. Qed.

(* End to end: the position a frame reports for pc (Position over decodeLNT of
   the table generate built) is the position of the last positioned
   instruction at or before pc. *)
Theorem position_of_encoded :
  forall line col insns pc,
    in_int32 line = true -> in_int32 col = true ->
    Forall (fun t => row_ok t = true) insns ->
    pcs_sorted insns ->
    Z.of_nat (length insns) <= max_int64 ->
    position_of_code line col insns pc = Ok (lookup_spec (rows_of insns) pc).
Proof. exact position_of_code_lemma. Qed.

(* ---- the hypotheses are satisfiable, on inputs that saturate every field *)
Definition ex_insns : list row :=
  [ mkrow 0 3 5; mkrow 2 0 0; mkrow 40 100003 10001; mkrow 41 7 2; mkrow 41 7 2;
    mkrow 1000 2147483647 (-2147483648); mkrow 4294967295 (-2147483648) 2147483647 ].

Example ex_rows_ok : Forall (fun t => row_ok t = true) ex_insns.
Proof. repeat constructor. Qed.

Example ex_sorted : pcs_sorted ex_insns.
Proof. cbn. repeat split; discriminate. Qed.

Example ex_roundtrip :
  match encode_fn 1 1 (firstn 5 ex_insns) with
  | Ok tab => (Z.of_nat (length tab) >? 6000) && list_eqb row_eqb (decode_fn 1 1 tab) (rows_of (firstn 5 ex_insns))
  | _ => false
  end = true.
Proof. vm_compute. reflexivity. Qed.

Example ex_lookup :
  map (fun pc => position_of_code 1 1 [mkrow 0 3 5; mkrow 2 0 0; mkrow 40 1003 10001; mkrow 41 7 2; mkrow 41 7 2] pc)
      [39; 40; 5000] = [Ok (3, 5); Ok (1003, 10001); Ok (7, 2)].
Proof. vm_compute. reflexivity. Qed.

Example ex_rounds : Z.of_nat (rounds (start 1 1) (mkrow 40 100003 10001)) = 6667.
Proof. vm_compute. reflexivity. Qed.

(* ---- the call stack attached to an error (eval.go Call / evalError, interp.go fr.pc) *)

(* callstack_shape.  For every history of the event machine of Stack.v that
   consists of any number of calls that ran to completion, then a chain of
   nested calls (each frame executing any instructions and any complete nested
   calls -- Starlark or built-in -- before its pending call) ending in a failing
   operation, and then the unwinding of all frames: the host receives an
   EvalError whose CallStack is exactly the list of the active calls, outermost
   first, each with the pc of its pending call, the innermost with the pc of the
   failing operation.  Any depth, any history. *)
Theorem callstack_shape :
  forall pre tr cs,
    completed pre -> chain tr cs ->
    run init (pre ++ tr ++ repeat EvUnwind (length cs)) =
    Some (mkstate [] (Finished (EEval cs))).
Proof. exact callstack_shape_lemma. Qed.

(* The error is wrapped once: at every intermediate level of the unwinding the
   propagating error already carries the full stack and is never re-wrapped
   with a shorter one. *)
Theorem error_wrapped_once :
  forall pre tr cs k,
    completed pre -> chain tr cs -> (0 < k < length cs)%nat ->
    exists s, run init (pre ++ tr ++ repeat EvUnwind k) = Some (mkstate s (Failing (EEval cs))) /\
              length s = (length cs - k)%nat.
Proof. exact wrapped_once_lemma. Qed.

(* What the frames report: for every assignment of compiled code to callables
   (None = built-in), each frame (c, pc) of the CallStack reports the position
   of the last positioned instruction of c's code at or before pc. *)
Theorem reported_positions :
  forall code cs,
    (forall c fc, code c = Some fc -> fcode_ok fc) ->
    map (report code) cs = map (report_spec code) cs.
Proof. exact report_spec_lemma. Qed.

(* a concrete history: one completed call, then toplevel(0) -> f(1) -> builtin(2) -> g(3) fails at pc 9 *)
Definition ex_pre : list event := [EvCall 7%nat; EvStep 0; EvStep 3; EvReturn].
Definition ex_chain : list event :=
  [EvCall 0%nat; EvStep 0; EvStep 4; EvCall 5%nat; EvStep 0; EvReturn; EvStep 8;
   EvCall 1%nat; EvStep 0; EvStep 2;
   EvCall 2%nat;
   EvCall 3%nat; EvStep 0; EvStep 9; EvFail].
Definition ex_cs : list cframe := [(0%nat, 8); (1%nat, 2); (2%nat, 0); (3%nat, 9)].

Example ex_completed : completed ex_pre.
Proof.
  apply (completed_call 7%nat [EvStep 0; EvStep 3] 3 []); [repeat constructor|constructor].
Qed.

Example ex_chain_ok : chain ex_chain ex_cs.
Proof.
  unfold ex_chain, ex_cs.
  apply (chain_call 0%nat [EvStep 0; EvStep 4; EvCall 5%nat; EvStep 0; EvReturn; EvStep 8] 8).
  { apply body_step, body_step. apply (body_call 4 5%nat [EvStep 0] 0 [EvStep 8] 8); repeat constructor. }
  apply (chain_call 1%nat [EvStep 0; EvStep 2] 2); [repeat constructor|].
  apply (chain_call 2%nat [] 0); [constructor|].
  apply (chain_fail 3%nat [EvStep 0; EvStep 9] 9). repeat constructor.
Qed.

Example ex_run :
  run init (ex_pre ++ ex_chain ++ repeat EvUnwind 4) = Some (mkstate [] (Finished (EEval ex_cs))).
Proof. vm_compute. reflexivity. Qed.

(* ---- which instruction carries the position (setPos / emit), slice expressions *)

(* For every slice expression x[lo:hi:step] (any operands, each compiling to any
   non-empty instruction sequence with its own positions, any of lo/hi/step
   absent) the SLICE instruction emitted by the repaired compiler carries the
   position of the '[' token.  (History.v: before /repo commit 103924d it carried
   none, for every slice expression.) *)
Theorem slice_carries_position :
  forall lbrack x lo hi st f,
    last_insn (compile_slice lbrack x lo hi st f) = Some (mkeinsn OSlice (Some lbrack)).
Proof. exact slice_carries_position_lemma. Qed.

(* ======================================================================
   fallible_has_pos: "the innermost frame identifies the operation that failed".
   Over C01's models of the interpreter loop (C01/VM.v) and of the code generator
   (C01/Compile.v: fcomp.stmt / expr / assign / call / args / comprehension /
   ifelse for the whole input language of Compile.v -- every statement and
   expression form of the core language except lambda and closures over
   enclosing functions' variables, which Compile.v rejects as unsupported, so
   the opcodes FREECELL / LOCALCELL are classified but never generated).
   C01's instructions carry the (line, col) fields of compile.go's insn as an
   operand exactly when the generator emits them after a setPos.
   Definitions: C16/FallibleSpec.v (opcode, fallible, insn_pos, site_of and the
   specification op_pos_*: the operations of a syntax tree in evaluation order
   with the token position compile.go reports for each; no instruction appears
   in it).  Proofs: FallibleVM.v, FallibleGen.v, FallibleTable.v.
   The folding of literal runs in + chains (Compile.fold_prog; compile.go
   fcomp.plus) is covered separately below (fold_keeps_positions,
   folded_fallible_has_pos; FallibleFold.v).  Not covered: slot numbering
   (Compile.number_prog, the resolver's part: the specification is read on the
   resolved tree, as compile.go reads it); PREDECLARED, which the real
   interpreter can fail on for an uninitialised predeclared name (an embedding
   error) and C01's VM treats as infallible.
   ====================================================================== *)
From Coq Require Import String Lia ZifyBool.
From SV Require Import C01.Syntax C01.Values C01.Ref C01.VM C01.Compile.
From SV Require Import C16.FallibleSpec C16.FallibleVM C16.FallibleGen C16.FallibleFold C16.FallibleTable.
Open Scope Z_scope.

(* infallible_never_fails.  The classification `fallible` is sound for VM.v: an
   instruction whose opcode is not fallible never ends a step with an error, in
   any frame, on any stack, globals and heap. *)
Theorem infallible_never_fails :
  forall cp fname i f rest g w p ic w',
    fallible (op i) = false -> exec_insn cp fname i f rest g w <> Stop (VFail p ic w').
Proof. exact infallible_never_fails_lemma. Qed.

(* ... and exact: an opcode is fallible iff some instruction with that opcode ends
   some step with an error (the 19 witnesses are evaluated inside Coq). *)
Theorem fallible_iff_can_fail :
  forall o, fallible o = true <->
    exists cp fname i f rest g w p ic w',
      op i = o /\ exec_insn cp fname i f rest g w = Stop (VFail p ic w').
Proof. exact fallible_iff_can_fail_lemma. Qed.

(* What a failing step reports: the instruction at the pc of the innermost frame
   has a fallible opcode and the error carries the position that instruction
   carries (also when the failure is that of binding the arguments in the
   callee: the position of the CALL). *)
Theorem failure_reports_carried_position :
  forall cp fname s p ic w',
    VM.step cp fname s = Stop (VFail p ic w') ->
    exists f rest i, vs_frames s = f :: rest /\ nth_error (fr_code f) (fr_pc f) = Some i /\
                     fallible (op i) = true /\ insn_pos i = Some p.
Proof. exact step_fail_insn. Qed.

(* fallible_sites_exact.  For every program p and every function compile_prog
   produces for it (the toplevel and every def at any depth; compiled_from names
   the syntax each was compiled from): the fallible instructions of its code,
   read in code order as (operation, carried position), are EXACTLY the
   operations the specification lists for the function's statements, in
   evaluation order -- none missing, none extra, each with the position of its
   own token (operator / '(' / '[' / '.' / ':' / `for` / `load` / name).
   By induction over the generator, through break/continue patching and jump
   resolution, for conditions compiled as branches as well as values. *)
Theorem fallible_sites_exact :
  forall p fc ls body, compiled_from p fc ls body -> sites (fc_code fc) = op_pos_block p ls body.
Proof. exact fallible_sites_exact_lemma. Qed.

(* compiled_from covers every function of the compiled program *)
Theorem compiled_from_covers :
  forall p fc,
    fc = cp_top (compile_prog p) \/ List.In fc (map snd (cp_funs (compile_prog p))) ->
    exists ls body, compiled_from p fc ls body.
Proof. exact compiled_from_complete. Qed.

(* fallible_has_pos.  Every instruction of generated code whose opcode is fallible
   carries a position, and it is the position of an operation of that kind in
   the syntax the function was compiled from. *)
Theorem fallible_has_pos :
  forall p fc ls body, compiled_from p fc ls body ->
  forall i, List.In i (fc_code fc) -> fallible (op i) = true ->
    exists k ps, insn_pos i = Some ps /\ site_of i = [(k, ps)] /\ List.In (k, ps) (op_pos_block p ls body).
Proof. exact fallible_has_pos_lemma. Qed.

(* Table level, for ANY instruction list of Model.v (whatever other instructions
   carry): an instruction that has a position of its own (line <> 0) and lies at a
   smaller pc than every later instruction gets its own position back from the
   specification's lookup at its pc. *)
Theorem positioned_pc_reports_own_row :
  forall insns n t,
    nth_error insns n = Some t -> r_line t <> 0 ->
    (forall k r, (n < k)%nat -> nth_error insns k = Some r -> r_pc t < r_pc r) ->
    lookup_spec (rows_of insns) (r_pc t) = (r_line t, r_col t).
Proof. exact own_row_wins. Qed.

(* The composition with position_of_encoded.  code_rows addr code: the
   (pc, line, col) of every instruction as generate sees them (line = 0 when the
   instruction carries none), for any strictly increasing assignment addr of
   uint32 addresses to the instructions.  Source positions are those generate can
   record (pos_ok: 1 <= line, line and col within int32).  Then for every
   fallible instruction, Position over decodeLNT of the table generate builds,
   asked at that instruction's pc, returns the instruction's own position --
   which is the position of an operation of the function's syntax. *)
Theorem fallible_pc_reports_own_position :
  forall p fc ls body, compiled_from p fc ls body ->
  forall addr : nat -> Z,
    (forall a b, (a < b)%nat -> addr a < addr b) ->
    (forall k, (k < List.length (fc_code fc))%nat -> in_uint32 (addr k) = true) ->
    Z.of_nat (List.length (fc_code fc)) <= max_int64 ->
    Forall (fun s => pos_ok (snd s)) (op_pos_block p ls body) ->
  forall fline fcol, in_int32 fline = true -> in_int32 fcol = true ->
  forall n i,
    nth_error (fc_code fc) n = Some i -> fallible (op i) = true ->
    exists k ps,
      site_of i = [(k, ps)] /\ List.In (k, ps) (op_pos_block p ls body) /\
      position_of_code fline fcol (code_rows addr (fc_code fc)) (addr n)
      = Model.Ok (Z.of_nat (fst ps), Z.of_nat (snd ps)).
Proof. exact fallible_pc_reports_own_position_lemma. Qed.

(* failing_pc_reports_operation.  Whenever a step of the machine fails, in any
   state whose innermost frame runs the code of a function of the compiled
   program, with error position pfail: the position the frame reports for its pc
   (Position over the decoded table) is pfail, and pfail is the position of an
   operation of the function's syntax -- the failing operation's, not an earlier
   instruction's. *)
Theorem failing_pc_reports_operation :
  forall p fc ls body, compiled_from p fc ls body ->
  forall addr : nat -> Z,
    (forall a b, (a < b)%nat -> addr a < addr b) ->
    (forall k, (k < List.length (fc_code fc))%nat -> in_uint32 (addr k) = true) ->
    Z.of_nat (List.length (fc_code fc)) <= max_int64 ->
    Forall (fun s => pos_ok (snd s)) (op_pos_block p ls body) ->
  forall fline fcol, in_int32 fline = true -> in_int32 fcol = true ->
  forall cp fname s f rest pfail ic w',
    vs_frames s = f :: rest -> fr_code f = fc_code fc ->
    VM.step cp fname s = Stop (VFail pfail ic w') ->
    position_of_code fline fcol (code_rows addr (fc_code fc)) (addr (fr_pc f))
    = Model.Ok (Z.of_nat (fst pfail), Z.of_nat (snd pfail)) /\
    exists k, List.In (k, pfail) (op_pos_block p ls body).
Proof. exact failing_pc_reports_operation_lemma. Qed.

(* ---- the hypotheses are satisfiable: a function with a call, an index and a
   binary operator on three different lines

     def f(a, b):          # line 1
         x = g(a)          # line 2, '(' at column 10
         y = a[b]          # line 3, '[' at column 10
         return x + y      # line 4, '+' at column 14
     (def g(v): return v   # line 6) *)
Open Scope string_scope.
Definition exf_body : list stmt :=
  [ SAssign (TName "x" (2, 5)%nat) (ECall (EName "g" (2, 9)%nat) [APos (EName "a" (2, 11)%nat)] (2, 10)%nat) (2, 7)%nat;
    SAssign (TName "y" (3, 5)%nat) (EIndex (EName "a" (3, 9)%nat) (EName "b" (3, 11)%nat) (3, 10)%nat) (3, 7)%nat;
    SReturn (Some (EBinary Add (4, 14)%nat (EName "x" (4, 12)%nat) (EName "y" (4, 16)%nat))) ].
Definition exf_fd : fundef :=
  {| fd_name := "f"; fd_params := [PPlain "a"; PPlain "b"]; fd_body := exf_body; fd_pos := (1, 1)%nat |}.
Definition exf_prog : program :=
  {| p_opts := {| o_set := false; o_while := false; o_recursion := false; o_toplevel := false |};
     p_body := [ SDef 0 "g" [PPlain "v"] [SReturn (Some (EName "v" (6, 12)%nat))] (6, 1)%nat;
                 SDef 1 "f" [PPlain "a"; PPlain "b"] exf_body (1, 1)%nat ] |}.
Definition exf_fc : funcode := compile_fun exf_prog exf_fd.

Example exf_compiled_from : compiled_from exf_prog exf_fc (layout exf_fd) (fd_body exf_fd).
Proof. apply (cf_def exf_prog 1%nat exf_fd). cbn. right. left. reflexivity. Qed.

Example exf_code :
  fc_code exf_fc =
  [ GLOBAL 0 (2, 9)%nat; LOCAL 0 (2, 11)%nat; CALL 0 1 0 (2, 10)%nat; SETLOCAL 2;
    LOCAL 0 (3, 9)%nat; LOCAL 1 (3, 11)%nat; INDEX (3, 10)%nat; SETLOCAL 3;
    LOCAL 2 (4, 12)%nat; LOCAL 3 (4, 16)%nat; BINARY Add (4, 14)%nat; RETURN; NONE; RETURN ].
Proof. vm_compute. reflexivity. Qed.

Example exf_operations :
  op_pos_block exf_prog (layout exf_fd) exf_body =
  [ (KVarRead, (2, 9)%nat); (KVarRead, (2, 11)%nat); (KCall 1 0 false false, (2, 10)%nat);
    (KVarRead, (3, 9)%nat); (KVarRead, (3, 11)%nat); (KIndex, (3, 10)%nat);
    (KVarRead, (4, 12)%nat); (KVarRead, (4, 16)%nat); (KBinary Add, (4, 14)%nat) ].
Proof. vm_compute. reflexivity. Qed.

Example exf_positions_ok : Forall (fun s => pos_ok (snd s)) (op_pos_block exf_prog (layout exf_fd) exf_body).
Proof. rewrite exf_operations. repeat constructor; vm_compute; discriminate. Qed.

Example exf_addr_ok : forall k, (k < List.length (fc_code exf_fc))%nat -> in_uint32 (Z.of_nat k) = true.
Proof.
  rewrite exf_code. cbn [List.length]. intros k Hk. unfold in_uint32, max_uint32. lia.
Qed.

(* the machine fails at the INDEX (pc 6) on an int receiver: the error position,
   and the position the table reports for pc 6, are those of the '[' on line 3 *)
Definition exf_state : vstate :=
  {| vs_frames := [ {| fr_fid := Some 1%nat; fr_code := fc_code exf_fc; fr_pc := 6; fr_stack := [VInt 1; VInt 1];
                       fr_locals := [Some (VInt 1); Some (VInt 1); Some (VInt 1); None]; fr_iters := []; fr_free := [] |} ];
     vs_g := []; vs_w := empty_world |}.

Example exf_fails :
  VM.step (compile_prog exf_prog) (fun _ => "") exf_state = Stop (VFail (3, 10)%nat false empty_world).
Proof. vm_compute. reflexivity. Qed.

Example exf_reported :
  map (position_of_code 1 1 (code_rows Z.of_nat (fc_code exf_fc))) [2; 3; 6; 7; 10; 13]
  = [Model.Ok (2, 10); Model.Ok (2, 10); Model.Ok (3, 10); Model.Ok (3, 10); Model.Ok (4, 14); Model.Ok (4, 14)].
Proof. vm_compute. reflexivity. Qed.

(* all hypotheses of failing_pc_reports_operation at once, on this function and failing state *)
Example exf_theorem_applies :
  position_of_code 1 1 (code_rows Z.of_nat (fc_code exf_fc)) 6 = Model.Ok (3, 10) /\
  exists k, List.In (k, (3, 10)%nat) (op_pos_block exf_prog (layout exf_fd) exf_body).
Proof.
  refine (failing_pc_reports_operation exf_prog exf_fc _ _ exf_compiled_from Z.of_nat _ exf_addr_ok _
            exf_positions_ok 1 1 eq_refl eq_refl (compile_prog exf_prog) (fun _ => "") exf_state _ []
            (3, 10)%nat false empty_world eq_refl eq_refl exf_fails).
  - intros a b H. lia.
  - rewrite exf_code. vm_compute. discriminate.
Qed.

(* ---- the folding of + chains (fcomp.plus; Compile.fold_expr / fold_stmt / fold_prog)

   fold_keeps_positions.  In any scope, every operation of a folded block is an
   operation of the source block: same kind, same position.  The pass invents no
   position and moves none to another token.  (Inclusion only, and rightly so:
   exh below -- merging  x + [a] + [g(a)]  into  x + [a, g(a)]  drops the second
   + and evaluates the first after the call.) *)
Theorem fold_keeps_positions :
  forall p ls ss, incl (op_pos_block p ls (map (fold_stmt 1000) ss)) (op_pos_block p ls ss).
Proof. exact fold_block_incl_lemma. Qed.

(* folded_fallible_has_pos.  Folding then generating (what compile.go's expr does
   with a resolved tree): for every program p and every function of
   compile_prog (fold_prog p), every fallible instruction carries the position
   of an operation of that kind in the SOURCE of that function (the body of p,
   or of the def of p it is the folded copy of), read in p's own global scope. *)
Theorem folded_fallible_has_pos :
  forall p fc ls body', compiled_from (fold_prog p) fc ls body' ->
  exists body, source_of p body /\
    forall i, List.In i (fc_code fc) -> fallible (op i) = true ->
      exists k ps, insn_pos i = Some ps /\ site_of i = [(k, ps)] /\ List.In (k, ps) (op_pos_block p ls body).
Proof. exact folded_fallible_has_pos_lemma. Qed.

(*   def h(x, a):                       # line 1
         return x + [a] + [g(a)]        # line 2: + at 14 and 20, '(' at 24 *)
Definition exh_body : list stmt :=
  [ SReturn (Some (EBinary Add (2, 20)%nat
                     (EBinary Add (2, 14)%nat (EName "x" (2, 12)%nat) (EList [EName "a" (2, 17)%nat]))
                     (EList [ECall (EName "g" (2, 23)%nat) [APos (EName "a" (2, 25)%nat)] (2, 24)%nat]))) ].
Definition exh_folded_body : list stmt :=
  [ SReturn (Some (EBinary Add (2, 14)%nat (EName "x" (2, 12)%nat)
                     (EList [EName "a" (2, 17)%nat;
                             ECall (EName "g" (2, 23)%nat) [APos (EName "a" (2, 25)%nat)] (2, 24)%nat]))) ].
Definition exh_prog : program :=
  {| p_opts := {| o_set := false; o_while := false; o_recursion := false; o_toplevel := false |};
     p_body := [ SDef 0 "g" [PPlain "v"] [SReturn (Some (EName "v" (6, 12)%nat))] (6, 1)%nat;
                 SDef 1 "h" [PPlain "x"; PPlain "a"] exh_body (1, 1)%nat ] |}.
Definition exh_fd' : fundef :=
  {| fd_name := "h"; fd_params := [PPlain "x"; PPlain "a"]; fd_body := exh_folded_body; fd_pos := (1, 1)%nat |}.

Example exh_folds : map (fold_stmt 1000) exh_body = exh_folded_body.
Proof. vm_compute. reflexivity. Qed.

Example exh_compiled_from :
  compiled_from (fold_prog exh_prog) (compile_fun (fold_prog exh_prog) exh_fd') (layout exh_fd') (fd_body exh_fd').
Proof. apply (cf_def (fold_prog exh_prog) 1%nat exh_fd'). vm_compute. right. left. reflexivity. Qed.

Example exh_code :
  fc_code (compile_fun (fold_prog exh_prog) exh_fd') =
  [ LOCAL 0 (2, 12)%nat; LOCAL 1 (2, 17)%nat; GLOBAL 0 (2, 23)%nat; LOCAL 1 (2, 25)%nat; CALL 0 1 0 (2, 24)%nat;
    MAKELIST 2; BINARY Add (2, 14)%nat; RETURN; NONE; RETURN ].
Proof. vm_compute. reflexivity. Qed.

(* source order: x, a, +@14, g, a, call, +@20;  folded: x, a, g, a, call, +@14 *)
Example exh_source_operations :
  op_pos_block exh_prog (layout exh_fd') exh_body =
  [ (KVarRead, (2, 12)%nat); (KVarRead, (2, 17)%nat); (KBinary Add, (2, 14)%nat); (KVarRead, (2, 23)%nat);
    (KVarRead, (2, 25)%nat); (KCall 1 0 false false, (2, 24)%nat); (KBinary Add, (2, 20)%nat) ].
Proof. vm_compute. reflexivity. Qed.

Example exh_folded_operations :
  op_pos_block exh_prog (layout exh_fd') exh_folded_body =
  [ (KVarRead, (2, 12)%nat); (KVarRead, (2, 17)%nat); (KVarRead, (2, 23)%nat); (KVarRead, (2, 25)%nat);
    (KCall 1 0 false false, (2, 24)%nat); (KBinary Add, (2, 14)%nat) ].
Proof. vm_compute. reflexivity. Qed.
