(* C16 -- the call stack attached to an error.  An event machine mirroring
   starlark.Call / Function.CallInternal (starlark/eval.go, starlark/interp.go):

     EvCall c    Call: a frame for callable c is pushed (thread.stack = append(...)),
                 its pc is 0
     EvStep pc   interpreter loop of the top frame: `fr.pc = pc` is stored before
                 the instruction at pc is executed
     EvReturn    CallInternal returned a value: Call's deferred function clears
                 the frame and pops it
     EvFail      the operation being executed by the top frame fails with an
                 ordinary Go error (also: setArgs rejects the arguments)
     EvUnwind    the error leaves one Call: `if err != nil && !is[*EvalError](err)
                 { err = thread.evalError(err) }`, then the deferred pop; the
                 caller's loop does `break loop` and returns the error unchanged

   thread.evalError copies the whole frame stack into CallFrame values
   (Name, Position(pc)) at that moment; both are functions of (callable, pc),
   which is what a `cframe` records. *)
From Coq Require Import ZArith Bool List.
From SV Require Import Common.GoInt C16.Model C16.Spec.
Import ListNotations.
Open Scope Z_scope.

Definition callable := nat.

Record frame := mkframe { f_callable : callable; f_pc : Z }.
Definition cframe := (callable * Z)%type.

Inductive error :=
| EPlain                          (* any error that is not an *EvalError *)
| EEval (cs : list cframe).       (* *EvalError and its CallStack, outermost first *)

Inductive event := EvCall (c : callable) | EvStep (pc : Z) | EvReturn | EvFail | EvUnwind.

Inductive status :=
| Running
| Failing (e : error)             (* an error is propagating outwards *)
| Finished (e : error).           (* the outermost Call has returned the error to the host *)

(* thread.stack: outermost frame first, as in Go *)
Record state := mkstate { stack : list frame; st : status }.

Definition init : state := mkstate [] Running.

(* thread.CallStack(): a copy, outermost first *)
Definition copy_stack (s : list frame) : list cframe :=
  map (fun f => (f_callable f, f_pc f)) s.

(* the test at the end of starlark.Call *)
Definition wrap_once (s : list frame) (e : error) : error :=
  match e with
  | EPlain => EEval (copy_stack s)
  | EEval cs => EEval cs
  end.

Definition set_top_pc (s : list frame) (pc : Z) : option (list frame) :=
  match rev s with
  | [] => None
  | f :: r => Some (rev r ++ [mkframe (f_callable f) pc])
  end.

Definition pop (s : list frame) : option (list frame) :=
  match rev s with
  | [] => None
  | _ :: r => Some (rev r)
  end.

(* None: the event cannot happen in this state *)
Definition step (s : state) (ev : event) : option state :=
  match st s, ev with
  | Running, EvCall c => Some (mkstate (stack s ++ [mkframe c 0]) Running)
  | Running, EvStep pc =>
      match set_top_pc (stack s) pc with
      | Some s' => Some (mkstate s' Running)
      | None => None
      end
  | Running, EvReturn =>
      match pop (stack s) with
      | Some s' => Some (mkstate s' Running)   (* an empty stack: the thread is idle again *)
      | None => None
      end
  | Running, EvFail =>
      match stack s with
      | [] => None
      | _ => Some (mkstate (stack s) (Failing EPlain))
      end
  | Failing e, EvUnwind =>
      let e' := wrap_once (stack s) e in
      match pop (stack s) with
      | Some [] => Some (mkstate [] (Finished e'))
      | Some s' => Some (mkstate s' (Failing e'))
      | None => None
      end
  | _, _ => None
  end.

Fixpoint run (s : state) (evs : list event) : option state :=
  match evs with
  | [] => Some s
  | ev :: rest => match step s ev with Some s' => run s' rest | None => None end
  end.

(* ---- specification, as a grammar of histories (no machine, no stack) ---- *)

(* body pc evs pc': what one frame does between two points in time when it is
   the current frame again: instructions, and complete nested calls; pc' is the
   pc of the instruction it is executing at the end *)
Inductive body : Z -> list event -> Z -> Prop :=
| body_nil pc : body pc [] pc
| body_step pc pc1 evs pc' : body pc1 evs pc' -> body pc (EvStep pc1 :: evs) pc'
| body_call pc c inner pci evs pc' :
    body 0 inner pci -> body pc evs pc' ->
    body pc (EvCall c :: inner ++ EvReturn :: evs) pc'.

(* calls made by the host that ran to completion earlier *)
Inductive completed : list event -> Prop :=
| completed_nil : completed []
| completed_call c inner pci rest :
    body 0 inner pci -> completed rest -> completed (EvCall c :: inner ++ EvReturn :: rest).

(* chain evs cs: a history of nested calls still active when an operation
   fails; cs lists them outermost first, each with the pc of the instruction
   it is executing (its pending CALL, or the failing operation) *)
Inductive chain : list event -> list cframe -> Prop :=
| chain_fail c evs pc : body 0 evs pc -> chain (EvCall c :: evs ++ [EvFail]) [(c, pc)]
| chain_call c evs pc rest cs :
    body 0 evs pc -> chain rest cs -> chain (EvCall c :: evs ++ rest) ((c, pc) :: cs).

(* what is finally reported for a frame: name and Position(pc) of its code;
   a built-in has no code and reports (0, 0) in <builtin> *)
Record fcode := mkfcode { fc_line : Z; fc_col : Z; fc_insns : list row }.

Definition report (code : callable -> option fcode) (f : cframe) : callable * res (Z * Z) :=
  match code (fst f) with
  | Some fc => (fst f, position_of_code (fc_line fc) (fc_col fc) (fc_insns fc) (snd f))
  | None => (fst f, Ok (0, 0))
  end.

Definition report_spec (code : callable -> option fcode) (f : cframe) : callable * res (Z * Z) :=
  match code (fst f) with
  | Some fc => (fst f, Ok (lookup_spec (rows_of (fc_insns fc)) (snd f)))
  | None => (fst f, Ok (0, 0))
  end.

Definition fcode_ok (fc : fcode) : Prop :=
  in_int32 (fc_line fc) = true /\ in_int32 (fc_col fc) = true /\
  Forall (fun t => row_ok t = true) (fc_insns fc) /\ pcs_sorted (fc_insns fc) /\
  Z.of_nat (length (fc_insns fc)) <= max_int64.
