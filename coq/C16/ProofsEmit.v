From Coq Require Import ZArith Bool List.
From SV Require Import C16.Emit.
Import ListNotations.
Open Scope Z_scope.

Lemma last_snoc {A} (l : list A) (x d : A) : last (l ++ [x]) d = x.
Proof. apply last_last. Qed.

Lemma last_insn_emit o f : last_insn (emit o f) = Some (mkeinsn o (fpos f)).
Proof. unfold last_insn, emit. cbn [emitted]. rewrite map_app. cbn [map]. apply last_snoc. Qed.

Lemma slice_carries_position_lemma lbrack x lo hi st f :
  last_insn (compile_slice lbrack x lo hi st f) = Some (mkeinsn OSlice (Some lbrack)).
Proof. unfold compile_slice. rewrite last_insn_emit. reflexivity. Qed.

Lemma fpos_emit o f : fpos (emit o f) = None.
Proof. reflexivity. Qed.

Lemma fpos_compile_operand tag o f : fpos (compile_operand tag o f) = None.
Proof.
  unfold compile_operand. destruct o as [p ps]. cbn [fst snd].
  assert (H : forall ps g, fpos g = None -> fpos (fold_left (fun f p => emit_micro tag p f) ps g) = None).
  { clear. induction ps as [|q ps IH]; intros g Hg; [exact Hg|]. cbn [fold_left]. apply IH. reflexivity. }
  apply H. reflexivity.
Qed.

Lemma fpos_compile_opt tag o f : fpos (compile_opt tag o f) = None.
Proof. destruct o; [apply fpos_compile_operand|reflexivity]. Qed.
