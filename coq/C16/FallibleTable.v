(* C16 -- composition of fallible_has_pos with the line-number table:
   the position reported for a failing pc is the failing operation's position.

   code_rows: what fcomp.generate sees of a function's instructions -- one
   (pc, line, col) per instruction, line = col = 0 for an instruction emitted
   without a pending setPos (Model.encode skips these: no row).  pc is the
   address of the instruction: any strictly increasing assignment `addr` of
   addresses to instruction indexes (the real encoding has variable-length
   operands; C01's VM addresses instructions by index, addr = Z.of_nat). *)
From Coq Require Import ZArith String List Bool Lia.
From Coq Require Import ZifyBool.
From SV Require Import Common.GoInt C01.Syntax C01.Values C01.Ref C01.VM C01.Compile.
From SV Require Import C16.Model C16.Spec C16.Proofs C16.ProofsSearch C16.ProofsCompose.
From SV Require Import C16.FallibleSpec C16.FallibleVM C16.FallibleGen.
Import ListNotations.
Open Scope Z_scope.

(* ---------------------------------------------------------------- the table's answer when the pc has its own row *)
Lemma last_le_tail pc B : (forall r, List.In r B -> pc < r_pc r) -> forall cur, last_le cur B pc = cur.
Proof.
  induction B as [|b B IH]; intros HB cur; [reflexivity|].
  cbn [last_le]. pose proof (HB b (or_introl eq_refl)) as Hb.
  destruct (r_pc b <=? pc) eqn:E; [lia|]. apply IH. intros r Hr. apply HB. right. exact Hr.
Qed.

Lemma last_le_mid pc t B :
  r_pc t <= pc -> (forall r, List.In r B -> pc < r_pc r) ->
  forall A cur, last_le cur (A ++ t :: B) pc = t.
Proof.
  intros Ht HB. induction A as [|a A IH]; intros cur.
  - cbn [app last_le]. destruct (r_pc t <=? pc) eqn:E; [|lia]. apply last_le_tail. exact HB.
  - cbn [app last_le]. destruct (r_pc a <=? pc); apply IH.
Qed.

Lemma lookup_mid pc t A B :
  r_pc t <= pc -> (forall r, List.In r B -> pc < r_pc r) ->
  lookup_spec (A ++ t :: B) pc = (r_line t, r_col t).
Proof.
  intros Ht HB. unfold lookup_spec. destruct A as [|a A]; cbn [app].
  - rewrite last_le_tail; [reflexivity|exact HB].
  - rewrite last_le_mid; [reflexivity|exact Ht|exact HB].
Qed.

(* For ANY instruction list (other instructions may or may not carry positions):
   an instruction with a position of its own, all later instructions at greater
   addresses -- the table answers with that instruction's position at its pc. *)
Lemma own_row_wins insns n t :
  nth_error insns n = Some t -> r_line t <> 0 ->
  (forall k r, (n < k)%nat -> nth_error insns k = Some r -> r_pc t < r_pc r) ->
  lookup_spec (rows_of insns) (r_pc t) = (r_line t, r_col t).
Proof.
  intros Hn Hl Hlater.
  destruct (nth_error_split _ _ Hn) as (A & B & -> & Hlen).
  unfold rows_of. rewrite filter_app. cbn [filter].
  destruct (r_line t =? 0) eqn:E; [lia|]. cbn [negb].
  apply lookup_mid; [lia|].
  intros r Hr. apply filter_In in Hr. destruct Hr as [Hr _].
  apply In_nth_error in Hr. destruct Hr as [j Hj].
  apply (Hlater (n + S j)%nat r); [lia|].
  rewrite nth_error_app2 by lia. replace (n + S j - length A)%nat with (S j) by lia. exact Hj.
Qed.

(* ---------------------------------------------------------------- the rows of a C01 function *)
Section Rows.
  Variable addr : nat -> Z.

  Definition pos_row (k : nat) (i : insn) : row :=
    match insn_pos i with
    | Some ps => mkrow (addr k) (Z.of_nat (fst ps)) (Z.of_nat (snd ps))
    | None => mkrow (addr k) 0 0
    end.

  Fixpoint rows_from (k : nat) (c : list insn) : list row :=
    match c with [] => [] | i :: r => pos_row k i :: rows_from (S k) r end.

  Definition code_rows (c : list insn) : list row := rows_from 0 c.

  Lemma rows_from_length k c : length (rows_from k c) = length c.
  Proof. revert k. induction c as [|i c IH]; intros k; cbn; [reflexivity|]. rewrite IH. reflexivity. Qed.

  Lemma rows_from_nth c : forall k n,
    nth_error (rows_from k c) n = option_map (pos_row (k + n)) (nth_error c n).
  Proof.
    induction c as [|i c IH]; intros k n.
    - destruct n; reflexivity.
    - destruct n as [|n]; cbn [rows_from nth_error option_map].
      + rewrite Nat.add_0_r. reflexivity.
      + rewrite IH. replace (S k + n)%nat with (k + S n)%nat by lia. reflexivity.
  Qed.

  Lemma pos_row_pc k i : r_pc (pos_row k i) = addr k.
  Proof. unfold pos_row. destruct (insn_pos i); reflexivity. Qed.

  Hypothesis addr_mono : forall a b, (a < b)%nat -> addr a < addr b.

  Lemma rows_from_sorted c : forall k, pcs_sorted (rows_from k c).
  Proof.
    induction c as [|i c IH]; intros k; [exact I|].
    cbn [rows_from pcs_sorted]. split; [|apply IH].
    destruct c as [|j c]; [exact I|]. cbn [rows_from]. rewrite !pos_row_pc.
    pose proof (addr_mono k (S k)). lia.
  Qed.
End Rows.

(* positions a Go syntax.Position can hold and generate can record: line >= 1 (a
   position with line 0 is "no position"), line and column int32 *)
Definition pos_ok (ps : pos) : Prop :=
  1 <= Z.of_nat (fst ps) <= max_int32 /\ Z.of_nat (snd ps) <= max_int32.

Lemma insn_pos_in_sites c i ps :
  List.In i c -> insn_pos i = Some ps -> List.In ps (map snd (sites c)).
Proof.
  intros Hi Hp. unfold sites. rewrite flat_map_concat_map, concat_map, map_map.
  apply in_concat. exists (map snd (site_of i)). split.
  - apply in_map_iff. exists i. split; [reflexivity|exact Hi].
  - rewrite site_of_pos, Hp. left. reflexivity.
Qed.

Section Compose.
  Variable p : program.
  Variable fc : funcode.
  Variable ls : list string.
  Variable body : list stmt.
  Hypothesis Hfrom : compiled_from p fc ls body.

  Variable addr : nat -> Z.
  Hypothesis addr_mono : forall a b, (a < b)%nat -> addr a < addr b.
  Hypothesis addr_u32 : forall k, (k < length (fc_code fc))%nat -> in_uint32 (addr k) = true.
  Hypothesis code_len : Z.of_nat (length (fc_code fc)) <= max_int64.
  Hypothesis positions_ok : Forall (fun s => pos_ok (snd s)) (op_pos_block p ls body).

  Variables fline fcol : Z.
  Hypothesis fline_ok : in_int32 fline = true.
  Hypothesis fcol_ok : in_int32 fcol = true.

  Lemma carried_pos_ok i ps : List.In i (fc_code fc) -> insn_pos i = Some ps -> pos_ok ps.
  Proof.
    intros Hi Hp. pose proof (insn_pos_in_sites _ _ _ Hi Hp) as Hin.
    rewrite (fallible_sites_exact_lemma p fc ls body Hfrom) in Hin.
    apply in_map_iff in Hin. destruct Hin as (s & <- & Hs).
    exact (proj1 (Forall_forall _ _) positions_ok s Hs).
  Qed.

  Lemma code_rows_ok : Forall (fun t => row_ok t = true) (code_rows addr (fc_code fc)).
  Proof.
    apply Forall_forall. intros t Ht. apply In_nth_error in Ht. destruct Ht as [n Hn].
    unfold code_rows in Hn. rewrite rows_from_nth in Hn. cbn [Nat.add] in Hn.
    destruct (nth_error (fc_code fc) n) as [i|] eqn:E; [|discriminate].
    cbn [option_map] in Hn. injection Hn as <-.
    assert (Hlt : (n < length (fc_code fc))%nat) by (apply nth_error_Some; congruence).
    pose proof (addr_u32 n Hlt) as Ha.
    unfold pos_row. destruct (insn_pos i) as [ps|] eqn:Ep.
    - destruct (carried_pos_ok i ps (nth_error_In _ _ E) Ep) as [Hl Hc].
      unfold row_ok, in_int32, min_int32 in *. cbn [r_pc r_line r_col]. unfold max_int32 in *. lia.
    - unfold row_ok. cbn [r_pc r_line r_col]. rewrite Ha. reflexivity.
  Qed.

  (* the position Funcode.Position reports for the pc of a fallible instruction is the
     position that instruction carries, and it is the position of an operation of the
     function's syntax *)
  Lemma fallible_pc_reports_own_position_lemma n i :
    nth_error (fc_code fc) n = Some i -> fallible (op i) = true ->
    exists k ps,
      site_of i = [(k, ps)] /\ List.In (k, ps) (op_pos_block p ls body) /\
      position_of_code fline fcol (code_rows addr (fc_code fc)) (addr n)
      = Ok (Z.of_nat (fst ps), Z.of_nat (snd ps)).
  Proof.
    intros Hn Hf.
    destruct (fallible_has_pos_lemma p fc ls body Hfrom i (nth_error_In _ _ Hn) Hf) as (k & ps & Hp & Hs & Hin).
    exists k, ps. split; [exact Hs|]. split; [exact Hin|].
    rewrite position_of_code_lemma;
      [|exact fline_ok|exact fcol_ok|exact code_rows_ok|apply rows_from_sorted; exact addr_mono
       |unfold code_rows; rewrite rows_from_length; exact code_len].
    f_equal.
    assert (Hrow : nth_error (code_rows addr (fc_code fc)) n
                   = Some (mkrow (addr n) (Z.of_nat (fst ps)) (Z.of_nat (snd ps)))).
    { unfold code_rows. rewrite rows_from_nth, Hn. cbn [option_map Nat.add]. unfold pos_row. rewrite Hp. reflexivity. }
    pose proof (own_row_wins _ _ _ Hrow) as H. cbn [r_pc r_line r_col] in H. apply H.
    - destruct (carried_pos_ok i ps (nth_error_In _ _ Hn) Hp) as [Hl _]. lia.
    - intros j r Hj Hr. unfold code_rows in Hr. rewrite rows_from_nth in Hr. cbn [Nat.add] in Hr.
      destruct (nth_error (fc_code fc) j); [|discriminate]. cbn [option_map] in Hr. injection Hr as <-.
      rewrite pos_row_pc. apply addr_mono. exact Hj.
  Qed.

  (* through the machine: a step that fails in a frame running this function *)
  Lemma failing_pc_reports_operation_lemma cp fname s f rest pfail ic w' :
    vs_frames s = f :: rest -> fr_code f = fc_code fc ->
    step cp fname s = Stop (VFail pfail ic w') ->
    position_of_code fline fcol (code_rows addr (fc_code fc)) (addr (fr_pc f))
    = Ok (Z.of_nat (fst pfail), Z.of_nat (snd pfail)) /\
    exists k, List.In (k, pfail) (op_pos_block p ls body).
  Proof.
    intros Hfr Hcode Hstep.
    destruct (step_fail_insn _ _ _ _ _ _ Hstep) as (f' & rest' & i & Hfr' & Hi & Hf & Hp).
    rewrite Hfr in Hfr'. injection Hfr' as <- <-. rewrite Hcode in Hi.
    destruct (fallible_pc_reports_own_position_lemma _ _ Hi Hf) as (k & ps & Hs & Hin & Hpos).
    assert (ps = pfail).
    { pose proof (site_of_pos i) as Hm. rewrite Hs, Hp in Hm. cbn in Hm. congruence. }
    subst ps. split; [exact Hpos|]. exists k. exact Hin.
  Qed.
End Compose.
