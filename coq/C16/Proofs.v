(* C16 -- round trip of the delta encoding (any deltas, any wrap), termination
   of the encoder's inner loop with an explicit bound. *)
From Coq Require Import ZArith Bool List Lia.
From Coq Require Import ZifyBool.
From SV Require Import Common.GoInt C16.Model C16.Spec C16.ProofsBits C16.ProofsArith.
Import ListNotations.
Open Scope Z_scope.

Lemma row_ok_iff r :
  row_ok r = true <->
  0 <= r_pc r <= 4294967295 /\ -2147483648 <= r_line r <= 2147483647 /\
  -2147483648 <= r_col r <= 2147483647.
Proof.
  unfold row_ok. rewrite !andb_true_iff, in_uint32_iff, !in_int32_iff. tauto.
Qed.

(* the three remaining differences between the running row and the target *)
Definition dpc_of (prev t : row) := wrapu32 (r_pc t - r_pc prev).
Definition dl_of (prev t : row) := wrap32 (r_line t - r_line prev).
Definition dc_of (prev t : row) := wrap32 (r_col t - r_col prev).

Definition need (prev t : row) : Z :=
  Z.max (dpc_of prev t / 15) (Z.max (Z.abs (dl_of prev t) / 15) (Z.abs (dc_of prev t) / 31)).

Lemma rounds_need prev t : rounds prev t = S (Z.to_nat (need prev t)).
Proof. reflexivity. Qed.

Lemma need_nonneg prev t : 0 <= need prev t.
Proof.
  unfold need, dpc_of. pose proof (wrapu32_bounds (r_pc t - r_pc prev)).
  assert (0 <= wrapu32 (r_pc t - r_pc prev) / 15) by (apply Z.div_pos; lia). lia.
Qed.

Lemma clip_spec x mn mx :
  mn <= mx ->
  let '(c, ok) := clip x mn mx in
  mn <= c <= mx /\ (ok = true -> c = x) /\
  (ok = false -> (x > mx /\ c = mx) \/ (x < mn /\ c = mn)).
Proof.
  intros H. unfold clip.
  destruct (x >? mx) eqn:E1; [|destruct (x <? mn) eqn:E2];
    repeat split; try lia; intros; try discriminate; lia.
Qed.

(* everything one round of the inner loop does *)
Lemma enc_step_spec prev t p' e inc :
  row_ok prev = true -> row_ok t = true ->
  enc_step prev t = (p', e, inc) ->
  row_ok p' = true /\ in_uint16 e = true /\
  dec_step prev e = p' /\
  unpack_inc e = (if inc then 1 else 0) /\
  (inc = false -> p' = t) /\
  (inc = true -> need p' t <= need prev t - 1).
Proof.
  intros Hprev Ht. apply row_ok_iff in Hprev. apply row_ok_iff in Ht.
  unfold enc_step.
  fold (dpc_of prev t) (dl_of prev t) (dc_of prev t).
  pose proof (wrapu32_bounds (r_pc t - r_pc prev)) as Bpc. fold (dpc_of prev t) in Bpc.
  pose proof (wrap32_bounds (r_line t - r_line prev)) as Bl. fold (dl_of prev t) in Bl.
  pose proof (wrap32_bounds (r_col t - r_col prev)) as Bc. fold (dc_of prev t) in Bc.
  pose proof (clip_spec (dl_of prev t) (-16) 15 ltac:(lia)) as Cl.
  pose proof (clip_spec (dc_of prev t) (-32) 31 ltac:(lia)) as Cc.
  destruct (clip (dl_of prev t) (-16) 15) as [dl okl].
  destruct (clip (dc_of prev t) (-32) 31) as [dc okc].
  destruct Cl as (Cl1 & Cl2 & Cl3). destruct Cc as (Cc1 & Cc2 & Cc3).
  set (dpc := if dpc_of prev t >? 15 then 15 else dpc_of prev t).
  set (inc1 := if dpc_of prev t >? 15 then true else false).
  assert (Hpair : (if dpc_of prev t >? 15 then (15, true) else (dpc_of prev t, false)) = (dpc, inc1)).
  { subst dpc inc1. destruct (dpc_of prev t >? 15); reflexivity. }
  rewrite Hpair. clear Hpair.
  assert (Hdpc : 0 <= dpc <= 15 /\ dpc <= dpc_of prev t /\
                 (inc1 = false -> dpc = dpc_of prev t) /\
                 (inc1 = true -> dpc = 15 /\ dpc_of prev t > 15)).
  { subst dpc inc1. destruct (dpc_of prev t >? 15) eqn:E; repeat split; try lia; intros; try discriminate; lia. }
  destruct Hdpc as (D1 & D2 & D3 & D4).
  intros E. injection E as Ep Ee Einc.
  set (incz := if inc then 1 else 0) in *.
  assert (Hincz : 0 <= incz <= 1) by (subst incz; destruct inc; lia).
  assert (Hinc_eq : (if inc1 || negb okl || negb okc then 1 else 0) = incz).
  { subst incz. rewrite Einc. reflexivity. }
  rewrite Hinc_eq in Ee.
  destruct (unpack_pack dpc dl dc incz D1 Cl1 Cc1 Hincz) as (U0 & U1 & U2 & U3 & U4).
  rewrite Ee in U0, U1, U2, U3, U4.
  (* the new running row *)
  assert (Hp'pc : r_pc p' = wrapu32 (r_pc prev + dpc)) by (subst p'; reflexivity).
  assert (Hp'l : r_line p' = wrap32 (r_line prev + dl)) by (subst p'; reflexivity).
  assert (Hp'c : r_col p' = wrap32 (r_col prev + dc)) by (subst p'; reflexivity).
  (* remaining differences *)
  assert (Rpc : dpc_of p' t = dpc_of prev t - dpc).
  { unfold dpc_of. rewrite Hp'pc. apply udelta_rest. fold (dpc_of prev t). lia. }
  assert (Rl : dl_of p' t = dl_of prev t - dl).
  { unfold dl_of. rewrite Hp'l. apply sdelta_rest. fold (dl_of prev t).
    destruct okl; [rewrite (Cl2 eq_refl); lia|]. destruct (Cl3 eq_refl); lia. }
  assert (Rc : dc_of p' t = dc_of prev t - dc).
  { unfold dc_of. rewrite Hp'c. apply sdelta_rest. fold (dc_of prev t).
    destruct okc; [rewrite (Cc2 eq_refl); lia|]. destruct (Cc3 eq_refl); lia. }
  split.
  { apply row_ok_iff. rewrite Hp'pc, Hp'l, Hp'c.
    pose proof (wrapu32_bounds (r_pc prev + dpc)).
    pose proof (wrap32_bounds (r_line prev + dl)).
    pose proof (wrap32_bounds (r_col prev + dc)). lia. }
  split; [exact U0|].
  split.
  { unfold dec_step. rewrite U1, U2, U3. subst p'. reflexivity. }
  split; [exact U4|].
  split.
  - intros Hf. rewrite Hf in Einc.
    apply orb_false_iff in Einc. destruct Einc as [Einc Ec].
    apply orb_false_iff in Einc. destruct Einc as [Ei El].
    apply negb_false_iff in El. apply negb_false_iff in Ec.
    specialize (D3 Ei). specialize (Cl2 El). specialize (Cc2 Ec).
    destruct t as [tpc tl tc]. destruct p' as [ppc pl pcl]. simpl in *.
    f_equal.
    + rewrite Hp'pc, D3. unfold dpc_of. simpl. apply udelta_done. lia.
    + rewrite Hp'l, Cl2. unfold dl_of. simpl. apply sdelta_done. lia.
    + rewrite Hp'c, Cc2. unfold dc_of. simpl. apply sdelta_done. lia.
  - intros Ht'. rewrite Ht' in Einc.
    unfold need. rewrite Rpc, Rl, Rc.
    (* each component either drops by one unit or becomes 0; one of them was >= 1 *)
    assert (Apc : (dpc_of prev t - dpc) / 15 <= dpc_of prev t / 15 - 1 \/
                  (inc1 = false /\ (dpc_of prev t - dpc) / 15 = 0)).
    { destruct inc1.
      - left. destruct (D4 eq_refl) as [-> ?].
        replace (dpc_of prev t - 15) with (dpc_of prev t + (-1) * 15) by lia.
        rewrite Z_div_plus by lia. lia.
      - right. split; [reflexivity|]. rewrite (D3 eq_refl). rewrite Z.sub_diag. reflexivity. }
    assert (Al : Z.abs (dl_of prev t - dl) / 15 <= Z.abs (dl_of prev t) / 15 - 1 \/
                 (okl = true /\ Z.abs (dl_of prev t - dl) / 15 = 0)).
    { destruct okl.
      - right. split; [reflexivity|]. rewrite (Cl2 eq_refl). rewrite Z.sub_diag. reflexivity.
      - left. destruct (Cl3 eq_refl) as [[? ->]|[? ->]].
        + replace (Z.abs (dl_of prev t - 15)) with (Z.abs (dl_of prev t) + (-1) * 15) by lia.
          rewrite Z_div_plus by lia. lia.
        + assert (Z.abs (dl_of prev t - -16) <= Z.abs (dl_of prev t) + (-1) * 15) by lia.
          apply Z.div_le_mono with (c := 15) in H0; [|lia].
          rewrite Z_div_plus in H0 by lia. lia. }
    assert (Ac : Z.abs (dc_of prev t - dc) / 31 <= Z.abs (dc_of prev t) / 31 - 1 \/
                 (okc = true /\ Z.abs (dc_of prev t - dc) / 31 = 0)).
    { destruct okc.
      - right. split; [reflexivity|]. rewrite (Cc2 eq_refl). rewrite Z.sub_diag. reflexivity.
      - left. destruct (Cc3 eq_refl) as [[? ->]|[? ->]].
        + replace (Z.abs (dc_of prev t - 31)) with (Z.abs (dc_of prev t) + (-1) * 31) by lia.
          rewrite Z_div_plus by lia. lia.
        + assert (Z.abs (dc_of prev t - -32) <= Z.abs (dc_of prev t) + (-1) * 31) by lia.
          apply Z.div_le_mono with (c := 31) in H0; [|lia].
          rewrite Z_div_plus in H0 by lia. lia. }
    assert (Npc : 0 <= dpc_of prev t / 15) by (apply Z.div_pos; lia).
    assert (Nl : 0 <= Z.abs (dl_of prev t) / 15) by (apply Z.div_pos; lia).
    assert (Nc : 0 <= Z.abs (dc_of prev t) / 31) by (apply Z.div_pos; lia).
    (* at least one field saturated, so the old maximum is >= 1 *)
    assert (Hone : 1 <= need prev t).
    { unfold need.
      destruct inc1.
      - destruct (D4 eq_refl). assert (1 <= dpc_of prev t / 15) by (apply Z.div_le_lower_bound; lia). lia.
      - destruct okl.
        + destruct okc; [discriminate|].
          assert (1 <= Z.abs (dc_of prev t) / 31) by (apply Z.div_le_lower_bound; destruct (Cc3 eq_refl); lia). lia.
        + assert (1 <= Z.abs (dl_of prev t) / 15) by (apply Z.div_le_lower_bound; destruct (Cl3 eq_refl); lia). lia. }
    unfold need in Hone. lia.
Qed.
