(* C16 -- the folding of literal runs in + chains (Compile.fold_expr / fold_stmt,
   compile.go fcomp.plus) invents no position: every operation of the folded
   tree is an operation of the source tree, same kind, same position, in the
   same scope.  (Only inclusion: merging `x + [a] + [f()]` into `x + [a, f()]`
   moves the first + after the call, and drops the second.) *)
From Coq Require Import ZArith String List Bool Lia.
From SV Require Import C01.Syntax C01.Values C01.Ref C01.VM C01.Compile C16.FallibleSpec C16.FallibleGen.
Import ListNotations.
Open Scope list_scope.
Open Scope nat_scope.

Lemma incl_flat_map_map {A B C} (f : A -> B) (g : B -> list C) (h : A -> list C) l :
  (forall a, List.In a l -> incl (g (f a)) (h a)) -> incl (flat_map g (map f l)) (flat_map h l).
Proof.
  induction l as [|a l IH]; intros H; [apply incl_refl|].
  cbn [map flat_map]. apply incl_app_app; [apply H; left; reflexivity|].
  apply IH. intros b Hb. apply H. right. exact Hb.
Qed.

Lemma incl_cons_same {A} (a : A) l m : incl l m -> incl (a :: l) (a :: m).
Proof. intros H. apply incl_cons; [left; reflexivity|apply incl_tl; exact H]. Qed.

Lemma filter_map_inv {A} (q : A -> bool) (g : A -> A) l :
  (forall a, q (g a) = q a) -> length (filter q (map g l)) = length (filter q l).
Proof.
  intros H. induction l as [|a l IH]; [reflexivity|]. cbn [map filter]. rewrite H.
  destruct (q a); cbn [length]; rewrite IH; reflexivity.
Qed.

Lemma existsb_map_inv {A} (q : A -> bool) (g : A -> A) l :
  (forall a, q (g a) = q a) -> existsb q (map g l) = existsb q l.
Proof.
  intros H. induction l as [|a l IH]; [reflexivity|]. cbn [map existsb]. rewrite H, IH. reflexivity.
Qed.

(* ---- targets keep their names, so comprehension scopes are unchanged *)
Lemma target_names_fold n : forall t, target_names (fold_target n t) = target_names t.
Proof.
  induction n as [|n IH]; intros t; [reflexivity|].
  destruct t; cbn [fold_target target_names]; try reflexivity.
  induction ts as [|a ts IHts]; [reflexivity|]. cbn [map flat_map]. rewrite IH, IHts. reflexivity.
Qed.

Definition fold_clause (n : nat) (cl : clause) : clause :=
  match cl with CFor t x ps => CFor (fold_target n t) (fold_expr n x) ps | CIf x => CIf (fold_expr n x) end.

Lemma comp_vars_fold n cls : comp_vars (map (fold_clause n) cls) = comp_vars cls.
Proof.
  unfold comp_vars. f_equal. induction cls as [|c cls IH]; [reflexivity|].
  cbn [map flat_map]. rewrite IH. destruct c; cbn [fold_clause]; [rewrite target_names_fold|]; reflexivity.
Qed.

Section Fold.
  Variable p : program.
  Variable ls : list string.

  Notation ops := (op_pos_expr p ls).

  (* operations of a + chain: the summands left to right, each + after its right operand *)
  Definition plus_ops (cs : list (string * nat)) (l : list (expr * pos)) : list site :=
    flat_map (fun xp => ops cs (fst xp) ++ [(KBinary Add, snd xp)]) l.
  Definition chain_ops (cs : list (string * nat)) (l : list (expr * pos)) : list site :=
    match l with [] => [] | a :: r => ops cs (fst a) ++ plus_ops cs r end.

  Lemma ops_rebuild cs l : ops cs (rebuild_plus l) = chain_ops cs l.
  Proof.
    destruct l as [|[a pa] r]; [reflexivity|]. cbn [rebuild_plus chain_ops fst].
    revert a. induction r as [|[x px] r IH]; intros a; cbn [fold_left plus_ops flat_map fst snd].
    - rewrite app_nil_r. reflexivity.
    - rewrite IH. cbn [op_pos_expr]. unfold plus_ops. rewrite <- !app_assoc. reflexivity.
  Qed.

  Fixpoint ops_unparen (e : expr) : forall cs, ops cs (unparen e) = ops cs e.
  Proof. intros cs. destruct e; try reflexivity. cbn [unparen op_pos_expr]. apply ops_unparen. Qed.

  Lemma chain_snoc cs l y ps :
    l <> [] -> chain_ops cs (l ++ [(y, ps)]) = chain_ops cs l ++ ops cs y ++ [(KBinary Add, ps)].
  Proof.
    destruct l as [|a r]; [congruence|]. intros _. cbn [app chain_ops]. unfold plus_ops.
    rewrite flat_map_app. cbn [flat_map fst snd]. rewrite app_nil_r, <- !app_assoc. reflexivity.
  Qed.

  Lemma flatten_ops cs fuel : forall e, flatten_plus fuel e <> [] /\ chain_ops cs (flatten_plus fuel e) = ops cs e.
  Proof.
    induction fuel as [|fuel IH]; intros e.
    - cbn. split; [discriminate|apply app_nil_r].
    - cbn [flatten_plus]. pose proof (ops_unparen e cs) as Hu.
      destruct (unparen e) eqn:E;
        try (split; [discriminate|cbn [chain_ops plus_ops flat_map fst]; rewrite app_nil_r; exact Hu]).
      destruct o;
        try (split; [discriminate|cbn [chain_ops plus_ops flat_map fst]; rewrite app_nil_r; exact Hu]).
      destruct (IH e0_1) as [Hne Hx]. split.
      + intros H. apply app_eq_nil in H. destruct H as [_ H]. discriminate.
      + rewrite chain_snoc by exact Hne. rewrite Hx, ops_unparen, <- Hu. reflexivity.
  Qed.

  Lemma ops_merge2 cs a b :
    negb (Nat.eqb (addable a) 0) && Nat.eqb (addable a) (addable b) = true ->
    incl (ops cs (merge2 a b)) (ops cs a ++ ops cs b).
  Proof.
    intros H. destruct a; cbn in H; try discriminate; destruct b; cbn in H; try discriminate;
      cbn [merge2 op_pos_expr]; try apply incl_refl; rewrite flat_map_app; apply incl_refl.
  Qed.

  Lemma merge_plus_ops cs : forall rest cur,
    incl (plus_ops cs (merge_runs cur rest)) (plus_ops cs (cur :: rest)).
  Proof.
    induction rest as [|[x ps] r IH]; intros cur; [apply incl_refl|].
    cbn [merge_runs].
    destruct (negb (Nat.eqb (addable (fst cur)) 0) && Nat.eqb (addable (fst cur)) (addable x)) eqn:E.
    - eapply incl_tran; [apply IH|]. unfold plus_ops. cbn [flat_map fst snd].
      intros s Hs. repeat (apply in_app_or in Hs; destruct Hs as [Hs|Hs]).
      + apply (ops_merge2 cs _ _ E) in Hs. apply in_app_or in Hs. destruct Hs as [Hs|Hs].
        * apply in_or_app. left. apply in_or_app. left. exact Hs.
        * apply in_or_app. right. apply in_or_app. left. apply in_or_app. left. exact Hs.
      + apply in_or_app. left. apply in_or_app. right. exact Hs.
      + apply in_or_app. right. apply in_or_app. right. exact Hs.
    - change (plus_ops cs (cur :: merge_runs (x, ps) r)) with
        ((ops cs (fst cur) ++ [(KBinary Add, snd cur)]) ++ plus_ops cs (merge_runs (x, ps) r)).
      change (plus_ops cs (cur :: (x, ps) :: r)) with
        ((ops cs (fst cur) ++ [(KBinary Add, snd cur)]) ++ plus_ops cs ((x, ps) :: r)).
      apply incl_app_app; [apply incl_refl|apply IH].
  Qed.

  Lemma merge_chain_ops cs : forall rest cur,
    incl (chain_ops cs (merge_runs cur rest)) (chain_ops cs (cur :: rest)).
  Proof.
    induction rest as [|[x ps] r IH]; intros cur; [apply incl_refl|].
    cbn [merge_runs].
    destruct (negb (Nat.eqb (addable (fst cur)) 0) && Nat.eqb (addable (fst cur)) (addable x)) eqn:E.
    - eapply incl_tran; [apply IH|]. cbn [chain_ops fst]. unfold plus_ops. cbn [flat_map fst snd].
      intros s Hs. apply in_app_or in Hs. destruct Hs as [Hs|Hs].
      + apply (ops_merge2 cs _ _ E) in Hs. apply in_app_or in Hs. destruct Hs as [Hs|Hs].
        * apply in_or_app. left. exact Hs.
        * apply in_or_app. right. apply in_or_app. left. apply in_or_app. left. exact Hs.
      + apply in_or_app. right. apply in_or_app. right. exact Hs.
    - cbn [chain_ops fst]. apply incl_app_app; [apply incl_refl|apply merge_plus_ops].
  Qed.

  Lemma map_chain_ops cs (f : expr -> expr) l :
    (forall e, incl (ops cs (f e)) (ops cs e)) ->
    incl (chain_ops cs (map (fun xp => (f (fst xp), snd xp)) l)) (chain_ops cs l).
  Proof.
    intros H. destruct l as [|a r]; [apply incl_refl|]. cbn [map chain_ops fst].
    apply incl_app_app; [apply H|]. unfold plus_ops.
    apply incl_flat_map_map. intros xp _. cbn [fst snd]. apply incl_app_app; [apply H|apply incl_refl].
  Qed.

  Lemma fold_plus_incl cs (f : expr -> expr) e :
    (forall e, incl (ops cs (f e)) (ops cs e)) ->
    incl (ops cs (match flatten_plus 1000 e with
                  | [] => e
                  | a :: r => rebuild_plus (map (fun xp => (f (fst xp), snd xp)) (merge_runs a r))
                  end)) (ops cs e).
  Proof.
    intros H. destruct (flatten_ops cs 1000 e) as [Hne Hc].
    destruct (flatten_plus 1000 e) as [|a r]; [congruence|].
    rewrite ops_rebuild. eapply incl_tran; [apply map_chain_ops; exact H|].
    eapply incl_tran; [apply merge_chain_ops|]. rewrite Hc. apply incl_refl.
  Qed.

  (* ---- expressions and targets, by induction on the fuel of the pass *)
  Definition fold_arg (n : nat) (a : arg) : arg :=
    match a with
    | APos x => APos (fold_expr n x) | ANamed k x => ANamed k (fold_expr n x)
    | AStar x => AStar (fold_expr n x) | AStarStar x => AStarStar (fold_expr n x)
    end.

  Lemma fold_incl n :
    (forall e cs, incl (ops cs (fold_expr n e)) (ops cs e)) /\
    (forall t cs ps, incl (tg_ops p ls cs (fold_target n t) ps) (tg_ops p ls cs t ps)).
  Proof.
    induction n as [|n [IHe IHt]]; [split; intros; apply incl_refl|].
    split.
    - intros e cs. destruct e; try apply incl_refl.
      + (* EParen *) cbn [fold_expr op_pos_expr]. apply IHe.
      + (* EUnary *) cbn [fold_expr]. destruct o; cbn [op_pos_expr]; try apply IHe;
          (apply incl_app_app; [apply IHe|apply incl_refl]).
      + (* EBinary *)
        destruct o; try (cbn [fold_expr op_pos_expr];
                         apply incl_app_app; [apply IHe|apply incl_app_app; [apply IHe|apply incl_refl]]).
        change (fold_expr (S n) (EBinary Add p0 e1 e2)) with
          (match flatten_plus 1000 (EBinary Add p0 e1 e2) with
           | [] => EBinary Add p0 e1 e2
           | a :: r => rebuild_plus (map (fun xp => (fold_expr n (fst xp), snd xp)) (merge_runs a r))
           end).
        apply fold_plus_incl. intros e. apply IHe.
      + (* EAnd *) cbn [fold_expr op_pos_expr]. apply incl_app_app; apply IHe.
      + (* EOr *) cbn [fold_expr op_pos_expr]. apply incl_app_app; apply IHe.
      + (* ECond *) cbn [fold_expr op_pos_expr]. apply incl_app_app; [apply IHe|apply incl_app_app; apply IHe].
      + (* ETuple *) cbn [fold_expr op_pos_expr]. apply incl_flat_map_map. intros a _. apply IHe.
      + (* EList *) cbn [fold_expr op_pos_expr]. apply incl_flat_map_map. intros a _. apply IHe.
      + (* EDict *) cbn [fold_expr op_pos_expr].
        apply (incl_flat_map_map (fun kv => (fold_expr n (fst (fst kv)), fold_expr n (snd (fst kv)), snd kv))).
        intros kv _. cbn [fst snd].
        apply incl_app_app; [apply IHe|apply incl_app_app; [apply IHe|apply incl_refl]].
      + (* EIndex *) cbn [fold_expr op_pos_expr].
        apply incl_app_app; [apply IHe|apply incl_app_app; [apply IHe|apply incl_refl]].
      + (* EDot *) cbn [fold_expr op_pos_expr]. apply incl_app_app; [apply IHe|apply incl_refl].
      + (* ECall *)
        change (fold_expr (S n) (ECall e args p0)) with (ECall (fold_expr n e) (map (fold_arg n) args) p0).
        cbn [op_pos_expr].
        rewrite !(filter_map_inv _ (fold_arg n)), !(existsb_map_inv _ (fold_arg n)) by (intros a; destruct a; reflexivity).
        apply incl_app_app; [apply IHe|].
        apply incl_app_app; [|apply incl_app_app; [|apply incl_app_app; [|apply incl_refl]]];
          apply incl_flat_map_map; intros a _; destruct a; cbn [fold_arg]; try apply incl_refl; apply IHe.
      + (* EComp *)
        change (fold_expr (S n) (EComp curly e1 e2 cp cls slots)) with
          (EComp curly (fold_expr n e1) (fold_expr n e2) cp (map (fold_clause n) cls) slots).
        destruct cls as [|[t e0 ps|c0] r]; try apply incl_refl.
        cbn [map fold_clause]. rewrite !spec_comp_unfold.
        change (CFor (fold_target n t) (fold_expr n e0) ps :: map (fold_clause n) r)
          with (map (fold_clause n) (CFor t e0 ps :: r)).
        unfold comp_scope. rewrite comp_vars_fold.
        set (cs' := combine (comp_vars (CFor t e0 ps :: r)) slots ++ cs).
        apply incl_app_app; [apply IHe|]. apply incl_app_app; [apply incl_refl|].
        apply incl_app_app; [apply IHt|].
        clearbody cs'. induction r as [|[t1 x1 p1|c1] r IH]; cbn [map fold_clause cls_ops].
        * destruct curly; [|apply IHe].
          apply incl_app_app; [apply IHe|apply incl_app_app; [apply IHe|apply incl_refl]].
        * apply incl_app_app; [apply IHe|]. apply incl_app_app; [apply incl_refl|].
          apply incl_app_app; [apply IHt|exact IH].
        * apply incl_app_app; [apply IHe|exact IH].
      + (* ESlice *)
        cbn [fold_expr op_pos_expr]. apply incl_app_app; [apply IHe|].
        destruct lo, hi, step; cbn [option_map];
          repeat (apply incl_app_app; try apply incl_refl; try apply IHe).
    - intros t cs ps. destruct t; cbn [fold_target tg_ops]; try apply incl_refl.
      + apply incl_app_app; [apply IHe|apply incl_app_app; [apply IHe|apply incl_refl]].
      + apply incl_app_app; [apply IHe|apply incl_refl].
      + rewrite map_length. apply incl_cons_same. apply incl_flat_map_map. intros a _. apply IHt.
  Qed.

  Lemma fold_expr_incl n e cs : incl (ops cs (fold_expr n e)) (ops cs e).
  Proof. apply (proj1 (fold_incl n)). Qed.

  Lemma fold_target_incl n t ps : incl (op_pos_target p ls (fold_target n t) ps) (op_pos_target p ls t ps).
  Proof. rewrite !op_pos_target_tg. apply (proj2 (fold_incl n)). Qed.

  (* ---- statements *)
  Definition fold_param (q : param) : param :=
    match q with PDefault x d => PDefault x (fold_expr 1000 d) | _ => q end.

  Lemma fold_stmt_incl n : forall s, incl (op_pos_stmt p ls (fold_stmt n s)) (op_pos_stmt p ls s).
  Proof.
    induction n as [|n IH]; intros s; [apply incl_refl|].
    assert (Hb : forall ss, incl (flat_map (op_pos_stmt p ls) (map (fold_stmt n) ss)) (flat_map (op_pos_stmt p ls) ss)).
    { intros ss. apply incl_flat_map_map. intros a _. apply IH. }
    destruct s; try apply incl_refl.
    - (* SExpr *) cbn [fold_stmt op_pos_stmt]. apply fold_expr_incl.
    - (* SAssign *) cbn [fold_stmt op_pos_stmt]. apply incl_app_app; [apply fold_expr_incl|apply fold_target_incl].
    - (* SAug *)
      change (fold_stmt (S n) (SAug o t e p0)) with (SAug o (fold_target 1000 t) (fold_expr 1000 e) p0).
      generalize 1000 at 1. intros m. destruct m as [|m]; [|destruct t]; cbn [fold_target op_pos_stmt];
        try (destruct t; cbn [op_pos_stmt]);
        repeat (apply incl_app_app; try apply incl_refl; try apply fold_expr_incl);
        try apply incl_refl.
    - (* SIf *) cbn [fold_stmt op_pos_stmt]. apply incl_app_app; [apply fold_expr_incl|apply incl_app_app; apply Hb].
    - (* SWhile *) cbn [fold_stmt op_pos_stmt]. apply incl_app_app; [apply fold_expr_incl|apply Hb].
    - (* SFor *) cbn [fold_stmt op_pos_stmt]. apply incl_app_app; [apply fold_expr_incl|].
      apply incl_app_app; [apply incl_refl|]. apply incl_app_app; [apply fold_target_incl|apply Hb].
    - (* SReturn *) destruct e; cbn [fold_stmt op_pos_stmt]; [apply fold_expr_incl|apply incl_refl].
    - (* SDef *)
      change (fold_stmt (S n) (SDef fid name params body p0))
        with (SDef fid name (map fold_param params) (map (fold_stmt n) body) p0).
      cbn [op_pos_stmt]. apply incl_flat_map_map. intros q _.
      destruct q; cbn [fold_param]; try apply incl_refl. apply fold_expr_incl.
  Qed.

  Lemma fold_block_incl_lemma ss :
    incl (op_pos_block p ls (map (fold_stmt 1000) ss)) (op_pos_block p ls ss).
  Proof. unfold op_pos_block. apply incl_flat_map_map. intros a _. apply fold_stmt_incl. Qed.
End Fold.

(* ---------------------------------------------------------------- the pass keeps scopes and functions *)
Lemma stmt_binds_fold n : forall s, stmt_binds (fold_stmt n s) = stmt_binds s.
Proof.
  induction n as [|n IH]; intros s; [reflexivity|].
  assert (Hb : forall ss, flat_map stmt_binds (map (fold_stmt n) ss) = flat_map stmt_binds ss).
  { induction ss as [|a ss IHss]; [reflexivity|]. cbn [map flat_map]. rewrite IH, IHss. reflexivity. }
  destruct s; try reflexivity.
  - change (fold_stmt (S n) (SAssign t e p)) with (SAssign (fold_target 1000 t) (fold_expr 1000 e) p).
    cbn [stmt_binds]. apply target_names_fold.
  - change (fold_stmt (S n) (SAug o t e p)) with (SAug o (fold_target 1000 t) (fold_expr 1000 e) p).
    cbn [stmt_binds]. apply target_names_fold.
  - cbn [fold_stmt stmt_binds]. rewrite !Hb. reflexivity.
  - cbn [fold_stmt stmt_binds]. apply Hb.
  - change (fold_stmt (S n) (SFor t e body p))
      with (SFor (fold_target 1000 t) (fold_expr 1000 e) (map (fold_stmt n) body) p).
    cbn [stmt_binds]. rewrite target_names_fold, Hb. reflexivity.
  - destruct e; reflexivity.
Qed.

Lemma global_names_fold p : global_names (fold_prog p) = global_names p.
Proof.
  unfold global_names, fold_prog. cbn [p_body]. f_equal.
  induction (p_body p) as [|a ss IH]; [reflexivity|]. cbn [map flat_map]. rewrite stmt_binds_fold, IH. reflexivity.
Qed.

(* the specification depends on the program only through its global names *)
Section Ext.
  Variables p p' : program.
  Variable ls : list string.
  Hypothesis Hg : global_names p = global_names p'.

  Lemma is_variable_ext cs x : is_variable p ls cs x = is_variable p' ls cs x.
  Proof. unfold is_variable, gidx. rewrite Hg. reflexivity. Qed.

  Lemma flat_map_ext_in' {A B} (f g : A -> list B) l :
    (forall a, List.In a l -> f a = g a) -> flat_map f l = flat_map g l.
  Proof.
    induction l as [|a l IH]; intros H; [reflexivity|]. cbn [flat_map].
    rewrite (H a (or_introl eq_refl)), IH; [reflexivity|]. intros b Hb. apply H. right. exact Hb.
  Qed.

  Fixpoint ops_ext (e : expr) {struct e} : forall cs, op_pos_expr p ls cs e = op_pos_expr p' ls cs e
  with tg_ext (t : target) {struct t} : forall cs ps, tg_ops p ls cs t ps = tg_ops p' ls cs t ps.
  Proof.
    - intros cs. destruct e; try reflexivity.
      + cbn [op_pos_expr]. unfold op_pos_name. rewrite is_variable_ext. reflexivity.
      + cbn [op_pos_expr]. apply ops_ext.
      + destruct o; cbn [op_pos_expr]; rewrite (ops_ext e cs); reflexivity.
      + destruct o; cbn [op_pos_expr]; rewrite (ops_ext e1 cs), (ops_ext e2 cs); reflexivity.
      + cbn [op_pos_expr]. rewrite (ops_ext e1 cs), (ops_ext e2 cs). reflexivity.
      + cbn [op_pos_expr]. rewrite (ops_ext e1 cs), (ops_ext e2 cs). reflexivity.
      + cbn [op_pos_expr]. rewrite (ops_ext e1 cs), (ops_ext e2 cs), (ops_ext e3 cs). reflexivity.
      + cbn [op_pos_expr]. induction es as [|a es IH]; [reflexivity|]. cbn [flat_map]. rewrite (ops_ext a cs), IH. reflexivity.
      + cbn [op_pos_expr]. induction es as [|a es IH]; [reflexivity|]. cbn [flat_map]. rewrite (ops_ext a cs), IH. reflexivity.
      + cbn [op_pos_expr]. induction kvs as [|[[k v] cp] kvs IH]; [reflexivity|]. cbn [flat_map fst snd].
        rewrite (ops_ext k cs), (ops_ext v cs), IH. reflexivity.
      + cbn [op_pos_expr]. rewrite (ops_ext e1 cs), (ops_ext e2 cs). reflexivity.
      + cbn [op_pos_expr]. rewrite (ops_ext e cs). reflexivity.
      + cbn [op_pos_expr]. rewrite (ops_ext e cs). f_equal. f_equal; [|f_equal; [|f_equal]].
        * induction args as [|a args IH]; [reflexivity|]. cbn [flat_map]. rewrite IH.
          destruct a as [x|k x|x|x]; rewrite ?(ops_ext x cs); reflexivity.
        * induction args as [|a args IH]; [reflexivity|]. cbn [flat_map]. rewrite IH.
          destruct a as [x|k x|x|x]; rewrite ?(ops_ext x cs); reflexivity.
        * induction args as [|a args IH]; [reflexivity|]. cbn [flat_map]. rewrite IH.
          destruct a as [x|k x|x|x]; rewrite ?(ops_ext x cs); reflexivity.
      + destruct cls as [|[t e0 ps|c0] r]; try reflexivity.
        rewrite !spec_comp_unfold. set (cs' := comp_scope cs (CFor t e0 ps :: r) slots).
        rewrite (ops_ext e0 cs), (tg_ext t cs' ps). f_equal. f_equal. f_equal.
        clearbody cs'. induction r as [|[t1 x1 p1|c1] r IH]; cbn [cls_ops].
        * destruct curly; rewrite (ops_ext e1 cs'), ?(ops_ext e2 cs'); reflexivity.
        * rewrite (ops_ext x1 cs'), (tg_ext t1 cs' p1), IH. reflexivity.
        * rewrite (ops_ext c1 cs'), IH. reflexivity.
      + cbn [op_pos_expr]. rewrite (ops_ext e cs).
        destruct lo as [a|], hi as [b|], step as [c|];
          rewrite ?(ops_ext a cs), ?(ops_ext b cs), ?(ops_ext c cs); reflexivity.
    - intros cs ps. destruct t; cbn [tg_ops]; try reflexivity.
      + rewrite (ops_ext x cs), (ops_ext y cs). reflexivity.
      + rewrite (ops_ext x cs). reflexivity.
      + f_equal. induction ts as [|a ts IH]; [reflexivity|]. cbn [flat_map]. rewrite (tg_ext a cs ps), IH. reflexivity.
  Qed.

  Lemma target_ext t ps : op_pos_target p ls t ps = op_pos_target p' ls t ps.
  Proof. rewrite !op_pos_target_tg. apply tg_ext. Qed.

  Fixpoint stmt_ext (s : stmt) {struct s} : op_pos_stmt p ls s = op_pos_stmt p' ls s.
  Proof.
    destruct s; try reflexivity.
    - cbn [op_pos_stmt]. apply ops_ext.
    - cbn [op_pos_stmt]. rewrite ops_ext, target_ext. reflexivity.
    - destruct t; cbn [op_pos_stmt]; try reflexivity.
      + unfold op_pos_name. rewrite is_variable_ext, ops_ext. reflexivity.
      + rewrite (ops_ext x), (ops_ext y), (ops_ext e). reflexivity.
      + rewrite (ops_ext x), (ops_ext e). reflexivity.
    - cbn [op_pos_stmt]. rewrite ops_ext. f_equal. f_equal.
      + induction tb as [|a tb IH]; [reflexivity|]. cbn [flat_map]. rewrite (stmt_ext a), IH. reflexivity.
      + induction fb as [|a fb IH]; [reflexivity|]. cbn [flat_map]. rewrite (stmt_ext a), IH. reflexivity.
    - cbn [op_pos_stmt]. rewrite ops_ext. f_equal.
      induction body as [|a body IH]; [reflexivity|]. cbn [flat_map]. rewrite (stmt_ext a), IH. reflexivity.
    - cbn [op_pos_stmt]. rewrite ops_ext, target_ext. f_equal. f_equal. f_equal.
      induction body as [|a body IH]; [reflexivity|]. cbn [flat_map]. rewrite (stmt_ext a), IH. reflexivity.
    - destruct e; cbn [op_pos_stmt]; [apply ops_ext|reflexivity].
    - cbn [op_pos_stmt]. apply flat_map_ext_in'. intros q _. destruct q; try reflexivity. apply ops_ext.
  Qed.

  Lemma block_ext ss : op_pos_block p ls ss = op_pos_block p' ls ss.
  Proof. unfold op_pos_block. apply flat_map_ext_in'. intros a _. apply stmt_ext. Qed.
End Ext.

(* every def of the folded program is the folded copy of a def of the source *)
Lemma defs_fold n : forall s fid fd',
  List.In (fid, fd') (defs_stmt (fold_stmt n s)) ->
  exists fd m, List.In (fid, fd) (defs_stmt s) /\ fd_body fd' = map (fold_stmt m) (fd_body fd).
Proof.
  induction n as [|n IH]; intros s fid fd' H.
  - exists fd', 0. split; [exact H|]. cbn [fold_stmt]. symmetry. apply map_id.
  - assert (Hb : forall ss, List.In (fid, fd') (flat_map defs_stmt (map (fold_stmt n) ss)) ->
                            exists fd m, List.In (fid, fd) (flat_map defs_stmt ss) /\
                                         fd_body fd' = map (fold_stmt m) (fd_body fd)).
    { intros ss Hin. apply in_flat_map in Hin. destruct Hin as (s' & Hs' & Hin).
      apply in_map_iff in Hs'. destruct Hs' as (s0 & <- & Hs0).
      destruct (IH s0 fid fd' Hin) as (fd & m & Hfd & Hbody). exists fd, m. split; [|exact Hbody].
      apply in_flat_map. exists s0. split; assumption. }
    destruct s; cbn [fold_stmt defs_stmt] in H; try contradiction.
    + (* SIf *) apply in_app_or in H. destruct H as [H|H];
        destruct (Hb _ H) as (fd & m & Hfd & Hbody); exists fd, m; (split; [|exact Hbody]);
        cbn [defs_stmt]; apply in_or_app; [left|right]; exact Hfd.
    + (* SWhile *) destruct (Hb _ H) as (fd & m & Hfd & Hbody).
      exists fd, m. split; [exact Hfd|exact Hbody].
    + (* SFor *)
      destruct (Hb _ H) as (fd & m & Hfd & Hbody).
      exists fd, m. split; [exact Hfd|exact Hbody].
    + (* SReturn *) destruct e; cbn [defs_stmt] in H; contradiction.
    + (* SDef *)
      destruct H as [H|H].
      * apply pair_equal_spec in H. destruct H as [Hfid Hfd]. subst fid fd'.
        exists {| fd_name := name; fd_params := params; fd_body := body; fd_pos := p |}, n.
        split; [cbn [defs_stmt]; left; reflexivity|cbn [fd_body]; reflexivity].
      * destruct (Hb _ H) as (fd & m & Hfd & Hbody). exists fd, m. split; [|exact Hbody].
        cbn [defs_stmt]. right. exact Hfd.
Qed.

(* the syntax a function of the folded program came from *)
Inductive source_of (p : program) : list stmt -> Prop :=
| so_top : source_of p (p_body p)
| so_def fid fd : List.In (fid, fd) (all_defs p) -> source_of p (fd_body fd).

Lemma folded_source p fc ls body' :
  compiled_from (fold_prog p) fc ls body' ->
  exists body m, source_of p body /\ body' = map (fold_stmt m) body.
Proof.
  intros H. destruct H as [|fid fd' Hin].
  - exists (p_body p), 1000. split; [constructor|reflexivity].
  - unfold all_defs, fold_prog in Hin. cbn [p_body] in Hin.
    apply in_flat_map in Hin. destruct Hin as (s' & Hs' & Hin).
    apply in_map_iff in Hs'. destruct Hs' as (s0 & <- & Hs0).
    destruct (defs_fold 1000 s0 fid fd' Hin) as (fd & m & Hfd & Hbody).
    exists (fd_body fd), m. split; [|exact Hbody].
    apply (so_def p fid fd). unfold all_defs. apply in_flat_map. exists s0. split; assumption.
Qed.

(* compile.go's expression compiler = folding + generation: the positions on the
   fallible instructions are positions of operations of the SOURCE function *)
Lemma folded_fallible_has_pos_lemma :
  forall p fc ls body', compiled_from (fold_prog p) fc ls body' ->
  exists body, source_of p body /\
    forall i, List.In i (fc_code fc) -> fallible (op i) = true ->
      exists k ps, insn_pos i = Some ps /\ site_of i = [(k, ps)] /\ List.In (k, ps) (op_pos_block p ls body).
Proof.
  intros p fc ls body' H.
  destruct (folded_source p fc ls body' H) as (body & m & Hsrc & ->).
  exists body. split; [exact Hsrc|]. intros i Hi Hf.
  destruct (fallible_has_pos_lemma _ _ _ _ H i Hi Hf) as (k & ps & Hp & Hs & Hin).
  exists k, ps. split; [exact Hp|]. split; [exact Hs|].
  rewrite (block_ext (fold_prog p) p ls (global_names_fold p)) in Hin.
  revert Hin. unfold op_pos_block. apply incl_flat_map_map. intros a _. apply fold_stmt_incl.
Qed.
