(* C16 -- history: the slice-expression case of the compiler BEFORE /repo commit
   103924d ("fix: internal/compile: record the position of a slice expression
   on the SLICE instruction").  Frozen copy of the old order of operations;
   not a model of the current tree.

   Old code:   fcomp.setPos(e.Lbrack); fcomp.expr(e.X); lo; hi; step; fcomp.emit(SLICE)
   The position was consumed by the first instruction of the operand x (or
   overridden by that operand's own setPos), so SLICE carried none and a failing
   x[i:j] was reported at the last positioned operand instruction.
   Found by bin/check C16 (finding key stack:innermost:slice): a generated
   program with `x [1:2]` at c16.star:80766:215 was reported at 80766:214. *)
From Coq Require Import ZArith Bool List.
From SV Require Import C16.Emit C16.ProofsEmit.
Import ListNotations.
Open Scope Z_scope.

Definition compile_slice_old (lbrack : srcpos) (x : operand) (lo hi st : option operand) (f : fcomp) : fcomp :=
  emit OSlice (compile_opt 3 st (compile_opt 2 hi (compile_opt 1 lo (compile_operand 0 x (set_pos lbrack f))))).

(* for EVERY slice expression the old order left SLICE without a position *)
Theorem slice_old_loses_position :
  forall lbrack x lo hi st f,
    last_insn (compile_slice_old lbrack x lo hi st f) = Some (mkeinsn OSlice None).
Proof.
  intros. unfold compile_slice_old. rewrite last_insn_emit. rewrite fpos_compile_opt. reflexivity.
Qed.

(* concrete witness: x[1:2] with x a local variable at column 214, '[' at column 215 *)
Example slice_old_refuted :
  exists lbrack x lo hi,
    e_pos (last (emitted (compile_slice_old lbrack x lo hi None (mkfcomp None []))) (mkeinsn ONone None)) <> Some lbrack.
Proof.
  exists (80766, 215), (Some (80766, 214), []), (Some (None, [])), (Some (None, [])).
  vm_compute. discriminate.
Qed.
