(* C16 -- fallible_has_pos: definitions and the independent specification.

   Over C01's models: VM.v (the interpreter loop; an instruction that can fail
   carries the source position the line table gives it) and Compile.v (the code
   generator: fcomp.stmt / expr / assign / call / comprehension / ifelse).

   This file has no proofs.  It defines

     opcode, op            the opcode of a C01 instruction (operands dropped)
     fallible              which opcodes can end a VM step with an error
                           (FallibleVM.v proves this classification against
                           VM.exec_insn in both directions)
     insn_pos              the position an instruction carries (the (line, col) fields of
                           compile.go's insn; None = line 0 = no row in the table)
     opkind, site_of       what a fallible instruction does, with its position
     op_pos_*              THE SPECIFICATION: for every syntax node, the dynamically
                           failing operations it denotes, in evaluation order, each
                           with the position of the token compile.go reports for it.
                           Written over the syntax tree only; no instruction appears.

   Which token (compile.go, the setPos immediately before the emit; the C01
   syntax keeps exactly this token's position in the node's `pos` field):
     name read            Ident.NamePos          (lookup; only for variables: local / global)
     unary op             UnaryExpr.OpPos
     binary op            BinaryExpr.OpPos       (binop; `not in` is IN then NOT, same pos)
     x[y]                 IndexExpr.Lbrack
     x[a:b:c]             SliceExpr.Lbrack
     x.f                  DotExpr.Dot
     f(...)               CallExpr.Lparen
     {k: v}               DictEntry.Colon        (SETDICTUNIQ)
     {k: v for ...}       DictEntry.Colon        (SETDICT)
     for (stmt/clause)    ForStmt.For / ForClause.For (ITERPUSH, and UNPACK of a sequence target)
     a, b = ...           AssignStmt.OpPos       (UNPACK)
     x[i] = / x.f =       Lbrack / Dot of the target (SETINDEX / SETFIELD)
     x op= y              AssignStmt.OpPos       (INPLACE_ADD / INPLACE_PIPE / BINARY);
                          the read and the write of x[i] / x.f: Lbrack / Dot
     load(...)            LoadStmt.Load *)
From Coq Require Import ZArith String List Bool.
From SV Require Import C01.Syntax C01.Values C01.Ref C01.VM.
Import ListNotations.
Open Scope list_scope.

(* ---------------------------------------------------------------- opcodes *)
Inductive opcode :=
| OpNOP | OpDUP | OpDUP2 | OpPOP | OpEXCH | OpBINARY | OpUNARY | OpNOT | OpINPLACE_ADD | OpINPLACE_PIPE
| OpNONE | OpTRUE | OpFALSE | OpMANDATORY | OpITERPUSH | OpITERPOP | OpITERJMP | OpRETURN
| OpSETINDEX | OpINDEX | OpSETDICT | OpSETDICTUNIQ | OpAPPEND | OpMAKEDICT | OpSLICE | OpJMP | OpCJMP
| OpCONSTANT | OpMAKETUPLE | OpMAKELIST | OpMAKEFUNC | OpLOAD | OpSETLOCAL | OpSETGLOBAL | OpLOCAL | OpGLOBAL
| OpFREE | OpFREECELL | OpLOCALCELL | OpSETLOCALCELL | OpPREDECLARED | OpUNIVERSAL | OpATTR | OpSETFIELD
| OpUNPACK | OpCALL
| OpPSEUDO          (* RJMP RCJMP RITERJMP RJMPB BRK CONT: generator placeholders, gone after finalize *)
| OpUNSUPPORTED.

Definition op (i : insn) : opcode :=
  match i with
  | NOP => OpNOP | DUP => OpDUP | DUP2 => OpDUP2 | POP => OpPOP | EXCH => OpEXCH
  | BINARY _ _ => OpBINARY | UNARY _ _ => OpUNARY | NOT => OpNOT
  | INPLACE_ADD _ => OpINPLACE_ADD | INPLACE_PIPE _ => OpINPLACE_PIPE
  | NONE => OpNONE | TRUE => OpTRUE | FALSE => OpFALSE | MANDATORY => OpMANDATORY
  | ITERPUSH _ => OpITERPUSH | ITERPOP => OpITERPOP | ITERJMP _ => OpITERJMP | RETURN => OpRETURN
  | SETINDEX _ => OpSETINDEX | INDEX _ => OpINDEX | SETDICT _ => OpSETDICT | SETDICTUNIQ _ => OpSETDICTUNIQ
  | APPEND => OpAPPEND | MAKEDICT => OpMAKEDICT | SLICE _ => OpSLICE | JMP _ => OpJMP | CJMP _ => OpCJMP
  | CONSTANT _ => OpCONSTANT | MAKETUPLE _ => OpMAKETUPLE | MAKELIST _ => OpMAKELIST | MAKEFUNC _ => OpMAKEFUNC
  | LOAD _ _ => OpLOAD | SETLOCAL _ => OpSETLOCAL | SETGLOBAL _ => OpSETGLOBAL
  | LOCAL _ _ => OpLOCAL | GLOBAL _ _ => OpGLOBAL | FREE _ => OpFREE | FREECELL _ _ => OpFREECELL
  | LOCALCELL _ _ => OpLOCALCELL | SETLOCALCELL _ => OpSETLOCALCELL
  | PREDECLARED _ => OpPREDECLARED | UNIVERSAL _ => OpUNIVERSAL
  | ATTR _ _ => OpATTR | SETFIELD _ _ => OpSETFIELD | UNPACK _ _ => OpUNPACK | CALL _ _ _ _ => OpCALL
  | RJMP _ | RCJMP _ | RITERJMP _ | RJMPB _ | BRK | CONT => OpPSEUDO
  | UNSUPPORTED _ => OpUNSUPPORTED
  end.

(* an opcode is fallible iff some step of it can end with an error (VFail) *)
Definition fallible (o : opcode) : bool :=
  match o with
  | OpBINARY | OpUNARY | OpINPLACE_ADD | OpINPLACE_PIPE | OpITERPUSH | OpSETINDEX | OpINDEX
  | OpSETDICT | OpSETDICTUNIQ | OpSLICE | OpLOAD | OpLOCAL | OpGLOBAL | OpFREECELL | OpLOCALCELL
  | OpATTR | OpSETFIELD | OpUNPACK | OpCALL => true
  | _ => false
  end.

(* the position the instruction carries *)
Definition insn_pos (i : insn) : option pos :=
  match i with
  | BINARY _ p | UNARY _ p | INPLACE_ADD p | INPLACE_PIPE p | ITERPUSH p | SETINDEX p | INDEX p
  | SETDICT p | SETDICTUNIQ p | SLICE p | LOAD _ p | LOCAL _ p | GLOBAL _ p | FREECELL _ p | LOCALCELL _ p
  | ATTR _ p | SETFIELD _ p | UNPACK _ p | CALL _ _ _ p => Some p
  | _ => None
  end.

(* ---------------------------------------------------------------- operations *)
Inductive opkind :=
| KVarRead                       (* read of a local or global variable (may be unassigned) *)
| KCellRead                      (* read through a cell (closures; not produced by Compile.v) *)
| KUnary (o : unop)
| KBinary (o : binop)
| KInplaceAdd | KInplacePipe
| KIter                          (* start of an iteration *)
| KIndex | KSetIndex
| KSlice
| KAttr (name : string) | KSetField (name : string)
| KDictInsert                    (* entry of a dict display: duplicate / unhashable key *)
| KDictSet                       (* entry of a dict comprehension *)
| KUnpack (n : nat)
| KCall (nargs nnamed : nat) (star starstar : bool)
| KLoad (n : nat).

Definition site := (opkind * pos)%type.

(* the operation a fallible instruction performs; [] for an infallible one *)
Definition site_of (i : insn) : list site :=
  match i with
  | LOCAL _ p | GLOBAL _ p => [(KVarRead, p)]
  | FREECELL _ p | LOCALCELL _ p => [(KCellRead, p)]
  | UNARY o p => [(KUnary o, p)]
  | BINARY o p => [(KBinary o, p)]
  | INPLACE_ADD p => [(KInplaceAdd, p)]
  | INPLACE_PIPE p => [(KInplacePipe, p)]
  | ITERPUSH p => [(KIter, p)]
  | INDEX p => [(KIndex, p)]
  | SETINDEX p => [(KSetIndex, p)]
  | SLICE p => [(KSlice, p)]
  | ATTR x p => [(KAttr x, p)]
  | SETFIELD x p => [(KSetField x, p)]
  | SETDICTUNIQ p => [(KDictInsert, p)]
  | SETDICT p => [(KDictSet, p)]
  | UNPACK n p => [(KUnpack n, p)]
  | CALL mode npos nnamed p => [(KCall npos nnamed (Nat.odd mode) (Nat.leb 2 mode), p)]
  | LOAD n p => [(KLoad n, p)]
  | _ => []
  end.

Definition sites (c : list insn) : list site := flat_map site_of c.

(* ---------------------------------------------------------------- the specification op_pos
   p: the program (its global names), locals: the function's local slots by
   name, cs: the variables of the enclosing comprehensions.  A name is a
   VARIABLE when the resolver binds it in one of these scopes; otherwise it is
   predeclared / universal (or undefined: rejected statically). *)
Section OpPos.
  Variable p : program.
  Variable locals : list string.

  Definition is_some {A} (o : option A) : bool := match o with Some _ => true | None => false end.

  Definition is_variable (cs : list (string * nat)) (x : string) : bool :=
    is_some (assoc x cs) || is_some (index_of x locals) || is_some (gidx p x).

  Definition op_pos_name (cs : list (string * nat)) (x : string) (ps : pos) : list site :=
    if is_variable cs x then [(KVarRead, ps)] else [].

  Definition arg_is_pos (a : arg) := match a with APos _ => true | _ => false end.
  Definition arg_is_named (a : arg) := match a with ANamed _ _ => true | _ => false end.
  Definition arg_is_star (a : arg) := match a with AStar _ => true | _ => false end.
  Definition arg_is_starstar (a : arg) := match a with AStarStar _ => true | _ => false end.

  (* operations of an expression in evaluation order (Starlark evaluates operands left
     to right; positional and named arguments before *args before **kwargs) *)
  Fixpoint op_pos_expr (cs : list (string * nat)) (e : expr) {struct e} : list site :=
    match e with
    | EName x ps => op_pos_name cs x ps
    | EInt _ | EStr _ | EUnsup _ => []
    | EParen e => op_pos_expr cs e
    | EUnary UNot _ x => op_pos_expr cs x                              (* `not` cannot fail *)
    | EUnary o ps x => op_pos_expr cs x ++ [(KUnary o, ps)]
    | EBinary NotIn ps x y => op_pos_expr cs x ++ op_pos_expr cs y ++ [(KBinary In, ps)]
    | EBinary o ps x y => op_pos_expr cs x ++ op_pos_expr cs y ++ [(KBinary o, ps)]
    | EAnd x y | EOr x y => op_pos_expr cs x ++ op_pos_expr cs y        (* and / or cannot fail themselves *)
    | ECond c t f => op_pos_expr cs c ++ op_pos_expr cs t ++ op_pos_expr cs f
    | ETuple es | EList es => flat_map (op_pos_expr cs) es
    | EDict kvs =>
        flat_map (fun kv => op_pos_expr cs (fst (fst kv)) ++ op_pos_expr cs (snd (fst kv)) ++ [(KDictInsert, snd kv)]) kvs
    | EIndex x y ps => op_pos_expr cs x ++ op_pos_expr cs y ++ [(KIndex, ps)]
    | EDot x name ps => op_pos_expr cs x ++ [(KAttr name, ps)]
    | ECall fn args ps =>
        op_pos_expr cs fn
        ++ flat_map (fun a => match a with APos e | ANamed _ e => op_pos_expr cs e | _ => [] end) args
        ++ flat_map (fun a => match a with AStar e => op_pos_expr cs e | _ => [] end) args
        ++ flat_map (fun a => match a with AStarStar e => op_pos_expr cs e | _ => [] end) args
        ++ [(KCall (length (filter arg_is_pos args)) (length (filter arg_is_named args))
                   (existsb arg_is_star args) (existsb arg_is_starstar args), ps)]
    | ELambda _ _ _ _ => []                                            (* not covered by Compile.v *)
    | EComp curly body bodyv cp cls slots =>
        let cs' := combine (comp_vars cls) slots ++ cs in
        let tg := fix tg (t : target) (ps : pos) {struct t} : list site :=
                    match t with
                    | TName _ _ => []
                    | TIndex x y pi => op_pos_expr cs' x ++ op_pos_expr cs' y ++ [(KSetIndex, pi)]
                    | TDot x name pd => op_pos_expr cs' x ++ [(KSetField name, pd)]
                    | TSeq ts => (KUnpack (length ts), ps) :: flat_map (fun t => tg t ps) ts
                    end in
        let rest := fix cc (l : list clause) {struct l} : list site :=
                      match l with
                      | [] => if curly then op_pos_expr cs' body ++ op_pos_expr cs' bodyv ++ [(KDictSet, cp)]
                              else op_pos_expr cs' body
                      | CIf c :: r => op_pos_expr cs' c ++ cc r
                      | CFor t e ps :: r => op_pos_expr cs' e ++ [(KIter, ps)] ++ tg t ps ++ cc r
                      end in
        match cls with
        | CFor t e0 ps :: r => op_pos_expr cs e0 ++ [(KIter, ps)] ++ tg t ps ++ rest r
        | _ => []                                                      (* rejected statically *)
        end
    | ESlice x lo hi st ps =>
        let o (e : option expr) := match e with Some e => op_pos_expr cs e | None => [] end in
        op_pos_expr cs x ++ o lo ++ o hi ++ o st ++ [(KSlice, ps)]
    end.

  (* storing into a target; ps: the position reported for unpacking a sequence target *)
  Fixpoint op_pos_target (t : target) (ps : pos) {struct t} : list site :=
    match t with
    | TName _ _ => []
    | TIndex x y pi => op_pos_expr [] x ++ op_pos_expr [] y ++ [(KSetIndex, pi)]
    | TDot x name pd => op_pos_expr [] x ++ [(KSetField name, pd)]
    | TSeq ts => (KUnpack (length ts), ps) :: flat_map (fun t => op_pos_target t ps) ts
    end.

  (* the operator of an augmented assignment *)
  Definition op_pos_aug (o : binop) (ps : pos) : list site :=
    match o with
    | Add => [(KInplaceAdd, ps)]
    | BitOr => [(KInplacePipe, ps)]
    | NotIn => []                                                      (* no such statement *)
    | _ => [(KBinary o, ps)]
    end.

  Fixpoint op_pos_stmt (s : stmt) {struct s} : list site :=
    match s with
    | SExpr e => op_pos_expr [] e
    | SAssign t e ps => op_pos_expr [] e ++ op_pos_target t ps
    | SAug o (TName x px) e ps => op_pos_name [] x px ++ op_pos_expr [] e ++ op_pos_aug o ps
    | SAug o (TIndex x y pi) e ps =>
        op_pos_expr [] x ++ op_pos_expr [] y ++ [(KIndex, pi)] ++ op_pos_expr [] e ++ op_pos_aug o ps ++ [(KSetIndex, pi)]
    | SAug o (TDot x name pd) e ps =>
        op_pos_expr [] x ++ [(KAttr name, pd)] ++ op_pos_expr [] e ++ op_pos_aug o ps ++ [(KSetField name, pd)]
    | SAug _ (TSeq _) _ _ => []                                        (* rejected statically *)
    | SIf c tb fb => op_pos_expr [] c ++ flat_map op_pos_stmt tb ++ flat_map op_pos_stmt fb
    | SWhile c body => op_pos_expr [] c ++ flat_map op_pos_stmt body
    | SFor t e body ps => op_pos_expr [] e ++ [(KIter, ps)] ++ op_pos_target t ps ++ flat_map op_pos_stmt body
    | SBreak | SContinue | SPass | SReturn None | SUnsup _ => []
    | SReturn (Some e) => op_pos_expr [] e
    | SDef _ _ ps _ _ =>                                               (* default values, evaluated at the def *)
        flat_map (fun q => match q with PDefault _ e => op_pos_expr [] e | _ => [] end) ps
    | SLoad _ names ps => [(KLoad (length names), ps)]
    end.

  Definition op_pos_block (ss : list stmt) : list site := flat_map op_pos_stmt ss.
End OpPos.

