(* C17 -- the Go data being serialized: the Coq image of compile.Program,
   compile.Funcode, compile.Binding and the constant kinds (types only).
   Every field of Program and Funcode is present except the Prog back-pointer
   (re-established by DecodeProgram) and the transient lnt / lntOnce (derived
   from pclinetab on demand).  Strings are byte lists: Go strings are arbitrary
   bytes, not necessarily UTF-8. *)
From Coq Require Import ZArith Bool List.
From SV Require Import C17.Codec.
Import ListNotations.
Open Scope Z_scope.


Record binding := { b_name : bytes; b_line : Z; b_col : Z }.

Inductive const :=
| CString (s : bytes)
| CBytes (s : bytes)
| CInt (z : Z)             (* int64 *)
| CFloat (bits : Z)        (* math.Float64bits *)
| CBigInt (text : bytes).  (* big.Int.Text(10): canonical decimal text, see Spec.wt_const *)

Record funcode := {
  f_name : bytes; f_line : Z; f_col : Z;
  f_doc : bytes; f_code : bytes; f_pclinetab : list Z;
  f_locals : list binding; f_cells : list Z; f_freevars : list binding;
  f_maxstack : Z; f_numparams : Z; f_numkwonly : Z;
  f_hasvarargs : bool; f_haskwargs : bool }.

Record program := {
  p_filename : bytes;            (* Toplevel.Pos.Filename(), shared by every position *)
  p_loads : list binding; p_names : list bytes; p_constants : list const;
  p_globals : list binding; p_toplevel : funcode; p_functions : list funcode;
  p_recursion : bool }.


(* what DecodeProgram can produce *)
Inductive decoded :=
| DProgram (p : program)
| DError (e : err)
| DOther (v : val).   (* decoding succeeded but the result contains a nil constant
                          (unknown constant tag): not a program the compiler produces *)

