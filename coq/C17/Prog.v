(* C17 -- the Go data being serialized: the Coq image of compile.Program,
   compile.Funcode, compile.Binding and the constant kinds (types only).
   Every field of Program and Funcode is present except the Prog back-pointer
   (re-established by DecodeProgram) and the transient lnt / lntOnce (derived
   from pclinetab on demand).  Strings are byte lists: Go strings are arbitrary
   bytes, not necessarily UTF-8. *)
From Coq Require Import ZArith Bool List.
From SV Require Import C17.Codec.
Import ListNotations.
Open Scope Z_scope.


Record binding := { b_name : bytes; b_line : Z; b_col : Z }.

Inductive const :=
| CString (s : bytes)
| CBytes (s : bytes)
| CInt (z : Z)             (* int64 *)
| CFloat (bits : Z)        (* math.Float64bits *)
| CBigInt (z : Z).         (* *big.Int, any integer *)

Record funcode := {
  f_name : bytes; f_line : Z; f_col : Z;
  f_doc : bytes; f_code : bytes; f_pclinetab : list Z;
  f_locals : list binding; f_cells : list Z; f_freevars : list binding;
  f_maxstack : Z; f_numparams : Z; f_numkwonly : Z;
  f_hasvarargs : bool; f_haskwargs : bool }.

Record program := {
  p_filename : bytes;            (* Toplevel.Pos.Filename(), shared by every position *)
  p_loads : list binding; p_names : list bytes; p_constants : list const;
  p_globals : list binding; p_toplevel : funcode; p_functions : list funcode;
  p_recursion : bool }.


(* what DecodeProgram can produce *)
Inductive decoded :=
| DProgram (p : program)
| DError (e : err)
| DOther (v : val).   (* decoding succeeded but the result contains a nil constant
                          (unknown constant tag): not a program the compiler produces *)


(* decidable equality, used by the correspondence check to compare a decoded
   program with the dump of the real one *)
Fixpoint list_eqb {A : Type} (eqb : A -> A -> bool) (a b : list A) : bool :=
  match a, b with
  | [], [] => true
  | x :: r, y :: s => eqb x y && list_eqb eqb r s
  | _, _ => false
  end.
Definition bytes_eqb : bytes -> bytes -> bool := list_eqb Z.eqb.
Definition binding_eqb (a b : binding) : bool :=
  bytes_eqb (b_name a) (b_name b) && (b_line a =? b_line b) && (b_col a =? b_col b).
Definition const_eqb (a b : const) : bool :=
  match a, b with
  | CString x, CString y => bytes_eqb x y
  | CBytes x, CBytes y => bytes_eqb x y
  | CInt x, CInt y => x =? y
  | CFloat x, CFloat y => x =? y
  | CBigInt x, CBigInt y => x =? y
  | _, _ => false
  end.
Definition funcode_eqb (a b : funcode) : bool :=
  bytes_eqb (f_name a) (f_name b) && (f_line a =? f_line b) && (f_col a =? f_col b) &&
  bytes_eqb (f_doc a) (f_doc b) && bytes_eqb (f_code a) (f_code b) &&
  list_eqb Z.eqb (f_pclinetab a) (f_pclinetab b) &&
  list_eqb binding_eqb (f_locals a) (f_locals b) &&
  list_eqb Z.eqb (f_cells a) (f_cells b) &&
  list_eqb binding_eqb (f_freevars a) (f_freevars b) &&
  (f_maxstack a =? f_maxstack b) && (f_numparams a =? f_numparams b) &&
  (f_numkwonly a =? f_numkwonly b) &&
  Bool.eqb (f_hasvarargs a) (f_hasvarargs b) && Bool.eqb (f_haskwargs a) (f_haskwargs b).
Definition program_eqb (a b : program) : bool :=
  bytes_eqb (p_filename a) (p_filename b) &&
  list_eqb binding_eqb (p_loads a) (p_loads b) &&
  list_eqb bytes_eqb (p_names a) (p_names b) &&
  list_eqb const_eqb (p_constants a) (p_constants b) &&
  list_eqb binding_eqb (p_globals a) (p_globals b) &&
  funcode_eqb (p_toplevel a) (p_toplevel b) &&
  list_eqb funcode_eqb (p_functions a) (p_functions b) &&
  Bool.eqb (p_recursion a) (p_recursion b).
