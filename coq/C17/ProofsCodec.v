(* C17 -- the generic codec round-trips: for every schema (whose sequence
   elements occupy at least a byte) and every value typed by it. *)
From Coq Require Import ZArith Bool String List Lia.
From Coq Require Decimal DecimalZ DecimalPos.
From Coq Require Import ZifyBool.
From SV Require Import Common.GoInt C17.Codec C17.ProofsVarint.
Import ListNotations.
Open Scope Z_scope.

Ltac Zify.zify_post_hook ::= Z.div_mod_to_equations.

(* --- an induction principle for the nested type of schemas ------------ *)
Fixpoint ty_ind' (P : ty -> Prop)
    (HInt : P TInt) (HI32 : P TI32) (HU16 : P TU16) (HU64 : P TU64) (HBool : P TBool)
    (HStr : P TStr) (HBig : P TBig)
    (HList : forall t, P t -> P (TList t))
    (HRec : forall fs, Forall (fun nt => P (snd nt)) fs -> P (TRec fs))
    (HUnion : forall fs, Forall (fun nt => P (snd nt)) fs -> P (TUnion fs))
    (t : ty) {struct t} : P t :=
  let rec := ty_ind' P HInt HI32 HU16 HU64 HBool HStr HBig HList HRec HUnion in
  match t with
  | TInt => HInt | TI32 => HI32 | TU16 => HU16 | TU64 => HU64 | TBool => HBool | TStr => HStr | TBig => HBig
  | TList te => HList te (rec te)
  | TRec fs =>
      HRec fs ((fix go (fs : list (string * ty)) : Forall (fun nt => P (snd nt)) fs :=
                  match fs with
                  | [] => Forall_nil _
                  | nt :: r => Forall_cons nt (rec (snd nt)) (go r)
                  end) fs)
  | TUnion fs =>
      HUnion fs ((fix go (fs : list (string * ty)) : Forall (fun nt => P (snd nt)) fs :=
                    match fs with
                    | [] => Forall_nil _
                    | nt :: r => Forall_cons nt (rec (snd nt)) (go r)
                    end) fs)
  end.

(* --- decoder state = what the encoder wrote, followed by anything ------ *)
Definition after (o : out) (p' s' : bytes) : dst := {| d_p := o_p o ++ p'; d_s := o_s o ++ s' |}.
Definition rest (p' s' : bytes) : dst := {| d_p := p'; d_s := s' |}.

Lemma after_oapp a b p' s' : after (oapp a b) p' s' = after a (o_p b ++ p') (o_s b ++ s').
Proof. unfold after, oapp. cbn [o_p o_s]. rewrite <- !app_assoc. reflexivity. Qed.

Lemma after_onil p' s' : after onil p' s' = rest p' s'.
Proof. reflexivity. Qed.

Lemma in_int64_i64 z : in_int64 z = true -> in_i64 z.
Proof. unfold in_int64, min_int64, max_int64, in_i64. lia. Qed.
Lemma in_uint64_u64 z : in_uint64 z = true -> in_u64 z.
Proof. unfold in_uint64, max_uint64, in_u64. lia. Qed.

(* e.int then d.int *)
Lemma e_int_rt z :
  in_int64 z = true ->
  exists b, e_int z = Ok {| o_p := b; o_s := [] |} /\ (1 <= length b)%nat /\
    forall p' s', d_int {| d_p := b ++ p'; d_s := s' |} = Ok (z, rest p' s').
Proof.
  intros H. destruct (varint_roundtrip_lemma z (in_int64_i64 z H)) as [b [Hb Hd]].
  exists b. unfold e_int. rewrite Hb. split; [reflexivity|]. split.
  - unfold put_varint, put_uvarint in Hb.
    destruct (put_uvarint_go_bytes 10 (zigzag z) b) as [_ L]; [|exact Hb|lia].
    pose proof (zigzag_range z (in_int64_i64 z H)) as R. unfold in_u64 in R. lia.
  - intros p' s'. unfold d_int. cbn [d_p d_s]. rewrite Hd. reflexivity.
Qed.

Lemma e_uint64_rt z :
  in_uint64 z = true ->
  exists b, e_uint64 z = Ok {| o_p := b; o_s := [] |} /\ (1 <= length b)%nat /\
    forall p' s', d_uint64 {| d_p := b ++ p'; d_s := s' |} = Ok (z, rest p' s').
Proof.
  intros H. destruct (uvarint_roundtrip_lemma z (in_uint64_u64 z H)) as [b [Hb Hd]].
  exists b. unfold e_uint64. rewrite Hb. split; [reflexivity|]. split.
  - unfold put_uvarint in Hb.
    destruct (put_uvarint_go_bytes 10 z b) as [_ L]; [|exact Hb|lia].
    apply in_uint64_u64 in H. unfold in_u64 in H. lia.
  - intros p' s'. unfold d_uint64. cbn [d_p d_s]. rewrite Hd. reflexivity.
Qed.

(* the statement proved for every schema *)
Definition RT (t : ty) : Prop :=
  forall v, wt t v = true ->
    exists o, enc t v = Ok o /\
      (nonempty t = true -> (1 <= length (o_p o))%nat) /\
      forall p' s', dec t (after o p' s') = Ok (v, rest p' s').

Lemma rt_int_like (f : Z -> Z) z :
  in_int64 z = true -> f z = z ->
  exists o, e_int z = Ok o /\ (1 <= length (o_p o))%nat /\
    forall p' s', rmap (fun x => VInt (f x)) (d_int (after o p' s')) = Ok (VInt z, rest p' s').
Proof.
  intros H Hf. destruct (e_int_rt z H) as [b [Hb [L Hd]]].
  eexists; split; [exact Hb|]. split; [exact L|].
  intros p' s'. unfold after. cbn [o_p o_s app]. rewrite Hd. cbn [rmap]. rewrite Hf. reflexivity.
Qed.

Lemma RT_TInt : RT TInt.
Proof.
  intros v H. destruct v; try discriminate. cbn [wt] in H.
  destruct (rt_int_like (fun x => x) z H eq_refl) as [o [A [B C]]].
  exists o. cbn [enc dec]. split; [exact A|]. split; [intros _; exact B|exact C].
Qed.

Lemma RT_TI32 : RT TI32.
Proof.
  intros v H. destruct v; try discriminate. cbn [wt] in H.
  assert (H64 : in_int64 z = true)
    by (unfold in_int32, in_int64, min_int32, max_int32, min_int64, max_int64 in *; lia).
  destruct (rt_int_like wrap32 z H64 (wrap32_id z H)) as [o [A [B C]]].
  exists o. cbn [enc dec]. split; [exact A|]. split; [intros _; exact B|exact C].
Qed.

Lemma RT_TU16 : RT TU16.
Proof.
  intros v H. destruct v; try discriminate. cbn [wt] in H.
  assert (H64 : in_int64 z = true)
    by (unfold in_u16, in_int64, min_int64, max_int64 in *; lia).
  assert (Hw : wrapu16 z = z) by (unfold wrapu16, in_u16 in *; apply Z.mod_small; lia).
  destruct (rt_int_like wrapu16 z H64 Hw) as [o [A [B C]]].
  exists o. cbn [enc dec]. split; [exact A|]. split; [intros _; exact B|exact C].
Qed.

Lemma RT_TU64 : RT TU64.
Proof.
  intros v H. destruct v; try discriminate. cbn [wt] in H.
  destruct (e_uint64_rt z H) as [b [Hb [L Hd]]].
  eexists. cbn [enc dec]. split; [exact Hb|]. split; [intros _; exact L|].
  intros p' s'. unfold after. cbn [o_p o_s app]. rewrite Hd. reflexivity.
Qed.

Lemma RT_TBool : RT TBool.
Proof.
  intros v H. destruct v; try discriminate.
  assert (H64 : in_int64 (if b then 1 else 0) = true) by (destruct b; reflexivity).
  destruct (e_int_rt _ H64) as [bs [Hb [L Hd]]].
  eexists. cbn [enc dec]. split; [exact Hb|]. split; [intros _; exact L|].
  intros p' s'. unfold after. cbn [o_p o_s app]. rewrite Hd. cbn [rmap]. destruct b; reflexivity.
Qed.

Lemma firstn_app_exact {A} (a b : list A) : firstn (length a) (a ++ b) = a.
Proof. induction a as [|x a IH]; cbn; [destruct b; reflexivity|]. rewrite IH. reflexivity. Qed.
Lemma skipn_app_exact {A} (a b : list A) : skipn (length a) (a ++ b) = b.
Proof. induction a as [|x a IH]; cbn; [reflexivity|exact IH]. Qed.

Lemma e_str_rt s :
  Z.of_nat (length s) <=? max_int64 = true ->
  exists o, e_str s = Ok o /\ (1 <= length (o_p o))%nat /\
    forall p' s', d_str (after o p' s') = Ok (s, rest p' s').
Proof.
  intros HL.
  assert (H64 : in_int64 (Z.of_nat (length s)) = true)
    by (unfold in_int64, min_int64, max_int64 in *; lia).
  destruct (e_int_rt _ H64) as [bs [Hb [L Hd]]].
  eexists. unfold e_str. rewrite Hb. cbn [o_p]. split; [reflexivity|].
  split; [exact L|].
  intros p' s'. unfold after. cbn [o_p o_s]. unfold d_str. rewrite Hd. unfold rest. cbn [d_s d_p].
  rewrite app_length.
  destruct ((Z.of_nat (length s) <? 0) || (Z.of_nat (length s + length s') <? Z.of_nat (length s))) eqn:E; [lia|].
  rewrite Nat2Z.id, firstn_app_exact, skipn_app_exact. reflexivity.
Qed.

Lemma RT_TStr : RT TStr.
Proof.
  intros v H. destruct v; try discriminate. cbn [wt] in H.
  apply andb_true_iff in H. destruct H as [HL _].
  destruct (e_str_rt s HL) as [o [E [L D]]].
  exists o. cbn [enc dec]. split; [exact E|]. split; [intros _; exact L|].
  intros p' s'. rewrite D. reflexivity.
Qed.

(* --- decimal text of big integers (big.Int.Text(10) / SetString(.,10)) --- *)
Lemma bytes_uint_bytes u : bytes_uint (uint_bytes u) = Some u.
Proof. induction u; cbn [uint_bytes bytes_uint]; try reflexivity; rewrite IHu; reflexivity. Qed.

Lemma uint_bytes_nonnil u : u <> Decimal.Nil -> uint_bytes u <> [].
Proof. destruct u; intros H; try contradiction; discriminate. Qed.

Lemma uint_bytes_head u b r : uint_bytes u = b :: r -> 48 <= b <= 57.
Proof. destruct u; cbn [uint_bytes]; intros H; try discriminate; injection H as <- _; lia. Qed.

Lemma parse_digits_uint neg u :
  u <> Decimal.Nil -> parse_digits neg (uint_bytes u) = Some (Z.of_int (if neg then Decimal.Neg u else Decimal.Pos u)).
Proof.
  intros H. unfold parse_digits. rewrite bytes_uint_bytes.
  destruct (uint_bytes u) eqn:E; [exfalso; exact (uint_bytes_nonnil u H E)|reflexivity].
Qed.

Lemma to_int_nonnil z : match Z.to_int z with Decimal.Pos u => u <> Decimal.Nil | Decimal.Neg u => u <> Decimal.Nil end.
Proof.
  destruct z; cbn [Z.to_int]; try apply DecimalPos.Unsigned.to_uint_nonnil. discriminate.
Qed.

(* SetString(Text(10)) gives back every integer *)
Lemma parse_print_dec z : parse_dec (print_dec z) = Some z.
Proof.
  unfold print_dec. pose proof (to_int_nonnil z) as N. pose proof (DecimalZ.of_to z) as R.
  destruct (Z.to_int z) as [u|u].
  - unfold parse_dec. destruct (uint_bytes u) as [|b r] eqn:E; [exfalso; exact (uint_bytes_nonnil u N E)|].
    pose proof (uint_bytes_head u b r E) as Hb.
    destruct (b =? 45) eqn:E1; [lia|]. destruct (b =? 43) eqn:E2; [lia|].
    rewrite <- E. rewrite (parse_digits_uint false u N). rewrite R. reflexivity.
  - unfold parse_dec. cbn [Z.eqb Pos.eqb]. rewrite (parse_digits_uint true u N). rewrite R. reflexivity.
Qed.

Lemma RT_TBig : RT TBig.
Proof.
  intros v H. destruct v; try discriminate. cbn [wt] in H.
  destruct (e_str_rt (print_dec z) H) as [o [E [L D]]].
  exists o. cbn [enc dec]. split; [exact E|]. split; [intros _; exact L|].
  intros p' s'. rewrite D. cbn [rmap]. rewrite parse_print_dec. reflexivity.
Qed.

(* --- sequences --------------------------------------------------------- *)
Lemma enc_elems_rt te :
  RT te ->
  forall l, forallb (wt te) l = true ->
    exists o, enc_elems (enc te) l = Ok o /\
      (nonempty te = true -> (length l <= length (o_p o))%nat) /\
      forall p' s', dec_elems (dec te) (length l) (after o p' s') = Ok (l, rest p' s').
Proof.
  intros IH. induction l as [|x r IHl]; intros H.
  - exists onil. split; [reflexivity|]. split; [intros _; cbn; lia|]. intros; reflexivity.
  - cbn [forallb] in H. apply andb_true_iff in H. destruct H as [Hx Hr].
    destruct (IH x Hx) as [ox [Ex [Lx Dx]]]. destruct (IHl Hr) as [orr [Er [Lr Dr]]].
    exists (oapp ox orr). cbn [enc_elems]. rewrite Ex. fold (enc_elems (enc te)). rewrite Er.
    split; [reflexivity|]. split.
    + intros N. specialize (Lx N). specialize (Lr N). unfold oapp. cbn [o_p length]. rewrite app_length. lia.
    + intros p' s'. rewrite after_oapp. cbn [length dec_elems]. rewrite Dx.
      fold (dec_elems (dec te)). unfold rest at 1.
      change {| d_p := o_p orr ++ p'; d_s := o_s orr ++ s' |} with (after orr p' s').
      rewrite Dr. reflexivity.
Qed.

Lemma RT_TList te : nonempty te = true -> RT te -> RT (TList te).
Proof.
  intros NE IH v H. destruct v; try discriminate. cbn [wt] in H.
  apply andb_true_iff in H. destruct H as [HL HF].
  assert (H64 : in_int64 (Z.of_nat (length l)) = true)
    by (unfold in_int64, min_int64, max_int64 in *; lia).
  destruct (e_int_rt _ H64) as [bs [Hb [L Hd]]].
  destruct (enc_elems_rt te IH l HF) as [ol [El [Ll Dl]]].
  exists (oapp {| o_p := bs; o_s := [] |} ol). cbn [enc]. rewrite Hb. unfold obind. rewrite El.
  split; [reflexivity|]. split.
  - intros _. unfold oapp. cbn [o_p]. rewrite app_length. lia.
  - intros p' s'. rewrite after_oapp. cbn [dec]. unfold after at 1. cbn [o_p o_s app].
    rewrite Hd. unfold count_ok, rest. cbn [d_p].
    specialize (Ll NE).
    destruct ((Z.of_nat (length l) <? 0) || (Z.of_nat (length (o_p ol ++ p')) <? Z.of_nat (length l))) eqn:E.
    + rewrite app_length in E. lia.
    + cbn [negb]. rewrite Nat2Z.id.
      change {| d_p := o_p ol ++ p'; d_s := o_s ol ++ s' |} with (after ol p' s').
      rewrite Dl. reflexivity.
Qed.

(* --- records ------------------------------------------------------------ *)
Fixpoint any_nonempty (fs : list (string * ty)) : bool :=
  match fs with [] => false | (_, tf) :: fr => nonempty tf || any_nonempty fr end.
Lemma nonempty_rec fs : nonempty (TRec fs) = any_nonempty fs.
Proof. induction fs as [|[n t] r IH]; [reflexivity|]. cbn [nonempty any_nonempty] in *. rewrite <- IH. reflexivity. Qed.

Lemma enc_fields_rt fs :
  Forall (fun nt => RT (snd nt)) fs ->
  forall l, wt_fields wt fs l = true ->
    exists o, enc_fields enc fs l = Ok o /\
      (any_nonempty fs = true -> (1 <= length (o_p o))%nat) /\
      forall p' s', dec_fields dec fs (after o p' s') = Ok (l, rest p' s').
Proof.
  induction fs as [|[n tf] fr IHf]; intros HF l H.
  - destruct l; [|discriminate]. exists onil. split; [reflexivity|]. split; [discriminate|]. intros; reflexivity.
  - destruct l as [|x r]; [discriminate|]. cbn [wt_fields] in H. fold (wt_fields wt) in H.
    apply andb_true_iff in H. destruct H as [Hx Hr].
    inversion HF as [|? ? IHx IHr]; subst. cbn [snd] in IHx.
    destruct (IHx x Hx) as [ox [Ex [Lx Dx]]]. destruct (IHf IHr r Hr) as [orr [Er [Lr Dr]]].
    exists (oapp ox orr). cbn [enc_fields]. fold (enc_fields enc). rewrite Ex, Er.
    split; [reflexivity|]. split.
    + cbn [any_nonempty]. intros N. unfold oapp. cbn [o_p]. rewrite app_length.
      apply orb_true_iff in N. destruct N as [N|N]; [specialize (Lx N)|specialize (Lr N)]; lia.
    + intros p' s'. rewrite after_oapp. cbn [dec_fields]. fold (dec_fields dec). rewrite Dx.
      unfold rest at 1.
      change {| d_p := o_p orr ++ p'; d_s := o_s orr ++ s' |} with (after orr p' s').
      rewrite Dr. reflexivity.
Qed.

Lemma RT_TRec fs : Forall (fun nt => RT (snd nt)) fs -> RT (TRec fs).
Proof.
  intros HF v H. destruct v; try discriminate. cbn [wt] in H.
  destruct (enc_fields_rt fs HF l H) as [o [E [L D]]].
  exists o. cbn [enc]. split; [exact E|]. split.
  - rewrite nonempty_rec. exact L.
  - intros p' s'. cbn [dec]. rewrite D. reflexivity.
Qed.

(* --- tagged unions ------------------------------------------------------ *)
Lemma enc_alt_rt alts :
  Forall (fun nt => RT (snd nt)) alts ->
  forall v k tag, wt_alt wt v alts k = true ->
    exists o, enc_alt enc v alts k = Ok o /\
      forall p' s', dec_alt dec tag (after o p' s') alts k = Ok (VAlt tag v, rest p' s').
Proof.
  induction alts as [|[n ta] ar IHa]; intros HF v k tag H.
  - destruct k; discriminate.
  - inversion HF as [|? ? IHx IHr]; subst. cbn [snd] in IHx.
    destruct k as [|k].
    + cbn [wt_alt] in H. destruct (IHx v H) as [o [E [_ D]]].
      exists o. cbn [enc_alt]. split; [exact E|]. intros p' s'. cbn [dec_alt]. rewrite D. reflexivity.
    + cbn [wt_alt] in H. fold (wt_alt wt v) in H.
      destruct (IHa IHr v k tag H) as [o [E D]].
      exists o. cbn [enc_alt]. fold (enc_alt enc v). split; [exact E|].
      intros p' s'. cbn [dec_alt]. fold (dec_alt dec tag (after o p' s')). apply D.
Qed.

Lemma RT_TUnion alts : Forall (fun nt => RT (snd nt)) alts -> RT (TUnion alts).
Proof.
  intros HF v H. destruct v; try discriminate. cbn [wt] in H.
  apply andb_true_iff in H. destruct H as [H HA]. apply andb_true_iff in H. destruct H as [H0 H1].
  assert (H64 : in_int64 tag = true) by (unfold in_int64, min_int64, max_int64 in *; lia).
  destruct (e_int_rt _ H64) as [bs [Hb [L Hd]]].
  destruct (enc_alt_rt alts HF v (Z.to_nat tag) tag HA) as [o [E D]].
  exists (oapp {| o_p := bs; o_s := [] |} o). cbn [enc].
  destruct (tag <? 0) eqn:T; [lia|]. rewrite Hb. unfold obind. rewrite E.
  split; [reflexivity|]. split.
  - intros _. unfold oapp. cbn [o_p]. rewrite app_length. lia.
  - intros p' s'. rewrite after_oapp. cbn [dec]. unfold after at 1. cbn [o_p o_s app].
    rewrite Hd. rewrite T. unfold rest.
    change {| d_p := o_p o ++ p'; d_s := o_s o ++ s' |} with (after o p' s').
    apply D.
Qed.

(* --- every well-formed schema ------------------------------------------- *)
Fixpoint all_wf (fs : list (string * ty)) : bool :=
  match fs with [] => true | (_, tf) :: fr => wf_ty tf && all_wf fr end.
Lemma wf_rec fs : wf_ty (TRec fs) = all_wf fs.
Proof. induction fs as [|[n t] r IH]; [reflexivity|]. cbn [wf_ty all_wf] in *. rewrite <- IH. reflexivity. Qed.
Lemma wf_union fs : wf_ty (TUnion fs) = all_wf fs.
Proof. induction fs as [|[n t] r IH]; [reflexivity|]. cbn [wf_ty all_wf] in *. rewrite <- IH. reflexivity. Qed.

Lemma forall_wf (P : ty -> Prop) fs :
  Forall (fun nt => wf_ty (snd nt) = true -> P (snd nt)) fs -> all_wf fs = true ->
  Forall (fun nt => P (snd nt)) fs.
Proof.
  induction fs as [|[n t] r IH]; intros HF H; [constructor|].
  cbn [all_wf] in H. apply andb_true_iff in H. destruct H as [Ht Hr].
  inversion HF as [|? ? A B]; subst. constructor; [apply A; exact Ht|apply IH; assumption].
Qed.

Lemma codec_rt_all : forall t, wf_ty t = true -> RT t.
Proof.
  induction t using ty_ind'; intros W.
  - exact RT_TInt. - exact RT_TI32. - exact RT_TU16. - exact RT_TU64. - exact RT_TBool. - exact RT_TStr. - exact RT_TBig.
  - cbn [wf_ty] in W. apply andb_true_iff in W. destruct W as [N W]. apply RT_TList; [exact N|apply IHt; exact W].
  - rewrite wf_rec in W. apply RT_TRec. apply forall_wf; assumption.
  - rewrite wf_union in W. apply RT_TUnion. apply forall_wf; assumption.
Qed.

(* --- the file framing ----------------------------------------------------- *)
Lemma u32le_roundtrip n :
  0 <= n <= max_uint32 ->
  match put_u32le n with
  | [b0; b1; b2; b3] => get_u32le b0 b1 b2 b3 = n
  | _ => False
  end.
Proof.
  unfold max_uint32. intros H. unfold put_u32le, get_u32le, wrapu32, wrapu8.
  rewrite (Z.mod_small n 4294967296) by lia.
  rewrite !Z.shiftr_div_pow2 by lia. rewrite !Z.shiftl_mul_pow2 by lia.
  change (2 ^ 8) with 256. change (2 ^ 16) with 65536. change (2 ^ 24) with 16777216.
  assert (A : Z.lor (n mod 256) (n / 256 mod 256 * 256) = n mod 256 + n / 256 mod 256 * 256).
  { change 256 with (2 ^ 8) at 4 6. apply lor_disjoint_add; lia. }
  rewrite A.
  assert (B : Z.lor (n mod 256 + n / 256 mod 256 * 256) (n / 65536 mod 256 * 65536)
              = n mod 256 + n / 256 mod 256 * 256 + n / 65536 mod 256 * 65536).
  { change 65536 with (2 ^ 16) at 2 4. apply lor_disjoint_add; lia. }
  rewrite B.
  assert (C : Z.lor (n mod 256 + n / 256 mod 256 * 256 + n / 65536 mod 256 * 65536) (n / 16777216 mod 256 * 16777216)
              = n mod 256 + n / 256 mod 256 * 256 + n / 65536 mod 256 * 65536 + n / 16777216 mod 256 * 16777216).
  { change 16777216 with (2 ^ 24) at 2 4. apply lor_disjoint_add; lia. }
  rewrite C. lia.
Qed.

Lemma codec_file_roundtrip ver t v :
  in_int64 ver = true -> wf_ty t = true -> wt t v = true ->
  exists bs, encode_file ver t v = Ok bs /\
    (Z.of_nat (length bs) <= max_uint32 -> decode_file ver t bs = Ok v).
Proof.
  intros Hver W T.
  destruct (e_int_rt ver Hver) as [vb [Hvb [Lv Dv]]].
  destruct (codec_rt_all t W v T) as [o [E [_ D]]].
  unfold encode_file. rewrite Hvb. unfold obind. rewrite E.
  eexists. split; [reflexivity|]. intros Hlen.
  set (pp := o_p (oapp {| o_p := vb; o_s := [] |} o)) in *.
  set (ss := o_s (oapp {| o_p := vb; o_s := [] |} o)) in *.
  assert (Hpp : pp = vb ++ o_p o) by reflexivity.
  assert (Hss : ss = o_s o) by reflexivity.
  rewrite !app_length in Hlen. cbn [magic length] in Hlen.
  assert (Hrange : 0 <= 8 + Z.of_nat (length pp) <= max_uint32).
  { unfold put_u32le in Hlen. cbn [length] in Hlen. unfold max_uint32 in *. lia. }
  pose proof (u32le_roundtrip _ Hrange) as U.
  destruct (put_u32le (8 + Z.of_nat (length pp))) as [|b0 [|b1 [|b2 [|b3 [|? ?]]]]]; try contradiction.
  cbn [magic app decode_file].
  cbn [Z.eqb Pos.eqb andb negb]. rewrite U.
  destruct ((8 + Z.of_nat (length pp) <? 8) || (Z.of_nat (length (33 :: 115 :: 107 :: 121 :: b0 :: b1 :: b2 :: b3 :: pp ++ ss)) <? 8 + Z.of_nat (length pp))) eqn:Eo.
  { cbn [length] in Eo. rewrite app_length in Eo. lia. }
  replace (Z.to_nat (8 + Z.of_nat (length pp) - 8)) with (length pp) by lia.
  rewrite firstn_app_exact, skipn_app_exact. rewrite Hpp, Hss.
  replace (o_s o) with ([] ++ o_s o) at 1 by reflexivity.
  rewrite Dv. rewrite Z.eqb_refl. cbn [negb]. unfold rest.
  replace {| d_p := o_p o; d_s := [] ++ o_s o |} with (after o [] []) by (unfold after; rewrite !app_nil_r; reflexivity).
  rewrite D. reflexivity.
Qed.

(* Decoding consumes exactly what encoding wrote: nothing is left over in
   either section, whatever follows. *)
Lemma codec_sections_roundtrip t v :
  wf_ty t = true -> wt t v = true ->
  exists o, enc t v = Ok o /\
    forall p' s', dec t {| d_p := o_p o ++ p'; d_s := o_s o ++ s' |} = Ok (v, {| d_p := p'; d_s := s' |}).
Proof.
  intros W T. destruct (codec_rt_all t W v T) as [o [E [_ D]]]. exists o. split; [exact E|exact D].
Qed.

(* the decoder never builds a sequence longer than its input *)
Lemma dec_elems_length D k d l d' : dec_elems D k d = Ok (l, d') -> length l = k.
Proof.
  revert d l d'. induction k as [|k IH]; intros d l d' H; cbn [dec_elems] in H.
  - injection H as <- _. reflexivity.
  - destruct (D d) as [[x d2]|]; [|discriminate]. fold (dec_elems D) in H.
    destruct (dec_elems D k d2) as [[r d3]|] eqn:E; [|discriminate]. cbn [rmap] in H.
    injection H as <- _. cbn [length]. f_equal. eapply IH. exact E.
Qed.

Lemma dec_list_bounded te d l d' :
  dec (TList te) d = Ok (VList l, d') -> (length l <= length (d_p d))%nat.
Proof.
  cbn [dec]. intros H. destruct (d_int d) as [[n d1]|] eqn:E; [|discriminate].
  destruct (count_ok n d1) eqn:C; [|discriminate].
  destruct (dec_elems (dec te) (Z.to_nat n) d1) as [[l0 d2]|] eqn:E2; [|discriminate].
  cbn [rmap] in H. injection H as <- _.
  apply dec_elems_length in E2. unfold count_ok in C.
  assert (length (d_p d1) <= length (d_p d))%nat.
  { unfold d_int in E. destruct (varint (d_p d)) as [x r| |] eqn:V; try discriminate.
    - injection E as _ <-. cbn [d_p]. unfold varint in V.
      destruct (uvarint (d_p d)) as [ux r'| |] eqn:U; try discriminate. injection V as _ <-.
      apply uvarint_go_rest_shorter in U. lia.
    - injection E as _ <-. lia. }
  lia.
Qed.

(* Re-encoding what was decoded from an encoding is byte-identical. *)
Lemma codec_reencode_identical_lemma :
  forall ver t v bs v',
    in_int64 ver = true -> wf_ty t = true -> wt t v = true ->
    encode_file ver t v = Ok bs -> Z.of_nat (length bs) <= max_uint32 ->
    decode_file ver t bs = Ok v' -> encode_file ver t v' = Ok bs.
Proof.
  intros ver t v bs v' Hv W T E L D.
  destruct (codec_file_roundtrip ver t v Hv W T) as [bs' [E' D']].
  rewrite E in E'. injection E' as <-. rewrite (D' L) in D. injection D as <-. exact E.
Qed.
