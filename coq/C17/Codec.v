(* C17 -- the wire format of internal/compile/serial.go, definitions only.

   Part 1: Go's encoding/binary varints (PutUvarint / PutVarint / Uvarint /
           Varint) over byte lists (a byte is a Z in [0,256)).
   Part 2: a schema-directed codec.  A schema (type [ty]) is an ordered
           description of what is written; [enc] and [dec] interpret it against
           an untyped value tree [val].  Exactly like serial.go there are two
           output sections: the program bytes [p] (only varints) and the string
           section [s] (raw strings, referenced from [p] by their length, in
           lock step).
   Part 3: the file framing: magic "!sky", a 4-byte little-endian uint32 with
           the offset of the string section, the version varint.

   No proofs here (CONVENTIONS: the model must compile alone). *)
From Coq Require Import ZArith Bool String List.
From Coq Require Decimal.
From SV Require Import Common.GoInt.
Import ListNotations.
Open Scope Z_scope.

Definition bytes := list Z.
Definition is_byte (b : Z) : bool := (0 <=? b) && (b <? 256).

(* ------------------------------------------------------------------ *)
(* Part 1: varints                                                      *)

(* binary.PutUvarint:
     i := 0
     for x >= 0x80 { buf[i] = byte(x) | 0x80; x >>= 7; i++ }
     buf[i] = byte(x)
   The loop runs at most 9 times for a uint64; fuel exhaustion is the explicit
   result None (never reached with fuel 10, see Proofs: put_uvarint_total). *)
Fixpoint put_uvarint_go (fuel : nat) (x : Z) : option bytes :=
  match fuel with
  | O => None
  | S f =>
      if x >=? 128
      then match put_uvarint_go f (Z.shiftr x 7) with
           | Some r => Some (Z.lor (wrapu8 x) 128 :: r)
           | None => None
           end
      else Some [wrapu8 x]
  end.
Definition put_uvarint (x : Z) : option bytes := put_uvarint_go 10 x.

(* binary.PutVarint:  ux := uint64(x) << 1; if x < 0 { ux = ^ux } *)
Definition zigzag (x : Z) : Z :=
  let ux := wrapu64 (Z.shiftl (wrapu64 x) 1) in
  if x <? 0 then max_uint64 - ux else ux.
Definition put_varint (x : Z) : option bytes := put_uvarint (zigzag x).

(* binary.Uvarint(buf) returns (value, n): n > 0 bytes read; n == 0 buffer too
   small; n < 0 overflow (more than 10 bytes, or 10th byte > 1). *)
Inductive uv_res :=
| UOk (x : Z) (rest : bytes)   (* value and the unread remainder buf[n:] *)
| UShort                       (* (0, 0)  *)
| UOverflow.                   (* (0, -(i+1)) *)

Fixpoint uvarint_go (i : nat) (x s : Z) (buf : bytes) : uv_res :=
  match buf with
  | [] => UShort
  | b :: r =>
      if Nat.eqb i 10 then UOverflow
      else if b <? 128 then
        if Nat.eqb i 9 && (b >? 1) then UOverflow
        else UOk (Z.lor x (wrapu64 (Z.shiftl b s))) r
      else uvarint_go (S i) (Z.lor x (wrapu64 (Z.shiftl (Z.land b 127) s))) (s + 7) r
  end.
Definition uvarint (buf : bytes) : uv_res := uvarint_go 0 0 0 buf.

(* binary.Varint: x := int64(ux >> 1); if ux&1 != 0 { x = ^x } *)
Definition unzigzag (ux : Z) : Z :=
  let x := wrap64 (Z.shiftr ux 1) in
  if Z.land ux 1 =? 0 then x else - x - 1.
Definition varint (buf : bytes) : uv_res :=
  match uvarint buf with
  | UOk ux rest => UOk (unzigzag ux) rest
  | UShort => UShort
  | UOverflow => UOverflow
  end.

(* ------------------------------------------------------------------ *)
(* Part 2: schema-directed codec                                        *)

Inductive ty :=
| TInt                     (* Go int / int64:  e.int(x)            <->  d.int()          *)
| TI32                     (* int32 field:     e.int(int(x))       <->  int32(d.int())   *)
| TU16                     (* uint16 element:  e.int64(int64(x))   <->  uint16(d.int())  *)
| TU64                     (* uint64:          e.uint64(x)         <->  d.uint64()       *)
| TBool                    (* bool:            e.int(b2i(b))       <->  d.int() != 0     *)
| TStr                     (* string / []byte: e.string / e.bytes  <->  d.string / d.bytes *)
| TBig                     (* *big.Int:        e.string(c.Text(10)) <->  new(big.Int).SetString(d.string(), 10) *)
| TList (elem : ty)        (* e.int(len(l)); for ... { elem }     <->  make([]T, d.count()); for ... *)
| TRec (fields : list (string * ty))   (* fields in wire order, each with the Go field it carries *)
| TUnion (alts : list (string * ty)).  (* e.int(tag); payload     <->  switch d.int() { case tag: ... };
                                          the tag is the position in the list *)

Inductive val :=
| VInt (z : Z)
| VBool (b : bool)
| VStr (s : bytes)
| VBig (z : Z)             (* an arbitrary-precision integer *)
| VList (l : list val)
| VRec (l : list val)
| VAlt (tag : Z) (v : val)
| VNil.                    (* what the decoder's switch leaves for an unknown tag: a nil constant *)

(* big.Int.Text(10): optional '-', then the decimal digits without leading
   zeros ("0" for zero).  Built on the standard library's Z.to_int / Z.of_int
   (Decimal.int is the list of decimal digits). *)
Fixpoint uint_bytes (u : Decimal.uint) : bytes :=
  match u with
  | Decimal.Nil => []
  | Decimal.D0 r => 48 :: uint_bytes r | Decimal.D1 r => 49 :: uint_bytes r | Decimal.D2 r => 50 :: uint_bytes r
  | Decimal.D3 r => 51 :: uint_bytes r | Decimal.D4 r => 52 :: uint_bytes r | Decimal.D5 r => 53 :: uint_bytes r
  | Decimal.D6 r => 54 :: uint_bytes r | Decimal.D7 r => 55 :: uint_bytes r | Decimal.D8 r => 56 :: uint_bytes r
  | Decimal.D9 r => 57 :: uint_bytes r
  end.
Definition print_dec (z : Z) : bytes :=
  match Z.to_int z with
  | Decimal.Pos u => uint_bytes u
  | Decimal.Neg u => 45 :: uint_bytes u
  end.

(* big.Int.SetString(s, 10): optional sign '+' or '-', then one or more decimal
   digits (leading zeros allowed); anything else fails: (nil, false). *)
Fixpoint bytes_uint (bs : bytes) : option Decimal.uint :=
  match bs with
  | [] => Some Decimal.Nil
  | b :: r =>
      match bytes_uint r with
      | None => None
      | Some u =>
          if b =? 48 then Some (Decimal.D0 u) else if b =? 49 then Some (Decimal.D1 u) else if b =? 50 then Some (Decimal.D2 u)
          else if b =? 51 then Some (Decimal.D3 u) else if b =? 52 then Some (Decimal.D4 u) else if b =? 53 then Some (Decimal.D5 u)
          else if b =? 54 then Some (Decimal.D6 u) else if b =? 55 then Some (Decimal.D7 u) else if b =? 56 then Some (Decimal.D8 u)
          else if b =? 57 then Some (Decimal.D9 u) else None
      end
  end.
Definition parse_digits (neg : bool) (bs : bytes) : option Z :=
  match bs with
  | [] => None
  | _ => match bytes_uint bs with
         | Some u => Some (Z.of_int (if neg then Decimal.Neg u else Decimal.Pos u))
         | None => None
         end
  end.
Definition parse_dec (bs : bytes) : option Z :=
  match bs with
  | [] => None
  | b :: r => if b =? 45 then parse_digits true r
              else if b =? 43 then parse_digits false r
              else parse_digits false bs
  end.

Inductive err :=
| EPanic (why : string)    (* a Go run-time panic, turned into an error by DecodeProgram's recover *)
| EFormat (why : string)   (* an error DecodeProgram returns itself *)
| EType (why : string).    (* model only: the value does not have the shape of the schema
                              (cannot happen in Go: the static types rule it out) *)
Inductive result (A : Type) := Ok (a : A) | Err (e : err).
Arguments Ok {A}. Arguments Err {A}.

(* the two output sections *)
Record out := { o_p : bytes; o_s : bytes }.
Definition oapp (a b : out) : out := {| o_p := o_p a ++ o_p b; o_s := o_s a ++ o_s b |}.
Definition onil : out := {| o_p := []; o_s := [] |}.

Definition e_int (x : Z) : result out :=
  match put_varint x with
  | Some b => Ok {| o_p := b; o_s := [] |}
  | None => Err (EType "int out of int64 range")
  end.
Definition e_uint64 (x : Z) : result out :=
  match put_uvarint x with
  | Some b => Ok {| o_p := b; o_s := [] |}
  | None => Err (EType "uint64 out of range")
  end.
(* e.string(s): e.int(len(s)); e.s = append(e.s, s...) *)
Definition e_str (s : bytes) : result out :=
  match e_int (Z.of_nat (length s)) with
  | Ok o => Ok {| o_p := o_p o; o_s := s |}
  | Err e => Err e
  end.

Definition obind (a : result out) (b : result out) : result out :=
  match a with
  | Ok x => match b with Ok y => Ok (oapp x y) | Err e => Err e end
  | Err e => Err e
  end.

Definition enc_elems (E : val -> result out) : list val -> result out :=
  fix go (l : list val) : result out :=
    match l with
    | [] => Ok onil
    | x :: r => obind (E x) (go r)
    end.
Definition enc_fields (E : ty -> val -> result out) : list (string * ty) -> list val -> result out :=
  fix go (fs : list (string * ty)) (l : list val) : result out :=
    match fs, l with
    | [], [] => Ok onil
    | (_, tf) :: fr, x :: r => obind (E tf x) (go fr r)
    | _, _ => Err (EType "record arity")
    end.
Definition enc_alt (E : ty -> val -> result out) (v : val) : list (string * ty) -> nat -> result out :=
  fix pick (alts : list (string * ty)) (k : nat) : result out :=
    match alts, k with
    | (_, ta) :: _, O => E ta v
    | _ :: ar, S k' => pick ar k'
    | [], _ => Err (EType "no such alternative")
    end.

Fixpoint enc (t : ty) (v : val) {struct t} : result out :=
  match t, v with
  | TInt, VInt z => e_int z
  | TI32, VInt z => e_int z
  | TU16, VInt z => e_int z
  | TU64, VInt z => e_uint64 z
  | TBool, VBool b => e_int (if b then 1 else 0)
  | TStr, VStr s => e_str s
  | TBig, VBig z => e_str (print_dec z)
  | TList te, VList l => obind (e_int (Z.of_nat (length l))) (enc_elems (enc te) l)
  | TRec fs, VRec l => enc_fields enc fs l
  | TUnion alts, VAlt tag v =>
      (* the encoder's type switch: emit the tag, then the payload *)
      if tag <? 0 then Err (EType "negative tag")
      else obind (e_int tag) (enc_alt enc v alts (Z.to_nat tag))
  | TUnion _, VNil => Ok onil   (* Encode's type switch matches no case: nothing is written *)
  | _, _ => Err (EType "shape")
  end.

(* decoder state = the two sections still unread *)
Record dst := { d_p : bytes; d_s : bytes }.

(* d.int64(): x, len := binary.Varint(d.p); d.p = d.p[len:]
   len = 0 (buffer exhausted) yields 0 and consumes nothing -- that is what the
   code does; len < 0 makes the slice expression panic. *)
Definition d_int (d : dst) : result (Z * dst) :=
  match varint (d_p d) with
  | UOk x rest => Ok (x, {| d_p := rest; d_s := d_s d |})
  | UShort => Ok (0, d)
  | UOverflow => Err (EPanic "slice bounds out of range (varint overflow)")
  end.
Definition d_uint64 (d : dst) : result (Z * dst) :=
  match uvarint (d_p d) with
  | UOk x rest => Ok (x, {| d_p := rest; d_s := d_s d |})
  | UShort => Ok (0, d)
  | UOverflow => Err (EPanic "slice bounds out of range (varint overflow)")
  end.

(* d.bytes(): len := d.int(); r := d.s[:len:len]; d.s = d.s[len:] *)
Definition d_str (d : dst) : result (bytes * dst) :=
  match d_int d with
  | Err e => Err e
  | Ok (n, d1) =>
      if (n <? 0) || (Z.of_nat (length (d_s d1)) <? n)
      then Err (EPanic "slice bounds out of range (string length)")
      else Ok (firstn (Z.to_nat n) (d_s d1),
               {| d_p := d_p d1; d_s := skipn (Z.to_nat n) (d_s d1) |})
  end.

(* d.count(): n := d.int(); if n < 0 || n > len(d.p) { panic(...) }
   (every element of every sequence occupies at least one byte of d.p) *)
Definition count_ok (n : Z) (d : dst) : bool :=
  negb ((n <? 0) || (Z.of_nat (length (d_p d)) <? n)).

Definition rmap {A B : Type} (f : A -> B) (r : result (A * dst)) : result (B * dst) :=
  match r with Ok (a, d) => Ok (f a, d) | Err e => Err e end.

(* for i := range xs { xs[i] = elem() } with len(xs) = k *)
Definition dec_elems (D : dst -> result (val * dst)) : nat -> dst -> result (list val * dst) :=
  fix go (k : nat) (d : dst) : result (list val * dst) :=
    match k with
    | O => Ok ([], d)
    | S k' =>
        match D d with
        | Err e => Err e
        | Ok (x, d2) => rmap (cons x) (go k' d2)
        end
    end.
Definition dec_fields (D : ty -> dst -> result (val * dst)) : list (string * ty) -> dst -> result (list val * dst) :=
  fix go (fs : list (string * ty)) (d : dst) : result (list val * dst) :=
    match fs with
    | [] => Ok ([], d)
    | (_, tf) :: fr =>
        match D tf d with
        | Err e => Err e
        | Ok (x, d2) => rmap (cons x) (go fr d2)
        end
    end.
Definition dec_alt (D : ty -> dst -> result (val * dst)) (tag : Z) (d : dst) : list (string * ty) -> nat -> result (val * dst) :=
  fix pick (alts : list (string * ty)) (k : nat) : result (val * dst) :=
    match alts, k with
    | (_, ta) :: _, O => rmap (VAlt tag) (D ta d)
    | _ :: ar, S k' => pick ar k'
    | [], _ => Ok (VNil, d)        (* switch: no case matches, c stays nil *)
    end.

Fixpoint dec (t : ty) (d : dst) {struct t} : result (val * dst) :=
  match t with
  | TInt => rmap VInt (d_int d)
  | TI32 => rmap (fun x => VInt (wrap32 x)) (d_int d)
  | TU16 => rmap (fun x => VInt (wrapu16 x)) (d_int d)
  | TU64 => rmap VInt (d_uint64 d)
  | TBool => rmap (fun x => VBool (negb (x =? 0))) (d_int d)
  | TStr => rmap VStr (d_str d)
  | TBig =>   (* c, _ = new(big.Int).SetString(d.string(), 10): on failure c is a nil *big.Int, no error *)
      rmap (fun s => match parse_dec s with Some z => VBig z | None => VNil end) (d_str d)
  | TList te =>
      match d_int d with
      | Err e => Err e
      | Ok (n, d1) =>
          if count_ok n d1 then rmap VList (dec_elems (dec te) (Z.to_nat n) d1)
          else Err (EPanic "invalid sequence length")
      end
  | TRec fs => rmap VRec (dec_fields dec fs d)
  | TUnion alts =>
      match d_int d with
      | Err e => Err e
      | Ok (tag, d1) =>
          if tag <? 0 then Ok (VNil, d1)   (* switch: no case matches, c stays nil *)
          else dec_alt dec tag d1 alts (Z.to_nat tag)
      end
  end.

(* Schemas the decoder's length check is sound for: the elements of every
   sequence occupy at least one byte of the program section. *)
Fixpoint nonempty (t : ty) : bool :=
  match t with
  | TRec fs => (fix any (fs : list (string * ty)) : bool :=
                  match fs with [] => false | (_, tf) :: fr => nonempty tf || any fr end) fs
  | _ => true     (* a varint: at least one byte *)
  end.
Fixpoint wf_ty (t : ty) : bool :=
  match t with
  | TList te => nonempty te && wf_ty te
  | TRec fs => (fix all (fs : list (string * ty)) : bool :=
                  match fs with [] => true | (_, tf) :: fr => wf_ty tf && all fr end) fs
  | TUnion alts => (fix all (fs : list (string * ty)) : bool :=
                      match fs with [] => true | (_, tf) :: fr => wf_ty tf && all fr end) alts
  | _ => true
  end.

(* The values a schema describes, with the ranges of the Go types behind them
   (these are the ranges under which the round trip holds). *)
Definition in_u16 (z : Z) : bool := (0 <=? z) && (z <=? 65535).
Definition wt_fields (W : ty -> val -> bool) : list (string * ty) -> list val -> bool :=
  fix go (fs : list (string * ty)) (l : list val) : bool :=
    match fs, l with
    | [], [] => true
    | (_, tf) :: fr, x :: r => W tf x && go fr r
    | _, _ => false
    end.
Definition wt_alt (W : ty -> val -> bool) (v : val) : list (string * ty) -> nat -> bool :=
  fix pick (alts : list (string * ty)) (k : nat) : bool :=
    match alts, k with
    | (_, ta) :: _, O => W ta v
    | _ :: ar, S k' => pick ar k'
    | [], _ => false
    end.
Fixpoint wt (t : ty) (v : val) {struct t} : bool :=
  match t, v with
  | TInt, VInt z => in_int64 z
  | TI32, VInt z => in_int32 z
  | TU16, VInt z => in_u16 z
  | TU64, VInt z => in_uint64 z
  | TBool, VBool _ => true
  | TStr, VStr s => (Z.of_nat (length s) <=? max_int64) && forallb is_byte s
  | TBig, VBig z => Z.of_nat (length (print_dec z)) <=? max_int64
  | TList te, VList l => (Z.of_nat (length l) <=? max_int64) && forallb (wt te) l
  | TRec fs, VRec l => wt_fields wt fs l
  | TUnion alts, VAlt tag v => (0 <=? tag) && (tag <=? max_int64) && wt_alt wt v alts (Z.to_nat tag)
  | _, _ => false
  end.

(* ------------------------------------------------------------------ *)
(* Part 3: framing                                                      *)

Definition magic : bytes := [33; 115; 107; 121].   (* "!sky" *)

(* binary.LittleEndian.PutUint32(b, uint32(n)) *)
Definition put_u32le (n : Z) : bytes :=
  let v := wrapu32 n in
  [wrapu8 v; wrapu8 (Z.shiftr v 8); wrapu8 (Z.shiftr v 16); wrapu8 (Z.shiftr v 24)].
Definition get_u32le (b0 b1 b2 b3 : Z) : Z :=
  Z.lor (Z.lor (Z.lor b0 (Z.shiftl b1 8)) (Z.shiftl b2 16)) (Z.shiftl b3 24).

(* Program.Encode: magic, "????", version, body...; patch offset := uint32(len(e.p));
   return append(e.p, e.s...) *)
Definition encode_file (version : Z) (t : ty) (v : val) : result bytes :=
  match obind (e_int version) (enc t v) with
  | Err e => Err e
  | Ok o =>
      let plen := 8 + Z.of_nat (length (o_p o)) in
      Ok (magic ++ put_u32le plen ++ o_p o ++ o_s o)
  end.

(* DecodeProgram *)
Definition decode_file (version : Z) (t : ty) (data : bytes) : result val :=
  match data with
  | m0 :: m1 :: m2 :: m3 :: rest =>
      if negb ((m0 =? 33) && (m1 =? 115) && (m2 =? 107) && (m3 =? 121))
      then Err (EFormat "not a compiled module: bad magic number")
      else
        match rest with
        | b0 :: b1 :: b2 :: b3 :: body =>
            let offset := get_u32le b0 b1 b2 b3 in
            (* d.p = data[8:offset]; d.s = data[offset:] *)
            if (offset <? 8) || (Z.of_nat (length data) <? offset)
            then Err (EPanic "slice bounds out of range (string section offset)")
            else
              let np := Z.to_nat (offset - 8) in
              let d := {| d_p := firstn np body; d_s := skipn np body |} in
              match d_int d with
              | Err e => Err e
              | Ok (v, d1) =>
                  if negb (v =? version) then Err (EFormat "version mismatch")
                  else
                    match dec t d1 with
                    | Err e => Err e
                    | Ok (r, d2) =>
                        match d_p d2, d_s d2 with
                        | [], [] => Ok r
                        | _, _ => Err (EFormat "unconsumed data during decoding")
                        end
                    end
              end
        | _ => Err (EPanic "slice bounds out of range (header)")
        end
  | _ => Err (EFormat "not a compiled module: no magic number")
  end.
