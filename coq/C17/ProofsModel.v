(* C17 -- the concrete schema of serial.go: encoder and decoder agree, the schema
   covers the declarations, and programs round-trip. *)
From Coq Require Import ZArith Bool String List Lia.
From Coq Require Import ZifyBool.
From SV Require Import Common.GoInt C17.Codec C17.Prog C17.Model C17.Spec C17.ProofsVarint C17.ProofsCodec.
Import ListNotations.
Open Scope Z_scope.

Lemma schemas_agree_lemma : enc_schema = dec_schema.
Proof. reflexivity. Qed.

Lemma schema_wf_lemma : wf_ty (program_ty enc_schema) = true /\ wf_ty (program_ty dec_schema) = true.
Proof. split; vm_compute; reflexivity. Qed.

(* every declared field is carried by the schema or is one of the three
   deliberately transient ones -- a finite check over the declarations *)
Lemma schema_covers_fields_lemma :
  forall S, S = enc_schema \/ S = dec_schema ->
    (forall f, In f fields_Funcode -> In f fields_not_serialized \/ carries (s_funcode S) f = true) /\
    (forall f, In f fields_Program -> carries (s_program S) f = true) /\
    (forall f, In f fields_Binding -> carries (s_binding S) f = true) /\
    has_name (s_program S) "Toplevel.Pos.Filename" = true.
Proof.
  intros S HS.
  assert (A : covers (s_funcode S) fields_Funcode = true /\
              forallb (carries (s_program S)) fields_Program = true /\
              forallb (carries (s_binding S)) fields_Binding = true /\
              has_name (s_program S) "Toplevel.Pos.Filename" = true)
    by (destruct HS; subst S; vm_compute; repeat split).
  destruct A as [A [B [C D]]].
  split; [|split; [|split; [|exact D]]].
  - intros f Hf. unfold covers in A. rewrite forallb_forall in A. specialize (A f Hf).
    apply orb_true_iff in A. destruct A as [A|A]; [left|right; exact A].
    apply existsb_exists in A. destruct A as [x [Hx E]]. apply String.eqb_eq in E. subst x. exact Hx.
  - intros f Hf. rewrite forallb_forall in B. exact (B f Hf).
  - intros f Hf. rewrite forallb_forall in C. exact (C f Hf).
Qed.

(* --- Go data -> value tree is well-typed ------------------------------- *)
Ltac break_and :=
  repeat match goal with
         | H : _ && _ = true |- _ => apply andb_true_iff in H; destruct H
         end.
Ltac split_and := repeat match goal with |- _ && _ = true => apply andb_true_iff; split end.

Lemma forallb_map_true {A B} (f : A -> B) (g : B -> bool) (h : A -> bool) l :
  (forall x, h x = true -> g (f x) = true) -> forallb h l = true -> forallb g (map f l) = true.
Proof.
  intros Hgh. induction l as [|x r IH]; intros H; [reflexivity|].
  cbn [forallb map] in *. apply andb_true_iff in H. destruct H as [Hx Hr].
  apply andb_true_iff. split; [apply Hgh; exact Hx|apply IH; exact Hr].
Qed.

Lemma wt_rec_cons n t fs x l :
  wt (TRec ((n, t) :: fs)) (VRec (x :: l)) = wt t x && wt (TRec fs) (VRec l).
Proof. reflexivity. Qed.
Lemma wt_rec_nil : wt (TRec []) (VRec []) = true.
Proof. reflexivity. Qed.
Lemma wt_list te l : wt (TList te) (VList l) = (Z.of_nat (length l) <=? max_int64) && forallb (wt te) l.
Proof. reflexivity. Qed.
Lemma wt_str_val s : wt_str s = true -> wt TStr (VStr s) = true.
Proof. intros H. exact H. Qed.

Lemma wt_binding_val b :
  wt_binding b = true -> wt (TRec enc_binding) (rec_val binding_get enc_binding b) = true.
Proof.
  unfold wt_binding. intros H. break_and.
  unfold rec_val, enc_binding. cbn [map fst binding_get String.eqb Ascii.eqb Bool.eqb].
  rewrite !wt_rec_cons, wt_rec_nil. split_and; try assumption; try reflexivity;
    try (apply wt_str_val; assumption).
Qed.

Lemma wt_bindings_val l :
  wt_len l = true -> forallb wt_binding l = true ->
  wt (TList (TRec enc_binding)) (bindings_val enc_schema l) = true.
Proof.
  unfold wt_len, bindings_val. intros HL HF. rewrite wt_list. cbn [s_binding enc_schema].
  rewrite map_length. apply andb_true_iff. split; [exact HL|].
  apply forallb_map_true with (h := wt_binding); [apply wt_binding_val|exact HF].
Qed.

Lemma wt_ints_val (g : Z -> bool) te l :
  (forall z, g z = true -> wt te (VInt z) = true) ->
  wt_len l = true -> forallb g l = true -> wt (TList te) (VList (map VInt l)) = true.
Proof.
  unfold wt_len. intros Hg HL HF. rewrite wt_list. rewrite map_length.
  apply andb_true_iff. split; [exact HL|].
  apply forallb_map_true with (h := g); assumption.
Qed.

Lemma wt_funcode_val f :
  wt_funcode f = true -> wt (TRec enc_funcode) (rec_val (funcode_get enc_schema) enc_funcode f) = true.
Proof.
  unfold wt_funcode. intros H. break_and.
  unfold rec_val, enc_funcode. cbn [map fst funcode_get String.eqb Ascii.eqb Bool.eqb].
  rewrite !wt_rec_cons, wt_rec_nil.
  split_and; try assumption; try reflexivity; try (apply wt_str_val; assumption);
    try (apply wt_bindings_val; assumption).
  - apply wt_ints_val with (g := in_u16); [intros z Hz; exact Hz|assumption|assumption].
  - apply wt_ints_val with (g := in_int64); [intros z Hz; exact Hz|assumption|assumption].
Qed.

Lemma wt_const_val c :
  wt_const c = true -> wt (TUnion enc_const) (const_val enc_schema c) = true.
Proof.
  destruct c; unfold wt_const; intros H; break_and; cbn; try assumption;
    try (split_and; assumption).
Qed.

Lemma wt_program_val p :
  wt_program p = true -> wt (program_ty enc_schema) (program_val enc_schema p) = true.
Proof.
  unfold wt_program. intros H. break_and.
  unfold program_ty, program_val, rec_val. cbn [s_program enc_schema].
  unfold enc_program at 2. cbn [map fst program_get String.eqb Ascii.eqb Bool.eqb].
  unfold enc_program. rewrite !wt_rec_cons, wt_rec_nil. cbn [s_funcode enc_schema].
  split_and; try assumption; try reflexivity; try (apply wt_str_val; assumption);
    try (apply wt_bindings_val; assumption); try (apply wt_funcode_val; assumption).
  - rewrite wt_list. unfold wt_len in *. rewrite map_length. apply andb_true_iff. split; [assumption|].
    apply forallb_map_true with (h := wt_str); [|assumption]. apply wt_str_val.
  - rewrite wt_list. unfold wt_len in *. rewrite map_length. apply andb_true_iff. split; [assumption|].
    apply forallb_map_true with (h := wt_const); [|assumption]. apply wt_const_val.
  - rewrite wt_list. unfold wt_len in *. rewrite map_length. apply andb_true_iff. split; [assumption|].
    apply forallb_map_true with (h := wt_funcode); [|assumption]. apply wt_funcode_val.
Qed.

(* --- value tree -> Go data inverts Go data -> value tree ---------------- *)
Lemma all_some_map {A B} (f : A -> B) (g : B -> option A) l :
  (forall x, g (f x) = Some x) -> all_some g (map f l) = Some l.
Proof.
  intros H. induction l as [|x r IH]; [reflexivity|].
  cbn [map all_some]. rewrite H, IH. reflexivity.
Qed.

Lemma binding_of_val b : binding_of dec_schema (rec_val binding_get (s_binding enc_schema) b) = Some b.
Proof. destruct b. reflexivity. Qed.

Lemma bindings_of_val l :
  bindings_of dec_schema (map (rec_val binding_get (s_binding enc_schema)) l) = Some l.
Proof. apply all_some_map. apply binding_of_val. Qed.

Lemma as_int_map l : all_some as_int (map VInt l) = Some l.
Proof. apply all_some_map. reflexivity. Qed.
Lemma as_str_map l : all_some as_str (map VStr l) = Some l.
Proof. apply all_some_map. reflexivity. Qed.

Lemma funcode_of_val f :
  funcode_of dec_schema (rec_val (funcode_get enc_schema) (s_funcode enc_schema) f) = Some f.
Proof.
  destruct f. unfold rec_val. cbn [s_funcode enc_schema]. unfold enc_funcode at 1.
  cbn [map fst funcode_get String.eqb Ascii.eqb Bool.eqb].
  cbn -[String.eqb map bindings_val all_some bindings_of].
  unfold funcode_of. cbn [s_funcode dec_schema]. unfold dec_funcode.
  cbn [get_str get_int get_bool get_list lookup String.eqb Ascii.eqb Bool.eqb obnd].
  unfold bindings_val.
  repeat first [rewrite as_int_map | rewrite bindings_of_val | progress cbn [obnd]].
  reflexivity.
Qed.

Lemma const_of_val c : const_of dec_schema (const_val enc_schema c) = Some c.
Proof. destruct c; reflexivity. Qed.

Lemma program_of_val p : program_of dec_schema (program_val enc_schema p) = Some p.
Proof.
  destruct p. unfold program_val, rec_val. cbn [s_program enc_schema]. unfold enc_program at 1.
  cbn [map fst program_get String.eqb Ascii.eqb Bool.eqb].
  unfold program_of. cbn [s_program dec_schema]. unfold dec_program.
  cbn [get_str get_int get_bool get_list lookup String.eqb Ascii.eqb Bool.eqb obnd].
  unfold bindings_val.
  repeat first [ rewrite bindings_of_val | rewrite as_str_map
               | rewrite (all_some_map (const_val enc_schema) (const_of dec_schema)) by apply const_of_val
               | rewrite funcode_of_val
               | rewrite (all_some_map (rec_val (funcode_get enc_schema) (s_funcode enc_schema)) (funcode_of dec_schema)) by apply funcode_of_val
               | progress cbn [obnd] ].
  reflexivity.
Qed.

(* --- programs round-trip ------------------------------------------------ *)
Lemma version_ok : in_int64 version = true.
Proof. reflexivity. Qed.

Lemma serial_roundtrip_lemma :
  forall p, wt_program p = true ->
    exists bs, encode_program p = Ok bs /\
      (Z.of_nat (length bs) <= max_uint32 -> decode_program bs = DProgram p).
Proof.
  intros p H.
  destruct (codec_file_roundtrip version (program_ty enc_schema) (program_val enc_schema p)
              version_ok (proj1 schema_wf_lemma) (wt_program_val p H)) as [bs [E D]].
  exists bs. split; [exact E|]. intros L. unfold decode_program.
  rewrite <- schemas_agree_lemma at 1. rewrite (D L). rewrite program_of_val. reflexivity.
Qed.

Lemma serial_rewrite_identical_lemma :
  forall p bs q, wt_program p = true -> encode_program p = Ok bs ->
    Z.of_nat (length bs) <= max_uint32 ->
    decode_program bs = DProgram q -> q = p /\ encode_program q = Ok bs.
Proof.
  intros p bs q H E L D.
  destruct (serial_roundtrip_lemma p H) as [bs' [E' D']].
  rewrite E in E'. injection E' as <-. rewrite (D' L) in D. injection D as <-.
  split; [reflexivity|exact E].
Qed.
