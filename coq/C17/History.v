(* C17 -- history: the decoder before /repo commit d6a6a46
   ("fix: internal/compile: DecodeProgram rejects sequence lengths larger than
   the remaining input").

   Before the fix every sequence was allocated as make([]T, d.int()): the only
   lengths rejected were the negative ones (makeslice panics, recovered).  A
   35-byte file whose first sequence length (the number of load bindings) is
   1<<40 therefore made DecodeProgram allocate 2^40 bindings (32 TiB): an
   unrecoverable `fatal error: runtime: out of memory`, found by bin/check C17
   (finding key decode:fatal:huge-length).  This file is about a frozen copy of
   the old length check, not about /repo. *)
From Coq Require Import ZArith Bool String List Lia.
From SV Require Import Common.GoInt C17.Codec C17.Prog C17.Model.
Import ListNotations.
Open Scope Z_scope.

(* the old check: make([]T, n) panics (recoverably) only for n < 0 *)
Definition old_count_ok (n : Z) (d : dst) : bool := negb (n <? 0).

(* the witness found by the check: magic, offset 35, version 14, filename "",
   then the varint 1<<40 where the number of loads is expected, then zeros *)
Definition huge_count_file : bytes :=
  [33;115;107;121; 35;0;0;0; 28; 0; 128;128;128;128;128;64;
   0;0;0;0;0;0;0;0;0;0;0;0;0;0;0;0;0;0;0].

(* decoder state when the first sequence length is about to be read *)
Definition at_first_count : option (Z * dst) :=
  let body := skipn 8 huge_count_file in
  match d_int {| d_p := body; d_s := [] |} with
  | Ok (_, d1) => match dec TStr d1 with
                  | Ok (_, d2) => match d_int d2 with Ok r => Some r | Err _ => None end
                  | Err _ => None
                  end
  | Err _ => None
  end.

(* The old decoder accepted the length 2^40 with 19 bytes of input left, and
   went on to allocate and fill 2^40 elements; the repaired decoder rejects the
   file with an ordinary error. *)
Theorem old_decoder_unbounded_allocation_refuted :
  exists n d,
    length huge_count_file = 35%nat /\
    at_first_count = Some (n, d) /\ n = 2 ^ 40 /\ length (d_p d) = 19%nat /\
    old_count_ok n d = true /\
    count_ok n d = false /\
    decode_program huge_count_file = DError (EPanic "invalid sequence length").
Proof.
  eexists. eexists. vm_compute. repeat split; reflexivity.
Qed.
