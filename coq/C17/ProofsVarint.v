(* C17 -- varint round trips (Go encoding/binary), for all uint64 / int64. *)
From Coq Require Import ZArith Bool List Lia.
From Coq Require Import ZifyBool.
From SV Require Import Common.GoInt C17.Codec.
Import ListNotations.
Open Scope Z_scope.

Ltac Zify.zify_post_hook ::= Z.div_mod_to_equations.

Definition in_u64 (x : Z) : Prop := 0 <= x < 18446744073709551616.
Definition in_i64 (x : Z) : Prop := -9223372036854775808 <= x < 9223372036854775808.

(* --- bit operations as arithmetic ---------------------------------- *)

Lemma lor_disjoint_add acc y s :
  0 <= s -> 0 <= acc < 2 ^ s -> Z.lor acc (y * 2 ^ s) = acc + y * 2 ^ s.
Proof.
  intros Hs Hacc.
  assert (Hl : Z.land acc (y * 2 ^ s) = 0).
  { apply Z.bits_inj'. intros n Hn. rewrite Z.land_spec, Z.bits_0.
    destruct (Z_lt_dec n s) as [L|G].
    - rewrite Z.mul_pow2_bits_low by lia. apply andb_false_r.
    - replace acc with (acc mod 2 ^ s) by (apply Z.mod_small; lia).
      rewrite Z.mod_pow2_bits_high by lia. reflexivity. }
  rewrite (Z.add_nocarry_lxor _ _ Hl). symmetry. apply Z.lxor_lor. exact Hl.
Qed.

Lemma byte_range_in y : 0 <= y < 256 -> In y (map Z.of_nat (seq 0 256)).
Proof.
  intros H. replace y with (Z.of_nat (Z.to_nat y)) by lia.
  apply in_map. apply in_seq. lia.
Qed.

Lemma lor128_byte y : 0 <= y < 256 -> Z.lor y 128 = y mod 128 + 128.
Proof.
  intros H.
  assert (A : forallb (fun y => Z.lor y 128 =? y mod 128 + 128) (map Z.of_nat (seq 0 256)) = true)
    by (vm_compute; reflexivity).
  rewrite forallb_forall in A. specialize (A y (byte_range_in y H)).
  apply Z.eqb_eq in A. exact A.
Qed.

Lemma cont_byte x : 0 <= x -> Z.lor (wrapu8 x) 128 = x mod 128 + 128.
Proof.
  intros H. unfold wrapu8. rewrite lor128_byte by (apply Z.mod_pos_bound; lia). lia.
Qed.

Lemma land127 b : Z.land b 127 = b mod 128.
Proof. change 127 with (Z.ones 7). rewrite Z.land_ones by lia. reflexivity. Qed.

Lemma shiftr7 x : Z.shiftr x 7 = x / 128.
Proof. rewrite Z.shiftr_div_pow2 by lia. reflexivity. Qed.

Lemma put_uvarint_go_S f x :
  put_uvarint_go (S f) x =
  if x >=? 128
  then match put_uvarint_go f (Z.shiftr x 7) with
       | Some r => Some (Z.lor (wrapu8 x) 128 :: r)
       | None => None
       end
  else Some [wrapu8 x].
Proof. reflexivity. Qed.

(* --- the loop invariant --------------------------------------------- *)
(* Decoding state after i continuation bytes: s = 7 i, acc < 2^s; the encoder
   still has x to write, and x * 2^s < 2^64. *)
Lemma uvarint_go_roundtrip :
  forall f i x acc,
    (i + S f = 10)%nat ->
    0 <= x -> x * 2 ^ (7 * Z.of_nat i) < 18446744073709551616 ->
    0 <= acc < 2 ^ (7 * Z.of_nat i) ->
    exists bs, put_uvarint_go (S f) x = Some bs /\
      forall rest, uvarint_go i acc (7 * Z.of_nat i) (bs ++ rest)
                   = UOk (acc + x * 2 ^ (7 * Z.of_nat i)) rest.
Proof.
  induction f as [|f IH]; intros i x acc Hi Hx Hxs Hacc.
  - (* last byte: i = 9 *)
    assert (i = 9%nat) by lia. subst i.
    change (2 ^ (7 * Z.of_nat 9)) with 9223372036854775808 in *.
    change (7 * Z.of_nat 9) with 63 in *.
    assert (x < 2) by lia.
    rewrite put_uvarint_go_S. destruct (x >=? 128) eqn:E; [lia|].
    eexists; split; [reflexivity|]. intros rest.
    cbn [app uvarint_go Nat.eqb andb].
    unfold wrapu8. rewrite (Z.mod_small x 256) by lia.
    destruct (x <? 128) eqn:E1; [|lia].
    destruct (x >? 1) eqn:E2; [lia|].
    rewrite Z.shiftl_mul_pow2 by lia.
    change (2 ^ 63) with 9223372036854775808.
    unfold wrapu64. rewrite Z.mod_small by lia.
    change 9223372036854775808 with (2 ^ 63).
    rewrite lor_disjoint_add by lia. reflexivity.
  - set (s := 7 * Z.of_nat i) in *.
    assert (Hs : 0 <= s) by lia.
    assert (HP : 0 < 2 ^ s) by (apply Z.pow_pos_nonneg; lia).
    assert (Hnext : 7 * Z.of_nat (S i) = s + 7) by lia.
    assert (HPn : 2 ^ (s + 7) = 2 ^ s * 128) by (rewrite Z.pow_add_r by lia; reflexivity).
    assert (Hi10 : Nat.eqb i 10 = false) by (apply Nat.eqb_neq; lia).
    assert (Hi9 : Nat.eqb i 9 = false) by (apply Nat.eqb_neq; lia).
    rewrite put_uvarint_go_S. destruct (x >=? 128) eqn:E.
    + (* continuation byte *)
      assert (Hq : 0 <= x / 128) by (apply Z.div_pos; lia).
      assert (Hqm : x = 128 * (x / 128) + x mod 128) by (apply Z.div_mod; lia).
      assert (Hr : 0 <= x mod 128 < 128) by (apply Z.mod_pos_bound; lia).
      destruct (IH (S i) (x / 128) (acc + (x mod 128) * 2 ^ s)) as [bs [Hbs Hdec]].
      * lia.
      * exact Hq.
      * rewrite Hnext, HPn. nia.
      * rewrite Hnext, HPn. nia.
      * rewrite shiftr7. rewrite Hbs. eexists; split; [reflexivity|]. intros rest.
        cbn [app uvarint_go]. rewrite Hi10.
        rewrite cont_byte by lia.
        destruct (x mod 128 + 128 <? 128) eqn:E1; [lia|].
        rewrite land127.
        replace ((x mod 128 + 128) mod 128) with (x mod 128) by lia.
        rewrite Z.shiftl_mul_pow2 by lia.
        unfold wrapu64. rewrite (Z.mod_small (x mod 128 * 2 ^ s)) by nia.
        rewrite lor_disjoint_add by lia.
        replace (s + 7) with (7 * Z.of_nat (S i)) by lia.
        rewrite Hdec. rewrite Hnext, HPn. f_equal. nia.
    + (* final byte *)
      eexists; split; [reflexivity|]. intros rest.
      cbn [app uvarint_go]. rewrite Hi10, Hi9. cbn [andb].
      unfold wrapu8. rewrite (Z.mod_small x 256) by lia.
      destruct (x <? 128) eqn:E1; [|lia].
      rewrite Z.shiftl_mul_pow2 by lia.
      unfold wrapu64. rewrite Z.mod_small by lia.
      rewrite lor_disjoint_add by lia. reflexivity.
Qed.

(* PutUvarint then Uvarint, for every uint64, with arbitrary trailing bytes. *)
Lemma uvarint_roundtrip_lemma :
  forall x, in_u64 x ->
    exists bs, put_uvarint x = Some bs /\ forall rest, uvarint (bs ++ rest) = UOk x rest.
Proof.
  intros x [H0 H1]. unfold put_uvarint, uvarint.
  assert (P1 : 2 ^ (7 * Z.of_nat 0) = 1) by reflexivity.
  destruct (uvarint_go_roundtrip 9 0 x 0) as [bs [Hb Hd]].
  - reflexivity.
  - exact H0.
  - rewrite P1. lia.
  - rewrite P1. lia.
  - exists bs. split; [exact Hb|]. intros rest. specialize (Hd rest).
    rewrite P1 in Hd. change (7 * Z.of_nat 0) with 0 in Hd.
    rewrite Hd. f_equal. lia.
Qed.

(* --- zig-zag ---------------------------------------------------------- *)
Lemma zigzag_range x : in_i64 x -> in_u64 (zigzag x).
Proof.
  intros [H0 H1]. unfold zigzag, in_u64, wrapu64, max_uint64.
  rewrite Z.shiftl_mul_pow2 by lia. change (2 ^ 1) with 2.
  destruct (x <? 0) eqn:E; lia.
Qed.

Lemma zigzag_value x : in_i64 x -> zigzag x = if x <? 0 then - 2 * x - 1 else 2 * x.
Proof.
  intros [H0 H1]. unfold zigzag, wrapu64, max_uint64.
  rewrite Z.shiftl_mul_pow2 by lia. change (2 ^ 1) with 2.
  destruct (x <? 0) eqn:E; lia.
Qed.

Lemma land1 u : Z.land u 1 = u mod 2.
Proof. change 1 with (Z.ones 1). rewrite Z.land_ones by lia. reflexivity. Qed.

Lemma unzigzag_zigzag x : in_i64 x -> unzigzag (zigzag x) = x.
Proof.
  intros H. rewrite zigzag_value by exact H. destruct H as [H0 H1].
  unfold unzigzag. rewrite land1. rewrite Z.shiftr_div_pow2 by lia. change (2 ^ 1) with 2.
  unfold wrap64.
  destruct (x <? 0) eqn:E.
  - destruct ((- 2 * x - 1) mod 2 =? 0) eqn:E2; lia.
  - destruct ((2 * x) mod 2 =? 0) eqn:E2; lia.
Qed.

(* PutVarint then Varint, for every int64. *)
Lemma varint_roundtrip_lemma :
  forall x, in_i64 x ->
    exists bs, put_varint x = Some bs /\ forall rest, varint (bs ++ rest) = UOk x rest.
Proof.
  intros x H. unfold put_varint, varint.
  destruct (uvarint_roundtrip_lemma (zigzag x) (zigzag_range x H)) as [bs [Hb Hd]].
  exists bs. split; [exact Hb|]. intros rest. rewrite Hd.
  rewrite unzigzag_zigzag by exact H. reflexivity.
Qed.

(* --- error results of the decoder ------------------------------------- *)
(* a buffer that ends inside a varint (all bytes have the continuation bit) and
   is at most 10 bytes long: (0, 0) "buffer too small" *)
Lemma uvarint_go_truncated :
  forall buf i x s,
    Forall (fun b => 128 <= b) buf -> (i + length buf <= 10)%nat ->
    uvarint_go i x s buf = UShort.
Proof.
  induction buf as [|b r IH]; intros i x s HF HL; [reflexivity|].
  inversion HF as [|? ? Hb Hr]; subst. cbn [length] in HL. cbn [uvarint_go].
  assert (E : Nat.eqb i 10 = false) by (apply Nat.eqb_neq; lia). rewrite E.
  destruct (b <? 128) eqn:E1; [lia|]. apply IH; [exact Hr|lia].
Qed.

Lemma uvarint_truncated_lemma :
  forall buf, Forall (fun b => 128 <= b) buf -> (length buf <= 10)%nat -> uvarint buf = UShort.
Proof. intros. apply uvarint_go_truncated; [assumption|lia]. Qed.

(* more than ten bytes with the continuation bit: overflow *)
Lemma uvarint_go_overlong :
  forall pre i x s rest,
    Forall (fun b => 128 <= b) pre -> (i + length pre = 10)%nat ->
    forall b, uvarint_go i x s (pre ++ b :: rest) = UOverflow.
Proof.
  induction pre as [|c r IH]; intros i x s rest HF HL b.
  - cbn [length] in HL. assert (i = 10%nat) by lia. subst i. reflexivity.
  - inversion HF as [|? ? Hb Hr]; subst. cbn [length] in HL. cbn [app uvarint_go].
    assert (E : Nat.eqb i 10 = false) by (apply Nat.eqb_neq; lia). rewrite E.
    destruct (c <? 128) eqn:E1; [lia|]. apply IH; [exact Hr|lia].
Qed.

Lemma uvarint_overlong_lemma :
  forall pre b rest, Forall (fun b => 128 <= b) pre -> length pre = 10%nat ->
    uvarint (pre ++ b :: rest) = UOverflow.
Proof. intros. apply uvarint_go_overlong; [assumption|lia]. Qed.

(* nine continuation bytes and a tenth byte in 2..127: the value needs more than 64 bits *)
Lemma uvarint_go_tenth_byte :
  forall pre i x s b rest,
    Forall (fun b => 128 <= b) pre -> (i + length pre = 9)%nat -> 1 < b < 128 ->
    uvarint_go i x s (pre ++ b :: rest) = UOverflow.
Proof.
  induction pre as [|c r IH]; intros i x s b rest HF HL Hb.
  - cbn [length] in HL. assert (i = 9%nat) by lia. subst i. cbn [app uvarint_go Nat.eqb].
    destruct (b <? 128) eqn:E1; [|lia]. destruct (b >? 1) eqn:E2; [reflexivity|lia].
  - inversion HF as [|? ? Hc Hr]; subst. cbn [length] in HL. cbn [app uvarint_go].
    assert (E : Nat.eqb i 10 = false) by (apply Nat.eqb_neq; lia). rewrite E.
    destruct (c <? 128) eqn:E1; [lia|]. apply IH; [exact Hr|lia|exact Hb].
Qed.

Lemma uvarint_tenth_byte_lemma :
  forall pre b rest, Forall (fun b => 128 <= b) pre -> length pre = 9%nat -> 1 < b < 128 ->
    uvarint (pre ++ b :: rest) = UOverflow.
Proof. intros. apply uvarint_go_tenth_byte; [assumption|lia|assumption]. Qed.

(* --- output is bytes, of length 1..10 --------------------------------- *)
Lemma put_uvarint_go_bytes :
  forall f x bs, 0 <= x -> put_uvarint_go f x = Some bs ->
    Forall (fun b => is_byte b = true) bs /\ (1 <= length bs <= f)%nat.
Proof.
  induction f as [|f IH]; intros x bs Hx H; [discriminate|].
  rewrite put_uvarint_go_S in H. destruct (x >=? 128) eqn:E.
  - destruct (put_uvarint_go f (Z.shiftr x 7)) as [r|] eqn:Er; [|discriminate].
    injection H as <-. rewrite shiftr7 in Er.
    destruct (IH (x / 128) r) as [A B]; [apply Z.div_pos; lia|exact Er|].
    split.
    + constructor; [|exact A]. rewrite cont_byte by lia. unfold is_byte. lia.
    + cbn [length]. lia.
  - injection H as <-. split.
    + constructor; [|constructor]. unfold is_byte, wrapu8. lia.
    + cbn [length]. lia.
Qed.

(* a successful read consumes at least one byte *)
Lemma uvarint_go_rest_shorter :
  forall buf i x s ux r, uvarint_go i x s buf = UOk ux r -> (length r < length buf)%nat.
Proof.
  induction buf as [|b rr IH]; intros i x s ux r U; [discriminate|].
  cbn [uvarint_go] in U. destruct (Nat.eqb i 10); [discriminate|].
  destruct (b <? 128).
  - destruct (Nat.eqb i 9 && (b >? 1)); [discriminate|]. injection U as _ <-. cbn [length]. lia.
  - apply IH in U. cbn [length]. lia.
Qed.
