(* C17 -- model of internal/compile/serial.go on top of the generic codec.

   The schema of Program / Funcode / Binding / constants is written TWICE:
     enc_*  mirrors the ENCODER  (Program.Encode, encoder.function, encoder.binding(s)),
     dec_*  mirrors the DECODER  (DecodeProgram, decoder.function, decoder.binding(s))
   each in the order in which that function writes / reads, each entry naming
   the Go field (or expression) it carries.  Properties.schemas_agree states
   that the two are equal.

   [program] is the Coq image of compile.Program with every field of Program
   and Funcode except the Prog back-pointer (re-established by DecodeProgram)
   and the transient lnt / lntOnce (derived from pclinetab on demand).
   Strings are byte lists (Go strings are arbitrary bytes, not UTF-8). *)
From Coq Require Import ZArith Bool String List.
From SV Require Import Common.GoInt C17.Codec C17.Prog.
Import ListNotations.
Open Scope string_scope.
Open Scope Z_scope.
Notation "a =s b" := (String.eqb a b) (at level 70).

(* compile.Version *)
Definition version : Z := 14.

(* ---------------------------------------------------------------- *)
(* The encoder, in the order of the statements of serial.go          *)

(* func (e *encoder) binding(bind Binding):
     e.string(bind.Name); e.int(int(bind.Pos.Line)); e.int(int(bind.Pos.Col)) *)
Definition enc_binding : list (string * ty) :=
  [ ("Name", TStr); ("Pos.Line", TI32); ("Pos.Col", TI32) ].

(* func (e *encoder) function(fn *Funcode) *)
Definition enc_funcode : list (string * ty) :=
  [ ("Name", TStr); ("Pos.Line", TI32); ("Pos.Col", TI32)   (* e.binding(Binding{fn.Name, fn.Pos}) *)
  ; ("Doc", TStr)                                            (* e.string(fn.Doc) *)
  ; ("Code", TStr)                                           (* e.bytes(fn.Code) *)
  ; ("pclinetab", TList TU16)                                (* e.int(len(fn.pclinetab)); e.int64(int64(x)) each *)
  ; ("Locals", TList (TRec enc_binding))                     (* e.bindings(fn.Locals) *)
  ; ("Cells", TList TInt)                                    (* e.int(len(fn.Cells)); e.int(index) each *)
  ; ("FreeVars", TList (TRec enc_binding))                   (* e.bindings(fn.FreeVars) *)
  ; ("MaxStack", TInt)                                       (* e.int(fn.MaxStack) *)
  ; ("NumParams", TInt)                                      (* e.int(fn.NumParams) *)
  ; ("NumKwonlyParams", TInt)                                (* e.int(fn.NumKwonlyParams) *)
  ; ("HasVarargs", TBool)                                    (* e.int(b2i(fn.HasVarargs)) *)
  ; ("HasKwargs", TBool) ].                                  (* e.int(b2i(fn.HasKwargs)) *)

(* the type switch in Program.Encode; the position in the list is the tag written *)
Definition enc_const : list (string * ty) :=
  [ ("string", TStr)               (* case string:   e.int(0); e.string(c) *)
  ; ("Bytes", TStr)                (* case Bytes:    e.int(1); e.string(string(c)) *)
  ; ("int64", TInt)                (* case int64:    e.int(2); e.int64(c) *)
  ; ("float64bits", TU64)          (* case float64:  e.int(3); e.uint64(math.Float64bits(c)) *)
  ; ("bigint.Text10", TBig) ].     (* case *big.Int: e.int(4); e.string(c.Text(10)) *)

(* func (prog *Program) Encode(), after magic, offset and e.int(Version) *)
Definition enc_program : list (string * ty) :=
  [ ("Toplevel.Pos.Filename", TStr)                          (* e.string(prog.Toplevel.Pos.Filename()) *)
  ; ("Loads", TList (TRec enc_binding))                      (* e.bindings(prog.Loads) *)
  ; ("Names", TList TStr)                                    (* e.int(len(prog.Names)); e.string(name) each *)
  ; ("Constants", TList (TUnion enc_const))                  (* e.int(len(prog.Constants)); switch each *)
  ; ("Globals", TList (TRec enc_binding))                    (* e.bindings(prog.Globals) *)
  ; ("Toplevel", TRec enc_funcode)                           (* e.function(prog.Toplevel) *)
  ; ("Functions", TList (TRec enc_funcode))                  (* e.int(len(prog.Functions)); e.function(fn) each *)
  ; ("Recursion", TBool) ].                                  (* e.int(b2i(prog.Recursion)) *)

(* ---------------------------------------------------------------- *)
(* The decoder, in the order of the statements of serial.go          *)

(* func (d *decoder) binding() Binding:
     name := d.string(); line := int32(d.int()); col := int32(d.int())
     return Binding{Name: name, Pos: syntax.MakePosition(d.filename, line, col)} *)
Definition dec_binding : list (string * ty) :=
  [ ("Name", TStr); ("Pos.Line", TI32); ("Pos.Col", TI32) ].

(* func (d *decoder) function() *Funcode; names from the composite literal *)
Definition dec_funcode : list (string * ty) :=
  [ ("Name", TStr); ("Pos.Line", TI32); ("Pos.Col", TI32)   (* id := d.binding(); Pos: id.Pos, Name: id.Name *)
  ; ("Doc", TStr)                                            (* doc := d.string() *)
  ; ("Code", TStr)                                           (* code := d.bytes() *)
  ; ("pclinetab", TList TU16)                                (* make([]uint16, d.int()); uint16(d.int()) each *)
  ; ("Locals", TList (TRec dec_binding))                     (* locals := d.bindings() *)
  ; ("Cells", TList TInt)                                    (* cells := d.ints() *)
  ; ("FreeVars", TList (TRec dec_binding))                   (* freevars := d.bindings() *)
  ; ("MaxStack", TInt)                                       (* maxStack := d.int() *)
  ; ("NumParams", TInt)                                      (* numParams := d.int() *)
  ; ("NumKwonlyParams", TInt)                                (* numKwonlyParams := d.int() *)
  ; ("HasVarargs", TBool)                                    (* hasVarargs := d.int() != 0 *)
  ; ("HasKwargs", TBool) ].                                  (* hasKwargs := d.int() != 0 *)

(* switch d.int() in DecodeProgram *)
Definition dec_const : list (string * ty) :=
  [ ("string", TStr)               (* case 0: c = d.string() *)
  ; ("Bytes", TStr)                (* case 1: c = Bytes(d.string()) *)
  ; ("int64", TInt)                (* case 2: c = d.int64() *)
  ; ("float64bits", TU64)          (* case 3: c = math.Float64frombits(d.uint64()) *)
  ; ("bigint.Text10", TBig) ].     (* case 4: c, _ = new(big.Int).SetString(d.string(), 10) *)

(* DecodeProgram after the magic, offset and version checks *)
Definition dec_program : list (string * ty) :=
  [ ("Toplevel.Pos.Filename", TStr)                          (* filename := d.string(); d.filename = &filename *)
  ; ("Loads", TList (TRec dec_binding))                      (* loads := d.bindings() *)
  ; ("Names", TList TStr)                                    (* names := make([]string, d.int()); d.string() each *)
  ; ("Constants", TList (TUnion dec_const))                  (* constants := make([]any, d.int()); switch each *)
  ; ("Globals", TList (TRec dec_binding))                    (* globals := d.bindings() *)
  ; ("Toplevel", TRec dec_funcode)                           (* toplevel := d.function() *)
  ; ("Functions", TList (TRec dec_funcode))                  (* funcs := make([]*Funcode, d.int()); d.function() each *)
  ; ("Recursion", TBool) ].                                  (* recursion := d.int() != 0 *)

(* ---------------------------------------------------------------- *)
(* Go data <-> value trees, directed by the field names of a schema   *)

Record schema := { s_binding : list (string * ty); s_funcode : list (string * ty);
                   s_const : list (string * ty); s_program : list (string * ty) }.
Definition enc_schema := {| s_binding := enc_binding; s_funcode := enc_funcode;
                            s_const := enc_const; s_program := enc_program |}.
Definition dec_schema := {| s_binding := dec_binding; s_funcode := dec_funcode;
                            s_const := dec_const; s_program := dec_program |}.
Definition program_ty (S : schema) : ty := TRec (s_program S).

(* a record as the list of its field values, in the order of the schema *)
Definition rec_val {A : Type} (get : A -> string -> val) (fs : list (string * ty)) (a : A) : val :=
  VRec (map (fun nt => get a (fst nt)) fs).

Definition binding_get (b : binding) (name : string) : val :=
  if name =s "Name" then VStr (b_name b)
  else if name =s "Pos.Line" then VInt (b_line b)
  else if name =s "Pos.Col" then VInt (b_col b)
  else VNil.

Definition bindings_val (S : schema) (l : list binding) : val :=
  VList (map (rec_val binding_get (s_binding S)) l).

Definition funcode_get (S : schema) (f : funcode) (name : string) : val :=
  if name =s "Name" then VStr (f_name f)
  else if name =s "Pos.Line" then VInt (f_line f)
  else if name =s "Pos.Col" then VInt (f_col f)
  else if name =s "Doc" then VStr (f_doc f)
  else if name =s "Code" then VStr (f_code f)
  else if name =s "pclinetab" then VList (map VInt (f_pclinetab f))
  else if name =s "Locals" then bindings_val S (f_locals f)
  else if name =s "Cells" then VList (map VInt (f_cells f))
  else if name =s "FreeVars" then bindings_val S (f_freevars f)
  else if name =s "MaxStack" then VInt (f_maxstack f)
  else if name =s "NumParams" then VInt (f_numparams f)
  else if name =s "NumKwonlyParams" then VInt (f_numkwonly f)
  else if name =s "HasVarargs" then VBool (f_hasvarargs f)
  else if name =s "HasKwargs" then VBool (f_haskwargs f)
  else VNil.

(* position of a kind in the list of alternatives = the tag *)
Fixpoint kind_index (alts : list (string * ty)) (kind : string) (i : Z) : option Z :=
  match alts with
  | [] => None
  | (k, _) :: r => if k =s kind then Some i else kind_index r kind (i + 1)
  end.
Definition alt_val (S : schema) (kind : string) (v : val) : val :=
  match kind_index (s_const S) kind 0 with
  | Some tag => VAlt tag v
  | None => VNil
  end.
Definition const_val (S : schema) (c : const) : val :=
  match c with
  | CString s => alt_val S "string" (VStr s)
  | CBytes s => alt_val S "Bytes" (VStr s)
  | CInt z => alt_val S "int64" (VInt z)
  | CFloat b => alt_val S "float64bits" (VInt b)
  | CBigInt z => alt_val S "bigint.Text10" (VBig z)
  end.

Definition program_get (S : schema) (p : program) (name : string) : val :=
  if name =s "Toplevel.Pos.Filename" then VStr (p_filename p)
  else if name =s "Loads" then bindings_val S (p_loads p)
  else if name =s "Names" then VList (map VStr (p_names p))
  else if name =s "Constants" then VList (map (const_val S) (p_constants p))
  else if name =s "Globals" then bindings_val S (p_globals p)
  else if name =s "Toplevel" then rec_val (funcode_get S) (s_funcode S) (p_toplevel p)
  else if name =s "Functions" then VList (map (rec_val (funcode_get S) (s_funcode S)) (p_functions p))
  else if name =s "Recursion" then VBool (p_recursion p)
  else VNil.

Definition program_val (S : schema) (p : program) : val :=
  rec_val (program_get S) (s_program S) p.

(* --- back: value tree -> Go data (None = the tree is not of that shape) *)
Fixpoint lookup (fs : list (string * ty)) (l : list val) (name : string) : option val :=
  match fs, l with
  | (n, _) :: fr, x :: r => if n =s name then Some x else lookup fr r name
  | _, _ => None
  end.
Definition get_int (fs : list (string * ty)) (l : list val) (name : string) : option Z :=
  match lookup fs l name with Some (VInt z) => Some z | _ => None end.
Definition get_bool (fs : list (string * ty)) (l : list val) (name : string) : option bool :=
  match lookup fs l name with Some (VBool b) => Some b | _ => None end.
Definition get_str (fs : list (string * ty)) (l : list val) (name : string) : option bytes :=
  match lookup fs l name with Some (VStr s) => Some s | _ => None end.
Definition get_list (fs : list (string * ty)) (l : list val) (name : string) : option (list val) :=
  match lookup fs l name with Some (VList s) => Some s | _ => None end.

Fixpoint all_some {A B : Type} (f : A -> option B) (l : list A) : option (list B) :=
  match l with
  | [] => Some []
  | x :: r => match f x, all_some f r with
              | Some y, Some ys => Some (y :: ys)
              | _, _ => None
              end
  end.
Definition obnd {A B : Type} (a : option A) (f : A -> option B) : option B :=
  match a with Some x => f x | None => None end.
Notation "'do' x <- a ; b" := (obnd a (fun x => b)) (at level 200, x name, a at level 100, b at level 200).

Definition as_int (v : val) : option Z := match v with VInt z => Some z | _ => None end.
Definition as_str (v : val) : option bytes := match v with VStr s => Some s | _ => None end.

Definition binding_of (S : schema) (v : val) : option binding :=
  match v with
  | VRec l =>
      let fs := s_binding S in
      do n <- get_str fs l "Name"; do li <- get_int fs l "Pos.Line"; do co <- get_int fs l "Pos.Col";
      Some {| b_name := n; b_line := li; b_col := co |}
  | _ => None
  end.
Definition bindings_of (S : schema) (l : list val) : option (list binding) := all_some (binding_of S) l.

Definition funcode_of (S : schema) (v : val) : option funcode :=
  match v with
  | VRec l =>
      let fs := s_funcode S in
      do n <- get_str fs l "Name"; do li <- get_int fs l "Pos.Line"; do co <- get_int fs l "Pos.Col";
      do doc <- get_str fs l "Doc"; do code <- get_str fs l "Code";
      do tab0 <- get_list fs l "pclinetab"; do tab <- all_some as_int tab0;
      do loc0 <- get_list fs l "Locals"; do loc <- bindings_of S loc0;
      do cel0 <- get_list fs l "Cells"; do cel <- all_some as_int cel0;
      do fv0 <- get_list fs l "FreeVars"; do fv <- bindings_of S fv0;
      do ms <- get_int fs l "MaxStack"; do np <- get_int fs l "NumParams";
      do nk <- get_int fs l "NumKwonlyParams";
      do hv <- get_bool fs l "HasVarargs"; do hk <- get_bool fs l "HasKwargs";
      Some {| f_name := n; f_line := li; f_col := co; f_doc := doc; f_code := code;
              f_pclinetab := tab; f_locals := loc; f_cells := cel; f_freevars := fv;
              f_maxstack := ms; f_numparams := np; f_numkwonly := nk;
              f_hasvarargs := hv; f_haskwargs := hk |}
  | _ => None
  end.

Fixpoint kind_at (alts : list (string * ty)) (k : nat) : option string :=
  match alts, k with
  | (n, _) :: _, O => Some n
  | _ :: r, S k' => kind_at r k'
  | [], _ => None
  end.
Definition const_of (S : schema) (v : val) : option const :=
  match v with
  | VAlt tag x =>
      if tag <? 0 then None else
      match kind_at (s_const S) (Z.to_nat tag), x with
      | Some k, VStr s =>
          if k =s "string" then Some (CString s)
          else if k =s "Bytes" then Some (CBytes s)
          else None
      | Some k, VBig z => if k =s "bigint.Text10" then Some (CBigInt z) else None
      | Some k, VInt z =>
          if k =s "int64" then Some (CInt z)
          else if k =s "float64bits" then Some (CFloat z)
          else None
      | _, _ => None
      end
  | _ => None   (* VNil: a nil constant; not a value of compile.Program the compiler produces *)
  end.

Definition program_of (S : schema) (v : val) : option program :=
  match v with
  | VRec l =>
      let fs := s_program S in
      do fname <- get_str fs l "Toplevel.Pos.Filename";
      do lo0 <- get_list fs l "Loads"; do lo <- bindings_of S lo0;
      do na0 <- get_list fs l "Names"; do na <- all_some as_str na0;
      do cs0 <- get_list fs l "Constants"; do cs <- all_some (const_of S) cs0;
      do gl0 <- get_list fs l "Globals"; do gl <- bindings_of S gl0;
      do tl0 <- lookup fs l "Toplevel"; do tl <- funcode_of S tl0;
      do fn0 <- get_list fs l "Functions"; do fn <- all_some (funcode_of S) fn0;
      do re <- get_bool fs l "Recursion";
      Some {| p_filename := fname; p_loads := lo; p_names := na; p_constants := cs;
              p_globals := gl; p_toplevel := tl; p_functions := fn; p_recursion := re |}
  | _ => None
  end.

(* ---------------------------------------------------------------- *)
(* Program.Encode and DecodeProgram                                   *)

Definition encode_program (p : program) : result bytes :=
  encode_file version (program_ty enc_schema) (program_val enc_schema p).

Definition decode_program (data : bytes) : decoded :=
  match decode_file version (program_ty dec_schema) data with
  | Err e => DError e
  | Ok v => match program_of dec_schema v with
            | Some p => DProgram p
            | None => DOther v
            end
  end.
