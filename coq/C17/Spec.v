(* C17 -- specification: what "compiled programs survive serialization
   unchanged" means, independent of how the codec is written.

   * [wt_program]: the values a compile.Program can hold, i.e. the ranges of the
     Go types of its fields (these are the well-typedness side conditions of the
     round trip: line/col int32, pclinetab uint16, Cells/MaxStack/... int64,
     float bits uint64, lengths below 2^63).
   * [roundtrip_ok], [rewrite_stable]: the two halves of the property for an
     arbitrary encoder/decoder pair.
   * [fields_Program], [fields_Funcode]: the field lists of the Go declarations
     in internal/compile/compile.go (checks/c17.py compares them with the source
     on every run) and which of them are state the interpreter reads. *)
From Coq Require Import ZArith Bool String List.
From SV Require Import Common.GoInt C17.Codec C17.Prog.
Import ListNotations.
Open Scope string_scope.
Open Scope Z_scope.

Definition wt_str (s : bytes) : bool := (Z.of_nat (length s) <=? max_int64) && forallb is_byte s.
Definition wt_len {A : Type} (l : list A) : bool := Z.of_nat (length l) <=? max_int64.

Definition wt_binding (b : binding) : bool :=
  wt_str (b_name b) && in_int32 (b_line b) && in_int32 (b_col b).

Definition wt_const (c : const) : bool :=
  match c with
  | CString s => wt_str s
  | CBytes s => wt_str s
  | CInt z => in_int64 z
  | CFloat b => in_uint64 b
  | CBigInt z => Z.of_nat (length (print_dec z)) <=? max_int64   (* its decimal text fits a Go string *)
  end.

Definition wt_funcode (f : funcode) : bool :=
  wt_str (f_name f) && in_int32 (f_line f) && in_int32 (f_col f) &&
  wt_str (f_doc f) && wt_str (f_code f) &&
  wt_len (f_pclinetab f) && forallb in_u16 (f_pclinetab f) &&
  wt_len (f_locals f) && forallb wt_binding (f_locals f) &&
  wt_len (f_cells f) && forallb in_int64 (f_cells f) &&
  wt_len (f_freevars f) && forallb wt_binding (f_freevars f) &&
  in_int64 (f_maxstack f) && in_int64 (f_numparams f) && in_int64 (f_numkwonly f).

Definition wt_program (p : program) : bool :=
  wt_str (p_filename p) &&
  wt_len (p_loads p) && forallb wt_binding (p_loads p) &&
  wt_len (p_names p) && forallb wt_str (p_names p) &&
  wt_len (p_constants p) && forallb wt_const (p_constants p) &&
  wt_len (p_globals p) && forallb wt_binding (p_globals p) &&
  wt_funcode (p_toplevel p) &&
  wt_len (p_functions p) && forallb wt_funcode (p_functions p).

(* The property, for any encoder / decoder. *)
Definition roundtrip_ok (E : program -> result bytes) (D : bytes -> decoded) (p : program) : Prop :=
  exists bs, E p = Ok bs /\ D bs = DProgram p.
Definition rewrite_stable (E : program -> result bytes) (D : bytes -> decoded) (p : program) : Prop :=
  forall bs q, E p = Ok bs -> D bs = DProgram q -> E q = Ok bs.

(* The string-section offset is stored as uint32(len(e.p)): the encoded program
   section (header included) must stay below 4 GiB. *)
Definition offset_fits (plen : nat) : Prop := 8 + Z.of_nat plen <= max_uint32.

(* --- the Go declarations (internal/compile/compile.go) ---------------- *)
Definition fields_Program : list string :=
  [ "Loads"; "Names"; "Constants"; "Functions"; "Globals"; "Toplevel"; "Recursion" ].
Definition fields_Funcode : list string :=
  [ "Prog"; "Pos"; "Name"; "Doc"; "Code"; "pclinetab"; "Locals"; "Cells"; "FreeVars";
    "MaxStack"; "NumParams"; "NumKwonlyParams"; "HasVarargs"; "HasKwargs"; "lntOnce"; "lnt" ].
Definition fields_Binding : list string := [ "Name"; "Pos" ].
(* not serialized, on purpose:
     Prog     back-pointer, re-established by DecodeProgram (toplevel.Prog = prog; f.Prog = prog)
     lntOnce, lnt   transient: the decoded line table, recomputed from pclinetab by decodeLNT *)
Definition fields_not_serialized : list string := [ "Prog"; "lntOnce"; "lnt" ].

(* A Go field is carried by a schema if its name occurs, or -- for a
   syntax.Position -- its Line and Col occur (the file name of every position
   is the program's Toplevel.Pos.Filename). *)
Definition has_name (fs : list (string * ty)) (n : string) : bool :=
  existsb (fun nt => String.eqb (fst nt) n) fs.
Definition carries (fs : list (string * ty)) (field : string) : bool :=
  if String.eqb field "Pos" then has_name fs "Pos.Line" && has_name fs "Pos.Col"
  else has_name fs field.
Definition covers (fs : list (string * ty)) (decl : list string) : bool :=
  forallb (fun f => existsb (String.eqb f) fields_not_serialized || carries fs f) decl.
