(* C17 -- property theorems only.  Each is closed by `exact <lemma>`; axioms are
   printed by the audit step of bin/check (Print Assumptions per theorem).

   Reading guide.  Codec.v models the wire format of internal/compile/serial.go
   (varints, the two sections, the header); Model.v gives the schema of
   Program/Funcode twice (encoder order, decoder order) and Program.Encode /
   DecodeProgram as interpretations of it; Prog.v is the Go data; Spec.v the
   ranges of the Go field types (wt_program) and the declarations' field lists. *)
From Coq Require Import ZArith Bool String List Lia.
From SV Require Import Common.GoInt C17.Codec C17.Prog C17.Model C17.Spec
  C17.ProofsVarint C17.ProofsCodec C17.ProofsModel.
Import ListNotations.
Open Scope list_scope.
Open Scope Z_scope.

(* ---- varints (Go encoding/binary) ------------------------------------- *)

(* PutUvarint then Uvarint gives back every uint64, whatever follows in the buffer. *)
Theorem uvarint_roundtrip :
  forall x, in_u64 x ->
    exists bs, put_uvarint x = Some bs /\ forall rest, uvarint (bs ++ rest) = UOk x rest.
Proof. exact uvarint_roundtrip_lemma. Qed.

(* PutVarint (zig-zag) then Varint gives back every int64. *)
Theorem varint_roundtrip :
  forall x, in_i64 x ->
    exists bs, put_varint x = Some bs /\ forall rest, varint (bs ++ rest) = UOk x rest.
Proof. exact varint_roundtrip_lemma. Qed.

(* The error results of Uvarint: a buffer that ends inside a varint reads as
   (0, 0) "buffer too small"; more than ten bytes, or a tenth byte above 1, is
   an overflow (n < 0), which makes the decoder's slice expression panic. *)
Theorem uvarint_truncated :
  forall buf, Forall (fun b => 128 <= b) buf -> (length buf <= 10)%nat -> uvarint buf = UShort.
Proof. exact uvarint_truncated_lemma. Qed.

Theorem uvarint_overlong :
  forall pre b rest, Forall (fun b => 128 <= b) pre -> length pre = 10%nat ->
    uvarint (pre ++ b :: rest) = UOverflow.
Proof. exact uvarint_overlong_lemma. Qed.

Theorem uvarint_tenth_byte_overflow :
  forall pre b rest, Forall (fun b => 128 <= b) pre -> length pre = 9%nat -> 1 < b < 128 ->
    uvarint (pre ++ b :: rest) = UOverflow.
Proof. exact uvarint_tenth_byte_lemma. Qed.

Example varint_premises_hold :
  in_i64 (-9223372036854775808) /\ in_u64 18446744073709551615 /\
  put_varint (-9223372036854775808) = Some [255;255;255;255;255;255;255;255;255;1] /\
  varint [255;255;255;255;255;255;255;255;255;1;7] = UOk (-9223372036854775808) [7] /\
  uvarint [128;255] = UShort /\
  uvarint [128;128;128;128;128;128;128;128;128;128;1] = UOverflow /\
  uvarint [255;255;255;255;255;255;255;255;255;2] = UOverflow.
Proof. unfold in_i64, in_u64. repeat split; try lia; vm_compute; reflexivity. Qed.

(* big.Int.Text(10) then big.Int.SetString(., 10) gives back every integer
   (the decimal text of a bigint constant; digits from the standard library's
   Z.to_int / Z.of_int). *)
Theorem bigint_text_roundtrip : forall z, parse_dec (print_dec z) = Some z.
Proof. exact parse_print_dec. Qed.

Example bigint_text_examples :
  print_dec (-18446744073709551616) = [45;49;56;52;52;54;55;52;52;48;55;51;55;48;57;53;53;49;54;49;54] /\
  print_dec 0 = [48] /\ parse_dec [43;48;48;55] = Some 7 /\ parse_dec [45] = None /\
  parse_dec [] = None /\ parse_dec [49;95;48] = None.
Proof. vm_compute. repeat split; reflexivity. Qed.

(* ---- the generic two-section codec -------------------------------------- *)

(* codec_roundtrip: for EVERY schema t (whose sequence elements occupy at least
   one byte of the program section -- what the decoder's length check relies
   on) and EVERY value v typed by it: encoding succeeds, and decoding what was
   written -- followed by anything whatsoever in either section -- gives back v
   and leaves exactly that remainder: the program bytes and the string section
   are consumed in lock step, nothing is left over, nothing is over-read. *)
Theorem codec_roundtrip :
  forall t v, wf_ty t = true -> wt t v = true ->
    exists o, enc t v = Ok o /\
      forall p' s', dec t {| d_p := o_p o ++ p'; d_s := o_s o ++ s' |}
                    = Ok (v, {| d_p := p'; d_s := s' |}).
Proof. exact codec_sections_roundtrip. Qed.

(* The same with the file framing of serial.go: magic "!sky", little-endian
   uint32 offset of the string section, version varint, the two sections, and
   the "unconsumed data" check.  The offset is a uint32: files below 4 GiB. *)
Theorem codec_file_roundtrip :
  forall ver t v, in_int64 ver = true -> wf_ty t = true -> wt t v = true ->
    exists bs, encode_file ver t v = Ok bs /\
      (Z.of_nat (length bs) <= max_uint32 -> decode_file ver t bs = Ok v).
Proof. exact ProofsCodec.codec_file_roundtrip. Qed.

(* Re-encoding what was decoded from an encoding is byte-identical. *)
Theorem codec_reencode_identical :
  forall ver t v bs v',
    in_int64 ver = true -> wf_ty t = true -> wt t v = true ->
    encode_file ver t v = Ok bs -> Z.of_nat (length bs) <= max_uint32 ->
    decode_file ver t bs = Ok v' -> encode_file ver t v' = Ok bs.
Proof. exact codec_reencode_identical_lemma. Qed.

(* The repaired decoder never builds a sequence longer than the input it has
   left (no allocation or loop driven by a corrupt length). *)
Theorem decoder_sequences_bounded :
  forall te d l d', dec (TList te) d = Ok (VList l, d') -> (length l <= length (d_p d))%nat.
Proof. exact dec_list_bounded. Qed.

Example codec_premises_hold :
  let t := TRec [("a", TList (TRec [("n", TStr); ("l", TI32)])); ("k", TUnion [("s", TStr); ("u", TU64)]); ("b", TBool)] in
  let v := VRec [VList [VRec [VStr [104;105]; VInt (-2147483648)]; VRec [VStr []; VInt 7]];
                 VAlt 1 (VInt 18446744073709551615); VBool true] in
  wf_ty t = true /\ wt t v = true /\ in_int64 14 = true /\
  encode_file 14 t v = Ok [33;115;107;121; 30;0;0;0; 28; 4; 4; 255;255;255;255;15; 0; 14; 2;
                           255;255;255;255;255;255;255;255;255;1; 2; 104;105] /\
  decode_file 14 t [33;115;107;121; 30;0;0;0; 28; 4; 4; 255;255;255;255;15; 0; 14; 2;
                    255;255;255;255;255;255;255;255;255;1; 2; 104;105] = Ok v /\
  (* explicit error results: truncated, trailing garbage, bad magic, wrong version *)
  decode_file 14 t [33;115;107;121; 30;0;0;0; 28; 4; 4] = Err (EPanic "slice bounds out of range (string section offset)") /\
  decode_file 14 t [33;115;107;121; 30;0;0;0; 28; 4; 4; 255;255;255;255;15; 0; 14; 2;
                    255;255;255;255;255;255;255;255;255;1; 2; 104;105; 0] = Err (EFormat "unconsumed data during decoding") /\
  decode_file 14 t [33;115;107;122; 8;0;0;0] = Err (EFormat "not a compiled module: bad magic number") /\
  decode_file 13 t [33;115;107;121; 30;0;0;0; 28; 4; 4; 255;255;255;255;15; 0; 14; 2;
                    255;255;255;255;255;255;255;255;255;1; 2; 104;105] = Err (EFormat "version mismatch") /\
  (* a sequence length larger than the remaining input is rejected *)
  decode_file 14 (TList TInt) [33;115;107;121; 11;0;0;0; 28; 6; 0] = Err (EPanic "invalid sequence length").
Proof. vm_compute. repeat split; reflexivity. Qed.

(* ---- the schema of serial.go ---------------------------------------------- *)

(* The order and types in which Program.Encode / encoder.function / binding(s)
   write are the order and types in which DecodeProgram / decoder.function /
   binding(s) read, field for field, constant kind for constant kind. *)
Theorem schemas_agree : enc_schema = dec_schema.
Proof. exact schemas_agree_lemma. Qed.

(* Every field of the Go declarations of Program, Funcode and Binding
   (compile.go; the lists are compared with the source on every run) is carried
   by the schema, except Funcode.Prog (back-pointer, re-established by
   DecodeProgram) and the transient lntOnce / lnt (recomputed from pclinetab);
   a Position is carried as Line and Col plus the program-wide file name.
   These are all the fields interp.go, eval.go, value.go and debug.go read. *)
Theorem schema_covers_fields :
  forall S, S = enc_schema \/ S = dec_schema ->
    (forall f, In f fields_Funcode -> In f fields_not_serialized \/ carries (s_funcode S) f = true) /\
    (forall f, In f fields_Program -> carries (s_program S) f = true) /\
    (forall f, In f fields_Binding -> carries (s_binding S) f = true) /\
    has_name (s_program S) "Toplevel.Pos.Filename" = true.
Proof. exact schema_covers_fields_lemma. Qed.

(* Both schemas satisfy the side condition of codec_roundtrip. *)
Theorem schema_wellformed :
  wf_ty (program_ty enc_schema) = true /\ wf_ty (program_ty dec_schema) = true.
Proof. exact schema_wf_lemma. Qed.

(* ---- programs --------------------------------------------------------------- *)

(* serial_roundtrip: for every compile.Program whose fields lie in the ranges
   of their Go types (wt_program: line/col int32, pclinetab uint16, Cells,
   MaxStack, NumParams, NumKwonlyParams and int constants int64, float bits
   uint64, lengths below 2^63; strings arbitrary bytes), Program.Encode
   succeeds and -- for files below 4 GiB -- DecodeProgram returns exactly the
   same program: every field of Program and of every Funcode that the
   interpreter reads, so execution (a function of those fields, C01) is the
   same: results, prints, errors, positions (pclinetab, Pos), docstrings,
   parameter metadata (NumParams, NumKwonlyParams, HasVarargs, HasKwargs,
   Locals), loads, Recursion. *)
Theorem serial_roundtrip :
  forall p, wt_program p = true ->
    exists bs, encode_program p = Ok bs /\
      (Z.of_nat (length bs) <= max_uint32 -> decode_program bs = DProgram p).
Proof. exact serial_roundtrip_lemma. Qed.

(* ... and writing the decoded program again reproduces the same bytes. *)
Theorem serial_rewrite_identical :
  forall p bs q, wt_program p = true -> encode_program p = Ok bs ->
    Z.of_nat (length bs) <= max_uint32 ->
    decode_program bs = DProgram q -> q = p /\ encode_program q = Ok bs.
Proof. exact serial_rewrite_identical_lemma. Qed.

Definition example_funcode : funcode :=
  {| f_name := [102]; f_line := 3; f_col := 1; f_doc := [100;111;99]; f_code := [46;0;255];
     f_pclinetab := [65535; 4096; 33];
     f_locals := [{| b_name := [120]; b_line := 3; b_col := 7 |}; {| b_name := [97;114;103;115]; b_line := 2147483647; b_col := -2147483648 |}];
     f_cells := [0; 9223372036854775807]; f_freevars := [{| b_name := [121]; b_line := 1; b_col := 1 |}];
     f_maxstack := 5; f_numparams := 2; f_numkwonly := 1; f_hasvarargs := true; f_haskwargs := false |}.
Definition example_program : program :=
  {| p_filename := [97;46;115;116;97;114];
     p_loads := [{| b_name := [109;46;115;116;97;114]; b_line := 1; b_col := 6 |}];
     p_names := [[117;112;112;101;114]];
     p_constants := [CString [255;254]; CBytes [0]; CInt (-9223372036854775808);
                     CFloat 9223372036854775808 (* -0.0 *); CFloat 9221120237041090561 (* a NaN *);
                     CBigInt 18446744073709551616; CBigInt (-340282366920938463463374607431768211456); CBigInt 0];
     p_globals := [{| b_name := [103]; b_line := 2; b_col := 1 |}];
     p_toplevel := example_funcode; p_functions := [example_funcode];
     p_recursion := true |}.

Example serial_premises_hold :
  wt_program example_program = true /\
  match encode_program example_program with
  | Ok bs => Z.of_nat (length bs) <= max_uint32 /\ decode_program bs = DProgram example_program
  | Err _ => False
  end.
Proof. vm_compute. split; [reflexivity|]. split; [discriminate|reflexivity]. Qed.
