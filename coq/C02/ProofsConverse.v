(* C02 -- the converse of the dichotomy: when the detector finds a struct that is
   entered again while it is still open, the real writeValue never ends, whatever
   the fuel.  Together with ProofsTraverse.write_value_dichotomy_lemma this
   characterises exactly the value graphs on which printing exhausts the stack. *)
From Coq Require Import ZArith List Bool Arith Lia.
From SV Require Import C02.Model C02.ProofsCommon C02.ProofsTraverse.
Import ListNotations.

(* more fuel never turns an answer into OutOfFuel *)
Lemma all_res_mono {A} (F G : A -> res unit) :
  forall es, (forall c, In c es -> F c <> OutOfFuel -> G c = F c) ->
  all_res F es <> OutOfFuel -> all_res G es = all_res F es.
Proof.
  induction es as [|c r IH]; intros H Hn; simpl in *; [reflexivity|].
  destruct (F c) eqn:E; try congruence.
  - rewrite (H c (or_introl eq_refl)); [|congruence]. rewrite E. apply IH; auto.
  - rewrite (H c (or_introl eq_refl)); [|congruence]. rewrite E. reflexivity.
  - rewrite (H c (or_introl eq_refl)); [|congruence]. rewrite E. reflexivity.
Qed.

Lemma write_value_mono g h : forall f path x,
  write_value g f h path x <> OutOfFuel -> write_value g (S f) h path x = write_value g f h path x.
Proof.
  induction f as [|f IH]; intros path x Hn; [exfalso; apply Hn; reflexivity|].
  cbn [write_value] in Hn. cbn [write_value].
  destruct (lookup h x) as [o|]; [|reflexivity].
  destruct o as [| z | es | items | zs | es | fs | ds cs | recv]; try reflexivity.
  - destruct (g_wv_list g && memb x path); [reflexivity|].
    apply all_res_mono; [|exact Hn]. intros c _ Hc. apply IH. exact Hc.
  - destruct (g_wv_dict g && memb x path); [reflexivity|].
    apply all_res_mono; [|exact Hn]. intros c _ Hc. apply IH. exact Hc.
  - apply all_res_mono; [|exact Hn]. intros c _ Hc. apply IH. exact Hc.
  - apply all_res_mono; [|exact Hn]. intros c _ Hc. apply IH. exact Hc.
Qed.

Lemma write_value_oof_down g h f path x :
  write_value g (S f) h path x = OutOfFuel -> write_value g f h path x = OutOfFuel.
Proof.
  intros H. destruct (write_value g f h path x) eqn:E; try reflexivity;
    rewrite (write_value_mono g h f path x) in H; congruence.
Qed.

Definition done_or_oof (r : res unit) : Prop := r = Done tt \/ r = OutOfFuel.

Lemma all_w_done_or_oof {A} (Fd : A -> wres) (G : A -> res unit) :
  forall es, (forall c, In c es -> Fd c = WDone -> done_or_oof (G c)) ->
  all_w Fd es = WDone -> done_or_oof (all_res G es).
Proof.
  induction es as [|c r IH]; intros H Hw; simpl in *; [left; reflexivity|].
  destruct (Fd c) eqn:E; try discriminate.
  destruct (H c (or_introl eq_refl) E) as [E1|E1]; rewrite E1; [apply IH; auto | right; reflexivity].
Qed.

(* where the detector finishes, the real traversal finishes or only lacks fuel *)
Lemma check_done_real h : forall fuel F open path x,
  wv_check F h open path x = WDone -> done_or_oof (write_value code_guards fuel h path x).
Proof.
  induction fuel as [|f IH]; intros F open path x Hc; [right; reflexivity|].
  destruct F as [|F']; [discriminate|].
  cbn [wv_check] in Hc. cbn [write_value].
  destruct (lookup h x) as [o|]; [|discriminate].
  destruct o as [| z | es | items | zs | es | fs | ds cs | recv]; try (left; reflexivity);
    cbn [g_wv_list g_wv_dict g_struct_path code_guards andb].
  - destruct (memb x path); [left; reflexivity|].
    eapply all_w_done_or_oof; [|exact Hc]. intros c _ Hd. eapply IH; exact Hd.
  - destruct (memb x path); [left; reflexivity|].
    eapply all_w_done_or_oof; [|exact Hc]. intros c _ Hd. eapply IH; exact Hd.
  - eapply all_w_done_or_oof; [|exact Hc]. intros c _ Hd. eapply IH; exact Hd.
  - destruct (memb x open); [discriminate|].
    eapply all_w_done_or_oof; [|exact Hc]. intros c _ Hd. eapply IH; exact Hd.
Qed.

Lemma all_w_cycle {A} (Fd : A -> wres) (G : A -> res unit) :
  forall es,
    (forall c, In c es -> Fd c = WDone -> done_or_oof (G c)) ->
    (forall c, In c es -> Fd c = WStructCycle -> G c = OutOfFuel) ->
    all_w Fd es = WStructCycle -> all_res G es = OutOfFuel.
Proof.
  induction es as [|c r IH]; intros H1 H2 Hw; simpl in *; [discriminate|].
  destruct (Fd c) eqn:E; try discriminate.
  - destruct (H1 c (or_introl eq_refl) E) as [E1|E1]; rewrite E1; [apply IH; auto | reflexivity].
  - rewrite (H2 c (or_introl eq_refl) E). reflexivity.
Qed.

(* main lemma: if every struct that is open never ends at this fuel, neither does x *)
Lemma cycle_never_ends h : forall fuel F open path x,
  wv_check F h open path x = WStructCycle ->
  (forall s, In s open -> forall p, write_value code_guards fuel h p s = OutOfFuel) ->
  write_value code_guards fuel h path x = OutOfFuel.
Proof.
  induction fuel as [|f IH]; intros F open path x Hc Hopen; [reflexivity|].
  destruct F as [|F']; [discriminate|].
  assert (Hdown : forall s, In s open -> forall p, write_value code_guards f h p s = OutOfFuel).
  { intros s Hs p. apply write_value_oof_down. apply Hopen. exact Hs. }
  pose proof Hc as Hc0.
  cbn [wv_check] in Hc.
  destruct (lookup h x) as [o|] eqn:Ho; [|discriminate].
  destruct o as [| z | es | items | zs | es | fs | ds cs | recv]; try discriminate.
  - cbn [write_value]. rewrite Ho. cbn [g_wv_list code_guards andb].
    destruct (memb x path); [discriminate|].
    eapply all_w_cycle; [| |exact Hc].
    + intros c _ Hd. eapply check_done_real; exact Hd.
    + intros c _ Hcy. eapply IH; [exact Hcy | exact Hdown].
  - cbn [write_value]. rewrite Ho. cbn [g_wv_dict code_guards andb].
    destruct (memb x path); [discriminate|].
    eapply all_w_cycle; [| |exact Hc].
    + intros c _ Hd. eapply check_done_real; exact Hd.
    + intros c _ Hcy. eapply IH; [exact Hcy | exact Hdown].
  - cbn [write_value]. rewrite Ho.
    eapply all_w_cycle; [| |exact Hc].
    + intros c _ Hd. eapply check_done_real; exact Hd.
    + intros c _ Hcy. eapply IH; [exact Hcy | exact Hdown].
  - (* struct *)
    destruct (memb x open) eqn:Hm.
    + apply Hopen. apply memb_In. exact Hm.
    + cbn [write_value]. rewrite Ho. cbn [g_struct_path code_guards].
      eapply all_w_cycle; [| |exact Hc].
      * intros c _ Hd. eapply check_done_real; exact Hd.
      * intros c _ Hcy. eapply IH; [exact Hcy|].
        intros s [Hs|Hs] p; [|apply Hdown; exact Hs].
        subst s.
        (* x itself, at the smaller fuel and any path: the detector's answer on a struct does not depend on the path *)
        apply (IH (S F') open p x); [|exact Hdown].
        cbn [wv_check]. rewrite Ho, Hm. exact Hc.
Qed.

Lemma struct_cycle_never_ends_lemma h F x :
  wv_check F h [] [] x = WStructCycle ->
  forall fuel, write_value code_guards fuel h [] x = OutOfFuel.
Proof.
  intros Hc fuel. eapply cycle_never_ends; [exact Hc|]. intros s [].
Qed.

Lemma write_value_ends_iff_lemma h x : wf_heap h = true -> x < size h ->
  (wv_check (cube_bound h) h [] [] x = WStructCycle /\
   forall fuel, write_value code_guards fuel h [] x = OutOfFuel) \/
  (wv_check (cube_bound h) h [] [] x = WDone /\
   write_value code_guards (cube_bound h) h [] x = Done tt).
Proof.
  intros Hwf Hx.
  assert (Hb : (unvisited (size h) [] * (size h + 2) + unvisited (size h) []) * (size h + 1) + x < cube_bound h).
  { unfold cube_bound. apply cube_arith; [apply unvisited_le | apply unvisited_le | exact Hx]. }
  destruct (wv_check_total h Hwf (cube_bound h) [] [] x Hx Hb) as [T|T].
  - right. split; [exact T|]. eapply wv_check_done_write_done. exact T.
  - left. split; [exact T|]. exact (struct_cycle_never_ends_lemma h _ x T).
Qed.
