(* C02 -- property theorems only.  Each is closed by `exact <lemma>`; axioms are
   printed by the audit step of bin/check (Print Assumptions per theorem).

   Reading: `freeze/write_value/compare/hash/json_emit fuel ...` model the Go
   recursion with one unit of fuel per value on the current branch of the
   recursion; OutOfFuel with a fuel that is a function of the heap size means
   "the recursion depth is not bounded by the size of the value graph", i.e. on a
   cyclic graph the Go stack is exhausted.  wf_heap is the invariant of heaps the
   interpreter builds (references in range; tuples, structs, bound methods and
   default values refer to older objects only). *)
From Coq Require Import ZArith List Bool Arith String.
From SV Require Import C02.Model C02.Spec C02.Arity C02.ArityTable
  C02.ProofsCommon C02.ProofsFreeze C02.ProofsTraverse C02.ProofsConverse C02.ProofsArity C02.ProofsStatements.
Import ListNotations.

(* Freeze: for every finite heap (cyclic included), every set of already frozen
   objects and every root, freezing ends within (size+1)^2 nested calls and only
   adds frozen flags.  Holds since fix 3319b84 (History.v: refuted before). *)
Theorem freeze_total :
  forall h fz x, wf_heap h = true -> x < size h ->
    exists fz', freeze code_guards (sq_bound h) h fz x = Done fz' /\ incl fz fz'.
Proof. exact freeze_total_stmt. Qed.

(* writeValue, full statement:
     forall h x, wf_heap h = true -> x < size h ->
       write_value code_guards (sq_bound h) h [] x = Done tt.
   The faithful model of the unchanged code falsifies it, for every fuel: *)
Theorem write_value_total_refuted :
  exists h x, wf_heap h = true /\ x < size h /\
    forall fuel, write_value code_guards fuel h [] x = OutOfFuel.
Proof. exact write_value_refuted_lemma. Qed.

(* ... what holds: the same statement for heaps without a struct (missing: value
   graphs in which a struct is reachable from itself; Struct.String restarts the
   cycle path) *)
Theorem write_value_total_partial :
  forall h x, wf_heap h = true -> struct_free h = true -> x < size h ->
    write_value code_guards (sq_bound h) h [] x = Done tt.
Proof. exact write_value_total_partial_stmt. Qed.

(* ... more generally when every struct is a record of immutable data (no list and
   no dict below it through tuples and structs); missing: structs with a list or
   dict field -- acyclic ones print fine, those reachable from themselves do not *)
Theorem write_value_total_partial_plain_structs :
  forall h x, wf_heap h = true -> structs_plain h = true -> x < size h ->
    write_value code_guards (sq_bound h) h [] x = Done tt.
Proof. exact write_value_total_partial_plain_structs_stmt. Qed.

(* ... and exactly: for EVERY heap the interpreter can build and every root, either
   the detector wv_check -- write_value instrumented with the stack of open
   structs -- finds a struct entered again while it is still open (a struct
   reachable from itself) and then printing never ends, whatever the fuel; or it
   finds none and printing ends within (size+2)^3 nested calls.  This
   characterises the crashing inputs of the known finding. *)
Theorem write_value_ends_iff_no_struct_cycle :
  forall h x, wf_heap h = true -> x < size h ->
    (wv_check (cube_bound h) h [] [] x = WStructCycle /\
     forall fuel, write_value code_guards fuel h [] x = OutOfFuel) \/
    (wv_check (cube_bound h) h [] [] x = WDone /\
     write_value code_guards (cube_bound h) h [] x = Done tt).
Proof. exact write_value_ends_iff_no_struct_cycle_stmt. Qed.

(* ... and the full statement for the repair "Struct.String hands writeValue's path on" *)
Theorem write_value_total_if_struct_keeps_path :
  forall h x, wf_heap h = true -> x < size h ->
    write_value repaired_print_guards (sq_bound h) h [] x = Done tt.
Proof. exact write_value_total_if_struct_keeps_path_stmt. Qed.

(* CompareDepth: for EVERY heap (no invariant needed), every depth limit, operator
   and pair of roots the recursion is at most depth+1 deep *)
Theorem compare_total :
  forall h depth op x y,
    compare code_guards (S (Z.to_nat depth)) h depth op x y <> OutOfFuel.
Proof. exact compare_total_lemma. Qed.

(* Hash (Tuple.Hash / Struct.Hash): ends with a hash or "unhashable" *)
Theorem hash_total :
  forall h x, wf_heap h = true -> x < size h ->
    hash (size h) h x = Done tt \/ hash (size h) h x = Fail.
Proof. exact hash_total_stmt. Qed.

(* json.encode: for EVERY heap the pointer path bounds the depth by size+1 *)
Theorem json_emit_total :
  forall h x, json_emit code_guards (S (size h)) h [] x <> OutOfFuel.
Proof. exact json_total_lemma. Qed.

(* every row of the built-in table is safe (computed over the complete table) *)
Theorem arity_table_safe :
  forall r, In r arity_table -> row_safe r = true.
Proof. exact arity_table_safe_lemma. Qed.

(* and a safe row cannot panic: for every built-in of the table, every number of
   positional arguments and every set of parameters that received a value, if the
   unpacking call accepted the call then the body dereferences no nil interface
   and indexes args in range *)
Theorem arity_no_panic :
  forall r nargs given,
    In r arity_table -> accepted r nargs given -> panics r nargs given = false.
Proof. exact arity_no_panic_lemma. Qed.

(* Non-vacuity: a well-formed heap full of cycles -- a list containing itself, a
   dict, a tuple, a closure that reaches itself through its own cell and through
   a default value, a bound method of the list stored in the list. *)
Definition example_heap : heap :=
  {| objs := [OList [0; 1; 2; 3; 4]; ODict [(KStr 0, 0); (KInt 7, 3)]; OTuple [0; 1];
              OFunc [2] [0; 1]; OBuiltin (Some 0); OSet [1%Z; 2%Z]];
     cellv := [Some 3; Some 0] |}.

Example premises_hold :
  wf_heap example_heap = true /\ struct_free example_heap = true /\
  freeze code_guards (sq_bound example_heap) example_heap [] 0 = Done [3; 1; 0] /\
  write_value code_guards (sq_bound example_heap) example_heap [] 0 = Done tt /\
  compare code_guards 11 example_heap 10 EQL 0 0 = Fail /\
  hash 6 example_heap 2 = Fail /\
  json_emit code_guards 7 example_heap [] 0 = Fail.
Proof. vm_compute. repeat split. Qed.

Definition example_heap2 : heap :=
  {| objs := [OInt 1; OTuple [0]; OStruct [(0, 0); (1, 1)]; OList [2; 3]; ODict [(KStr 0, 3); (KStr 1, 2)]];
     cellv := [] |}.
Example plain_struct_premises_hold :
  wf_heap example_heap2 = true /\ structs_plain example_heap2 = true /\ struct_free example_heap2 = false /\
  write_value code_guards (sq_bound example_heap2) example_heap2 [] 3 = Done tt.
Proof. vm_compute. repeat split. Qed.

Example detector_examples :
  wv_check (cube_bound struct_cycle_heap) struct_cycle_heap [] [] 0 = WStructCycle /\
  wv_check (cube_bound example_heap2) example_heap2 [] [] 3 = WDone /\
  wv_check (cube_bound example_heap) example_heap [] [] 0 = WDone.
Proof. vm_compute. repeat split. Qed.

(* a closure over a variable that is still unassigned (cell.v == nil: the model's
   `Some None` cell content) next to one that reaches itself: cell.Freeze's nil
   test makes the cell a leaf; printing, comparing and hashing never look inside a
   function *)
Definition unassigned_cell_heap : heap :=
  {| objs := [OList [1; 2]; OFunc [0] [0; 1]; OTuple [1; 0]]; cellv := [None; Some 1] |}.
Example unassigned_cell_premises_hold :
  wf_heap unassigned_cell_heap = true /\
  freeze code_guards (sq_bound unassigned_cell_heap) unassigned_cell_heap [] 2 = Done [0; 1] /\
  write_value code_guards (sq_bound unassigned_cell_heap) unassigned_cell_heap [] 2 = Done tt /\
  compare code_guards 11 unassigned_cell_heap 10 EQL 1 1 = Done true /\
  hash 3 unassigned_cell_heap 1 = Done tt /\ hash 3 unassigned_cell_heap 2 = Fail.
Proof. vm_compute. repeat split. Qed.

Example arity_premises_hold :
  exists r, In r arity_table /\ r_func r = "set_difference"%string /\ r_min r = 1 /\
    accepted r 1 (fun i => Nat.eqb i 0) /\ panics r 1 (fun i => Nat.eqb i 0) = false.
Proof.
  exists (mkrow "starlark/library.go" "set_difference" UPositional 1 1 [av "other" true false true false] 0 false).
  split; [vm_compute; tauto|]. split; [reflexivity|]. split; [reflexivity|].
  split; [|reflexivity]. split.
  - intros i Hi. simpl in Hi. destruct i; [reflexivity | inversion Hi as [|? H0]; inversion H0].
  - intros _. apply le_n.
Qed.
