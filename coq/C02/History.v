(* C02 -- the behaviour of the tree BEFORE repairs, kept as documentation: the
   statements below are about frozen copies of the old definitions, not about /repo.

   1. Function.Freeze before fix 3319b84 (no frozen flag on *Function): a
      closure that refers to itself through its own cell
          def outer():
              def f(): return f
              return f
          g = outer()
      Function.Freeze -> Tuple.Freeze(freevars) -> cell.Freeze -> Function.Freeze -> ...
      No amount of fuel suffices: the Go stack overflows at the end of the module.

   2. The five set methods before fix 4f02db1 declared min = 0 and then called
      other.Iterate() on the nil interface: s.difference() panicked. *)
From Coq Require Import ZArith List Bool Arith String.
From SV Require Import C02.Model C02.Arity.
Import ListNotations.

Definition old_guards : guards :=
  {| g_list_flag := true; g_ht_flag := true; g_struct_flag := true; g_func_flag := false;
     g_wv_list := true; g_wv_dict := true; g_struct_path := false;
     g_cmp_depth := true; g_json_path := true |}.

Definition closure_heap : heap := {| objs := [OFunc [] [0]]; cellv := [Some 0] |}.

Lemma freeze_function_cycle_refuted :
  wf_heap closure_heap = true /\
  forall fuel fz, freeze old_guards fuel closure_heap fz 0 = OutOfFuel.
Proof.
  split; [reflexivity|].
  induction fuel as [|f IH]; intros fz; [reflexivity|].
  cbn. rewrite IH. reflexivity.
Qed.

Open Scope string_scope.
Definition old_set_difference : row :=
  mkrow "starlark/library.go" "set_difference" UPositional 0 1 [av "other" true false true false] 0 false.

Lemma old_set_methods_refuted :
  row_safe old_set_difference = false /\
  accepted old_set_difference 0 (fun _ => false) /\
  panics old_set_difference 0 (fun _ => false) = true.
Proof. split; [reflexivity|]. split; [|reflexivity]. split; [intros i Hi; inversion Hi | intros _; apply le_n]. Qed.
