(* C02 -- the statements of Properties.v, proved from the lemmas of the other proof
   files (argument order adapted), so that Properties.v contains `exact` only. *)
From Coq Require Import ZArith List Bool Arith String.
From SV Require Import C02.Model C02.Spec C02.Arity C02.ArityTable
  C02.ProofsCommon C02.ProofsFreeze C02.ProofsTraverse C02.ProofsConverse C02.ProofsArity.
Import ListNotations.

Lemma freeze_total_stmt :
  forall h fz x, wf_heap h = true -> x < size h ->
    exists fz', freeze code_guards (sq_bound h) h fz x = Done fz' /\ incl fz fz'.
Proof.
  intros h fz x Hwf Hx. exact (freeze_total_lemma h Hwf fz x Hx).
Qed.

Lemma write_value_total_partial_stmt :
  forall h x, wf_heap h = true -> struct_free h = true -> x < size h ->
    write_value code_guards (sq_bound h) h [] x = Done tt.
Proof.
  intros h x Hwf Hsf Hx.
  exact (write_total_lemma h code_guards Hwf eq_refl eq_refl (or_intror (or_introl Hsf)) x Hx).
Qed.

Lemma write_value_total_partial_plain_structs_stmt :
  forall h x, wf_heap h = true -> structs_plain h = true -> x < size h ->
    write_value code_guards (sq_bound h) h [] x = Done tt.
Proof.
  intros h x Hwf Hsp Hx.
  exact (write_total_lemma h code_guards Hwf eq_refl eq_refl (or_intror (or_intror Hsp)) x Hx).
Qed.

Lemma write_value_ends_iff_no_struct_cycle_stmt :
  forall h x, wf_heap h = true -> x < size h ->
    (wv_check (cube_bound h) h [] [] x = WStructCycle /\
     forall fuel, write_value code_guards fuel h [] x = OutOfFuel) \/
    (wv_check (cube_bound h) h [] [] x = WDone /\
     write_value code_guards (cube_bound h) h [] x = Done tt).
Proof.
  intros h x Hwf Hx. exact (write_value_ends_iff_lemma h x Hwf Hx).
Qed.

Lemma write_value_total_if_struct_keeps_path_stmt :
  forall h x, wf_heap h = true -> x < size h ->
    write_value repaired_print_guards (sq_bound h) h [] x = Done tt.
Proof.
  intros h x Hwf Hx.
  exact (write_total_lemma h repaired_print_guards Hwf eq_refl eq_refl (or_introl eq_refl) x Hx).
Qed.

Lemma hash_total_stmt :
  forall h x, wf_heap h = true -> x < size h ->
    hash (size h) h x = Done tt \/ hash (size h) h x = Fail.
Proof.
  intros h x Hwf Hx. exact (hash_total_lemma h x Hwf Hx).
Qed.

