(* C02 -- lemmas shared by the totality proofs: the "unvisited" measure (how many
   locations of the heap are not yet on a visited list) and the sequencing
   combinators. *)
From Coq Require Import ZArith List Bool Arith Lia.
From SV Require Import C02.Model.
Import ListNotations.

Lemma memb_In x l : memb x l = true <-> In x l.
Proof.
  induction l as [|y r IH]; simpl.
  - split; [discriminate | tauto].
  - rewrite orb_true_iff, Nat.eqb_eq, IH. split; intros [H|H]; auto.
Qed.

Lemma memb_false_notin x l : memb x l = false -> ~ In x l.
Proof. intros H HI. apply memb_In in HI. congruence. Qed.

Definition unvisited (n : nat) (vis : list nat) : nat :=
  length (filter (fun l => negb (memb l vis)) (seq 0 n)).

Lemma filter_len_le {A} (p q : A -> bool) (L : list A) :
  (forall y, q y = true -> p y = true) ->
  length (filter q L) <= length (filter p L).
Proof.
  intros Hpq. induction L as [|a L IH]; simpl; [lia|].
  destruct (q a) eqn:Hq.
  - rewrite (Hpq a Hq). simpl. lia.
  - destruct (p a); simpl; lia.
Qed.

Lemma filter_len_lt {A} (p q : A -> bool) (L : list A) (x : A) :
  (forall y, q y = true -> p y = true) ->
  In x L -> p x = true -> q x = false ->
  length (filter q L) < length (filter p L).
Proof.
  intros Hpq. induction L as [|a L IH]; simpl; [tauto|].
  intros [->|Hin] Hp Hq.
  - rewrite Hp, Hq. simpl. pose proof (filter_len_le p q L Hpq). lia.
  - specialize (IH Hin Hp Hq). destruct (q a) eqn:Hqa.
    + rewrite (Hpq a Hqa). simpl. lia.
    + destruct (p a); simpl; lia.
Qed.

Lemma unvisited_incl n a b : incl a b -> unvisited n b <= unvisited n a.
Proof.
  intros Hi. unfold unvisited. apply filter_len_le. intros y Hy.
  apply negb_true_iff in Hy. apply negb_true_iff.
  destruct (memb y a) eqn:Hm; [|reflexivity].
  apply memb_In in Hm. apply Hi in Hm. apply memb_In in Hm. congruence.
Qed.

Lemma unvisited_push n vis x :
  x < n -> memb x vis = false -> unvisited n (x :: vis) < unvisited n vis.
Proof.
  intros Hx Hm. unfold unvisited. apply filter_len_lt with (x := x).
  - intros y Hy. apply negb_true_iff in Hy. simpl in Hy. apply orb_false_iff in Hy.
    apply negb_true_iff. tauto.
  - apply in_seq. lia.
  - rewrite Hm. reflexivity.
  - simpl. rewrite Nat.eqb_refl. reflexivity.
Qed.

Lemma unvisited_le n vis : unvisited n vis <= n.
Proof.
  unfold unvisited.
  assert (H : forall (L : list nat) (p : nat -> bool), length (filter p L) <= length L).
  { induction L as [|a L IH]; intros p; simpl; [lia|]. destruct (p a); simpl; specialize (IH p); lia. }
  etransitivity; [apply H|]. rewrite seq_length. lia.
Qed.

Lemma all_lt_Forall n l : all_lt n l = true -> Forall (fun c => c < n) l.
Proof.
  unfold all_lt. intros H. apply Forall_forall. intros c Hc.
  rewrite forallb_forall in H. specialize (H c Hc). apply Nat.ltb_lt in H. exact H.
Qed.

Lemma objs_wf_nth h os : forall i k o,
  objs_wf h i os = true -> nth_error os k = Some o -> obj_wf h (i + k) o = true.
Proof.
  induction os as [|a r IH]; intros i k o Hwf Hn.
  - destruct k; discriminate.
  - simpl in Hwf. apply andb_true_iff in Hwf. destruct Hwf as [Ha Hr].
    destruct k as [|k]; simpl in Hn.
    + inversion Hn; subst. rewrite Nat.add_0_r. exact Ha.
    + specialize (IH (S i) k o Hr Hn). replace (i + S k) with (S i + k) by lia. exact IH.
Qed.

Lemma wf_lookup h x o : wf_heap h = true -> lookup h x = Some o -> obj_wf h x o = true.
Proof.
  unfold wf_heap, lookup. intros H Hn. apply andb_true_iff in H. destruct H as [H _].
  exact (objs_wf_nth h (objs h) 0 x o H Hn).
Qed.

Lemma wf_cell h c v : wf_heap h = true -> nth_error (cellv h) c = Some (Some v) -> v < size h.
Proof.
  unfold wf_heap. intros H Hn. apply andb_true_iff in H. destruct H as [_ H].
  rewrite forallb_forall in H. specialize (H (Some v) (nth_error_In _ _ Hn)).
  simpl in H. apply Nat.ltb_lt in H. exact H.
Qed.

Lemma lookup_lt h x : x < size h -> exists o, lookup h x = Some o.
Proof.
  unfold size, lookup. intros H. destruct (nth_error (objs h) x) eqn:E; eauto.
  apply nth_error_None in E. lia.
Qed.

Lemma lookup_some_lt h x o : lookup h x = Some o -> x < size h.
Proof. unfold lookup, size. intros H. apply nth_error_Some. congruence. Qed.

(* sequencing a state through the children: every child succeeds and the state only grows *)
Lemma fold_res_grows {A} (F : list loc -> A -> res (list loc)) (P : A -> Prop) (base : list loc) :
  (forall s c, incl base s -> P c -> exists s', F s c = Done s' /\ incl s s') ->
  forall es s, Forall P es -> incl base s ->
  exists s', fold_res F s es = Done s' /\ incl s s'.
Proof.
  intros HF. induction es as [|c r IH]; intros s HP Hb; simpl.
  - exists s. split; [reflexivity | apply incl_refl].
  - inversion HP as [|? ? Hc Hr]; subst.
    destruct (HF s c Hb Hc) as [s1 [E1 I1]]. rewrite E1.
    destruct (IH s1 Hr (incl_tran Hb I1)) as [s2 [E2 I2]].
    exists s2. split; [exact E2 | exact (incl_tran I1 I2)].
Qed.

Lemma all_res_ok {A} (F : A -> res unit) (P : A -> Prop) :
  (forall c, P c -> F c = Done tt) ->
  forall es, Forall P es -> all_res F es = Done tt.
Proof.
  intros HF. induction es as [|c r IH]; intros HP; simpl; [reflexivity|].
  inversion HP; subst. rewrite (HF c); auto.
Qed.

(* weaker: no child runs out of fuel => the sequence does not *)
Lemma all_res_no_oof {A} (F : A -> res unit) (P : A -> Prop) :
  (forall c, P c -> F c <> OutOfFuel) ->
  forall es, Forall P es -> all_res F es <> OutOfFuel.
Proof.
  intros HF. induction es as [|c r IH]; intros HP; simpl; [discriminate|].
  inversion HP as [|? ? Hc Hr]; subst. specialize (HF c Hc).
  destruct (F c); try congruence. apply IH. exact Hr.
Qed.

Lemma Forall_map_snd {K} (P : nat -> Prop) (l : list (K * nat)) :
  Forall P (map snd l) <-> Forall (fun kv => P (snd kv)) l.
Proof. rewrite Forall_map. tauto. Qed.
