(* C02 -- nothing crashes the host: the LOGIC that keeps the recursive
   traversals of a value graph finite.  (Runtime facts -- Go panics, the size of
   the Go stack -- are outside any Gallina model; they are explored by
   harness/cmd/c02 in child processes.)

   An object graph and fuelled models of the five recursive traversals of
   starlark-go, each with exactly the guards the code has:

     Freeze      value.go List.Freeze / Tuple.Freeze / Function.Freeze / Builtin.Freeze,
                 hashtable.go freeze, interp.go cell.Freeze, starlarkstruct Struct.Freeze
     writeValue  value.go writeValue (the `path` stack, pathContains for *List and
                 *Dict only) and starlarkstruct Struct.String (which calls
                 value.String() on every field: the path starts again from nil)
     CompareDepth value.go CompareDepth / sliceCompare / dictsEqual / setsEqual,
                 struct.go structsEqual (depth counter, CompareLimit)
     Hash        value.go Tuple.Hash, struct.go Struct.Hash (lists, dicts, sets fail)
     json.encode lib/json/json.go emit (pointer path for every pointer-like value)

   Fuel = depth of the Go recursion (one unit per value visited on the current
   branch).  `OutOfFuel` is a distinguished result: the theorems in
   Properties.v say it is never returned when the fuel is a bound computed from
   the size of the heap -- i.e. the recursion depth is bounded for EVERY heap,
   cyclic ones included.  A Starlark-level error is `Fail`; a dangling
   reference (not a heap the interpreter can build) is `BadHeap`.

   No proofs here. *)
From Coq Require Import ZArith List Bool Arith.
Import ListNotations.

Definition loc := nat.   (* index into objs  *)
Definition cloc := nat.  (* index into cellv *)

Inductive key := KInt (z : Z) | KStr (n : nat).

Inductive obj :=
| ONone
| OInt (z : Z)
| OList (elems : list loc)
| ODict (items : list (key * loc))         (* keys are atoms here; see "not covered" in checks/c02.py *)
| OSet (elems : list Z)                    (* elements are atoms here *)
| OTuple (elems : list loc)
| OStruct (fields : list (nat * loc))      (* field name, value *)
| OFunc (defaults : list loc) (cells : list cloc)   (* fn.defaults, fn.freevars *)
| OBuiltin (recv : option loc).

(* cells (closure variables) live in their own index space: only a function's
   freevars tuple refers to a cell, so by construction no list/tuple/dict holds one *)
Record heap := { objs : list obj; cellv : list (option loc) }.

Definition size (h : heap) : nat := length (objs h).
Definition lookup (h : heap) (l : loc) : option obj := nth_error (objs h) l.

Inductive res (A : Type) := Done (a : A) | Fail | BadHeap | OutOfFuel.
Arguments Done {A} a. Arguments Fail {A}. Arguments BadHeap {A}. Arguments OutOfFuel {A}.

Fixpoint memb (x : nat) (l : list nat) : bool :=
  match l with [] => false | y :: r => Nat.eqb x y || memb x r end.

Fixpoint fold_res {S A : Type} (f : S -> A -> res S) (s : S) (xs : list A) : res S :=
  match xs with
  | [] => Done s
  | x :: r => match f s x with Done s' => fold_res f s' r | e => e end
  end.

(* every element must succeed; no state *)
Fixpoint all_res {A : Type} (f : A -> res unit) (xs : list A) : res unit :=
  match xs with
  | [] => Done tt
  | x :: r => match f x with Done _ => all_res f r | e => e end
  end.

(* The guards, as switches, so that the code before a repair (History.v) and
   hypothetical mutations are instances of the same definitions. *)
Record guards := {
  g_list_flag : bool;    (* List.Freeze: if !l.frozen                                  *)
  g_ht_flag : bool;      (* hashtable.freeze: if !ht.frozen (dict, set)                *)
  g_struct_flag : bool;  (* Struct.Freeze: if !s.frozen                                *)
  g_func_flag : bool;    (* Function.Freeze: if !fn.frozen  (added by fix 3319b84)     *)
  g_wv_list : bool;      (* writeValue *List: pathContains(path, x)                    *)
  g_wv_dict : bool;      (* writeValue *Dict: pathContains(path, x)                    *)
  g_struct_path : bool;  (* Struct.String hands the path on (it does NOT: false)       *)
  g_cmp_depth : bool;    (* CompareDepth: if depth < 1 { error }                       *)
  g_json_path : bool     (* json emit: pathContains(path, ptr)                         *)
}.

(* the tree as it is now (after fix 3319b84 to Function.Freeze) *)
Definition code_guards : guards :=
  {| g_list_flag := true; g_ht_flag := true; g_struct_flag := true; g_func_flag := true;
     g_wv_list := true; g_wv_dict := true; g_struct_path := false;
     g_cmp_depth := true; g_json_path := true |}.

(* ------------------------------------------------------------------ Freeze *)
(* state: the locations whose frozen flag is set (initially: any set) *)
Fixpoint freeze (g : guards) (fuel : nat) (h : heap) (fz : list loc) (x : loc) : res (list loc) :=
  match fuel with
  | 0 => OutOfFuel
  | S f =>
    match lookup h x with
    | None => BadHeap
    | Some o =>
      match o with
      | ONone | OInt _ => Done fz
      | OList es =>
          if g_list_flag g && memb x fz then Done fz
          else fold_res (freeze g f h) (x :: fz) es
      | ODict items =>                       (* keys are atoms: Freeze on them is a no-op *)
          if g_ht_flag g && memb x fz then Done fz
          else fold_res (freeze g f h) (x :: fz) (map snd items)
      | OSet _ =>
          if g_ht_flag g && memb x fz then Done fz else Done (x :: fz)
      | OTuple es => fold_res (freeze g f h) fz es                 (* no flag: unconditional *)
      | OStruct fs =>
          if g_struct_flag g && memb x fz then Done fz
          else fold_res (freeze g f h) (x :: fz) (map snd fs)
      | OFunc ds cs =>
          if g_func_flag g && memb x fz then Done fz
          else
            let fz1 := if g_func_flag g then x :: fz else fz in
            match fold_res (freeze g f h) fz1 ds with               (* fn.defaults.Freeze() *)
            | Done fz2 =>
                fold_res (fun s c =>                                 (* fn.freevars.Freeze(): cell.Freeze *)
                            match nth_error (cellv h) c with
                            | None => BadHeap
                            | Some None => Done s                    (* c.v == nil *)
                            | Some (Some v) => freeze g f h s v
                            end) fz2 cs
            | e => e
            end
      | OBuiltin None => Done fz
      | OBuiltin (Some r) => freeze g f h fz r                      (* b.recv.Freeze(), no flag *)
      end
    end
  end.

(* -------------------------------------------------------------- writeValue *)
Fixpoint write_value (g : guards) (fuel : nat) (h : heap) (path : list loc) (x : loc) : res unit :=
  match fuel with
  | 0 => OutOfFuel
  | S f =>
    match lookup h x with
    | None => BadHeap
    | Some o =>
      match o with
      | ONone | OInt _ | OSet _ | OFunc _ _ | OBuiltin _ => Done tt   (* functions print their name only *)
      | OList es =>
          if g_wv_list g && memb x path then Done tt                   (* "[...]" *)
          else all_res (write_value g f h (x :: path)) es
      | OTuple es => all_res (write_value g f h path) es               (* tuples are not on the path *)
      | ODict items =>
          if g_wv_dict g && memb x path then Done tt                   (* "{...}" *)
          else all_res (write_value g f h (x :: path)) (map snd items)
      | OStruct fs =>
          (* default case: x.String() = Struct.String, which writes e.value.String()
             for every field: toString(v) = writeValue(v, nil) -- the path is lost *)
          all_res (write_value g f h (if g_struct_path g then path else [])) (map snd fs)
      end
    end
  end.

(* ------------------------------------------------------------ CompareDepth *)
Inductive cmpop := EQL | NEQ | LT | LE | GT | GE.

Definition threeway (op : cmpop) (c : comparison) : bool :=
  match op, c with
  | EQL, Eq => true | EQL, _ => false
  | NEQ, Eq => false | NEQ, _ => true
  | LE, Gt => false | LE, _ => true
  | LT, Lt => true | LT, _ => false
  | GE, Lt => false | GE, _ => true
  | GT, Gt => true | GT, _ => false
  end.

Definition is_eq_op (op : cmpop) : bool := match op with EQL | NEQ => true | _ => false end.

(* identity comparison of values that are neither Comparable nor TotallyOrdered *)
Definition identity_cmp (op : cmpop) (same : bool) : res bool :=
  match op with EQL => Done same | NEQ => Done (negb same) | _ => Fail end.

Definition key_eqb (a b : key) : bool :=
  match a, b with
  | KInt x, KInt y => Z.eqb x y
  | KStr x, KStr y => Nat.eqb x y
  | _, _ => false
  end.

Fixpoint assoc (k : key) (l : list (key * loc)) : option loc :=
  match l with [] => None | (k', v) :: r => if key_eqb k k' then Some v else assoc k r end.

(* sliceCompare, after the length fast path: first unequal pair decides *)
Fixpoint slice_loop (F : cmpop -> loc -> loc -> res bool) (op : cmpop) (xs ys : list loc) : res bool :=
  match xs, ys with
  | x :: xr, y :: yr =>
      match F EQL x y with
      | Done true => slice_loop F op xr yr
      | Done false =>
          match op with EQL => Done false | NEQ => Done true | _ => F op x y end
      | e => e
      end
  | _, _ => Done (threeway op (Nat.compare (length xs) (length ys)))
  end.

Definition slice_cmp (F : cmpop -> loc -> loc -> res bool) (op : cmpop) (xs ys : list loc) : res bool :=
  if negb (Nat.eqb (length xs) (length ys)) && is_eq_op op
  then Done (match op with NEQ => true | _ => false end)
  else slice_loop F op xs ys.

Fixpoint dict_loop (F : cmpop -> loc -> loc -> res bool) (xs ys : list (key * loc)) : res bool :=
  match xs with
  | [] => Done true
  | (k, xv) :: r =>
      match assoc k ys with
      | None => Done false
      | Some yv =>
          match F EQL xv yv with
          | Done true => dict_loop F r ys
          | other => other
          end
      end
  end.

Definition dicts_equal F (xs ys : list (key * loc)) : res bool :=
  if negb (Nat.eqb (length xs) (length ys)) then Done false else dict_loop F xs ys.

Fixpoint struct_loop (F : cmpop -> loc -> loc -> res bool) (xs ys : list (nat * loc)) : res bool :=
  match xs, ys with
  | (n, xv) :: xr, (m, yv) :: yr =>
      if negb (Nat.eqb n m) then Done false
      else match F EQL xv yv with
           | Done true => struct_loop F xr yr
           | other => other
           end
  | _, _ => Done true
  end.

Definition structs_equal F (xs ys : list (nat * loc)) : res bool :=
  if negb (Nat.eqb (length xs) (length ys)) then Done false else struct_loop F xs ys.

Definition zmem (z : Z) (l : list Z) : bool := existsb (Z.eqb z) l.
Definition subset (a b : list Z) : bool := forallb (fun z => zmem z b) a.

Definition set_cmp (op : cmpop) (a b : list Z) : bool :=
  let la := length a in let lb := length b in
  match op with
  | EQL => Nat.eqb la lb && subset a b
  | NEQ => negb (Nat.eqb la lb && subset a b)
  | GE => negb (Nat.ltb la lb) && subset b a
  | LE => negb (Nat.ltb lb la) && subset a b
  | GT => Nat.ltb lb la && subset b a
  | LT => Nat.ltb la lb && subset a b
  end.

Definition neg_res (r : res bool) : res bool := match r with Done b => Done (negb b) | e => e end.

Fixpoint compare (g : guards) (fuel : nat) (h : heap) (depth : Z) (op : cmpop) (x y : loc) : res bool :=
  match fuel with
  | 0 => OutOfFuel
  | S f =>
    if g_cmp_depth g && (depth <? 1)%Z then Fail   (* "comparison exceeded maximum recursion depth" *)
    else
      let F := compare g f h (depth - 1)%Z in
      match lookup h x, lookup h y with
      | Some ox, Some oy =>
        match ox, oy with
        | OInt a, OInt b => Done (threeway op (Z.compare a b))
        | ONone, ONone => identity_cmp op true
        | OList xs, OList ys => slice_cmp F op xs ys
        | OTuple xs, OTuple ys => slice_cmp F op xs ys
        | ODict xs, ODict ys =>
            match op with
            | EQL => dicts_equal F xs ys
            | NEQ => neg_res (dicts_equal F xs ys)
            | _ => Fail
            end
        | OSet a, OSet b => Done (set_cmp op a b)
        | OStruct xs, OStruct ys =>
            match op with
            | EQL => structs_equal F xs ys
            | NEQ => neg_res (structs_equal F xs ys)
            | _ => Fail
            end
        | OFunc _ _, OFunc _ _ => identity_cmp op (Nat.eqb x y)
        | OBuiltin _, OBuiltin _ => identity_cmp op (Nat.eqb x y)
        | _, _ => match op with EQL => Done false | NEQ => Done true | _ => Fail end  (* different types *)
        end
      | _, _ => BadHeap
      end
  end.

Definition compare_limit : Z := 10.   (* var CompareLimit = 10 *)

(* -------------------------------------------------------------------- Hash *)
Fixpoint hash (fuel : nat) (h : heap) (x : loc) : res unit :=
  match fuel with
  | 0 => OutOfFuel
  | S f =>
    match lookup h x with
    | None => BadHeap
    | Some o =>
      match o with
      | ONone | OInt _ | OFunc _ _ | OBuiltin _ => Done tt       (* no recursion *)
      | OList _ | ODict _ | OSet _ => Fail                        (* unhashable *)
      | OTuple es => all_res (hash f h) es
      | OStruct fs => all_res (hash f h) (map snd fs)
      end
    end
  end.

(* ------------------------------------------------------------- json.encode *)
Definition is_str_key (k : key) : bool := match k with KStr _ => true | KInt _ => false end.

Fixpoint json_emit (g : guards) (fuel : nat) (h : heap) (path : list loc) (x : loc) : res unit :=
  match fuel with
  | 0 => OutOfFuel
  | S f =>
    match lookup h x with
    | None => BadHeap
    | Some o =>
      match o with
      | ONone | OInt _ => Done tt                                  (* pointer(x) == nil: not on the path *)
      | _ =>
        if g_json_path g && memb x path then Fail                 (* "cycle in JSON structure" *)
        else
          let p := x :: path in
          match o with
          | ODict items =>
              if forallb (fun kv => is_str_key (fst kv)) items
              then all_res (json_emit g f h p) (map snd items)
              else Fail                                            (* "has int key, want string" *)
          | OList es | OTuple es => all_res (json_emit g f h p) es
          | OSet _ => Done tt
          | OStruct fs => all_res (json_emit g f h p) (map snd fs)
          | _ => Fail                                              (* "cannot encode function as JSON" *)
          end
      end
    end
  end.

(* ----------------------------------------------------- heaps the interpreter builds *)
Definition all_lt (n : nat) (l : list nat) : bool := forallb (fun c => Nat.ltb c n) l.

(* every reference is in range; a tuple, a struct, a bound method and a function's
   default values are immutable and built from values that already exist, so
   their children are OLDER (smaller index); lists, dicts and cells are mutable
   and may refer to anything *)
Definition obj_wf (h : heap) (x : loc) (o : obj) : bool :=
  match o with
  | ONone | OInt _ | OSet _ => true
  | OList es => all_lt (size h) es
  | ODict items => all_lt (size h) (map snd items)
  | OTuple es => all_lt x es
  | OStruct fs => all_lt x (map snd fs)
  | OFunc ds cs => all_lt x ds && all_lt (length (cellv h)) cs
  | OBuiltin None => true
  | OBuiltin (Some r) => Nat.ltb r x
  end.

Fixpoint objs_wf (h : heap) (i : nat) (os : list obj) : bool :=
  match os with [] => true | o :: r => obj_wf h i o && objs_wf h (S i) r end.

Definition cell_wf (h : heap) (c : option loc) : bool :=
  match c with None => true | Some v => Nat.ltb v (size h) end.

Definition wf_heap (h : heap) : bool := objs_wf h 0 (objs h) && forallb (cell_wf h) (cellv h).

Definition is_struct (o : obj) : bool := match o with OStruct _ => true | _ => false end.
Definition struct_free (h : heap) : bool := negb (existsb is_struct (objs h)).

(* a value below which printing meets no list and no dict (through tuples and structs) *)
Fixpoint plain (fuel : nat) (h : heap) (x : loc) : bool :=
  match fuel with
  | 0 => false
  | S f =>
    match lookup h x with
    | None => false
    | Some (OList _) | Some (ODict _) => false
    | Some (OTuple es) => forallb (plain f h) es
    | Some (OStruct fs) => forallb (plain f h) (map snd fs)
    | Some _ => true
    end
  end.

(* every struct of the heap is such a value: records of immutable data *)
Definition structs_plain (h : heap) : bool :=
  forallb (fun x => match lookup h x with Some (OStruct _) => plain (S x) h x | _ => true end) (seq 0 (size h)).

(* an instrumented copy of write_value that also keeps the structs that are open
   on the recursion stack and stops when one is entered again: the detector of
   exactly the shape that defeats writeValue's cycle path *)
Inductive wres := WDone | WStructCycle | WBad | WOut.

Fixpoint all_w {A : Type} (f : A -> wres) (xs : list A) : wres :=
  match xs with
  | [] => WDone
  | x :: r => match f x with WDone => all_w f r | e => e end
  end.

Fixpoint wv_check (fuel : nat) (h : heap) (open path : list loc) (x : loc) : wres :=
  match fuel with
  | 0 => WOut
  | S f =>
    match lookup h x with
    | None => WBad
    | Some o =>
      match o with
      | ONone | OInt _ | OSet _ | OFunc _ _ | OBuiltin _ => WDone
      | OList es => if memb x path then WDone else all_w (wv_check f h open (x :: path)) es
      | OTuple es => all_w (wv_check f h open path) es
      | ODict items => if memb x path then WDone else all_w (wv_check f h open (x :: path)) (map snd items)
      | OStruct fs => if memb x open then WStructCycle else all_w (wv_check f h (x :: open) []) (map snd fs)
      end
    end
  end.

(* fuel bounds, functions of the size of the heap only *)
Definition cube_bound (h : heap) : nat := (size h + 2) * (size h + 2) * (size h + 2).
Definition sq_bound (h : heap) : nat := (size h + 1) * (size h + 1).
