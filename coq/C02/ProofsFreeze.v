(* C02 -- Freeze terminates on every well-formed heap: every cycle passes
   through an object whose Freeze tests and sets a flag before descending. *)
From Coq Require Import ZArith List Bool Arith Lia.
From SV Require Import C02.Model C02.ProofsCommon.
Import ListNotations.

Lemma bound_child_push N Us Ufz c x f :
  Us < Ufz -> c < N -> Ufz * (N + 1) + x < S f -> Us * (N + 1) + c < f.
Proof. intros. nia. Qed.

Lemma bound_child_down N Us Ufz c x f :
  Us <= Ufz -> c < x -> Ufz * (N + 1) + x < S f -> Us * (N + 1) + c < f.
Proof. intros. nia. Qed.

Section Freeze.
Variable h : heap.
Hypothesis Hwf : wf_heap h = true.
Let N := size h.

(* children of a freshly flagged object: any location of the heap *)
Lemma freeze_children_push f fz x es
  (IH : forall fz x, x < N -> unvisited N fz * (N + 1) + x < f ->
        exists fz', freeze code_guards f h fz x = Done fz' /\ incl fz fz') :
  x < N -> memb x fz = false ->
  unvisited N fz * (N + 1) + x < S f ->
  Forall (fun c => c < N) es ->
  forall s, incl (x :: fz) s ->
  exists s', fold_res (freeze code_guards f h) s es = Done s' /\ incl s s'.
Proof.
  intros Hx Hm Hf Hes s Hs.
  apply fold_res_grows with (P := fun c => c < N) (base := x :: fz); auto.
  intros s0 c Hb Hc. apply IH; auto.
  apply bound_child_push with (Ufz := unvisited N fz) (x := x); auto.
  eapply Nat.le_lt_trans; [apply unvisited_incl; exact Hb|].
  apply unvisited_push; auto.
Qed.

Lemma freeze_ok :
  forall fuel fz x, x < N ->
    unvisited N fz * (N + 1) + x < fuel ->
    exists fz', freeze code_guards fuel h fz x = Done fz' /\ incl fz fz'.
Proof.
  induction fuel as [|f IH]; intros fz x Hx Hf; [lia|].
  destruct (lookup_lt h x Hx) as [o Ho].
  pose proof (wf_lookup h x o Hwf Ho) as Hw.
  cbn [freeze]. rewrite Ho.
  destruct o as [| z | es | items | zs | es | fs | ds cs | recv]; cbn [obj_wf] in Hw.
  - exists fz. split; [reflexivity | apply incl_refl].
  - exists fz. split; [reflexivity | apply incl_refl].
  - (* list: flag first *)
    cbn [g_list_flag code_guards andb].
    destruct (memb x fz) eqn:Hm.
    + exists fz. split; [reflexivity | apply incl_refl].
    + destruct (freeze_children_push f fz x es IH Hx Hm Hf (all_lt_Forall _ _ Hw) (x :: fz) (incl_refl _))
        as [s' [E I]].
      exists s'. split; [exact E|]. eapply incl_tran; [apply incl_tl, incl_refl | exact I].
  - (* dict *)
    cbn [g_ht_flag code_guards andb].
    destruct (memb x fz) eqn:Hm.
    + exists fz. split; [reflexivity | apply incl_refl].
    + destruct (freeze_children_push f fz x (map snd items) IH Hx Hm Hf (all_lt_Forall _ _ Hw) (x :: fz) (incl_refl _))
        as [s' [E I]].
      exists s'. split; [exact E|]. eapply incl_tran; [apply incl_tl, incl_refl | exact I].
  - (* set *)
    cbn [g_ht_flag code_guards andb].
    destruct (memb x fz) eqn:Hm.
    + exists fz. split; [reflexivity | apply incl_refl].
    + exists (x :: fz). split; [reflexivity | apply incl_tl, incl_refl].
  - (* tuple: no flag, but the elements are older than the tuple *)
    apply fold_res_grows with (P := fun c => c < x) (base := fz);
      [| apply all_lt_Forall; exact Hw | apply incl_refl].
    intros s c Hb Hc. apply IH; [lia|].
    apply bound_child_down with (Ufz := unvisited N fz) (x := x); auto.
    apply unvisited_incl. exact Hb.
  - (* struct: flag first *)
    cbn [g_struct_flag code_guards andb].
    destruct (memb x fz) eqn:Hm.
    + exists fz. split; [reflexivity | apply incl_refl].
    + assert (Hall : Forall (fun c => c < N) (map snd fs)).
      { eapply Forall_impl; [| apply all_lt_Forall; exact Hw]. intros a Ha. simpl in Ha. lia. }
      destruct (freeze_children_push f fz x (map snd fs) IH Hx Hm Hf Hall (x :: fz) (incl_refl _))
        as [s' [E I]].
      exists s'. split; [exact E|]. eapply incl_tran; [apply incl_tl, incl_refl | exact I].
  - (* function: flag first (fix 3319b84), then defaults, then the cells *)
    cbn [g_func_flag code_guards andb].
    destruct (memb x fz) eqn:Hm.
    + exists fz. split; [reflexivity | apply incl_refl].
    + apply andb_true_iff in Hw. destruct Hw as [Hd Hc].
      assert (Hall : Forall (fun c => c < N) ds).
      { eapply Forall_impl; [| apply all_lt_Forall; exact Hd]. intros a Ha. simpl in Ha. lia. }
      destruct (freeze_children_push f fz x ds IH Hx Hm Hf Hall (x :: fz) (incl_refl _))
        as [s1 [E1 I1]].
      cbv beta zeta iota.
      match goal with |- context [fold_res ?F ?s ds] =>
        replace (fold_res F s ds) with (@Done (list loc) s1) by (symmetry; exact E1) end.
      assert (Hcells : exists s2,
        fold_res (fun s c => match nth_error (cellv h) c with
                             | None => BadHeap
                             | Some None => Done s
                             | Some (Some v) => freeze code_guards f h s v
                             end) s1 cs = Done s2 /\ incl s1 s2).
      { apply fold_res_grows with (P := fun c => c < length (cellv h)) (base := x :: fz);
          [| apply all_lt_Forall; exact Hc | exact I1].
        intros s c Hb Hcl.
        destruct (nth_error (cellv h) c) as [[v|]|] eqn:En.
        - apply IH; [eapply wf_cell; eauto|].
          apply bound_child_push with (Ufz := unvisited N fz) (x := x); auto.
          + eapply Nat.le_lt_trans; [apply unvisited_incl; exact Hb|]. apply unvisited_push; auto.
          + eapply wf_cell; eauto.
        - exists s. split; [reflexivity | apply incl_refl].
        - apply nth_error_None in En. lia. }
      destruct Hcells as [s2 [E2 I2]]. exists s2. split; [exact E2|].
      eapply incl_tran; [apply incl_tl, incl_refl |]. eapply incl_tran; eassumption.
  - (* bound method: the receiver is older *)
    destruct recv as [r|].
    + apply Nat.ltb_lt in Hw. apply IH; [lia|].
      apply bound_child_down with (Ufz := unvisited N fz) (x := x); auto.
    + exists fz. split; [reflexivity | apply incl_refl].
Qed.

Lemma freeze_total_lemma :
  forall fz x, x < N -> exists fz', freeze code_guards (sq_bound h) h fz x = Done fz' /\ incl fz fz'.
Proof.
  intros fz x Hx. apply freeze_ok; auto.
  unfold sq_bound. fold N. pose proof (unvisited_le N fz). nia.
Qed.

End Freeze.
