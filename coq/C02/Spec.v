(* C02 -- the specification / oracle.  It does not depend on the traversal
   models' proofs: the property is "every operation returns a value or an
   error"; a child process that died (fatal error: stack overflow) is CCrash.
   `predict` turns the model's answer for one operation of the harness into an
   observable class so that the correspondence check can compare it with what
   the implementation did on the same heap. *)
From Coq Require Import ZArith List Bool Arith.
From SV Require Import C02.Model.
Import ListNotations.

Inductive oclass := CValue | CError | CCrash.

(* the property itself *)
Definition spec_class_ok (c : oclass) : bool := match c with CCrash => false | _ => true end.

Definition oclass_eqb (a b : oclass) : bool :=
  match a, b with CValue, CValue | CError, CError | CCrash, CCrash => true | _, _ => false end.

Definition class_of {A} (r : res A) : oclass :=
  match r with
  | Done _ => CValue
  | Fail => CError
  | BadHeap => CError      (* never produced for a generated heap; shows up as a mismatch *)
  | OutOfFuel => CCrash    (* the recursion does not end: the Go stack overflows *)
  end.

Record ccase := mkcase { c_heap : heap; c_op : nat; c_root : loc; c_other : loc; c_obs : oclass }.

(* globals.Freeze(): every global, in some order (the order does not change the class) *)
Definition freeze_all (g : guards) (h : heap) : res (list loc) :=
  fold_res (freeze g (sq_bound h) h) [] (seq 0 (size h)).

Definition predict (g : guards) (c : ccase) : oclass :=
  let h := c_heap c in let r := c_root c in let s := c_other c in
  match c_op c with
  | 0 => class_of (write_value g (sq_bound h) h [] r)                          (* str / repr / print *)
  | 1 => class_of (compare g (S (Z.to_nat compare_limit)) h compare_limit EQL r r)
  | 2 => class_of (compare g (S (Z.to_nat compare_limit)) h compare_limit EQL r s)
  | 3 => class_of (compare g (S (Z.to_nat compare_limit)) h compare_limit NEQ r s)
  | 4 => class_of (compare g (S (Z.to_nat compare_limit)) h compare_limit LT r s)
  | 5 => class_of (hash (size h) h r)                                          (* {r: 1} *)
  | 6 => class_of (freeze_all g h)
  | 7 => class_of (json_emit g (S (size h)) h [] r)
  | _ => match freeze_all g h with                                             (* freeze, then String() *)
         | Done _ => class_of (write_value g (sq_bound h) h [] r)
         | e => class_of e
         end
  end.

(* correspondence: the model (with the guards of the code) predicts the observed class *)
Definition model_ok (c : ccase) : bool := oclass_eqb (predict code_guards c) (c_obs c).
Definition spec_ok (c : ccase) : bool := spec_class_ok (c_obs c).

(* the detector of Model.v (wv_check) against the implementation: printing crashed
   exactly when a struct is re-entered while open (supports, empirically, the
   converse of write_value_total_or_struct_cycle, which is not proved) *)
Definition detector_ok (c : ccase) : bool :=
  match c_op c with
  | 0 =>
      let h := c_heap c in
      match wv_check (cube_bound h) h [] [] (c_root c) with
      | WStructCycle => oclass_eqb (c_obs c) CCrash
      | WDone => oclass_eqb (c_obs c) CValue
      | _ => false
      end
  | _ => true
  end.
